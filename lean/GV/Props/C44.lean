import GV.Proofs.PipelineHist
import GV.Proofs.PipelineDrain
import GV.Proofs.PipelineLive
/-!
C44 — A failed submission does not stall later blocks.

A submission that returns an error, for example because the caller's context expired
while the pipeline was full, does not prevent blocks submitted successfully afterwards
from being applied.

Model: `GV.Model.Pipeline` (step system of Submit, decode / validate workers, apply runner).
Schedules contain `fail` events (a Submit that returned an error) at arbitrary points.
The theorems are about the repaired `Submit` (`legacy = false`, repo commit "fix: a failed
Submit hands its sequence number back …"); `legacy_submit_stalls` is the behaviour of the
code before the repair.
-/
namespace GV.Props.C44
open GV.Model.Pipeline GV.Proofs.Pipeline

/-- A submission that fails while it holds the turn (back-pressure, context expired) only gives
    the turn — and with it the sequence number it had allocated — back: `counter`, the accepted
    blocks and everything in the pipeline are unchanged. -/
theorem failed_submission_changes_nothing (c : Cfg) (h : c.legacy = false) (s s' : St)
    (hs : step c s .fail = some s') : s' = { s with turn := none } := by
  simp only [step, h] at hs
  split at hs
  · simpa using hs.symm
  · simp at hs

/-- Concurrent submitters take turns. A caller that gives up while WAITING for its turn changes
    nothing at all — in particular not the sequence counter (it has not allocated anything), not
    the turn, not `PendingCount()`. -/
theorem waiter_giving_up_changes_nothing (c : Cfg) (s s' : St) (hs : step c s .giveup = some s') :
    s' = { s with waiters := s.waiters - 1 } ∧ seqCounter s' = seqCounter s ∧
    pendingCount s' = pendingCount s ∧ s'.turn = s.turn := by
  simp only [step] at hs
  split at hs
  · have : s' = { s with waiters := s.waiters - 1 } := by simpa using hs.symm
    subst this
    simp [seqCounter, pendingCount, processed]
  · simp at hs

/-- At most one submitter holds the turn, and the number it has allocated is the next one:
    `sequenceCounter` is exactly the number of accepted blocks plus the holder's. -/
theorem turn_holds_next_number (c : Cfg) (hc : c.legacy = false) (s : St) (hr : Reachable c s) :
    (∀ x, s.turn = some x → x.seq = s.counter) ∧
    seqCounter s = s.subs.length + (if s.turn.isSome then 1 else 0) := by
  have hlen : s.subs.length = s.counter := by
    have := (inv_reachable c hc s hr).2.subs_seq
    simpa using congrArg List.length this
  refine ⟨?_, by simp [seqCounter, hlen]⟩
  refine reachable_induction (c := c) (P := fun s => ∀ x, s.turn = some x → x.seq = s.counter)
    (by simp [init]) ?_ s hr
  intro s e s' ih hs
  cases e
  all_goals
    simp only [step, fwdStep, hc] at hs
    repeat' split at hs
  all_goals try (simp at hs; done)
  all_goals
    try injection hs with hs
    subst hs
  all_goals grind

/-- A Submit before Start() (`ErrPipelineNotStarted`) burns no sequence number — not even in
    the code before the repair: the started check precedes the allocation — and nothing can be
    accepted before Start(). -/
theorem submit_before_start_changes_nothing (c : Cfg) (s : St) (h : s.started = false) :
    ∀ x, step c s (.acq x) = none ∧ step c s (.sub x) = none := by
  intro x
  constructor <;> simp [step, h]

/-- `no_seq_gap`. Over all schedules (any number of workers, any interleaving, failed
    submissions anywhere): as long as Stop has not begun, every allocated sequence number
    has either been dequeued by the apply stage or belongs to a block that is still on its
    way there (in a channel, in a worker, in the runner's hand, or in the pending map). -/
theorem no_seq_gap (c : Cfg) (hc : c.legacy = false) (s : St) (hr : Reachable c s)
    (hcn : s.cancelled = false) :
    ∀ i, i < s.counter → i < s.nextSeq ∨ ∃ x ∈ upstream s, x.seq = i := by
  intro i hi
  have hg := noGap_reachable c hc s hr
  by_cases h : i < s.nextSeq
  · exact Or.inl h
  · exact Or.inr (hg.present hcn i (by omega) hi)

/-- The apply stage never waits for a number that nobody holds: when no pipeline goroutine
    can take a step, every allocated sequence number has been dequeued. -/
theorem quiescent_all_dequeued (c : Cfg) (hc : c.legacy = false) (s : St) (hr : Reachable c s)
    (hcn : s.cancelled = false) (hq : Quiescent s) : s.nextSeq = s.counter :=
  quiescent_next s (noGap_reachable c hc s hr) hcn hq

/-- The property: whatever submissions failed along the way, once the pipeline has come to
    rest every successfully submitted good block has been applied, exactly once and in
    submission order, and every accepted block is on the results stream. -/
theorem accepted_blocks_all_applied (c : Cfg) (hc : c.legacy = false) (s : St) (hr : Reachable c s)
    (hcn : s.cancelled = false) (hq : Quiescent s) :
    s.applied = okSeqs c s.subs ∧ s.results = List.range s.counter := by
  obtain ⟨hg, hh⟩ := inv_reachable c hc s hr
  have hn := quiescent_next s hg hcn hq
  have hlen : s.subs.length = s.counter := by simpa using congrArg List.length hh.subs_seq
  obtain ⟨_, _, _, _, _, q6⟩ := hq
  have ha := hh.applied_eq hcn
  have hres := hh.results_eq hcn
  simp only [decided, outAll, q6, hn, List.map_nil, List.append_nil] at ha hres
  refine ⟨?_, hres⟩
  rw [ha, ← hlen, List.take_length]

/-- Liveness without a fairness assumption. From any reachable state (failed submissions
    included in its history) let only the pipeline goroutines run, in any order: such a run has
    at most `measure s` steps, and wherever it stands, either some goroutine can still take a
    step or every block accepted so far has been applied. So the accepted blocks ARE applied
    unless the scheduler stops scheduling the pipeline: no failed submission can stall them. -/
theorem accepted_blocks_get_applied (c : Cfg) (hc : c.legacy = false) (s : St) (hr : Reachable c s)
    (hcn : s.cancelled = false) (es : List Ev) (s' : St)
    (hint : ∀ e ∈ es, internal e = true) (hrun : run c s es = some s') :
    es.length ≤ measure s ∧
    ((∃ e, internal e = true ∧ (step c s' e).isSome = true) ∨
     (s'.applied = okSeqs c s.subs ∧ s'.results = List.range s.counter)) := by
  have hb := internal_run_bounded c es s s' hint hrun
  obtain ⟨k1, k2, k3⟩ := internal_run_keeps c es s s' hint hrun
  have hr' : Reachable c s' := reachable_run es hr hrun
  refine ⟨by omega, ?_⟩
  by_cases hq : Quiescent s'
  · right
    have := accepted_blocks_all_applied c hc s' hr' (by rw [k2]; exact hcn) hq
    rw [k1, k3] at this
    exact this
  · left
    exact progress c s' (wf_reachable c s' hr') hq

/-- Non-vacuity: a schedule with two failed submissions around accepted blocks, ending at rest. -/
example :
    (run ⟨false, false⟩ init
      [.start, .enter, .acq ⟨0, true, true⟩, .fail, .enter, .giveup, .enter, .acq ⟨0, true, true⟩, .sub ⟨0, true, true⟩,
       .enter, .enter, .acq ⟨1, true, true⟩, .giveup, .fail, .enter, .acq ⟨1, false, false⟩, .sub ⟨1, false, false⟩, .dt ⟨1, false, false⟩,
       .dp ⟨1, false, false⟩, .at_ ⟨1, false, false⟩, .ab ⟨1, false, false⟩,
       .dt ⟨0, true, true⟩, .dp ⟨0, true, true⟩, .at_ ⟨0, true, true⟩, .aq ⟨0, true, true⟩,
       .ap ⟨0, true, true⟩, .ad ⟨0, true, true⟩, .aq ⟨1, false, false⟩, .ad ⟨1, false, false⟩,
       .rs ⟨0, true, true⟩, .rs ⟨1, false, false⟩]).map
      (fun s => (decide (Quiescent s), s.cancelled, s.applied, s.results, s.counter))
      = some (true, false, [0], [0, 1], 2) := by decide

/-- The code before the repair (`legacy = true`): one failed submission, then an accepted good
    block that travels through the whole pipeline, is buffered by the apply stage behind the
    lost sequence number and is never applied — the pipeline is at rest with the block pending. -/
theorem legacy_submit_stalls :
    (run ⟨false, true⟩ init
      [.start, .enter, .acq ⟨0, true, true⟩, .fail, .enter, .acq ⟨1, true, true⟩, .sub ⟨1, true, true⟩, .dt ⟨1, true, true⟩, .dp ⟨1, true, true⟩,
       .at_ ⟨1, true, true⟩, .ab ⟨1, true, true⟩]).map
      (fun s => (decide (Quiescent s), s.cancelled, s.applied, s.pending.map Item.seq, s.nextSeq, s.counter))
      = some (true, false, [], [1], 0, 2) := by decide

end GV.Props.C44
