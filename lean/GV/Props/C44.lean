import GV.Model.Pipeline
/-!
C44 — A failed submission does not stall later blocks.
-/
namespace GV.Props.C44
open GV.Model.Pipeline

/-- A failed submission changes nothing (repaired `Submit`). -/
theorem fail_is_noop (c : Cfg) (h : c.legacy = false) (s : St) : step c s .fail = some s := by
  simp [step, h]

end GV.Props.C44
