import GV.Model.Handshake
import GV.Lib.VersionTable
import GV.Proofs.VersionData
import GV.Gen.HandshakeSends
/-!
C19 — A client never settles on a version it did not offer.

An initiator completes a handshake only with a version number it proposed and only if the
accepted version data is valid for that version (the version's own decoder accepts it) and
carries the initiator's own network magic. Any other acceptance is a handshake failure.

`clientHandleAccept` mirrors `handshake.Client.handleAcceptVersion` after the `fix:` commit;
`clientHandleAcceptOld` is the function as it was (decoder lookup only).
-/
namespace GV.Props.C19
open GV.Model.VersionData GV.Model.Handshake

/-- Full statement, for every decoder table `lk`, every proposed map `C` (any order, any
    contents), every version number and every byte string the responder could send. -/
theorem finish_only_proposed (lk : Lookup) (C : VMap) (v : Nat) (data : Bytes) (v' : Nat) (d : VData)
    (h : clientHandleAccept lk C v data = .finished v' d) :
    v' = v ∧ v ∈ keys C ∧
    ∃ own k, lookupMap C v = some own ∧ lk v = some k ∧ decode k data = some d ∧
      d.networkMagic = own.networkMagic := by
  unfold clientHandleAccept at h
  cases hc : lookupMap C v with
  | none => simp [hc] at h
  | some own =>
    cases hk : lk v with
    | none => simp [hc, hk] at h
    | some k =>
      cases hd : decode k data with
      | none => simp [hc, hk, hd] at h
      | some d0 =>
        simp only [hc, hk, hd] at h
        by_cases hm : d0.networkMagic = own.networkMagic
        · simp only [hm, ne_eq, not_true_eq_false, ↓reduceIte, COut.finished.injEq] at h
          obtain ⟨h1, h2⟩ := h
          subst h1; subst h2
          refine ⟨rfl, ?_, own, k, rfl, rfl, hd, hm⟩
          -- the key is in the map
          unfold lookupMap at hc
          cases hf : C.find? (fun p => p.1 == v) with
          | none => simp [hf] at hc
          | some p =>
            have hmem := List.mem_of_find?_eq_some hf
            have hp := List.find?_some hf
            simp only [beq_iff_eq] at hp
            unfold keys
            exact List.mem_map.mpr ⟨p, hmem, hp⟩
        · simp [hm] at h

/-- A version that was not proposed is never settled on, whatever data comes with it. -/
theorem unproposed_fails (lk : Lookup) (C : VMap) (v : Nat) (data : Bytes) (h : v ∉ keys C) :
    clientHandleAccept lk C v data = .err "unproposed" := by
  unfold clientHandleAccept
  have : lookupMap C v = none := by
    unfold lookupMap
    cases hf : C.find? (fun p => p.1 == v) with
    | none => rfl
    | some p =>
      exfalso; apply h
      have hmem := List.mem_of_find?_eq_some hf
      have hp := List.find?_some hf
      simp only [beq_iff_eq] at hp
      exact List.mem_map.mpr ⟨p, hmem, hp⟩
  simp [this]

/-- Every outcome is either `finished` under the three conditions or a failure: nothing else. -/
theorem accept_outcomes (lk : Lookup) (C : VMap) (v : Nat) (data : Bytes) :
    (∃ d, clientHandleAccept lk C v data = .finished v d) ∨
    (∃ why, clientHandleAccept lk C v data = .err why) := by
  unfold clientHandleAccept
  cases hc : lookupMap C v with
  | none => right; exact ⟨_, rfl⟩
  | some own =>
    cases hk : lk v with
    | none => right; exact ⟨_, rfl⟩
    | some k =>
      cases hd : decode k data with
      | none => right; exact ⟨"decode", by simp [hd]⟩
      | some d =>
        by_cases hm : d.networkMagic = own.networkMagic
        · left; exact ⟨d, by simp [hd, hm]⟩
        · right; exact ⟨"magic", by simp [hd, hm]⟩

/-! ### the whole message handler: acceptance, refusal, query reply -/

/-- the initiator asked for a query: some proposed entry carries the query flag -/
def proposedQuery (C : VMap) : Bool := C.any fun p => p.2.query

/-- the property on one reply of the responder: the initiator completes only with a proposed
    version under the three conditions, or — having asked for it — with a query result -/
def C19_full_on (lk : Lookup) (C : VMap) (msg : SMsg) : Prop :=
  match clientHandle lk C msg with
  | .finished v d => v ∈ keys C ∧ ∃ own k data, msg = .accept v data ∧ lookupMap C v = some own ∧
      lk v = some k ∧ decode k data = some d ∧ d.networkMagic = own.networkMagic
  | .queryDone _ => proposedQuery C = true
  | _ => True

/-- Full statement: for every reply a responder could send. -/
def C19_full : Prop := ∀ (lk : Lookup) (C : VMap) (msg : SMsg), C19_full_on lk C msg

/-- What holds: every reply except a query reply nobody asked for. -/
theorem C19_partial (lk : Lookup) (C : VMap) (msg : SMsg)
    (hx : (∃ t, msg = .queryReply t) → proposedQuery C = true) : C19_full_on lk C msg := by
  unfold C19_full_on
  cases msg with
  | accept v data =>
    simp only [clientHandle]
    cases h : clientHandleAccept lk C v data with
    | finished v' d =>
      obtain ⟨hv, hk, own, k, h1, h2, h3, h4⟩ := finish_only_proposed lk C v data v' d h
      subst hv
      exact ⟨hk, own, k, data, rfl, h1, h2, h3, h4⟩
    | queryDone t =>
      rcases accept_outcomes lk C v data with ⟨d, hd⟩ | ⟨w, hw⟩ <;> simp_all
    | refusedErr r => trivial
    | err w => trivial
  | refuse r => simp [clientHandle]
  | queryReply t => simp only [clientHandle]; exact hx ⟨t, rfl⟩

/-- Message decoding in front of the handler only adds failures: what the initiator does with a
    received message is the handler's outcome, or a decode failure. -/
theorem receive_refines (lk : Lookup) (C : VMap) (msg : SMsg) :
    clientReceive lk C msg = clientHandle lk C msg ∨ clientReceive lk C msg = .err "decode" := by
  unfold clientReceive
  split
  · left; rfl
  · right; rfl

/-- so the property carries over to the receive path, for every message -/
theorem receive_partial (lk : Lookup) (C : VMap) (msg : SMsg)
    (hx : (∃ t, msg = .queryReply t) → proposedQuery C = true) :
    match clientReceive lk C msg with
    | .finished v _ => v ∈ keys C
    | .queryDone _ => proposedQuery C = true
    | _ => True := by
  rcases receive_refines lk C msg with h | h
  · rw [h]
    have := C19_partial lk C msg hx
    unfold C19_full_on at this
    cases hc : clientHandle lk C msg <;> simp_all
  · rw [h]; trivial

/-- **Recorded finding** (class `unsolicited-queryreply`): an initiator that did not ask for a
    query and is answered `QueryReply {}` completes the handshake — FinishedFunc(0, nil), no
    error — although it never proposed version 0. (`TestClientQueryReply` in the repository
    asserts this behaviour, so it is recorded, not repaired.) -/
theorem C19_witness :
    ¬ C19_full_on GV.Lib.VersionTable.lk
        [(32784, genEntry .ntc15 764824073 true false false)] (.queryReply []) := by
  have hq : proposedQuery [(32784, genEntry .ntc15 764824073 true false false)] = false := by decide
  unfold C19_full_on
  simp only [clientHandle, decodeTable, List.filterMap_nil]
  rw [hq]; simp

theorem C19_full_false : ¬ C19_full := fun h => C19_witness (h _ _ _)

/-! ### the version number on the wire -/

/-- **The wire number itself must be a proposed version.** If the version item of the acceptance
    is an unsigned integer `n` (any head width, also a bignum or tagged integer) and the
    handshake completes, then it completes with exactly `n`, `n` fits 16 bits and `n` was
    proposed — a wider number is never narrowed to a proposed version. -/
theorem wire_version_literal (lk : Lookup) (C : VMap) (ver data : Bytes) (n v' : Nat) (d : VData)
    (hn : readTagged (ver.length + 1) ver = some (Item.uint n, []))
    (h : clientReceiveAccept lk C ver data = .finished v' d) :
    n = v' ∧ n < 65536 ∧ v' ∈ keys C := by
  unfold clientReceiveAccept at h
  split at h
  · simp at h
  · unfold decodeU16 at h
    rw [hn] at h
    simp only [asU16] at h
    by_cases hlt : n < 65536
    · simp only [hlt, ↓reduceIte] at h
      obtain ⟨hv, hk, _⟩ := finish_only_proposed lk C n data v' d h
      exact ⟨hv.symm, hlt, hv ▸ hk⟩
    · simp [hlt] at h

/-- An acceptance whose version number does not fit 16 bits always fails — whatever its low 16
    bits are, whatever data comes with it (for every head width that can carry it). -/
theorem wide_version_fails (lk : Lookup) (C : VMap) (data : Bytes) (n : Nat)
    (hw : 65536 ≤ n) (h64 : n < 18446744073709551616) :
    ∃ why, clientReceiveAccept lk C (encodeUint n) data = .err why := by
  have hn : readTagged ((encodeUint n).length + 1) (encodeUint n) = some (Item.uint n, []) := by
    have := GV.Proofs.VersionData.readTagged_encodeUint (encodeUint n).length n h64 []
    simpa using this
  unfold clientReceiveAccept
  split
  · exact ⟨_, rfl⟩
  · unfold decodeU16
    rw [hn]
    have : ¬ n < 65536 := by omega
    simp only [asU16, this, ↓reduceIte]
    exact ⟨_, rfl⟩

/-- Regenerated tie (go/ast of protocol/handshake on every run): the version fields of the
    handshake messages and refusal errors are 16-bit, the FinishedFunc callback takes a uint16,
    and handleAcceptVersion contains no integer conversion (so no narrowing), one lookup in the
    proposed map, one magic comparison and one FinishedFunc call. -/
theorem version_fields_are_uint16 :
    (∀ e ∈ [("MsgAcceptVersion", "Version", "uint16"),
            ("MsgProposeVersions", "VersionMap", "map[uint16]cbor.RawMessage"),
            ("MsgQueryReply", "VersionMap", "map[uint16]cbor.RawMessage"),
            ("VersionMismatchError", "SupportedVersions", "[]uint16"),
            ("DecodeError", "Version", "uint16"), ("RefusedError", "Version", "uint16")],
        e ∈ GV.Gen.HandshakeSends.fieldTypes) ∧
    GV.Gen.HandshakeSends.finishedFuncType = "func(CallbackContext, uint16, protocol.VersionData) error" ∧
    GV.Gen.HandshakeSends.clientAcceptIntConversions = 0 ∧
    GV.Gen.HandshakeSends.clientAcceptLooksUpProposed = 1 ∧
    GV.Gen.HandshakeSends.clientAcceptMagicComparisons = 1 ∧
    GV.Gen.HandshakeSends.clientAcceptFinishCalls = 1 := by
  decide

/-- Non-vacuity: 2^16 + 13 in a 4-byte head, sent to an initiator that proposed 13, fails. -/
example : clientReceiveAccept GV.Lib.VersionTable.lk [(13, genEntry .ntn13 1 true false false)]
    (encodeUint 65549) [0x84, 0x01, 0xf4, 0x00, 0xf4] = .err "decode" := by decide

/-- … and the same data with the literal 13 in an 8-byte head completes. -/
example : clientReceiveAccept GV.Lib.VersionTable.lk [(13, genEntry .ntn13 1 true false false)]
    [27, 0, 0, 0, 0, 0, 0, 0, 13] [0x84, 0x01, 0xf4, 0x00, 0xf4] =
    .finished 13 { kind := .ntn13, magic := 1, dm := false, ps := 0, q := false } := by decide

/-- The defect that was repaired, on the regenerated tables: an NtC initiator with the mainnet
    magic that proposed the whole NtC table, answered `AcceptVersion 13 [42,false,0,false]`.
    The old function settles on version 13 with magic 42; the repaired one fails. -/
theorem old_code_witness :
    let C : VMap := (GV.Gen.Versions.mapNtC.filterMap fun p =>
      (Kind.ofNat? p.2).map fun k => (p.1, genEntry k 764824073 true false false))
    let data : Bytes := [0x84, 0x18, 0x2a, 0xf4, 0x00, 0xf4]
    clientHandleAcceptOld GV.Lib.VersionTable.lk 13 data =
        .finished 13 { kind := .ntn13, magic := 42, dm := false, ps := 0, q := false } ∧
    13 ∉ keys C ∧
    clientHandleAccept GV.Lib.VersionTable.lk C 13 data = .err "unproposed" := by
  decide

/-- Non-vacuity: an honest acceptance is settled on. -/
example :
    clientHandleAccept GV.Lib.VersionTable.lk
      [(32784, genEntry .ntc15 764824073 true false false)] 32784 [0x82, 0x1a, 0x2d, 0x96, 0x4a, 0x09, 0xf4]
      = .finished 32784 { kind := .ntc15, magic := 764824073 } := by decide

/-- Non-vacuity of the magic clause: same acceptance with a foreign magic fails. -/
example :
    clientHandleAccept GV.Lib.VersionTable.lk
      [(32784, genEntry .ntc15 764824073 true false false)] 32784 [0x82, 0x18, 0x2a, 0xf4]
      = .err "magic" := by decide

end GV.Props.C19
