import GV.Model.Handshake
import GV.Lib.VersionTable
/-!
C19 — A client never settles on a version it did not offer.

An initiator completes a handshake only with a version number it proposed and only if the
accepted version data is valid for that version (the version's own decoder accepts it) and
carries the initiator's own network magic. Any other acceptance is a handshake failure.

`clientHandleAccept` mirrors `handshake.Client.handleAcceptVersion` after the `fix:` commit;
`clientHandleAcceptOld` is the function as it was (decoder lookup only).
-/
namespace GV.Props.C19
open GV.Model.VersionData GV.Model.Handshake

/-- Full statement, for every decoder table `lk`, every proposed map `C` (any order, any
    contents), every version number and every byte string the responder could send. -/
theorem finish_only_proposed (lk : Lookup) (C : VMap) (v : Nat) (data : Bytes) (v' : Nat) (d : VData)
    (h : clientHandleAccept lk C v data = .finished v' d) :
    v' = v ∧ v ∈ keys C ∧
    ∃ own k, lookupMap C v = some own ∧ lk v = some k ∧ decode k data = some d ∧
      d.networkMagic = own.networkMagic := by
  unfold clientHandleAccept at h
  cases hc : lookupMap C v with
  | none => simp [hc] at h
  | some own =>
    cases hk : lk v with
    | none => simp [hc, hk] at h
    | some k =>
      cases hd : decode k data with
      | none => simp [hc, hk, hd] at h
      | some d0 =>
        simp only [hc, hk, hd] at h
        by_cases hm : d0.networkMagic = own.networkMagic
        · simp only [hm, ne_eq, not_true_eq_false, ↓reduceIte, COut.finished.injEq] at h
          obtain ⟨h1, h2⟩ := h
          subst h1; subst h2
          refine ⟨rfl, ?_, own, k, rfl, rfl, hd, hm⟩
          -- the key is in the map
          unfold lookupMap at hc
          cases hf : C.find? (fun p => p.1 == v) with
          | none => simp [hf] at hc
          | some p =>
            have hmem := List.mem_of_find?_eq_some hf
            have hp := List.find?_some hf
            simp only [beq_iff_eq] at hp
            unfold keys
            exact List.mem_map.mpr ⟨p, hmem, hp⟩
        · simp [hm] at h

/-- A version that was not proposed is never settled on, whatever data comes with it. -/
theorem unproposed_fails (lk : Lookup) (C : VMap) (v : Nat) (data : Bytes) (h : v ∉ keys C) :
    clientHandleAccept lk C v data = .err "unproposed" := by
  unfold clientHandleAccept
  have : lookupMap C v = none := by
    unfold lookupMap
    cases hf : C.find? (fun p => p.1 == v) with
    | none => rfl
    | some p =>
      exfalso; apply h
      have hmem := List.mem_of_find?_eq_some hf
      have hp := List.find?_some hf
      simp only [beq_iff_eq] at hp
      exact List.mem_map.mpr ⟨p, hmem, hp⟩
  simp [this]

/-- Every outcome is either `finished` under the three conditions or a failure: nothing else. -/
theorem accept_outcomes (lk : Lookup) (C : VMap) (v : Nat) (data : Bytes) :
    (∃ d, clientHandleAccept lk C v data = .finished v d) ∨
    (∃ why, clientHandleAccept lk C v data = .err why) := by
  unfold clientHandleAccept
  cases hc : lookupMap C v with
  | none => right; exact ⟨_, rfl⟩
  | some own =>
    cases hk : lk v with
    | none => right; exact ⟨_, rfl⟩
    | some k =>
      cases hd : decode k data with
      | none => right; exact ⟨"decode", by simp [hd]⟩
      | some d =>
        by_cases hm : d.networkMagic = own.networkMagic
        · left; exact ⟨d, by simp [hd, hm]⟩
        · right; exact ⟨"magic", by simp [hd, hm]⟩

/-- The defect that was repaired, on the regenerated tables: an NtC initiator with the mainnet
    magic that proposed the whole NtC table, answered `AcceptVersion 13 [42,false,0,false]`.
    The old function settles on version 13 with magic 42; the repaired one fails. -/
theorem old_code_witness :
    let C : VMap := (GV.Gen.Versions.mapNtC.filterMap fun p =>
      (Kind.ofNat? p.2).map fun k => (p.1, genEntry k 764824073 true false false))
    let data : Bytes := [0x84, 0x18, 0x2a, 0xf4, 0x00, 0xf4]
    clientHandleAcceptOld GV.Lib.VersionTable.lk 13 data =
        .finished 13 { kind := .ntn13, magic := 42, dm := false, ps := 0, q := false } ∧
    13 ∉ keys C ∧
    clientHandleAccept GV.Lib.VersionTable.lk C 13 data = .err "unproposed" := by
  decide

/-- Non-vacuity: an honest acceptance is settled on. -/
example :
    clientHandleAccept GV.Lib.VersionTable.lk
      [(32784, genEntry .ntc15 764824073 true false false)] 32784 [0x82, 0x1a, 0x2d, 0x96, 0x4a, 0x09, 0xf4]
      = .finished 32784 { kind := .ntc15, magic := 764824073 } := by decide

/-- Non-vacuity of the magic clause: same acceptance with a foreign magic fails. -/
example :
    clientHandleAccept GV.Lib.VersionTable.lk
      [(32784, genEntry .ntc15 764824073 true false false)] 32784 [0x82, 0x18, 0x2a, 0xf4]
      = .err "magic" := by decide

end GV.Props.C19
