import GV.Model.Witness
import GV.Model.WitnessSym
import GV.Gen.RuleLists
import GV.Gen.WitnessFacts
/-!
C28 — Spending requires a valid signature from the owner.

If signature validation accepts a transaction, then every key-locked input and every
collateral input is owned by a key whose verification key appears in the witnesses (or, for
Byron inputs, a bootstrap witness that derives the address root). Every supplied witness
signature verifies against the transaction id, and every required signer has a witness.

Theorems are about `GV.Model.Witness` for an arbitrary instance `P` of the primitives.
-/
namespace GV.Props.C28
open GV.Model.Witness

variable {VKey Sig Hash Msg CC Attr : Type}
variable (P : Prims VKey Sig Hash Msg CC Attr) [DecidableEq Hash]

omit [DecidableEq Hash] in
theorem mem_provided (t : Tx VKey Sig Hash Msg CC Attr) (h : Hash) [DecidableEq Hash]
    (hc : (provided P t).contains h = true) : ∃ w ∈ t.vkeys, P.h224 w.vkey = h := by
  simp only [provided, List.contains_eq_mem, List.mem_map, decide_eq_true_eq] at hc
  obtain ⟨w, hw, e⟩ := hc
  exact ⟨w, hw, e⟩

/-- **Full statement**: acceptance by the three rules gives every clause of the property. -/
theorem accepted_sound (t : Tx VKey Sig Hash Msg CC Attr) (h : accepted P t = true) :
    -- every key-locked input has its owner's verification key among the witnesses
    (∀ o ∈ t.inputs, ∀ kh, o = Owner.key kh → ∃ w ∈ t.vkeys, P.h224 w.vkey = kh) ∧
    -- every Byron input has such a key, or a bootstrap witness deriving the address root
    (∀ o ∈ t.inputs, ∀ r, o = Owner.byron r →
        (∃ w ∈ t.vkeys, P.h224 w.vkey = r) ∨
        (∃ b ∈ t.boots, b.pkLen = 32 ∧ b.ccLen = 32 ∧ P.byronRoot b.pk b.cc b.attrs = r)) ∧
    -- every collateral input resolves, is key-owned, and that key is among the witnesses
    (∀ o ∈ t.collateral, ∃ kh, (o = Owner.key kh ∨ o = Owner.byron kh) ∧
        ∃ w ∈ t.vkeys, P.h224 w.vkey = kh) ∧
    -- every supplied vkey / bootstrap signature verifies against the transaction id
    (∀ w ∈ t.vkeys, w.vkeyLen = 32 ∧ w.sigLen = 64 ∧ P.verify w.vkey t.txId w.sig = true) ∧
    (∀ b ∈ t.boots, b.pkLen = 32 ∧ b.sigLen = 64 ∧ P.verify b.pk t.txId b.sig = true) ∧
    -- every required signer has a witness
    (∀ r ∈ t.required, ∃ w ∈ t.vkeys, P.h224 w.vkey = r) := by
  unfold accepted utxoValidateSignatures at h
  simp only [Bool.and_eq_true] at h
  obtain ⟨⟨⟨⟨hvk, hbw⟩, hin⟩, hcoll⟩, hreq⟩ := h
  refine ⟨?_, ?_, ?_, ?_, ?_, ?_⟩
  · intro o ho kh e
    subst e
    have := (List.all_eq_true.mp hin) _ ho
    exact mem_provided P t kh (by simpa [inputOk] using this)
  · intro o ho r e
    subst e
    have := (List.all_eq_true.mp hin) _ ho
    simp only [inputOk, Bool.or_eq_true] at this
    rcases this with h1 | h2
    · exact Or.inl (mem_provided P t r h1)
    · right
      obtain ⟨b, hb, hd⟩ := List.any_eq_true.mp h2
      simp only [bootDerives, Bool.and_eq_true, beq_iff_eq] at hd
      exact ⟨b, hb, hd.1.1, hd.1.2, hd.2⟩
  · intro o ho
    unfold validateCollateralVKeyWitnesses at hcoll
    split at hcoll
    · rename_i he
      simp only [List.isEmpty_iff] at he
      simp [he] at ho
    · split at hcoll
      · simp at hcoll
      · have := (List.all_eq_true.mp hcoll) _ ho
        cases o with
        | key kh => exact ⟨kh, Or.inl rfl, mem_provided P t kh (by simpa [collateralOk] using this)⟩
        | byron r => exact ⟨r, Or.inr rfl, mem_provided P t r (by simpa [collateralOk] using this)⟩
        | script => simp [collateralOk] at this
        | missing => simp [collateralOk] at this
  · intro w hw
    have := (List.all_eq_true.mp hvk) _ hw
    simp only [vkeySigOk, Bool.and_eq_true, beq_iff_eq] at this
    exact ⟨this.1.1, this.1.2, this.2⟩
  · intro b hb
    have := (List.all_eq_true.mp hbw) _ hb
    simp only [bootSigOk, Bool.and_eq_true, beq_iff_eq] at this
    exact ⟨this.1.1, this.1.2, this.2⟩
  · intro r hr
    unfold validateRequiredVKeyWitnesses at hreq
    split at hreq
    · rename_i he
      simp only [List.isEmpty_iff] at he
      simp [he] at hr
    · split at hreq
      · simp at hreq
      · have := (List.all_eq_true.mp hreq) _ hr
        exact mem_provided P t r this

/-- **Symbolic reading** (ideal signature, injective key hash): acceptance means that the holder
    of the owner's secret key signed *this* transaction id — for every key-locked input and
    every collateral input the witness set contains `sign sk txId` where `sk` is the secret key
    whose public key hashes to the owner's key hash. -/
theorem owner_signed (SK : Type) (pkOf : SK → VKey) (sign : SK → Msg → Sig)
    (hbind : ∀ vk m σ, P.verify vk m σ = true → ∃ sk, vk = pkOf sk ∧ σ = sign sk m)
    (hinj : ∀ a b, P.h224 a = P.h224 b → a = b)
    (hpk : ∀ a b, pkOf a = pkOf b → a = b)
    (t : Tx VKey Sig Hash Msg CC Attr) (h : accepted P t = true) (owner : SK)
    (o : Owner Hash) (ho : o ∈ t.inputs ∨ o ∈ t.collateral)
    (hown : o = Owner.key (P.h224 (pkOf owner))) :
    ∃ w ∈ t.vkeys, w.vkey = pkOf owner ∧ w.sig = sign owner t.txId := by
  obtain ⟨h1, _, h3, h4, _, _⟩ := accepted_sound P t h
  have hw : ∃ w ∈ t.vkeys, P.h224 w.vkey = P.h224 (pkOf owner) := by
    rcases ho with ho | ho
    · exact h1 o ho _ hown
    · obtain ⟨kh, hk, hw⟩ := h3 o ho
      rcases hk with hk | hk
      · rw [hown] at hk
        injection hk with hk
        rw [hk]; exact hw
      · rw [hown] at hk; cases hk
  obtain ⟨w, hwm, hh⟩ := hw
  have hv := (h4 w hwm).2.2
  obtain ⟨sk, e1, e2⟩ := hbind _ _ _ hv
  have : w.vkey = pkOf owner := hinj _ _ hh
  have hsk : sk = owner := hpk _ _ (by rw [← e1, this])
  exact ⟨w, hwm, this, by rw [e2, hsk]⟩

/-- A single bad signature anywhere in the witness set rejects the transaction, related to an
    input or not. -/
theorem any_bad_signature_rejects (t : Tx VKey Sig Hash Msg CC Attr) (w : VkeyWit VKey Sig)
    (hw : w ∈ t.vkeys) (hbad : P.verify w.vkey t.txId w.sig = false) : accepted P t = false := by
  cases h : accepted P t with
  | false => rfl
  | true =>
    have := ((accepted_sound P t h).2.2.2.1 w hw).2.2
    rw [hbad] at this; cases this

/-- Regenerated tie: the three modelled rules are entries of the era rule lists as they stand
    in /repo now (collateral rule from Alonzo on). -/
theorem rules_listed :
    (∀ l ∈ [GV.Gen.RuleLists.shelley, GV.Gen.RuleLists.allegra, GV.Gen.RuleLists.mary,
            GV.Gen.RuleLists.alonzo, GV.Gen.RuleLists.babbage, GV.Gen.RuleLists.conway],
      "UtxoValidateSignatures" ∈ l ∧ "UtxoValidateRequiredVKeyWitnesses" ∈ l) ∧
    (∀ l ∈ [GV.Gen.RuleLists.alonzo, GV.Gen.RuleLists.babbage, GV.Gen.RuleLists.conway],
      "UtxoValidateCollateralVKeyWitnesses" ∈ l) ∧
    "conway.UtxoValidateSignatures" ∈ GV.Gen.RuleLists.dijkstra ∧
    "conway.UtxoValidateRequiredVKeyWitnesses" ∈ GV.Gen.RuleLists.dijkstra ∧
    "conway.UtxoValidateCollateralVKeyWitnesses" ∈ GV.Gen.RuleLists.dijkstra := by
  decide

/-- Regenerated source facts: the order of the three sub-checks of `UtxoValidateSignatures`,
    every byte-length comparison and the branch conditions of the input / collateral checks as
    they stand in ledger/common/{verify,witness,rules}.go on this run. -/
theorem source_facts :
    GV.Gen.WitnessFacts.signaturesCalls =
      ["ValidateVKeyWitnesses", "ValidateBootstrapWitnesses", "ValidateInputVKeyWitnesses"] ∧
    GV.Gen.WitnessFacts.verifyVKeySignature_lens =
      [("pubKey", "!=", "ed25519.PublicKeySize"), ("sig", "!=", "ed25519.SignatureSize")] ∧
    GV.Gen.WitnessFacts.bootstrap_lens =
      [("bw.PublicKey", "!=", "ed25519.PublicKeySize"), ("bw.Signature", "!=", "ed25519.SignatureSize")] ∧
    GV.Gen.WitnessFacts.byronRoot_lens = [("pubkey", "!=", "32"), ("chainCode", "!=", "32")] ∧
    GV.Gen.WitnessFacts.collateral_lens = [("collateral", "==", "0"), ("w.Vkey()", "==", "0")] ∧
    GV.Gen.WitnessFacts.required_lens =
      [("tx.RequiredSigners()", "+", "len(tx.Withdrawals())"), ("required", "==", "0"),
       ("w.Vkey()", "==", "0")] ∧
    GV.Gen.WitnessFacts.inputConds =
      ["w != nil", "w != nil", "err != nil", "utxo.Output == nil", "!ok",
       "addr.Type() == AddressTypeByron", "err != nil", "addrRoot == h", "!found"] ∧
    GV.Gen.WitnessFacts.collateralConds =
      ["len(collateral) == 0", "w == nil || len(w.Vkey()) == 0", "err != nil", "!ok", "!ok"] := by
  decide

/-! ### non-vacuity on the symbolic instance -/
open GV.Model.WitnessSym

def exTx : Tx VK SG H Nat Nat Nat :=
  { txId := 0
    inputs := [.key (H.kh (VK.k 1)), .byron (H.root (VK.k 2) 0 1), .script, .missing]
    collateral := [.key (H.kh (VK.k 1))]
    required := [H.kh (VK.k 3)]
    vkeys := [⟨VK.k 3, 32, SG.sg 3 0, 64⟩, ⟨VK.k 1, 32, SG.sg 1 0, 64⟩]
    boots := [⟨VK.k 2, 32, SG.sg 2 0, 64, 0, 32, 1⟩] }

example : accepted sym exTx = true := by decide
/-- valid-but-unrelated witness plus missing owner -/
example : accepted sym { exTx with vkeys := [⟨VK.k 3, 32, SG.sg 3 0, 64⟩, ⟨VK.k 9, 32, SG.sg 9 0, 64⟩] }
    = false := by decide
/-- the hypotheses of `owner_signed` hold for the symbolic instance -/
example : ∀ vk m σ, sym.verify vk m σ = true →
    ∃ sk, vk = (fun i => VK.k i) sk ∧ σ = (fun i m => SG.sg i m) sk m := by
  intro vk m σ h
  cases vk <;> cases σ <;> simp [sym] at h ⊢
  exact ⟨h.1.symm, h.2.symm⟩
example : ∀ a b, sym.h224 a = sym.h224 b → a = b := by
  intro a b h; simpa [sym] using h

end GV.Props.C28
