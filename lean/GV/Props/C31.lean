import GV.Model.ScriptDataHash
import GV.Lib.AssocMap
import GV.Gen.RuleLists
import GV.Gen.ShortLex
/-!
C31 — The script data hash binds redeemers, datums and cost models.

Blake2b-256 is an abstract digest `h : Bytes → D`; the theorems say what the rule compares, not
that the hash is collision resistant (symbolic model).
-/
namespace GV.Props.C31
open GV.Model.ScriptDataHash GV.Lib.CborLite

/-- The rule passes only if: nothing to bind and no hash declared, or the declared hash is the
    digest of  redeemers ++ datums(if any) ++ language views. -/
theorem rule_ok_iff {D : Type} [DecidableEq D] (h : Bytes → D) (cm : Nat → Option (List Int)) (t : Tx D) :
    rule h cm t = .ok ↔
      (t.nRedeemers = 0 ∧ t.nDatums = 0 ∧ t.declared = none) ∨
      (¬ (t.nRedeemers = 0 ∧ t.nDatums = 0) ∧ (∀ v ∈ t.used, (cm v).isSome) ∧
        ∃ d lv, t.declared = some d ∧ encodeLangViews t.used cm = .ok lv ∧ d = h (preimage t lv)) := by
  constructor
  · intro hr
    unfold rule at hr
    by_cases h0 : t.nRedeemers = 0 ∧ t.nDatums = 0
    · left
      simp only [h0, and_self, ↓reduceIte] at hr
      cases hd : t.declared with
      | none => exact ⟨h0.1, h0.2, rfl⟩
      | some d => simp [hd] at hr
    · right
      simp only [h0, ↓reduceIte] at hr
      cases hd : t.declared with
      | none => simp [hd] at hr
      | some d =>
        simp only [hd] at hr
        by_cases hc : t.used.any (fun v => (cm v).isNone) = true
        · simp [hc] at hr
        · simp only [hc, Bool.false_eq_true, ↓reduceIte] at hr
          have hall : ∀ v ∈ t.used, (cm v).isSome := by
            intro v hv
            cases hcv : cm v with
            | some _ => rfl
            | none =>
              exfalso; apply hc
              rw [List.any_eq_true]; exact ⟨v, hv, by simp [hcv]⟩
          cases he : encodeLangViews t.used cm with
          | error e => simp [he] at hr
          | ok lv =>
            simp only [he] at hr
            by_cases hdd : d = h (preimage t lv)
            · exact ⟨h0, hall, d, lv, rfl, rfl, hdd⟩
            · simp [hdd] at hr
  · rintro (⟨h1, h2, h3⟩ | ⟨h0, hall, d, lv, hd, he, hq⟩)
    · unfold rule; simp [h1, h2, h3]
    · unfold rule
      have hc : t.used.any (fun v => (cm v).isNone) = false := by
        rw [List.any_eq_false]
        intro v hv
        have := hall v hv
        cases hcv : cm v <;> simp_all
      simp only [h0, ↓reduceIte, hd, hc, Bool.false_eq_true, he, hq]

/-- "A declared hash without redeemers or datums is rejected". -/
theorem extraneous_rejected {D : Type} [DecidableEq D] (h : Bytes → D) (cm : Nat → Option (List Int))
    (t : Tx D) (h0 : t.nRedeemers = 0 ∧ t.nDatums = 0) (d : D) (hd : t.declared = some d) :
    rule h cm t = .extraneous := by
  unfold rule; simp [h0, hd]

/-- "…as is a missing one when they are present". -/
theorem missing_rejected {D : Type} [DecidableEq D] (h : Bytes → D) (cm : Nat → Option (List Int))
    (t : Tx D) (h0 : ¬ (t.nRedeemers = 0 ∧ t.nDatums = 0)) (hd : t.declared = none) :
    rule h cm t = .missing := by
  unfold rule; simp [h0, hd]

/-- Under an injective digest (ideal binding) the accepted hash determines the bound bytes:
    two transactions accepted with the same declared hash have the same pre-image. -/
theorem binding {D : Type} [DecidableEq D] (h : Bytes → D) (hinj : Function.Injective h)
    (cm : Nat → Option (List Int)) (t1 t2 : Tx D) (d : D)
    (hd1 : t1.declared = some d) (hd2 : t2.declared = some d)
    (ha1 : rule h cm t1 = .ok) (ha2 : rule h cm t2 = .ok) :
    ∃ lv1 lv2, encodeLangViews t1.used cm = .ok lv1 ∧ encodeLangViews t2.used cm = .ok lv2 ∧
      preimage t1 lv1 = preimage t2 lv2 := by
  rw [rule_ok_iff] at ha1 ha2
  rcases ha1 with ⟨_, _, hn⟩ | ⟨_, _, d1, lv1, h1, e1, q1⟩
  · rw [hn] at hd1; cases hd1
  rcases ha2 with ⟨_, _, hn⟩ | ⟨_, _, d2, lv2, h2, e2, q2⟩
  · rw [hn] at hd2; cases hd2
  rw [hd1] at h1; rw [hd2] at h2; cases h1; cases h2
  exact ⟨lv1, lv2, e1, e2, hinj (q1.symm.trans q2)⟩

/-- non-vacuity of `binding`'s hypothesis: the identity digest is injective -/
example : Function.Injective (fun b : Bytes => b) := fun _ _ h => h

/-- all nodup lists over {0,1,2,3}: every iteration order of every subset of the four languages -/
def allOrders : List (List Nat) :=
  let perms : List Nat → List (List Nat) := fun l =>
    l.foldr (fun x acc => acc.flatMap (fun p => (List.range (p.length + 1)).map (fun i => p.take i ++ [x] ++ p.drop i))) [[]]
  let rec subl : List Nat → List (List Nat)
    | [] => [[]]
    | x :: r => subl r ++ (subl r).map (x :: ·)
  (subl [0, 1, 2, 3]).flatMap perms

/-- The sorted key order is the canonical one (01, 02, 03, 4100) for every subset of languages and
    every iteration order of the Go map — checked on the complete finite domain (65 lists). -/
theorem key_order_canonical :
    ∀ used ∈ allOrders,
      (sortViews (used.map (fun v => (tagOf v, ([] : Bytes))))).map (·.1) =
        ([1, 2, 3, 0].filter (fun v => used.contains v)).map tagOf := by
  decide

example : allOrders.length = 65 := by decide


-- ------------------------------------------------------------------ byte-level language views

/-- insertion sort of version numbers by their tags (the sort of `EncodeLangViews`, keys only) -/
def insertV (x : Nat) : List Nat → List Nat
  | [] => [x]
  | y :: r => if shortLexLt (tagOf x) (tagOf y) then x :: y :: r else y :: insertV x r

def sortV : List Nat → List Nat
  | [] => []
  | x :: r => insertV x (sortV r)

theorem insertView_map (g : Nat → Bytes) (x : Nat) (l : List Nat) :
    insertView (tagOf x, g x) (l.map (fun v => (tagOf v, g v))) =
      (insertV x l).map (fun v => (tagOf v, g v)) := by
  induction l with
  | nil => rfl
  | cons y r ih =>
    simp only [List.map_cons, insertView, insertV]
    split
    · rfl
    · simp only [List.map_cons, ih]

theorem sortViews_map (g : Nat → Bytes) (l : List Nat) :
    sortViews (l.map (fun v => (tagOf v, g v))) = (sortV l).map (fun v => (tagOf v, g v)) := by
  induction l with
  | nil => rfl
  | cons x r ih => simp only [List.map_cons, sortViews, sortV, ih, insertView_map]

/-- on the complete finite domain the sorted order is 1,2,3,0 restricted to the used versions -/
theorem sortV_canonical : ∀ used ∈ allOrders, sortV used = [1, 2, 3, 0].filter (fun v => used.contains v) := by
  decide

theorem ao1 : ∀ a, a < 4 → [a] ∈ allOrders := by decide
theorem ao2 : ∀ a, a < 4 → ∀ b, b < 4 → [a, b].Nodup → [a, b] ∈ allOrders := by decide
set_option synthInstance.maxSize 2000 in
theorem ao3 : ∀ a, a < 4 → ∀ b, b < 4 → ∀ c, c < 4 → [a, b, c].Nodup → [a, b, c] ∈ allOrders := by decide
set_option synthInstance.maxSize 4000 in
set_option maxRecDepth 4000 in
theorem ao4 : ∀ a, a < 4 → ∀ b, b < 4 → ∀ c, c < 4 → ∀ d, d < 4 → [a, b, c, d].Nodup →
    [a, b, c, d] ∈ allOrders := by decide

/-- `allOrders` is complete: every duplicate-free list of supported versions is in it -/
theorem allOrders_complete (used : List Nat) (hn : used.Nodup) (hb : ∀ v ∈ used, v < 4) :
    used ∈ allOrders := by
  have hlen : used.length ≤ 4 := by
    have := GV.Lib.AssocMap.length_le_of_nodup_subset (l₂ := [0, 1, 2, 3]) hn (by
      intro v hv; have := hb v hv
      simp only [List.mem_cons, List.not_mem_nil, or_false]; omega)
    simpa using this
  match used, hn, hb, hlen with
  | [], _, _, _ => decide
  | [a], _, hb, _ => exact ao1 a (hb a (by simp))
  | [a, b], hn, hb, _ => exact ao2 a (hb a (by simp)) b (hb b (by simp)) hn
  | [a, b, c], hn, hb, _ => exact ao3 a (hb a (by simp)) b (hb b (by simp)) c (hb c (by simp)) hn
  | [a, b, c, d], hn, hb, _ =>
    exact ao4 a (hb a (by simp)) b (hb b (by simp)) c (hb c (by simp)) d (hb d (by simp)) hn
  | _ :: _ :: _ :: _ :: _ :: _, _, _, hl => simp at hl

theorem views_ok (cm : Nat → Option (List Int)) : ∀ (used : List Nat),
    (∀ v ∈ used, v < 4) → (∀ v ∈ used, (cm v).isSome) →
    views used cm = .ok (used.map (fun v => (tagOf v, paramsOf v ((cm v).getD [])))) := by
  intro used
  induction used with
  | nil => intro _ _; rfl
  | cons x r ih =>
    intro hb hc
    have hx := hb x List.mem_cons_self
    have hcx := hc x List.mem_cons_self
    have ihr := ih (fun v hv => hb v (List.mem_cons_of_mem _ hv)) (fun v hv => hc v (List.mem_cons_of_mem _ hv))
    unfold views at ihr ⊢
    rw [List.mapM_cons]
    have h3 : ¬ x > 3 := by omega
    cases hcm : cm x with
    | none => rw [hcm] at hcx; simp at hcx
    | some m =>
      simp only [h3, ↓reduceIte, hcm, ihr, Option.getD_some, List.map_cons]
      rfl

theorem mapM_params (cm : Nat → Option (List Int)) : ∀ (l : List Nat), (∀ v ∈ l, (cm v).isSome) →
    l.mapM (fun v => (cm v).map (fun m => tagOf v ++ paramsOf v m)) =
      some (l.map (fun v => tagOf v ++ paramsOf v ((cm v).getD []))) := by
  intro l
  induction l with
  | nil => intro _; rfl
  | cons x r ih =>
    intro h
    have hx := h x List.mem_cons_self
    rw [List.mapM_cons, ih (fun v hv => h v (List.mem_cons_of_mem _ hv))]
    cases hcx : cm x with
    | none => rw [hcx] at hx; simp at hx
    | some m => simp [hcx]

/-- **The language-views encoding is the ledger's, byte for byte**: for every duplicate-free list of
    supported versions in any iteration order and all cost-model contents, `EncodeLangViews` returns
    exactly the canonical map — keys 01, 02, 03, 4100 in that order, PlutusV1's value a byte string
    wrapping an indefinite list, the others a definite list. -/
theorem langViews_spec (used : List Nat) (cm : Nat → Option (List Int)) (hn : used.Nodup)
    (hb : ∀ v ∈ used, v < 4) (hc : ∀ v ∈ used, (cm v).isSome) :
    ∃ b, encodeLangViews used cm = .ok b ∧ specLangViews used cm = some b := by
  have hsort := sortV_canonical used (allOrders_complete used hn hb)
  have hmem : ∀ v ∈ [1, 2, 3, 0].filter (fun v => used.contains v), (cm v).isSome := by
    intro v hv
    have := (List.mem_filter.mp hv).2
    exact hc v (by simpa using this)
  have hm := mapM_params cm _ hmem
  have hol : ([1, 2, 3, 0].filter (fun v => used.contains v)).length < 24 := by
    have : ([1, 2, 3, 0].filter (fun v => used.contains v)).length ≤ [1, 2, 3, 0].length :=
      List.length_filter_le _ _
    simp only [List.length_cons, List.length_nil] at this; omega
  unfold specLangViews
  simp only [hm]
  refine ⟨_, ?_, rfl⟩
  unfold encodeLangViews
  rw [views_ok cm used hb hc]
  simp only
  rw [sortViews_map (fun v => paramsOf v ((cm v).getD [])) used, hsort]
  simp only [List.length_map, hol, ↓reduceIte, List.flatMap_map, List.flatMap_def, List.map_map]
  rfl

/-- Non-vacuity: the hypotheses of `langViews_spec` for all four languages in a scrambled order. -/
example : [2, 0, 3, 1].Nodup ∧ (∀ v ∈ [2, 0, 3, 1], v < 4) := by decide

/-- PlutusV1's double bagging, PlutusV2's plain list: the exact bytes for a concrete cost model. -/
example : (match encodeLangViews [0, 1] (fun v => if v = 0 then some [1, -1] else if v = 1 then some [24] else none) with
    | .ok b => b == [0xa2, 0x01, 0x81, 0x18, 0x18, 0x41, 0x00, 0x44, 0x9f, 0x01, 0x20, 0xff]
    | .error _ => false) = true := by decide


-- ------------------------------------------------------------------ ShortLex, translated from the source

theorem gen_go_lt : ∀ (a b : Bytes), GV.Gen.ShortLex.go a b < 0 ↔ shortLexLt.lexLt a b = true
  | [], _ => by simp [GV.Gen.ShortLex.go, shortLexLt.lexLt]
  | _ :: _, [] => by simp [GV.Gen.ShortLex.go, shortLexLt.lexLt]
  | x :: xs, y :: ys => by
    simp only [GV.Gen.ShortLex.go, shortLexLt.lexLt]
    by_cases h1 : x < y
    · have h1' : x.toNat < y.toNat := UInt8.lt_iff_toNat_lt.mp h1
      simp [h1, h1']
    · have h1' : ¬ x.toNat < y.toNat := fun h => h1 (UInt8.lt_iff_toNat_lt.mpr h)
      by_cases h2 : y < x
      · have h2' : x.toNat > y.toNat := UInt8.lt_iff_toNat_lt.mp h2
        simp [h1, h1', h2, h2']
      · have h2' : ¬ x.toNat > y.toNat := fun h => h2 (UInt8.lt_iff_toNat_lt.mpr h)
        simp only [h1, h1', h2, h2', ↓reduceIte, Bool.false_eq_true]
        exact gen_go_lt xs ys

/-- Regenerated tie: `common.ShortLex`, translated from the Go source on every run (comparison
    operators and returned constants are the source's), orders exactly as the model's `shortLexLt`
    used by the language-views sort: `ShortLex(a, b) < 0 ↔ shortLexLt a b`. A `<` → `<=` edit or a
    swapped return value in the source breaks this obligation. -/
theorem gen_shortLex (a b : Bytes) : GV.Gen.ShortLex.shortLex a b < 0 ↔ shortLexLt a b = true := by
  unfold GV.Gen.ShortLex.shortLex shortLexLt
  by_cases h1 : a.length < b.length
  · simp [h1]
  · by_cases h2 : a.length > b.length
    · have : b.length < a.length := h2
      simp [h1, h2, this]
    · have : ¬ b.length < a.length := h2
      simp only [h1, h2, this, ↓reduceIte]
      exact gen_go_lt a b

/-- Regenerated tie: the rule is in the Alonzo..Dijkstra rule lists of the source as it is now. -/
theorem rules_listed :
    ∀ l ∈ [GV.Gen.RuleLists.alonzo, GV.Gen.RuleLists.babbage, GV.Gen.RuleLists.conway,
           GV.Gen.RuleLists.dijkstra],
      "UtxoValidateScriptDataHash" ∈ l := by decide

end GV.Props.C31
