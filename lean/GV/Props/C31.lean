import GV.Model.ScriptDataHash
import GV.Gen.RuleLists
/-!
C31 — The script data hash binds redeemers, datums and cost models.

Blake2b-256 is an abstract digest `h : Bytes → D`; the theorems say what the rule compares, not
that the hash is collision resistant (symbolic model).
-/
namespace GV.Props.C31
open GV.Model.ScriptDataHash GV.Lib.CborLite

/-- The rule passes only if: nothing to bind and no hash declared, or the declared hash is the
    digest of  redeemers ++ datums(if any) ++ language views. -/
theorem rule_ok_iff {D : Type} [DecidableEq D] (h : Bytes → D) (cm : Nat → Option (List Int)) (t : Tx D) :
    rule h cm t = .ok ↔
      (t.nRedeemers = 0 ∧ t.nDatums = 0 ∧ t.declared = none) ∨
      (¬ (t.nRedeemers = 0 ∧ t.nDatums = 0) ∧ (∀ v ∈ t.used, (cm v).isSome) ∧
        ∃ d lv, t.declared = some d ∧ encodeLangViews t.used cm = .ok lv ∧ d = h (preimage t lv)) := by
  constructor
  · intro hr
    unfold rule at hr
    by_cases h0 : t.nRedeemers = 0 ∧ t.nDatums = 0
    · left
      simp only [h0, and_self, ↓reduceIte] at hr
      cases hd : t.declared with
      | none => exact ⟨h0.1, h0.2, rfl⟩
      | some d => simp [hd] at hr
    · right
      simp only [h0, ↓reduceIte] at hr
      cases hd : t.declared with
      | none => simp [hd] at hr
      | some d =>
        simp only [hd] at hr
        by_cases hc : t.used.any (fun v => (cm v).isNone) = true
        · simp [hc] at hr
        · simp only [hc, Bool.false_eq_true, ↓reduceIte] at hr
          have hall : ∀ v ∈ t.used, (cm v).isSome := by
            intro v hv
            cases hcv : cm v with
            | some _ => rfl
            | none =>
              exfalso; apply hc
              rw [List.any_eq_true]; exact ⟨v, hv, by simp [hcv]⟩
          cases he : encodeLangViews t.used cm with
          | error e => simp [he] at hr
          | ok lv =>
            simp only [he] at hr
            by_cases hdd : d = h (preimage t lv)
            · exact ⟨h0, hall, d, lv, rfl, rfl, hdd⟩
            · simp [hdd] at hr
  · rintro (⟨h1, h2, h3⟩ | ⟨h0, hall, d, lv, hd, he, hq⟩)
    · unfold rule; simp [h1, h2, h3]
    · unfold rule
      have hc : t.used.any (fun v => (cm v).isNone) = false := by
        rw [List.any_eq_false]
        intro v hv
        have := hall v hv
        cases hcv : cm v <;> simp_all
      simp only [h0, ↓reduceIte, hd, hc, Bool.false_eq_true, he, hq]

/-- "A declared hash without redeemers or datums is rejected". -/
theorem extraneous_rejected {D : Type} [DecidableEq D] (h : Bytes → D) (cm : Nat → Option (List Int))
    (t : Tx D) (h0 : t.nRedeemers = 0 ∧ t.nDatums = 0) (d : D) (hd : t.declared = some d) :
    rule h cm t = .extraneous := by
  unfold rule; simp [h0, hd]

/-- "…as is a missing one when they are present". -/
theorem missing_rejected {D : Type} [DecidableEq D] (h : Bytes → D) (cm : Nat → Option (List Int))
    (t : Tx D) (h0 : ¬ (t.nRedeemers = 0 ∧ t.nDatums = 0)) (hd : t.declared = none) :
    rule h cm t = .missing := by
  unfold rule; simp [h0, hd]

/-- Under an injective digest (ideal binding) the accepted hash determines the bound bytes:
    two transactions accepted with the same declared hash have the same pre-image. -/
theorem binding {D : Type} [DecidableEq D] (h : Bytes → D) (hinj : Function.Injective h)
    (cm : Nat → Option (List Int)) (t1 t2 : Tx D) (d : D)
    (hd1 : t1.declared = some d) (hd2 : t2.declared = some d)
    (ha1 : rule h cm t1 = .ok) (ha2 : rule h cm t2 = .ok) :
    ∃ lv1 lv2, encodeLangViews t1.used cm = .ok lv1 ∧ encodeLangViews t2.used cm = .ok lv2 ∧
      preimage t1 lv1 = preimage t2 lv2 := by
  rw [rule_ok_iff] at ha1 ha2
  rcases ha1 with ⟨_, _, hn⟩ | ⟨_, _, d1, lv1, h1, e1, q1⟩
  · rw [hn] at hd1; cases hd1
  rcases ha2 with ⟨_, _, hn⟩ | ⟨_, _, d2, lv2, h2, e2, q2⟩
  · rw [hn] at hd2; cases hd2
  rw [hd1] at h1; rw [hd2] at h2; cases h1; cases h2
  exact ⟨lv1, lv2, e1, e2, hinj (q1.symm.trans q2)⟩

/-- non-vacuity of `binding`'s hypothesis: the identity digest is injective -/
example : Function.Injective (fun b : Bytes => b) := fun _ _ h => h

/-- all nodup lists over {0,1,2,3}: every iteration order of every subset of the four languages -/
def allOrders : List (List Nat) :=
  let perms : List Nat → List (List Nat) := fun l =>
    l.foldr (fun x acc => acc.flatMap (fun p => (List.range (p.length + 1)).map (fun i => p.take i ++ [x] ++ p.drop i))) [[]]
  let rec subl : List Nat → List (List Nat)
    | [] => [[]]
    | x :: r => subl r ++ (subl r).map (x :: ·)
  (subl [0, 1, 2, 3]).flatMap perms

/-- The sorted key order is the canonical one (01, 02, 03, 4100) for every subset of languages and
    every iteration order of the Go map — checked on the complete finite domain (65 lists). -/
theorem key_order_canonical :
    ∀ used ∈ allOrders,
      (sortViews (used.map (fun v => (tagOf v, ([] : Bytes))))).map (·.1) =
        ([1, 2, 3, 0].filter (fun v => used.contains v)).map tagOf := by
  decide

example : allOrders.length = 65 := by decide

/-- PlutusV1's double bagging, PlutusV2's plain list: the exact bytes for a concrete cost model. -/
example : (match encodeLangViews [0, 1] (fun v => if v = 0 then some [1, -1] else if v = 1 then some [24] else none) with
    | .ok b => b == [0xa2, 0x01, 0x81, 0x18, 0x18, 0x41, 0x00, 0x44, 0x9f, 0x01, 0x20, 0xff]
    | .error _ => false) = true := by decide

/-- Regenerated tie: the rule is in the Alonzo..Dijkstra rule lists of the source as it is now. -/
theorem rules_listed :
    ∀ l ∈ [GV.Gen.RuleLists.alonzo, GV.Gen.RuleLists.babbage, GV.Gen.RuleLists.conway,
           GV.Gen.RuleLists.dijkstra],
      "UtxoValidateScriptDataHash" ∈ l := by decide

end GV.Props.C31
