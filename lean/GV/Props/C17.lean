import GV.Model.ConnSetup
namespace GV.Props.C17
theorem placeholder : True := trivial
end GV.Props.C17
