import GV.Model.ConnSetup
import GV.Gen.ConnProtocols
/-!
C17 — Connection roles and diffusion modes gate what is accepted.

A connection that negotiated initiator-only operation never delivers a peer request to a local
responder and closes with an error if one arrives, and a responder-only connection does the same
for responses. Mini-protocols are started only for the roles and versions that the negotiation
enabled, and an enabled protocol is always reachable through the connection.

`registered` / `muxMode` mirror `Connection.setupConnection`, `route` mirrors `Muxer.readLoop`.
-/
namespace GV.Props.C17
open GV.Model.ConnSetup

/-- Both ends asked for initiator-and-responder on a node-to-node connection. -/
def negotiatedDuplex (c : Cfg) : Bool := c.mode == .ntn && c.fullDuplex && !c.peerDM

theorem duplex_eq_negotiated (c : Cfg) : duplex c = negotiatedDuplex c := by
  unfold duplex hsFullDuplex negotiatedDuplex
  cases c.fullDuplex <;> cases c.peerDM <;> cases (c.mode == NetMode.ntn) <;> rfl

/-- no receiver of role `r` is registered → lookup fails -/
theorem find_none_of_no_role (ids : List (String × Nat)) (l : List (Proto × Role)) (id : Nat) (r : Role)
    (h : ∀ p ∈ l, p.2 ≠ r) :
    l.find? (fun p => idOf ids p.1.key == some id && p.2 == r) = none := by
  apply List.find?_eq_none.mpr
  intro p hp
  have := h p hp
  simp [this]

/-- **Initiator-only.** On a connection that is not a server and did not negotiate duplex
    operation, a request segment (response bit clear) with any protocol id is never delivered:
    the muxer reports an error. For every id table and every version-flag valuation. -/
theorem initiator_only_never_delivers_request (ids : List (String × Nat)) (c : Cfg)
    (hs : c.server = false) (hd : negotiatedDuplex c = false) (field : Nat) (hf : field < 32768) :
    route ids c field = .notResponder ∨ route ids c field = .unknown field := by
  have hdup : duplex c = false := by rw [duplex_eq_negotiated]; exact hd
  have hresp : decide (field ≥ 32768) = false := by simp; omega
  unfold route routeBy
  simp only [hresp, Bool.false_eq_true, ↓reduceIte]
  by_cases hh : hsFullDuplex c = true
  · right
    have hm : muxMode c = .both := by simp [muxMode, hh]
    have hnone : (registered c).find? (fun p => idOf ids p.1.key == some field && p.2 == Role.responder) = none := by
      apply find_none_of_no_role
      intro p hp
      unfold registered at hp
      simp only [hs, serverSide, hdup, Bool.or_self, Bool.false_eq_true, ↓reduceIte, List.append_nil,
        List.mem_append, List.mem_cons, List.not_mem_nil, or_false] at hp
      rcases hp with rfl | hp
      · simp
      · split at hp
        · obtain ⟨n, _, rfl⟩ := List.mem_map.mp hp; simp
        · simp at hp
    simp [hm, hnone]
  · left
    have hm : muxMode c = .initiator := by simp [muxMode, hh, hs]
    simp [hm]

/-- **Responder-only.** Dually, on a server that did not negotiate duplex operation a response
    segment is never delivered. -/
theorem responder_only_never_delivers_response (ids : List (String × Nat)) (c : Cfg)
    (hs : c.server = true) (hd : negotiatedDuplex c = false) (field : Nat) (hf : field ≥ 32768) :
    route ids c field = .notInitiator ∨ route ids c field = .unknown (field - 32768) := by
  have hdup : duplex c = false := by rw [duplex_eq_negotiated]; exact hd
  have hresp : decide (field ≥ 32768) = true := by simp; omega
  unfold route routeBy
  simp only [hresp, ↓reduceIte]
  by_cases hh : hsFullDuplex c = true
  · right
    have hm : muxMode c = .both := by simp [muxMode, hh]
    have hnone : (registered c).find? (fun p => idOf ids p.1.key == some (field - 32768) && p.2 == Role.initiator) = none := by
      apply find_none_of_no_role
      intro p hp
      unfold registered at hp
      simp only [hs, clientSide, hdup, Bool.not_true, Bool.or_self, Bool.false_eq_true, ↓reduceIte,
        List.append_nil, List.mem_append, List.mem_cons, List.not_mem_nil, or_false] at hp
      rcases hp with rfl | hp
      · simp
      · split at hp
        · obtain ⟨n, _, rfl⟩ := List.mem_map.mp hp; simp
        · simp at hp
    simp [hm, hnone]
  · left
    have hm : muxMode c = .responder := by simp [muxMode, hh, hs]
    simp [hm]

/-- Nothing is ever delivered to a (protocol, role) that is not registered, and what is delivered
    has the segment's id and direction. -/
theorem route_sound (ids : List (String × Nat)) (c : Cfg) (field : Nat) (name : Proto) (role : Role)
    (h : route ids c field = .deliver name role) :
    (name, role) ∈ registered c ∧
    role = (if field ≥ 32768 then Role.initiator else Role.responder) ∧
    idOf ids name.key = some (if field ≥ 32768 then field - 32768 else field) := by
  have key : ∀ (resp : Bool) (id : Nat),
      (match (registered c).find? (fun p => idOf ids p.1.key == some id &&
              p.2 == (if resp = true then Role.initiator else Role.responder)) with
        | some p => Routed.deliver p.1 (if resp = true then Role.initiator else Role.responder)
        | none => Routed.unknown id) = .deliver name role →
      (name, role) ∈ registered c ∧ role = (if resp = true then Role.initiator else Role.responder) ∧
        idOf ids name.key = some id := by
    intro resp id h
    split at h
    · rename_i p hp
      simp only [Routed.deliver.injEq] at h
      obtain ⟨h1, h2⟩ := h
      have hmem := List.mem_of_find?_eq_some hp
      have hprop := List.find?_some hp
      simp only [Bool.and_eq_true, beq_iff_eq] at hprop
      subst h1
      refine ⟨?_, h2.symm, hprop.1⟩
      have : p = (p.1, role) := by rw [← h2, ← hprop.2]
      rw [this] at hmem; exact hmem
    · simp at h
  unfold route routeBy at h
  by_cases hf : field ≥ 32768
  · have hresp : decide (field ≥ 32768) = true := by simpa using hf
    simp only [hresp, ↓reduceIte] at h
    simp only [hf, ↓reduceIte]
    cases hm : muxMode c <;> simp only [hm] at h
    · exact key true _ h
    · simp at h
    · exact key true _ h
  · have hresp : decide (field ≥ 32768) = false := by simpa using hf
    simp only [hresp, Bool.false_eq_true, ↓reduceIte] at h
    simp only [hf, ↓reduceIte]
    cases hm : muxMode c <;> simp only [hm] at h
    · simp at h
    · exact key false _ h
    · exact key false _ h

/-! ### what the negotiation enabled (stated independently of `registered`) -/

def allProtos : List Proto :=
  [.handshake, .chainSyncNtN, .chainSyncNtC, .blockFetch, .txSubmission, .localTxSubmission,
   .localStateQuery, .keepAlive, .localTxMonitor, .peerSharing, .leiosNotify, .leiosFetch, .leiosVotes,
   .localMessageSubmission, .localMessageNotification]

theorem allProtos_complete (p : Proto) : p ∈ allProtos := by cases p <;> decide

/-- the mini-protocol belongs to the connection's mode and is enabled by the negotiated version -/
def protoEnabled (c : Cfg) : Proto → Bool
  | .chainSyncNtN | .blockFetch | .txSubmission | .leiosNotify | .leiosFetch | .leiosVotes => c.mode == .ntn
  | .keepAlive => c.mode == .ntn && c.keepAlive
  | .peerSharing => c.mode == .ntn && c.peerSharing
  | .chainSyncNtC | .localTxSubmission => c.mode == .ntc
  | .localStateQuery => c.mode == .ntc && c.localQuery
  | .localTxMonitor => c.mode == .ntc && c.localTxMonitor
  | .localMessageSubmission | .localMessageNotification => c.mode == .dmq
  | .handshake => false

/-- the role was negotiated: the local side's own role, or both when duplex was negotiated -/
def roleEnabled (c : Cfg) : Role → Bool
  | .initiator => !c.server || negotiatedDuplex c
  | .responder => c.server || negotiatedDuplex c

def enabled (c : Cfg) (p : Proto) (r : Role) : Bool :=
  (p == .handshake && r == (if c.server then Role.responder else Role.initiator)) ||
  (protoEnabled c p && roleEnabled c r &&
    -- the keep-alive client is only started on request (WithKeepAlive)
    !(p == .keepAlive && r == .initiator && !c.sendKeepAlives))


/-- which mini-protocols setupConnection constructs = which the mode and version enable -/
theorem mem_constructed (c : Cfg) (p : Proto) : p ∈ constructed c ↔ protoEnabled c p = true := by
  unfold constructed protoEnabled
  cases hm : c.mode <;> cases hk : c.keepAlive <;> cases hps : c.peerSharing <;>
    cases hq : c.localQuery <;> cases ht : c.localTxMonitor <;> cases p <;> simp

/-- membership in `registered`, spelled out -/
theorem mem_registered (c : Cfg) (p : Proto) (r : Role) :
    (p, r) ∈ registered c ↔
      (p = .handshake ∧ r = (if c.server then Role.responder else Role.initiator)) ∨
      (serverSide c = true ∧ r = .responder ∧ p ∈ constructed c) ∨
      (clientSide c = true ∧ r = .initiator ∧ p ∈ constructed c ∧ (p ≠ .keepAlive ∨ c.sendKeepAlives = true)) := by
  unfold registered
  simp only [List.mem_append, List.mem_cons, List.not_mem_nil, or_false, Prod.mk.injEq]
  constructor
  · rintro ((h | h) | h)
    · exact Or.inl h
    · right; left
      split at h
      · rename_i hs
        obtain ⟨n, hn, hq⟩ := List.mem_map.mp h
        simp only [Prod.mk.injEq] at hq
        exact ⟨hs, hq.2.symm, hq.1 ▸ hn⟩
      · simp at h
    · right; right
      split at h
      · rename_i hs
        obtain ⟨n, hn, hq⟩ := List.mem_map.mp h
        simp only [Prod.mk.injEq] at hq
        have hf := List.mem_filter.mp hn
        refine ⟨hs, hq.2.symm, hq.1 ▸ hf.1, ?_⟩
        have h2 := hf.2
        simp only [Bool.or_eq_true, bne_iff_ne, ne_eq] at h2
        rw [← hq.1]; exact h2
      · simp at h
  · rintro (h | ⟨hs, hr, hp⟩ | ⟨hs, hr, hp, hk⟩)
    · exact Or.inl (Or.inl h)
    · left; right
      simp only [hs, ↓reduceIte]
      exact List.mem_map.mpr ⟨p, hp, by rw [hr]⟩
    · right
      simp only [hs, ↓reduceIte]
      refine List.mem_map.mpr ⟨p, List.mem_filter.mpr ⟨hp, ?_⟩, by rw [hr]⟩
      simp only [Bool.or_eq_true, bne_iff_ne, ne_eq]
      exact hk

/-- **Started only what was enabled, and everything that was enabled.** For every
    configuration, version-flag valuation, protocol and role: the (protocol, role) receiver is
    registered with the muxer after setup iff the negotiation enabled it. -/
theorem registered_iff_enabled (c : Cfg) (p : Proto) (r : Role) :
    (p, r) ∈ registered c ↔ enabled c p r = true := by
  rw [mem_registered, mem_constructed]
  unfold enabled roleEnabled serverSide clientSide
  rw [duplex_eq_negotiated]
  have hh : p = .handshake → protoEnabled c p = false := by intro h; subst h; rfl
  by_cases hp : p = .handshake
  · have := hh hp
    subst hp
    cases r <;> cases c.server <;> simp [this]
  · by_cases hk : p = .keepAlive
    · subst hk
      cases r <;> cases c.server <;> cases negotiatedDuplex c <;> cases protoEnabled c .keepAlive <;>
        cases c.sendKeepAlives <;> simp
    · cases r <;> cases c.server <;> cases negotiatedDuplex c <;> cases protoEnabled c p <;> simp [hp, hk]

/-- segment header field that addresses role `r` of the protocol with id `id` -/
def fieldFor (id : Nat) : Role → Nat
  | .initiator => id + 32768
  | .responder => id

/-- the protocol ids, as a function on `Proto` -/
def idNat : Proto → Nat
  | .handshake => 0 | .chainSyncNtN => 2 | .chainSyncNtC => 5 | .blockFetch => 3 | .txSubmission => 4
  | .localTxSubmission => 6 | .localStateQuery => 7 | .keepAlive => 8 | .localTxMonitor => 9
  | .peerSharing => 10 | .leiosNotify => 18 | .leiosFetch => 19 | .leiosVotes => 20
  | .localMessageSubmission => 14 | .localMessageNotification => 15

/-- Regenerated tie: these are the ids of the running code's mini-protocol packages. -/
theorem ids_match (p : Proto) : idOf GV.Gen.ConnProtocols.ids p.key = some (idNat p) := by
  cases p <;> decide

theorem idNat_inj (a b : Proto) (h : idNat a = idNat b) : a = b := by
  cases a <;> cases b <;> first | rfl | (simp [idNat] at h)

theorem idNat_lt (p : Proto) : idNat p < 32768 := by cases p <;> simp [idNat]

/-- the muxer mode set by setupConnection admits the direction of every registered role -/
theorem role_admitted (c : Cfg) (p : Proto) (r : Role) (h : (p, r) ∈ registered c) :
    (r = .responder → muxMode c ≠ .initiator) ∧ (r = .initiator → muxMode c ≠ .responder) := by
  rw [mem_registered] at h
  unfold muxMode
  unfold serverSide clientSide duplex at h
  rcases h with ⟨_, hr⟩ | ⟨hs, hr, _⟩ | ⟨hs, hr, _⟩ <;> subst hr <;>
    cases hsv : c.server <;> cases hfd : hsFullDuplex c <;> cases hf : c.fullDuplex <;> simp_all

/-- **An enabled protocol is always reachable** (any id function that is injective on protocols):
    every registered (protocol, role) is delivered the segments that carry its id and the
    direction bit of its role. -/
theorem reachable_by (c : Cfg) (p : Proto) (r : Role) (h : (p, r) ∈ registered c) :
    routeBy (fun q => some (idNat q)) c (fieldFor (idNat p) r) = .deliver p r := by
  have hadm := role_admitted c p r h
  have hlt := idNat_lt p
  have hfind : ∀ (l : List (Proto × Role)), (p, r) ∈ l →
      ∃ q, l.find? (fun q => (some (idNat q.1) == some (idNat p)) && q.2 == r) = some q ∧ q = (p, r) := by
    intro l hl
    have hsome : (l.find? (fun q => (some (idNat q.1) == some (idNat p)) && q.2 == r)).isSome = true := by
      rw [List.find?_isSome]; exact ⟨(p, r), hl, by simp⟩
    cases hq : l.find? (fun q => (some (idNat q.1) == some (idNat p)) && q.2 == r) with
    | none => rw [hq] at hsome; simp at hsome
    | some q =>
      refine ⟨q, rfl, ?_⟩
      have hp := List.find?_some hq
      simp only [Bool.and_eq_true, beq_iff_eq, Option.some.injEq] at hp
      have := idNat_inj _ _ hp.1
      cases q; simp_all
  obtain ⟨q, hq, hqe⟩ := hfind (registered c) h
  unfold routeBy
  cases r with
  | initiator =>
    have hresp : decide (fieldFor (idNat p) Role.initiator ≥ 32768) = true := by simp [fieldFor]
    have hid : fieldFor (idNat p) Role.initiator - 32768 = idNat p := by simp [fieldFor]
    simp only [hresp, ↓reduceIte, hid]
    have hm := hadm.2 rfl
    cases hmm : muxMode c <;> simp_all
  | responder =>
    have hfield : fieldFor (idNat p) Role.responder = idNat p := rfl
    rw [hfield]
    have hresp : decide (idNat p ≥ 32768) = false := by simp; omega
    simp only [hresp, Bool.false_eq_true, ↓reduceIte]
    have hm := hadm.1 rfl
    cases hmm : muxMode c <;> simp_all

/-- **An enabled protocol is always reachable**: with the protocol ids of the running code
    (regenerated), every registered (protocol, role) is delivered the segments that carry its id
    and the direction bit of its role — the muxer mode set by setupConnection admits the
    direction and no other receiver shadows it. -/
theorem enabled_reachable (c : Cfg) (p : Proto) (r : Role) (h : (p, r) ∈ registered c) :
    ∃ id, idOf GV.Gen.ConnProtocols.ids p.key = some id ∧ id < 32768 ∧
      route GV.Gen.ConnProtocols.ids c (fieldFor id r) = .deliver p r := by
  have hf : (fun p : Proto => idOf GV.Gen.ConnProtocols.ids p.key) = (fun p => some (idNat p)) :=
    funext ids_match
  refine ⟨idNat p, ids_match p, idNat_lt p, ?_⟩
  unfold route
  rw [hf]
  exact reachable_by c p r h

/-- The muxer constants of the running code are the ones the model's `MuxMode` stands for. -/
theorem mux_constants :
    GV.Gen.ConnProtocols.responseFlag = 32768 ∧ GV.Gen.ConnProtocols.muxModeInitiator = 1 ∧
    GV.Gen.ConnProtocols.muxModeResponder = 2 ∧ GV.Gen.ConnProtocols.muxModeBoth = 3 := by decide

/-- Non-vacuity: an initiator-only NtN client (keep-alive requested, version with keep-alive and
    peer sharing) registers exactly its client roles. -/
example : registered ⟨false, .ntn, false, true, true, true, true, false, false⟩ =
    [(.handshake, .initiator), (.chainSyncNtN, .initiator), (.blockFetch, .initiator), (.txSubmission, .initiator),
     (.keepAlive, .initiator), (.peerSharing, .initiator), (.leiosNotify, .initiator), (.leiosFetch, .initiator),
     (.leiosVotes, .initiator)] := by decide

/-- Non-vacuity: duplex is negotiated only when both ends ask for it. -/
example : negotiatedDuplex ⟨false, .ntn, true, false, false, true, true, false, false⟩ = true ∧
          negotiatedDuplex ⟨false, .ntn, false, false, false, true, true, false, false⟩ = false ∧
          negotiatedDuplex ⟨false, .ntc, true, false, false, false, false, true, true⟩ = false := by decide

end GV.Props.C17
