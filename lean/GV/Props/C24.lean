import GV.Model.TxSub
import GV.Gen.TxSubLimits
/-!
C24 — Tx-submission keeps its acknowledgement window consistent.

* the inbound side (Server) never acknowledges more ids than it has received and
  not yet acknowledged; its request/ack counts on the wire are within 0..65535
  and are exactly the integers the caller/bookkeeping hold (no uint16 wrap);
* the outbound side (Client) rejects requests whose counts exceed the limits,
  and says Done only in answer to a blocking request.

All statements quantify over arbitrary histories (`List SAct` / `List CAct`),
arbitrary Go `int` request counts and arbitrary reply sizes.
-/
namespace GV.Props.C24
open GV.Model.TxSub

/-- the regenerated constants are the ones the model uses -/
theorem limits_regenerated :
    GV.Gen.TxSubLimits.maxRequestCount = maxRequestCount ∧
    GV.Gen.TxSubLimits.maxAckCount = maxAckCount ∧ maxAckCount = 65535 := by decide

/-- bookkeeping invariant: what will be acknowledged next has been received and
    is still unacknowledged -/
def Inv (s : Srv) : Prop := 0 ≤ s.ackCount ∧ s.ackCount ≤ s.outstanding

theorem inv_init : Inv Srv.init := by simp [Inv, Srv.init]

theorem toU16_id {x : Int} (h0 : 0 ≤ x) (h1 : x ≤ 65535) : (toU16 x : Int) = x := by
  unfold toU16
  have : x % 65536 = x := Int.emod_eq_of_lt h0 (by omega)
  rw [this]; exact Int.toNat_of_nonneg h0

theorem admits_bounds {s : Srv} {req : Int} (h : srvAdmits s req = true) :
    0 ≤ req ∧ req ≤ 65535 ∧ 0 ≤ s.ackCount ∧ s.ackCount ≤ 65535 := by
  unfold srvAdmits maxRequestCount maxAckCount at h
  simp only [Bool.and_eq_true, Bool.not_eq_true', decide_eq_false_iff_not] at h
  omega

theorem inv_step (s : Srv) (a : SAct) (h : Inv s) : Inv (srvStep s a).1 := by
  cases a with
  | reqTxs k => simpa [srvStep] using h
  | reqIds b req n =>
    unfold srvStep
    by_cases ha : srvAdmits s req = true
    · simp only [ha, ↓reduceIte]
      obtain ⟨_, _, h0, h1⟩ := admits_bounds ha
      have := toU16_id h0 h1
      unfold Inv at *; simp only; omega
    · simpa [ha] using h
  | reqIdsDone req =>
    unfold srvStep
    by_cases ha : srvAdmits s req = true
    · simp [ha, Inv]
    · simpa [ha] using h

/-- Every request the server puts on the wire carries exactly its `ackCount` and
    the caller's `reqCount` (the `uint16(..)` conversions never wrap), both in
    0..65535, and the ack never exceeds the outstanding ids. -/
theorem wire_exact (s : Srv) (a : SAct) (h : Inv s) {ack req : Nat} {b : Bool} {res : Option Nat}
    (hw : (srvStep s a).2 = .wire ack req b res) :
    (ack : Int) = s.ackCount ∧ ack ≤ 65535 ∧ req ≤ 65535 ∧ (ack : Int) ≤ s.outstanding ∧
    (match a with
     | .reqIds _ r _ => (req : Int) = r
     | .reqIdsDone r => (req : Int) = r
     | .reqTxs _ => False) := by
  cases a with
  | reqTxs k => simp [srvStep] at hw
  | reqIds b' r n =>
    unfold srvStep at hw
    by_cases ha : srvAdmits s r = true
    · simp only [ha, ↓reduceIte, SOut.wire.injEq] at hw
      obtain ⟨r0, r1, h0, h1⟩ := admits_bounds ha
      have e1 := toU16_id h0 h1
      have e2 := toU16_id r0 r1
      obtain ⟨hack, hreq, _, _⟩ := hw
      subst hack; subst hreq
      unfold Inv at h
      refine ⟨e1, ?_, ?_, ?_, e2⟩ <;> omega
    · simp [ha] at hw
  | reqIdsDone r =>
    unfold srvStep at hw
    by_cases ha : srvAdmits s r = true
    · simp only [ha, ↓reduceIte, SOut.wire.injEq] at hw
      obtain ⟨r0, r1, h0, h1⟩ := admits_bounds ha
      have e1 := toU16_id h0 h1
      have e2 := toU16_id r0 r1
      obtain ⟨hack, hreq, _, _⟩ := hw
      subst hack; subst hreq
      unfold Inv at h
      refine ⟨e1, ?_, ?_, ?_, e2⟩ <;> omega
    · simp [ha] at hw

/-- `ack_le_outstanding` + `counts_in_range`, lifted over any history by
    induction: the trace of every run from a state satisfying the invariant is
    accepted by the monitor started at that state's outstanding count. -/
theorem run_ok (acts : List SAct) : ∀ s : Srv, Inv s → srvOk s.outstanding (srvRun s acts) = true := by
  induction acts with
  | nil => intro s _; rfl
  | cons a t ih =>
    intro s h
    have hn := inv_step s a h
    have ih' := ih _ hn
    unfold srvRun
    cases a with
    | reqTxs k => simpa [srvStep, srvOk] using ih'
    | reqIds b r n =>
      by_cases ha : srvAdmits s r = true
      · have hw := wire_exact s (.reqIds b r n) h (ack := toU16 s.ackCount) (req := toU16 r) (b := b)
          (res := some n) (by simp [srvStep, ha])
        obtain ⟨e1, l1, l2, l3, _⟩ := hw
        simp only [srvStep, ha, ↓reduceIte, srvOk, Bool.and_eq_true, decide_eq_true_eq] at ih' ⊢
        exact ⟨⟨⟨l1, l2⟩, l3⟩, ih'⟩
      · simp only [srvStep, ha, Bool.false_eq_true, ↓reduceIte, srvOk] at ih' ⊢
        exact ih'
    | reqIdsDone r =>
      by_cases ha : srvAdmits s r = true
      · have hw := wire_exact s (.reqIdsDone r) h (ack := toU16 s.ackCount) (req := toU16 r) (b := true)
          (res := none) (by simp [srvStep, ha])
        obtain ⟨e1, l1, l2, l3, _⟩ := hw
        simp only [srvStep, ha, ↓reduceIte, srvOk, Bool.and_eq_true, decide_eq_true_eq] at ih' ⊢
        exact ⟨⟨⟨l1, l2⟩, l3⟩, ih'⟩
      · simp only [srvStep, ha, Bool.false_eq_true, ↓reduceIte, srvOk] at ih' ⊢
        exact ih'

/-- The inbound half of the property, for every history from the initial state. -/
theorem ack_window_consistent (acts : List SAct) : srvOk 0 (srvRun Srv.init acts) = true :=
  run_ok acts Srv.init inv_init

/-- every reaction of the model meets the per-call demand: the wire carries the caller's own
    count (never a truncation of it), the caller's blocking flag, or the call is refused -/
theorem step_meets_srvDemand (s : Srv) (a : SAct) (h : Inv s) : srvDemand a (srvStep s a).2 = true := by
  cases a with
  | reqTxs k => simp [srvStep, srvDemand]
  | reqIds b r n =>
    by_cases ha : srvAdmits s r = true
    · have hw := wire_exact s (.reqIds b r n) h (ack := toU16 s.ackCount) (req := toU16 r) (b := b)
        (res := some n) (by simp [srvStep, ha])
      simp only [srvStep, ha, ↓reduceIte, srvDemand, Bool.and_eq_true, decide_eq_true_eq, beq_self_eq_true, and_true]
      exact hw.2.2.2.2
    · simp [srvStep, ha, srvDemand]
  | reqIdsDone r =>
    by_cases ha : srvAdmits s r = true
    · have hw := wire_exact s (.reqIdsDone r) h (ack := toU16 s.ackCount) (req := toU16 r) (b := true)
        (res := none) (by simp [srvStep, ha])
      simp only [srvStep, ha, ↓reduceIte, srvDemand, Bool.and_eq_true, decide_eq_true_eq, and_true]
      exact hw.2.2.2.2
    · simp [srvStep, ha, srvDemand]

/-- … over any history -/
theorem run_meets_demands (acts : List SAct) : ∀ s : Srv, Inv s → srvDemands acts (srvRun s acts) = true := by
  induction acts with
  | nil => intro s _; rfl
  | cons a t ih =>
    intro s h
    unfold srvRun
    simp only [srvDemands, Bool.and_eq_true]
    exact ⟨step_meets_srvDemand s a h, ih _ (inv_step s a h)⟩

/-- Counts outside 0..65535 are refused, not wrapped: together with `ack_window_consistent`
    (wire counts ≤ 65535) no accepted trace contains a request for a count the caller did not give. -/
theorem counts_never_truncated (acts : List SAct) : srvDemands acts (srvRun Srv.init acts) = true :=
  run_meets_demands acts Srv.init inv_init

/-- the demand is not vacuous: 65541 going out as 5 is rejected, a refusal is accepted -/
example : srvDemands [.reqIds false 65541 0] [.wire 0 5 false (some 0)] = false := by decide
example : srvDemands [.reqIds false 65541 0] [.refused] = true := by decide

/-- the monitor is not vacuous: it rejects a trace that acknowledges an id never received -/
example : srvOk 0 [.wire 0 3 true (some 2), .wire 3 1 false (some 0)] = false := by decide
/-- … and one whose count left the 16-bit range -/
example : srvOk 0 [.wire 0 65536 true (some 0)] = false := by decide
/-- a run that really puts requests on the wire, restarts and refuses -/
example : srvRun Srv.init [.reqIds true 3 2, .reqIds false 70000 1, .reqIdsDone 1, .reqIds false 4 3] =
    [.wire 0 3 true (some 2), .refused, .wire 2 1 true none, .wire 0 4 false (some 3)] := by decide

/-- A peer that replies more than 65535 ids silences the server for good (it
    refuses instead of wrapping the count). -/
theorem oversized_reply_refuses (s : Srv) (req : Int) (b : Bool) (n : Nat) (h : s.ackCount > 65535) :
    srvStep s (.reqIds b req n) = (s, .refused) := by
  unfold srvStep srvAdmits maxAckCount
  simp only [Bool.and_eq_true, Bool.not_eq_true', decide_eq_false_iff_not, ite_eq_right_iff]
  intro ⟨_, h2⟩
  exact absurd (by simpa using h) h2

/-! ### Outbound side -/

/-- A request whose ack or req count is outside 0..65535 is rejected, and the
    mempool callback is not consulted. -/
theorem client_rejects_excess (b : Bool) (ack req : WInt) (ans : CbAns)
    (h : ack.exceeds = true ∨ req.exceeds = true) : cliStep (.reqIds b ack req ans) = .err := by
  have hd : ∀ w : WInt, w.exceeds = true → decodeU16 w = none := by
    intro w hw; cases w with
    | nat n => simp only [WInt.exceeds, decide_eq_true_eq] at hw; simp [decodeU16]; omega
    | neg n => rfl
  unfold cliStep
  rcases h with h | h
  · simp [hd _ h]
  · cases hack : decodeU16 ack <;> simp [hd _ h]

/-- in-range requests reach the callback with exactly the wire counts -/
theorem client_passes_in_range (b : Bool) (a r k : Nat) (ha : a ≤ 65535) (hr : r ≤ 65535) :
    cliStep (.reqIds b (.nat a) (.nat r) (.ids k)) = .reply a r k := by
  have h1 : ¬ a > 65535 := by omega
  have h2 : ¬ r > 65535 := by omega
  simp [cliStep, decodeU16, maxAckCount, maxRequestCount, ha, hr, h1, h2]

/-- The client says Done only in answer to a *blocking* id request whose callback
    asked to stop. -/
theorem done_only_after_blocking (a : CAct) (x y : Nat) (h : cliStep a = .done x y) :
    ∃ ack req, a = .reqIds true ack req .stop := by
  cases a with
  | reqTxs k => simp [cliStep] at h
  | reqIds b ack req ans =>
    unfold cliStep at h
    cases hx : decodeU16 ack with
    | none => simp [hx] at h
    | some a' =>
      cases hy : decodeU16 req with
      | none => simp [hx, hy] at h
      | some r' =>
        simp only [hx, hy] at h
        split at h
        · exact absurd h (by simp)
        · split at h
          · exact absurd h (by simp)
          · cases ans with
            | ids k => simp at h
            | fail => simp at h
            | stop =>
              cases b with
              | true => exact ⟨ack, req, rfl⟩
              | false => simp at h

/-- every reaction of the model meets the per-step demand the driver monitors on the implementation -/
theorem step_meets_demand (a : CAct) : cliDemand a (cliStep a) = true := by
  cases a with
  | reqTxs k => simp [cliDemand, cliStep]
  | reqIds b ack req ans =>
    unfold cliDemand
    simp only [Bool.and_eq_true]
    constructor
    · by_cases he : (ack.exceeds || req.exceeds) = true
      · have := client_rejects_excess b ack req ans (by simpa [Bool.or_eq_true] using he)
        simp [he, this]
      · simp [he]
    · cases hs : cliStep (.reqIds b ack req ans) with
      | done x y =>
        obtain ⟨a', r', e⟩ := done_only_after_blocking _ x y hs
        simp only [CAct.reqIds.injEq] at e
        simp [e.1]
      | _ => simp

/-- Over any history: the whole client trace is accepted by the monitor (over-limit
    requests rejected, Done only on blocking, nothing after a terminal reaction). -/
theorem client_run_ok (acts : List CAct) : cliOk acts (cliRun acts) = true := by
  induction acts with
  | nil => rfl
  | cons a t ih =>
    unfold cliRun
    by_cases ht : (cliStep a).terminal = true
    · simp [ht, cliOk, step_meets_demand]
    · simp only [ht, Bool.false_eq_true, ↓reduceIte, cliOk, step_meets_demand, Bool.true_and]
      exact ih

/-- non-vacuity: the client monitor rejects a Done sent to a non-blocking request
    and an accepted over-limit request -/
example : cliOk [.reqIds false (.nat 0) (.nat 1) .stop] [.done 0 1] = false := by decide
example : cliOk [.reqIds true (.nat 65536) (.nat 1) (.ids 1)] [.reply 0 1 1] = false := by decide
example : cliRun [.reqIds true (.nat 0) (.nat 3) (.ids 2), .reqIds true (.nat 2) (.nat 1) .stop, .reqTxs 1] =
    [.reply 0 3 2, .done 2 1] := by decide

end GV.Props.C24
