import GV.Drv.All
/-
  gvdrv <Cxx> : reads op lines on stdin, writes `model \t spec \t class` lines.
-/
partial def loop (h : IO.FS.Stream) (out : IO.FS.Stream) (f : String → GV.Line.Out) : IO Unit := do
  let line ← h.getLine
  if line.isEmpty then return ()
  let l := String.ofList (line.toList.reverse.dropWhile (fun c => c = '\n' || c = '\r')).reverse
  out.putStrLn (f l).render
  loop h out f

def main (args : List String) : IO UInt32 := do
  match args with
  | [p] =>
    match GV.Drv.dispatch p with
    | some f =>
      let out ← IO.getStdout
      loop (← IO.getStdin) out f
      out.flush
      return 0
    | none => IO.eprintln s!"unknown property {p}"; return 2
  | _ => IO.eprintln "usage: gvdrv <Cxx>"; return 2
