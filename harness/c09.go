package main

// C09 — the muxer delivers each byte stream intact to the right endpoint.
//
//	rx <mode> <regs> <plan> <item>*            byte stream -> real muxer (reads fragmented by plan)
//	tx <mode> <regs> <plan> <pseed> <sender>*  real sending muxer (one goroutine per sender,
//	                                           Gosched perturbation) -> wire -> real receiving muxer
//
// Output: err=<class> recv=<id:role=[len.fnv,...];...> [nil=<n> order=<...> wire=<len.fnv>]

import (
	"encoding/binary"
	"fmt"
	"runtime"
	"sort"
	"strconv"
	"strings"
	"sync"
	"time"

	"github.com/blinklabs-io/gouroboros/muxer"
)

func init() {
	register(&Prop{ID: "C09", Gen: genC09, Run: runC09, Timeout: 60 * time.Second})
}

type c09Key struct {
	id   uint16
	role muxer.ProtocolRole
}

func (k c09Key) String() string {
	r := "i"
	if k.role == muxer.ProtocolRoleResponder {
		r = "r"
	}
	return fmt.Sprintf("%d:%s", k.id, r)
}

func parseC09Key(s string) (c09Key, bool) {
	p := strings.Split(s, ":")
	if len(p) != 2 {
		return c09Key{}, false
	}
	id, err := strconv.ParseUint(p[0], 10, 16)
	if err != nil {
		return c09Key{}, false
	}
	switch p[1] {
	case "i":
		return c09Key{uint16(id), muxer.ProtocolRoleInitiator}, true
	case "r":
		return c09Key{uint16(id), muxer.ProtocolRoleResponder}, true
	}
	return c09Key{}, false
}

func parseC09Keys(s string) ([]c09Key, bool) {
	if s == "-" {
		return nil, true
	}
	res := []c09Key{}
	for _, t := range strings.Split(s, ",") {
		k, ok := parseC09Key(t)
		if !ok {
			return nil, false
		}
		res = append(res, k)
	}
	return res, true
}

// c09Recv is a real muxer on conn with recording receivers; receivers can be registered
// and unregistered while it runs.
type c09Recv struct {
	m    *muxer.Muxer
	mu   sync.Mutex
	recs map[c09Key]*c09Rec
	wg   sync.WaitGroup
	down chan struct{} // closed once the muxer has shut down completely
}

type c09Rec struct {
	key  c09Key
	fps  []string
	last chan struct{}       // closed when the newest drain goroutine of this key has finished
	cur  chan *muxer.Segment // channel of the registration in force (nil when unregistered)
}

func newC09Recv(conn *g4Conn, mode int, regs []c09Key) *c09Recv {
	r := &c09Recv{m: muxer.New(conn), recs: map[c09Key]*c09Rec{}, down: make(chan struct{})}
	for _, k := range regs {
		r.register(k)
	}
	r.m.SetDiffusionMode(muxer.DiffusionMode(mode))
	r.m.Start()
	return r
}

func (r *c09Recv) register(k c09Key) {
	r.mu.Lock()
	rec := r.recs[k]
	if rec == nil {
		rec = &c09Rec{key: k}
		r.recs[k] = rec
	}
	prev := rec.last
	done := make(chan struct{})
	rec.last = done
	r.mu.Unlock()
	_, recvCh, _ := r.m.RegisterProtocol(k.id, k.role)
	r.mu.Lock()
	old := rec.cur
	rec.cur = recvCh
	r.mu.Unlock()
	if old != nil && recvCh != nil {
		// registering a key again replaces the receiver in the muxer's map; the muxer never
		// touches the old channel again (and never closes it), so end its drain loop here
		close(old)
	}
	r.wg.Add(1)
	go func() {
		defer r.wg.Done()
		defer close(done)
		if prev != nil {
			<-prev // an earlier registration of the same key drains first
		}
		if recvCh == nil {
			return // muxer already shut down
		}
		record := func(seg *muxer.Segment) {
			r.mu.Lock()
			rec.fps = append(rec.fps, fpBytes(seg.Payload))
			r.mu.Unlock()
		}
		for {
			select {
			case seg, ok := <-recvCh:
				if !ok {
					return
				}
				record(seg)
			case <-r.down:
				// The muxer is gone and will never send or close again. A channel it left open
				// (not expected: the read loop closes every registered receiver) must not hang
				// the run: take what is buffered and stop.
				for {
					select {
					case seg, ok := <-recvCh:
						if !ok {
							return
						}
						record(seg)
					default:
						return
					}
				}
			}
		}
	}()
}

func (r *c09Recv) unregister(k c09Key) {
	r.m.UnregisterProtocol(k.id, k.role) // closes the channel in force, if any
	r.mu.Lock()
	if rec := r.recs[k]; rec != nil {
		rec.cur = nil
	}
	r.mu.Unlock()
}

// finish waits for the muxer to shut down and returns the canonical result.
func (r *c09Recv) finish() string {
	var first error
	got := false
	for err := range r.m.ErrorChan() {
		if !got {
			first = err
			got = true
		}
	}
	// receivers unregistered at run time were closed then; the rest by the read loop's exit
	close(r.down)
	r.wg.Wait()
	recs := []*c09Rec{}
	for _, rec := range r.recs {
		recs = append(recs, rec)
	}
	sort.Slice(recs, func(i, j int) bool {
		if recs[i].key.id != recs[j].key.id {
			return recs[i].key.id < recs[j].key.id
		}
		return recs[i].key.role < recs[j].key.role
	})
	parts := []string{}
	for _, rec := range recs {
		parts = append(parts, rec.key.String()+"=["+strings.Join(rec.fps, ",")+"]")
	}
	rs := "-"
	if len(parts) > 0 {
		rs = strings.Join(parts, ";")
	}
	return "err=" + muxErrClass(first) + " recv=" + rs
}

func c09Receive(conn *g4Conn, mode int, regs []c09Key) string {
	return newC09Recv(conn, mode, regs).finish()
}

func runC09(op string) string {
	f := strings.Fields(op)
	if len(f) < 4 {
		return "bad-op"
	}
	mode, err := strconv.Atoi(f[1])
	regs, ok1 := parseC09Keys(f[2])
	plan, ok2 := parseNatListG4(f[3])
	if err != nil || !ok1 || !ok2 {
		return "bad-op"
	}
	switch f[0] {
	case "rx":
		type piece struct {
			data []byte
			ctl  byte // 0 none, 'u', 'g'
			key  c09Key
		}
		pieces := []piece{{}}
		for _, it := range f[4:] {
			p := strings.Split(it, ":")
			wire := &pieces[len(pieces)-1].data
			switch {
			case len(p) == 4 && p[0] == "s":
				ts, e1 := strconv.ParseUint(p[1], 10, 32)
				pid, e2 := strconv.ParseUint(p[2], 10, 16)
				pl, ok := parsePayloadG4(p[3])
				if e1 != nil || e2 != nil || !ok || len(pl) > 65535 {
					return "bad-op"
				}
				*wire = binary.BigEndian.AppendUint32(*wire, uint32(ts))
				*wire = binary.BigEndian.AppendUint16(*wire, uint16(pid))
				*wire = binary.BigEndian.AppendUint16(*wire, uint16(len(pl)))
				*wire = append(*wire, pl...)
			case len(p) == 3 && p[0] == "z":
				ts, e1 := strconv.ParseUint(p[1], 10, 32)
				pid, e2 := strconv.ParseUint(p[2], 10, 16)
				if e1 != nil || e2 != nil {
					return "bad-op"
				}
				*wire = binary.BigEndian.AppendUint32(*wire, uint32(ts))
				*wire = binary.BigEndian.AppendUint16(*wire, uint16(pid))
				*wire = binary.BigEndian.AppendUint16(*wire, 0)
			case len(p) == 2 && p[0] == "x":
				b, ok := unhex(p[1])
				if !ok {
					return "bad-op"
				}
				*wire = append(*wire, b...)
			case len(p) == 3 && (p[0] == "u" || p[0] == "g"):
				k, ok := parseC09Key(p[1] + ":" + p[2])
				if !ok {
					return "bad-op"
				}
				pieces = append(pieces, piece{ctl: p[0][0], key: k})
			default:
				return "bad-op"
			}
		}
		in := newStream(plan)
		out := newStream(nil)
		conn := newG4Conn(in, out, false)
		rc := newC09Recv(conn, mode, regs)
		for _, pc := range pieces {
			if pc.ctl != 0 {
				// everything written so far has been read and routed: the read loop is
				// blocked in Read. Now change the registration from this goroutine.
				in.waitReaderIdle()
				if pc.ctl == 'u' {
					rc.unregister(pc.key)
				} else {
					rc.register(pc.key)
				}
			}
			if len(pc.data) > 0 {
				_, _ = in.write(pc.data)
			}
		}
		in.closeWrite()
		return rc.finish()
	case "tx":
		if len(f) < 5 {
			return "bad-op"
		}
		pseed, e := strconv.ParseUint(f[4], 10, 64)
		if e != nil {
			return "bad-op"
		}
		type sender struct {
			key      c09Key
			payloads [][]byte
		}
		senders := []sender{}
		for _, s := range f[5:] {
			p := strings.Split(s, ":")
			if len(p) != 3 {
				return "bad-op"
			}
			k, ok := parseC09Key(p[0] + ":" + p[1])
			if !ok {
				return "bad-op"
			}
			sd := sender{key: k}
			if p[2] != "-" {
				for _, ps := range strings.Split(p[2], ",") {
					pl, ok := parsePayloadG4(ps)
					if !ok {
						return "bad-op"
					}
					sd.payloads = append(sd.payloads, pl)
				}
			}
			senders = append(senders, sd)
		}
		connA, connB := g4Pair(plan, nil, true, false)
		connA.out.sink = true
		connA.perturb = NewRand(pseed ^ 0x5bd1e995)
		mA := muxer.New(connA)
		// build segments first (NewSegment guard), then send concurrently
		nilCount := 0
		total := 0
		type job struct {
			ch   chan *muxer.Segment
			segs []*muxer.Segment
			r    *Rand
		}
		jobs := []job{}
		for i, sd := range senders {
			sendCh, _, _ := mA.RegisterProtocol(sd.key.id, sd.key.role)
			j := job{ch: sendCh, r: NewRand(pseed + uint64(i)*7919)}
			for _, pl := range sd.payloads {
				seg := muxer.NewSegment(sd.key.id, pl, sd.key.role == muxer.ProtocolRoleResponder)
				if seg == nil {
					nilCount++
					continue
				}
				j.segs = append(j.segs, seg)
				total++
			}
			jobs = append(jobs, j)
		}
		resCh := make(chan string, 1)
		go func() { resCh <- c09Receive(connB, mode, regs) }()
		start := make(chan struct{})
		var wg sync.WaitGroup
		for _, j := range jobs {
			wg.Add(1)
			go func(j job) {
				defer wg.Done()
				<-start
				for _, seg := range j.segs {
					for k := j.r.Intn(4); k > 0; k-- {
						runtime.Gosched()
					}
					j.ch <- seg
				}
			}(j)
		}
		close(start)
		wg.Wait()
		connA.waitWrites(total)
		// everything is on the wire: end of stream for the receiver
		connA.out.closeWrite()
		res := <-resCh
		mA.Stop()
		for range mA.ErrorChan() {
		}
		// wire order and fingerprint (timestamps zeroed)
		connA.wmu.Lock()
		writes := connA.writes
		connA.wmu.Unlock()
		order := []string{}
		wire := []byte{}
		for _, w := range writes {
			if len(w) < 8 {
				order = append(order, "short-write")
				continue
			}
			pid := binary.BigEndian.Uint16(w[4:6])
			k := c09Key{pid & 0x7fff, muxer.ProtocolRoleInitiator}
			if pid&0x8000 != 0 {
				k.role = muxer.ProtocolRoleResponder
			}
			order = append(order, k.String())
			z := append([]byte{0, 0, 0, 0}, w[4:]...)
			wire = append(wire, z...)
		}
		os := "-"
		if len(order) > 0 {
			os = strings.Join(order, ",")
		}
		return fmt.Sprintf("%s nil=%d order=%s wire=%s", res, nilCount, os, fpBytes(wire))
	}
	return "bad-op"
}

// ---------------------------------------------------------------- generator

func c09Payload(r *Rand, tier string) string {
	switch r.Intn(12) {
	case 0:
		return fmt.Sprintf("g1.%d", r.Intn(1000))
	case 1:
		return "g65535." + strconv.Itoa(r.Intn(1000))
	case 2:
		return "g65534." + strconv.Itoa(r.Intn(1000))
	case 3:
		return fmt.Sprintf("g%d.%d", Pick(r, 2, 7, 8, 9, 255, 256, 257), r.Intn(1000))
	case 4:
		if tier == "thorough" || r.Chance(1, 4) {
			return fmt.Sprintf("g%d.%d", 1+r.Intn(65535), r.Intn(1000))
		}
		return fmt.Sprintf("g%d.%d", 1+r.Intn(3000), r.Intn(1000))
	case 5:
		return "h" + hexs(r.Bytes(1+r.Intn(12)))
	default:
		return fmt.Sprintf("g%d.%d", 1+r.Intn(300), r.Intn(1000))
	}
}

func c09Plan(r *Rand) string {
	switch r.Intn(7) {
	case 0:
		return "1"
	case 1:
		return "-"
	case 2:
		return strconv.Itoa(Pick(r, 2, 3, 7, 8, 9, 16))
	case 3:
		return Pick(r, "8,1", "7,1", "9", "4,4,1", "8,65535", "8,65534,1", "65543", "65544")
	default:
		n := 1 + r.Intn(6)
		p := []string{}
		for i := 0; i < n; i++ {
			p = append(p, strconv.Itoa(Pick(r, 1, 1+r.Intn(16), 1+r.Intn(300), 1+r.Intn(70000))))
		}
		return strings.Join(p, ",")
	}
}

func genC09(r *Rand, n int, tier string, emit func(string)) {
	ids := []int{0, 2, 3, 5, 7, 8, 9, 10, 11, 18, 32767, 1234}
	roleS := []string{"i", "r"}
	for i := 0; i < n; i++ {
		if r.Chance(2, 5) {
			// ---- tx: concurrent senders
			ns := Pick(r, 1, 2, 2, 3, 4, 6)
			used := map[string]bool{}
			senders := []string{}
			regs := []string{}
			mode := Pick(r, 3, 3, 3, 0, 1, 2)
			for s := 0; s < ns; s++ {
				id := ids[r.Intn(len(ids))]
				ro := roleS[r.Intn(2)]
				// mostly pick the direction the receiving mode allows
				if mode == 1 && !r.Chance(1, 8) {
					ro = "r" // responder sends responses -> peer's initiator receives
				}
				if mode == 2 && !r.Chance(1, 8) {
					ro = "i"
				}
				key := fmt.Sprintf("%d:%s", id, ro)
				if used[key] {
					continue
				}
				used[key] = true
				np := Pick(r, 0, 1, 2, 3, 5, 12, 25)
				pls := []string{}
				for k := 0; k < np; k++ {
					if r.Chance(1, 40) {
						pls = append(pls, Pick(r, "g65536.1", "g70000.2", "g0.0"))
					} else {
						pls = append(pls, c09Payload(r, tier))
					}
				}
				pstr := "-"
				if len(pls) > 0 {
					pstr = strings.Join(pls, ",")
				}
				senders = append(senders, key+":"+pstr)
				peer := "r"
				if ro == "r" {
					peer = "i"
				}
				if !r.Chance(1, 25) { // sometimes the peer has no receiver for this sender
					regs = append(regs, fmt.Sprintf("%d:%s", id, peer))
				}
			}
			if r.Chance(1, 6) {
				regs = append(regs, fmt.Sprintf("%d:%s", 4000+r.Intn(5), roleS[r.Intn(2)]))
			}
			rs := "-"
			if len(regs) > 0 {
				rs = strings.Join(regs, ",")
			}
			emit(fmt.Sprintf("tx %d %s %s %d %s", mode, rs, c09Plan(r), r.Intn(1<<30), strings.Join(senders, " ")))
			continue
		}
		if r.Chance(1, 5) {
			// ---- rx with registrations changing at run time
			mode := Pick(r, 3, 3, 3, 0)
			id := ids[r.Intn(len(ids))]
			other := ids[r.Intn(len(ids))]
			regs := []string{fmt.Sprintf("%d:i", id), fmt.Sprintf("%d:r", id)}
			if other != id && r.Bool() {
				regs = append(regs, fmt.Sprintf("%d:%s", other, roleS[r.Intn(2)]))
			}
			if r.Chance(1, 10) {
				regs = append(regs, "43981:"+roleS[r.Intn(2)])
			}
			segTo := func(key string) string {
				k, _ := parseC09Key(key)
				pid := int(k.id)
				if k.role == muxer.ProtocolRoleInitiator {
					pid |= 0x8000
				}
				return fmt.Sprintf("s:%d:%d:%s", r.Intn(1000), pid, c09Payload(r, tier))
			}
			cur := append([]string{}, regs...)
			items := []string{}
			nsteps := 2 + r.Intn(8)
			for k := 0; k < nsteps; k++ {
				switch r.Intn(6) {
				case 0: // unregister something that is registered
					if len(cur) > 0 {
						j := r.Intn(len(cur))
						items = append(items, "u:"+cur[j])
						cur = append(cur[:j], cur[j+1:]...)
					}
				case 1: // (re-)register
					key := fmt.Sprintf("%d:%s", Pick(r, id, id, other, 4001), roleS[r.Intn(2)])
					items = append(items, "g:"+key)
					found := false
					for _, c := range cur {
						found = found || c == key
					}
					if !found {
						cur = append(cur, key)
					}
				case 2: // unregister something that is not registered (no-op)
					items = append(items, fmt.Sprintf("u:%d:%s", Pick(r, id, other, 4002), roleS[r.Intn(2)]))
					// keep cur consistent if it happened to be registered
					key := items[len(items)-1][2:]
					for j, c := range cur {
						if c == key {
							cur = append(cur[:j], cur[j+1:]...)
							break
						}
					}
				default: // traffic: mostly to registered receivers, sometimes to a removed one
					if len(cur) > 0 && !r.Chance(1, 8) {
						items = append(items, segTo(cur[r.Intn(len(cur))]))
					} else {
						items = append(items, segTo(fmt.Sprintf("%d:%s", id, roleS[r.Intn(2)])))
					}
				}
			}
			emit(fmt.Sprintf("rx %d %s %s %s", mode, strings.Join(regs, ","), c09Plan(r), strings.Join(items, " ")))
			continue
		}
		// ---- rx: crafted byte stream
		mode := Pick(r, 3, 3, 0, 1, 2)
		nreg := r.Intn(5)
		regs := []string{}
		regSet := map[string]bool{}
		for k := 0; k < nreg; k++ {
			key := fmt.Sprintf("%d:%s", ids[r.Intn(len(ids))], roleS[r.Intn(2)])
			if !regSet[key] {
				regSet[key] = true
				regs = append(regs, key)
			}
		}
		if r.Chance(1, 15) {
			key := "43981:" + roleS[r.Intn(2)] // muxer.ProtocolUnknown catch-all
			regSet[key] = true
			regs = append(regs, key)
		}
		nit := Pick(r, 0, 1, 2, 3, 5, 9)
		items := []string{}
		for k := 0; k < nit; k++ {
			// choose the protocol id: mostly a registered one, in the direction the mode allows
			pid := 0
			if len(regs) > 0 && !r.Chance(1, 10) {
				kk, _ := parseC09Key(regs[r.Intn(len(regs))])
				pid = int(kk.id) & 0x7fff
				if kk.role == muxer.ProtocolRoleInitiator {
					pid |= 0x8000
				}
				if r.Chance(1, 12) {
					pid ^= 0x8000
				}
			} else {
				pid = Pick(r, r.Intn(65536), ids[r.Intn(len(ids))], ids[r.Intn(len(ids))]|0x8000, 0xabcd, 0x2bcd, 0xffff)
			}
			ts := Pick(r, uint32(0), 1, 0xffffffff, uint32(r.U64()))
			switch {
			case r.Chance(1, 14):
				items = append(items, fmt.Sprintf("z:%d:%d", ts, pid))
			case r.Chance(1, 14):
				// raw: truncated header / truncated payload / garbage
				switch r.Intn(3) {
				case 0:
					items = append(items, "x:"+hexs(r.Bytes(1+r.Intn(7))))
				case 1:
					l := 2 + r.Intn(300)
					hdr := binary.BigEndian.AppendUint16(binary.BigEndian.AppendUint16(binary.BigEndian.AppendUint32(nil, ts), uint16(pid)), uint16(l))
					items = append(items, "x:"+hexs(append(hdr, r.Bytes(r.Intn(l))...)))
				default:
					items = append(items, "x:"+hexs(r.Bytes(8+r.Intn(40))))
				}
			default:
				items = append(items, fmt.Sprintf("s:%d:%d:%s", ts, pid, c09Payload(r, tier)))
			}
		}
		rs := "-"
		if len(regs) > 0 {
			rs = strings.Join(regs, ",")
		}
		emit(strings.TrimSpace(fmt.Sprintf("rx %d %s %s %s", mode, rs, c09Plan(r), strings.Join(items, " "))))
	}
}
