package main

// C38 — ECVRF. pv: Prove / VerifyAndHash / Verify on random seeds and messages.
// flip: single-bit flips of proof, public key, message and expected output (TESTS of the
// soundness clause, which has no theorem). noncanon: the genuine proof with its response
// scalar s replaced by the non-canonical encoding s + L. smallorder: the eight small-order
// key encodings with a well-formed proof.

import (
	"bytes"
	"fmt"
	"math/big"
	"strconv"
	"strings"
	"time"

	"github.com/blinklabs-io/gouroboros/vrf"
)

func init() {
	register(&Prop{ID: "C38", Gen: genC38, Run: runC38, Timeout: 3 * time.Minute})
}

var c38SmallOrder = []string{
	"0100000000000000000000000000000000000000000000000000000000000000",
	"ecffffffffffffffffffffffffffffffffffffffffffffffffffffffffffff7f",
	"0000000000000000000000000000000000000000000000000000000000000000",
	"0000000000000000000000000000000000000000000000000000000000000080",
	"26e8958fc2b227b045c3f489f2ef98f0d5dfac05d3c63339b13802886d53fc05",
	"26e8958fc2b227b045c3f489f2ef98f0d5dfac05d3c63339b13802886d53fc85",
	"c7176a703d4dd84fba3c0b760d10670f2a2053fa2c39ccc64ec7fd7792ac037a",
	"c7176a703d4dd84fba3c0b760d10670f2a2053fa2c39ccc64ec7fd7792ac03fa",
}

func c38ErrKind(err error) string {
	m := err.Error()
	switch {
	case strings.Contains(m, "small order"):
		return "smallorder"
	case strings.Contains(m, "non-canonical s"):
		return "noncanon"
	case err == vrf.ErrProofVerificationFailed || strings.Contains(m, "issue verifying proof"):
		return "verify"
	default:
		return "decode"
	}
}

func runC38(op string) string {
	f := strings.Fields(op)
	if len(f) < 2 || f[0] != "vrf" {
		return "bad-op"
	}
	switch f[1] {
	case "x":
		return g8RunVrfX(f)
	case "sok":
		return g8RunVrfSmallOrder(f)
	case "pv":
		if len(f) != 4 {
			return "bad-op"
		}
		seed, ok1 := unhex(f[2])
		alpha, ok2 := unhex(f[3])
		if !ok1 || !ok2 || len(seed) != 32 {
			return "bad-op"
		}
		pk, sk, err := vrf.KeyGen(seed)
		if err != nil {
			return "keygen-err"
		}
		proof, out, err := vrf.Prove(sk, alpha)
		if err != nil {
			return "prove-err " + err.Error()
		}
		proof2, out2, _ := vrf.Prove(sk, alpha)
		det := bytes.Equal(proof, proof2) && bytes.Equal(out, out2)
		got, err := vrf.VerifyAndHash(pk, proof, alpha)
		if err != nil {
			return "v=0 err=" + c38ErrKind(err)
		}
		okv, err := vrf.Verify(pk, proof, out, alpha)
		h, _ := vrf.ProofToHash(proof)
		same := bytes.Equal(got, out) && okv && err == nil && bytes.Equal(h, out)
		return fmt.Sprintf("v=1 same=%s det=%s pl=%d ol=%d", b01(same), b01(det), len(proof), len(out))
	case "flip":
		if len(f) != 7 {
			return "bad-op"
		}
		seed, ok1 := unhex(f[2])
		alpha, ok2 := unhex(f[3])
		by, e1 := strconv.Atoi(f[5])
		bi, e2 := strconv.Atoi(f[6])
		if !ok1 || !ok2 || len(seed) != 32 || e1 != nil || e2 != nil || by < 0 || bi < 0 || bi > 7 {
			return "bad-op"
		}
		pk, sk, _ := vrf.KeyGen(seed)
		proof, out, err := vrf.Prove(sk, alpha)
		if err != nil {
			return "prove-err"
		}
		alpha = append([]byte{}, alpha...)
		var tgt []byte
		switch f[4] {
		case "proof":
			tgt = proof
		case "pk":
			tgt = pk
		case "out":
			tgt = out
		case "msg":
			tgt = alpha
		default:
			return "bad-op"
		}
		if by >= len(tgt) {
			return "bad-op"
		}
		tgt[by] ^= 1 << uint(bi)
		okv, err := vrf.Verify(pk, proof, out, alpha)
		if err == nil && okv {
			return "v=1"
		}
		return "v=0"
	case "noncanon":
		if len(f) != 4 {
			return "bad-op"
		}
		seed, ok1 := unhex(f[2])
		alpha, ok2 := unhex(f[3])
		if !ok1 || !ok2 || len(seed) != 32 {
			return "bad-op"
		}
		pk, sk, _ := vrf.KeyGen(seed)
		proof, _, err := vrf.Prove(sk, alpha)
		if err != nil {
			return "prove-err"
		}
		// s + L, little endian
		L, _ := new(big.Int).SetString("7237005577332262213973186563042994240857116359379907606001950938285454250989", 10)
		le := append([]byte{}, proof[48:80]...)
		for i, j := 0, len(le)-1; i < j; i, j = i+1, j-1 {
			le[i], le[j] = le[j], le[i]
		}
		s := new(big.Int).SetBytes(le)
		s.Add(s, L)
		sb := s.FillBytes(make([]byte, 32))
		for i := 0; i < 32; i++ {
			proof[48+i] = sb[31-i]
		}
		_, err = vrf.VerifyAndHash(pk, proof, alpha)
		if err == nil {
			return "v=1 same=0"
		}
		return "v=0 err=" + c38ErrKind(err)
	case "smallorder":
		if len(f) != 5 {
			return "bad-op"
		}
		i, e1 := strconv.Atoi(f[2])
		seed, ok1 := unhex(f[3])
		alpha, ok2 := unhex(f[4])
		if e1 != nil || i < 0 || i >= len(c38SmallOrder) || !ok1 || !ok2 || len(seed) != 32 {
			return "bad-op"
		}
		_, sk, _ := vrf.KeyGen(seed)
		proof, _, err := vrf.Prove(sk, alpha)
		if err != nil {
			return "prove-err"
		}
		pk, _ := unhex(c38SmallOrder[i])
		_, err = vrf.VerifyAndHash(pk, proof, alpha)
		if err == nil {
			return "v=1 same=0"
		}
		return "v=0 err=" + c38ErrKind(err)
	}
	return "bad-op"
}

func genC38(r *Rand, n int, tier string, emit func(string)) {
	for i := 0; i < n; {
		seed := r.Bytes(32)
		alpha := r.Bytes(Pick(r, 0, 1, 32, 32, 32, 100))
		emit(fmt.Sprintf("vrf pv %s %s", hexs(seed), hexs(alpha)))
		i++
		// oracle-tied runs: the prover's and verifier's intermediate values, by name
		for k := 0; k < 3; k++ {
			oalpha := r.Bytes(len(alpha) + 1 - r.Intn(2)*min(len(alpha), 1))
			if bytes.Equal(oalpha, alpha) {
				oalpha = append(oalpha, 1)
			}
			cse := g8VrfCases[r.Intn(len(g8VrfCases))]
			if r.Chance(1, 4) {
				// a torsion component in Gamma: crafted by the key holder, or merely added
				if r.Bool() {
					cse = fmt.Sprintf("gammaT.%d.%d", 1+r.Intn(7), r.Intn(8))
				} else {
					cse = fmt.Sprintf("gammaTbad.%d", 1+r.Intn(7))
				}
			}
			emit(fmt.Sprintf("vrf x %s %s %s %s %s", hexs(seed), hexs(r.Bytes(32)), hexs(alpha), hexs(oalpha), cse))
			i++
		}
		if r.Chance(1, 8) {
			emit(fmt.Sprintf("vrf noncanon %s %s", hexs(seed), hexs(alpha)))
			i++
		}
		if r.Chance(1, 8) {
			emit(fmt.Sprintf("vrf smallorder %d %s %s", r.Intn(8), hexs(seed), hexs(alpha)))
			i++
		}
		// every small-order key encoding, each with a proof crafted for it
		if r.Chance(1, 6) {
			for k := range g8SmallOrderKeys {
				emit(fmt.Sprintf("vrf sok %d %s %s", k, hexs(seed), hexs(alpha)))
				i++
			}
		}
		if tier == "thorough" && r.Chance(1, 40) {
			// exhaustive single-bit flips over the 80-byte proof and the 32-byte key
			for by := 0; by < 80; by++ {
				for bi := 0; bi < 8; bi++ {
					emit(fmt.Sprintf("vrf flip %s %s proof %d %d", hexs(seed), hexs(alpha), by, bi))
					i++
				}
			}
			for by := 0; by < 32; by++ {
				for bi := 0; bi < 8; bi++ {
					emit(fmt.Sprintf("vrf flip %s %s pk %d %d", hexs(seed), hexs(alpha), by, bi))
					i++
				}
			}
			continue
		}
		for k := 0; k < 6; k++ {
			t := Pick(r, "proof", "proof", "pk", "msg", "out")
			lim := map[string]int{"proof": 80, "pk": 32, "out": 64, "msg": len(alpha)}[t]
			if lim == 0 {
				continue
			}
			emit(fmt.Sprintf("vrf flip %s %s %s %d %d", hexs(seed), hexs(alpha), t, r.Intn(lim), r.Intn(8)))
			i++
		}
	}
}
