package main

// C42 — the pipeline applies each good block once, in order.
// Scenarios: 1..16 workers per stage, buffers 1..64, valid / undecodable /
// invalid blocks, skewed stage latencies, foreground and background
// submitters, Stop (synchronous or concurrent) at an arbitrary point.

import (
	"fmt"
	"strings"
	"time"
)

func init() {
	register(&Prop{ID: "C42", Gen: genC42, Run: runPipe, Timeout: 120 * time.Second})
}

func genC42(r *Rand, n int, tier string, emit func(string)) {
	for i := 0; i < n; i++ {
		dw := Pick(r, 1, 2, 3, 4, 8, 16, 1+r.Intn(16))
		vw := Pick(r, 0, 1, 2, 4, 16, r.Intn(17))
		buf := Pick(r, 1, 2, 4, 8, 64)
		nb := 1 + r.Intn(40)
		if tier == "thorough" && r.Chance(1, 10) {
			nb = 100 + r.Intn(200)
		}
		stopAt := -1
		if r.Chance(2, 5) {
			stopAt = r.Intn(nb + 1)
		}
		skew := r.Chance(1, 2)
		var sb strings.Builder
		fmt.Fprintf(&sb, "pipe dw=%d vw=%d buf=%d |", dw, vw, buf)
		for b := 0; b < nb; b++ {
			if b == stopAt {
				sb.WriteString(Pick(r, " stop", " stopbg", " stopbg"))
			}
			lat := func() int {
				if !skew {
					return pipeLat(r)
				}
				// skewed: most blocks fast, a few very slow (later blocks overtake them)
				if r.Chance(1, 6) {
					return 10 + r.Intn(40)
				}
				return r.Intn(2)
			}
			cmd := "s"
			if r.Chance(1, 4) {
				cmd = "bs"
			}
			to := 0
			if r.Chance(1, 12) {
				to = Pick(r, -1, 1, 5)
			}
			fmt.Fprintf(&sb, " %s:%s:%d:%d:%d:%d:-", cmd, pipeKind(r, vw), to, lat(), lat(), lat())
			if r.Chance(1, 15) {
				fmt.Fprintf(&sb, " sleep:%d", r.Intn(20))
			}
			if r.Chance(1, 25) {
				sb.WriteString(" pc")
			}
		}
		if stopAt == nb {
			sb.WriteString(Pick(r, " stop", " stopbg"))
		}
		emit(sb.String())
	}
}
