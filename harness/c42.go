package main

// C42 — the pipeline applies each good block once, in order.
// Scenarios: 1..16 workers per stage, buffers 1..64, valid / undecodable /
// invalid blocks, skewed stage latencies, foreground and background
// submitters, Stop (synchronous or concurrent) at an arbitrary point.

import (
	"fmt"
	"strings"
	"time"
)

func init() {
	register(&Prop{ID: "C42", Gen: genC42, Run: runPipe, Timeout: 10 * time.Minute})
}

// more out-of-order arrivals than MaxPendingBlocks: they must be buffered (and reported on the
// errors stream), never dropped
func genC42PendingLimit(r *Rand) string {
	mp := 1 + r.Intn(4)
	dw := mp + 2 + r.Intn(4)
	vw := Pick(r, 0, 0, dw)
	var sb strings.Builder
	fmt.Fprintf(&sb, "pipe dw=%d vw=%d buf=64 mp=%d | s:g:0:0:0:0:d", dw, vw, mp)
	for k := mp + 1 + r.Intn(6); k > 0; k-- {
		fmt.Fprintf(&sb, " s:%s:0:%d:0:0:-", pipeKind(r, vw), pipeLat(r))
	}
	sb.WriteString(" settle pc rel")
	for k := r.Intn(3); k > 0; k-- {
		sb.WriteString(" s:g:0:0:0:0:-")
	}
	return sb.String()
}

// Stop while the errors stream is full and nobody reads it: workers blocked on the
// errors channel must give up on cancellation
func genC42ErrorsFull(r *Rand) string {
	dw := 1 + r.Intn(4)
	vw := Pick(r, 0, 0, 1, 3)
	buf := Pick(r, 1, 1, 2)
	var sb strings.Builder
	fmt.Fprintf(&sb, "pipe dw=%d vw=%d buf=%d | epause", dw, vw, buf)
	// undecodable (and invalid) blocks: each produces an error; submissions beyond the
	// pipeline's capacity give up after a few ms
	for k := buf + dw + 1 + r.Intn(6); k > 0; k-- {
		kind := "d"
		if vw > 0 && r.Chance(1, 3) {
			kind = "v"
		}
		fmt.Fprintf(&sb, " s:%s:%d:0:0:0:-", kind, Pick(r, 2, 3, -1))
	}
	sb.WriteString(Pick(r, " stop", " stopbg", " sleep:20 stop"))
	return sb.String()
}

func genC42(r *Rand, n int, tier string, emit func(string)) {
	for i := 0; i < n; i++ {
		switch r.Intn(8) {
		case 0:
			emit(genC42PendingLimit(r))
			continue
		case 1:
			emit(genC42ErrorsFull(r))
			continue
		case 2:
			tail := ""
			for k := r.Intn(4); k > 0; k-- {
				tail += fmt.Sprintf(" %s:g:0:%d:0:0:-", Pick(r, "s", "bs"), pipeLat(r))
			}
			holdA := r.Bool()
			end := Pick(r, "", " stopbg", " settle pc")
			if holdA && end == " settle pc" {
				// a block held inside ApplyFunc must be released before the pipeline can be
				// expected to come to rest (otherwise "unsettled" is the scenario's doing)
				end = " rel settle pc"
			}
			emit(pipeTurnScenario(r, holdA, tail+end))
			continue
		}
		dw := Pick(r, 1, 2, 3, 4, 8, 16, 1+r.Intn(16))
		vw := Pick(r, 0, 1, 2, 4, 16, r.Intn(17))
		buf := Pick(r, 1, 2, 4, 8, 64)
		nb := 1 + r.Intn(40)
		if tier == "thorough" && r.Chance(1, 10) {
			nb = 100 + r.Intn(200)
		}
		stopAt := -1
		if r.Chance(2, 5) {
			stopAt = r.Intn(nb + 1)
		}
		skew := r.Chance(1, 2)
		var sb strings.Builder
		fmt.Fprintf(&sb, "pipe dw=%d vw=%d buf=%d |", dw, vw, buf)
		for b := 0; b < nb; b++ {
			if b == stopAt {
				sb.WriteString(Pick(r, " stop", " stopbg", " stopbg"))
			}
			lat := func() int {
				if !skew {
					return pipeLat(r)
				}
				// skewed: most blocks fast, a few very slow (later blocks overtake them)
				if r.Chance(1, 6) {
					return 10 + r.Intn(40)
				}
				return r.Intn(2)
			}
			cmd := "s"
			if r.Chance(1, 4) {
				cmd = "bs"
			}
			to := 0
			if r.Chance(1, 12) {
				to = Pick(r, -1, 1, 5)
			}
			fmt.Fprintf(&sb, " %s:%s:%d:%d:%d:%d:-", cmd, pipeKind(r, vw), to, lat(), lat(), lat())
			if r.Chance(1, 15) {
				fmt.Fprintf(&sb, " sleep:%d", r.Intn(20))
			}
			if r.Chance(1, 25) {
				sb.WriteString(" pc")
			}
		}
		if stopAt == nb {
			sb.WriteString(Pick(r, " stop", " stopbg"))
		}
		emit(sb.String())
	}
}
