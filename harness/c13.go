package main

// C13 — receive buffering is bounded.
//
//	lim <proto> <gate> <planToRecv> <pseed> <step>*
//	    proto: cs  chain-sync NtN state map, receiver under test = client
//	           bf  block-fetch state map,    receiver under test = client
//	           bs  block-fetch state map,    receiver under test = server
//	           g<N> custom one-state protocol (server streams type 0), receiver = client, limit N
//	    gate:  f  consumer free-running (Gosched perturbation)
//	           b  slow consumer: the handler returns only once the read loop has been seen
//	              waiting for space (back-pressure engaged) or everything has been accepted
//	    step:  c[@k]:<type>:<T.seed> | s[@k]:<type>:<T.seed>   client / server queues a message
//	           (@k: only after this side's handler has handled k messages)
//	grow <kind> <planToRecv> <pseed> <chunkT> <count>
//	    a sender streams <count> raw chunks of <chunkT> bytes that together are one CBOR item
//	    which never completes (kind b: huge definite byte string, a: indefinite array) or
//	    completes exactly with the last chunk (kind c)
//
// The receiver's accounting events come from the verif hook protocol.VerifSegTrace.
// Output: err=<class> handled=<n|-> trace=<a:size:pending:limit|w:...|r:size:pending,...>
//         (grow: err=<class> handled=<n|-> segs=<payload lengths>)

import (
	"fmt"
	"runtime"
	"strconv"
	"strings"
	"sync"
	"time"

	"github.com/blinklabs-io/gouroboros/protocol"
	"github.com/blinklabs-io/gouroboros/protocol/blockfetch"
	"github.com/blinklabs-io/gouroboros/protocol/chainsync"
)

func init() {
	protocol.VerifSegTrace = c13Dispatch
	register(&Prop{ID: "C13", Gen: genC13, Run: runC13, Timeout: 60 * time.Second})
}

// ---- trace collection, keyed by *Protocol

type c13Trace struct {
	mu       sync.Mutex
	cond     *sync.Cond
	events   []string
	acc      int
	rel      int
	waitSeen bool
	stopped  bool
	spin     bool          // the read loop waits for space although nothing is pending: it can never proceed
	spinCh   chan struct{} // closed once when spin is detected
}

var c13Traces sync.Map // *protocol.Protocol -> *c13Trace

func c13Dispatch(p *protocol.Protocol, kind string, size, pending, limit int) {
	v, ok := c13Traces.Load(p)
	if !ok {
		return
	}
	t := v.(*c13Trace)
	t.mu.Lock()
	switch kind {
	case "acc":
		t.events = append(t.events, fmt.Sprintf("a:%d:%d:%d", size, pending, limit))
		t.acc++
	case "wait":
		e := fmt.Sprintf("w:%d:%d:%d", size, pending, limit)
		if len(t.events) == 0 || t.events[len(t.events)-1] != e {
			t.events = append(t.events, e)
		}
		t.waitSeen = true
		if t.acc == t.rel && !t.spin {
			// everything accepted so far has been released, so no release can ever make room:
			// the back-pressure loop will poll forever. Report instead of waiting for a timeout.
			t.spin = true
			if t.spinCh != nil {
				close(t.spinCh)
			}
		}
	case "rel":
		t.events = append(t.events, fmt.Sprintf("r:%d:%d", size, pending))
		t.rel++
	}
	t.cond.Broadcast()
	t.mu.Unlock()
}

func zeroLimits(sm protocol.StateMap) protocol.StateMap {
	out := protocol.StateMap{}
	for k, v := range sm {
		v.PendingMessageByteLimit = 0
		v.Timeout = 0
		v.TimeoutFunc = nil
		out[k] = v
	}
	return out
}

func noTimeouts(sm protocol.StateMap) protocol.StateMap {
	out := protocol.StateMap{}
	for k, v := range sm {
		v.Timeout = 0
		v.TimeoutFunc = nil
		out[k] = v
	}
	return out
}

func stateByName(sm protocol.StateMap, name string) (protocol.State, bool) {
	for k := range sm {
		if k.Name == name {
			return k, true
		}
	}
	return protocol.State{}, false
}

type c13Step struct {
	side  byte // 'c' or 's'
	after int
	typ   uint8
	raw   []byte
}

func runC13(op string) string {
	f := strings.Fields(op)
	if len(f) < 1 {
		return "bad-op"
	}
	switch f[0] {
	case "lim":
		return runC13Lim(f)
	case "grow":
		return runC13Grow(f)
	}
	return "bad-op"
}

func runC13Lim(f []string) string {
	if len(f) < 5 {
		return "bad-op"
	}
	proto, gate := f[1], f[2]
	plan, ok := parseNatListG4(f[3])
	pseed, e := strconv.ParseUint(f[4], 10, 64)
	if !ok || e != nil || (gate != "f" && gate != "b") {
		return "bad-op"
	}
	var sm protocol.StateMap
	var initial protocol.State
	recvSide := byte('c')
	switch {
	case proto == "cs":
		sm = noTimeouts(chainsync.StateMapNtN)
		initial, ok = stateByName(sm, "Idle")
	case proto == "bf":
		sm = noTimeouts(blockfetch.StateMap)
		initial, ok = blockfetch.StateIdle, true
	case proto == "bs":
		sm = noTimeouts(blockfetch.StateMap)
		initial, ok = blockfetch.StateIdle, true
		recvSide = 's'
	case strings.HasPrefix(proto, "g"):
		n, err := strconv.Atoi(proto[1:])
		if err != nil || n < 0 {
			return "bad-op"
		}
		sm = protocol.StateMap{
			g4StIdle: protocol.StateMapEntry{
				Agency:                  protocol.AgencyServer,
				PendingMessageByteLimit: n,
				Transitions:             []protocol.StateTransition{{MsgType: 0, NewState: g4StIdle}},
			},
		}
		initial, ok = g4StIdle, true
	default:
		return "bad-op"
	}
	if !ok {
		return "bad-op"
	}
	steps := []c13Step{}
	toRecv := 0
	for _, s := range f[5:] {
		p := strings.Split(s, ":")
		if len(p) != 3 || len(p[0]) < 1 {
			return "bad-op"
		}
		st := c13Step{side: p[0][0]}
		if st.side != 'c' && st.side != 's' {
			return "bad-op"
		}
		if len(p[0]) > 1 {
			if p[0][1] != '@' {
				return "bad-op"
			}
			k, err := strconv.Atoi(p[0][2:])
			if err != nil {
				return "bad-op"
			}
			st.after = k
		}
		ty, err := strconv.Atoi(p[1])
		if err != nil || ty < 0 || ty > 23 {
			return "bad-op"
		}
		st.typ = uint8(ty)
		m, ok := parseC10Msg(p[2], byte(ty))
		if !ok {
			return "bad-op"
		}
		st.raw = m.raw
		steps = append(steps, st)
		if st.side != recvSide {
			toRecv++
		}
	}
	// the receiver under test keeps the real limits; the other side has none
	smC, smS := sm, zeroLimits(sm)
	planC, planS := plan, []int(nil)
	if recvSide == 's' {
		smC, smS = zeroLimits(sm), sm
		planC, planS = nil, plan
	}
	// connC reads what the server writes: planBA fragments the client's reads
	connC, connS := g4Pair(planS, planC, false, false)
	connC.out.sink, connS.out.sink = true, true
	connC.out.maxBuf, connS.out.maxBuf = 1<<20, 1<<20 // bounded "socket buffers": a stalled reader blocks the writer

	tr := &c13Trace{spinCh: make(chan struct{})}
	tr.cond = sync.NewCond(&tr.mu)
	handled := map[byte]*int{'c': new(int), 's': new(int)}
	var hmu sync.Mutex
	hcond := sync.NewCond(&hmu)
	gr := NewRand(pseed ^ 0x77)
	mkHandler := func(side byte) protocol.MessageHandlerFunc {
		return func(m protocol.Message) error {
			if side == recvSide {
				if gate == "b" {
					// slow consumer: hold the message until the read loop is seen waiting for
					// space, or everything has been accepted, or a bounded number of yields
					// has passed (the producer may be waiting for us: request/response)
					for spin := 0; spin < 300; spin++ {
						tr.mu.Lock()
						open := tr.waitSeen || tr.acc >= toRecv || tr.stopped
						tr.mu.Unlock()
						if open {
							break
						}
						runtime.Gosched()
						time.Sleep(10 * time.Microsecond)
					}
					tr.mu.Lock()
					tr.waitSeen = false
					tr.mu.Unlock()
				} else {
					hmu.Lock()
					k := gr.Intn(3)
					hmu.Unlock()
					for ; k > 0; k-- {
						runtime.Gosched()
					}
				}
			}
			hmu.Lock()
			*handled[side]++
			hcond.Broadcast()
			hmu.Unlock()
			return nil
		}
	}
	client := newG4EndpointQ(connC, protocol.ProtocolRoleClient, smC, initial, mkHandler('c'), "g4c", 1000)
	server := newG4EndpointQ(connS, protocol.ProtocolRoleServer, smS, initial, mkHandler('s'), "g4s", 1000)
	recvEp := client
	if recvSide == 's' {
		recvEp = server
	}
	c13Traces.Store(recvEp.proto, tr)
	defer c13Traces.Delete(recvEp.proto)
	client.start()
	server.start()

	stop := make(chan struct{})
	sendErr := make(chan error, 2)
	for _, side := range []byte{'c', 's'} {
		ep := client
		if side == 's' {
			ep = server
		}
		go func(side byte, ep *g4Endpoint) {
			for _, st := range steps {
				if st.side != side {
					continue
				}
				hmu.Lock()
				for *handled[side] < st.after {
					select {
					case <-stop:
						hmu.Unlock()
						return
					default:
					}
					hcond.Wait()
				}
				hmu.Unlock()
				if err := ep.proto.SendMessage(g4RawMsg(st.typ, st.raw)); err != nil {
					select {
					case sendErr <- err:
					default:
					}
					return
				}
			}
		}(side, ep)
	}
	// done when the receiver under test has released everything addressed to it
	done := make(chan struct{})
	go func() {
		tr.mu.Lock()
		for tr.rel < toRecv && !tr.stopped {
			tr.cond.Wait()
		}
		tr.mu.Unlock()
		close(done)
	}()
	var err error
	spun := false
	select {
	case <-done:
	case <-tr.spinCh:
		spun = true
	case err = <-client.errCh:
	case err = <-server.errCh:
	case err = <-sendErr:
	}
	tr.mu.Lock()
	tr.stopped = true
	tr.cond.Broadcast()
	tr.mu.Unlock()
	close(stop)
	hmu.Lock()
	hcond.Broadcast()
	hmu.Unlock()
	client.stop()
	server.stop()
	<-done
	tr.mu.Lock()
	ev := strings.Join(tr.events, ",")
	rel := tr.rel
	tr.mu.Unlock()
	if ev == "" {
		ev = "-"
	}
	h := strconv.Itoa(rel)
	if err != nil || spun {
		h = "-"
	}
	ec := g4ErrClass(err)
	if spun {
		ec = "spin"
	}
	return fmt.Sprintf("err=%s handled=%s trace=%s", ec, h, ev)
}

func runC13Grow(f []string) string {
	if len(f) != 6 {
		return "bad-op"
	}
	kind := f[1]
	plan, ok := parseNatListG4(f[2])
	pseed, e0 := strconv.ParseUint(f[3], 10, 64)
	chunkT, e1 := strconv.Atoi(f[4])
	count, e2 := strconv.Atoi(f[5])
	if !ok || e0 != nil || e1 != nil || e2 != nil || chunkT < 16 || count < 1 || chunkT*count > 40<<20 {
		return "bad-op"
	}
	total := chunkT * count
	stream := make([]byte, 0, total)
	switch kind {
	case "b": // [0, bytes(0x7fffffff) ...  never completes
		stream = append(stream, 0x82, 0x00, 0x5a, 0x7f, 0xff, 0xff, 0xff)
	case "c": // [0, bytes(L)] completing exactly at the end
		l := total - 7
		stream = append(stream, 0x82, 0x00, 0x5a, byte(l>>24), byte(l>>16), byte(l>>8), byte(l))
	case "a": // [0, [_ bytes(60000), bytes(60000), ...   never completes
		stream = append(stream, 0x82, 0x00, 0x9f)
	default:
		return "bad-op"
	}
	if kind == "a" {
		item := append([]byte{0x59, 0xea, 0x60}, genBytesG4(60000, pseed)...)
		for len(stream) < total {
			stream = append(stream, item...) // whole items only: the array just never ends
		}
	} else {
		stream = append(stream, genBytesG4(total-len(stream), pseed)...)
	}
	chunks := [][]byte{}
	for off := 0; off < len(stream); off += chunkT {
		end := off + chunkT
		if end > len(stream) {
			end = len(stream)
		}
		chunks = append(chunks, stream[off:end])
	}
	sm := protocol.StateMap{
		g4StIdle: protocol.StateMapEntry{
			Agency:      protocol.AgencyServer,
			Transitions: []protocol.StateTransition{{MsgType: 0, NewState: g4StIdle}},
		},
	}
	connC, connS := g4Pair(nil, plan, false, true)
	connC.out.sink, connS.out.sink = true, true
	connS.out.maxBuf = 1 << 20 // bounded socket buffer: the sender cannot run ahead of the reader by more
	handledN := 0
	var hmu sync.Mutex
	done := make(chan struct{})
	var once sync.Once
	handler := func(m protocol.Message) error {
		hmu.Lock()
		handledN++
		hmu.Unlock()
		if len(m.Cbor()) == len(stream) {
			once.Do(func() { close(done) })
		}
		return nil
	}
	client := newG4EndpointQ(connC, protocol.ProtocolRoleClient, sm, g4StIdle, handler, "g4c", 0)
	server := newG4EndpointQ(connS, protocol.ProtocolRoleServer, sm, g4StIdle,
		func(protocol.Message) error { return nil }, "g4s", 0)
	client.start()
	server.start()
	sendErr := make(chan error, 1)
	go func() {
		for _, ch := range chunks {
			if err := server.proto.SendMessageAndWait(g4RawMsg(0, ch)); err != nil {
				sendErr <- err
				return
			}
		}
		if kind != "c" {
			// endless: keep feeding filler (the item still never completes) until the
			// receiver gives up. At most 1 MiB + 11 segments can be unread at any time,
			// so once 8 MiB more than the stream have been written without an error the
			// receiver has buffered far beyond the bound: report that outcome as "stalled".
			filler := genBytesG4(chunkT, pseed+1)
			if kind == "a" {
				filler = append([]byte{0x59, 0xea, 0x60}, genBytesG4(60000, pseed)...)
			}
			for sent := 0; sent < 8<<20; sent += len(filler) {
				if err := server.proto.SendMessageAndWait(g4RawMsg(0, filler)); err != nil {
					sendErr <- err
					return
				}
			}
			sendErr <- fmt.Errorf("stalled: receiver still buffering an incomplete item")
		}
	}()
	var err error
	select {
	case <-done:
	case err = <-client.errCh:
	case err = <-server.errCh:
	case err = <-sendErr:
		// the sender lost the race against the receiver's error report: prefer that
		select {
		case e2 := <-client.errCh:
			err = e2
		default:
		}
	}
	client.stop()
	server.stop()
	hmu.Lock()
	h := strconv.Itoa(handledN)
	hmu.Unlock()
	if err != nil {
		h = "-"
	}
	ec := g4ErrClass(err)
	if err != nil && strings.HasPrefix(err.Error(), "stalled") {
		ec = "stalled"
	}
	return fmt.Sprintf("err=%s handled=%s segs=%s", ec, h, server.segLens())
}

// ---------------------------------------------------------------- generator

func genC13(r *Rand, n int, tier string, emit func(string)) {
	for i := 0; i < n; i++ {
		gate := Pick(r, "b", "b", "f")
		plan := Pick(r, "-", "-", "65543", "4096,7", "1000", "8,65535")
		seed := r.Intn(1 << 30)
		ms := func(t int) string { return fmt.Sprintf("%d.%d", t, r.Intn(1000)) }
		pickCase := r.Intn(10)
		if tier == "race" && (pickCase == 3 || pickCase == 4) {
			pickCase = 6 // the race-detector run leaves out the multi-MiB block-fetch batches
		}
		switch pickCase {
		case 0, 1, 2: // chain-sync NtN client, pipelined RequestNext, fast server
			nm := Pick(r, 1, 3, 8, 20, 40, 80)
			if tier == "race" {
				nm = Pick(r, 1, 3, 6)
			}
			steps := []string{}
			over := r.Chance(1, 8)
			for k := 0; k < nm; k++ {
				steps = append(steps, "c:0:2.0")
			}
			for k := 0; k < nm; k++ {
				sz := Pick(r, 3+r.Intn(200), 1000+r.Intn(30000), 60000+r.Intn(100000), 150000+r.Intn(100000), 461990+r.Intn(11), 462000)
				if over && k == nm/2 {
					sz = Pick(r, 462001, 462002, 500000, 900000)
				}
				// the server answers request k only after it has received it (agency)
				if r.Chance(1, 6) {
					steps = append(steps, fmt.Sprintf("s@%d:1:2.0", k+1)) // AwaitReply -> MustReply
				}
				steps = append(steps, fmt.Sprintf("s@%d:%d:%s", k+1, Pick(r, 2, 2, 3), ms(sz)))
			}
			emit(fmt.Sprintf("lim cs %s %s %d %s", gate, plan, seed, strings.Join(steps, " ")))
		case 3, 4: // block-fetch client: batches of blocks
			nb := Pick(r, 1, 2, 3)
			steps := []string{}
			handledSoFar := 0
			over := r.Chance(1, 8)
			for b := 0; b < nb; b++ {
				steps = append(steps, fmt.Sprintf("c@%d:0:%s", handledSoFar, ms(20+r.Intn(100))))
				if r.Chance(1, 6) {
					steps = append(steps, fmt.Sprintf("s@%d:3:2.0", b+1)) // NoBlocks
					handledSoFar++
					continue
				}
				steps = append(steps, fmt.Sprintf("s@%d:2:2.0", b+1))
				nblk := Pick(r, 1, 3, 6, 12)
				for k := 0; k < nblk; k++ {
					sz := Pick(r, 500+r.Intn(2000), 80000+r.Intn(20000), 400000+r.Intn(500000), 1200000+r.Intn(100000), 2499990+r.Intn(11))
					if over && b == nb-1 && k == nblk-1 {
						sz = Pick(r, 2500001, 2600000)
					}
					steps = append(steps, fmt.Sprintf("s@%d:4:%s", b+1, ms(sz)))
				}
				steps = append(steps, fmt.Sprintf("s@%d:5:2.0", b+1))
				handledSoFar += nblk + 2
			}
			emit(fmt.Sprintf("lim bf %s %s %d %s", gate, plan, seed, strings.Join(steps, " ")))
		case 5: // block-fetch server in Idle (limit 65535)
			sz := Pick(r, 20+r.Intn(100), 65530+r.Intn(6), 65535, 65536, 70000)
			emit(fmt.Sprintf("lim bs %s %s %d c:0:%s s@1:3:2.0", gate, plan, seed, ms(sz)))
		case 6, 7, 8: // custom limit, exact boundaries
			lim := Pick(r, 0, 10, 64, 100, 1000, 65535, 100000)
			nm := Pick(r, 1, 2, 5, 12, 30, 100)
			steps := []string{}
			for k := 0; k < nm; k++ {
				var sz int
				switch {
				case lim == 0:
					sz = 2 + r.Intn(3000)
				case r.Chance(1, 25):
					sz = lim + 1 + r.Intn(3)
				default:
					sz = Pick(r, lim, lim-1, lim/2, lim/2+1, lim/3, 2+r.Intn(lim), 2)
				}
				if sz < 2 {
					sz = 2
				}
				steps = append(steps, "s:0:"+ms(sz))
			}
			if lim >= 2 && r.Chance(1, 2) {
				// after a mixed queue, a message of exactly the limit: it can only be admitted once
				// every earlier message has been released with its own size (FIFO accounting)
				steps = append(steps, "s:0:"+ms(lim))
				if r.Bool() {
					steps = append(steps, "s:0:"+ms(Pick(r, 2, lim/2+1, lim)))
				}
			}
			emit(fmt.Sprintf("lim g%d %s %s %d %s", lim, gate, Pick(r, "-", "1", "3,7", "65543"), seed, strings.Join(steps, " ")))
		default: // the 16 MiB read-buffer bound
			if tier != "thorough" || !r.Chance(1, 12) {
				// cheap variant (a full-size run costs ~20 s of CPU in the read loop's repeated
				// decoding; the quick tier has one in corpus/C13)
				emit(fmt.Sprintf("grow c %s %d %d %d", Pick(r, "-", "1", "65543"), seed, Pick(r, 100, 65535, 65536, 70000, 300000), Pick(r, 1, 2, 5)))
				continue
			}
			kind := Pick(r, "b", "a", "c", "c")
			chunk := Pick(r, 65535, 65536, 100000, 262144, 1<<20)
			var count int
			const bound = 16 << 20
			switch kind {
			case "c":
				tgt := Pick(r, bound-100000, bound, bound+100, bound+65535+70000, bound+300000, 4<<20)
				count = (tgt + chunk - 1) / chunk
			default:
				count = (bound+300000)/chunk + 1
			}
			emit(fmt.Sprintf("grow %s %s %d %d %d", kind, Pick(r, "-", "65543", "4096"), seed, chunk, count))
		}
	}
}
