package main

// Dump "StateMaps": lean/GV/Gen/StateMaps.lean, regenerated on every check
// from the RUNNING code: for every mini-protocol / mode / role the real
// client/server object is constructed, its state map is read through the
// verif accessor, and every (state, symbol) successor is obtained by calling
// the engine's own nextState on a real message value (this resolves
// MatchFuncs, including the side-effecting ones of leios-votes, whose
// state-context value becomes part of the abstract state).

import (
	"bufio"
	"fmt"
	"regexp"
	"sort"
	"strconv"
	"strings"
	"time"

	"github.com/blinklabs-io/gouroboros/cbor"
	"github.com/blinklabs-io/gouroboros/protocol"
	"github.com/blinklabs-io/gouroboros/protocol/leiosvotes"
)

func init() { registerDump("StateMaps", dumpStateMaps) }

type g3AbsState struct {
	St  protocol.State
	Ctx uint64
}

func (a g3AbsState) id() uint64 { return uint64(a.St.Id)*100000 + a.Ctx }

var g3numRe = regexp.MustCompile(`[0-9]+`)

// g3CtxNum maps the protocol's StateContext to a number (0 when there is none):
// the first integer in its printed form (leios-votes: the token counter).
func g3CtxNum(ctx any) uint64 {
	if ctx == nil {
		return 0
	}
	s := fmt.Sprintf("%v", ctx)
	m := g3numRe.FindString(s)
	if m == "" {
		return 0
	}
	n, _ := strconv.ParseUint(m, 10, 64)
	return n
}

type g3Machine struct {
	Name      string
	Role      protocol.ProtocolRole
	ProtoId   uint16
	Init      g3AbsState
	States    []g3AbsState // sorted by id
	Entries   map[uint64]protocol.StateMapEntry
	Trans     [][3]uint64 // src abs id, sample index, dst abs id
	Untested  [][2]uint64 // (state id, msg type) with a transition but no sample of that type
	Decodable []uint64
	SampleOk  []bool
	Samples   []g3Sample
	TfMin     map[uint64]time.Duration
	TfMax     map[uint64]time.Duration
}

// g3Explore builds the abstract machine of one protocol/role from the real code.
func g3Explore(p *g3Proto, role protocol.ProtocolRole) *g3Machine {
	m := &g3Machine{Name: p.Name, Role: role, Samples: p.Samples, Entries: map[uint64]protocol.StateMapEntry{},
		TfMin: map[uint64]time.Duration{}, TfMax: map[uint64]time.Duration{}}
	// replay a path of sample indexes on a fresh instance, return the abstract state reached
	replay := func(start *protocol.State, path []int) (g3AbsState, *protocol.Protocol, func(), bool) {
		pr, done := p.buildDetached(role)
		cur := pr.VerifInitialState()
		if start != nil {
			cur = *start
		}
		for _, si := range path {
			ns, err := pr.VerifNextState(cur, p.Samples[si].Make())
			if err != nil {
				done()
				return g3AbsState{}, nil, nil, false
			}
			cur = ns
		}
		return g3AbsState{cur, g3CtxNum(pr.VerifConfig().StateContext)}, pr, done, true
	}
	pr0, done0 := p.buildDetached(role)
	cfg := pr0.VerifConfig()
	m.ProtoId = cfg.ProtocolId
	sm := pr0.VerifStateMap()
	m.Init = g3AbsState{pr0.VerifInitialState(), g3CtxNum(cfg.StateContext)}
	seen := map[uint64]bool{}
	type item struct {
		start *protocol.State
		path  []int
	}
	queue := []item{{nil, nil}}
	seen[m.Init.id()] = true
	m.States = append(m.States, m.Init)
	// states of the map that the exploration from the initial state does not reach are
	// explored afterwards with a fresh context
	process := func() {
		for len(queue) > 0 {
			it := queue[0]
			queue = queue[1:]
			src, prx, dn, ok := replay(it.start, it.path)
			if !ok {
				panic("replay failed")
			}
			_ = prx
			dn()
			for si := range p.Samples {
				_, pr, dn2, _ := replay(it.start, it.path)
				ns, err := pr.VerifNextState(src.St, p.Samples[si].Make())
				if err == nil {
					dst := g3AbsState{ns, g3CtxNum(pr.VerifConfig().StateContext)}
					m.Trans = append(m.Trans, [3]uint64{src.id(), uint64(si), dst.id()})
					if !seen[dst.id()] {
						seen[dst.id()] = true
						m.States = append(m.States, dst)
						np := append(append([]int{}, it.path...), si)
						queue = append(queue, item{it.start, np})
					}
				}
				dn2()
			}
		}
	}
	process()
	for _, s := range g3sortedStates(sm) {
		covered := false
		for _, a := range m.States {
			if a.St == s {
				covered = true
			}
		}
		if !covered {
			s2 := s
			a := g3AbsState{s, m.Init.Ctx}
			seen[a.id()] = true
			m.States = append(m.States, a)
			queue = append(queue, item{&s2, nil})
			process()
		}
	}
	sort.Slice(m.States, func(i, j int) bool { return m.States[i].id() < m.States[j].id() })
	sort.Slice(m.Trans, func(i, j int) bool {
		if m.Trans[i][0] != m.Trans[j][0] {
			return m.Trans[i][0] < m.Trans[j][0]
		}
		return m.Trans[i][1] < m.Trans[j][1]
	})
	// raw transition entries whose message type has no sample
	for _, s := range g3sortedStates(sm) {
		e := sm[s]
		for _, a := range m.States {
			if a.St == s {
				m.Entries[a.id()] = e
			}
		}
		for _, t := range e.Transitions {
			has := false
			for _, sp := range p.Samples {
				if sp.Type == t.MsgType {
					has = true
				}
			}
			if !has {
				m.Untested = append(m.Untested, [2]uint64{uint64(s.Id), uint64(t.MsgType)})
			}
		}
		if e.TimeoutFunc != nil {
			lo, hi := time.Duration(1<<62), time.Duration(0)
			for i := 0; i < 4000; i++ {
				d := e.TimeoutFunc()
				if d < lo {
					lo = d
				}
				if d > hi {
					hi = d
				}
			}
			for _, a := range m.States {
				if a.St == s {
					// rounded outwards to whole seconds so that the generated file is deterministic
					m.TfMin[a.id()] = lo / time.Second * time.Second
					m.TfMax[a.id()] = (hi + time.Second - 1) / time.Second * time.Second
				}
			}
		}
	}
	// decodable message types: what MessageFromCborFunc accepts
	for t := uint(0); t < 256; t++ {
		var data []byte
		for _, sp := range p.Samples {
			if uint(sp.Type) == t {
				data, _ = cbor.Encode(sp.Make())
				break
			}
		}
		if data == nil {
			data, _ = cbor.Encode([]any{uint64(t)})
		}
		msg, err := cfg.MessageFromCborFunc(t, data)
		if err == nil && msg != nil {
			m.Decodable = append(m.Decodable, uint64(t))
		} else if err != nil && !strings.Contains(err.Error(), "unknown message type") && msg == nil {
			// the type is known to the codec, only our probe bytes were not a valid body
			m.Decodable = append(m.Decodable, uint64(t))
		}
	}
	// every sample must survive encode -> decode through the protocol's codec with the same
	// type and the same behaviour in the state machine
	for _, sp := range p.Samples {
		ok := false
		func() {
			defer func() { _ = recover() }()
			orig := sp.Make()
			data, err := cbor.Encode(orig)
			if err != nil {
				return
			}
			dec, err := cfg.MessageFromCborFunc(uint(sp.Type), data)
			if err != nil || dec == nil || dec.Type() != sp.Type {
				return
			}
			// same successor from every state of the map (fresh instance each)
			for _, s := range g3sortedStates(sm) {
				p1, d1 := p.buildDetached(role)
				p2, d2 := p.buildDetached(role)
				n1, e1 := p1.VerifNextState(s, orig)
				n2, e2 := p2.VerifNextState(s, dec)
				d1()
				d2()
				if (e1 == nil) != (e2 == nil) || n1 != n2 {
					return
				}
			}
			ok = true
		}()
		m.SampleOk = append(m.SampleOk, ok)
	}
	done0()
	return m
}

func g3LeanStr(s string) string { return strconv.Quote(s) }

func g3Ms(d time.Duration) int64 { return int64(d / time.Millisecond) }

func dumpStateMaps(w *bufio.Writer) {
	fmt.Fprintln(w, "import GV.Model.StateMachines")
	fmt.Fprintln(w, "/-! Implementation state machines read out of the running gouroboros code")
	fmt.Fprintln(w, "    (harness/dump_g3.go).  State ids are `State.Id * 100000 + state-context value`. -/")
	fmt.Fprintln(w, "namespace GV.Gen.StateMaps")
	fmt.Fprintln(w, "open GV.SM")
	names := []string{}
	for _, p := range g3Protocols() {
		for _, role := range []protocol.ProtocolRole{protocol.ProtocolRoleClient, protocol.ProtocolRoleServer} {
			pp := p
			m := g3Explore(&pp, role)
			ident := strings.ReplaceAll(p.Name, "-", "_") + "_" + g3RoleName(role)
			names = append(names, ident)
			fmt.Fprintf(w, "\ndef %s : Machine where\n", ident)
			fmt.Fprintf(w, "  name := %s\n  role := %d\n  protoId := %d\n  init := %d\n", g3LeanStr(p.Name+"/"+g3RoleName(role)), role, m.ProtoId, m.Init.id())
			fmt.Fprintf(w, "  states := [")
			for i, a := range m.States {
				e := m.Entries[a.id()]
				nm := a.St.Name
				if a.Ctx != 0 {
					nm = fmt.Sprintf("%s/%d", nm, a.Ctx)
				}
				if i > 0 {
					fmt.Fprint(w, ",")
				}
				tf := "false"
				if e.TimeoutFunc != nil {
					tf = "true"
				}
				fmt.Fprintf(w, "\n    ⟨%d, %s, %d, %d, %s, %d, %d, %d⟩", a.id(), g3LeanStr(nm), e.Agency, g3Ms(e.Timeout), tf,
					g3Ms(m.TfMin[a.id()]), g3Ms(m.TfMax[a.id()]), e.PendingMessageByteLimit)
			}
			fmt.Fprintln(w, "]")
			fmt.Fprintf(w, "  alphabet := [")
			for i, sp := range m.Samples {
				if i > 0 {
					fmt.Fprint(w, ", ")
				}
				fmt.Fprintf(w, "⟨%d, %d⟩", sp.Type, sp.Variant)
			}
			fmt.Fprintln(w, "]")
			fmt.Fprintf(w, "  labels := [")
			for i, sp := range m.Samples {
				if i > 0 {
					fmt.Fprint(w, ", ")
				}
				fmt.Fprintf(w, "%s", g3LeanStr(sp.Label))
			}
			fmt.Fprintln(w, "]")
			fmt.Fprintf(w, "  sampleOk := [")
			for i, ok := range m.SampleOk {
				if i > 0 {
					fmt.Fprint(w, ", ")
				}
				fmt.Fprintf(w, "%v", ok)
			}
			fmt.Fprintln(w, "]")
			fmt.Fprintf(w, "  trans := [")
			for i, t := range m.Trans {
				if i > 0 {
					fmt.Fprint(w, ",")
				}
				sp := m.Samples[t[1]]
				fmt.Fprintf(w, "\n    ⟨%d, ⟨%d, %d⟩, %d⟩", t[0], sp.Type, sp.Variant, t[2])
			}
			fmt.Fprintln(w, "]")
			fmt.Fprintf(w, "  untested := [")
			for i, u := range m.Untested {
				if i > 0 {
					fmt.Fprint(w, ", ")
				}
				fmt.Fprintf(w, "(%d, %d)", u[0], u[1])
			}
			fmt.Fprintln(w, "]")
			fmt.Fprintf(w, "  decodable := [")
			for i, d := range m.Decodable {
				if i > 0 {
					fmt.Fprint(w, ", ")
				}
				fmt.Fprintf(w, "%d", d)
			}
			fmt.Fprintln(w, "]")
		}
	}
	fmt.Fprintf(w, "\ndef all : List Machine := [%s]\n", strings.Join(names, ", "))
	// leios-votes keeps a counter in its state context: besides the table above (request counts
	// 0,1,2,3,1001) probe the boundaries of the accepted request count, and the first vote after
	// the largest accepted request, on the real engine.
	if lv := g3FindProto("leiosvotes"); lv != nil {
		for _, role := range []protocol.ProtocolRole{protocol.ProtocolRoleClient, protocol.ProtocolRoleServer} {
			fmt.Fprintf(w, "\n/-- (request count, state reached from Idle or none), role %s -/\n", g3RoleName(role))
			fmt.Fprintf(w, "def leiosvotesCountProbes_%s : List (Nat × Option Nat) := [", g3RoleName(role))
			for i, c := range []uint64{0, 1, 2, 3, 999, 1000, 1001, 1002, 65535, 65536, 4294967295, 4294967296, 18446744073709551615} {
				pr, done := lv.buildDetached(role)
				ns, err := pr.VerifNextState(pr.VerifInitialState(), leiosvotes.NewMsgVotesRequestNext(c))
				if i > 0 {
					fmt.Fprint(w, ", ")
				}
				if err != nil {
					fmt.Fprintf(w, "(%d, none)", c)
				} else {
					fmt.Fprintf(w, "(%d, some %d)", c, g3AbsState{ns, g3CtxNum(pr.VerifConfig().StateContext)}.id())
				}
				done()
			}
			fmt.Fprintln(w, "]")
			// RequestNext(1000) followed by votes: states reached after 1, 2 and 1000 votes
			pr, done := lv.buildDetached(role)
			cur, err := pr.VerifNextState(pr.VerifInitialState(), leiosvotes.NewMsgVotesRequestNext(1000))
			fmt.Fprintf(w, "def leiosvotesVotesAfter1000_%s : List (Nat × Option Nat) := [", g3RoleName(role))
			first := true
			for k := 1; k <= 1001 && err == nil; k++ {
				cur, err = pr.VerifNextState(cur, leiosvotes.NewMsgVote(g3Vote()))
				if k == 1 || k == 2 || k == 999 || k == 1000 || k == 1001 {
					if !first {
						fmt.Fprint(w, ", ")
					}
					first = false
					if err != nil {
						fmt.Fprintf(w, "(%d, none)", k)
					} else {
						fmt.Fprintf(w, "(%d, some %d)", k, g3AbsState{cur, g3CtxNum(pr.VerifConfig().StateContext)}.id())
					}
				}
			}
			fmt.Fprintln(w, "]")
			done()
		}
	}
	fmt.Fprintln(w, "\nend GV.Gen.StateMaps")
}
