package main

// C22 — chain-sync wrapping preserves block and header identity.
//
//   m ntc <type> <wf> <hl> <blockhex> <tipslot> <tiphash|-> <tipno>
//   m ntn <type> <wf> <hl> <blockhex> <tipslot> <tiphash|-> <tipno>
//        message level: the server's constructor (NewMsgRollForwardNtC / the
//        era lookup + NewMsgRollForwardNtN of Server.RollForward), cbor.Encode,
//        then the client's decoder (NewMsgFromCborNtC/NtN) and, for NtN, the
//        client's era -> block type lookup.
//        <wf> (is <blockhex> exactly one well-formed CBOR item) and <hl> (byte
//        length of the first element when the item is an array, else 0) are
//        computed by the generator with the CBOR library — oracle fields the
//        Lean model takes as given.
//     out: ty=<t> same=<0|1> tip=<slot>/<hash>/<no> enc=<hex>             (ntc)
//          ty=<t> hdr=<hex> tip=<slot>/<hash>/<no> enc=<hex>              (ntn)
//          err:<class>
//   e2e <ntc|ntn> <i,j,..>
//        end to end: real chainsync.Server (RollForward of fixture blocks i,j,..)
//        and real chainsync.Client (Sync + RollForwardRawFunc) over net.Pipe.
//     out: one token per block: t<ty>:<same|diff>  (ntc: block bytes identical)
//                               t<ty>:<same|diff>:<hh|HN> (ntn: header bytes = first element of the block;
//                                                          hh = decoded header's hash equals the block's hash)
//          senderr             the server refused the block (no header type for it)

import (
	"bytes"
	"fmt"
	"strconv"
	"strings"
	"sync"
	"time"

	"github.com/blinklabs-io/gouroboros/cbor"
	"github.com/blinklabs-io/gouroboros/ledger"
	"github.com/blinklabs-io/gouroboros/protocol"
	"github.com/blinklabs-io/gouroboros/protocol/chainsync"
	pcommon "github.com/blinklabs-io/gouroboros/protocol/common"
)

func init() {
	register(&Prop{ID: "C22", Gen: genC22, Run: runC22, Timeout: 60 * time.Second})
}

// c22Oracle: wf = is b exactly one well-formed CBOR item; hl = byte length of the
// first element when b *starts with* an array of at least one element
// (trailing bytes tolerated, as cbor.Decode does), else 0.
func c22Oracle(b []byte) (wf int, hl int) {
	var raw cbor.RawMessage
	n, err := cbor.Decode(b, &raw)
	if err == nil && n == len(b) {
		wf = 1
	}
	var items []cbor.RawMessage
	if _, err := cbor.Decode(b, &items); err == nil && len(items) > 0 {
		hl = len(items[0])
	}
	return wf, hl
}

// c22RandItem builds a random CBOR item (bounded depth) with the library's encoder.
func c22RandItem(r *Rand, depth int) any {
	k := r.Intn(8)
	if depth <= 0 && k >= 5 {
		k = r.Intn(5)
	}
	switch k {
	case 0:
		return r.EdgeU64()
	case 1:
		return -int64(r.EdgeU64()>>1) - 1
	case 2:
		return r.Bytes(Pick(r, 0, 1, 23, 24, 32, 255, 256, 300))
	case 3:
		return string(bytes.Repeat([]byte{'a'}, r.Intn(30)))
	case 4:
		return Pick[any](r, true, false, nil)
	case 5:
		n := Pick(r, 0, 1, 2, 5, 23, 24, 30)
		l := make([]any, n)
		for i := range l {
			l[i] = c22RandItem(r, depth-1)
		}
		if r.Chance(1, 4) {
			return cbor.IndefLengthList(l)
		}
		return l
	case 6:
		m := map[uint64]any{}
		for i := r.Intn(4); i > 0; i-- {
			m[uint64(r.Intn(100))] = c22RandItem(r, depth-1)
		}
		return m
	default:
		return cbor.Tag{Number: uint64(Pick(r, 24, 30, 258, 121)), Content: c22RandItem(r, depth-1)}
	}
}

func genC22(r *Rand, n int, tier string, emit func(string)) {
	blocks, err := g5Blocks()
	if err != nil {
		emit("fixtures-missing")
		return
	}
	tip := func() string {
		switch r.Intn(4) {
		case 0:
			return "0 - 0" // origin
		case 1:
			return fmt.Sprintf("%d %s %d", r.EdgeU64(), hexs(r.Bytes(32)), r.EdgeU64())
		default:
			return fmt.Sprintf("%d %s %d", r.Intn(200000000), hexs(r.Bytes(32)), r.Intn(12000000))
		}
	}
	// every real block, both modes, message level and end to end
	for i, b := range blocks {
		wf, hl := c22Oracle(b.Cbor)
		emit(fmt.Sprintf("m ntc %d %d %d %s %s", b.Type, wf, hl, hexs(b.Cbor), tip()))
		emit(fmt.Sprintf("m ntn %d %d %d %s %s", b.Type, wf, hl, hexs(b.Cbor), tip()))
		emit(fmt.Sprintf("e2e ntc %d", i))
		emit(fmt.Sprintf("e2e ntn %d", i))
	}
	emit("e2e ntc 0,1,2,3,4,5,6,7")
	emit("e2e ntn 1,2,3,4,5,6,7")
	types := []uint64{0, 1, 2, 3, 4, 5, 6, 7, 8, 9, 23, 24, 255, 256, 65535, 65536, 1 << 32, 1<<63 + 5}
	for i := 0; i < n; i++ {
		mode := Pick(r, "ntc", "ntn")
		var b []byte
		switch r.Intn(10) {
		case 0: // real block with a (type) label of another era
			b = blocks[r.Intn(len(blocks))].Cbor
		case 1: // not one well-formed item: truncated / trailing byte / empty
			src := g5enc(c22RandItem(r, 2))
			switch r.Intn(3) {
			case 0:
				if len(src) > 1 {
					b = src[:len(src)-1]
				} else {
					b = []byte{}
				}
			case 1:
				b = append(append([]byte{}, src...), 0x00)
			default:
				b = []byte{}
			}
		case 2, 3: // block-shaped: an array whose first element is the "header"
			k := 1 + r.Intn(5)
			l := make([]any, k)
			for j := range l {
				l[j] = c22RandItem(r, 2)
			}
			// header of a boundary length (23/24/255/256/65535/65536 bytes payload)
			if r.Chance(1, 2) {
				l[0] = r.Bytes(Pick(r, 0, 20, 21, 22, 23, 24, 253, 254, 255, 256, 65533, 65534, 65535, 65536))
			}
			b = g5enc(l)
		default:
			b = g5enc(c22RandItem(r, 3))
		}
		wf, hl := c22Oracle(b)
		ty := Pick(r, types...)
		if r.Chance(1, 2) {
			ty = uint64(2 + r.Intn(7))
		}
		emit(fmt.Sprintf("m %s %d %d %d %s %s", mode, ty, wf, hl, hexs(b), tip()))
		if i%40 == 0 {
			k := 1 + r.Intn(4)
			idx := make([]string, k)
			for j := range idx {
				idx[j] = strconv.Itoa(r.Intn(len(blocks)))
			}
			emit(fmt.Sprintf("e2e %s %s", mode, strings.Join(idx, ",")))
		}
	}
}

func c22TipStr(t pcommon.Tip) string {
	return fmt.Sprintf("%d/%s/%d", t.Point.Slot, hexs(t.Point.Hash), t.BlockNumber)
}

func runC22(op string) string {
	f := strings.Fields(op)
	if len(f) == 0 {
		return "bad-op"
	}
	switch f[0] {
	case "m":
		if len(f) != 9 {
			return "bad-op"
		}
		ty, e1 := strconv.ParseUint(f[2], 10, 64)
		blk, ok := unhex(f[5])
		slot, e2 := strconv.ParseUint(f[6], 10, 64)
		hash, ok2 := unhex(f[7])
		no, e3 := strconv.ParseUint(f[8], 10, 64)
		if e1 != nil || e2 != nil || e3 != nil || !ok || !ok2 {
			return "bad-op"
		}
		var tip pcommon.Tip
		if f[7] == "-" {
			if slot != 0 {
				return "bad-op"
			}
			tip = pcommon.Tip{Point: pcommon.Point{Slot: slot}, BlockNumber: no}
		} else {
			tip = pcommon.Tip{Point: pcommon.NewPoint(slot, hash), BlockNumber: no}
		}
		switch f[1] {
		case "ntc":
			msg, err := chainsync.NewMsgRollForwardNtC(uint(ty), blk, tip)
			if err != nil {
				return "err:construct"
			}
			enc, err := cbor.Encode(msg)
			if err != nil {
				return "err:encode"
			}
			dec, err := chainsync.NewMsgFromCborNtC(chainsync.MessageTypeRollForward, enc)
			if err != nil {
				return "err:decode enc=" + hexs(enc)
			}
			m := dec.(*chainsync.MsgRollForwardNtC)
			same := 0
			if bytes.Equal(m.BlockCbor(), blk) {
				same = 1
			}
			return fmt.Sprintf("ty=%d same=%d tip=%s enc=%s", m.BlockType(), same, c22TipStr(m.Tip), hexs(enc))
		case "ntn":
			// Server.RollForward, NtN branch
			era, ok := ledger.BlockToBlockHeaderTypeMap[uint(ty)]
			if !ok {
				return "err:unknown-type"
			}
			msg, err := chainsync.NewMsgRollForwardNtN(era, 0, blk, tip)
			if err != nil {
				return "err:construct"
			}
			enc, err := cbor.Encode(msg)
			if err != nil {
				return "err:encode"
			}
			dec, err := chainsync.NewMsgFromCborNtN(chainsync.MessageTypeRollForward, enc)
			if err != nil {
				return "err:decode enc=" + hexs(enc)
			}
			m := dec.(*chainsync.MsgRollForwardNtN)
			// Client.handleRollForward, NtN branch
			bt, ok := ledger.BlockHeaderToBlockTypeMap[m.WrappedHeader.Era]
			if !ok {
				return "err:unknown-era"
			}
			return fmt.Sprintf("ty=%d hdr=%s tip=%s enc=%s", bt, hexs(m.WrappedHeader.HeaderCbor()), c22TipStr(m.Tip), hexs(enc))
		}
		return "bad-op"
	case "e2e":
		if len(f) != 3 {
			return "bad-op"
		}
		return runC22E2E(f[1], f[2])
	}
	return "bad-op"
}

func runC22E2E(mode string, list string) string {
	blocks, err := g5Blocks()
	if err != nil {
		return "fixtures:" + err.Error()
	}
	var idx []int
	for _, s := range strings.Split(list, ",") {
		i, err := strconv.Atoi(s)
		if err != nil || i < 0 || i >= len(blocks) {
			return "bad-op"
		}
		idx = append(idx, i)
	}
	pmode := protocol.ProtocolModeNodeToClient
	switch mode {
	case "ntc":
	case "ntn":
		pmode = protocol.ProtocolModeNodeToNode
	default:
		return "bad-op"
	}
	// two library endpoints over one pipe
	l := newG5LibPair()
	defer l.close()
	var mu sync.Mutex
	out := []string{}
	next := 0
	evCh := make(chan struct{}, 64)
	tipOf := func(i int) chainsync.Tip {
		return chainsync.Tip{Point: pcommon.NewPoint(blocks[i].Slot, blocks[i].Hash), BlockNumber: uint64(1000 + i)}
	}
	srvCfg := chainsync.NewConfig(
		chainsync.WithFindIntersectFunc(func(ctx chainsync.CallbackContext, pts []pcommon.Point) (pcommon.Point, chainsync.Tip, error) {
			return pcommon.NewPointOrigin(), tipOf(0), nil
		}),
		chainsync.WithRequestNextFunc(func(ctx chainsync.CallbackContext) error {
			for {
				mu.Lock()
				k := next
				next++
				mu.Unlock()
				if k >= len(idx) {
					return ctx.Server.AwaitReply()
				}
				i := idx[k]
				err := ctx.Server.RollForward(blocks[i].Type, blocks[i].Cbor, tipOf(i))
				if err == nil {
					return nil
				}
				// the server refused this block: record it and serve the next one
				mu.Lock()
				out = append(out, "senderr")
				mu.Unlock()
				evCh <- struct{}{}
			}
		}),
	)
	srv := chainsync.NewServer(l.optsB(pmode), &srvCfg)
	srv.Start()
	cliCfg := chainsync.NewConfig(
		chainsync.WithPipelineLimit(1),
		chainsync.WithRollForwardRawFunc(func(ctx chainsync.CallbackContext, bt uint, data []byte, tip chainsync.Tip) error {
			mu.Lock()
			defer mu.Unlock()
			k := len(out)
			tok := fmt.Sprintf("t%d:", bt)
			if k >= len(idx) {
				out = append(out, tok+"surplus")
				evCh <- struct{}{}
				return nil
			}
			b := blocks[idx[k]]
			if mode == "ntc" {
				if bytes.Equal(data, b.Cbor) {
					tok += "same"
				} else {
					tok += "diff"
				}
			} else {
				var items []cbor.RawMessage
				_, _ = cbor.Decode(b.Cbor, &items)
				if len(items) > 0 && bytes.Equal(data, items[0]) {
					tok += "same"
				} else {
					tok += "diff"
				}
				hdr, err := ledger.NewBlockHeaderFromCbor(bt, data)
				if err == nil && bytes.Equal(hdr.Hash().Bytes(), b.Hash) {
					tok += ":hh"
				} else {
					tok += ":HN"
				}
			}
			if !bytes.Equal(tip.Point.Hash, b.Hash) || tip.BlockNumber != uint64(1000+idx[k]) {
				tok += ":TIP"
			}
			out = append(out, tok)
			evCh <- struct{}{}
			return nil
		}),
		chainsync.WithRollBackwardFunc(func(chainsync.CallbackContext, pcommon.Point, chainsync.Tip) error { return nil }),
	)
	cli := chainsync.NewClient(l.optsA(pmode), &cliCfg)
	cli.Start()
	if err := cli.Sync([]pcommon.Point{pcommon.NewPointOrigin()}); err != nil {
		return "sync:" + err.Error()
	}
	deadline := time.After(45 * time.Second)
	for {
		mu.Lock()
		n := len(out)
		mu.Unlock()
		if n >= len(idx) {
			break
		}
		select {
		case <-evCh:
		case e := <-l.errA:
			return strings.Join(out, " ") + " clierr:" + e.Error()
		case e := <-l.errB:
			return strings.Join(out, " ") + " srverr:" + e.Error()
		case <-deadline:
			return strings.Join(out, " ") + " TIMEOUT"
		}
	}
	mu.Lock()
	defer mu.Unlock()
	return strings.Join(out, " ")
}
