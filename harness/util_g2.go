package main

// Helpers shared by the handshake / version / connection-role properties
// (C17–C20): raw muxer segments on a net.Conn, version-map construction from
// the real tables, canonical rendering of version data, and runners for the
// real handshake client and server over an in-process pipe.

import (
	"encoding/binary"
	"errors"
	"fmt"
	"io"
	"log/slog"
	"net"
	"sort"
	"strconv"
	"strings"
	"sync/atomic"
	"time"

	"github.com/blinklabs-io/gouroboros/connection"
	"github.com/blinklabs-io/gouroboros/muxer"
	"github.com/blinklabs-io/gouroboros/protocol"
	"github.com/blinklabs-io/gouroboros/protocol/handshake"
)

// Deadlines. Every verdict of these harnesses is an event (FinishedFunc, an error on a channel,
// a segment read); a deadline only stands for "the event never comes". It must be far beyond
// anything a loaded machine needs (load averages of 200+ were seen), but a defect that makes the
// event never come (e.g. a refusal that is never written) would then cost that long for every
// op. So the first few expiries of a run wait the long deadline; once a run has seen
// g2LongWaits of them the verdict is already a violation and later ops wait only briefly.
const g2LongDeadline = 45 * time.Second
const g2ShortDeadline = 3 * time.Second
const g2LongWaits = 4

var g2Expired atomic.Int32

func g2Deadline() time.Duration {
	if g2Expired.Load() >= g2LongWaits {
		return g2ShortDeadline
	}
	return g2LongDeadline
}

func g2NoteExpired() { g2Expired.Add(1) }

var g2Logger = slog.New(slog.NewJSONHandler(io.Discard, nil))

// g2ReadSegment reads one muxer segment (8-byte header + payload).
func g2ReadSegment(c net.Conn) (protoId uint16, payload []byte, err error) {
	hdr := make([]byte, 8)
	if _, err = io.ReadFull(c, hdr); err != nil {
		return 0, nil, err
	}
	protoId = binary.BigEndian.Uint16(hdr[4:6])
	n := binary.BigEndian.Uint16(hdr[6:8])
	payload = make([]byte, n)
	_, err = io.ReadFull(c, payload)
	return protoId, payload, err
}

// g2WriteSegment writes one muxer segment with the given raw protocol id field.
func g2WriteSegment(c net.Conn, protoIdField uint16, payload []byte) error {
	out := make([]byte, 8+len(payload))
	binary.BigEndian.PutUint16(out[4:6], protoIdField)
	binary.BigEndian.PutUint16(out[6:8], uint16(len(payload)))
	copy(out[8:], payload)
	_, err := c.Write(out)
	return err
}

// g2Table returns the real generated version map of a table.
//
//	ntc  = GetProtocolVersionMap(NodeToClient)   ntn  = GetProtocolVersionMap(NodeToNode)
//	dmq  = GetProtocolVersionMapDMQNtC           dmqn = GetProtocolVersionMapDMQNtN
func g2Table(table string, magic uint32, dm, ps, q bool) (protocol.ProtocolVersionMap, protocol.ProtocolMode, bool) {
	switch table {
	case "ntc":
		return protocol.GetProtocolVersionMap(protocol.ProtocolModeNodeToClient, magic, dm, ps, q), protocol.ProtocolModeNodeToClient, true
	case "ntn":
		return protocol.GetProtocolVersionMap(protocol.ProtocolModeNodeToNode, magic, dm, ps, q), protocol.ProtocolModeNodeToNode, true
	case "dmq":
		return protocol.GetProtocolVersionMapDMQNtC(magic, q), protocol.ProtocolModeNodeToClient, true
	case "dmqn":
		return protocol.GetProtocolVersionMapDMQNtN(magic, dm, ps, q), protocol.ProtocolModeNodeToNode, true
	}
	return nil, 0, false
}

// g2ParseVersions parses "-" (none), "all", or "7,8,13".
func g2ParseVersions(s string, full protocol.ProtocolVersionMap) ([]uint16, bool) {
	if s == "-" {
		return []uint16{}, true
	}
	if s == "all" {
		ks := []uint16{}
		for k := range full {
			ks = append(ks, k)
		}
		sort.Slice(ks, func(i, j int) bool { return ks[i] < ks[j] })
		return ks, true
	}
	res := []uint16{}
	for _, p := range strings.Split(s, ",") {
		n, err := strconv.ParseUint(p, 10, 16)
		if err != nil {
			return nil, false
		}
		res = append(res, uint16(n))
	}
	return res, true
}

// g2Subset keeps the listed keys (all must exist in the full map).
func g2Subset(full protocol.ProtocolVersionMap, keys []uint16) (protocol.ProtocolVersionMap, bool) {
	res := protocol.ProtocolVersionMap{}
	for _, k := range keys {
		v, ok := full[k]
		if !ok {
			return nil, false
		}
		res[k] = v
	}
	return res, true
}

func g2RenderVD(vd protocol.VersionData) string {
	if vd == nil {
		return "nil"
	}
	return fmt.Sprintf("m=%d dm=%s ps=%s q=%s", vd.NetworkMagic(), b01(vd.DiffusionMode()), b01(vd.PeerSharing()), b01(vd.Query()))
}

func g2RenderMap(m protocol.ProtocolVersionMap) string {
	ks := []int{}
	for k := range m {
		ks = append(ks, int(k))
	}
	sort.Ints(ks)
	parts := []string{}
	for _, k := range ks {
		parts = append(parts, fmt.Sprintf("%d:%s", k, strings.ReplaceAll(g2RenderVD(m[uint16(k)]), " ", ",")))
	}
	if len(parts) == 0 {
		return "{}"
	}
	return "{" + strings.Join(parts, ";") + "}"
}

// g2ClassifyHandshakeErr maps a handshake error to a small enum.
func g2ClassifyHandshakeErr(err error) string {
	if err == nil {
		return "nil"
	}
	var vm *handshake.VersionMismatchError
	var de *handshake.DecodeError
	var re *handshake.RefusedError
	switch {
	case errors.As(err, &vm):
		s := make([]string, len(vm.SupportedVersions))
		for i, v := range vm.SupportedVersions {
			s[i] = fmt.Sprint(v)
		}
		return "refused:mismatch[" + strings.Join(s, ",") + "]"
	case errors.As(err, &de):
		return fmt.Sprintf("refused:decode(%d)", de.Version)
	case errors.As(err, &re):
		return fmt.Sprintf("refused:refused(%d)", re.Version)
	}
	msg := err.Error()
	switch {
	case strings.Contains(msg, "was not proposed"):
		return "err:unproposed"
	case strings.Contains(msg, "unsupported protocol version accepted"):
		return "err:nodecoder"
	case strings.Contains(msg, "refused due to version mismatch"):
		return "err:sent-mismatch"
	case strings.Contains(msg, "refused due to protocol parameters decode failure"):
		return "err:sent-decode"
	case strings.Contains(msg, "refused due to protocol parameters mismatch"):
		return "err:sent-refused"
	case strings.Contains(msg, "query mode: connection terminated after query reply"):
		return "err:sent-queryreply"
	case strings.Contains(msg, "network magic mismatch"):
		return "err:magic"
	case strings.Contains(msg, "cannot unmarshal"), strings.Contains(msg, "cbor:"), strings.Contains(msg, "EOF"):
		return "err:decode"
	}
	return "err:other(" + msg + ")"
}

// g2HsResult is what one side of a handshake ended with.
type g2HsResult struct {
	kind    string // finished | error | timeout
	version uint16
	data    protocol.VersionData
	query   protocol.ProtocolVersionMap // QueryReplyFunc argument (nil = not called)
	err     error
}

func (r g2HsResult) String() string {
	switch r.kind {
	case "finished":
		s := fmt.Sprintf("finished v=%d %s", r.version, g2RenderVD(r.data))
		if r.query != nil {
			s += " query=" + g2RenderMap(r.query)
		}
		return s
	case "error":
		return g2ClassifyHandshakeErr(r.err)
	}
	return r.kind
}

// g2RunHandshake runs the real handshake client or server protocol on conn
// with the given version map and waits for FinishedFunc or an error. The
// caller must call stop() when the peer is done too (stopping earlier could
// cut off a message that is still queued for sending).
func g2RunHandshake(conn net.Conn, server bool, mode protocol.ProtocolMode, vm protocol.ProtocolVersionMap) (res g2HsResult, stop func()) {
	mx := muxer.New(conn)
	stop = mx.Stop
	errCh := make(chan error, 10)
	fin := make(chan g2HsResult, 1)
	var query protocol.ProtocolVersionMap
	cfg := handshake.NewConfig(
		handshake.WithProtocolVersionMap(vm),
		handshake.WithFinishedFunc(func(ctx handshake.CallbackContext, v uint16, vd protocol.VersionData) error {
			select {
			case fin <- g2HsResult{kind: "finished", version: v, data: vd, query: query}:
			default:
			}
			return nil
		}),
		handshake.WithQueryReplyFunc(func(ctx handshake.CallbackContext, m protocol.ProtocolVersionMap) error {
			if m == nil {
				m = protocol.ProtocolVersionMap{}
			}
			query = m
			return nil
		}),
	)
	opts := protocol.ProtocolOptions{
		ConnectionId: connection.ConnectionId{LocalAddr: conn.LocalAddr(), RemoteAddr: conn.RemoteAddr()},
		Muxer:        mx, Logger: g2Logger, ErrorChan: errCh, Mode: mode,
	}
	if server {
		opts.Role = protocol.ProtocolRoleServer
		s := handshake.NewServer(opts, &cfg)
		s.Start()
	} else {
		opts.Role = protocol.ProtocolRoleClient
		c := handshake.NewClient(opts, &cfg)
		c.Start()
	}
	mx.StartOnce()
	select {
	case r := <-fin:
		return r, stop
	case err := <-errCh:
		return g2HsResult{kind: "error", err: err}, stop
	case err, ok := <-mx.ErrorChan():
		if !ok {
			err = errors.New("muxer closed")
		}
		return g2HsResult{kind: "error", err: fmt.Errorf("muxer: %w", err)}, stop
	case <-time.After(g2Deadline()):
		g2NoteExpired()
		return g2HsResult{kind: "timeout"}, stop
	}
}
