package main

// Shared helpers of the mini-protocol properties C15, C21..C25: an in-process
// link (net.Pipe) whose one end carries the library's real muxer + protocol
// objects and whose other end is a *raw scripted peer* (segments written and
// parsed by hand), so that the peer can say anything at any time.

import (
	"bytes"
	"encoding/binary"
	"encoding/hex"
	"errors"
	"fmt"
	"io"
	"net"
	"os"
	"path/filepath"
	"runtime"
	"strings"
	"sync"
	"time"

	"github.com/blinklabs-io/gouroboros/cbor"
	"github.com/blinklabs-io/gouroboros/connection"
	"github.com/blinklabs-io/gouroboros/ledger"
	"github.com/blinklabs-io/gouroboros/muxer"
	"github.com/blinklabs-io/gouroboros/protocol"
)

type g5Addr string

func (a g5Addr) Network() string { return "pipe" }
func (a g5Addr) String() string  { return string(a) }

// g5Link is one connection: library side (muxer started) and raw peer side.
type g5Link struct {
	libConn  net.Conn
	peerConn net.Conn
	mux      *muxer.Muxer
	errChan  chan error // ErrorChan handed to the library's protocols
	peer     *g5Peer
}

func newG5Link() *g5Link {
	a, b := net.Pipe()
	l := &g5Link{libConn: a, peerConn: b, errChan: make(chan error, 10)}
	l.mux = muxer.New(a)
	l.mux.Start()
	l.peer = newG5Peer(b)
	return l
}

func (l *g5Link) opts(mode protocol.ProtocolMode) protocol.ProtocolOptions {
	return protocol.ProtocolOptions{
		ConnectionId: connection.ConnectionId{LocalAddr: g5Addr("lib"), RemoteAddr: g5Addr("peer")},
		Muxer:        l.mux,
		ErrorChan:    l.errChan,
		Mode:         mode,
	}
}

// close tears the link down from both sides (idempotent).
func (l *g5Link) close() {
	l.peer.close()
	l.mux.Stop()
	_ = l.libConn.Close()
}

// firstErr returns the first protocol/muxer error seen within d ("" if none).
func (l *g5Link) firstErr(d time.Duration) string {
	select {
	case e := <-l.errChan:
		if e != nil {
			return e.Error()
		}
	case e, ok := <-l.mux.ErrorChan():
		if ok && e != nil {
			return "mux:" + e.Error()
		}
	case <-time.After(d):
	}
	return ""
}

// g5Peer is the scripted remote: it parses incoming segments into one byte
// stream per raw protocol-id field (direction bit included) and writes
// segments on request.
type g5Peer struct {
	conn      net.Conn
	mu        sync.Mutex
	bufs      map[uint16][]byte
	note      chan struct{}
	eof       bool
	wmu       sync.Mutex
	closeOnce sync.Once
}

func newG5Peer(c net.Conn) *g5Peer {
	p := &g5Peer{conn: c, bufs: map[uint16][]byte{}, note: make(chan struct{}, 1)}
	go p.readLoop()
	return p
}

func (p *g5Peer) readLoop() {
	hdr := make([]byte, 8)
	for {
		if _, err := io.ReadFull(p.conn, hdr); err != nil {
			break
		}
		id := binary.BigEndian.Uint16(hdr[4:6])
		n := int(binary.BigEndian.Uint16(hdr[6:8]))
		pl := make([]byte, n)
		if _, err := io.ReadFull(p.conn, pl); err != nil {
			break
		}
		p.mu.Lock()
		p.bufs[id] = append(p.bufs[id], pl...)
		p.mu.Unlock()
		select {
		case p.note <- struct{}{}:
		default:
		}
	}
	p.mu.Lock()
	p.eof = true
	p.mu.Unlock()
	select {
	case p.note <- struct{}{}:
	default:
	}
}

var errG5Timeout = errors.New("peer: timeout")
var errG5Closed = errors.New("peer: closed")

// recv returns the next complete CBOR item the library sent on the given raw
// protocol id (id of an initiator's message = protocol id, of a responder's =
// protocol id | 0x8000).
func (p *g5Peer) recv(rawId uint16, d time.Duration) ([]byte, error) {
	deadline := time.Now().Add(d)
	for {
		p.mu.Lock()
		buf := p.bufs[rawId]
		eof := p.eof
		if len(buf) > 0 {
			var raw cbor.RawMessage
			n, err := cbor.Decode(buf, &raw)
			if err == nil && n > 0 {
				msg := append([]byte(nil), buf[:n]...)
				p.bufs[rawId] = buf[n:]
				p.mu.Unlock()
				return msg, nil
			}
		}
		p.mu.Unlock()
		if eof {
			return nil, errG5Closed
		}
		left := time.Until(deadline)
		if left <= 0 {
			return nil, errG5Timeout
		}
		select {
		case <-p.note:
		case <-time.After(left):
		}
	}
}

// send writes payload as one or more segments with the given raw id.
func (p *g5Peer) send(rawId uint16, payload []byte) error {
	p.wmu.Lock()
	defer p.wmu.Unlock()
	for first := true; first || len(payload) > 0; first = false {
		n := len(payload)
		if n > 65535 {
			n = 65535
		}
		seg := make([]byte, 8+n)
		binary.BigEndian.PutUint16(seg[4:6], rawId)
		binary.BigEndian.PutUint16(seg[6:8], uint16(n))
		copy(seg[8:], payload[:n])
		_ = p.conn.SetWriteDeadline(time.Now().Add(40 * time.Second))
		if _, err := p.conn.Write(seg); err != nil {
			return err
		}
		payload = payload[n:]
	}
	return nil
}

// sendRaw writes arbitrary bytes (truncated segments etc.).
func (p *g5Peer) sendRaw(b []byte) error {
	p.wmu.Lock()
	defer p.wmu.Unlock()
	_ = p.conn.SetWriteDeadline(time.Now().Add(40 * time.Second))
	_, err := p.conn.Write(b)
	return err
}

// close ends the connection. It must not wait for a writer: a send blocked on a peer that
// no longer reads holds wmu until the write fails, which closing the connection causes.
func (p *g5Peer) close() {
	p.closeOnce.Do(func() { _ = p.conn.Close() })
}

// enc is cbor.Encode that panics on error (inputs are harness-made).
func g5enc(v any) []byte {
	b, err := cbor.Encode(v)
	if err != nil {
		panic(err)
	}
	return b
}

// g5Goroutines counts live goroutines whose stack mentions the library
// (gouroboros packages) — used for leak checks after Close.
func g5LibGoroutines() (int, string) {
	buf := make([]byte, 1<<20)
	n := runtime.Stack(buf, true)
	cnt := 0
	first := ""
	for _, g := range strings.Split(string(buf[:n]), "\n\n") {
		if strings.Contains(g, "blinklabs-io/gouroboros/") {
			cnt++
			if first == "" {
				first = g
			}
		}
	}
	return cnt, first
}

// g5WaitLibGoroutines waits (bounded) until at most base library goroutines remain.
func g5WaitLibGoroutines(base int, d time.Duration) (int, string) {
	deadline := time.Now().Add(d)
	for {
		n, s := g5LibGoroutines()
		if n <= base || time.Now().After(deadline) {
			return n, s
		}
		time.Sleep(2 * time.Millisecond)
	}
}

// ---- real block fixtures (read by path from the repository under verification)

type g5Block struct {
	Name string
	Type uint
	Cbor []byte
	Hash []byte
	Slot uint64
}

var g5BlocksOnce sync.Once
var g5BlocksVal []g5Block
var g5BlocksErr error

func g5RepoDir() string {
	if d := os.Getenv("VERIF_REPO"); d != "" {
		return d
	}
	return "/repo"
}

// g5Blocks returns one real block per era (Byron main .. Dijkstra).
func g5Blocks() ([]g5Block, error) {
	g5BlocksOnce.Do(func() {
		files := []struct {
			name string
			typ  uint
			path string
		}{
			{"byron", ledger.BlockTypeByronMain, "internal/testdata/byron_block.hex"},
			{"shelley", ledger.BlockTypeShelley, "internal/testdata/shelley_block.hex"},
			{"allegra", ledger.BlockTypeAllegra, "internal/testdata/allegra_block.hex"},
			{"mary", ledger.BlockTypeMary, "internal/testdata/mary_block.hex"},
			{"alonzo", ledger.BlockTypeAlonzo, "internal/testdata/alonzo_block.hex"},
			{"babbage", ledger.BlockTypeBabbage, "internal/testdata/babbage_block.hex"},
			{"conway", ledger.BlockTypeConway, "internal/testdata/conway_block.hex"},
			{"dijkstra", ledger.BlockTypeDijkstra, "ledger/dijkstra/testdata/musashi_dijkstra_block.hex"},
		}
		for _, f := range files {
			raw, err := os.ReadFile(filepath.Join(g5RepoDir(), f.path))
			if err != nil {
				g5BlocksErr = err
				return
			}
			b, err := hex.DecodeString(strings.TrimSpace(string(raw)))
			if err != nil {
				g5BlocksErr = err
				return
			}
			blk, err := ledger.NewBlockFromCbor(f.typ, b)
			if err != nil {
				g5BlocksErr = fmt.Errorf("%s: %w", f.name, err)
				return
			}
			g5BlocksVal = append(g5BlocksVal, g5Block{f.name, f.typ, b, blk.Hash().Bytes(), blk.SlotNumber()})
		}
	})
	return g5BlocksVal, g5BlocksErr
}

// g5BlockIndex identifies a block by hash (−1 = none of the fixtures).
func g5BlockIndex(hash []byte) int {
	bs, _ := g5Blocks()
	for i, b := range bs {
		if bytes.Equal(b.Hash, hash) {
			return i
		}
	}
	return -1
}

// ---- two library endpoints over one pipe (A = initiator/client, B = responder/server)

type g5LibPair struct {
	connA, connB net.Conn
	muxA, muxB   *muxer.Muxer
	errA, errB   chan error
}

func newG5LibPair() *g5LibPair {
	a, b := net.Pipe()
	l := &g5LibPair{connA: a, connB: b, errA: make(chan error, 10), errB: make(chan error, 10)}
	l.muxA = muxer.New(a)
	l.muxB = muxer.New(b)
	l.muxA.Start()
	l.muxB.Start()
	return l
}

func (l *g5LibPair) optsA(mode protocol.ProtocolMode) protocol.ProtocolOptions {
	return protocol.ProtocolOptions{
		ConnectionId: connection.ConnectionId{LocalAddr: g5Addr("A"), RemoteAddr: g5Addr("B")},
		Muxer:        l.muxA, ErrorChan: l.errA, Mode: mode,
	}
}

func (l *g5LibPair) optsB(mode protocol.ProtocolMode) protocol.ProtocolOptions {
	return protocol.ProtocolOptions{
		ConnectionId: connection.ConnectionId{LocalAddr: g5Addr("B"), RemoteAddr: g5Addr("A")},
		Muxer:        l.muxB, ErrorChan: l.errB, Mode: mode,
	}
}

func (l *g5LibPair) close() {
	l.muxA.Stop()
	l.muxB.Stop()
	_ = l.connA.Close()
	_ = l.connB.Close()
}
