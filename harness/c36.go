package main

// C36 — era dispatch through every entry point. See lean/GV/Drv/C36.lean for
// the op grammar. Real block fixtures are read by path from the repository.

import (
	"fmt"
	"strconv"
	"strings"
	"time"

	"github.com/blinklabs-io/gouroboros/cbor"
	"github.com/blinklabs-io/gouroboros/ledger"
	"github.com/blinklabs-io/gouroboros/ledger/common"
)

func init() {
	register(&Prop{ID: "C36", Gen: genC36, Run: crashSafe("C36", runC36), Timeout: 30 * time.Second})
}

var c36Variants = []string{"ok", "pvlong", "neg", "str", "pvnotarr", "pvempty", "outer1", "outer3", "outermap", "bodynotarr", "garbage"}
var c36Entries = []string{"nbfc", "nbfcskip", "off", "erafn", "hdr"}

func genC36(r *Rand, n int, tier string, emit func(string)) {
	// 1. DetermineBlockType: all majors 0..64 in both layouts, every structural variant
	for _, bl := range []int{15, 10} {
		for m := 0; m <= 64; m++ {
			emit(fmt.Sprintf("det %d ok %d", bl, m))
		}
		for _, v := range c36Variants {
			for _, m := range []int{0, 2, 4, 5, 7, 9, 12, 14} {
				emit(fmt.Sprintf("det %d %s %d", bl, v, m))
			}
		}
	}
	for _, bl := range []int{0, 1, 9, 11, 12, 14, 16, 23, 24, 30} {
		for _, m := range []int{2, 5, 9, 12} {
			emit(fmt.Sprintf("det %d ok %d", bl, m))
			emit(fmt.Sprintf("det %d pvnotarr %d", bl, m))
		}
	}
	// 2. real headers with every one-byte protocol major; Byron headers
	type fx struct {
		f       *g7Fixture
		bodyLen int
		major   uint64
		patch   bool
	}
	fxs := []fx{}
	for _, f := range g7Fixtures {
		data, err := f.bytes()
		if err != nil {
			panic(err)
		}
		_, _, bl, off, mj, err := g7HeaderInfo(data)
		if err != nil {
			panic(err)
		}
		x := fx{f, bl, mj, off >= 0}
		fxs = append(fxs, x)
		if !x.patch {
			emit(fmt.Sprintf("dethdr %s - -", f.name))
			continue
		}
		emit(fmt.Sprintf("dethdr %s %d %d", f.name, bl, mj))
		for m := 0; m < 24; m++ {
			emit(fmt.Sprintf("dethdr %s %d %d", f.name, bl, m))
		}
	}
	// 3. every fixture as every block type through every entry point (own major)
	for _, x := range fxs {
		for t := 0; t <= 10; t++ {
			for _, e := range c36Entries {
				emit(fmt.Sprintf("blk %s %d %s -", x.f.name, t, e))
			}
		}
		// the real mini-protocol clients (one connection per op: a thinner grid in the quick tier)
		for ht := 0; ht <= 9; ht++ {
			if tier == "thorough" || ht <= 1 || uint(ht) == ledger.BlockToBlockHeaderTypeMap[x.f.blockType] || r.Chance(1, 4) {
				emit(fmt.Sprintf("wntn %s %d %d -", x.f.name, ht, Pick(r, x.f.blockType&1, x.f.blockType&1, uint(r.Intn(4)))))
			}
		}
		for t := 0; t <= 10; t++ {
			if tier == "thorough" || uint(t) == x.f.blockType || r.Chance(1, 6) {
				emit(fmt.Sprintf("wntc %s %d -", x.f.name, t))
				emit(fmt.Sprintf("wbf %s %d -", x.f.name, t))
			}
		}
	}
	for k := 0; k <= 12; k++ {
		emit(fmt.Sprintf("maps %d", k))
	}
	// 4. random: patched majors, foreign types, edge majors
	for i := 0; i < n; i++ {
		x := fxs[r.Intn(len(fxs))]
		switch r.Intn(5) {
		case 0:
			emit(fmt.Sprintf("det %d %s %d", Pick(r, 15, 10, 10, 15, 12, 9, 16), Pick(r, c36Variants...), r.EdgeU64()))
		case 1:
			emit(fmt.Sprintf("det %d ok %d", Pick(r, 15, 10), r.Intn(70)))
		case 2, 3:
			mj := "-"
			if x.patch {
				mj = strconv.Itoa(r.Intn(24))
			}
			t := int(x.f.blockType)
			if r.Chance(1, 2) {
				t = r.Intn(11)
			}
			emit(fmt.Sprintf("blk %s %d %s %s", x.f.name, t, Pick(r, c36Entries...), mj))
		default:
			mj := "-"
			if x.patch {
				mj = strconv.Itoa(r.Intn(24))
			}
			if tier != "thorough" && !r.Chance(1, 8) {
				emit(fmt.Sprintf("blk %s %d %s %s", x.f.name, x.f.blockType, Pick(r, c36Entries...), mj))
				break
			}
			switch r.Intn(3) {
			case 0:
				emit(fmt.Sprintf("wntn %s %d %d %s", x.f.name, r.Intn(10), r.Intn(4), mj))
			case 1:
				emit(fmt.Sprintf("wntc %s %d %s", x.f.name, Pick(r, int(x.f.blockType), r.Intn(11)), mj))
			default:
				emit(fmt.Sprintf("wbf %s %d %s", x.f.name, Pick(r, int(x.f.blockType), r.Intn(11)), mj))
			}
		}
	}
}

func c36DetErr(err error) string {
	s := err.Error()
	switch {
	case strings.HasPrefix(s, "decode header error"):
		return "err:decode"
	case strings.HasPrefix(s, "invalid header structure"):
		return "err:structure"
	case strings.HasPrefix(s, "invalid header body"):
		return "err:body"
	case strings.HasPrefix(s, "invalid proto major"):
		return "err:major"
	case strings.HasPrefix(s, "unknown proto major"):
		return "err:unknown-major"
	case strings.HasPrefix(s, "invalid proto version"):
		return "err:pv"
	case strings.HasPrefix(s, "unknown header body length"):
		return "err:bodylen"
	case strings.HasPrefix(s, "header body too short"):
		return "err:short"
	}
	return "err:other:" + s
}

func c36Det(hdr []byte) string {
	t, err := ledger.DetermineBlockType(hdr)
	if err != nil {
		return c36DetErr(err)
	}
	return fmt.Sprintf("type=%d", t)
}

func c36Synthetic(bodyLen int, variant string, major uint64) ([]byte, bool) {
	var mj any = major
	switch variant {
	case "neg":
		mj = int64(-1) - int64(major%1000)
	case "str":
		mj = strconv.FormatUint(major, 10)
	}
	body := make([]any, bodyLen)
	for i := range body {
		body[i] = uint64(0)
	}
	if bodyLen == 15 {
		body[13] = mj
	} else if bodyLen >= 10 {
		switch variant {
		case "pvnotarr":
			body[9] = major
		case "pvempty":
			body[9] = []any{}
		case "pvlong":
			body[9] = []any{mj, uint64(0), uint64(7)}
		default:
			body[9] = []any{mj, uint64(0)}
		}
	}
	var top any = []any{body, []byte{}}
	switch variant {
	case "ok", "pvlong", "neg", "str", "pvnotarr", "pvempty":
	case "outer1":
		top = []any{body}
	case "outer3":
		top = []any{body, []byte{}, uint64(1)}
	case "outermap":
		top = map[uint64]any{0: body, 1: uint64(0)}
	case "bodynotarr":
		top = []any{[]byte{1, 2, 3}, []byte{}}
	case "garbage":
		return []byte{0x82, 0x8f, 0x00}, true // truncated
	default:
		return nil, false
	}
	b, err := cbor.Encode(top)
	if err != nil {
		return nil, false
	}
	return b, true
}

func c36EraFn(t uint, data []byte, cfg common.VerifyConfig) (ledger.Block, error) {
	switch t {
	case ledger.BlockTypeByronEbb:
		return ledger.NewByronEpochBoundaryBlockFromCbor(data, cfg)
	case ledger.BlockTypeByronMain:
		return ledger.NewByronMainBlockFromCbor(data, cfg)
	case ledger.BlockTypeShelley:
		return ledger.NewShelleyBlockFromCbor(data, cfg)
	case ledger.BlockTypeAllegra:
		return ledger.NewAllegraBlockFromCbor(data, cfg)
	case ledger.BlockTypeMary:
		return ledger.NewMaryBlockFromCbor(data, cfg)
	case ledger.BlockTypeAlonzo:
		return ledger.NewAlonzoBlockFromCbor(data, cfg)
	case ledger.BlockTypeBabbage:
		return ledger.NewBabbageBlockFromCbor(data, cfg)
	case ledger.BlockTypeConway:
		return ledger.NewConwayBlockFromCbor(data, cfg)
	case ledger.BlockTypeDijkstra:
		return ledger.NewDijkstraBlockFromCbor(data, cfg)
	}
	return nil, fmt.Errorf("unknown node-to-client block type: %d", t)
}

func c36Err(err error) string {
	if strings.Contains(err.Error(), "unknown node-to-client block type") ||
		strings.Contains(err.Error(), "unknown node-to-node block type") {
		return "err:unknown-type"
	}
	return "err:decode"
}

// fixture bytes, optionally with the protocol major patched
func c36Data(name, major string) ([]byte, bool) {
	f := g7FixtureByName(name)
	if f == nil {
		return nil, false
	}
	data, err := f.bytes()
	if err != nil {
		return nil, false
	}
	if major == "-" {
		return data, true
	}
	m, err := strconv.ParseUint(major, 10, 64)
	if err != nil {
		return nil, false
	}
	p, err := g7Patched(data, m)
	if err != nil {
		return nil, false
	}
	return p, true
}

func runC36(op string) string {
	f := strings.Fields(op)
	if len(f) == 0 {
		return "bad-op"
	}
	switch f[0] {
	case "det":
		if len(f) != 4 {
			return "bad-op"
		}
		bl, e1 := strconv.Atoi(f[1])
		mj, e2 := strconv.ParseUint(f[3], 10, 64)
		if e1 != nil || e2 != nil || bl < 0 || bl > 64 {
			return "bad-op"
		}
		hdr, ok := c36Synthetic(bl, f[2], mj)
		if !ok {
			return "bad-op"
		}
		return c36Det(hdr)
	case "dethdr":
		if len(f) != 4 {
			return "bad-op"
		}
		fx := g7FixtureByName(f[1])
		if fx == nil {
			return "bad-op"
		}
		orig, err := fx.bytes()
		if err != nil {
			return "bad-op"
		}
		_, _, bl, off, _, err := g7HeaderInfo(orig)
		if err != nil {
			return "bad-op"
		}
		if f[2] == "-" {
			if off >= 0 || f[3] != "-" {
				return "bad-op" // the op claims a Byron-style header
			}
		} else if strconv.Itoa(bl) != f[2] || off < 0 {
			return "bad-op" // the op states the wrong layout for this fixture
		}
		data, ok := c36Data(f[1], f[3])
		if !ok {
			return "bad-op"
		}
		hdr, _, _, _, _, err := g7HeaderInfo(data)
		if err != nil {
			return "bad-op"
		}
		return c36Det(hdr)
	case "blk":
		if len(f) != 5 {
			return "bad-op"
		}
		t, e1 := strconv.ParseUint(f[2], 10, 32)
		data, ok := c36Data(f[1], f[4])
		if e1 != nil || !ok {
			return "bad-op"
		}
		var blk ledger.Block
		var err error
		switch f[3] {
		case "nbfc":
			blk, err = ledger.NewBlockFromCbor(uint(t), data)
		case "nbfcskip":
			blk, err = ledger.NewBlockFromCbor(uint(t), data, common.VerifyConfig{SkipBodyHashValidation: true})
		case "off":
			var bo *ledger.BlockWithOffsets
			bo, err = ledger.NewBlockFromCborWithOffsets(uint(t), data)
			if err == nil {
				blk = bo.Block
			}
		case "erafn":
			blk, err = c36EraFn(uint(t), data, common.VerifyConfig{})
		case "hdr":
			hdr, _, _, _, _, e := g7HeaderInfo(data)
			if e != nil {
				return "bad-op"
			}
			h, e := ledger.NewBlockHeaderFromCbor(uint(t), hdr)
			if e != nil {
				return c36Err(e)
			}
			return fmt.Sprintf("hera=%d", h.Era().Id)
		default:
			return "bad-op"
		}
		if err != nil {
			return c36Err(err)
		}
		return fmt.Sprintf("type=%d era=%d hera=%d", blk.Type(), blk.Era().Id, blk.Header().Era().Id)
	case "wntn", "wntc", "wbf":
		return runC36Wire(f)
	case "maps":
		if len(f) != 2 {
			return "bad-op"
		}
		k, e1 := strconv.ParseUint(f[1], 10, 32)
		if e1 != nil {
			return "bad-op"
		}
		s := func(m map[uint]uint) string {
			if v, ok := m[uint(k)]; ok {
				return strconv.Itoa(int(v))
			}
			return "none"
		}
		return fmt.Sprintf("h2b=%s b2h=%s", s(ledger.BlockHeaderToBlockTypeMap), s(ledger.BlockToBlockHeaderTypeMap))
	}
	return "bad-op"
}
