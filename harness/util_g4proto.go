package main

// Shared by C10 / C13 (g4): real protocol.Protocol endpoints over real muxers over the
// fragmenting in-memory connection, with a tiny custom state machine and raw-CBOR messages.

import (
	"strings"
	"sync"

	"github.com/blinklabs-io/gouroboros/muxer"
	"github.com/blinklabs-io/gouroboros/protocol"
)

// g4MkMsg builds a CBOR message of exactly total bytes: [typ] for total 2, otherwise
// [typ, bytes(L)] with the shortest byte-string header that makes the total fit
// (mirrors GV.Drv.C10.mkMsg). ok=false when total < 2.
func g4MkMsg(total int, seed uint64, typ byte) ([]byte, bool) {
	if total < 2 || typ > 23 {
		return nil, false
	}
	if total == 2 {
		return []byte{0x81, typ}, true
	}
	for _, w := range []int{1, 2, 3, 5} {
		l := total - 2 - w
		if l < 0 {
			continue
		}
		var hdr []byte
		switch w {
		case 1:
			if l > 23 {
				continue
			}
			hdr = []byte{0x40 + byte(l)}
		case 2:
			if l > 255 {
				continue
			}
			hdr = []byte{0x58, byte(l)}
		case 3:
			if l > 65535 {
				continue
			}
			hdr = []byte{0x59, byte(l >> 8), byte(l)}
		case 5:
			hdr = []byte{0x5a, byte(l >> 24), byte(l >> 16), byte(l >> 8), byte(l)}
		}
		b := make([]byte, 0, total)
		b = append(b, 0x82, typ)
		b = append(b, hdr...)
		b = append(b, genBytesG4(l, seed)...)
		return b, true
	}
	return nil, false
}

func g4RawMsg(typ uint8, raw []byte) protocol.Message {
	m := &protocol.MessageBase{MessageType: typ}
	m.SetCbor(raw)
	return m
}

func g4MsgFromCbor(msgType uint, data []byte) (protocol.Message, error) {
	if msgType > 255 {
		return nil, nil
	}
	return g4RawMsg(uint8(msgType), data), nil // SetCbor copies
}

type g4Endpoint struct {
	conn  *g4Conn
	mux   *muxer.Muxer
	proto *protocol.Protocol
	errCh chan error
}

func newG4Endpoint(conn *g4Conn, role protocol.ProtocolRole, sm protocol.StateMap, initial protocol.State,
	handler protocol.MessageHandlerFunc, name string) *g4Endpoint {
	e := &g4Endpoint{conn: conn, errCh: make(chan error, 10)}
	e.mux = muxer.New(conn)
	e.proto = protocol.New(protocol.ProtocolConfig{
		Name:                name,
		ProtocolId:          77,
		ErrorChan:           e.errCh,
		Muxer:               e.mux,
		Mode:                protocol.ProtocolModeNodeToNode,
		Role:                role,
		MessageHandlerFunc:  handler,
		MessageFromCborFunc: g4MsgFromCbor,
		StateMap:            sm,
		InitialState:        initial,
	})
	return e
}

func (e *g4Endpoint) start() {
	e.proto.Start()
	e.mux.Start()
}

// stop shuts the endpoint down the way Connection does on an error: the muxer first (a
// Protocol.Stop() issued while the muxer's read loop is blocked on this protocol's full
// receive channel would otherwise wait for the muxer), then the protocol.
func (e *g4Endpoint) stop() {
	e.mux.Stop()
	e.proto.Stop()
	for range e.mux.ErrorChan() {
	}
}

// segLens returns the payload lengths of the segments this endpoint wrote.
func (e *g4Endpoint) segLens() string {
	e.conn.wmu.Lock()
	defer e.conn.wmu.Unlock()
	parts := make([]string, 0, len(e.conn.writes))
	for _, w := range e.conn.writes {
		parts = append(parts, itoa(len(w)-8))
	}
	if len(parts) == 0 {
		return "-"
	}
	return strings.Join(parts, ",")
}

func itoa(n int) string {
	if n == 0 {
		return "0"
	}
	neg := n < 0
	if neg {
		n = -n
	}
	var b [20]byte
	i := len(b)
	for n > 0 {
		i--
		b[i] = byte('0' + n%10)
		n /= 10
	}
	if neg {
		i--
		b[i] = '-'
	}
	return string(b[i:])
}

// g4ErrClass maps protocol / muxer errors to a small enum.
func g4ErrClass(err error) string {
	if err == nil {
		return "none"
	}
	msg := err.Error()
	switch {
	case strings.Contains(msg, "read buffer exceeded maximum size"):
		return "too-big"
	case strings.Contains(msg, "received oversized message"):
		return "oversize"
	case strings.Contains(msg, "decode error"):
		return "decode"
	case strings.Contains(msg, "received empty message"):
		return "empty"
	case strings.Contains(msg, "zero-byte read"):
		return "zero-read"
	case strings.Contains(msg, "not allowed in current protocol state"):
		return "bad-transition"
	case strings.Contains(msg, "queue exceeded") || strings.Contains(msg, "queue limit"):
		return "send-queue-exceeded"
	case strings.Contains(msg, "unknown message type"):
		return "unknown-type"
	}
	return "mux:" + muxErrClass(err)
}

// fpList is a concurrency-safe list of fingerprints.
type fpList struct {
	mu  sync.Mutex
	fps []string
}

func (l *fpList) add(s string) int {
	l.mu.Lock()
	defer l.mu.Unlock()
	l.fps = append(l.fps, s)
	return len(l.fps)
}

func (l *fpList) String() string {
	l.mu.Lock()
	defer l.mu.Unlock()
	return "[" + strings.Join(l.fps, ",") + "]"
}

// newG4EndpointQ is newG4Endpoint with an explicit receive-queue size (0 = default).
func newG4EndpointQ(conn *g4Conn, role protocol.ProtocolRole, sm protocol.StateMap, initial protocol.State,
	handler protocol.MessageHandlerFunc, name string, recvQ int) *g4Endpoint {
	return newG4EndpointF(conn, role, sm, initial, handler, name, recvQ, g4MsgFromCbor)
}

// newG4EndpointF additionally takes the message-from-CBOR function (e.g. a real protocol's).
func newG4EndpointF(conn *g4Conn, role protocol.ProtocolRole, sm protocol.StateMap, initial protocol.State,
	handler protocol.MessageHandlerFunc, name string, recvQ int, fromCbor protocol.MessageFromCborFunc) *g4Endpoint {
	e := &g4Endpoint{conn: conn, errCh: make(chan error, 10)}
	e.mux = muxer.New(conn)
	e.proto = protocol.New(protocol.ProtocolConfig{
		Name:                name,
		ProtocolId:          77,
		ErrorChan:           e.errCh,
		Muxer:               e.mux,
		Mode:                protocol.ProtocolModeNodeToNode,
		Role:                role,
		MessageHandlerFunc:  handler,
		MessageFromCborFunc: fromCbor,
		StateMap:            sm,
		InitialState:        initial,
		RecvQueueSize:       recvQ,
	})
	return e
}
