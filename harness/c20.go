package main

// C20 — the supported-version tables are internally consistent.
//
// op:  enc <table> <version> <magic> <dm> <ps> <q>
//        entry the real generator builds for <version>; cbor.Encode; decode with
//        GetProtocolVersion(version)'s own decoder
//      dec <kind 1..5> <hex>
//        the real NewVersionData<kind>FromCbor on raw bytes
// The tables themselves are tied by regeneration (harness/dump_g2.go → lean/GV/Gen/Versions.lean).

import (
	"encoding/hex"
	"fmt"
	"strconv"
	"strings"

	"github.com/blinklabs-io/gouroboros/cbor"
	"github.com/blinklabs-io/gouroboros/protocol"
)

func init() {
	register(&Prop{ID: "C20", Gen: genC20, Run: runC20})
}

func genC20(r *Rand, n int, tier string, emit func(string)) {
	// every version of every table x all flag combinations, boundary magics: exhaustive part
	magics := []uint64{0, 1, 23, 24, 255, 256, 65535, 65536, 764824073, 4294967295}
	for _, t := range g2Tables {
		for _, v := range g2TableVersions(t) {
			for fl := 0; fl < 8; fl++ {
				m := magics[(int(v)+fl)%len(magics)]
				if tier == "thorough" {
					for _, m2 := range magics {
						emit(fmt.Sprintf("enc %s %d %d %s %s %s", t, v, m2, b01(fl&1 != 0), b01(fl&2 != 0), b01(fl&4 != 0)))
					}
					continue
				}
				emit(fmt.Sprintf("enc %s %d %d %s %s %s", t, v, m, b01(fl&1 != 0), b01(fl&2 != 0), b01(fl&4 != 0)))
			}
		}
	}
	for i := 0; i < n; i++ {
		if r.Chance(1, 3) {
			t := g2Tables[r.Intn(4)]
			vs := g2TableVersions(t)
			emit(fmt.Sprintf("enc %s %d %d %s %s %s", t, vs[r.Intn(len(vs))], r.EdgeU64()&0xffffffff, b01(r.Bool()), b01(r.Bool()), b01(r.Bool())))
			continue
		}
		magic := Pick(r, uint64(764824073), 1, 42, 0, 4294967295, r.EdgeU64()&0xffffffff)
		data := g2GenData(r, magic)
		if r.Chance(1, 10) { // trailing bytes are ignored by the stream decoder
			data = append(data, r.Bytes(1+r.Intn(3))...)
		}
		if r.Chance(1, 12) && len(data) > 1 { // truncation
			data = data[:1+r.Intn(len(data)-1)]
		}
		emit(fmt.Sprintf("dec %d %s", 1+r.Intn(5), hex.EncodeToString(data)))
	}
}

func runC20(op string) string {
	f := strings.Fields(op)
	if len(f) == 0 {
		return "bad-op"
	}
	switch f[0] {
	case "enc":
		if len(f) != 7 {
			return "bad-op"
		}
		v, e1 := strconv.ParseUint(f[2], 10, 16)
		magic, e2 := strconv.ParseUint(f[3], 10, 32)
		if e1 != nil || e2 != nil {
			return "bad-op"
		}
		m, _, ok := g2Table(f[1], uint32(magic), f[4] == "1", f[5] == "1", f[6] == "1")
		if !ok {
			return "bad-op"
		}
		entry, ok := m[uint16(v)]
		if !ok || entry == nil {
			return "bad-op"
		}
		data, err := cbor.Encode(&entry)
		if err != nil {
			return "encode-error"
		}
		dec := "nodecoder"
		if fn := protocol.GetProtocolVersion(uint16(v)).NewVersionDataFromCborFunc; fn != nil {
			d, err := fn(data)
			if err != nil {
				dec = "err"
			} else {
				dec = g2RenderVD(d)
			}
		}
		return fmt.Sprintf("dec=%s gen=%s hex=%s", dec, g2RenderVD(entry), hex.EncodeToString(data))
	case "dec":
		if len(f) != 3 {
			return "bad-op"
		}
		k, e1 := strconv.Atoi(f[1])
		data, e2 := hex.DecodeString(f[2])
		if e1 != nil || e2 != nil || k < 1 || k > 5 {
			return "bad-op"
		}
		fns := []protocol.NewVersionDataFromCborFunc{
			protocol.NewVersionDataNtC9to14FromCbor,
			protocol.NewVersionDataNtC15andUpFromCbor,
			protocol.NewVersionDataNtN7to10FromCbor,
			protocol.NewVersionDataNtN11to12FromCbor,
			protocol.NewVersionDataNtN13andUpFromCbor,
		}
		d, err := fns[k-1](data)
		if err != nil {
			return "err"
		}
		return "ok " + g2RenderVD(d)
	}
	return "bad-op"
}
