package main

// C18 — version negotiation agrees on the best common version.
//
// op:  hs <ctable> <cmagic> <cdm> <cps> <cq> <cversions>  <stable> <smagic> <sdm> <sps> <sq> <sversions>
//        the real handshake client and the real handshake server, each on its own
//        muxer, talk over a net.Pipe; both ends' outcomes are reported.
//      prop <stable> <smagic> <sdm> <sps> <sq> <sversions> <n> v1 hex1 … vn hexn
//        a scripted initiator sends the raw ProposeVersions map {v1: hex1, …} to the
//        real server and reports the server's outcome and the message it put on the wire.

import (
	"encoding/hex"
	"fmt"
	"net"
	"sort"
	"strconv"
	"strings"
	"time"

	"github.com/blinklabs-io/gouroboros/protocol/handshake"
)

func init() {
	register(&Prop{ID: "C18", Gen: genC18, Run: runC18, Timeout: 150 * time.Second})
}

type g2Side struct {
	table   string
	magic   uint64
	dm      bool
	ps      bool
	q       bool
	vers    []uint16
	versStr string
}

func (s g2Side) String() string {
	return fmt.Sprintf("%s %d %s %s %s %s", s.table, s.magic, b01(s.dm), b01(s.ps), b01(s.q), s.versStr)
}

func g2GenSide(r *Rand, table string, magic uint64, allowEmpty bool) g2Side {
	s := g2Side{table: table, magic: magic, dm: r.Bool(), ps: r.Bool()}
	all := g2TableVersions(table)
	switch r.Intn(5) {
	case 0:
		s.vers, s.versStr = all, "all"
	default:
		s.vers = g2RandomSubset(r, all)
		if len(s.vers) == 0 && !allowEmpty {
			s.vers = []uint16{all[r.Intn(len(all))]}
		}
		s.versStr = g2VersionsStr(s.vers)
	}
	return s
}

func genC18(r *Rand, n int, tier string, emit func(string)) {
	magics := []uint64{764824073, 1, 2, 42, 4294967295, 3141592}
	if tier == "thorough" {
		// small-scope exhaustive part: every pair of subsets of the DMQ tables and of a 4-version
		// window of the NtC / NtN tables, equal and different magic
		type win struct {
			table string
			vs    []uint16
		}
		wins := []win{{"dmqn", []uint16{1, 2}}, {"dmq", []uint16{4097}}, {"ntn", []uint16{10, 11, 12, 13}}, {"ntc", []uint16{32781, 32782, 32783, 32784}}}
		for _, w := range wins {
			k := len(w.vs)
			for cm := 0; cm < 1<<k; cm++ {
				for sm := 1; sm < 1<<k; sm++ {
					for mg := 0; mg < 2; mg++ {
						pick := func(mask int) string {
							ks := []uint16{}
							for i := 0; i < k; i++ {
								if mask&(1<<i) != 0 {
									ks = append(ks, w.vs[i])
								}
							}
							return g2VersionsStr(ks)
						}
						c := g2Side{table: w.table, magic: 7, dm: cm&1 != 0, ps: sm&1 != 0, versStr: pick(cm)}
						s := g2Side{table: w.table, magic: uint64(7 + mg), dm: sm&2 != 0, ps: cm&2 != 0, versStr: pick(sm)}
						emit("hs " + c.String() + " " + s.String())
					}
				}
			}
		}
	}
	for i := 0; i < n; i++ {
		if r.Chance(1, 4) {
			emit(genC18Prop(r, magics))
			continue
		}
		ct := g2Tables[r.Intn(4)]
		st := ct
		if r.Chance(1, 8) {
			st = g2Tables[r.Intn(4)]
		}
		cm := magics[r.Intn(len(magics))]
		sm := cm
		if r.Chance(1, 4) {
			sm = Pick(r, cm+1, cm-1, magics[r.Intn(len(magics))]) & 0xffffffff
		}
		c := g2GenSide(r, ct, cm, true)
		s := g2GenSide(r, st, sm, true) // an empty responder table refuses with an empty list
		c.q = r.Chance(1, 6)
		s.q = r.Chance(1, 8)
		emit("hs " + c.String() + " " + s.String())
	}
}

// raw proposals for the scripted initiator
func genC18Prop(r *Rand, magics []uint64) string {
	st := g2Tables[r.Intn(4)]
	sm := magics[r.Intn(len(magics))]
	s := g2GenSide(r, st, sm, false)
	s.q = r.Chance(1, 8)
	all := g2TableVersions(st)
	seen := map[uint16]bool{}
	parts := []string{}
	k := Pick(r, 0, 1, 1, 2, 3, 4, 6)
	for j := 0; j < k; j++ {
		var v uint16
		switch r.Intn(6) {
		case 0, 1, 2:
			v = all[r.Intn(len(all))]
		case 3:
			o := g2TableVersions(g2Tables[r.Intn(4)])
			v = o[r.Intn(len(o))]
		case 4:
			v = Pick(r, all[0]-1, all[len(all)-1]+1, 0, 65535, 3, 6, 16, 0x8000, 0x1000)
		default:
			v = uint16(r.U64())
		}
		if seen[v] {
			continue
		}
		seen[v] = true
		dm := sm
		if r.Chance(1, 4) {
			dm = Pick(r, sm+1, 0, 42)
		}
		dm &= 0xffffffff
		var data []byte
		if r.Chance(1, 2) {
			// what an honest initiator of that table would send for v
			if m, _, ok := g2Table(st, uint32(dm), r.Bool(), r.Bool(), r.Chance(1, 6)); ok && m[v] != nil {
				msg := handshake.NewMsgAcceptVersion(v, m[v])
				data = []byte(msg.VersionData)
			}
		}
		if data == nil {
			data = g2GenData(r, dm)
		}
		parts = append(parts, fmt.Sprintf("%d %s", v, hex.EncodeToString(data)))
	}
	return fmt.Sprintf("prop %s %d %s", s.String(), len(parts), strings.Join(parts, " ")) // trailing space trimmed by tokenisers
}

func g2ParseSide(f []string) (g2Side, bool) {
	var s g2Side
	if len(f) != 6 {
		return s, false
	}
	m, err := strconv.ParseUint(f[1], 10, 32)
	if err != nil {
		return s, false
	}
	s = g2Side{table: f[0], magic: m, dm: f[2] == "1", ps: f[3] == "1", q: f[4] == "1", versStr: f[5]}
	return s, true
}

func runC18(op string) string {
	f := strings.Fields(op)
	if len(f) == 0 {
		return "bad-op"
	}
	switch f[0] {
	case "hs":
		if len(f) != 13 {
			return "bad-op"
		}
		cs, ok1 := g2ParseSide(f[1:7])
		ss, ok2 := g2ParseSide(f[7:13])
		if !ok1 || !ok2 {
			return "bad-op"
		}
		cfull, cmode, ok1 := g2Table(cs.table, uint32(cs.magic), cs.dm, cs.ps, cs.q)
		sfull, smode, ok2 := g2Table(ss.table, uint32(ss.magic), ss.dm, ss.ps, ss.q)
		if !ok1 || !ok2 {
			return "bad-op"
		}
		cks, ok1 := g2ParseVersions(cs.versStr, cfull)
		sks, ok2 := g2ParseVersions(ss.versStr, sfull)
		if !ok1 || !ok2 {
			return "bad-op"
		}
		cvm, ok1 := g2Subset(cfull, cks)
		svm, ok2 := g2Subset(sfull, sks)
		if !ok1 || !ok2 {
			return "bad-op"
		}
		a, b := net.Pipe()
		defer a.Close()
		defer b.Close()
		type sideRes struct {
			r    g2HsResult
			stop func()
		}
		sch := make(chan sideRes, 1)
		cch := make(chan sideRes, 1)
		go func() {
			r, stop := g2RunHandshake(b, true, smode, svm)
			sch <- sideRes{r, stop}
		}()
		go func() {
			r, stop := g2RunHandshake(a, false, cmode, cvm)
			cch <- sideRes{r, stop}
		}()
		// Event order instead of waiting out a deadline: a responder that ends with an error has
		// (SendMessageAndWait) already written its reply; closing its end then lets an initiator
		// that was sent nothing fail at once. A responder that finished may still have the
		// acceptance queued, so it is only stopped after the initiator is done.
		sr := <-sch
		if sr.r.kind != "finished" {
			sr.stop()
		}
		cres := <-cch
		cr := cres.r
		cres.stop()
		sr.stop()
		return "c=" + cr.String() + " s=" + sr.r.String()
	case "prop":
		if len(f) < 8 {
			return "bad-op"
		}
		ss, ok := g2ParseSide(f[1:7])
		n, err := strconv.Atoi(f[7])
		if !ok || err != nil || len(f) != 8+2*n {
			return "bad-op"
		}
		sfull, smode, ok := g2Table(ss.table, uint32(ss.magic), ss.dm, ss.ps, ss.q)
		if !ok {
			return "bad-op"
		}
		sks, ok := g2ParseVersions(ss.versStr, sfull)
		if !ok {
			return "bad-op"
		}
		svm, ok := g2Subset(sfull, sks)
		if !ok {
			return "bad-op"
		}
		// MsgProposeVersions = [0, {v: data}] with the entries in the op's order
		payload := append([]byte{0x82, 0x00}, g2CborHead(5, uint64(n), 0)...)
		for i := 0; i < n; i++ {
			v, e1 := strconv.ParseUint(f[8+2*i], 10, 16)
			d, e2 := hex.DecodeString(f[9+2*i])
			if e1 != nil || e2 != nil || len(d) == 0 {
				return "bad-op"
			}
			payload = append(payload, g2CborHead(0, v, 0)...)
			payload = append(payload, d...)
		}
		a, b := net.Pipe()
		defer a.Close()
		defer b.Close()
		type sideRes struct {
			r    g2HsResult
			stop func()
		}
		sch := make(chan sideRes, 1)
		go func() {
			r, stop := g2RunHandshake(b, true, smode, svm)
			sch <- sideRes{r, stop}
		}()
		if err := g2WriteSegment(a, 0x0000, payload); err != nil {
			return "write-failed"
		}
		type segRes struct {
			id   uint16
			data []byte
			err  error
		}
		rch := make(chan segRes, 1)
		go func() {
			id, resp, err := g2ReadSegment(a)
			rch <- segRes{id, resp, err}
		}()
		// as above: an erroring responder has written whatever it sends; stop it so that the
		// reader sees EOF instead of waiting when nothing was sent
		sr := <-sch
		if sr.r.kind != "finished" {
			sr.stop()
		}
		msg := "none"
		select {
		case seg := <-rch:
			if seg.err == nil {
				msg = g2RenderServerMsg(seg.id, seg.data)
			}
		case <-time.After(g2Deadline()):
			g2NoteExpired()
		}
		sr.stop()
		return "s=" + sr.r.String() + " msg=" + msg
	}
	return "bad-op"
}

// g2RenderServerMsg renders the responder's wire message canonically.
func g2RenderServerMsg(protoIdField uint16, payload []byte) string {
	if protoIdField != 0x8000 {
		return fmt.Sprintf("wrong-proto-id(%#x)", protoIdField)
	}
	if len(payload) < 2 {
		return "short"
	}
	m, err := handshake.NewMsgFromCbor(uint(payload[1]), payload)
	if err != nil {
		return "undecodable(" + hex.EncodeToString(payload) + ")"
	}
	switch mm := m.(type) {
	case *handshake.MsgAcceptVersion:
		return fmt.Sprintf("accept(%d,%s)", mm.Version, hex.EncodeToString(mm.VersionData))
	case *handshake.MsgQueryReply:
		ks := []int{}
		for k := range mm.VersionMap {
			ks = append(ks, int(k))
		}
		sort.Ints(ks)
		parts := []string{}
		for _, k := range ks {
			parts = append(parts, fmt.Sprintf("%d:%s", k, hex.EncodeToString(mm.VersionMap[uint16(k)])))
		}
		return "queryreply{" + strings.Join(parts, ";") + "}"
	case *handshake.MsgRefuse:
		if len(mm.Reason) < 2 {
			return "refuse(short)"
		}
		code, _ := mm.Reason[0].(uint64)
		switch code {
		case handshake.RefuseReasonVersionMismatch:
			l, ok := mm.Reason[1].([]any)
			if !ok {
				return fmt.Sprintf("refuse(0,%T)", mm.Reason[1])
			}
			s := make([]string, len(l))
			for i, x := range l {
				s[i] = fmt.Sprint(x)
			}
			return "refuse(0,[" + strings.Join(s, ",") + "])"
		default:
			return fmt.Sprintf("refuse(%d,%v)", code, mm.Reason[1])
		}
	}
	return "other"
}
