package main

// C04 — mini-protocol message codecs round-trip and reject malformed shapes.
//
// ops:
//
//	rt  <proto> <hex> <render>   hex = cbor.Encode(message built by the exported constructor with
//	                             generated field values), render = canonical rendering of the
//	                             constructed message.  out: ok <type> <render of decoded> | err
//	mut <proto> <hex>            a shape mutation of such an encoding.  out: same
//
// The receive path is the one of protocol.go: decode the outer list as
// []RawMessage, decode item 0 as uint = message type, NewMsgFromCbor(type, bytes).
//
// Rendering (shared with lean/GV/Model/MsgCodec.lean): uint/int decimal, bool T/F,
// bytes h<hex>, text s<hex>, raw item r<hex>, list [a,b], toarray struct (a,b),
// map {k:v,..} sorted by rendered key.

import (
	"fmt"
	"reflect"
	"sort"
	"strings"
	"time"

	"github.com/blinklabs-io/gouroboros/cbor"
	lcommon "github.com/blinklabs-io/gouroboros/ledger/common"
	"github.com/blinklabs-io/gouroboros/protocol"
	"github.com/blinklabs-io/gouroboros/protocol/blockfetch"
	"github.com/blinklabs-io/gouroboros/protocol/chainsync"
	pcommon "github.com/blinklabs-io/gouroboros/protocol/common"
	"github.com/blinklabs-io/gouroboros/protocol/handshake"
	"github.com/blinklabs-io/gouroboros/protocol/keepalive"
	"github.com/blinklabs-io/gouroboros/protocol/leiosfetch"
	"github.com/blinklabs-io/gouroboros/protocol/leiosnotify"
	"github.com/blinklabs-io/gouroboros/protocol/leiosvotes"
	"github.com/blinklabs-io/gouroboros/protocol/localmessagenotification"
	"github.com/blinklabs-io/gouroboros/protocol/localmessagesubmission"
	"github.com/blinklabs-io/gouroboros/protocol/localstatequery"
	"github.com/blinklabs-io/gouroboros/protocol/localtxmonitor"
	"github.com/blinklabs-io/gouroboros/protocol/localtxsubmission"
	"github.com/blinklabs-io/gouroboros/protocol/messagesubmission"
	"github.com/blinklabs-io/gouroboros/protocol/peersharing"
	"github.com/blinklabs-io/gouroboros/protocol/txsubmission"
)

func init() {
	register(&Prop{ID: "C04", Gen: genC04, Run: runC04, Timeout: 60 * time.Second})
}

type c04Proto struct {
	name     string
	fromCbor func(uint, []byte) (protocol.Message, error)
	// message generators: exported constructors with generated field values
	gens []func(r *Rand) (protocol.Message, error)
	// one zero value per message type accepted by fromCbor (for the shape dump)
	types map[uint]protocol.Message
}

func gPoint(r *Rand) pcommon.Point {
	switch r.Intn(6) {
	case 0:
		return pcommon.NewPointOrigin()
	case 1:
		return pcommon.NewPoint(r.EdgeU64(), r.Bytes(32))
	case 2:
		return pcommon.NewPoint(0, r.Bytes(32))
	case 3:
		return pcommon.NewPoint(r.EdgeU64(), []byte{})
	default:
		return pcommon.NewPoint(uint64(r.Intn(100000000)), r.Bytes(32))
	}
}
func gTip(r *Rand) pcommon.Tip {
	return pcommon.Tip{Point: gPoint(r), BlockNumber: r.EdgeU64()}
}
func gU16(r *Rand) uint16 { return uint16(Pick(r, 0, 1, 23, 24, 255, 256, 65535, r.Intn(65536))) }
func gU32(r *Rand) uint32 {
	return uint32(Pick(r, uint64(0), 23, 24, 255, 256, 65535, 65536, 1<<32-1, r.U64()&0xffffffff))
}
func gU8(r *Rand) uint8 { return uint8(Pick(r, 0, 1, 23, 24, 255, r.Intn(256))) }
func gBytes(r *Rand) []byte {
	return r.Bytes(Pick(r, 0, 1, 23, 24, 28, 32, 255, 256, r.Intn(600)))
}
func gRaw(r *Rand) cbor.RawMessage {
	t := randNode(r, 2)
	if r.Chance(1, 3) {
		t.reform(r, 1, 2, false)
	}
	// tags whose content fxamacker validates are avoided (tag 0..3)
	return cbor.RawMessage(t.bytes())
}
func gRaws(r *Rand) []cbor.RawMessage {
	n := r.Intn(4)
	out := make([]cbor.RawMessage, n)
	for i := range out {
		out[i] = gRaw(r)
	}
	return out
}
func gDmq(r *Rand) pcommon.DmqMessage {
	return pcommon.DmqMessage{
		MessageID: r.Bytes(32),
		Payload: pcommon.DmqMessagePayload{
			MessageBody: gBytes(r), KESPeriod: r.EdgeU64(), ExpiresAt: gU32(r),
		},
		KESSignature: r.Bytes(448),
		OperationalCertificate: pcommon.OperationalCertificate{
			KESVerificationKey: r.Bytes(32), IssueNumber: r.EdgeU64(), KESPeriod: r.EdgeU64(), ColdSignature: r.Bytes(64),
		},
		ColdVerificationKey: r.Bytes(32),
	}
}
func gDmqs(r *Rand) []pcommon.DmqMessage {
	n := r.Intn(3)
	out := make([]pcommon.DmqMessage, n)
	for i := range out {
		out[i] = gDmq(r)
	}
	return out
}
func gVersionMap(r *Rand, ntc bool) protocol.ProtocolVersionMap {
	m := protocol.ProtocolVersionMap{}
	n := 1 + r.Intn(4)
	for i := 0; i < n; i++ {
		if ntc {
			v := uint16(32768 + 9 + r.Intn(14))
			m[v] = protocol.VersionDataNtC9to14(uint32(r.U64()))
		} else {
			v := uint16(7 + r.Intn(9))
			m[v] = protocol.VersionDataNtN7to10{CborNetworkMagic: uint32(r.U64()), CborInitiatorAndResponderDiffusionMode: r.Bool()}
		}
	}
	return m
}
func okMsg(m protocol.Message) (protocol.Message, error) { return m, nil }

// c04Expect: a constructed message whose decoded form is rendered differently
// from the constructor's argument (an `any` argument that decodes into a typed value)
type c04Expect struct {
	protocol.Message
	render string
}

var c04Protos = []*c04Proto{
	{
		name: "handshake", fromCbor: handshake.NewMsgFromCbor,
		gens: []func(r *Rand) (protocol.Message, error){
			func(r *Rand) (protocol.Message, error) {
				return okMsg(handshake.NewMsgProposeVersions(gVersionMap(r, r.Bool())))
			},
			func(r *Rand) (protocol.Message, error) {
				return okMsg(handshake.NewMsgAcceptVersion(gU16(r), protocol.VersionDataNtC9to14(uint32(r.U64()))))
			},
			func(r *Rand) (protocol.Message, error) {
				return okMsg(handshake.NewMsgAcceptVersion(gU16(r), protocol.VersionDataNtN7to10{CborNetworkMagic: gU32(r), CborInitiatorAndResponderDiffusionMode: r.Bool()}))
			},
			func(r *Rand) (protocol.Message, error) {
				return okMsg(handshake.NewMsgRefuse([]any{uint64(0), []any{uint64(7), uint64(8)}}))
			},
			func(r *Rand) (protocol.Message, error) {
				return okMsg(handshake.NewMsgRefuse([]any{uint64(1 + r.Intn(2)), uint64(gU16(r)), "refused"}))
			},
			func(r *Rand) (protocol.Message, error) {
				return okMsg(handshake.NewMsgQueryReply(gVersionMap(r, r.Bool())))
			},
		},
		types: map[uint]protocol.Message{0: &handshake.MsgProposeVersions{}, 1: &handshake.MsgAcceptVersion{}, 2: &handshake.MsgRefuse{}, 3: &handshake.MsgQueryReply{}},
	},
	{
		name: "chainsync-ntn", fromCbor: chainsync.NewMsgFromCborNtN,
		gens: append(chainsyncCommonGens(), func(r *Rand) (protocol.Message, error) {
			era := uint(1 + r.Intn(7))
			m, err := chainsync.NewMsgRollForwardNtN(era, 0, cA(cU(1), cB(r.Bytes(40))).bytes(), gTip(r))
			return m, err
		}, func(r *Rand) (protocol.Message, error) {
			m, err := chainsync.NewMsgRollForwardNtN(0, uint(r.Intn(2)), cA(cU(1), cB(r.Bytes(40))).bytes(), gTip(r))
			return m, err
		}),
		types: map[uint]protocol.Message{0: &chainsync.MsgRequestNext{}, 1: &chainsync.MsgAwaitReply{}, 2: &chainsync.MsgRollForwardNtN{}, 3: &chainsync.MsgRollBackward{},
			4: &chainsync.MsgFindIntersect{}, 5: &chainsync.MsgIntersectFound{}, 6: &chainsync.MsgIntersectNotFound{}, 7: &chainsync.MsgDone{}},
	},
	{
		name: "chainsync-ntc", fromCbor: chainsync.NewMsgFromCborNtC,
		gens: append(chainsyncCommonGens(), func(r *Rand) (protocol.Message, error) {
			m, err := chainsync.NewMsgRollForwardNtC(uint(r.Intn(8)), cA(cU(1), cB(r.Bytes(40))).bytes(), gTip(r))
			return m, err
		}),
		types: map[uint]protocol.Message{0: &chainsync.MsgRequestNext{}, 1: &chainsync.MsgAwaitReply{}, 2: &chainsync.MsgRollForwardNtC{}, 3: &chainsync.MsgRollBackward{},
			4: &chainsync.MsgFindIntersect{}, 5: &chainsync.MsgIntersectFound{}, 6: &chainsync.MsgIntersectNotFound{}, 7: &chainsync.MsgDone{}},
	},
	{
		name: "blockfetch", fromCbor: blockfetch.NewMsgFromCbor,
		gens: []func(r *Rand) (protocol.Message, error){
			func(r *Rand) (protocol.Message, error) {
				return okMsg(blockfetch.NewMsgRequestRange(gPoint(r), gPoint(r)))
			},
			func(r *Rand) (protocol.Message, error) { return okMsg(blockfetch.NewMsgClientDone()) },
			func(r *Rand) (protocol.Message, error) { return okMsg(blockfetch.NewMsgStartBatch()) },
			func(r *Rand) (protocol.Message, error) { return okMsg(blockfetch.NewMsgNoBlocks()) },
			func(r *Rand) (protocol.Message, error) {
				return okMsg(blockfetch.NewMsgBlock(cA(cU(uint64(r.Intn(8))), cA(cU(1), cB(r.Bytes(30)))).bytes()))
			},
			func(r *Rand) (protocol.Message, error) { return okMsg(blockfetch.NewMsgBatchDone()) },
		},
		types: map[uint]protocol.Message{0: &blockfetch.MsgRequestRange{}, 1: &blockfetch.MsgClientDone{}, 2: &blockfetch.MsgStartBatch{}, 3: &blockfetch.MsgNoBlocks{}, 4: &blockfetch.MsgBlock{}, 5: &blockfetch.MsgBatchDone{}},
	},
	{
		name: "txsubmission", fromCbor: txsubmission.NewMsgFromCbor,
		gens: []func(r *Rand) (protocol.Message, error){
			func(r *Rand) (protocol.Message, error) {
				return okMsg(txsubmission.NewMsgRequestTxIds(r.Bool(), gU16(r), gU16(r)))
			},
			func(r *Rand) (protocol.Message, error) {
				n := r.Intn(4)
				ids := make([]txsubmission.TxIdAndSize, n)
				for i := range ids {
					ids[i].TxId.EraId = gU16(r)
					copy(ids[i].TxId.TxId[:], r.Bytes(32))
					ids[i].Size = gU32(r)
				}
				return okMsg(txsubmission.NewMsgReplyTxIds(ids))
			},
			func(r *Rand) (protocol.Message, error) {
				n := r.Intn(4)
				ids := make([]txsubmission.TxId, n)
				for i := range ids {
					ids[i].EraId = gU16(r)
					copy(ids[i].TxId[:], r.Bytes(32))
				}
				return okMsg(txsubmission.NewMsgRequestTxs(ids))
			},
			func(r *Rand) (protocol.Message, error) {
				n := r.Intn(4)
				txs := make([]txsubmission.TxBody, n)
				for i := range txs {
					txs[i].EraId = gU16(r)
					txs[i].TxBody = cA(cU(1), cB(r.Bytes(20))).bytes()
				}
				return okMsg(txsubmission.NewMsgReplyTxs(txs))
			},
			func(r *Rand) (protocol.Message, error) { return okMsg(txsubmission.NewMsgDone()) },
			func(r *Rand) (protocol.Message, error) { return okMsg(txsubmission.NewMsgInit()) },
		},
		types: map[uint]protocol.Message{0: &txsubmission.MsgRequestTxIds{}, 1: &txsubmission.MsgReplyTxIds{}, 2: &txsubmission.MsgRequestTxs{}, 3: &txsubmission.MsgReplyTxs{}, 4: &txsubmission.MsgDone{}, 6: &txsubmission.MsgInit{}},
	},
	{
		name: "keepalive", fromCbor: keepalive.NewMsgFromCbor,
		gens: []func(r *Rand) (protocol.Message, error){
			func(r *Rand) (protocol.Message, error) { return okMsg(keepalive.NewMsgKeepAlive(gU16(r))) },
			func(r *Rand) (protocol.Message, error) { return okMsg(keepalive.NewMsgKeepAliveResponse(gU16(r))) },
			func(r *Rand) (protocol.Message, error) { return okMsg(keepalive.NewMsgDone()) },
		},
		types: map[uint]protocol.Message{0: &keepalive.MsgKeepAlive{}, 1: &keepalive.MsgKeepAliveResponse{}, 2: &keepalive.MsgDone{}},
	},
	{
		name: "peersharing", fromCbor: peersharing.NewMsgFromCbor,
		gens: []func(r *Rand) (protocol.Message, error){
			func(r *Rand) (protocol.Message, error) { return okMsg(peersharing.NewMsgShareRequest(gU8(r))) },
			func(r *Rand) (protocol.Message, error) {
				n := r.Intn(4)
				ps := make([]peersharing.PeerAddress, n)
				for i := range ps {
					if r.Bool() {
						ps[i].IP = r.Bytes(4)
					} else {
						ps[i].IP = r.Bytes(16)
						ps[i].IP[0] = 0x20 // not an IPv4-mapped address
					}
					ps[i].Port = gU16(r)
				}
				return okMsg(peersharing.NewMsgSharePeers(ps))
			},
			func(r *Rand) (protocol.Message, error) { return okMsg(peersharing.NewMsgDone()) },
		},
		types: map[uint]protocol.Message{0: &peersharing.MsgShareRequest{}, 1: &peersharing.MsgSharePeers{}, 2: &peersharing.MsgDone{}},
	},
	{
		name: "localtxsubmission", fromCbor: localtxsubmission.NewMsgFromCbor,
		gens: []func(r *Rand) (protocol.Message, error){
			func(r *Rand) (protocol.Message, error) {
				return okMsg(localtxsubmission.NewMsgSubmitTx(gU16(r), cA(cU(1), cB(r.Bytes(20))).bytes()))
			},
			func(r *Rand) (protocol.Message, error) { return okMsg(localtxsubmission.NewMsgAcceptTx()) },
			func(r *Rand) (protocol.Message, error) { return okMsg(localtxsubmission.NewMsgRejectTx(gRaw(r))) },
			func(r *Rand) (protocol.Message, error) { return okMsg(localtxsubmission.NewMsgDone()) },
		},
		types: map[uint]protocol.Message{0: &localtxsubmission.MsgSubmitTx{}, 1: &localtxsubmission.MsgAcceptTx{}, 2: &localtxsubmission.MsgRejectTx{}, 3: &localtxsubmission.MsgDone{}},
	},
	{
		name: "localtxmonitor", fromCbor: localtxmonitor.NewMsgFromCbor,
		gens: []func(r *Rand) (protocol.Message, error){
			func(r *Rand) (protocol.Message, error) { return okMsg(localtxmonitor.NewMsgDone()) },
			func(r *Rand) (protocol.Message, error) { return okMsg(localtxmonitor.NewMsgAcquire()) },
			func(r *Rand) (protocol.Message, error) { return okMsg(localtxmonitor.NewMsgAcquired(r.EdgeU64())) },
			func(r *Rand) (protocol.Message, error) { return okMsg(localtxmonitor.NewMsgRelease()) },
			func(r *Rand) (protocol.Message, error) { return okMsg(localtxmonitor.NewMsgNextTx()) },
			func(r *Rand) (protocol.Message, error) {
				return okMsg(localtxmonitor.NewMsgReplyNextTx(gU8(r), cA(cU(1), cB(r.Bytes(20))).bytes()))
			},
			func(r *Rand) (protocol.Message, error) { return okMsg(localtxmonitor.NewMsgHasTx(r.Bytes(32))) },
			func(r *Rand) (protocol.Message, error) { return okMsg(localtxmonitor.NewMsgReplyHasTx(r.Bool())) },
			func(r *Rand) (protocol.Message, error) { return okMsg(localtxmonitor.NewMsgGetSizes()) },
			func(r *Rand) (protocol.Message, error) {
				return okMsg(localtxmonitor.NewMsgReplyGetSizes(gU32(r), gU32(r), gU32(r)))
			},
		},
		types: map[uint]protocol.Message{0: &localtxmonitor.MsgDone{}, 1: &localtxmonitor.MsgAcquire{}, 2: &localtxmonitor.MsgAcquired{}, 3: &localtxmonitor.MsgRelease{}, 5: &localtxmonitor.MsgNextTx{},
			6: &localtxmonitor.MsgReplyNextTx{}, 7: &localtxmonitor.MsgHasTx{}, 8: &localtxmonitor.MsgReplyHasTx{}, 9: &localtxmonitor.MsgGetSizes{}, 10: &localtxmonitor.MsgReplyGetSizes{}},
	},
	{
		name: "localstatequery", fromCbor: localstatequery.NewMsgFromCbor,
		gens: []func(r *Rand) (protocol.Message, error){
			func(r *Rand) (protocol.Message, error) { return okMsg(localstatequery.NewMsgAcquire(gPoint(r))) },
			func(r *Rand) (protocol.Message, error) { return okMsg(localstatequery.NewMsgAcquireVolatileTip()) },
			func(r *Rand) (protocol.Message, error) { return okMsg(localstatequery.NewMsgAcquireImmutableTip()) },
			func(r *Rand) (protocol.Message, error) { return okMsg(localstatequery.NewMsgAcquired()) },
			func(r *Rand) (protocol.Message, error) { return okMsg(localstatequery.NewMsgFailure(gU8(r))) },
			func(r *Rand) (protocol.Message, error) {
				// the client passes the query as a generic list (buildQuery); it decodes into the typed query
				k := Pick(r, 1, 2, 3)
				return &c04Expect{localstatequery.NewMsgQuery([]any{k}), fmt.Sprintf("Query_(3,((%d)))", k)}, nil
			},
			func(r *Rand) (protocol.Message, error) { return okMsg(localstatequery.NewMsgResult(gRaw(r))) },
			func(r *Rand) (protocol.Message, error) { return okMsg(localstatequery.NewMsgRelease()) },
			func(r *Rand) (protocol.Message, error) { return okMsg(localstatequery.NewMsgReAcquire(gPoint(r))) },
			func(r *Rand) (protocol.Message, error) { return okMsg(localstatequery.NewMsgReAcquireVolatileTip()) },
			func(r *Rand) (protocol.Message, error) { return okMsg(localstatequery.NewMsgReAcquireImmutableTip()) },
			func(r *Rand) (protocol.Message, error) { return okMsg(localstatequery.NewMsgDone()) },
		},
		types: map[uint]protocol.Message{0: &localstatequery.MsgAcquire{}, 1: &localstatequery.MsgAcquired{}, 2: &localstatequery.MsgFailure{}, 3: &localstatequery.MsgQuery{}, 4: &localstatequery.MsgResult{},
			5: &localstatequery.MsgRelease{}, 6: &localstatequery.MsgReAcquire{}, 7: &localstatequery.MsgDone{}, 8: &localstatequery.MsgAcquireVolatileTip{}, 9: &localstatequery.MsgReAcquireVolatileTip{},
			10: &localstatequery.MsgAcquireImmutableTip{}, 11: &localstatequery.MsgReAcquireImmutableTip{}},
	},
	{
		name: "messagesubmission", fromCbor: messagesubmission.NewMsgFromCbor,
		gens: []func(r *Rand) (protocol.Message, error){
			func(r *Rand) (protocol.Message, error) { return okMsg(messagesubmission.NewMsgInit()) },
			func(r *Rand) (protocol.Message, error) {
				return okMsg(messagesubmission.NewMsgRequestMessageIds(r.Bool(), gU16(r), gU16(r)))
			},
			func(r *Rand) (protocol.Message, error) {
				n := r.Intn(4)
				ms := make([]pcommon.MessageIDAndSize, n)
				for i := range ms {
					ms[i] = pcommon.MessageIDAndSize{MessageID: r.Bytes(32), SizeInBytes: gU32(r)}
				}
				return okMsg(messagesubmission.NewMsgReplyMessageIds(ms))
			},
			func(r *Rand) (protocol.Message, error) {
				n := r.Intn(4)
				ids := make([][]byte, n)
				for i := range ids {
					ids[i] = r.Bytes(32)
				}
				return okMsg(messagesubmission.NewMsgRequestMessages(ids))
			},
			func(r *Rand) (protocol.Message, error) { return okMsg(messagesubmission.NewMsgReplyMessages(gDmqs(r))) },
			func(r *Rand) (protocol.Message, error) { return okMsg(messagesubmission.NewMsgDone()) },
		},
		types: map[uint]protocol.Message{0: &messagesubmission.MsgInit{}, 1: &messagesubmission.MsgRequestMessageIds{}, 2: &messagesubmission.MsgReplyMessageIds{}, 3: &messagesubmission.MsgRequestMessages{},
			4: &messagesubmission.MsgReplyMessages{}, 5: &messagesubmission.MsgDone{}},
	},
	{
		name: "localmessagesubmission", fromCbor: localmessagesubmission.NewMsgFromCbor,
		gens: []func(r *Rand) (protocol.Message, error){
			func(r *Rand) (protocol.Message, error) {
				return okMsg(localmessagesubmission.NewMsgSubmitMessage(gDmq(r)))
			},
			func(r *Rand) (protocol.Message, error) { return okMsg(localmessagesubmission.NewMsgAcceptMessage()) },
			func(r *Rand) (protocol.Message, error) {
				var rr pcommon.RejectReason
				switch r.Intn(4) {
				case 0:
					rr = pcommon.InvalidReason{Message: "bad sig"}
				case 1:
					rr = pcommon.AlreadyReceivedReason{}
				case 2:
					rr = pcommon.ExpiredReason{}
				default:
					rr = pcommon.OtherReason{Message: "other"}
				}
				m, err := localmessagesubmission.NewMsgRejectMessage(rr)
				return m, err
			},
			func(r *Rand) (protocol.Message, error) { return okMsg(localmessagesubmission.NewMsgDone()) },
		},
		types: map[uint]protocol.Message{0: &localmessagesubmission.MsgSubmitMessage{}, 1: &localmessagesubmission.MsgAcceptMessage{}, 2: &localmessagesubmission.MsgRejectMessage{}, 3: &localmessagesubmission.MsgDone{}},
	},
	{
		name: "localmessagenotification", fromCbor: localmessagenotification.NewMsgFromCbor,
		gens: []func(r *Rand) (protocol.Message, error){
			func(r *Rand) (protocol.Message, error) {
				return okMsg(localmessagenotification.NewMsgRequestMessages(r.Bool()))
			},
			func(r *Rand) (protocol.Message, error) {
				return okMsg(localmessagenotification.NewMsgReplyMessagesNonBlocking(gDmqs(r), r.Bool()))
			},
			func(r *Rand) (protocol.Message, error) {
				return okMsg(localmessagenotification.NewMsgReplyMessagesBlocking(gDmqs(r)))
			},
			func(r *Rand) (protocol.Message, error) { return okMsg(localmessagenotification.NewMsgClientDone()) },
		},
		types: map[uint]protocol.Message{0: &localmessagenotification.MsgRequestMessages{}, 1: &localmessagenotification.MsgReplyMessagesNonBlocking{}, 2: &localmessagenotification.MsgReplyMessagesBlocking{}, 3: &localmessagenotification.MsgClientDone{}},
	},
	{
		name: "leiosfetch", fromCbor: leiosfetch.NewMsgFromCbor,
		gens: []func(r *Rand) (protocol.Message, error){
			func(r *Rand) (protocol.Message, error) { return okMsg(leiosfetch.NewMsgBlockRequest(gPoint(r))) },
			func(r *Rand) (protocol.Message, error) { return okMsg(leiosfetch.NewMsgBlock(gRaw(r))) },
			func(r *Rand) (protocol.Message, error) {
				return okMsg(leiosfetch.NewMsgBlockTxsRequest(gPoint(r), map[uint16]uint64{gU16(r): r.EdgeU64(), 3: 5}))
			},
			func(r *Rand) (protocol.Message, error) { return okMsg(leiosfetch.NewMsgBlockTxs(gRaws(r))) },
			func(r *Rand) (protocol.Message, error) {
				return okMsg(leiosfetch.NewMsgBlockTxsFull(gPoint(r), map[uint16]uint64{gU16(r): r.EdgeU64()}, gRaws(r)))
			},
			func(r *Rand) (protocol.Message, error) {
				return okMsg(leiosfetch.NewMsgVotesRequest([]leiosfetch.MsgVotesRequestVoteId{{SlotNo: r.EdgeU64(), VoterId: r.EdgeU64()}}))
			},
			func(r *Rand) (protocol.Message, error) { return okMsg(leiosfetch.NewMsgVotes(gRaws(r))) },
			func(r *Rand) (protocol.Message, error) {
				return okMsg(leiosfetch.NewMsgBlockRangeRequest(gPoint(r), gPoint(r)))
			},
			func(r *Rand) (protocol.Message, error) {
				return okMsg(leiosfetch.NewMsgNextBlockAndTxsInRange(gRaw(r), gRaws(r)))
			},
			func(r *Rand) (protocol.Message, error) {
				return okMsg(leiosfetch.NewMsgLastBlockAndTxsInRange(gRaw(r), gRaws(r)))
			},
			func(r *Rand) (protocol.Message, error) { return okMsg(leiosfetch.NewMsgDone()) },
			func(r *Rand) (protocol.Message, error) { return okMsg(leiosfetch.NewMsgNoBlock()) },
			func(r *Rand) (protocol.Message, error) { return okMsg(leiosfetch.NewMsgNoBlockTxs()) },
		},
		types: map[uint]protocol.Message{0: &leiosfetch.MsgBlockRequest{}, 1: &leiosfetch.MsgBlock{}, 2: &leiosfetch.MsgBlockTxsRequest{}, 3: &leiosfetch.MsgBlockTxs{}, 4: &leiosfetch.MsgVotesRequest{}, 5: &leiosfetch.MsgVotes{},
			6: &leiosfetch.MsgBlockRangeRequest{}, 7: &leiosfetch.MsgLastBlockAndTxsInRange{}, 8: &leiosfetch.MsgNextBlockAndTxsInRange{}, 9: &leiosfetch.MsgDone{}, 10: &leiosfetch.MsgNoBlock{}, 11: &leiosfetch.MsgNoBlockTxs{}},
	},
	{
		name: "leiosnotify", fromCbor: leiosnotify.NewMsgFromCbor,
		gens: []func(r *Rand) (protocol.Message, error){
			func(r *Rand) (protocol.Message, error) { return okMsg(leiosnotify.NewMsgNotificationRequestNext()) },
			func(r *Rand) (protocol.Message, error) { return okMsg(leiosnotify.NewMsgBlockAnnouncement(gRaw(r))) },
			func(r *Rand) (protocol.Message, error) {
				return okMsg(leiosnotify.NewMsgBlockOffer(gPoint(r), r.EdgeU64()))
			},
			func(r *Rand) (protocol.Message, error) { return okMsg(leiosnotify.NewMsgBlockTxsOffer(gPoint(r))) },
			func(r *Rand) (protocol.Message, error) {
				return okMsg(leiosnotify.NewMsgVotesOffer([]leiosnotify.MsgVotesOfferVote{{SlotNo: r.EdgeU64(), VoterId: r.EdgeU64()}}))
			},
			func(r *Rand) (protocol.Message, error) { return okMsg(leiosnotify.NewMsgDone()) },
		},
		types: map[uint]protocol.Message{0: &leiosnotify.MsgNotificationRequestNext{}, 1: &leiosnotify.MsgBlockAnnouncement{}, 2: &leiosnotify.MsgBlockOffer{}, 3: &leiosnotify.MsgBlockTxsOffer{}, 4: &leiosnotify.MsgVotesOffer{}, 5: &leiosnotify.MsgDone{}},
	},
	{
		name: "leiosvotes", fromCbor: leiosvotes.NewMsgFromCbor,
		gens: []func(r *Rand) (protocol.Message, error){
			func(r *Rand) (protocol.Message, error) { return okMsg(leiosvotes.NewMsgVotesRequestNext(r.EdgeU64())) },
			func(r *Rand) (protocol.Message, error) {
				v := lcommon.LeiosVote{SlotNo: r.EdgeU64(), VoterId: r.EdgeU64(), VoteSignature: r.Bytes(48)}
				copy(v.EndorserBlockHash[:], r.Bytes(32))
				return okMsg(leiosvotes.NewMsgVote(v))
			},
			func(r *Rand) (protocol.Message, error) { return okMsg(leiosvotes.NewMsgDone()) },
		},
		types: map[uint]protocol.Message{0: &leiosvotes.MsgVotesRequestNext{}, 1: &leiosvotes.MsgVote{}, 2: &leiosvotes.MsgDone{}},
	},
}

func chainsyncCommonGens() []func(r *Rand) (protocol.Message, error) {
	return []func(r *Rand) (protocol.Message, error){
		func(r *Rand) (protocol.Message, error) { return okMsg(chainsync.NewMsgRequestNext()) },
		func(r *Rand) (protocol.Message, error) { return okMsg(chainsync.NewMsgAwaitReply()) },
		func(r *Rand) (protocol.Message, error) {
			return okMsg(chainsync.NewMsgRollBackward(gPoint(r), gTip(r)))
		},
		func(r *Rand) (protocol.Message, error) {
			n := r.Intn(5)
			ps := make([]pcommon.Point, n)
			for i := range ps {
				ps[i] = gPoint(r)
			}
			return okMsg(chainsync.NewMsgFindIntersect(ps))
		},
		func(r *Rand) (protocol.Message, error) {
			return okMsg(chainsync.NewMsgIntersectFound(gPoint(r), gTip(r)))
		},
		func(r *Rand) (protocol.Message, error) { return okMsg(chainsync.NewMsgIntersectNotFound(gTip(r))) },
		func(r *Rand) (protocol.Message, error) { return okMsg(chainsync.NewMsgDone()) },
	}
}

func c04ProtoByName(n string) *c04Proto {
	for _, p := range c04Protos {
		if p.name == n {
			return p
		}
	}
	return nil
}

// ---- canonical rendering by reflection

var (
	tRawMessage = reflect.TypeOf(cbor.RawMessage{})
	tStoreCbor  = reflect.TypeOf(cbor.DecodeStoreCbor{})
	tAsArray    = reflect.TypeOf(cbor.StructAsArray{})
)

func renderVal(v reflect.Value) string {
	switch v.Kind() {
	case reflect.Ptr, reflect.Interface:
		if v.IsNil() {
			return "nil"
		}
		return renderVal(v.Elem())
	case reflect.Uint8, reflect.Uint16, reflect.Uint32, reflect.Uint64, reflect.Uint:
		return fmt.Sprint(v.Uint())
	case reflect.Int8, reflect.Int16, reflect.Int32, reflect.Int64, reflect.Int:
		return fmt.Sprint(v.Int())
	case reflect.Bool:
		if v.Bool() {
			return "T"
		}
		return "F"
	case reflect.String:
		return "s" + fmt.Sprintf("%x", v.String())
	case reflect.Slice, reflect.Array:
		if v.Type() == tRawMessage {
			return "r" + fmt.Sprintf("%x", v.Bytes())
		}
		if v.Type().Elem().Kind() == reflect.Uint8 {
			b := make([]byte, v.Len())
			for i := range b {
				b[i] = byte(v.Index(i).Uint())
			}
			return "h" + fmt.Sprintf("%x", b)
		}
		parts := make([]string, v.Len())
		for i := range parts {
			parts[i] = renderVal(v.Index(i))
		}
		return "[" + strings.Join(parts, ",") + "]"
	case reflect.Map:
		parts := []string{}
		it := v.MapRange()
		for it.Next() {
			parts = append(parts, renderVal(it.Key())+":"+renderVal(it.Value()))
		}
		sort.Slice(parts, func(a, b int) bool {
			if len(parts[a]) != len(parts[b]) {
				return len(parts[a]) < len(parts[b])
			}
			return parts[a] < parts[b]
		})
		return "{" + strings.Join(parts, ",") + "}"
	case reflect.Struct:
		parts := []string{}
		renderFields(v, &parts)
		return "(" + strings.Join(parts, ",") + ")"
	}
	return "?" + v.Kind().String()
}

func renderFields(v reflect.Value, parts *[]string) {
	t := v.Type()
	for i := 0; i < t.NumField(); i++ {
		f := t.Field(i)
		if f.Type == tStoreCbor || f.Type == tAsArray {
			continue
		}
		if f.Anonymous && f.Type.Kind() == reflect.Struct {
			renderFields(v.Field(i), parts)
			continue
		}
		if !f.IsExported() || f.Tag.Get("cbor") == "-" {
			continue
		}
		*parts = append(*parts, renderVal(v.Field(i)))
	}
}

func renderMsg(m protocol.Message) string {
	return strings.TrimPrefix(tname(m), "Msg") + " " + renderVal(reflect.ValueOf(m))
}

// c04Receive mirrors protocol.go's receive path
func c04Receive(p *c04Proto, b []byte) (protocol.Message, error) {
	tmp := []cbor.RawMessage{}
	if _, err := cbor.Decode(b, &tmp); err != nil {
		return nil, err
	}
	if len(tmp) == 0 {
		return nil, fmt.Errorf("empty message")
	}
	var msgType uint
	if _, err := cbor.Decode(tmp[0], &msgType); err != nil {
		return nil, err
	}
	m, err := p.fromCbor(msgType, b)
	if err != nil {
		return nil, err
	}
	if m == nil || reflect.ValueOf(m).IsNil() {
		return nil, fmt.Errorf("unknown message type")
	}
	return m, nil
}

// ---- generation

// shape mutations of a valid encoding
func c04Mutate(r *Rand, t *cnode) []byte {
	t = t.clone()
	other := func(k *cnode) *cnode {
		// a node of a different kind than k
		for {
			c := Pick(r, cU(uint64(r.Intn(300))), cB(r.Bytes(r.Intn(5))), cT("ab"), cA(), cA(cU(1)), cM(), cBool(r.Bool()), cNull(), cNeg(uint64(r.Intn(5))), cU(1<<63+5), cU(70000), cU(300))
			if c.major != k.major || (c.major == 0 && c.n != k.n) {
				return c
			}
		}
	}
	// all array nodes (message body, points, tips, nested structs, lists)
	arrays := []*cnode{}
	t.walk(func(k *cnode) {
		if k.major == 4 {
			arrays = append(arrays, k)
		}
	})
	switch r.Intn(9) {
	case 8: // a tag number in front of a field / list / the whole message (not a shape the type allows,
		// except #6.24 on byte fields); built-in tags 0..3 (content checked by fxamacker) are not used
		k := t.nth(r.Intn(t.count()))
		inner := k.clone()
		*k = *cTag(uint64(Pick(r, 6, 24, 30, 100, 258, 259, 1000, 55799)), inner)
	case 0: // arity +1 somewhere
		a := arrays[r.Intn(len(arrays))]
		a.kids = append(a.kids, Pick(r, cU(0), cB([]byte{1}), cA(), cNull()))
	case 1: // arity -1 somewhere
		a := arrays[r.Intn(len(arrays))]
		if len(a.kids) > 0 {
			a.kids = a.kids[:len(a.kids)-1]
		} else {
			a.kids = append(a.kids, cU(1))
		}
	case 2, 3: // field kind swapped
		a := arrays[r.Intn(len(arrays))]
		if len(a.kids) > 0 {
			i := r.Intn(len(a.kids))
			a.kids[i] = other(a.kids[i])
		} else {
			a.kids = []*cnode{cU(1), cU(2), cU(3)}
		}
	case 4: // points: 1- and 3-element lists in place of any 0/2-element list
		cands := []*cnode{}
		for _, a := range arrays[1:] {
			if len(a.kids) == 0 || len(a.kids) == 2 {
				cands = append(cands, a)
			}
		}
		if len(cands) == 0 {
			t.kids = append(t.kids, cA(cU(1), cU(2), cU(3)))
		} else {
			a := cands[r.Intn(len(cands))]
			if r.Bool() {
				a.kids = []*cnode{cU(uint64(r.Intn(1000)))}
			} else {
				a.kids = []*cnode{cU(uint64(r.Intn(1000))), cB(r.Bytes(32)), Pick(r, cU(3), cB(nil), cA())}
			}
		}
	case 5: // wrong / unknown type id
		if len(t.kids) > 0 {
			t.kids[0] = Pick(r, cU(uint64(r.Intn(14))), cU(99), cNeg(0), cB([]byte{0}), cU(256), cNull())
		}
	case 6: // header forms re-chosen (still the same shape): must still decode
		t.reform(r, 1, 2, false)
	case 7: // the top-level item is not a list
		return Pick(r, cU(0), cM(cU(0), cU(1)), cB([]byte{0x80}), cNull()).bytes()
	}
	return t.bytes()
}

func genC04(r *Rand, n int, tier string, emit func(string)) {
	i := 0
	for i < n {
		for _, p := range c04Protos {
			for _, g := range p.gens {
				m, err := g(r)
				if err != nil || m == nil {
					continue
				}
				exp := ""
				if e, ok := m.(*c04Expect); ok {
					m, exp = e.Message, e.render
				} else {
					exp = strings.ReplaceAll(renderMsg(m), " ", "_")
				}
				b, err := cbor.Encode(m)
				if err != nil {
					continue
				}
				emit(fmt.Sprintf("rt %s %s %s", p.name, hexs(b), exp))
				i++
				t, rest, perr := cparse(b)
				if perr != nil || len(rest) != 0 || t.major != 4 {
					continue
				}
				for k := 0; k < 3; k++ {
					emit(fmt.Sprintf("mut %s %s", p.name, hexs(c04Mutate(r, t))))
					i++
				}
			}
		}
	}
}

func runC04(op string) string {
	f := strings.Fields(op)
	if len(f) < 3 || (f[0] != "rt" && f[0] != "mut") {
		return "bad-op"
	}
	p := c04ProtoByName(f[1])
	b, ok := unhex(f[2])
	if p == nil || !ok {
		return "bad-op"
	}
	m, err := c04Receive(p, b)
	if err != nil {
		return "err"
	}
	return "ok " + strings.ReplaceAll(renderMsg(m), " ", "_")
}
