package main

// C07 — transaction byte offsets point at the decoded components.
//
// op:  blk <era> <form-vector description (informational)> <hex of the block>
// out: S=<ranges|err> E=<ranges|err> cmp=<ok|nodec|bad:...> X=<witness component ranges|err>
//   X  = per transaction "D<o>+<l>,..;R<tag>.<index>@<o>+<l>,..;S<o>+<l>,.." (datums and scripts
//        sorted by offset, redeemers by key; "-" when the transaction has none), "|"-separated
//
//   S = StreamingBlockDecoder.DecodeWithOffsets (what NewBlockFromCborWithOffsets reports)
//   E = ExtractTransactionOffsets
//   ranges = "<ntx>" then per transaction "|B<o>+<l> W<o>+<l> M<o>+<l> O<o>+<l>,<o>+<l>..."
//   cmp = the reported ranges slice out exactly Cbor() of the decoded body /
//         witness set / outputs / auxiliary data (third leg of the three-way
//         comparison; the Lean model supplies the second: its own ranges).
//
// The generator re-encodes the real blocks of every era with a per-container
// header-form vector (minimal, 1/2/4/8-byte length, indefinite; non-minimal
// integer keys).

import (
	"bytes"
	"fmt"
	"reflect"
	"sort"
	"strings"
	"time"

	"github.com/blinklabs-io/gouroboros/ledger"
	"github.com/blinklabs-io/gouroboros/ledger/common"
)

func init() {
	// generous per-op deadline: verdicts must not depend on machine load
	register(&Prop{ID: "C07", Gen: genC07, Run: runC07, Timeout: 3 * time.Minute})
	synthDijkstraAccepts = func(b []byte) bool {
		_, err := ledger.NewBlockFromCbor(eraBlockType["dijkstra"], b, common.VerifyConfig{SkipBodyHashValidation: true})
		return err == nil
	}
}

var c07Forms = []string{"w1", "w2", "w4", "w8", "indef", "min"}

// containers lists the array/map nodes (and, optionally, other nodes) with their paths.
type pathNode struct {
	path string
	n    *bnode
}

func collect(root *bnode, maxDepth int, pred func(*bnode) bool) []pathNode {
	var out []pathNode
	var rec func(n *bnode, path string, d int)
	rec = func(n *bnode, path string, d int) {
		if pred(n) {
			out = append(out, pathNode{path, n})
		}
		if d >= maxDepth {
			return
		}
		for i, k := range n.kids {
			p := fmt.Sprintf("%s.%d", path, i)
			if path == "" {
				p = fmt.Sprint(i)
			}
			rec(k, p, d+1)
		}
	}
	rec(root, "", 0)
	return out
}

func isContainer(n *bnode) bool { return n.major == 4 || n.major == 5 }

// c07Block re-encodes fixture `era` after applying the form vector; returns op line.
func c07Op(era string, root *bnode, desc []string) string {
	d := strings.Join(desc, ",")
	if d == "" {
		d = "orig"
	}
	if len(d) > 200 {
		d = d[:200] + "..."
	}
	return fmt.Sprintf("blk %s %s %s", era, d, hexs(root.bytes()))
}

func genC07(r *Rand, n int, tier string, emit func(string)) {
	fx, err := fixtures()
	if err != nil {
		emit("fixture-error " + err.Error())
		return
	}
	// 1. every real block unchanged, and with each form on the top-level array
	count := 0
	for _, f := range fx {
		root, err := parseCborAll(f.data)
		if err != nil {
			emit("fixture-error " + f.era + " " + err.Error())
			continue
		}
		emit(c07Op(f.era, root, nil))
		count++
		for _, form := range c07Forms[:5] {
			root, _ := parseCborAll(f.data)
			root.setForm(form)
			emit(c07Op(f.era, root, []string{"top:" + form}))
			count++
		}
	}
	// 2. random single / pair / many substitutions
	for count < n {
		f := fx[r.Intn(len(fx))]
		root, _ := parseCborAll(f.data)
		var desc []string
		mode := r.Intn(11)
		switch {
		case mode == 10: // metadata key that is not a transaction index (>= 2^32): must not be attributed to a transaction
			md := root.kid(3)
			if f.era == "byron" || f.era == "dijkstra" || md == nil || md.major != 5 || len(md.kids) == 0 {
				continue
			}
			k := md.kids[2*r.Intn(len(md.kids)/2)]
			if k.major != 0 {
				continue
			}
			k.arg += uint64(1+r.Intn(3)) << 32
			k.width = 8
			desc = append(desc, "metakey+2^32")
		case mode < 4: // one container, shallow
			cs := collect(root, Pick(r, 1, 2, 2, 3, 3, 4), isContainer)
			c := cs[r.Intn(len(cs))]
			form := c07Forms[r.Intn(5)]
			c.n.setForm(form)
			desc = append(desc, c.path+":"+form)
		case mode < 6: // two containers
			cs := collect(root, Pick(r, 2, 3, 4, 5), isContainer)
			for k := 0; k < 2; k++ {
				c := cs[r.Intn(len(cs))]
				form := c07Forms[r.Intn(5)]
				c.n.setForm(form)
				desc = append(desc, c.path+":"+form)
			}
		case mode < 8: // every container up to a depth gets a random form with probability p
			depth := Pick(r, 2, 3, 4, 6, 8)
			den := Pick(r, 1, 2, 4, 8)
			for _, c := range collect(root, depth, isContainer) {
				if r.Chance(1, den) {
					form := c07Forms[r.Intn(6)]
					c.n.setForm(form)
					if len(desc) < 12 {
						desc = append(desc, c.path+":"+form)
					}
				}
			}
			desc = append(desc, fmt.Sprintf("many(d%d,1/%d)", depth, den))
		case mode < 9: // one uniform form for all containers up to a depth
			depth := Pick(r, 1, 2, 3, 4, 5, 6)
			form := c07Forms[r.Intn(5)]
			for _, c := range collect(root, depth, isContainer) {
				c.n.setForm(form)
			}
			desc = append(desc, fmt.Sprintf("all(d%d):%s", depth, form))
		default: // non-minimal integers (map keys, counts) and strings
			depth := Pick(r, 3, 4, 5, 6)
			cs := collect(root, depth, func(n *bnode) bool { return n.major <= 3 })
			k := 1 + r.Intn(6)
			for i := 0; i < k && len(cs) > 0; i++ {
				c := cs[r.Intn(len(cs))]
				form := c07Forms[r.Intn(4)]
				if c.n.major >= 2 && r.Chance(1, 3) {
					form = "indef"
				}
				c.n.setForm(form)
				desc = append(desc, fmt.Sprintf("%s:m%d%s", c.path, c.n.major, form))
			}
		}
		emit(c07Op(f.era, root, desc))
		count++
	}
}

func fmtRange(r common.ByteRange) string { return fmt.Sprintf("%d+%d", r.Offset, r.Length) }

func fmtOffsets(o *common.BlockTransactionOffsets, err error) string {
	if err != nil || o == nil {
		return "err"
	}
	var sb strings.Builder
	fmt.Fprintf(&sb, "%d", len(o.Transactions))
	for _, t := range o.Transactions {
		fmt.Fprintf(&sb, "|B%s W%s M%s O", fmtRange(t.Body), fmtRange(t.Witness), fmtRange(t.Metadata))
		for j, out := range t.Outputs {
			if j > 0 {
				sb.WriteByte(',')
			}
			sb.WriteString(fmtRange(out))
		}
	}
	return sb.String()
}

type cborer interface{ Cbor() []byte }

// fieldCbor returns Cbor() of the (addressable) struct field `name` of *tx.
func fieldCbor(tx any, name string) ([]byte, bool) {
	v := reflect.ValueOf(tx)
	if v.Kind() != reflect.Pointer || v.Elem().Kind() != reflect.Struct {
		return nil, false
	}
	f := v.Elem().FieldByName(name)
	if !f.IsValid() {
		return nil, false
	}
	if f.Kind() == reflect.Slice && f.Type().Elem().Kind() == reflect.Uint8 {
		return f.Bytes(), true
	}
	if !f.CanAddr() || !f.CanInterface() {
		return nil, false
	}
	if c, ok := f.Addr().Interface().(cborer); ok {
		return c.Cbor(), true
	}
	return nil, false
}

func sliceRange(data []byte, r common.ByteRange) []byte {
	end := uint64(r.Offset) + uint64(r.Length)
	if end > uint64(len(data)) {
		return nil
	}
	return data[r.Offset:end]
}

// rawMetadataOf returns the stored auxiliary-data bytes of transaction idx.
func rawMetadataOf(blk common.Block, tx common.Transaction, idx int) ([]byte, bool) {
	v := reflect.ValueOf(blk)
	if v.Kind() == reflect.Pointer && v.Elem().Kind() == reflect.Struct {
		f := v.Elem().FieldByName("TransactionMetadataSet")
		if f.IsValid() && f.CanAddr() {
			if ms, ok := f.Addr().Interface().(*common.TransactionMetadataSet); ok {
				raw, ok := ms.GetRawMetadata(uint(idx))
				return raw, ok
			}
		}
	}
	if aux := tx.AuxiliaryData(); aux != nil {
		if c, ok := aux.(cborer); ok {
			return c.Cbor(), true
		}
	}
	return nil, false
}

// compareOffsets: first component whose reported range does not slice out the decoded component's bytes.
func compareOffsets(tag string, data []byte, o *common.BlockTransactionOffsets, blk common.Block) string {
	if o == nil {
		return ""
	}
	txs := blk.Transactions()
	if len(txs) != len(o.Transactions) {
		return fmt.Sprintf("%s:ntx%d/%d", tag, len(o.Transactions), len(txs))
	}
	for i, tx := range txs {
		loc := o.Transactions[i]
		if body, ok := fieldCbor(tx, "Body"); ok && body != nil {
			if !bytes.Equal(sliceRange(data, loc.Body), body) {
				return fmt.Sprintf("%s:tx%d.body", tag, i)
			}
		}
		wit, ok := fieldCbor(tx, "WitnessSet")
		if !ok {
			wit, ok = fieldCbor(tx, "twitCbor")
		}
		if ok && wit != nil {
			if !bytes.Equal(sliceRange(data, loc.Witness), wit) {
				return fmt.Sprintf("%s:tx%d.wit", tag, i)
			}
		}
		if raw, ok := rawMetadataOf(blk, tx, i); ok && len(raw) > 0 {
			if !bytes.Equal(sliceRange(data, loc.Metadata), raw) {
				return fmt.Sprintf("%s:tx%d.meta", tag, i)
			}
		} else if loc.Metadata.Length != 0 {
			// a range is reported although the decoded transaction has no auxiliary data
			return fmt.Sprintf("%s:tx%d.meta-spurious", tag, i)
		}
		outs := tx.Outputs()
		if len(loc.Outputs) != len(outs) {
			return fmt.Sprintf("%s:tx%d.nout%d/%d", tag, i, len(loc.Outputs), len(outs))
		}
		for j, out := range outs {
			oc := out.Cbor()
			if oc == nil {
				continue
			}
			if !bytes.Equal(sliceRange(data, loc.Outputs[j]), oc) {
				return fmt.Sprintf("%s:tx%d.out%d", tag, i, j)
			}
		}
	}
	return ""
}

func runC07(op string) string {
	f := strings.Fields(op)
	if len(f) != 4 || f[0] != "blk" {
		return "bad-op"
	}
	bt, ok := eraBlockType[f[1]]
	data, ok2 := unhex(f[3])
	if !ok || !ok2 {
		return "bad-op"
	}
	var so *common.BlockTransactionOffsets
	var serr error
	if dec, err := common.NewStreamingBlockDecoder(data); err != nil {
		serr = err
	} else {
		so, serr = dec.DecodeWithOffsets()
	}
	eo, eerr := common.ExtractTransactionOffsets(data)
	cmp := "ok"
	blk, err := ledger.NewBlockFromCbor(bt, data, common.VerifyConfig{SkipBodyHashValidation: true})
	if err != nil {
		cmp = "nodec"
	} else {
		var bad []string
		if serr == nil {
			if m := compareOffsets("S", data, so, blk); m != "" {
				bad = append(bad, m)
			}
		} else {
			bad = append(bad, "S:err")
		}
		if eerr == nil {
			if m := compareOffsets("E", data, eo, blk); m != "" {
				bad = append(bad, m)
			} else if m := g10bCompareComponents("E", data, eo, blk); m != "" {
				bad = append(bad, m)
			}
		} else {
			bad = append(bad, "E:err")
		}
		sort.Strings(bad)
		if len(bad) > 0 {
			cmp = "bad:" + strings.Join(bad, ";")
		}
	}
	return fmt.Sprintf("S=%s E=%s cmp=%s X=%s", fmtOffsets(so, serr), fmtOffsets(eo, eerr), cmp, g10bFmtComponents(eo, eerr))
}

func g10bSortedRanges(rs []common.ByteRange) string {
	sort.Slice(rs, func(i, j int) bool {
		if rs[i].Offset != rs[j].Offset {
			return rs[i].Offset < rs[j].Offset
		}
		return rs[i].Length < rs[j].Length
	})
	parts := make([]string, len(rs))
	for i, r := range rs {
		parts[i] = fmtRange(r)
	}
	return strings.Join(parts, ",")
}

// g10bFmtComponents prints the datum / redeemer / script ranges of every transaction.
func g10bFmtComponents(o *common.BlockTransactionOffsets, err error) string {
	if err != nil || o == nil {
		return "err"
	}
	txs := make([]string, len(o.Transactions))
	for i, t := range o.Transactions {
		if len(t.Datums) == 0 && len(t.Redeemers) == 0 && len(t.Scripts) == 0 {
			txs[i] = "-"
			continue
		}
		var ds, ss []common.ByteRange
		for _, r := range t.Datums {
			ds = append(ds, r)
		}
		for _, r := range t.Scripts {
			ss = append(ss, r)
		}
		keys := make([]common.RedeemerKey, 0, len(t.Redeemers))
		for k := range t.Redeemers {
			keys = append(keys, k)
		}
		sort.Slice(keys, func(a, b int) bool {
			if keys[a].Tag != keys[b].Tag {
				return keys[a].Tag < keys[b].Tag
			}
			return keys[a].Index < keys[b].Index
		})
		rs := make([]string, len(keys))
		for j, k := range keys {
			rs[j] = fmt.Sprintf("%d.%d@%s", k.Tag, k.Index, fmtRange(t.Redeemers[k]))
		}
		txs[i] = "D" + g10bSortedRanges(ds) + ";R" + strings.Join(rs, ",") + ";S" + g10bSortedRanges(ss)
	}
	if len(txs) == 0 {
		return "none"
	}
	return strings.Join(txs, "|")
}

// g10bCompareComponents: every reported datum / redeemer / script range must slice out the
// bytes of a decoded component that has the reported key.
func g10bCompareComponents(tag string, data []byte, o *common.BlockTransactionOffsets, blk common.Block) string {
	if o == nil {
		return ""
	}
	txs := blk.Transactions()
	if len(txs) != len(o.Transactions) {
		return ""
	}
	// a script key that matches no decoded script is reported only if nothing else is
	// wrong in the whole block (it is the recorded finding class `script-key`)
	scriptKey := ""
	for i, tx := range txs {
		loc := o.Transactions[i]
		ws := tx.Witnesses()
		if ws == nil {
			if len(loc.Datums)+len(loc.Redeemers)+len(loc.Scripts) > 0 {
				return fmt.Sprintf("%s:tx%d.nowit", tag, i)
			}
			continue
		}
		for h, r := range loc.Datums {
			sl := sliceRange(data, r)
			ok := false
			for _, d := range ws.PlutusData() {
				if bytes.Equal(d.Cbor(), sl) && sl != nil {
					ok = true
				}
			}
			if !ok || sum256(sl) != h {
				return fmt.Sprintf("%s:tx%d.datum", tag, i)
			}
		}
		for k, r := range loc.Redeemers {
			sl := sliceRange(data, r)
			ok := false
			if reds := ws.Redeemers(); reds != nil {
				for rk, rv := range reds.Iter() {
					if rk.Tag == k.Tag && rk.Index == k.Index && sl != nil && bytes.Equal(rv.Data.Cbor(), sl) {
						ok = true
					}
				}
			}
			if !ok {
				return fmt.Sprintf("%s:tx%d.redeemer", tag, i)
			}
		}
		if len(loc.Scripts) > 0 {
			have := map[common.ScriptHash]bool{}
			for _, sc := range ws.NativeScripts() {
				have[sc.Hash()] = true
			}
			for _, sc := range ws.PlutusV1Scripts() {
				have[sc.Hash()] = true
			}
			for _, sc := range ws.PlutusV2Scripts() {
				have[sc.Hash()] = true
			}
			for _, sc := range ws.PlutusV3Scripts() {
				have[sc.Hash()] = true
			}
			if w4, ok := ws.(common.TransactionWitnessSetWithPlutusV4); ok {
				for _, sc := range w4.PlutusV4Scripts() {
					have[sc.Hash()] = true
				}
			}
			for h, r := range loc.Scripts {
				if sliceRange(data, r) == nil {
					return fmt.Sprintf("%s:tx%d.script-range", tag, i)
				}
				if !have[h] && scriptKey == "" {
					scriptKey = fmt.Sprintf("%s:tx%d.script-key", tag, i)
				}
			}
		}
	}
	return scriptKey
}
