package main

// Helpers shared by the g9 properties (C05, C06, C29, C31): hand-written CBOR
// encoding (independent of the library under test) and Blake2b via x/crypto.

import (
	"errors"
	"strings"

	"golang.org/x/crypto/blake2b"

	"github.com/blinklabs-io/gouroboros/ledger/common"
)

// g9Head: CBOR head in shortest form.
func g9Head(major byte, n uint64) []byte {
	switch {
	case n < 24:
		return []byte{major<<5 | byte(n)}
	case n < 1<<8:
		return []byte{major<<5 | 24, byte(n)}
	case n < 1<<16:
		return []byte{major<<5 | 25, byte(n >> 8), byte(n)}
	case n < 1<<32:
		return []byte{major<<5 | 26, byte(n >> 24), byte(n >> 16), byte(n >> 8), byte(n)}
	default:
		return []byte{major<<5 | 27, byte(n >> 56), byte(n >> 48), byte(n >> 40), byte(n >> 32), byte(n >> 24), byte(n >> 16), byte(n >> 8), byte(n)}
	}
}

// g9HeadW: head with an explicit width (0 = immediate, 1,2,4,8 bytes).
func g9HeadW(major byte, n uint64, w int) []byte {
	if w == 0 {
		return []byte{major<<5 | byte(n)}
	}
	ai := map[int]byte{1: 24, 2: 25, 4: 26, 8: 27}[w]
	out := []byte{major<<5 | ai}
	for i := w - 1; i >= 0; i-- {
		out = append(out, byte(n>>(8*uint(i))))
	}
	return out
}

func g9Uint(n uint64) []byte { return g9Head(0, n) }
func g9Bytes(b []byte) []byte {
	return append(g9Head(2, uint64(len(b))), b...)
}
func g9Array(items ...[]byte) []byte {
	out := g9Head(4, uint64(len(items)))
	for _, it := range items {
		out = append(out, it...)
	}
	return out
}
func g9IndefArray(items ...[]byte) []byte {
	out := []byte{0x9f}
	for _, it := range items {
		out = append(out, it...)
	}
	return append(out, 0xff)
}

// g9Map: pairs in the given order (no sorting).
func g9Map(kv ...[]byte) []byte {
	out := g9Head(5, uint64(len(kv)/2))
	for _, x := range kv {
		out = append(out, x...)
	}
	return out
}

func g9Blake224(b []byte) []byte {
	h, _ := blake2b.New(28, nil)
	h.Write(b)
	return h.Sum(nil)
}

func g9Blake256(b []byte) []byte {
	h := blake2b.Sum256(b)
	return h[:]
}

func g9SplitList(s string) []string {
	if s == "-" || s == "" {
		return nil
	}
	return strings.Split(s, ",")
}

func g9SafeRule(rule common.UtxoValidationRuleFunc, tx common.Transaction, slot uint64, ls common.LedgerState, pp common.ProtocolParameters) (err error) {
	defer func() {
		if e := recover(); e != nil {
			err = errors.New("rule panicked")
		}
	}()
	return rule(tx, slot, ls, pp)
}
