package main

// Registry of every mini-protocol / mode / role of gouroboros, used by the
// StateMaps dump (C16) and by the engine drivers (C11, C12, C14, C16).
//
// Each entry builds the REAL client or server object of the protocol package
// (so that whatever the constructor does to the state map — copied base map,
// timeout overrides, state context — is what we read) and exposes its embedded
// *protocol.Protocol through the verif accessors.

import (
	"fmt"
	"net"
	"sort"
	"time"

	"github.com/blinklabs-io/gouroboros/cbor"
	lcommon "github.com/blinklabs-io/gouroboros/ledger/common"
	"github.com/blinklabs-io/gouroboros/muxer"
	"github.com/blinklabs-io/gouroboros/protocol"
	"github.com/blinklabs-io/gouroboros/protocol/blockfetch"
	"github.com/blinklabs-io/gouroboros/protocol/chainsync"
	pcommon "github.com/blinklabs-io/gouroboros/protocol/common"
	"github.com/blinklabs-io/gouroboros/protocol/handshake"
	"github.com/blinklabs-io/gouroboros/protocol/keepalive"
	"github.com/blinklabs-io/gouroboros/protocol/leiosfetch"
	"github.com/blinklabs-io/gouroboros/protocol/leiosnotify"
	"github.com/blinklabs-io/gouroboros/protocol/leiosvotes"
	"github.com/blinklabs-io/gouroboros/protocol/localmessagenotification"
	"github.com/blinklabs-io/gouroboros/protocol/localmessagesubmission"
	"github.com/blinklabs-io/gouroboros/protocol/localstatequery"
	"github.com/blinklabs-io/gouroboros/protocol/localtxmonitor"
	"github.com/blinklabs-io/gouroboros/protocol/localtxsubmission"
	"github.com/blinklabs-io/gouroboros/protocol/messagesubmission"
	"github.com/blinklabs-io/gouroboros/protocol/peersharing"
	"github.com/blinklabs-io/gouroboros/protocol/txsubmission"
)

// g3Sample is one symbol of a protocol's alphabet: a message type plus the
// value of the field a MatchFunc looks at (variant 0 when there is none).
type g3Sample struct {
	Type    uint8
	Variant int
	Label   string
	Make    func() protocol.Message
}

type g3Proto struct {
	Name    string // e.g. "chainsync-ntn"
	Mode    protocol.ProtocolMode
	Version uint16
	// Build constructs the real client (role=client) or server object and
	// returns its embedded engine.
	Build   func(role protocol.ProtocolRole, opts protocol.ProtocolOptions) *protocol.Protocol
	Samples []g3Sample
}

// g3RawMsg is a message of a type the implementation has no Go type for (used for
// specification messages that the implementation lacks): its CBOR is given verbatim.
type g3RawMsg struct {
	t    uint8
	data []byte
}

func (m *g3RawMsg) SetCbor(b []byte)             { m.data = b }
func (m *g3RawMsg) Cbor() []byte                 { return m.data }
func (m *g3RawMsg) Type() uint8                  { return m.t }
func (m *g3RawMsg) MarshalCBOR() ([]byte, error) { return m.data, nil }

func g3Raw(t uint8, label string, v any) g3Sample {
	return g3Sample{Type: t, Variant: 0, Label: label, Make: func() protocol.Message {
		return &g3RawMsg{t: t, data: must(cbor.Encode(v))}
	}}
}

func g3pt() pcommon.Point {
	h := make([]byte, 32)
	for i := range h {
		h[i] = byte(i + 1)
	}
	return pcommon.NewPoint(42, h)
}

func g3tip() pcommon.Tip { return pcommon.Tip{Point: g3pt(), BlockNumber: 7} }

func s0(t uint8, label string, mk func() protocol.Message) g3Sample {
	return g3Sample{Type: t, Variant: 0, Label: label, Make: mk}
}

func must[T any](v T, err error) T {
	if err != nil {
		panic(err)
	}
	return v
}

// g3FromCbor builds a message through the protocol's own decoder (used where a
// constructor needs content that is awkward to build by hand).
func g3FromCbor(f protocol.MessageFromCborFunc, t uint, v any) func() protocol.Message {
	return func() protocol.Message {
		data := must(cbor.Encode(v))
		return must(f(t, data))
	}
}

func g3DmqMessage() pcommon.DmqMessage {
	return pcommon.DmqMessage{
		MessageID: make([]byte, 32),
		Payload: pcommon.DmqMessagePayload{
			MessageID:   make([]byte, 32),
			MessageBody: []byte{1, 2, 3},
			KESPeriod:   1,
			ExpiresAt:   4102444800,
		},
		KESSignature: make([]byte, 448),
		OperationalCertificate: pcommon.OperationalCertificate{
			KESVerificationKey: make([]byte, 32),
			IssueNumber:        1,
			KESPeriod:          1,
			ColdSignature:      make([]byte, 64),
		},
		ColdVerificationKey: make([]byte, 32),
	}
}

func g3Vote() lcommon.LeiosVote {
	return lcommon.LeiosVote{SlotNo: 1, VoterId: 2, VoteSignature: make([]byte, lcommon.LeiosBlsSignatureSize)}
}

func g3VersionMapNtN() protocol.ProtocolVersionMap {
	return protocol.GetProtocolVersionMap(protocol.ProtocolModeNodeToNode, 764824073, false, false, false)
}

func g3VersionMapNtC() protocol.ProtocolVersionMap {
	return protocol.GetProtocolVersionMap(protocol.ProtocolModeNodeToClient, 764824073, false, false, false)
}

func g3Protocols() []g3Proto {
	ntn := protocol.ProtocolModeNodeToNode
	ntc := protocol.ProtocolModeNodeToClient
	hsSamples := func(vm func() protocol.ProtocolVersionMap) []g3Sample {
		return []g3Sample{
			s0(handshake.MessageTypeProposeVersions, "ProposeVersions", func() protocol.Message { return handshake.NewMsgProposeVersions(vm()) }),
			s0(handshake.MessageTypeAcceptVersion, "AcceptVersion", func() protocol.Message {
				m := vm()
				vs := []int{}
				for v := range m {
					vs = append(vs, int(v))
				}
				sort.Ints(vs)
				v := uint16(vs[len(vs)-1])
				return handshake.NewMsgAcceptVersion(v, m[v])
			}),
			s0(handshake.MessageTypeRefuse, "Refuse", func() protocol.Message {
				return handshake.NewMsgRefuse([]any{uint64(0), []any{uint64(1)}})
			}),
			s0(handshake.MessageTypeQueryReply, "QueryReply", func() protocol.Message { return handshake.NewMsgQueryReply(vm()) }),
		}
	}
	csSamples := func(mode protocol.ProtocolMode) []g3Sample {
		rf := func() protocol.Message {
			if mode == ntn {
				// era 1 (shelley) header bytes are opaque to the message codec
				return must(chainsync.NewMsgRollForwardNtN(1, 0, []byte{0x82, 0x01, 0x02}, g3tip()))
			}
			return must(chainsync.NewMsgRollForwardNtC(1, []byte{0x82, 0x01, 0x02}, g3tip()))
		}
		return []g3Sample{
			s0(chainsync.MessageTypeRequestNext, "RequestNext", func() protocol.Message { return chainsync.NewMsgRequestNext() }),
			s0(chainsync.MessageTypeAwaitReply, "AwaitReply", func() protocol.Message { return chainsync.NewMsgAwaitReply() }),
			s0(chainsync.MessageTypeRollForward, "RollForward", rf),
			s0(chainsync.MessageTypeRollBackward, "RollBackward", func() protocol.Message { return chainsync.NewMsgRollBackward(g3pt(), g3tip()) }),
			s0(chainsync.MessageTypeFindIntersect, "FindIntersect", func() protocol.Message { return chainsync.NewMsgFindIntersect([]pcommon.Point{g3pt()}) }),
			s0(chainsync.MessageTypeIntersectFound, "IntersectFound", func() protocol.Message { return chainsync.NewMsgIntersectFound(g3pt(), g3tip()) }),
			s0(chainsync.MessageTypeIntersectNotFound, "IntersectNotFound", func() protocol.Message { return chainsync.NewMsgIntersectNotFound(g3tip()) }),
			s0(chainsync.MessageTypeDone, "Done", func() protocol.Message { return chainsync.NewMsgDone() }),
		}
	}
	msgSubSamples := []g3Sample{
		s0(messagesubmission.MessageTypeInit, "Init", func() protocol.Message { return messagesubmission.NewMsgInit() }),
		{messagesubmission.MessageTypeRequestMessageIds, 1, "RequestMessageIds/blocking", func() protocol.Message { return messagesubmission.NewMsgRequestMessageIds(true, 0, 1) }},
		{messagesubmission.MessageTypeRequestMessageIds, 0, "RequestMessageIds/nonblocking", func() protocol.Message { return messagesubmission.NewMsgRequestMessageIds(false, 0, 1) }},
		s0(messagesubmission.MessageTypeReplyMessageIds, "ReplyMessageIds", func() protocol.Message {
			return messagesubmission.NewMsgReplyMessageIds([]pcommon.MessageIDAndSize{{MessageID: make([]byte, 32), SizeInBytes: 10}})
		}),
		s0(messagesubmission.MessageTypeRequestMessages, "RequestMessages", func() protocol.Message { return messagesubmission.NewMsgRequestMessages([][]byte{make([]byte, 32)}) }),
		s0(messagesubmission.MessageTypeReplyMessages, "ReplyMessages", func() protocol.Message { return messagesubmission.NewMsgReplyMessages([]pcommon.DmqMessage{g3DmqMessage()}) }),
		s0(messagesubmission.MessageTypeDone, "Done", func() protocol.Message { return messagesubmission.NewMsgDone() }),
	}
	return []g3Proto{
		{
			Name: "handshake-ntn", Mode: ntn,
			Build: func(role protocol.ProtocolRole, o protocol.ProtocolOptions) *protocol.Protocol {
				cfg := handshake.NewConfig(handshake.WithProtocolVersionMap(g3VersionMapNtN()))
				if role == protocol.ProtocolRoleClient {
					return handshake.NewClient(o, &cfg).Protocol
				}
				return handshake.NewServer(o, &cfg).Protocol
			},
			Samples: hsSamples(g3VersionMapNtN),
		},
		{
			Name: "handshake-ntc", Mode: ntc,
			Build: func(role protocol.ProtocolRole, o protocol.ProtocolOptions) *protocol.Protocol {
				cfg := handshake.NewConfig(handshake.WithProtocolVersionMap(g3VersionMapNtC()))
				if role == protocol.ProtocolRoleClient {
					return handshake.NewClient(o, &cfg).Protocol
				}
				return handshake.NewServer(o, &cfg).Protocol
			},
			Samples: hsSamples(g3VersionMapNtC),
		},
		{
			Name: "chainsync-ntn", Mode: ntn,
			Build: func(role protocol.ProtocolRole, o protocol.ProtocolOptions) *protocol.Protocol {
				cfg := chainsync.NewConfig()
				if role == protocol.ProtocolRoleClient {
					return chainsync.NewClient(o, &cfg).Protocol
				}
				return chainsync.NewServer(o, &cfg).Protocol
			},
			Samples: csSamples(ntn),
		},
		{
			Name: "chainsync-ntc", Mode: ntc,
			Build: func(role protocol.ProtocolRole, o protocol.ProtocolOptions) *protocol.Protocol {
				cfg := chainsync.NewConfig()
				if role == protocol.ProtocolRoleClient {
					return chainsync.NewClient(o, &cfg).Protocol
				}
				return chainsync.NewServer(o, &cfg).Protocol
			},
			Samples: csSamples(ntc),
		},
		{
			Name: "blockfetch", Mode: ntn,
			Build: func(role protocol.ProtocolRole, o protocol.ProtocolOptions) *protocol.Protocol {
				cfg := must(blockfetch.NewConfig())
				if role == protocol.ProtocolRoleClient {
					return blockfetch.NewClient(o, &cfg).Protocol
				}
				return blockfetch.NewServer(o, &cfg).Protocol
			},
			Samples: []g3Sample{
				s0(blockfetch.MessageTypeRequestRange, "RequestRange", func() protocol.Message { return blockfetch.NewMsgRequestRange(g3pt(), g3pt()) }),
				s0(blockfetch.MessageTypeClientDone, "ClientDone", func() protocol.Message { return blockfetch.NewMsgClientDone() }),
				s0(blockfetch.MessageTypeStartBatch, "StartBatch", func() protocol.Message { return blockfetch.NewMsgStartBatch() }),
				s0(blockfetch.MessageTypeNoBlocks, "NoBlocks", func() protocol.Message { return blockfetch.NewMsgNoBlocks() }),
				s0(blockfetch.MessageTypeBlock, "Block", func() protocol.Message { return blockfetch.NewMsgBlock([]byte{0x82, 0x01, 0x02}) }),
				s0(blockfetch.MessageTypeBatchDone, "BatchDone", func() protocol.Message { return blockfetch.NewMsgBatchDone() }),
			},
		},
		{
			Name: "txsubmission", Mode: ntn,
			Build: func(role protocol.ProtocolRole, o protocol.ProtocolOptions) *protocol.Protocol {
				cfg := txsubmission.NewConfig()
				if role == protocol.ProtocolRoleClient {
					return txsubmission.NewClient(o, &cfg).Protocol
				}
				return txsubmission.NewServer(o, &cfg).Protocol
			},
			Samples: []g3Sample{
				{txsubmission.MessageTypeRequestTxIds, 1, "RequestTxIds/blocking", func() protocol.Message { return txsubmission.NewMsgRequestTxIds(true, 0, 1) }},
				{txsubmission.MessageTypeRequestTxIds, 0, "RequestTxIds/nonblocking", func() protocol.Message { return txsubmission.NewMsgRequestTxIds(false, 0, 1) }},
				s0(txsubmission.MessageTypeReplyTxIds, "ReplyTxIds", func() protocol.Message {
					return txsubmission.NewMsgReplyTxIds([]txsubmission.TxIdAndSize{{TxId: txsubmission.TxId{EraId: 5}, Size: 10}})
				}),
				s0(txsubmission.MessageTypeRequestTxs, "RequestTxs", func() protocol.Message { return txsubmission.NewMsgRequestTxs([]txsubmission.TxId{{EraId: 5}}) }),
				s0(txsubmission.MessageTypeReplyTxs, "ReplyTxs", func() protocol.Message {
					return txsubmission.NewMsgReplyTxs([]txsubmission.TxBody{{EraId: 5, TxBody: []byte{0x80}}})
				}),
				s0(txsubmission.MessageTypeDone, "Done", func() protocol.Message { return txsubmission.NewMsgDone() }),
				s0(txsubmission.MessageTypeInit, "Init", func() protocol.Message { return txsubmission.NewMsgInit() }),
			},
		},
		{
			Name: "keepalive", Mode: ntn,
			Build: func(role protocol.ProtocolRole, o protocol.ProtocolOptions) *protocol.Protocol {
				cfg := keepalive.NewConfig()
				if role == protocol.ProtocolRoleClient {
					return keepalive.NewClient(o, &cfg).Protocol
				}
				return keepalive.NewServer(o, &cfg).Protocol
			},
			Samples: []g3Sample{
				s0(keepalive.MessageTypeKeepAlive, "KeepAlive", func() protocol.Message { return keepalive.NewMsgKeepAlive(7) }),
				s0(keepalive.MessageTypeKeepAliveResponse, "KeepAliveResponse", func() protocol.Message { return keepalive.NewMsgKeepAliveResponse(7) }),
				s0(keepalive.MessageTypeDone, "Done", func() protocol.Message { return keepalive.NewMsgDone() }),
			},
		},
		{
			Name: "peersharing", Mode: ntn,
			Build: func(role protocol.ProtocolRole, o protocol.ProtocolOptions) *protocol.Protocol {
				cfg := peersharing.NewConfig()
				if role == protocol.ProtocolRoleClient {
					return peersharing.NewClient(o, &cfg).Protocol
				}
				return peersharing.NewServer(o, &cfg).Protocol
			},
			Samples: []g3Sample{
				s0(peersharing.MessageTypeShareRequest, "ShareRequest", func() protocol.Message { return peersharing.NewMsgShareRequest(3) }),
				s0(peersharing.MessageTypeSharePeers, "SharePeers", func() protocol.Message {
					return peersharing.NewMsgSharePeers([]peersharing.PeerAddress{{IP: net.IPv4(1, 2, 3, 4), Port: 3001}})
				}),
				s0(peersharing.MessageTypeDone, "Done", func() protocol.Message { return peersharing.NewMsgDone() }),
			},
		},
		{
			Name: "localtxsubmission", Mode: ntc,
			Build: func(role protocol.ProtocolRole, o protocol.ProtocolOptions) *protocol.Protocol {
				cfg := localtxsubmission.NewConfig()
				if role == protocol.ProtocolRoleClient {
					return localtxsubmission.NewClient(o, &cfg).Protocol
				}
				return localtxsubmission.NewServer(o, &cfg).Protocol
			},
			Samples: []g3Sample{
				s0(localtxsubmission.MessageTypeSubmitTx, "SubmitTx", func() protocol.Message { return localtxsubmission.NewMsgSubmitTx(5, []byte{0x80}) }),
				s0(localtxsubmission.MessageTypeAcceptTx, "AcceptTx", func() protocol.Message { return localtxsubmission.NewMsgAcceptTx() }),
				s0(localtxsubmission.MessageTypeRejectTx, "RejectTx", func() protocol.Message { return localtxsubmission.NewMsgRejectTx([]byte{0x80}) }),
				s0(localtxsubmission.MessageTypeDone, "Done", func() protocol.Message { return localtxsubmission.NewMsgDone() }),
			},
		},
		{
			Name: "localtxmonitor", Mode: ntc,
			Build: func(role protocol.ProtocolRole, o protocol.ProtocolOptions) *protocol.Protocol {
				cfg := localtxmonitor.NewConfig()
				if role == protocol.ProtocolRoleClient {
					return localtxmonitor.NewClient(o, &cfg).Protocol
				}
				return localtxmonitor.NewServer(o, &cfg).Protocol
			},
			Samples: []g3Sample{
				s0(localtxmonitor.MessageTypeDone, "Done", func() protocol.Message { return localtxmonitor.NewMsgDone() }),
				s0(localtxmonitor.MessageTypeAcquire, "Acquire", func() protocol.Message { return localtxmonitor.NewMsgAcquire() }),
				s0(localtxmonitor.MessageTypeAcquired, "Acquired", func() protocol.Message { return localtxmonitor.NewMsgAcquired(42) }),
				s0(localtxmonitor.MessageTypeRelease, "Release", func() protocol.Message { return localtxmonitor.NewMsgRelease() }),
				s0(localtxmonitor.MessageTypeNextTx, "NextTx", func() protocol.Message { return localtxmonitor.NewMsgNextTx() }),
				s0(localtxmonitor.MessageTypeReplyNextTx, "ReplyNextTx", func() protocol.Message { return localtxmonitor.NewMsgReplyNextTx(5, []byte{0x80}) }),
				s0(localtxmonitor.MessageTypeHasTx, "HasTx", func() protocol.Message { return localtxmonitor.NewMsgHasTx(make([]byte, 32)) }),
				s0(localtxmonitor.MessageTypeReplyHasTx, "ReplyHasTx", func() protocol.Message { return localtxmonitor.NewMsgReplyHasTx(true) }),
				s0(localtxmonitor.MessageTypeGetSizes, "GetSizes", func() protocol.Message { return localtxmonitor.NewMsgGetSizes() }),
				s0(localtxmonitor.MessageTypeReplyGetSizes, "ReplyGetSizes", func() protocol.Message { return localtxmonitor.NewMsgReplyGetSizes(100, 10, 1) }),
			},
		},
		{
			Name: "localtxmonitor-v20", Mode: ntc, Version: 0x8000 + 20,
			Build: func(role protocol.ProtocolRole, o protocol.ProtocolOptions) *protocol.Protocol {
				cfg := localtxmonitor.NewConfig()
				if role == protocol.ProtocolRoleClient {
					return localtxmonitor.NewClient(o, &cfg).Protocol
				}
				return localtxmonitor.NewServer(o, &cfg).Protocol
			},
			Samples: []g3Sample{
				s0(localtxmonitor.MessageTypeDone, "Done", func() protocol.Message { return localtxmonitor.NewMsgDone() }),
				s0(localtxmonitor.MessageTypeAcquire, "Acquire", func() protocol.Message { return localtxmonitor.NewMsgAcquire() }),
				s0(localtxmonitor.MessageTypeAcquired, "Acquired", func() protocol.Message { return localtxmonitor.NewMsgAcquired(42) }),
				s0(localtxmonitor.MessageTypeRelease, "Release", func() protocol.Message { return localtxmonitor.NewMsgRelease() }),
				s0(localtxmonitor.MessageTypeNextTx, "NextTx", func() protocol.Message { return localtxmonitor.NewMsgNextTx() }),
				s0(localtxmonitor.MessageTypeReplyNextTx, "ReplyNextTx", func() protocol.Message { return localtxmonitor.NewMsgReplyNextTx(5, []byte{0x80}) }),
				s0(localtxmonitor.MessageTypeHasTx, "HasTx", func() protocol.Message { return localtxmonitor.NewMsgHasTx(make([]byte, 32)) }),
				s0(localtxmonitor.MessageTypeReplyHasTx, "ReplyHasTx", func() protocol.Message { return localtxmonitor.NewMsgReplyHasTx(true) }),
				s0(localtxmonitor.MessageTypeGetSizes, "GetSizes", func() protocol.Message { return localtxmonitor.NewMsgGetSizes() }),
				s0(localtxmonitor.MessageTypeReplyGetSizes, "ReplyGetSizes", func() protocol.Message { return localtxmonitor.NewMsgReplyGetSizes(100, 10, 1) }),
				// NodeToClientV_20 and later: MsgGetMeasures / MsgReplyGetMeasures of the specification;
				// the implementation has no such message types
				g3Raw(11, "GetMeasures", []any{uint64(11)}),
				g3Raw(12, "ReplyGetMeasures", []any{uint64(12), uint64(1), map[string][]uint64{"size": {10, 100}}}),
			},
		},
		{
			Name: "localstatequery", Mode: ntc,
			Build: func(role protocol.ProtocolRole, o protocol.ProtocolOptions) *protocol.Protocol {
				cfg := localstatequery.NewConfig()
				if role == protocol.ProtocolRoleClient {
					return localstatequery.NewClient(o, &cfg).Protocol
				}
				return localstatequery.NewServer(o, &cfg).Protocol
			},
			Samples: []g3Sample{
				s0(localstatequery.MessageTypeAcquire, "Acquire", func() protocol.Message { return localstatequery.NewMsgAcquire(g3pt()) }),
				s0(localstatequery.MessageTypeAcquired, "Acquired", func() protocol.Message { return localstatequery.NewMsgAcquired() }),
				s0(localstatequery.MessageTypeFailure, "Failure", func() protocol.Message { return localstatequery.NewMsgFailure(0) }),
				s0(localstatequery.MessageTypeQuery, "Query", func() protocol.Message { return localstatequery.NewMsgQuery([]any{uint64(1)}) }),
				s0(localstatequery.MessageTypeResult, "Result", func() protocol.Message { return localstatequery.NewMsgResult([]byte{0x80}) }),
				s0(localstatequery.MessageTypeRelease, "Release", func() protocol.Message { return localstatequery.NewMsgRelease() }),
				s0(localstatequery.MessageTypeReacquire, "ReAcquire", func() protocol.Message { return localstatequery.NewMsgReAcquire(g3pt()) }),
				s0(localstatequery.MessageTypeDone, "Done", func() protocol.Message { return localstatequery.NewMsgDone() }),
				s0(localstatequery.MessageTypeAcquireVolatileTip, "AcquireVolatileTip", func() protocol.Message { return localstatequery.NewMsgAcquireVolatileTip() }),
				s0(localstatequery.MessageTypeReacquireVolatileTip, "ReAcquireVolatileTip", func() protocol.Message { return localstatequery.NewMsgReAcquireVolatileTip() }),
				s0(localstatequery.MessageTypeAcquireImmutableTip, "AcquireImmutableTip", func() protocol.Message { return localstatequery.NewMsgAcquireImmutableTip() }),
				s0(localstatequery.MessageTypeReacquireImmutableTip, "ReAcquireImmutableTip", func() protocol.Message { return localstatequery.NewMsgReAcquireImmutableTip() }),
			},
		},
		{
			Name: "messagesubmission-v1", Mode: ntn, Version: 0,
			Build: func(role protocol.ProtocolRole, o protocol.ProtocolOptions) *protocol.Protocol {
				cfg := messagesubmission.NewConfig()
				if role == protocol.ProtocolRoleClient {
					return messagesubmission.NewClient(o, &cfg).Protocol
				}
				return messagesubmission.NewServer(o, &cfg).Protocol
			},
			Samples: msgSubSamples,
		},
		{
			Name: "messagesubmission-v2", Mode: ntn, Version: messagesubmission.MessageSubmissionV2MinVersion,
			Build: func(role protocol.ProtocolRole, o protocol.ProtocolOptions) *protocol.Protocol {
				cfg := messagesubmission.NewConfig()
				if role == protocol.ProtocolRoleClient {
					return messagesubmission.NewClient(o, &cfg).Protocol
				}
				return messagesubmission.NewServer(o, &cfg).Protocol
			},
			Samples: msgSubSamples,
		},
		{
			Name: "localmessagesubmission", Mode: ntc,
			Build: func(role protocol.ProtocolRole, o protocol.ProtocolOptions) *protocol.Protocol {
				cfg := localmessagesubmission.NewConfig()
				if role == protocol.ProtocolRoleClient {
					return localmessagesubmission.NewClient(o, &cfg).Protocol
				}
				return localmessagesubmission.NewServer(o, &cfg).Protocol
			},
			Samples: []g3Sample{
				s0(localmessagesubmission.MessageTypeSubmitMessage, "SubmitMessage", func() protocol.Message { return localmessagesubmission.NewMsgSubmitMessage(g3DmqMessage()) }),
				s0(localmessagesubmission.MessageTypeAcceptMessage, "AcceptMessage", func() protocol.Message { return localmessagesubmission.NewMsgAcceptMessage() }),
				s0(localmessagesubmission.MessageTypeRejectMessage, "RejectMessage", func() protocol.Message {
					return must(localmessagesubmission.NewMsgRejectMessage(pcommon.InvalidReason{Message: "x"}))
				}),
				s0(localmessagesubmission.MessageTypeDone, "Done", func() protocol.Message { return localmessagesubmission.NewMsgDone() }),
			},
		},
		{
			Name: "localmessagenotification", Mode: ntc,
			Build: func(role protocol.ProtocolRole, o protocol.ProtocolOptions) *protocol.Protocol {
				cfg := localmessagenotification.NewConfig()
				if role == protocol.ProtocolRoleClient {
					return localmessagenotification.NewClient(o, &cfg).Protocol
				}
				return localmessagenotification.NewServer(o, &cfg).Protocol
			},
			Samples: []g3Sample{
				{localmessagenotification.MessageTypeRequestMessages, 1, "RequestMessages/blocking", func() protocol.Message { return localmessagenotification.NewMsgRequestMessages(true) }},
				{localmessagenotification.MessageTypeRequestMessages, 0, "RequestMessages/nonblocking", func() protocol.Message { return localmessagenotification.NewMsgRequestMessages(false) }},
				s0(localmessagenotification.MessageTypeReplyMessagesNonBlocking, "ReplyMessagesNonBlocking", func() protocol.Message {
					return localmessagenotification.NewMsgReplyMessagesNonBlocking([]pcommon.DmqMessage{g3DmqMessage()}, false)
				}),
				s0(localmessagenotification.MessageTypeReplyMessagesBlocking, "ReplyMessagesBlocking", func() protocol.Message {
					return localmessagenotification.NewMsgReplyMessagesBlocking([]pcommon.DmqMessage{g3DmqMessage()})
				}),
				s0(localmessagenotification.MessageTypeClientDone, "ClientDone", func() protocol.Message { return localmessagenotification.NewMsgClientDone() }),
			},
		},
		{
			Name: "leiosnotify", Mode: ntn,
			Build: func(role protocol.ProtocolRole, o protocol.ProtocolOptions) *protocol.Protocol {
				cfg := leiosnotify.NewConfig()
				if role == protocol.ProtocolRoleClient {
					return leiosnotify.NewClient(o, &cfg).Protocol
				}
				return leiosnotify.NewServer(o, &cfg).Protocol
			},
			Samples: []g3Sample{
				s0(leiosnotify.MessageTypeNotificationRequestNext, "RequestNext", func() protocol.Message { return leiosnotify.NewMsgNotificationRequestNext() }),
				s0(leiosnotify.MessageTypeBlockAnnouncement, "BlockAnnouncement", func() protocol.Message { return leiosnotify.NewMsgBlockAnnouncement(cbor.RawMessage{0x82, 0x01, 0x02}) }),
				s0(leiosnotify.MessageTypeBlockOffer, "BlockOffer", func() protocol.Message { return leiosnotify.NewMsgBlockOffer(g3pt(), 100) }),
				s0(leiosnotify.MessageTypeBlockTxsOffer, "BlockTxsOffer", func() protocol.Message { return leiosnotify.NewMsgBlockTxsOffer(g3pt()) }),
				s0(leiosnotify.MessageTypeVotesOffer, "VotesOffer", func() protocol.Message {
					return leiosnotify.NewMsgVotesOffer([]leiosnotify.MsgVotesOfferVote{{SlotNo: 1, VoterId: 2}})
				}),
				s0(leiosnotify.MessageTypeDone, "Done", func() protocol.Message { return leiosnotify.NewMsgDone() }),
			},
		},
		{
			Name: "leiosfetch", Mode: ntn,
			Build: func(role protocol.ProtocolRole, o protocol.ProtocolOptions) *protocol.Protocol {
				cfg := leiosfetch.NewConfig()
				if role == protocol.ProtocolRoleClient {
					return leiosfetch.NewClient(o, &cfg).Protocol
				}
				return leiosfetch.NewServer(o, &cfg).Protocol
			},
			Samples: []g3Sample{
				s0(leiosfetch.MessageTypeBlockRequest, "BlockRequest", func() protocol.Message { return leiosfetch.NewMsgBlockRequest(g3pt()) }),
				s0(leiosfetch.MessageTypeBlock, "Block", func() protocol.Message { return leiosfetch.NewMsgBlock(cbor.RawMessage{0x82, 0x01, 0x02}) }),
				s0(leiosfetch.MessageTypeBlockTxsRequest, "BlockTxsRequest", func() protocol.Message {
					return leiosfetch.NewMsgBlockTxsRequest(g3pt(), map[uint16]uint64{0: 1})
				}),
				s0(leiosfetch.MessageTypeBlockTxs, "BlockTxs", func() protocol.Message { return leiosfetch.NewMsgBlockTxs([]cbor.RawMessage{{0x80}}) }),
				s0(leiosfetch.MessageTypeVotesRequest, "VotesRequest", func() protocol.Message {
					return leiosfetch.NewMsgVotesRequest([]leiosfetch.MsgVotesRequestVoteId{{SlotNo: 1, VoterId: 2}})
				}),
				s0(leiosfetch.MessageTypeVotes, "Votes", func() protocol.Message { return leiosfetch.NewMsgVotes([]cbor.RawMessage{}) }),
				s0(leiosfetch.MessageTypeBlockRangeRequest, "BlockRangeRequest", func() protocol.Message { return leiosfetch.NewMsgBlockRangeRequest(g3pt(), g3pt()) }),
				s0(leiosfetch.MessageTypeLastBlockAndTxsInRange, "LastBlockAndTxsInRange", func() protocol.Message {
					return leiosfetch.NewMsgLastBlockAndTxsInRange(cbor.RawMessage{0x82, 0x01, 0x02}, []cbor.RawMessage{{0x80}})
				}),
				s0(leiosfetch.MessageTypeNextBlockAndTxsInRange, "NextBlockAndTxsInRange", func() protocol.Message {
					return leiosfetch.NewMsgNextBlockAndTxsInRange(cbor.RawMessage{0x82, 0x01, 0x02}, []cbor.RawMessage{{0x80}})
				}),
				s0(leiosfetch.MessageTypeDone, "Done", func() protocol.Message { return leiosfetch.NewMsgDone() }),
				s0(leiosfetch.MessageTypeNoBlock, "NoBlock", func() protocol.Message { return leiosfetch.NewMsgNoBlock() }),
				s0(leiosfetch.MessageTypeNoBlockTxs, "NoBlockTxs", func() protocol.Message { return leiosfetch.NewMsgNoBlockTxs() }),
			},
		},
		{
			Name: "leiosvotes", Mode: ntn,
			Build: func(role protocol.ProtocolRole, o protocol.ProtocolOptions) *protocol.Protocol {
				cfg := leiosvotes.NewConfig()
				if role == protocol.ProtocolRoleClient {
					return leiosvotes.NewClient(o, &cfg).Protocol
				}
				return leiosvotes.NewServer(o, &cfg).Protocol
			},
			Samples: []g3Sample{
				{leiosvotes.MessageTypeVotesRequestNext, 0, "RequestNext/0", func() protocol.Message { return leiosvotes.NewMsgVotesRequestNext(0) }},
				{leiosvotes.MessageTypeVotesRequestNext, 1, "RequestNext/1", func() protocol.Message { return leiosvotes.NewMsgVotesRequestNext(1) }},
				{leiosvotes.MessageTypeVotesRequestNext, 2, "RequestNext/2", func() protocol.Message { return leiosvotes.NewMsgVotesRequestNext(2) }},
				{leiosvotes.MessageTypeVotesRequestNext, 3, "RequestNext/3", func() protocol.Message { return leiosvotes.NewMsgVotesRequestNext(3) }},
				{leiosvotes.MessageTypeVotesRequestNext, 1001, "RequestNext/1001", func() protocol.Message { return leiosvotes.NewMsgVotesRequestNext(1001) }},
				s0(leiosvotes.MessageTypeVote, "Vote", func() protocol.Message { return leiosvotes.NewMsgVote(g3Vote()) }),
				s0(leiosvotes.MessageTypeDone, "Done", func() protocol.Message { return leiosvotes.NewMsgDone() }),
			},
		},
	}
}

func g3FindProto(name string) *g3Proto {
	for _, p := range g3Protocols() {
		if p.Name == name {
			pp := p
			return &pp
		}
	}
	return nil
}

func (p *g3Proto) sample(t uint8, variant int) *g3Sample {
	for i := range p.Samples {
		if p.Samples[i].Type == t && p.Samples[i].Variant == variant {
			return &p.Samples[i]
		}
	}
	return nil
}

// g3BuildDetached constructs the real client/server on a muxer over an
// in-memory pipe that is never started; used for reading configuration.
func (p *g3Proto) buildDetached(role protocol.ProtocolRole) (*protocol.Protocol, func()) {
	a, b := net.Pipe()
	m := muxer.New(a)
	opts := protocol.ProtocolOptions{
		Muxer:     m,
		ErrorChan: make(chan error, 16),
		Mode:      p.Mode,
		Role:      role,
		Version:   p.Version,
	}
	pr := p.Build(role, opts)
	return pr, func() {
		m.Stop()
		_ = a.Close()
		_ = b.Close()
	}
}

func g3RoleName(r protocol.ProtocolRole) string {
	if r == protocol.ProtocolRoleClient {
		return "client"
	}
	return "server"
}

func g3sortedStates(sm protocol.StateMap) []protocol.State {
	st := []protocol.State{}
	for s := range sm {
		st = append(st, s)
	}
	sort.Slice(st, func(i, j int) bool { return st[i].Id < st[j].Id })
	return st
}

var _ = fmt.Sprintf
var _ = time.Second
