package main

// C46 — DMQ message authentication. One op line is a history against one
// MessageAuthenticator: configuration actions and signed messages, each with at
// most one corrupted field. Keys and signatures are real (crypto/ed25519, the
// kes package, ledger.VerifyKesComponents as the injected verifier); the Lean
// model runs the same history over symbolic keys/signatures.
//
// op:  dmq <universe-seed-hex> <action> ; <action> ; ...
//   new | noop                                  constructor
//   ver <0 none|1 real|2 always-valid|3 always-invalid|4 error>
//   ins <0|1>      reg <i>      unreg <i>
//   m <cold i> <issue> <ocPeriod> <body b> <kp> <exp> <kes j> <t> <slot|-> <idmut> <cmut> <kmut>
// out: acc=<one bit per message> | <verdict{cache}> ... spk=<slotsPerKesPeriod>

import (
	"crypto/ed25519"
	"encoding/hex"
	"fmt"
	"io"
	"log/slog"
	"reflect"
	"sort"
	"strconv"
	"strings"
	"sync"
	"time"

	"github.com/blinklabs-io/gouroboros/cbor"
	"github.com/blinklabs-io/gouroboros/kes"
	"github.com/blinklabs-io/gouroboros/ledger"
	pcommon "github.com/blinklabs-io/gouroboros/protocol/common"
	"golang.org/x/crypto/blake2b"
)

func init() {
	register(&Prop{ID: "C46", Gen: genC46, Run: runC46, Timeout: 3 * time.Minute})
}

const c46Pools = 4
const c46Kes = 3

type c46Universe struct {
	cold    [c46Pools]ed25519.PrivateKey
	kesSeed [c46Kes][]byte
	kesVk   [c46Kes][]byte
	kesData [c46Kes][][]byte // evolution t -> SecretKey.Data snapshot
	poolIdx map[string]int
}

var c46Cache = struct {
	sync.Mutex
	m map[string]*c46Universe
}{m: map[string]*c46Universe{}}

func c46Derive(u []byte, tag string, i int) []byte {
	h := blake2b.Sum256(append(append([]byte{}, u...), []byte(fmt.Sprintf("/%s/%d", tag, i))...))
	return h[:]
}

func c46GetUniverse(useed []byte) *c46Universe {
	c46Cache.Lock()
	defer c46Cache.Unlock()
	if u, ok := c46Cache.m[string(useed)]; ok {
		return u
	}
	u := &c46Universe{poolIdx: map[string]int{}}
	for i := 0; i < c46Pools; i++ {
		u.cold[i] = ed25519.NewKeyFromSeed(c46Derive(useed, "cold", i))
		h := blake2b.Sum256(u.cold[i].Public().(ed25519.PublicKey))
		u.poolIdx[hex.EncodeToString(h[:])] = i
	}
	for j := 0; j < c46Kes; j++ {
		u.kesSeed[j] = c46Derive(useed, "kes", j)
		sk, vk, err := kes.KeyGen(kes.CardanoKesDepth, u.kesSeed[j])
		if err != nil {
			panic(err)
		}
		u.kesVk[j] = append([]byte{}, vk...)
		for t := 0; t < 64; t++ {
			u.kesData[j] = append(u.kesData[j], append([]byte{}, sk.Data...))
			if t < 63 {
				sk, err = kes.Update(sk)
				if err != nil {
					panic(err)
				}
			}
		}
	}
	if len(c46Cache.m) > 64 {
		c46Cache.m = map[string]*c46Universe{}
	}
	c46Cache.m[string(useed)] = u
	return u
}

func (u *c46Universe) poolID(i int) string {
	h := blake2b.Sum256(u.cold[i].Public().(ed25519.PublicKey))
	return hex.EncodeToString(h[:])
}

func (u *c46Universe) kesSign(j, t int, msg []byte) []byte {
	sk := &kes.SecretKey{Depth: kes.CardanoKesDepth, Period: uint64(t), Data: append([]byte{}, u.kesData[j][t]...)}
	sig, err := kes.Sign(sk, uint64(t), msg)
	if err != nil {
		panic(err)
	}
	return sig
}

func c46Payload(b int, kp uint64, exp uint32) pcommon.DmqMessagePayload {
	return pcommon.DmqMessagePayload{
		MessageBody: []byte(fmt.Sprintf("body-%d", b)),
		KESPeriod:   kp,
		ExpiresAt:   exp,
	}
}

func c46Wrapped(p pcommon.DmqMessagePayload) []byte {
	pc, err := cbor.Encode(p)
	if err != nil {
		panic(err)
	}
	w, err := cbor.Encode(pc)
	if err != nil {
		panic(err)
	}
	return w
}

func c46CacheDump(auth *pcommon.MessageAuthenticator, u *c46Universe) string {
	v := reflect.ValueOf(auth).Elem().FieldByName("kesOpCertCache")
	if !v.IsValid() || v.Kind() != reflect.Map {
		return "cache-field-missing"
	}
	var ent []string
	it := v.MapRange()
	for it.Next() {
		k := it.Key().String()
		n := it.Value().Uint()
		if i, ok := u.poolIdx[k]; ok {
			ent = append(ent, fmt.Sprintf("%d:%d", i, n))
		} else {
			ent = append(ent, fmt.Sprintf("?%s:%d", k[:8], n))
		}
	}
	sort.Strings(ent)
	return strings.Join(ent, ",")
}

func c46Spk(auth *pcommon.MessageAuthenticator) string {
	v := reflect.ValueOf(auth).Elem().FieldByName("slotsPerKesPeriod")
	if !v.IsValid() {
		return "?"
	}
	return strconv.FormatUint(v.Uint(), 10)
}

// ttl <durationNs> <nowUnix> <expiresAt> <disabled>: TTLValidator.ValidateMessageTTLAt
func g8RunTTL(f []string) string {
	if len(f) != 5 {
		return "bad-op"
	}
	d, e1 := strconv.ParseInt(f[1], 10, 64)
	now, e2 := strconv.ParseInt(f[2], 10, 64)
	exp, e3 := strconv.ParseUint(f[3], 10, 32)
	if e1 != nil || e2 != nil || e3 != nil || (f[4] != "0" && f[4] != "1") {
		return "bad-op"
	}
	logger := slog.New(slog.NewTextHandler(io.Discard, nil))
	v := pcommon.NewTTLValidator(time.Duration(d), logger)
	if f[4] == "1" {
		v = pcommon.NewNoOpTTLValidator(logger)
	}
	msg := &pcommon.DmqMessage{Payload: pcommon.DmqMessagePayload{ExpiresAt: uint32(exp)}}
	err := v.ValidateMessageTTLAt(msg, time.Unix(now, 0))
	switch {
	case err == nil:
		return "ttl=ok"
	case strings.Contains(err.Error(), "has expired"):
		return "ttl=expired"
	case strings.Contains(err.Error(), "too far in future"):
		return "ttl=toofar"
	}
	return "ttl=other"
}

func runC46(op string) string {
	if f := strings.Fields(op); len(f) > 0 && f[0] == "ttl" {
		return g8RunTTL(f)
	}
	parts := strings.Split(op, ";")
	head := strings.Fields(parts[0])
	if len(head) < 3 || head[0] != "dmq" {
		return "bad-op"
	}
	useed, ok := unhex(head[1])
	if !ok || len(useed) == 0 {
		return "bad-op"
	}
	u := c46GetUniverse(useed)
	logger := slog.New(slog.NewTextHandler(io.Discard, nil))
	var auth *pcommon.MessageAuthenticator
	acts := [][]string{head[2:]}
	for _, p := range parts[1:] {
		acts = append(acts, strings.Fields(p))
	}
	var bits strings.Builder
	var det []string
	for ai, a := range acts {
		if len(a) == 0 {
			return "bad-op"
		}
		if ai == 0 {
			switch a[0] {
			case "new":
				auth = pcommon.NewMessageAuthenticator(logger)
			case "noop":
				auth = pcommon.NewNoOpAuthenticator(logger)
			default:
				return "bad-op"
			}
			if len(a) != 1 {
				return "bad-op"
			}
			continue
		}
		switch a[0] {
		case "ver":
			if len(a) != 2 {
				return "bad-op"
			}
			switch a[1] {
			case "0":
				// there is no API to clear a verifier: a fresh authenticator has none
				return "bad-op"
			case "1":
				auth.SetKESVerifier(ledger.VerifyKesComponents)
			case "2":
				auth.SetKESVerifier(func([]byte, []byte, []byte, uint64, uint64, uint64) (bool, error) { return true, nil })
			case "3":
				auth.SetKESVerifier(func([]byte, []byte, []byte, uint64, uint64, uint64) (bool, error) { return false, nil })
			case "4":
				auth.SetKESVerifier(func([]byte, []byte, []byte, uint64, uint64, uint64) (bool, error) {
					return true, fmt.Errorf("verifier error")
				})
			default:
				return "bad-op"
			}
		case "ins":
			if len(a) != 2 || (a[1] != "0" && a[1] != "1") {
				return "bad-op"
			}
			auth.SetAllowInsecureKES(a[1] == "1")
		case "reg", "unreg":
			if len(a) != 2 {
				return "bad-op"
			}
			i, err := strconv.Atoi(a[1])
			if err != nil || i < 0 || i >= c46Pools {
				return "bad-op"
			}
			if a[0] == "reg" {
				auth.RegisterSPOPool(u.poolID(i))
			} else {
				auth.UnregisterSPOPool(u.poolID(i))
			}
		case "m":
			if len(a) != 13 {
				return "bad-op"
			}
			ci, e1 := strconv.Atoi(a[1])
			issue, e2 := strconv.ParseUint(a[2], 10, 64)
			ocp, e3 := strconv.ParseUint(a[3], 10, 64)
			body, e4 := strconv.Atoi(a[4])
			kp, e5 := strconv.ParseUint(a[5], 10, 64)
			exp, e6 := strconv.ParseUint(a[6], 10, 32)
			kj, e7 := strconv.Atoi(a[7])
			t, e8 := strconv.Atoi(a[8])
			var slot *uint64
			if a[9] != "-" {
				s, err := strconv.ParseUint(a[9], 10, 64)
				if err != nil {
					return "bad-op"
				}
				slot = &s
			}
			if e1 != nil || e2 != nil || e3 != nil || e4 != nil || e5 != nil || e6 != nil || e7 != nil || e8 != nil ||
				ci < 0 || ci >= c46Pools || kj < 0 || kj >= c46Kes-1 || t < 0 || t > 63 || body < 0 || body > 999 {
				return "bad-op"
			}
			idm, cm, km := a[10], a[11], a[12]
			payload := c46Payload(body, kp, uint32(exp))
			msg := &pcommon.DmqMessage{Payload: payload}
			// --- id
			goodID, err := pcommon.ComputeDmqMessageID(payload)
			if err != nil {
				return "id-compute-err"
			}
			switch idm {
			case "ok":
				msg.MessageID = goodID
			case "other":
				msg.MessageID, _ = pcommon.ComputeDmqMessageID(c46Payload(body+1000, kp, uint32(exp)))
			case "junk":
				msg.MessageID = append([]byte{}, goodID...)
				msg.MessageID[7] ^= 0x10
			case "empty":
			case "short":
				msg.MessageID = goodID[:31]
			case "alias":
				msg.Payload.MessageID = goodID
			default:
				return "bad-op"
			}
			// --- operational certificate
			kesVk := u.kesVk[kj]
			if km == "vklen" {
				kesVk = kesVk[:31]
			}
			signer := u.cold[ci]
			cIssue, cPeriod, cVk := issue, ocp, kesVk
			// the message's own counter / period: genuine, or changed in the high bits only
			// (the cold signature stays the one over the genuine values)
			msgIssue, msgPeriod := issue, ocp
			bump := map[string]uint64{"issueHi32": 1 << 32, "issueHi40": 1 << 40, "issueHi63": 1 << 63,
				"periodHi32": 1 << 32, "periodHi40": 1 << 40, "periodHi63": 1 << 63}[cm]
			if bump != 0 {
				if strings.HasPrefix(cm, "issue") {
					if issue > ^uint64(0)-bump {
						return "bad-op"
					}
					msgIssue += bump
				} else {
					if ocp > ^uint64(0)-bump {
						return "bad-op"
					}
					msgPeriod += bump
				}
			}
			switch cm {
			case "ok", "junk", "short", "cklen", "issueHi32", "issueHi40", "issueHi63", "periodHi32", "periodHi40", "periodHi63":
			case "other":
				signer = u.cold[(ci+1)%c46Pools]
			case "issue":
				cIssue = issue + 1
			case "period":
				cPeriod = ocp + 1
			case "kes":
				cVk = u.kesVk[kj+1]
			default:
				return "bad-op"
			}
			certCbor, err := cbor.Encode([]any{cVk, cIssue, cPeriod})
			if err != nil {
				return "cert-encode-err"
			}
			coldSig := ed25519.Sign(signer, certCbor)
			if cm == "junk" {
				coldSig[40] ^= 1
			}
			if cm == "short" {
				coldSig = coldSig[:63]
			}
			coldKey := []byte(u.cold[ci].Public().(ed25519.PublicKey))
			if cm == "cklen" {
				coldKey = coldKey[:31]
			}
			msg.OperationalCertificate = pcommon.OperationalCertificate{
				KESVerificationKey: kesVk, IssueNumber: msgIssue, KESPeriod: msgPeriod, ColdSignature: coldSig,
			}
			msg.ColdVerificationKey = coldKey
			// --- KES signature over the wrapped payload
			sj, sp := kj, payload
			switch km {
			case "ok", "junk", "short", "vklen":
			case "otherkey":
				sj = kj + 1
			case "otherpayload":
				sp = c46Payload(body+1000, kp, uint32(exp))
			default:
				return "bad-op"
			}
			ksig := u.kesSign(sj, t, c46Wrapped(sp))
			if km == "junk" {
				ksig[100] ^= 4
			}
			if km == "short" {
				ksig = ksig[:447]
			}
			msg.KESSignature = ksig
			var verr error
			if slot == nil {
				verr = auth.VerifyMessage(msg)
			} else {
				verr = auth.VerifyMessageWithSlot(msg, *slot)
			}
			v := "ok"
			if verr != nil {
				e := verr.Error()
				switch {
				case strings.HasPrefix(e, "message ID verification failed"):
					v = "id"
				case strings.HasPrefix(e, "operational certificate verification failed"):
					v = "opcert"
				case strings.HasPrefix(e, "KES signature verification failed"):
					v = "kes"
				case strings.HasPrefix(e, "SPO pool"):
					v = "pool"
				case strings.HasPrefix(e, "KES period rotation verification failed"):
					v = "rotation"
				default:
					v = "other"
				}
				bits.WriteByte('0')
			} else {
				bits.WriteByte('1')
			}
			det = append(det, fmt.Sprintf("%s{%s}", v, c46CacheDump(auth, u)))
		default:
			return "bad-op"
		}
	}
	if bits.Len() == 0 {
		bits.WriteByte('-')
	}
	return fmt.Sprintf("acc=%s | %s spk=%s", bits.String(), strings.Join(det, " "), c46Spk(auth))
}

// ---- generator

func genC46(r *Rand, n int, tier string, emit func(string)) {
	universes := []string{hexs(r.Bytes(8)), hexs(r.Bytes(8))}
	idm := []string{"other", "junk", "empty", "short", "alias"}
	cmm := []string{"other", "issue", "period", "kes", "junk", "short", "cklen",
		"issueHi32", "issueHi40", "issueHi63", "periodHi32", "periodHi40", "periodHi63", "issueHi32", "periodHi32"}
	kmm := []string{"otherkey", "otherpayload", "junk", "short", "vklen"}
	for i := 0; i < n; i++ {
		if r.Chance(1, 10) {
			// TTL validator: now / expiry / max TTL around each other and around the uint32 edge
			ttlS := Pick(r, int64(0), 1800, 1, 60, -5, 1<<31, int64(r.Intn(100000)))
			d := ttlS * 1000000000
			if ttlS < 1<<20 && ttlS >= 0 && r.Chance(1, 4) {
				d += int64(r.Intn(1000000000))
			}
			now := Pick(r, int64(0), -1, -1000, 1700000000, 4294967295, 4294967296, 4294967294, int64(r.U64()>>31), int64(r.Intn(2000000)))
			eff := ttlS
			if eff <= 0 {
				eff = 1800
			}
			exp := now + Pick(r, int64(0), 1, -1, eff, eff+1, eff-1, int64(r.Intn(4000)))
			if r.Chance(1, 8) {
				exp = Pick(r, int64(0), 4294967295, 4294967294)
			}
			if exp < 0 {
				exp = 0
			}
			if exp > 4294967295 {
				exp = 4294967295
			}
			emit(fmt.Sprintf("ttl %d %d %d %d", d, now, exp, Pick(r, 0, 0, 0, 0, 0, 1)))
			continue
		}
		var sb strings.Builder
		fmt.Fprintf(&sb, "dmq %s ", universes[r.Intn(len(universes))])
		// a third of the histories are counter histories: real verifier, pools registered, mostly
		// well-formed messages of one or two pools whose counters go up, stay, and fall back
		counterMode := r.Chance(1, 3)
		noop := !counterMode && r.Chance(1, 40)
		if noop {
			sb.WriteString("noop")
		} else {
			sb.WriteString("new")
		}
		ver := Pick(r, 1, 1, 1, 1, 1, 1, 0, 0, 2, 3, 4)
		if counterMode {
			ver = Pick(r, 1, 1, 1, 2)
		}
		if ver != 0 {
			fmt.Fprintf(&sb, " ; ver %d", ver)
		}
		if r.Chance(1, 5) {
			fmt.Fprintf(&sb, " ; ins %d", r.Intn(2))
		}
		for p := 0; p < c46Pools; p++ {
			if counterMode || !r.Chance(1, 6) {
				fmt.Fprintf(&sb, " ; reg %d", p)
			}
		}
		nm := 1 + r.Intn(8)
		if counterMode {
			nm = 3 + r.Intn(10)
		}
		counters := [c46Pools]uint64{}
		for p := range counters {
			counters[p] = uint64(r.Intn(5))
			if r.Chance(1, 10) {
				counters[p] = r.EdgeU64()
			}
		}
		for k := 0; k < nm; k++ {
			if r.Chance(1, 12) {
				fmt.Fprintf(&sb, " ; %s %d", Pick(r, "reg", "unreg"), r.Intn(c46Pools))
			}
			if r.Chance(1, 25) {
				fmt.Fprintf(&sb, " ; ins %d", r.Intn(2))
			}
			if r.Chance(1, 30) {
				fmt.Fprintf(&sb, " ; ver %d", Pick(r, 1, 2, 3, 4))
			}
			ci := r.Intn(c46Pools)
			if r.Chance(1, 2) {
				ci = 0 // concentrate histories on one pool
			}
			if counterMode {
				ci = r.Intn(2)
			}
			// counter walk: mostly non-decreasing, sometimes equal, sometimes lower
			walk := r.Intn(6)
			if counterMode {
				walk = Pick(r, 0, 0, 1, 2, 3)
			}
			switch walk {
			case 0:
				if counters[ci] > 0 {
					counters[ci] -= 1 + uint64(r.Intn(int(min(counters[ci], 3))))
				}
			case 1:
			default:
				if counters[ci] < ^uint64(0)-4 {
					counters[ci] += uint64(r.Intn(3))
				}
			}
			issue := counters[ci]
			ocp := uint64(r.Intn(500))
			body := r.Intn(5)
			t := Pick(r, 0, 0, 0, 0, 1, 5, 62, 63)
			kj := r.Intn(c46Kes - 1)
			// payload KES period and slot: without a slot the verifier checks evolution 0;
			// with a slot it checks slot/spk - kp.
			kp := uint64(r.Intn(1000))
			if r.Chance(1, 12) {
				kp = r.EdgeU64() // includes values whose product with 129600 wraps
			}
			slot := "-"
			if r.Chance(1, 2) {
				var s uint64
				switch r.Intn(5) {
				case 0:
					s = r.EdgeU64()
				case 1:
					if kp > 0 {
						s = (kp - 1) * 129600 // certificate period in the future
					}
				default:
					s = (kp+uint64(t))*129600 + uint64(r.Intn(129600)) // the period the signature was made for
					if r.Chance(1, 6) {
						s += 129600
					}
				}
				slot = strconv.FormatUint(s, 10)
			} else if r.Chance(1, 2) {
				t = 0
			}
			im, cm, km := "ok", "ok", "ok"
			corrupt := r.Chance(2, 5)
			if counterMode {
				corrupt = r.Chance(1, 6)
				if slot == "-" {
					t = 0
				} else if r.Chance(3, 4) {
					slot = strconv.FormatUint((kp+uint64(t))*129600+uint64(r.Intn(129600)), 10)
				}
			}
			if corrupt {
				switch r.Intn(3) {
				case 0:
					im = idm[r.Intn(len(idm))]
				case 1:
					cm = cmm[r.Intn(len(cmm))]
				default:
					km = kmm[r.Intn(len(kmm))]
				}
				if r.Chance(1, 8) { // two corruptions: which step reports is part of the tie
					cm = cmm[r.Intn(len(cmm))]
				}
			}
			fmt.Fprintf(&sb, " ; m %d %d %d %d %d %d %d %d %s %s %s %s", ci, issue, ocp, body, kp, r.Intn(100000), kj, t, slot, im, cm, km)
		}
		emit(sb.String())
	}
}
