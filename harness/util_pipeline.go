package main

// Shared scenario runner for the block-pipeline properties (C42, C43, C44).
//
// An op line is a scenario:
//
//	pipe dw=<n> vw=<n> buf=<n> | <cmd> <cmd> ...
//
// dw / vw = decode / validate workers (vw=0: validation disabled), buf =
// PrefetchBufferSize. Commands run sequentially on the scenario goroutine:
//
//	s:<kind>:<to>:<dd>:<vd>:<ad>:<hold>   Submit one block and wait for Submit to return
//	bs:...                                same, from a background goroutine
//	       kind  g good | d does not decode | v decodes, fails validation
//	       to    0 = context.Background, -1 = already cancelled context, n>0 = n ms timeout
//	       dd/vd/ad  latency injected in the decode / validate / apply stage, units of 100us
//	       hold  - | d | v | a | f : hold the block inside the decode worker, the validate
//	             worker, the apply runner (between receive and processing), or ApplyFunc
//	             until `rel` (or the end of the scenario)
//	gate / open       ApplyFunc blocks while the gate is closed
//	rel               release every held block
//	settle            wait until no pipeline step is possible any more (see stable())
//	pc                read PendingCount()
//	drain:<ms>        start WaitForDrain; after <ms> ms open the gate and release all holds;
//	                  wait for WaitForDrain to return
//	stop / stopbg     Stop() synchronously / in a background goroutine
//	sleep:<n>         sleep n*100us
//
// The scenario always ends with: open, rel, join background goroutines, settle
// (unless stopped), Stop, leak check.
//
// The output is the event trace, one token per event: `<ev>:<blk>:<seq>` with
// blk = index of the block's submit command in the scenario:
//
//	sub fail                 Submit accepted / failed
//	dt dp dd  vt vp vd       decode / validate worker: take, put, drop (on cancellation)
//	at ax ab aq              apply runner: receive, drop, buffer out of order, dequeue in order
//	ap ad                    ApplyFunc called, item left the apply stage
//	rs rd rr                 sent on results, dropped on cancellation, read from Results()
//	pc:<n> pcq:<n>           PendingCount() = n (pcq: read while the pipeline is at rest)
//	gate open rel drain_begin drain_ok drain_err stop_begin stop_ok settled unsettled leak:<n>
//
// Trace points are next to, not atomic with, the operations they report.
// Producers log before a channel send and consumers after the receive, so the
// logged order respects causality for every single item; the two places where
// this is impossible are normalised here (documented at onTrace case "dt" and pipeNormalise()).

import (
	"context"
	"encoding/hex"
	"fmt"
	"runtime"
	"strconv"
	"strings"
	"sync"
	"sync/atomic"
	"time"

	"github.com/blinklabs-io/gouroboros/cbor"
	"github.com/blinklabs-io/gouroboros/ledger"
	"github.com/blinklabs-io/gouroboros/ledger/common"
	"github.com/blinklabs-io/gouroboros/ledger/conway"
	"github.com/blinklabs-io/gouroboros/pipeline"
	pcommon "github.com/blinklabs-io/gouroboros/protocol/common"
)

// Real mainnet Conway block header (block 10882991, the fixture of
// ledger/verify_block_limits_test.go) whose VRF and KES verify against pipeEta0.
const pipeHeaderHex = "828a1a00a60faf1a0817580c58204eac1e7264c0e80436b04687e75d46d6a0d6b2338c2abb73a14fafbd689f69b2582012209e0b93f0128f670c9a02781c5466c4c4be003da3a51344b6a94f709ce51f58209c1a5fc5dec0a4b822d5a3b254ce9b168299479127aadcf97506ef257517fff682584023c2d70c24c44041644f5152f7e8a1bb580e516eb8e73c7df287116adb5f009c0c001feccfeebdf34c2275d1fce859c6c46182631b6306d5fd2724ac7ab1c6be58500dbe31ef7c00c34b6522e983d223e05075359cb170668d960b8cebfced178287ee6ca5cfc6e8e60aec97fd197aebfefc24aae695680631d575c6dacdfd9efc5687e46eb2a5c04a755c7f260af9ef830819c5ea5820d2b74b6333637801f2e9c7265792d5b8fc1647f9056d67c769dbac27f25f2fd08458200946347d22a3b6da29d79102424973c932b898808ff2436fa138df102484230a0a1904165840c75619c3ebad0758349eb1dedc154a8cd280d8189d6da973b4a147b0cdb0f60442d493feeba64167a05b5fc40bc695192bf1c08afad3c07ebd33cb5925f378018209015901c00a8442332bd3f33a4d78fe2736a75110b528a1e7501bc7887910d1475fc0e425f49a84f94e98f87047916cf622f3db1f61b60c5f06709769f98c4cc67de8f50c320c6772b647ac9916765b6985d4eafccb54e71064d01df41f8d0638ed5cd62b7b6e49ba15dd87cc687ab87d3fb22490d355e8fa9c5f7c24ed88b800fcc4cb1f1b54e65b5ba82c442f4643caadc86583072b8b6956f4f9a4530c29873f7231605efd7a7f961a863530512ef86b50f9b1004748c31fa07978f2ece7d8e76ffde67d713015824b28e19f05f0383c2def3cdeb67247f33f5eae329c38a375b2eb06a586dcc2e102a776a6deaad1741f2a7f5aa604074698e876afab4455278fd84a1db5768078e2848cc85e3c8a0b48630a2622832ecd2dbb3c505df2a70b93b49ce99616f601e5e2004a8ce8926319c23f2a26ac8550cb1c05c9d2d25fc5fcd122fc35b057a71d6e961250c99b19a7bfd9acdc60a8151d6c81ef2d7d69a62fd0f17d184dd753cce9a2e9c32b53baf317e31c6c5e3cf8ea8b203b413ae8b0253db53d0cbe19b0f0547a0e67d3591d1cade6ceb4a47779ba4a09e7526280acb62200f42c98f6185ea9da3daf47aa3d10ffe5307331fa3430af6c6361154943c39375"

const pipeEta0 = "4ef95a10f639d0cf16bb963c3a580d4bf2a95b6ae7848702665884843e3c661d"

var (
	pipeBlocksOnce sync.Once
	pipeGoodCbor   []byte // decodes and validates
	pipeBadValCbor []byte // decodes, fails validation (one KES signature byte flipped)
	pipeBadDecCbor = []byte{0x85, 0x00, 0x01, 0x02}
	pipeBlocksErr  string
)

func pipeVerifyConfig() common.VerifyConfig {
	return common.VerifyConfig{
		SkipBodyHashValidation:    true,
		SkipTransactionValidation: true,
		SkipStakePoolValidation:   true,
	}
}

// pipeBuildBlocks builds the three block fixtures and checks them against the
// real decoder / validator once.
func pipeBuildBlocks() {
	hb, _ := hex.DecodeString(pipeHeaderHex)
	header, err := ledger.NewBlockHeaderFromCbor(ledger.BlockTypeConway, hb)
	if err != nil {
		pipeBlocksErr = "header: " + err.Error()
		return
	}
	ch, ok := header.(*conway.ConwayBlockHeader)
	if !ok {
		pipeBlocksErr = "header type"
		return
	}
	blk := &conway.ConwayBlock{
		BlockHeader:            ch,
		TransactionBodies:      []conway.ConwayTransactionBody{},
		TransactionWitnessSets: []conway.ConwayTransactionWitnessSet{},
		TransactionMetadataSet: common.TransactionMetadataSet{},
		InvalidTransactions:    []uint{},
	}
	good, err := cbor.Encode(blk)
	if err != nil {
		pipeBlocksErr = "encode: " + err.Error()
		return
	}
	check := func(b []byte) (decoded, valid bool) {
		bl, err := ledger.NewBlockFromCbor(ledger.BlockTypeConway, b, common.VerifyConfig{SkipBodyHashValidation: true})
		if err != nil {
			return false, false
		}
		v, _, _, _, err := ledger.VerifyBlock(bl, pipeEta0, 129600, pipeVerifyConfig())
		return true, err == nil && v
	}
	if d, v := check(good); !d || !v {
		pipeBlocksErr = fmt.Sprintf("good fixture: decoded=%v valid=%v", d, v)
		return
	}
	// flip one byte in the middle of the KES signature (last byte string of the header)
	sig, _ := hex.DecodeString("f98c4cc67de8f50c320c6772b647ac99")
	idx := strings.Index(string(good), string(sig))
	if idx < 0 {
		pipeBlocksErr = "kes signature bytes not found in the encoded block"
		return
	}
	bad := append([]byte{}, good...)
	bad[idx+3] ^= 0x01
	if d, v := check(bad); !d || v {
		pipeBlocksErr = fmt.Sprintf("bad-validation fixture: decoded=%v valid=%v", d, v)
		return
	}
	if d, _ := check(pipeBadDecCbor); d {
		pipeBlocksErr = "bad-decode fixture decodes"
		return
	}
	pipeGoodCbor, pipeBadValCbor = good, bad
}

// ---------------------------------------------------------------- scenario

type pipeBlk struct {
	kind       byte // g d v
	to         int
	dd, vd, ad int
	hold       byte // - d v a f
	bg         bool
}

type pipeCmd struct {
	name string
	arg  int
	blk  int // index into blocks for s/bs
}

type pipeScenario struct {
	dw, vw, buf int
	blocks      []pipeBlk
	cmds        []pipeCmd
}

func parsePipeScenario(op string) (*pipeScenario, bool) {
	parts := strings.SplitN(op, "|", 2)
	if len(parts) != 2 {
		return nil, false
	}
	hd := strings.Fields(parts[0])
	if len(hd) != 4 || hd[0] != "pipe" {
		return nil, false
	}
	sc := &pipeScenario{}
	for i, key := range []string{"dw=", "vw=", "buf="} {
		if !strings.HasPrefix(hd[i+1], key) {
			return nil, false
		}
		v, err := strconv.Atoi(hd[i+1][len(key):])
		if err != nil || v < 0 || v > 64 {
			return nil, false
		}
		switch i {
		case 0:
			sc.dw = v
		case 1:
			sc.vw = v
		case 2:
			sc.buf = v
		}
	}
	if sc.dw < 1 || sc.buf < 1 {
		return nil, false
	}
	for _, tok := range strings.Fields(parts[1]) {
		f := strings.Split(tok, ":")
		switch f[0] {
		case "s", "bs":
			if len(f) != 7 || len(f[1]) != 1 || len(f[6]) != 1 {
				return nil, false
			}
			b := pipeBlk{kind: f[1][0], hold: f[6][0], bg: f[0] == "bs"}
			if !strings.ContainsRune("gdv", rune(b.kind)) || !strings.ContainsRune("-dvaf", rune(b.hold)) {
				return nil, false
			}
			var err [4]error
			b.to, err[0] = strconv.Atoi(f[2])
			b.dd, err[1] = strconv.Atoi(f[3])
			b.vd, err[2] = strconv.Atoi(f[4])
			b.ad, err[3] = strconv.Atoi(f[5])
			for _, e := range err {
				if e != nil {
					return nil, false
				}
			}
			if b.to < -1 || b.to > 1000 || b.dd < 0 || b.vd < 0 || b.ad < 0 || b.dd > 1000 || b.vd > 1000 || b.ad > 1000 {
				return nil, false
			}
			sc.cmds = append(sc.cmds, pipeCmd{name: f[0], blk: len(sc.blocks)})
			sc.blocks = append(sc.blocks, b)
		case "gate", "open", "rel", "settle", "pc", "stop", "stopbg":
			if len(f) != 1 {
				return nil, false
			}
			sc.cmds = append(sc.cmds, pipeCmd{name: f[0]})
		case "drain", "sleep":
			if len(f) != 2 {
				return nil, false
			}
			v, err := strconv.Atoi(f[1])
			if err != nil || v < 0 || v > 10000 {
				return nil, false
			}
			sc.cmds = append(sc.cmds, pipeCmd{name: f[0], arg: v})
		default:
			return nil, false
		}
	}
	if len(sc.blocks) > 4000 {
		return nil, false
	}
	return sc, true
}

// ---------------------------------------------------------------- recorder

// item locations tracked from the trace (only used to decide when the pipeline is at rest)
const (
	locNone = iota
	locSubCh
	locDecW
	locDecCh
	locValW
	locValCh
	locHand
	locPending
	locDeq
	locInApply
	locOut
	locDone
	locGone
)

type pipeRec struct {
	gen uint64
	sc  *pipeScenario

	mu      sync.Mutex
	events  []string
	loc     []int  // per block
	heldNow []bool // per block: currently blocked in a hold point
	subSeen []bool
	seqOf   []uint64
	outQ    []int // blocks processed by the runner, waiting to be forwarded
	draining bool // runner is between apply_done and the first result
	subsInFlight int
	rsSent, rrRead int // results sent (rs minus rd) and read from Results()
	stopped bool

	gateMu   sync.Mutex
	gateCh   chan struct{} // closed = gate open
	relCh    chan struct{} // closed = holds released
	released atomic.Bool
}

var pipeCur atomic.Pointer[pipeRec]
var pipeGen atomic.Uint64

func init() {
	pipeline.VerifTrace = func(kind string, item *pipeline.BlockItem, n int) {
		if r := pipeCur.Load(); r != nil {
			r.onTrace(kind, item, n)
		}
	}
	pipeline.VerifStageDelay = func(stage string, item *pipeline.BlockItem) {
		if r := pipeCur.Load(); r != nil {
			r.onDelay(stage, item)
		}
	}
}

func (r *pipeRec) blkOf(item *pipeline.BlockItem) int {
	if item == nil {
		return -1
	}
	t := item.Tip()
	if t.BlockNumber != r.gen || t.Point.Slot >= uint64(len(r.sc.blocks)) {
		return -1 // an item of an earlier scenario (only possible after a TIMEOUT)
	}
	return int(t.Point.Slot)
}

func (r *pipeRec) ev(s string) {
	r.mu.Lock()
	r.events = append(r.events, s)
	r.mu.Unlock()
}

var pipeKinds = map[string]string{
	"sub_ok": "sub", "sub_fail": "fail",
	"decode_take": "dt", "decode_put": "dp", "decode_drop": "dd",
	"validate_take": "vt", "validate_put": "vp", "validate_drop": "vd",
	"apply_take": "at", "apply_drop": "ax", "apply_buf": "ab", "apply_deq": "aq",
	"apply_done": "ad", "result": "rs", "result_drop": "rd",
}

func (r *pipeRec) onTrace(kind string, item *pipeline.BlockItem, n int) {
	if kind == "pending_count" {
		return // recorded by the caller of PendingCount (pc / pcq), see cmd pc
	}
	short, ok := pipeKinds[kind]
	if !ok {
		return // alloc, apply_cancel: not part of the model's alphabet
	}
	b := r.blkOf(item)
	if b < 0 {
		return
	}
	seq := item.SequenceNumber()
	r.mu.Lock()
	defer r.mu.Unlock()
	r.seqOf[b] = seq
	switch short {
	case "sub":
		if r.subSeen[b] {
			return // already inserted before the worker's take (see normalise)
		}
		r.subSeen[b] = true
		r.loc[b] = locSubCh
	case "fail":
		r.loc[b] = locGone
	case "dt":
		if !r.subSeen[b] {
			// the decode worker received the item before Submit logged sub_ok:
			// the send happened first, so sub is logged here
			r.subSeen[b] = true
			r.events = append(r.events, fmt.Sprintf("sub:%d:%d", b, seq))
		}
		r.loc[b] = locDecW
	case "dp":
		r.loc[b] = locDecCh
	case "vt":
		r.loc[b] = locValW
	case "vp":
		r.loc[b] = locValCh
	case "dd", "vd", "ax":
		r.loc[b] = locGone
	case "at":
		r.loc[b] = locHand
	case "ab":
		r.loc[b] = locPending
	case "aq":
		r.loc[b] = locDeq
		r.draining = false
	case "ad":
		r.loc[b] = locOut
		r.outQ = append(r.outQ, b)
		r.draining = true
	case "rs", "rd":
		if short == "rs" {
			r.rsSent++
		} else {
			r.rsSent-- // the send announced by the preceding rs was abandoned
		}
		r.loc[b] = locDone
		r.draining = false
		if len(r.outQ) > 0 {
			r.outQ = r.outQ[1:]
		}
	}
	r.events = append(r.events, fmt.Sprintf("%s:%d:%d", short, b, seq))
}

func pipeSleep(units int) {
	if units > 0 {
		time.Sleep(time.Duration(units) * 100 * time.Microsecond)
	}
}

func (r *pipeRec) hold(b int) {
	r.mu.Lock()
	r.heldNow[b] = true
	r.mu.Unlock()
	<-r.relCh
	r.mu.Lock()
	r.heldNow[b] = false
	r.mu.Unlock()
}

func (r *pipeRec) onDelay(stage string, item *pipeline.BlockItem) {
	b := r.blkOf(item)
	if b < 0 {
		return
	}
	bl := r.sc.blocks[b]
	switch stage {
	case "decode":
		pipeSleep(bl.dd)
		if bl.hold == 'd' && !r.released.Load() {
			r.hold(b)
		}
	case "validate":
		pipeSleep(bl.vd)
		if bl.hold == 'v' && !r.released.Load() {
			r.hold(b)
		}
	case "apply":
		if bl.hold == 'a' && !r.released.Load() {
			r.hold(b)
		}
	}
}

func (r *pipeRec) applyFunc(item *pipeline.BlockItem) error {
	b := r.blkOf(item)
	if b < 0 {
		return nil
	}
	r.mu.Lock()
	r.loc[b] = locInApply
	r.events = append(r.events, fmt.Sprintf("ap:%d:%d", b, item.SequenceNumber()))
	r.mu.Unlock()
	r.gateMu.Lock()
	g := r.gateCh
	r.gateMu.Unlock()
	r.mu.Lock()
	r.heldNow[b] = true
	r.mu.Unlock()
	<-g
	r.mu.Lock()
	r.heldNow[b] = false
	r.mu.Unlock()
	bl := r.sc.blocks[b]
	pipeSleep(bl.ad)
	if bl.hold == 'f' && !r.released.Load() {
		r.hold(b)
	}
	return nil
}

// stable reports whether, according to the trace so far, no pipeline step is
// possible: every accepted block is finished, dropped, held at a hold point,
// buffered behind a missing sequence number, or waiting in a channel all of
// whose consumers are blocked. (A take that happened but is not logged yet
// shows as "item in a channel with a free consumer", i.e. not stable.)
func (r *pipeRec) stable() bool {
	r.mu.Lock()
	defer r.mu.Unlock()
	if r.subsInFlight > 0 {
		return false
	}
	if !r.stopped && r.rsSent != r.rrRead {
		return false // a result is still on its way to the reader
	}
	gateOpen := false
	select {
	case <-r.gateCh:
		gateOpen = true
	default:
	}
	decBusy, valBusy := 0, 0
	runnerBusy := r.draining || len(r.outQ) > 0
	for b, l := range r.loc {
		switch l {
		case locDecW:
			if !r.heldNow[b] {
				return false
			}
			decBusy++
		case locValW:
			if !r.heldNow[b] {
				return false
			}
			valBusy++
		case locHand:
			if !r.heldNow[b] {
				return false
			}
			runnerBusy = true
		case locDeq:
			return false
		case locInApply:
			// blocked in ApplyFunc: by the gate or by an `f` hold
			if !r.heldNow[b] || (gateOpen && !(r.sc.blocks[b].hold == 'f' && !r.released.Load())) {
				return false
			}
			runnerBusy = true
		case locOut:
			return false
		}
	}
	if r.draining || len(r.outQ) > 0 {
		return false
	}
	for _, l := range r.loc {
		switch l {
		case locSubCh:
			if decBusy < r.sc.dw {
				return false
			}
		case locDecCh:
			if r.sc.vw > 0 {
				if valBusy < r.sc.vw {
					return false
				}
			} else if !runnerBusy {
				return false
			}
		case locValCh:
			if !runnerBusy {
				return false
			}
		}
	}
	return true
}

func (r *pipeRec) settle(timeout time.Duration) bool {
	deadline := time.Now().Add(timeout)
	for {
		if r.stable() {
			// a second look after a short pause: trace points lag the operations by a few instructions
			time.Sleep(300 * time.Microsecond)
			if r.stable() {
				return true
			}
		}
		if time.Now().After(deadline) {
			return false
		}
		time.Sleep(200 * time.Microsecond)
	}
}

// pipeNormalise removes the "about to send" token of a block whose send was then
// abandoned because of cancellation: `rs` / `dp` / `vp` are logged before the
// channel send, `rd` / `dd` / `vd` when the select took the ctx.Done branch instead.
func pipeNormalise(ev []string) []string {
	dropped := map[string]bool{}
	intent := map[string]string{"rd:": "rs:", "dd:": "dp:", "vd:": "vp:"}
	for _, e := range ev {
		if len(e) > 3 {
			if in, ok := intent[e[:3]]; ok {
				dropped[in+e[3:]] = true
			}
		}
	}
	out := ev[:0:0]
	for _, e := range ev {
		if dropped[e] {
			continue
		}
		out = append(out, e)
	}
	return out
}

func pipeLeak() int {
	// goroutines still executing pipeline code
	for i := 0; i < 50; i++ {
		buf := make([]byte, 1<<20)
		n := runtime.Stack(buf, true)
		c := 0
		for _, g := range strings.Split(string(buf[:n]), "\n\n") {
			if strings.Contains(g, "gouroboros/pipeline.") && !strings.Contains(g, "main.runPipe") {
				c++
			}
		}
		if c == 0 {
			return 0
		}
		time.Sleep(2 * time.Millisecond)
		if i == 49 {
			return c
		}
	}
	return 0
}

// runPipe executes one scenario against the real pipeline.
func runPipe(op string) string {
	sc, ok := parsePipeScenario(op)
	if !ok {
		return "bad-op"
	}
	pipeBlocksOnce.Do(pipeBuildBlocks)
	if pipeBlocksErr != "" {
		return "fixture-error " + pipeBlocksErr
	}
	nb := len(sc.blocks)
	r := &pipeRec{
		gen: pipeGen.Add(1), sc: sc,
		loc: make([]int, nb), heldNow: make([]bool, nb), subSeen: make([]bool, nb), seqOf: make([]uint64, nb),
		gateCh: make(chan struct{}), relCh: make(chan struct{}),
	}
	close(r.gateCh) // gate open
	pipeCur.Store(r)
	defer pipeCur.CompareAndSwap(r, nil)

	opts := []pipeline.PipelineOption{
		pipeline.WithDecodeWorkers(sc.dw),
		pipeline.WithValidateWorkers(sc.vw),
		pipeline.WithPrefetchBufferSize(sc.buf),
		pipeline.WithSkipBodyHashValidation(true),
		pipeline.WithApplyFunc(r.applyFunc),
	}
	if sc.vw > 0 {
		opts = append(opts,
			pipeline.WithEta0Provider(pipeline.StaticEta0Provider(pipeEta0)),
			pipeline.WithSlotsPerKesPeriod(129600),
			pipeline.WithVerifyConfig(pipeVerifyConfig()))
	}
	p := pipeline.NewBlockPipeline(opts...)
	if err := p.Start(context.Background()); err != nil {
		return "start-error " + err.Error()
	}
	var readers sync.WaitGroup
	readers.Add(2)
	go func() {
		defer readers.Done()
		for item := range p.Results() {
			if b := r.blkOf(item); b >= 0 {
				r.mu.Lock()
				r.rrRead++
				r.events = append(r.events, fmt.Sprintf("rr:%d:%d", b, item.SequenceNumber()))
				r.mu.Unlock()
			}
		}
	}()
	go func() {
		defer readers.Done()
		for range p.Errors() {
		}
	}()

	var bg sync.WaitGroup
	var stopOnce sync.Once
	stopDone := make(chan struct{})
	doStop := func() {
		stopOnce.Do(func() {
			r.mu.Lock()
			r.stopped = true
			r.events = append(r.events, "stop_begin")
			r.mu.Unlock()
			_ = p.Stop()
			r.ev("stop_ok")
			close(stopDone)
		})
	}
	openGate := func() {
		r.gateMu.Lock()
		select {
		case <-r.gateCh:
		default:
			close(r.gateCh)
			r.ev("open")
		}
		r.gateMu.Unlock()
	}
	release := func() {
		if !r.released.Swap(true) {
			r.ev("rel")
			close(r.relCh)
		}
	}
	submit := func(b int) {
		bl := sc.blocks[b]
		ctx := context.Background()
		cancel := func() {}
		switch {
		case bl.to == -1:
			ctx, cancel = context.WithCancel(ctx)
			cancel()
		case bl.to > 0:
			ctx, cancel = context.WithTimeout(ctx, time.Duration(bl.to)*time.Millisecond)
		}
		raw := pipeGoodCbor
		switch bl.kind {
		case 'd':
			raw = pipeBadDecCbor
		case 'v':
			raw = pipeBadValCbor
		}
		tip := pcommon.Tip{Point: pcommon.NewPoint(uint64(b), []byte{1}), BlockNumber: r.gen}
		r.mu.Lock()
		r.subsInFlight++
		r.mu.Unlock()
		err := p.Submit(ctx, uint(ledger.BlockTypeConway), raw, tip)
		cancel()
		r.mu.Lock()
		r.subsInFlight--
		if err != nil && r.loc[b] == locNone {
			// refused before a sequence number was allocated (pipeline stopped)
			r.loc[b] = locGone
			r.events = append(r.events, fmt.Sprintf("fail:%d:-", b))
		}
		r.mu.Unlock()
	}

	for _, c := range sc.cmds {
		switch c.name {
		case "s":
			submit(c.blk)
		case "bs":
			bg.Add(1)
			go func(b int) { defer bg.Done(); submit(b) }(c.blk)
		case "gate":
			r.gateMu.Lock()
			select {
			case <-r.gateCh:
				r.gateCh = make(chan struct{})
				r.ev("gate")
			default:
			}
			r.gateMu.Unlock()
		case "open":
			openGate()
		case "rel":
			release()
		case "settle":
			if r.settle(10 * time.Second) {
				r.ev("settled")
			} else {
				r.ev("unsettled")
			}
		case "pc":
			atRest := r.stable()
			n := p.PendingCount()
			if atRest && r.stable() {
				r.ev(fmt.Sprintf("pcq:%d", n))
			} else {
				r.ev(fmt.Sprintf("pc:%d", n))
			}
		case "drain":
			r.ev("drain_begin")
			done := make(chan error, 1)
			ctx, cancel := context.WithTimeout(context.Background(), 20*time.Second)
			go func() { done <- p.WaitForDrain(ctx) }()
			var err error
			select {
			case err = <-done:
			case <-time.After(time.Duration(c.arg) * time.Millisecond):
				openGate()
				release()
				err = <-done
			}
			cancel()
			if err == nil {
				r.ev("drain_ok")
			} else {
				r.ev("drain_err")
			}
		case "stop":
			doStop()
		case "stopbg":
			bg.Add(1)
			go func() { defer bg.Done(); doStop() }()
		case "sleep":
			pipeSleep(c.arg)
		}
	}
	openGate()
	release()
	bg.Wait()
	r.mu.Lock()
	stopped := r.stopped
	r.mu.Unlock()
	if !stopped {
		if r.settle(10 * time.Second) {
			r.ev("settled")
		} else {
			r.ev("unsettled")
		}
	}
	doStop()
	<-stopDone
	readers.Wait()
	r.ev(fmt.Sprintf("leak:%d", pipeLeak()))
	r.mu.Lock()
	ev := pipeNormalise(r.events)
	r.mu.Unlock()
	return strings.Join(ev, " ")
}
