package main

// Shared scenario runner for the block-pipeline properties (C42, C43, C44).
//
// An op line is a scenario:
//
//	pipe dw=<n> vw=<n> buf=<n> [mp=<n>] | <cmd> <cmd> ...
//
// dw / vw = decode / validate workers (vw=0: validation disabled), buf =
// PrefetchBufferSize, mp = MaxPendingBlocks (default: the library default).
// Commands run sequentially on the scenario goroutine:
//
//	s:<kind>:<to>:<dd>:<vd>:<ad>:<hold>   Submit one block and wait for Submit to return
//	bs:...                                same, from a background goroutine
//	       kind  g good | d does not decode | v decodes, fails validation
//	       to    0 = context.Background, -1 = already cancelled context, n>0 = n ms timeout
//	       dd/vd/ad  latency injected in the decode / validate / apply stage, units of 100us
//	       hold  - | d | v | a | q | f, optionally followed by a group digit (default 0): hold the
//	             block inside the decode worker, the validate worker, the apply runner between
//	             receive and processing (a), right after it was dequeued in order (q), or in
//	             ApplyFunc (f) until its group is released
//	nostart / start   (nostart must be the first command) do not Start() automatically / Start()
//	gate / open       ApplyFunc blocks while the gate is closed
//	rel / rel:<g>     release every held block / the blocks of group g
//	rpause / rresume  stop / resume reading Results()      (a full results channel blocks the apply runner)
//	epause / eresume  stop / resume reading Errors()       (a full errors channel blocks workers)
//	wturn             wait until a background submitter holds the submit turn (it has allocated its
//	                  sequence number and is blocked on back-pressure)
//	wgu               wait until every other Submit call has returned (e.g. gave up waiting for the turn)
//	settle            wait until no pipeline step is possible any more (see stable())
//	pc                read PendingCount()
//	pcbg / pcgo       start a PendingCount() call in the background and hold it between its two
//	                  reads / let it finish
//	drain:<k>         start WaitForDrain; once it has returned, or k of its PendingCount polls
//	                  have been observed, open the gate, release all holds and resume the
//	                  readers; wait for WaitForDrain to return. No wall-clock enters the verdict:
//	                  a WaitForDrain that returns while blocks are held does so before the release.
//	stop / stopbg     Stop() synchronously / in a background goroutine
//	sleep:<n>         sleep n*100us (only perturbs the schedule)
//
// The scenario always ends with: open, rel, resume readers, pcgo, join background goroutines,
// settle (unless stopped), Stop, leak check.
//
// The output is the event trace, one token per event: `<ev>:<blk>:<seq>` with
// blk = index of the block's submit command in the scenario:
//
//	start                    Start() succeeded
//	en gu                    a caller entered Submit / returned an error without having had the turn
//	acq sub fail             Submit: got the turn and allocated a number / accepted / gave the turn back
//	dt dp dd  vt vp vd       decode / validate worker: take, put, drop (on cancellation)
//	at ax ab aq              apply runner: receive, drop, buffer out of order, dequeue in order
//	ap ad                    ApplyFunc called, item no longer in flight in the apply stage
//	rs rd rr                 sent on results, dropped on cancellation, read from Results()
//	pa:<v> pb:<n>            every PendingCount() call: processed count read, result
//	pc:<n> pcq:<n>           result of the scenario's own `pc` (pcq: read while the pipeline is at rest)
//	gate open rel drain_begin drain_ok drain_err drain_nopoll stop_begin stop_hung stop_ok stop_noop
//	settled unsettled leak:<n>
//
// aq, ab, ad and pa are logged with the apply stage's mutex held (exact order). The other
// trace points are next to, not atomic with, the operations they report: producers log
// before a channel send and consumers after the receive, so the logged order respects
// causality for every single item; the two places where this is impossible are
// normalised here (documented at onTrace case "dt" and pipeNormalise()).

import (
	"context"
	"encoding/hex"
	"fmt"
	"runtime"
	"strconv"
	"strings"
	"sync"
	"sync/atomic"
	"time"

	"github.com/blinklabs-io/gouroboros/cbor"
	"github.com/blinklabs-io/gouroboros/ledger"
	"github.com/blinklabs-io/gouroboros/ledger/common"
	"github.com/blinklabs-io/gouroboros/ledger/conway"
	"github.com/blinklabs-io/gouroboros/pipeline"
	pcommon "github.com/blinklabs-io/gouroboros/protocol/common"
)

// Real mainnet Conway block header (block 10882991, the fixture of
// ledger/verify_block_limits_test.go) whose VRF and KES verify against pipeEta0.
const pipeHeaderHex = "828a1a00a60faf1a0817580c58204eac1e7264c0e80436b04687e75d46d6a0d6b2338c2abb73a14fafbd689f69b2582012209e0b93f0128f670c9a02781c5466c4c4be003da3a51344b6a94f709ce51f58209c1a5fc5dec0a4b822d5a3b254ce9b168299479127aadcf97506ef257517fff682584023c2d70c24c44041644f5152f7e8a1bb580e516eb8e73c7df287116adb5f009c0c001feccfeebdf34c2275d1fce859c6c46182631b6306d5fd2724ac7ab1c6be58500dbe31ef7c00c34b6522e983d223e05075359cb170668d960b8cebfced178287ee6ca5cfc6e8e60aec97fd197aebfefc24aae695680631d575c6dacdfd9efc5687e46eb2a5c04a755c7f260af9ef830819c5ea5820d2b74b6333637801f2e9c7265792d5b8fc1647f9056d67c769dbac27f25f2fd08458200946347d22a3b6da29d79102424973c932b898808ff2436fa138df102484230a0a1904165840c75619c3ebad0758349eb1dedc154a8cd280d8189d6da973b4a147b0cdb0f60442d493feeba64167a05b5fc40bc695192bf1c08afad3c07ebd33cb5925f378018209015901c00a8442332bd3f33a4d78fe2736a75110b528a1e7501bc7887910d1475fc0e425f49a84f94e98f87047916cf622f3db1f61b60c5f06709769f98c4cc67de8f50c320c6772b647ac9916765b6985d4eafccb54e71064d01df41f8d0638ed5cd62b7b6e49ba15dd87cc687ab87d3fb22490d355e8fa9c5f7c24ed88b800fcc4cb1f1b54e65b5ba82c442f4643caadc86583072b8b6956f4f9a4530c29873f7231605efd7a7f961a863530512ef86b50f9b1004748c31fa07978f2ece7d8e76ffde67d713015824b28e19f05f0383c2def3cdeb67247f33f5eae329c38a375b2eb06a586dcc2e102a776a6deaad1741f2a7f5aa604074698e876afab4455278fd84a1db5768078e2848cc85e3c8a0b48630a2622832ecd2dbb3c505df2a70b93b49ce99616f601e5e2004a8ce8926319c23f2a26ac8550cb1c05c9d2d25fc5fcd122fc35b057a71d6e961250c99b19a7bfd9acdc60a8151d6c81ef2d7d69a62fd0f17d184dd753cce9a2e9c32b53baf317e31c6c5e3cf8ea8b203b413ae8b0253db53d0cbe19b0f0547a0e67d3591d1cade6ceb4a47779ba4a09e7526280acb62200f42c98f6185ea9da3daf47aa3d10ffe5307331fa3430af6c6361154943c39375"

const pipeEta0 = "4ef95a10f639d0cf16bb963c3a580d4bf2a95b6ae7848702665884843e3c661d"

var (
	pipeBlocksOnce sync.Once
	pipeGoodCbor   []byte // decodes and validates
	pipeBadValCbor []byte // decodes, fails validation (one KES signature byte flipped)
	pipeBadDecCbor = []byte{0x85, 0x00, 0x01, 0x02}
	pipeBlocksErr  string
)

func pipeVerifyConfig() common.VerifyConfig {
	return common.VerifyConfig{
		SkipBodyHashValidation:    true,
		SkipTransactionValidation: true,
		SkipStakePoolValidation:   true,
	}
}

// pipeBuildBlocks builds the three block fixtures and checks them against the
// real decoder / validator once.
func pipeBuildBlocks() {
	hb, _ := hex.DecodeString(pipeHeaderHex)
	header, err := ledger.NewBlockHeaderFromCbor(ledger.BlockTypeConway, hb)
	if err != nil {
		pipeBlocksErr = "header: " + err.Error()
		return
	}
	ch, ok := header.(*conway.ConwayBlockHeader)
	if !ok {
		pipeBlocksErr = "header type"
		return
	}
	blk := &conway.ConwayBlock{
		BlockHeader:            ch,
		TransactionBodies:      []conway.ConwayTransactionBody{},
		TransactionWitnessSets: []conway.ConwayTransactionWitnessSet{},
		TransactionMetadataSet: common.TransactionMetadataSet{},
		InvalidTransactions:    []uint{},
	}
	good, err := cbor.Encode(blk)
	if err != nil {
		pipeBlocksErr = "encode: " + err.Error()
		return
	}
	check := func(b []byte) (decoded, valid bool) {
		bl, err := ledger.NewBlockFromCbor(ledger.BlockTypeConway, b, common.VerifyConfig{SkipBodyHashValidation: true})
		if err != nil {
			return false, false
		}
		v, _, _, _, err := ledger.VerifyBlock(bl, pipeEta0, 129600, pipeVerifyConfig())
		return true, err == nil && v
	}
	if d, v := check(good); !d || !v {
		pipeBlocksErr = fmt.Sprintf("good fixture: decoded=%v valid=%v", d, v)
		return
	}
	// flip one byte in the middle of the KES signature (last byte string of the header)
	sig, _ := hex.DecodeString("f98c4cc67de8f50c320c6772b647ac99")
	idx := strings.Index(string(good), string(sig))
	if idx < 0 {
		pipeBlocksErr = "kes signature bytes not found in the encoded block"
		return
	}
	bad := append([]byte{}, good...)
	bad[idx+3] ^= 0x01
	if d, v := check(bad); !d || v {
		pipeBlocksErr = fmt.Sprintf("bad-validation fixture: decoded=%v valid=%v", d, v)
		return
	}
	if d, _ := check(pipeBadDecCbor); d {
		pipeBlocksErr = "bad-decode fixture decodes"
		return
	}
	pipeGoodCbor, pipeBadValCbor = good, bad
}

// ---------------------------------------------------------------- scenario

type pipeBlk struct {
	kind       byte // g d v
	to         int
	dd, vd, ad int
	hold       byte // - d v a q f
	group      int
	bg         bool
}

type pipeCmd struct {
	name string
	arg  int
	blk  int // index into blocks for s/bs
}

type pipeScenario struct {
	dw, vw, buf, mp int
	blocks          []pipeBlk
	cmds            []pipeCmd
}

func parsePipeScenario(op string) (*pipeScenario, bool) {
	parts := strings.SplitN(op, "|", 2)
	if len(parts) != 2 {
		return nil, false
	}
	hd := strings.Fields(parts[0])
	if (len(hd) != 4 && len(hd) != 5) || hd[0] != "pipe" {
		return nil, false
	}
	sc := &pipeScenario{}
	for i, key := range []string{"dw=", "vw=", "buf=", "mp="} {
		if i+1 >= len(hd) {
			break
		}
		if !strings.HasPrefix(hd[i+1], key) {
			return nil, false
		}
		v, err := strconv.Atoi(hd[i+1][len(key):])
		if err != nil || v < 0 || v > 64 {
			return nil, false
		}
		switch i {
		case 0:
			sc.dw = v
		case 1:
			sc.vw = v
		case 2:
			sc.buf = v
		case 3:
			sc.mp = v
		}
	}
	if sc.dw < 1 || sc.buf < 1 {
		return nil, false
	}
	for n, tok := range strings.Fields(parts[1]) {
		f := strings.Split(tok, ":")
		switch f[0] {
		case "s", "bs":
			if len(f) != 7 || len(f[1]) != 1 || len(f[6]) < 1 || len(f[6]) > 2 {
				return nil, false
			}
			b := pipeBlk{kind: f[1][0], hold: f[6][0], bg: f[0] == "bs"}
			if len(f[6]) == 2 {
				if f[6][1] < '0' || f[6][1] > '9' || b.hold == '-' {
					return nil, false
				}
				b.group = int(f[6][1] - '0')
			}
			if !strings.ContainsRune("gdv", rune(b.kind)) || !strings.ContainsRune("-dvaqf", rune(b.hold)) {
				return nil, false
			}
			var err [4]error
			b.to, err[0] = strconv.Atoi(f[2])
			b.dd, err[1] = strconv.Atoi(f[3])
			b.vd, err[2] = strconv.Atoi(f[4])
			b.ad, err[3] = strconv.Atoi(f[5])
			for _, e := range err {
				if e != nil {
					return nil, false
				}
			}
			if b.to < -1 || b.to > 1000 || b.dd < 0 || b.vd < 0 || b.ad < 0 || b.dd > 1000 || b.vd > 1000 || b.ad > 1000 {
				return nil, false
			}
			sc.cmds = append(sc.cmds, pipeCmd{name: f[0], blk: len(sc.blocks)})
			sc.blocks = append(sc.blocks, b)
		case "nostart":
			if len(f) != 1 || n != 0 {
				return nil, false
			}
			sc.cmds = append(sc.cmds, pipeCmd{name: f[0]})
		case "start", "gate", "open", "settle", "wturn", "wgu", "pc", "pcbg", "pcgo", "stop", "stopbg",
			"rpause", "rresume", "epause", "eresume":
			if len(f) != 1 {
				return nil, false
			}
			sc.cmds = append(sc.cmds, pipeCmd{name: f[0]})
		case "rel":
			c := pipeCmd{name: "rel", arg: -1}
			if len(f) == 2 {
				v, err := strconv.Atoi(f[1])
				if err != nil || v < 0 || v > 9 {
					return nil, false
				}
				c.arg = v
			} else if len(f) != 1 {
				return nil, false
			}
			sc.cmds = append(sc.cmds, c)
		case "drain", "sleep":
			if len(f) != 2 {
				return nil, false
			}
			v, err := strconv.Atoi(f[1])
			if err != nil || v < 0 || v > 10000 {
				return nil, false
			}
			sc.cmds = append(sc.cmds, pipeCmd{name: f[0], arg: v})
		default:
			return nil, false
		}
	}
	if len(sc.blocks) > 4000 {
		return nil, false
	}
	return sc, true
}

// ---------------------------------------------------------------- recorder

// item locations tracked from the trace (only used to decide when the pipeline is at rest)
const (
	locNone = iota
	locSubCh
	locDecW
	locDecCh
	locValW
	locValCh
	locHand
	locPending
	locDeq
	locInApply
	locOut
	locDone
	locGone
)

// pipeLatch is a gate that can be closed and opened repeatedly; wait() returns when it is open.
type pipeLatch struct {
	mu sync.Mutex
	ch chan struct{} // closed = open
}

func newPipeLatch() *pipeLatch {
	l := &pipeLatch{ch: make(chan struct{})}
	close(l.ch)
	return l
}

func (l *pipeLatch) isOpen() bool {
	l.mu.Lock()
	defer l.mu.Unlock()
	select {
	case <-l.ch:
		return true
	default:
		return false
	}
}

// shut closes the latch; reports whether it was open.
func (l *pipeLatch) shut() bool {
	l.mu.Lock()
	defer l.mu.Unlock()
	select {
	case <-l.ch:
		l.ch = make(chan struct{})
		return true
	default:
		return false
	}
}

// open opens the latch; reports whether it was shut.
func (l *pipeLatch) open() bool {
	l.mu.Lock()
	defer l.mu.Unlock()
	select {
	case <-l.ch:
		return false
	default:
		close(l.ch)
		return true
	}
}

func (l *pipeLatch) wait() {
	l.mu.Lock()
	ch := l.ch
	l.mu.Unlock()
	<-ch
}

type pipeRec struct {
	gen uint64
	sc  *pipeScenario

	mu           sync.Mutex
	events       []string
	loc          []int  // per block
	heldNow      []bool // per block: currently blocked in a hold point
	subSeen      []bool
	seqOf        []uint64
	curBlk       int // block dequeued by the apply stage and still in flight (-1: none)
	turnBlk      int // block of the submitter holding the submit turn (-1: none)
	subsInFlight int
	rsSent       int // results sent (rs minus rd)
	rrRead       int // results read from Results()
	stopped      bool
	started      bool
	drainPolls   int  // PendingCount results observed while WaitForDrain runs
	inDrain      bool // a WaitForDrain call is running
	pcHeld       bool // a background PendingCount is blocked between its two reads

	gate       *pipeLatch        // ApplyFunc gate
	resGate    *pipeLatch        // results reader
	errGate    *pipeLatch        // errors reader
	pcGate     *pipeLatch        // background PendingCount between its two reads
	relCh      [10]chan struct{} // closed = group released
	released   [10]atomic.Bool
	pcHoldNext atomic.Bool
}

var pipeCur atomic.Pointer[pipeRec]
var pipeGen atomic.Uint64

func init() {
	pipeline.VerifTrace = func(kind string, item *pipeline.BlockItem, n int) {
		if r := pipeCur.Load(); r != nil {
			r.onTrace(kind, item, n)
		}
	}
	pipeline.VerifStageDelay = func(stage string, item *pipeline.BlockItem) {
		if r := pipeCur.Load(); r != nil {
			r.onDelay(stage, item)
		}
	}
}

func (r *pipeRec) blkOf(item *pipeline.BlockItem) int {
	if item == nil {
		return -1
	}
	t := item.Tip()
	if t.BlockNumber != r.gen || t.Point.Slot >= uint64(len(r.sc.blocks)) {
		return -1 // an item of an earlier scenario (only possible after a TIMEOUT)
	}
	return int(t.Point.Slot)
}

func (r *pipeRec) ev(s string) {
	r.mu.Lock()
	r.events = append(r.events, s)
	r.mu.Unlock()
}

var pipeKinds = map[string]string{
	"alloc": "acq", "sub_ok": "sub", "sub_fail": "fail",
	"decode_take": "dt", "decode_put": "dp", "decode_drop": "dd",
	"validate_take": "vt", "validate_put": "vp", "validate_drop": "vd",
	"apply_take": "at", "apply_drop": "ax", "apply_buf": "ab", "apply_deq": "aq",
	"result": "rs", "result_drop": "rd",
}

func (r *pipeRec) onTrace(kind string, item *pipeline.BlockItem, n int) {
	switch kind {
	case "pending_processed":
		r.ev(fmt.Sprintf("pa:%d", n))
		return
	case "pending_count":
		r.mu.Lock()
		r.events = append(r.events, fmt.Sprintf("pb:%d", n))
		if r.inDrain {
			r.drainPolls++
		}
		r.mu.Unlock()
		return
	case "apply_fin":
		// the item dequeued last is no longer in flight (logged under the apply stage's mutex)
		r.mu.Lock()
		if b := r.curBlk; b >= 0 {
			r.curBlk = -1
			r.loc[b] = locOut
			r.events = append(r.events, fmt.Sprintf("ad:%d:%d", b, r.seqOf[b]))
		}
		r.mu.Unlock()
		return
	}
	short, ok := pipeKinds[kind]
	if !ok {
		return // alloc, apply_cancel, apply_done: not part of the model's alphabet
	}
	b := r.blkOf(item)
	if b < 0 {
		return
	}
	seq := item.SequenceNumber()
	r.mu.Lock()
	defer r.mu.Unlock()
	r.seqOf[b] = seq
	switch short {
	case "acq":
		r.turnBlk = b
	case "sub":
		r.turnBlk = -1
		if r.subSeen[b] {
			return // already inserted before the worker's take (see case "dt")
		}
		r.subSeen[b] = true
		r.loc[b] = locSubCh
	case "fail":
		r.turnBlk = -1
		r.loc[b] = locGone
	case "dt":
		if !r.subSeen[b] {
			r.turnBlk = -1
			// the decode worker received the item before Submit logged sub_ok:
			// the send happened first, so sub is logged here
			r.subSeen[b] = true
			r.events = append(r.events, fmt.Sprintf("sub:%d:%d", b, seq))
		}
		r.loc[b] = locDecW
	case "dp":
		r.loc[b] = locDecCh
	case "vt":
		r.loc[b] = locValW
	case "vp":
		r.loc[b] = locValCh
	case "dd", "vd", "ax":
		r.loc[b] = locGone
	case "at":
		r.loc[b] = locHand
	case "ab":
		r.loc[b] = locPending
	case "aq":
		r.loc[b] = locDeq
		r.curBlk = b
	case "rs", "rd":
		if short == "rs" {
			r.rsSent++
		} else {
			r.rsSent-- // the send announced by the preceding rs was abandoned
		}
		r.loc[b] = locDone
	}
	r.events = append(r.events, fmt.Sprintf("%s:%d:%d", short, b, seq))
}

func pipeSleep(units int) {
	if units > 0 {
		time.Sleep(time.Duration(units) * 100 * time.Microsecond)
	}
}

// hold blocks the calling pipeline goroutine until the block's group is released.
func (r *pipeRec) hold(b int) {
	g := r.sc.blocks[b].group
	if r.released[g].Load() {
		return
	}
	r.mu.Lock()
	r.heldNow[b] = true
	r.mu.Unlock()
	<-r.relCh[g]
	r.mu.Lock()
	r.heldNow[b] = false
	r.mu.Unlock()
}

func (r *pipeRec) onDelay(stage string, item *pipeline.BlockItem) {
	if stage == "pending_read" {
		if r.pcHoldNext.CompareAndSwap(true, false) {
			r.mu.Lock()
			r.pcHeld = true
			r.mu.Unlock()
			r.pcGate.wait()
			r.mu.Lock()
			r.pcHeld = false
			r.mu.Unlock()
		}
		return
	}
	b := r.blkOf(item)
	if b < 0 {
		return
	}
	bl := r.sc.blocks[b]
	switch stage {
	case "decode":
		pipeSleep(bl.dd)
		if bl.hold == 'd' {
			r.hold(b)
		}
	case "validate":
		pipeSleep(bl.vd)
		if bl.hold == 'v' {
			r.hold(b)
		}
	case "apply":
		if bl.hold == 'a' {
			r.hold(b)
		}
	case "apply_deq":
		if bl.hold == 'q' {
			r.hold(b)
		}
	}
}

func (r *pipeRec) applyFunc(item *pipeline.BlockItem) error {
	b := r.blkOf(item)
	if b < 0 {
		return nil
	}
	r.mu.Lock()
	r.loc[b] = locInApply
	r.events = append(r.events, fmt.Sprintf("ap:%d:%d", b, item.SequenceNumber()))
	r.heldNow[b] = true
	r.mu.Unlock()
	r.gate.wait()
	r.mu.Lock()
	r.heldNow[b] = false
	r.mu.Unlock()
	bl := r.sc.blocks[b]
	pipeSleep(bl.ad)
	if bl.hold == 'f' {
		r.hold(b)
	}
	return nil
}

// stable reports whether, according to the trace so far, no pipeline step is
// possible: every accepted block is finished, dropped, held at a hold point,
// buffered behind a missing sequence number, or waiting in a channel all of
// whose consumers are blocked. (A take that happened but is not logged yet
// shows as "item in a channel with a free consumer", i.e. not stable.)
func (r *pipeRec) stable() bool {
	r.mu.Lock()
	defer r.mu.Unlock()
	if r.subsInFlight > 0 || r.inDrain {
		return false
	}
	if !r.errGate.isOpen() {
		return false // a paused errors reader may block workers invisibly
	}
	// `rs` is logged before the send on the results channel (capacity buf): with the reader
	// paused, more than buf announced-but-unread results mean the apply goroutine is blocked
	// in that send
	fwdBlocked := false
	if !r.resGate.isOpen() {
		if r.rsSent-r.rrRead <= r.sc.buf {
			return false
		}
		fwdBlocked = true
	} else if !r.stopped && r.rsSent != r.rrRead {
		return false // a result is still on its way to the reader
	}
	gateOpen := r.gate.isOpen()
	decBusy, valBusy := 0, 0
	runnerBusy := fwdBlocked
	for b, l := range r.loc {
		held := r.heldNow[b] && !r.released[r.sc.blocks[b].group].Load()
		switch l {
		case locDecW:
			if !held {
				return false
			}
			decBusy++
		case locValW:
			if !held {
				return false
			}
			valBusy++
		case locHand:
			if !held {
				return false
			}
			runnerBusy = true
		case locDeq:
			// between dequeue and ApplyFunc: at rest only in a `q` hold
			if !(held && r.sc.blocks[b].hold == 'q') {
				return false
			}
			runnerBusy = true
		case locInApply:
			// blocked in ApplyFunc: by the closed gate or by an `f` hold
			if !r.heldNow[b] {
				return false
			}
			if gateOpen && !(held && r.sc.blocks[b].hold == 'f') {
				return false
			}
			runnerBusy = true
		}
	}
	for _, l := range r.loc {
		// processed, waiting to be forwarded: at rest only while the apply goroutine is held
		// on a later block of the same batch
		if l == locOut && !runnerBusy {
			return false
		}
	}
	for _, l := range r.loc {
		switch l {
		case locSubCh:
			if decBusy < r.sc.dw {
				return false
			}
		case locDecCh:
			if r.sc.vw > 0 {
				if valBusy < r.sc.vw {
					return false
				}
			} else if !runnerBusy {
				return false
			}
		case locValCh:
			if !runnerBusy {
				return false
			}
		}
	}
	return true
}

// settle waits until stable() holds (twice in a row, a moment apart: trace points
// lag the operations by a few instructions). The deadline is generous: "unsettled"
// is reported as a stalled pipeline.
func (r *pipeRec) settle(timeout time.Duration) bool {
	if pipeUnsettledSeen.Load() {
		timeout = 3 * time.Second // the run's verdict is settled already
	}
	deadline := time.Now().Add(timeout)
	for {
		if r.stable() {
			time.Sleep(300 * time.Microsecond)
			if r.stable() {
				return true
			}
		}
		if time.Now().After(deadline) {
			pipeUnsettledSeen.Store(true)
			return false
		}
		time.Sleep(200 * time.Microsecond)
	}
}

// pipeNormalise removes the "about to send" token of a block whose send was then
// abandoned because of cancellation: `rs` / `dp` / `vp` are logged before the
// channel send, `rd` / `dd` / `vd` when the select took the ctx.Done branch instead.
func pipeNormalise(ev []string) []string {
	dropped := map[string]bool{}
	intent := map[string]string{"rd:": "rs:", "dd:": "dp:", "vd:": "vp:"}
	for _, e := range ev {
		if len(e) > 3 {
			if in, ok := intent[e[:3]]; ok {
				dropped[in+e[3:]] = true
			}
		}
	}
	out := ev[:0:0]
	for _, e := range ev {
		if dropped[e] {
			continue
		}
		out = append(out, e)
	}
	return out
}

// pipeLeak counts the goroutines still executing pipeline code after Stop
// returned. Goroutines that are on their way out (deferred calls) get time to
// finish: only a goroutine that stays is reported.
func pipeLeak() int {
	deadline := time.Now().Add(30 * time.Second)
	wait := time.Millisecond
	for {
		buf := make([]byte, 1<<20)
		n := runtime.Stack(buf, true)
		c := 0
		for _, g := range strings.Split(string(buf[:n]), "\n\n") {
			if strings.Contains(g, "gouroboros/pipeline.") && !strings.Contains(g, "main.runPipe") {
				c++
			}
		}
		if c == 0 || time.Now().After(deadline) {
			return c
		}
		time.Sleep(wait)
		if wait < 200*time.Millisecond {
			wait *= 2
		}
	}
}

const pipeDeadline = 60 * time.Second

// once a Stop has been seen to hang the verdict of the run is settled; later scenarios
// do not wait the full deadline again
var pipeStopHungSeen atomic.Bool
var pipeUnsettledSeen atomic.Bool

func pipeStopWait() time.Duration {
	if pipeStopHungSeen.Load() {
		return 3 * time.Second
	}
	return pipeDeadline
}

// runPipe executes one scenario against the real pipeline.
func runPipe(op string) string {
	sc, ok := parsePipeScenario(op)
	if !ok {
		return "bad-op"
	}
	pipeBlocksOnce.Do(pipeBuildBlocks)
	if pipeBlocksErr != "" {
		return "fixture-error " + pipeBlocksErr
	}
	nb := len(sc.blocks)
	r := &pipeRec{
		gen: pipeGen.Add(1), sc: sc, curBlk: -1, turnBlk: -1,
		loc: make([]int, nb), heldNow: make([]bool, nb), subSeen: make([]bool, nb), seqOf: make([]uint64, nb),
		gate: newPipeLatch(), resGate: newPipeLatch(), errGate: newPipeLatch(), pcGate: newPipeLatch(),
	}
	for g := range r.relCh {
		r.relCh[g] = make(chan struct{})
	}
	pipeCur.Store(r)
	defer pipeCur.CompareAndSwap(r, nil)

	opts := []pipeline.PipelineOption{
		pipeline.WithDecodeWorkers(sc.dw),
		pipeline.WithValidateWorkers(sc.vw),
		pipeline.WithPrefetchBufferSize(sc.buf),
		pipeline.WithSkipBodyHashValidation(true),
		pipeline.WithApplyFunc(r.applyFunc),
	}
	if sc.mp > 0 {
		opts = append(opts, pipeline.WithMaxPendingBlocks(sc.mp))
	}
	if sc.vw > 0 {
		opts = append(opts,
			pipeline.WithEta0Provider(pipeline.StaticEta0Provider(pipeEta0)),
			pipeline.WithSlotsPerKesPeriod(129600),
			pipeline.WithVerifyConfig(pipeVerifyConfig()))
	}
	p := pipeline.NewBlockPipeline(opts...)
	var readers sync.WaitGroup
	startErr := ""
	doStart := func() {
		r.mu.Lock()
		already := r.started
		r.mu.Unlock()
		if already {
			return
		}
		if err := p.Start(context.Background()); err != nil {
			if startErr == "" {
				startErr = err.Error()
			}
			r.ev("start_err")
			return
		}
		r.mu.Lock()
		r.started = true
		r.events = append(r.events, "start")
		r.mu.Unlock()
		readers.Add(2)
		results, errs := p.Results(), p.Errors()
		go func() {
			defer readers.Done()
			for {
				r.resGate.wait()
				item, ok := <-results
				if !ok {
					return
				}
				if b := r.blkOf(item); b >= 0 {
					r.mu.Lock()
					r.rrRead++
					r.events = append(r.events, fmt.Sprintf("rr:%d:%d", b, item.SequenceNumber()))
					r.mu.Unlock()
				}
			}
		}()
		go func() {
			defer readers.Done()
			for {
				r.errGate.wait()
				if _, ok := <-errs; !ok {
					return
				}
			}
		}()
	}

	var bg sync.WaitGroup
	var stopOnce sync.Once
	stopDone := make(chan struct{})
	doStop := func() {
		r.mu.Lock()
		started := r.started
		r.mu.Unlock()
		if !started {
			_ = p.Stop() // a no-op on a pipeline that was never started
			r.ev("stop_noop")
			return
		}
		stopOnce.Do(func() {
			r.mu.Lock()
			r.stopped = true
			r.events = append(r.events, "stop_begin")
			r.mu.Unlock()
			ret := make(chan struct{})
			go func() { _ = p.Stop(); close(ret) }()
			select {
			case <-ret:
			case <-time.After(pipeStopWait()):
				// Stop does not return while a stream is unread: report it, then unblock it
				pipeStopHungSeen.Store(true)
				r.ev("stop_hung")
				r.resGate.open()
				r.errGate.open()
				<-ret
			}
			r.ev("stop_ok")
			close(stopDone)
		})
	}
	openGate := func() {
		if r.gate.open() {
			r.ev("open")
		}
	}
	release := func(g int) {
		logged := false
		for i := range r.relCh {
			if (g < 0 || g == i) && !r.released[i].Swap(true) {
				close(r.relCh[i])
				if !logged {
					r.ev("rel")
					logged = true
				}
			}
		}
	}
	resume := func() {
		r.resGate.open()
		r.errGate.open()
	}
	var pcWG sync.WaitGroup
	pcGo := func() {
		r.pcHoldNext.Store(false)
		r.pcGate.open()
		pcWG.Wait()
	}
	submit := func(b int) {
		bl := sc.blocks[b]
		ctx := context.Background()
		cancel := func() {}
		switch {
		case bl.to == -1:
			ctx, cancel = context.WithCancel(ctx)
			cancel()
		case bl.to > 0:
			ctx, cancel = context.WithTimeout(ctx, time.Duration(bl.to)*time.Millisecond)
		}
		raw := pipeGoodCbor
		switch bl.kind {
		case 'd':
			raw = pipeBadDecCbor
		case 'v':
			raw = pipeBadValCbor
		}
		tip := pcommon.Tip{Point: pcommon.NewPoint(uint64(b), []byte{1}), BlockNumber: r.gen}
		r.mu.Lock()
		r.events = append(r.events, fmt.Sprintf("en:%d", b))
		r.mu.Unlock()
		err := p.Submit(ctx, uint(ledger.BlockTypeConway), raw, tip)
		cancel()
		r.mu.Lock()
		r.subsInFlight--
		if err != nil && r.loc[b] == locNone {
			// returned an error without ever holding the turn (not started, stopped, or gave up
			// waiting for its turn): no sequence number was allocated
			r.loc[b] = locGone
			r.events = append(r.events, fmt.Sprintf("gu:%d", b))
		}
		r.mu.Unlock()
	}

	autoStart := len(sc.cmds) == 0 || sc.cmds[0].name != "nostart"
	if autoStart {
		doStart()
	}
	for _, c := range sc.cmds {
		switch c.name {
		case "nostart":
		case "start":
			doStart()
		case "s", "bs":
			// counted before the goroutine starts: `wgu` / stable() must see a background
			// submission that has not reached Submit yet
			r.mu.Lock()
			r.subsInFlight++
			r.mu.Unlock()
			if c.name == "s" {
				submit(c.blk)
			} else {
				bg.Add(1)
				go func(b int) { defer bg.Done(); submit(b) }(c.blk)
			}
		case "gate":
			if r.gate.shut() {
				r.ev("gate")
			}
		case "open":
			openGate()
		case "rel":
			release(c.arg)
		case "rpause":
			r.resGate.shut()
		case "rresume":
			r.resGate.open()
		case "epause":
			r.errGate.shut()
		case "eresume":
			r.errGate.open()
		case "wturn", "wgu":
			for dl := time.Now().Add(pipeDeadline); time.Now().Before(dl); time.Sleep(100 * time.Microsecond) {
				r.mu.Lock()
				holder, inFlight := r.turnBlk, r.subsInFlight
				r.mu.Unlock()
				if c.name == "wturn" && (holder >= 0 || inFlight == 0) {
					// a holder is blocked with the turn — or every background Submit has
					// already returned (the pipeline was not full after all): nothing to wait for
					break
				}
				if c.name == "wgu" && ((holder >= 0 && inFlight <= 1) || inFlight == 0) {
					break
				}
			}
		case "settle":
			if r.settle(pipeDeadline) {
				r.ev("settled")
			} else {
				r.ev("unsettled")
			}
		case "pc":
			atRest := r.stable()
			n := p.PendingCount()
			if atRest && r.stable() {
				r.ev(fmt.Sprintf("pcq:%d", n))
			} else {
				r.ev(fmt.Sprintf("pc:%d", n))
			}
		case "pcbg":
			r.mu.Lock()
			busy := r.pcHeld || !r.started
			r.mu.Unlock()
			if busy || r.pcHoldNext.Load() {
				break
			}
			r.pcGate.shut()
			r.pcHoldNext.Store(true)
			pcWG.Add(1)
			go func() { defer pcWG.Done(); _ = p.PendingCount() }()
			// wait until the call is parked between its two reads
			for dl := time.Now().Add(pipeDeadline); time.Now().Before(dl); time.Sleep(100 * time.Microsecond) {
				r.mu.Lock()
				held := r.pcHeld
				r.mu.Unlock()
				if held {
					break
				}
			}
		case "pcgo":
			pcGo()
		case "drain":
			r.mu.Lock()
			started := r.started
			r.mu.Unlock()
			if !started {
				break
			}
			pcGo() // a parked PendingCount call must not be mistaken for one of WaitForDrain's polls
			r.mu.Lock()
			r.inDrain = true
			r.drainPolls = 0
			r.events = append(r.events, "drain_begin")
			r.mu.Unlock()
			done := make(chan error, 1)
			ctx, cancel := context.WithTimeout(context.Background(), 2*pipeDeadline)
			go func() { done <- p.WaitForDrain(ctx) }()
			var err error
			returned := false
			// event-synchronised: WaitForDrain's own polls are observed through the hook
			for dl := time.Now().Add(pipeDeadline); !returned; time.Sleep(200 * time.Microsecond) {
				select {
				case err = <-done:
					returned = true
					continue
				default:
				}
				r.mu.Lock()
				polls := r.drainPolls
				r.mu.Unlock()
				if polls >= c.arg {
					break
				}
				if time.Now().After(dl) {
					r.ev("drain_nopoll")
					break
				}
			}
			if !returned {
				openGate()
				release(-1)
				resume()
				err = <-done
			}
			cancel()
			r.mu.Lock()
			r.inDrain = false
			if err == nil {
				r.events = append(r.events, "drain_ok")
			} else {
				r.events = append(r.events, "drain_err")
			}
			r.mu.Unlock()
		case "stop":
			doStop()
		case "stopbg":
			bg.Add(1)
			go func() { defer bg.Done(); doStop() }()
		case "sleep":
			pipeSleep(c.arg)
		}
	}
	openGate()
	release(-1)
	resume()
	pcGo()
	bg.Wait()
	r.mu.Lock()
	stopped, started := r.stopped, r.started
	r.mu.Unlock()
	if started && !stopped {
		if r.settle(pipeDeadline) {
			r.ev("settled")
		} else {
			r.ev("unsettled")
		}
	}
	if started {
		doStop()
		<-stopDone
		readers.Wait()
	}
	r.ev(fmt.Sprintf("leak:%d", pipeLeak()))
	r.mu.Lock()
	ev := pipeNormalise(r.events)
	r.mu.Unlock()
	return strings.Join(ev, " ")
}
