package main

// Engine fixture shared by C11, C12, C14 and C16: one REAL protocol.Protocol
// (state map, codec and state context taken from the real client/server
// constructor of the protocol package, handler replaced by a recorder)
// running on a real muxer over an in-memory pipe; the other end of the pipe is
// a raw peer controlled by the harness (it writes mux segments byte by byte as
// the op says and parses everything the engine writes).

import (
	"bytes"
	"encoding/binary"
	"fmt"
	"io"
	"net"
	"runtime"
	"strings"
	"sync"
	"sync/atomic"
	"time"

	"github.com/blinklabs-io/gouroboros/cbor"
	"github.com/blinklabs-io/gouroboros/muxer"
	"github.com/blinklabs-io/gouroboros/protocol"
)

type g3Event struct {
	Kind    string
	A, B, C uint64
	Data    string
	At      time.Time
}

type g3Fixture struct {
	proto *g3Proto
	role  protocol.ProtocolRole
	P     *protocol.Protocol
	cfg   protocol.ProtocolConfig
	mux   *muxer.Muxer
	local net.Conn
	peer  net.Conn
	errCh chan error

	mu     sync.Mutex
	cond   *sync.Cond
	events []g3Event
	wire   []uint8 // message types parsed from the engine's outbound byte stream, in order
	wireB  bytes.Buffer
	peerBytes uint64 // payload bytes the raw peer has received from the engine
	segLens   []int  // payload length of every segment the raw peer has received
	muxDone    bool          // the muxer has shut down (its error channel was closed)
	readerDone chan struct{} // closed when the raw peer's reader has seen EOF
	closed bool

	// optional perturbation: called (outside the lock) at every hook event
	perturb func(kind string)
	// handler behaviour
	onHandle func(msg protocol.Message) error
}

var (
	g3FixMu   sync.RWMutex
	g3Fixtures = map[*protocol.Protocol]*g3Fixture{}
)

func init() {
	protocol.VerifTrace = func(p *protocol.Protocol, kind string, a, b, c uint64, data []byte) {
		g3FixMu.RLock()
		f := g3Fixtures[p]
		g3FixMu.RUnlock()
		if f == nil {
			return
		}
		f.mu.Lock()
		f.events = append(f.events, g3Event{kind, a, b, c, string(data), time.Now()})
		f.cond.Broadcast()
		pf := f.perturb
		f.mu.Unlock()
		if pf != nil {
			pf(kind)
		}
	}
}

type g3FixOpts struct {
	// scale > 0: every state timeout (and TimeoutFunc) is divided by scale
	scale     int64
	stateMap  func(protocol.StateMap) protocol.StateMap
	perturb   func(kind string)
	onHandle  func(msg protocol.Message) error
	recvQueue int
	// slowTimers: every state timeout is raised to at least one hour
	slowTimers bool
	noStart   bool
}

func newG3Fixture(p *g3Proto, role protocol.ProtocolRole, o g3FixOpts) *g3Fixture {
	a, b := net.Pipe()
	f := &g3Fixture{proto: p, role: role, local: a, peer: b, errCh: make(chan error, 64), perturb: o.perturb, onHandle: o.onHandle}
	f.cond = sync.NewCond(&f.mu)
	f.readerDone = make(chan struct{})
	f.mux = muxer.New(a)
	go f.watchMux()
	opts := protocol.ProtocolOptions{Muxer: f.mux, ErrorChan: f.errCh, Mode: p.Mode, Role: role, Version: p.Version}
	built := p.Build(role, opts)
	cfg := built.VerifConfig()
	cfg.MessageHandlerFunc = func(m protocol.Message) error {
		if f.onHandle != nil {
			return f.onHandle(m)
		}
		return nil
	}
	cfg.ErrorChan = f.errCh
	if o.recvQueue > 0 {
		cfg.RecvQueueSize = o.recvQueue
	}
	sm := cfg.StateMap.Copy()
	if o.scale > 0 {
		for s, e := range sm {
			e.Timeout = e.Timeout / time.Duration(o.scale)
			if e.TimeoutFunc != nil {
				orig := e.TimeoutFunc
				sc := o.scale
				e.TimeoutFunc = func() time.Duration { return orig() / time.Duration(sc) }
			}
			sm[s] = e
		}
	}
	if o.slowTimers {
		// runs that are not about time: no state timeout may fire because the machine is slow
		for s, e := range sm {
			if e.Timeout > 0 && e.Timeout < time.Hour {
				e.Timeout = time.Hour
			}
			if e.TimeoutFunc != nil {
				e.TimeoutFunc = func() time.Duration { return time.Hour }
			}
			sm[s] = e
		}
	}
	if o.stateMap != nil {
		sm = o.stateMap(sm)
	}
	cfg.StateMap = sm
	f.cfg = cfg
	f.P = protocol.New(cfg)
	g3FixMu.Lock()
	g3Fixtures[f.P] = f
	g3FixMu.Unlock()
	go f.peerReader()
	if !o.noStart {
		f.start()
	}
	return f
}

func (f *g3Fixture) start() {
	f.mux.Start()
	f.P.Start()
}

// peerReader drains the pipe (net.Pipe is synchronous) and splits the engine's byte
// stream into segments and CBOR messages.
// watchMux notes when the muxer has shut down completely (all its goroutines have exited:
// nothing more will be written to the connection).
func (f *g3Fixture) watchMux() {
	for range f.mux.ErrorChan() {
	}
	f.mu.Lock()
	f.muxDone = true
	f.cond.Broadcast()
	f.mu.Unlock()
}

func (f *g3Fixture) peerReader() {
	defer close(f.readerDone)
	hdr := make([]byte, 8)
	for {
		if _, err := io.ReadFull(f.peer, hdr); err != nil {
			return
		}
		n := binary.BigEndian.Uint16(hdr[6:8])
		payload := make([]byte, n)
		if _, err := io.ReadFull(f.peer, payload); err != nil {
			return
		}
		f.mu.Lock()
		f.peerBytes += uint64(len(payload))
		f.segLens = append(f.segLens, len(payload))
		f.wireB.Write(payload)
		for f.wireB.Len() > 0 {
			var raw []cbor.RawMessage
			k, err := cbor.Decode(f.wireB.Bytes(), &raw)
			if err != nil || k == 0 || len(raw) == 0 {
				break // incomplete message: wait for the next segment
			}
			var t uint
			if _, err := cbor.Decode(raw[0], &t); err != nil {
				break
			}
			f.wire = append(f.wire, uint8(t))
			f.wireB.Next(k)
		}
		f.cond.Broadcast()
		f.mu.Unlock()
	}
}

// peerSegment writes one mux segment carrying the given payload, as if sent by the peer.
func (f *g3Fixture) peerSegment(payload []byte) error {
	id := f.cfg.ProtocolId
	if f.role == protocol.ProtocolRoleClient {
		id |= 0x8000 // we play the responder
	}
	buf := make([]byte, 8+len(payload))
	binary.BigEndian.PutUint32(buf[0:4], 0)
	binary.BigEndian.PutUint16(buf[4:6], id)
	binary.BigEndian.PutUint16(buf[6:8], uint16(len(payload)))
	copy(buf[8:], payload)
	_ = f.peer.SetWriteDeadline(time.Now().Add(g3Deadline))
	_, err := f.peer.Write(buf)
	return err
}

func (f *g3Fixture) peerSendMsgs(msgs ...protocol.Message) error {
	var pl []byte
	for _, m := range msgs {
		d, err := cbor.Encode(m)
		if err != nil {
			return err
		}
		pl = append(pl, d...)
	}
	return f.peerSegment(pl)
}

// waitFor blocks until pred(events) holds or the timeout expires.
// g3StuckCount counts synchronisation waits that ran into g3Deadline in this process.  After a
// few of them the verdict of the run is a violation anyway, and the remaining ops use a short
// deadline so that a hanging engine does not make the check run for hours.
var g3StuckCount atomic.Int32

func (f *g3Fixture) waitFor(timeout time.Duration, pred func(ev []g3Event, wire []uint8) bool) bool {
	sync := timeout == g3Deadline
	if sync && g3StuckCount.Load() >= 3 {
		timeout = 5 * time.Second
	}
	ok := f.waitFor1(timeout, pred)
	if sync && !ok {
		g3StuckCount.Add(1)
	}
	return ok
}

func (f *g3Fixture) waitFor1(timeout time.Duration, pred func(ev []g3Event, wire []uint8) bool) bool {
	deadline := time.Now().Add(timeout)
	stop := make(chan struct{})
	defer close(stop)
	go func() {
		t := time.NewTimer(timeout + 10*time.Millisecond)
		defer t.Stop()
		select {
		case <-t.C:
			f.mu.Lock()
			f.cond.Broadcast()
			f.mu.Unlock()
		case <-stop:
		}
	}()
	f.mu.Lock()
	defer f.mu.Unlock()
	for !pred(f.events, f.wire) {
		if time.Now().After(deadline) {
			return false
		}
		f.cond.Wait()
	}
	return true
}

// g3Deadline is the deadline of every synchronisation wait: it only matters when the engine
// is really stuck; all waits return as soon as the awaited event has been observed.
const g3Deadline = 90 * time.Second

// waitWireDrained blocks until the raw peer has received every payload byte the engine has
// handed to the muxer so far (sum of the `seg` hook events), so that the wire observation
// does not depend on how fast the muxer and the peer goroutine are scheduled.  If the muxer
// has shut down (after a protocol error the protocol unregisters itself, and the next segment
// of the peer for it makes the muxer stop and drop what it had not written yet) nothing more
// will arrive: that also ends the wait.
func (f *g3Fixture) waitWireDrained() bool {
	return f.waitFor(g3Deadline, func(ev []g3Event, _ []uint8) bool {
		var segs uint64
		for _, e := range ev {
			if e.Kind == "seg" {
				segs += e.A
			}
		}
		return f.peerBytes >= segs || f.muxDone
	})
}

func (f *g3Fixture) count(kinds ...string) int {
	f.mu.Lock()
	defer f.mu.Unlock()
	n := 0
	for _, e := range f.events {
		for _, k := range kinds {
			if e.Kind == k {
				n++
			}
		}
	}
	return n
}

func (f *g3Fixture) snapshot() ([]g3Event, []uint8) {
	f.mu.Lock()
	defer f.mu.Unlock()
	return append([]g3Event{}, f.events...), append([]uint8{}, f.wire...)
}

func (f *g3Fixture) close() {
	f.mu.Lock()
	if f.closed {
		f.mu.Unlock()
		return
	}
	f.closed = true
	f.mu.Unlock()
	// muxer first: Protocol.Stop() unregisters from the muxer, which blocks while the muxer's
	// readLoop is blocked delivering to a protocol that no longer reads (peer flooding after an
	// error); stopping the muxer releases that.
	f.mux.Stop()
	_ = f.peer.Close()
	_ = f.local.Close()
	f.P.Stop()
	// the reader sees EOF once the pipe is closed: after that every byte that was written
	// has been recorded
	select {
	case <-f.readerDone:
	case <-time.After(g3Deadline):
	}
	// let the engine goroutines observe the shutdown, then forget the fixture
	select {
	case <-f.P.DoneChan():
	case <-time.After(g3Deadline):
	}
	g3FixMu.Lock()
	delete(g3Fixtures, f.P)
	g3FixMu.Unlock()
}

// render the event trace as space-separated tokens (only the kinds asked for)
func g3Render(ev []g3Event, kinds string) string {
	want := map[string]bool{}
	for _, k := range strings.Fields(kinds) {
		want[k] = true
	}
	var sb strings.Builder
	for _, e := range ev {
		if !want[e.Kind] {
			continue
		}
		if sb.Len() > 0 {
			sb.WriteByte(' ')
		}
		switch e.Kind {
		case "error", "errdrop":
			fmt.Fprintf(&sb, "%s:%s", e.Kind, g3ErrClass(e.Data))
		default:
			fmt.Fprintf(&sb, "%s:%d:%d:%d", e.Kind, e.A, e.B, e.C)
		}
	}
	if sb.Len() == 0 {
		return "-"
	}
	return sb.String()
}

// g3ErrClass maps an engine error text to a small enum.
func g3ErrClass(s string) string {
	switch {
	case strings.Contains(s, "timeout waiting on transition"):
		return "timeout"
	case strings.Contains(s, "not allowed in current protocol state") && strings.Contains(s, "error handling message"):
		return "recv-not-allowed"
	case strings.Contains(s, "not allowed in current protocol state") && strings.Contains(s, "error sending message"):
		return "send-not-allowed"
	case strings.Contains(s, "unknown message type"):
		return "unknown-type"
	case strings.Contains(s, "decode error"):
		return "decode"
	case strings.Contains(s, "oversized"):
		return "oversized"
	case strings.Contains(s, "zero-byte") || strings.Contains(s, "empty message"):
		return "empty"
	case strings.Contains(s, "handler"):
		return "handler"
	default:
		return "other"
	}
}

func g3Gosched(n int) {
	for i := 0; i < n; i++ {
		runtime.Gosched()
	}
}
