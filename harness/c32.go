package main

// C32 — collateral rules. The op line is an abstract script transaction; Run
// builds the era's concrete transaction/ledger state/parameters and runs the
// era's whole UtxoValidationRules list, classifying errors by type.

import (
	"errors"
	"fmt"
	"math/big"
	"strconv"
	"strings"

	"github.com/blinklabs-io/gouroboros/cbor"
	"github.com/blinklabs-io/gouroboros/ledger/alonzo"
	"github.com/blinklabs-io/gouroboros/ledger/babbage"
	"github.com/blinklabs-io/gouroboros/ledger/common"
	"github.com/blinklabs-io/gouroboros/ledger/conway"
	"github.com/blinklabs-io/gouroboros/ledger/dijkstra"
	"github.com/blinklabs-io/gouroboros/ledger/mary"
	"github.com/blinklabs-io/gouroboros/ledger/shelley"
	mockledger "github.com/blinklabs-io/ouroboros-mock/ledger"
)

const c32TxId = "d228b482a1aae768e4a796380f49e021d9c21f70d3c12cb186b188dedfc0ee22"

func init() {
	register(&Prop{ID: "C32", Gen: genC32, Run: runC32})
}

func genC32(r *Rand, n int, tier string, emit func(string)) {
	eras := []string{"alonzo", "babbage", "conway", "dijkstra"}
	for i := 0; i < n; i++ {
		era := eras[r.Intn(4)]
		red := !r.Chance(1, 8)
		pct := Pick(r, uint64(150), 150, 100, 0, 1, 99, 101, 250, uint64(r.Intn(1000)))
		var fee uint64
		switch r.Intn(5) {
		case 0:
			fee = uint64(r.Intn(10))
		case 1:
			fee = r.EdgeU64() >> 8
		default:
			fee = uint64(r.Intn(2000000))
		}
		nIn := Pick(r, 0, 1, 1, 2, 3, 4)
		max := Pick(r, 3, 3, 1, 0, 2, 5)
		// exact threshold: need = ceil(fee*pct/100); spread it over inputs, off by -1/0/+1
		prod := new(big.Int).Mul(new(big.Int).SetUint64(fee), new(big.Int).SetUint64(pct))
		need := new(big.Int).Add(prod, big.NewInt(99))
		need.Div(need, big.NewInt(100))
		floor := new(big.Int).Div(prod, big.NewInt(100))
		var target *big.Int
		switch r.Intn(6) {
		case 0:
			target = floor
		case 1:
			target = need
		case 2:
			target = new(big.Int).Sub(need, big.NewInt(1))
		case 3:
			target = new(big.Int).Add(need, big.NewInt(1))
		case 4:
			target = new(big.Int).SetUint64(uint64(r.Intn(3000000)))
		default:
			target = new(big.Int).Sub(floor, big.NewInt(1))
		}
		if target.Sign() < 0 || !target.IsUint64() || target.Uint64() > 1<<62 {
			target = big.NewInt(int64(r.Intn(1000)))
		}
		tgt := target.Uint64()
		// collateral return (Babbage+): sometimes present, shifts the balance
		ret := "-"
		var retCoin uint64
		hasTok := r.Chance(1, 4)
		tokTotal := uint64(0)
		coins := make([]uint64, nIn)
		toks := make([]uint64, nIn)
		if era != "alonzo" && r.Chance(1, 2) {
			retCoin = uint64(r.Intn(1000))
		}
		remaining := tgt + retCoin
		for j := 0; j < nIn; j++ {
			if j == nIn-1 {
				coins[j] = remaining
			} else {
				c := uint64(0)
				if remaining > 0 {
					c = r.U64() % (remaining + 1)
				}
				coins[j] = c
				remaining -= c
			}
			if hasTok && r.Chance(1, 2) {
				toks[j] = uint64(r.Intn(5))
				tokTotal += toks[j]
			}
		}
		if era != "alonzo" && (retCoin > 0 || r.Chance(1, 3)) {
			rt := tokTotal
			if r.Chance(1, 4) {
				rt = uint64(r.Intn(6))
			}
			ret = fmt.Sprintf("%d:%d", retCoin, rt)
		}
		var sb strings.Builder
		fmt.Fprintf(&sb, "coll %s %s %d %d %d %s %d", era, b01(red), fee, pct, max, ret, nIn)
		for j := 0; j < nIn; j++ {
			fmt.Fprintf(&sb, " %d %d", coins[j], toks[j])
		}
		emit(sb.String())
	}
}

func b01(b bool) string {
	if b {
		return "1"
	}
	return "0"
}

func c32Assets(q uint64) *common.MultiAsset[common.MultiAssetTypeOutput] {
	ma := common.NewMultiAsset[common.MultiAssetTypeOutput](
		map[common.Blake2b224]map[cbor.ByteString]common.MultiAssetTypeOutput{
			common.Blake2b224Hash([]byte("abcd")): {
				cbor.NewByteString([]byte("efgh")): new(big.Int).SetUint64(q),
			},
		},
	)
	return &ma
}

func runC32(op string) string {
	f := strings.Fields(op)
	if len(f) < 8 || f[0] != "coll" {
		return "bad-op"
	}
	era := f[1]
	red := f[2] == "1"
	fee, e1 := strconv.ParseUint(f[3], 10, 64)
	pct, e2 := strconv.ParseUint(f[4], 10, 64)
	max, e3 := strconv.ParseUint(f[5], 10, 64)
	nIn, e4 := strconv.Atoi(f[7])
	if e1 != nil || e2 != nil || e3 != nil || e4 != nil || len(f) != 8+2*nIn {
		return "bad-op"
	}
	var retOut *babbage.BabbageTransactionOutput
	if f[6] != "-" {
		p := strings.Split(f[6], ":")
		if len(p) != 2 {
			return "bad-op"
		}
		rc, e5 := strconv.ParseUint(p[0], 10, 64)
		rt, e6 := strconv.ParseUint(p[1], 10, 64)
		if e5 != nil || e6 != nil {
			return "bad-op"
		}
		v := mary.MaryTransactionOutputValue{Amount: rc}
		if rt > 0 {
			v.Assets = c32Assets(rt)
		}
		retOut = &babbage.BabbageTransactionOutput{OutputAmount: v}
	}
	utxos := []common.Utxo{}
	ins := []shelley.ShelleyTransactionInput{}
	for j := 0; j < nIn; j++ {
		c, e7 := strconv.ParseUint(f[8+2*j], 10, 64)
		t, e8 := strconv.ParseUint(f[9+2*j], 10, 64)
		if e7 != nil || e8 != nil {
			return "bad-op"
		}
		in := shelley.NewShelleyTransactionInput(c32TxId, j)
		ins = append(ins, in)
		var out common.TransactionOutput
		if t > 0 {
			out = babbage.BabbageTransactionOutput{
				OutputAmount: mary.MaryTransactionOutputValue{Amount: c, Assets: c32Assets(t)},
			}
			if era == "alonzo" {
				out = alonzo.AlonzoTransactionOutput{
					OutputAmount: mary.MaryTransactionOutputValue{Amount: c, Assets: c32Assets(t)},
				}
			}
		} else {
			out = shelley.ShelleyTransactionOutput{OutputAmount: c}
		}
		utxos = append(utxos, common.Utxo{Id: in, Output: out})
	}
	ls := mockledger.NewLedgerStateBuilder().WithUtxos(utxos).Build()
	coll := cbor.NewSetType(ins, false)
	legacyRed := alonzo.AlonzoRedeemers{}
	mapRed := map[common.RedeemerKey]common.RedeemerValue{}
	if red {
		legacyRed.Redeemers = []alonzo.AlonzoRedeemer{{}}
		mapRed[common.RedeemerKey{}] = common.RedeemerValue{}
	}
	var tx common.Transaction
	var pp common.ProtocolParameters
	var rules []common.UtxoValidationRuleFunc
	switch era {
	case "alonzo":
		if retOut != nil {
			return "bad-op"
		}
		t := &alonzo.AlonzoTransaction{}
		t.Body.TxFee = fee
		t.Body.TxCollateral = coll
		t.WitnessSet.WsRedeemers = legacyRed
		tx = t
		pp = &alonzo.AlonzoProtocolParameters{CollateralPercentage: uint(pct), MaxCollateralInputs: uint(max)}
		rules = alonzo.UtxoValidationRules
	case "babbage":
		t := &babbage.BabbageTransaction{}
		t.Body.TxFee = fee
		t.Body.TxCollateral = coll
		t.Body.TxCollateralReturn = retOut
		t.WitnessSet.WsRedeemers = legacyRed
		tx = t
		pp = &babbage.BabbageProtocolParameters{CollateralPercentage: uint(pct), MaxCollateralInputs: uint(max)}
		rules = babbage.UtxoValidationRules
	case "conway":
		t := &conway.ConwayTransaction{}
		t.Body.TxFee = fee
		t.Body.TxCollateral = coll
		t.Body.TxCollateralReturn = retOut
		t.WitnessSet.WsRedeemers = conway.ConwayRedeemers{Redeemers: mapRed}
		tx = t
		pp = &conway.ConwayProtocolParameters{CollateralPercentage: uint(pct), MaxCollateralInputs: uint(max)}
		rules = conway.UtxoValidationRules
	case "dijkstra":
		t := &dijkstra.DijkstraTransaction{}
		t.Body.TxFee = fee
		t.Body.TxCollateral = coll
		if retOut != nil {
			t.Body.TxCollateralReturn = &dijkstra.DijkstraTransactionOutput{Output: retOut}
		}
		t.WitnessSet.WsRedeemers = dijkstra.DijkstraRedeemers{Redeemers: mapRed}
		tx = t
		dp := &dijkstra.DijkstraProtocolParameters{}
		dp.CollateralPercentage = uint(pct)
		dp.MaxCollateralInputs = uint(max)
		pp = dp
		rules = dijkstra.UtxoValidationRules
	default:
		return "bad-op"
	}
	insuff, nonada, nocoll, toomany := 1, 1, 1, 1
	for _, rule := range rules {
		err := safeRule(rule, tx, 0, ls, pp)
		if err == nil {
			continue
		}
		var e1 alonzo.InsufficientCollateralError
		var e2 alonzo.CollateralContainsNonAdaError
		var e3 alonzo.NoCollateralInputsError
		var e4 babbage.TooManyCollateralInputsError
		var e5 alonzo.TooManyCollateralInputsError
		switch {
		case errors.As(err, &e1):
			insuff = 0
		case errors.As(err, &e2):
			nonada = 0
		case errors.As(err, &e3):
			nocoll = 0
		case errors.As(err, &e4), errors.As(err, &e5):
			toomany = 0
		}
	}
	return fmt.Sprintf("acc=%d insuff=%d nonada=%d nocoll=%d toomany=%d", insuff&nonada&nocoll&toomany, insuff, nonada, nocoll, toomany)
}

// safeRule runs one validation rule; rules unrelated to the property may
// panic on the partially built transaction — that is not what is measured.
func safeRule(rule common.UtxoValidationRuleFunc, tx common.Transaction, slot uint64, ls common.LedgerState, pp common.ProtocolParameters) (err error) {
	defer func() {
		if e := recover(); e != nil {
			err = fmt.Errorf("rule panicked: %v", e)
		}
	}()
	return rule(tx, slot, ls, pp)
}
