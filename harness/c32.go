package main

// C32 — collateral rules. The op line is an abstract script transaction; Run
// builds the era's concrete transaction/ledger state/parameters and runs the
// era's whole UtxoValidationRules list, classifying errors by type.

import (
	"encoding/hex"
	"errors"
	"sort"
	"fmt"
	"math/big"
	"strconv"
	"strings"

	"github.com/blinklabs-io/gouroboros/cbor"
	"github.com/blinklabs-io/gouroboros/ledger/alonzo"
	"github.com/blinklabs-io/gouroboros/ledger/babbage"
	"github.com/blinklabs-io/gouroboros/ledger/common"
	"github.com/blinklabs-io/gouroboros/ledger/conway"
	"github.com/blinklabs-io/gouroboros/ledger/dijkstra"
	"github.com/blinklabs-io/gouroboros/ledger/mary"
	"github.com/blinklabs-io/gouroboros/ledger/shelley"
	mockledger "github.com/blinklabs-io/ouroboros-mock/ledger"
)

const c32TxId = "d228b482a1aae768e4a796380f49e021d9c21f70d3c12cb186b188dedfc0ee22"

func init() {
	register(&Prop{ID: "C32", Gen: genC32, Run: runC32})
}

func genC32(r *Rand, n int, tier string, emit func(string)) {
	eras := []string{"alonzo", "babbage", "conway", "dijkstra"}
	for i := 0; i < n; i++ {
		era := eras[r.Intn(4)]
		red := "0"
		if !r.Chance(1, 8) {
			switch era {
			case "alonzo", "babbage":
				red = Pick(r, "c", "L")
			case "conway":
				red = Pick(r, "c", "L", "M")
			default:
				red = Pick(r, "c", "M")
			}
		}
		pct := Pick(r, uint64(150), 150, 100, 0, 1, 99, 101, 133, 250, uint64(r.Intn(1000)))
		var fee uint64
		switch r.Intn(5) {
		case 0:
			fee = uint64(r.Intn(10))
		case 1:
			fee = r.EdgeU64() >> 8
		default:
			fee = uint64(r.Intn(2000000))
		}
		nIn := Pick(r, 0, 1, 1, 2, 3, 4)
		max := Pick(r, 3, 3, 1, 0, 2, 5)
		// exact threshold: need = ceil(fee*pct/100); spread it over inputs, off by -1/0/+1
		prod := new(big.Int).Mul(new(big.Int).SetUint64(fee), new(big.Int).SetUint64(pct))
		need := new(big.Int).Add(prod, big.NewInt(99))
		need.Div(need, big.NewInt(100))
		floor := new(big.Int).Div(prod, big.NewInt(100))
		var target *big.Int
		switch r.Intn(6) {
		case 0:
			target = floor
		case 1:
			target = need
		case 2:
			target = new(big.Int).Sub(need, big.NewInt(1))
		case 3:
			target = new(big.Int).Add(need, big.NewInt(1))
		case 4:
			target = new(big.Int).SetUint64(uint64(r.Intn(3000000)))
		default:
			target = new(big.Int).Sub(floor, big.NewInt(1))
		}
		if target.Sign() < 0 || !target.IsUint64() || target.Uint64() > 1<<62 {
			target = big.NewInt(int64(r.Intn(1000)))
		}
		tgt := target.Uint64()
		// collateral return (Babbage+): sometimes present, shifts the balance
		var retCoin uint64
		hasRet := false
		if era != "alonzo" && r.Chance(1, 2) {
			hasRet = true
			retCoin = uint64(r.Intn(1000))
		}
		coins := make([]uint64, nIn)
		remaining := tgt + retCoin
		for j := 0; j < nIn; j++ {
			if j == nIn-1 {
				coins[j] = remaining
			} else {
				c := uint64(0)
				if remaining > 0 {
					c = r.U64() % (remaining + 1)
				}
				coins[j] = c
				remaining -= c
			}
		}
		// tokens: a few asset ids (id = 2*policy + name) spread over the inputs
		toks := make([]string, nIn)
		for j := range toks {
			toks[j] = "-"
		}
		total := map[int]uint64{}
		if nIn > 0 && r.Chance(2, 5) {
			k := 1 + r.Intn(3)
			for t := 0; t < k; t++ {
				id := r.Intn(6)
				j := r.Intn(nIn)
				q := uint64(r.Intn(4)) // 0 = zero-quantity entry
				if r.Chance(1, 6) {
					q = r.EdgeU64() >> 2
				}
				ent := fmt.Sprintf("%d:%d", id, q)
				if strings.Contains(","+toks[j]+",", fmt.Sprintf(",%d:", id)) {
					continue // ids are distinct within one bundle
				}
				if toks[j] == "-" || toks[j] == "e" {
					toks[j] = ent
				} else {
					toks[j] += "," + ent
				}
				total[id] += q
			}
		} else if nIn > 0 && r.Chance(1, 10) {
			toks[r.Intn(nIn)] = "e"
		}
		ret := "-"
		if era != "alonzo" && (hasRet || len(total) > 0 && r.Chance(3, 4)) {
			ids := []int{}
			for id := range total {
				ids = append(ids, id)
			}
			sort.Ints(ids)
			parts := []string{}
			mode := r.Intn(8) // 0..3 exact, 4 drop one, 5 wrong qty, 6 extra id, 7 none
			for x, id := range ids {
				q := total[id]
				if mode == 4 && x == len(ids)-1 {
					continue
				}
				if mode == 5 && x == 0 {
					q += uint64(1 + r.Intn(2))
				}
				if q == 0 && r.Chance(1, 2) {
					continue // a zero total need not be listed
				}
				parts = append(parts, fmt.Sprintf("%d:%d", id, q))
			}
			if mode == 6 {
				extra := r.Intn(6)
				if _, ok := total[extra]; !ok {
					parts = append(parts, fmt.Sprintf("%d:%d", extra, 1+r.Intn(3)))
				}
			}
			ts := "-"
			if mode != 7 && len(parts) > 0 {
				ts = strings.Join(parts, ",")
			} else if r.Chance(1, 5) {
				ts = "e"
			}
			ret = fmt.Sprintf("%d/%s", retCoin, ts)
		}
		var sb strings.Builder
		fmt.Fprintf(&sb, "coll %s %s %d %d %d %s %d", era, red, fee, pct, max, ret, nIn)
		for j := 0; j < nIn; j++ {
			fmt.Fprintf(&sb, " %d/%s", coins[j], toks[j])
		}
		emit(sb.String())
	}
}

var c32Policies = []common.Blake2b224{
	common.Blake2b224Hash([]byte("policy0")), common.Blake2b224Hash([]byte("policy1")), common.Blake2b224Hash([]byte("policy2")),
}
var c32Names = [][]byte{[]byte("tokA"), []byte("tokB")}

// c32Out parses "coin/tokspec".
func c32Out(s string) (coin uint64, assets *common.MultiAsset[common.MultiAssetTypeOutput], ok bool) {
	p := strings.Split(s, "/")
	if len(p) != 2 {
		return 0, nil, false
	}
	c, err := strconv.ParseUint(p[0], 10, 64)
	if err != nil {
		return 0, nil, false
	}
	switch p[1] {
	case "-":
		return c, nil, true
	case "e":
		ma := common.NewMultiAsset[common.MultiAssetTypeOutput](map[common.Blake2b224]map[cbor.ByteString]common.MultiAssetTypeOutput{})
		return c, &ma, true
	}
	data := map[common.Blake2b224]map[cbor.ByteString]common.MultiAssetTypeOutput{}
	for _, ent := range strings.Split(p[1], ",") {
		kv := strings.Split(ent, ":")
		if len(kv) != 2 {
			return 0, nil, false
		}
		id, e1 := strconv.Atoi(kv[0])
		q, e2 := strconv.ParseUint(kv[1], 10, 64)
		if e1 != nil || e2 != nil || id < 0 || id >= 6 {
			return 0, nil, false
		}
		pol := c32Policies[id/2]
		if data[pol] == nil {
			data[pol] = map[cbor.ByteString]common.MultiAssetTypeOutput{}
		}
		data[pol][cbor.NewByteString(c32Names[id%2])] = new(big.Int).SetUint64(q)
	}
	ma := common.NewMultiAsset[common.MultiAssetTypeOutput](data)
	return c, &ma, true
}

// redeemer encodings: one spend redeemer, data 0, ex units (1,1)
var c32LegacyRedeemers, _ = hex.DecodeString("8184000000820101")
var c32MapRedeemers, _ = hex.DecodeString("a18200008200820101")

func runC32(op string) string {
	f := strings.Fields(op)
	if len(f) < 8 || f[0] != "coll" {
		return "bad-op"
	}
	era := f[1]
	redForm := f[2]
	fee, e1 := strconv.ParseUint(f[3], 10, 64)
	pct, e2 := strconv.ParseUint(f[4], 10, 64)
	max, e3 := strconv.ParseUint(f[5], 10, 64)
	nIn, e4 := strconv.Atoi(f[7])
	if e1 != nil || e2 != nil || e3 != nil || e4 != nil || len(f) != 8+nIn {
		return "bad-op"
	}
	var retOut *babbage.BabbageTransactionOutput
	if f[6] != "-" {
		rc, ra, ok := c32Out(f[6])
		if !ok || era == "alonzo" {
			return "bad-op"
		}
		retOut = &babbage.BabbageTransactionOutput{OutputAmount: mary.MaryTransactionOutputValue{Amount: rc, Assets: ra}}
	}
	utxos := []common.Utxo{}
	ins := []shelley.ShelleyTransactionInput{}
	for j := 0; j < nIn; j++ {
		c, a, ok := c32Out(f[8+j])
		if !ok {
			return "bad-op"
		}
		in := shelley.NewShelleyTransactionInput(c32TxId, j)
		ins = append(ins, in)
		var out common.TransactionOutput
		if a != nil {
			if era == "alonzo" {
				out = alonzo.AlonzoTransactionOutput{OutputAmount: mary.MaryTransactionOutputValue{Amount: c, Assets: a}}
			} else {
				out = babbage.BabbageTransactionOutput{OutputAmount: mary.MaryTransactionOutputValue{Amount: c, Assets: a}}
			}
		} else {
			out = shelley.ShelleyTransactionOutput{OutputAmount: c}
		}
		utxos = append(utxos, common.Utxo{Id: in, Output: out})
	}
	ls := mockledger.NewLedgerStateBuilder().WithUtxos(utxos).Build()
	coll := cbor.NewSetType(ins, false)
	legacyRed := alonzo.AlonzoRedeemers{}
	mapRed := map[common.RedeemerKey]common.RedeemerValue{}
	switch redForm {
	case "0":
	case "c":
		legacyRed.Redeemers = []alonzo.AlonzoRedeemer{{}}
		mapRed[common.RedeemerKey{}] = common.RedeemerValue{}
	case "L":
		if era == "dijkstra" {
			return "bad-op"
		}
		if _, err := cbor.Decode(c32LegacyRedeemers, &legacyRed); err != nil {
			return "harness-error legacy redeemers do not decode: " + err.Error()
		}
	case "M":
		if era == "alonzo" || era == "babbage" {
			return "bad-op"
		}
	default:
		return "bad-op"
	}
	var tx common.Transaction
	var pp common.ProtocolParameters
	var rules []common.UtxoValidationRuleFunc
	switch era {
	case "alonzo":
		t := &alonzo.AlonzoTransaction{}
		t.Body.TxFee = fee
		t.Body.TxCollateral = coll
		t.WitnessSet.WsRedeemers = legacyRed
		tx = t
		pp = &alonzo.AlonzoProtocolParameters{CollateralPercentage: uint(pct), MaxCollateralInputs: uint(max)}
		rules = alonzo.UtxoValidationRules
	case "babbage":
		t := &babbage.BabbageTransaction{}
		t.Body.TxFee = fee
		t.Body.TxCollateral = coll
		t.Body.TxCollateralReturn = retOut
		t.WitnessSet.WsRedeemers = legacyRed
		tx = t
		pp = &babbage.BabbageProtocolParameters{CollateralPercentage: uint(pct), MaxCollateralInputs: uint(max)}
		rules = babbage.UtxoValidationRules
	case "conway":
		t := &conway.ConwayTransaction{}
		t.Body.TxFee = fee
		t.Body.TxCollateral = coll
		t.Body.TxCollateralReturn = retOut
		switch redForm {
		case "L":
			if _, err := cbor.Decode(c32LegacyRedeemers, &t.WitnessSet.WsRedeemers); err != nil {
				return "harness-error " + err.Error()
			}
		case "M":
			if _, err := cbor.Decode(c32MapRedeemers, &t.WitnessSet.WsRedeemers); err != nil {
				return "harness-error " + err.Error()
			}
		default:
			t.WitnessSet.WsRedeemers = conway.ConwayRedeemers{Redeemers: mapRed}
		}
		tx = t
		pp = &conway.ConwayProtocolParameters{CollateralPercentage: uint(pct), MaxCollateralInputs: uint(max)}
		rules = conway.UtxoValidationRules
	case "dijkstra":
		t := &dijkstra.DijkstraTransaction{}
		t.Body.TxFee = fee
		t.Body.TxCollateral = coll
		if retOut != nil {
			t.Body.TxCollateralReturn = &dijkstra.DijkstraTransactionOutput{Output: retOut}
		}
		if redForm == "M" {
			if _, err := cbor.Decode(c32MapRedeemers, &t.WitnessSet.WsRedeemers); err != nil {
				return "harness-error " + err.Error()
			}
		} else {
			t.WitnessSet.WsRedeemers = dijkstra.DijkstraRedeemers{Redeemers: mapRed}
		}
		tx = t
		dp := &dijkstra.DijkstraProtocolParameters{}
		dp.CollateralPercentage = uint(pct)
		dp.MaxCollateralInputs = uint(max)
		pp = dp
		rules = dijkstra.UtxoValidationRules
	default:
		return "bad-op"
	}
	insuff, nonada, nocoll, toomany := 1, 1, 1, 1
	for _, rule := range rules {
		err := safeRule(rule, tx, 0, ls, pp)
		if err == nil {
			continue
		}
		var e1 alonzo.InsufficientCollateralError
		var e2 alonzo.CollateralContainsNonAdaError
		var e3 alonzo.NoCollateralInputsError
		var e4 babbage.TooManyCollateralInputsError
		var e5 alonzo.TooManyCollateralInputsError
		switch {
		case errors.As(err, &e1):
			insuff = 0
		case errors.As(err, &e2):
			nonada = 0
		case errors.As(err, &e3):
			nocoll = 0
		case errors.As(err, &e4), errors.As(err, &e5):
			toomany = 0
		}
	}
	return fmt.Sprintf("acc=%d insuff=%d nonada=%d nocoll=%d toomany=%d", insuff&nonada&nocoll&toomany, insuff, nonada, nocoll, toomany)
}

// safeRule runs one validation rule; rules unrelated to the property may
// panic on the partially built transaction — that is not what is measured.
func safeRule(rule common.UtxoValidationRuleFunc, tx common.Transaction, slot uint64, ls common.LedgerState, pp common.ProtocolParameters) (err error) {
	defer func() {
		if e := recover(); e != nil {
			err = fmt.Errorf("rule panicked: %v", e)
		}
	}()
	return rule(tx, slot, ls, pp)
}
