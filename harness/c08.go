package main

// C08 — transaction output values stay within the ledger's value range.
//
//	op:  ov <era> <enc> <in> <mint> <k> q1 .. qk
//	     era  = mary | alonzo | babbage | conway | dijkstra
//	     enc  = m (quantities encoded minimally: major 0/1, bignum only beyond 64 bits)
//	          | b (every quantity as a tagged bignum, also small ones)
//	          | s (the output value is built as a Go struct — MaryTransactionOutputValue with a
//	            MultiAsset holding the quantity as *big.Int — and encoded by the library's own
//	            encoder; the transaction around it is then decoded as usual: encoder → decoder)
//	     in   = quantity of the token held by the spent input (0 = ada only)
//	     mint = quantity minted (any signed integer, also beyond int64; 0 = no mint field)
//	     qi   = quantity of the token in output i: any signed integer, "-" = ada-only output
//	out: decode-err | pure=<1|0> acc | pure=<1|0> rej:<error types>
//	     pure = 1 iff a second validation of the same decoded object gives the same verdict
//	            and outputs / Produced() / stored bytes / mint / UTxOs read the same afterwards
//
// The transaction is otherwise fully valid (fee, witnesses with real signatures,
// native-script minting policy, ada balanced), so `acc` means every rule of the
// era's UtxoValidationRules list returned nil for the decoded transaction.

import (
	"fmt"
	"math/big"
	"strings"

	"github.com/blinklabs-io/gouroboros/cbor"
	"github.com/blinklabs-io/gouroboros/ledger/common"
	"github.com/blinklabs-io/gouroboros/ledger/mary"
	mockledger "github.com/blinklabs-io/ouroboros-mock/ledger"
)

func init() {
	register(&Prop{ID: "C08", Gen: genC08, Run: runC08})
}

var c08Eras = []string{"mary", "alonzo", "babbage", "conway", "dijkstra"}

func c08Qty(r *Rand) *big.Int {
	two64 := new(big.Int).Lsh(big.NewInt(1), 64)
	switch r.Intn(10) {
	case 0:
		return big.NewInt(-int64(1 + r.Intn(10)))
	case 1:
		return new(big.Int).Neg(new(big.Int).SetUint64(r.EdgeU64()))
	case 2:
		return new(big.Int).Add(two64, big.NewInt(int64(r.Intn(3))-1)) // 2^64-1, 2^64, 2^64+1
	case 3:
		return new(big.Int).Lsh(big.NewInt(int64(1+r.Intn(9))), uint(64+r.Intn(40)))
	case 4:
		return new(big.Int).Neg(new(big.Int).Lsh(big.NewInt(1), uint(63+r.Intn(10))))
	case 5:
		return new(big.Int).SetUint64(r.EdgeU64())
	case 6:
		return big.NewInt(0)
	default:
		return big.NewInt(int64(1 + r.Intn(1000)))
	}
}

func genC08(r *Rand, n int, tier string, emit func(string)) {
	for i := 0; i < n; i++ {
		era := c08Eras[r.Intn(len(c08Eras))]
		enc := Pick(r, "m", "m", "b", "s")
		k := Pick(r, 1, 2, 2, 3, 4)
		qs := make([]*big.Int, k)
		strs := make([]string, k)
		sum := new(big.Int)
		for j := 0; j < k; j++ {
			if r.Chance(1, 6) {
				strs[j] = "-"
				continue
			}
			qs[j] = c08Qty(r)
			sum.Add(sum, qs[j])
		}
		switch r.Intn(4) {
		case 0: // cancelling pair: +q and -q
			if k >= 2 {
				q := c08Qty(r)
				qs[0], qs[1] = q, new(big.Int).Neg(q)
				sum = new(big.Int)
				for j := 0; j < k; j++ {
					if j < 2 || strs[j] != "-" {
						if qs[j] != nil {
							sum.Add(sum, qs[j])
						}
					}
				}
				strs[0], strs[1] = "", ""
			}
		}
		for j := 0; j < k; j++ {
			if strs[j] != "-" {
				strs[j] = qs[j].String()
			}
		}
		// choose input and mint so that the token is mostly conserved: in + mint = sum
		in := new(big.Int)
		mint := new(big.Int)
		maxU := new(big.Int).SetUint64(^uint64(0))
		maxI := new(big.Int).SetInt64(1<<63 - 1)
		minI := new(big.Int).SetInt64(-1 << 63)
		switch r.Intn(5) {
		case 0: // all from the input
			if sum.Sign() >= 0 && sum.Cmp(maxU) <= 0 {
				in.Set(sum)
			}
		case 1: // all minted; the mint field decodes into *big.Int too, so also beyond int64
			if (sum.Cmp(maxI) <= 0 && sum.Cmp(minI) >= 0) || r.Chance(1, 2) {
				mint.Set(sum)
			}
		case 2: // split
			if sum.Sign() >= 0 && sum.Cmp(maxI) <= 0 {
				part := new(big.Int).Rsh(sum, 1)
				in.Set(part)
				mint.Sub(sum, part)
			}
		case 3: // input larger, the rest burnt
			if sum.Sign() >= 0 && sum.Cmp(maxI) <= 0 {
				extra := big.NewInt(int64(r.Intn(1000)))
				in.Add(sum, extra)
				mint.Neg(extra)
			}
		default: // off by a little (not conserved)
			in.SetUint64(uint64(r.Intn(5)))
			mint.SetInt64(int64(r.Intn(5)) - 2)
		}
		if in.Sign() < 0 || in.Cmp(maxU) > 0 {
			in.SetInt64(0)
		}
		emit(fmt.Sprintf("ov %s %s %s %s %d %s", era, enc, in.String(), mint.String(), k, strings.Join(strs, " ")))
	}
}

func c08Int(v *big.Int, enc string) []byte {
	if enc == "b" {
		if v.Sign() >= 0 {
			return cbTag(2, cbBytes(v.Bytes()))
		}
		n := new(big.Int).Neg(v)
		n.Sub(n, big.NewInt(1))
		return cbTag(3, cbBytes(n.Bytes()))
	}
	return cbInt(v)
}

func runC08(op string) string {
	f := strings.Fields(op)
	if len(f) < 6 || f[0] != "ov" {
		return "bad-op"
	}
	era, enc := f[1], f[2]
	if g1EraIndex(era) < 2 || (enc != "m" && enc != "b" && enc != "s") {
		return "bad-op"
	}
	in, ok1 := new(big.Int).SetString(f[3], 10)
	mint, ok2 := new(big.Int).SetString(f[4], 10)
	var k int
	if _, err := fmt.Sscanf(f[5], "%d", &k); err != nil || !ok1 || !ok2 || len(f) != 6+k || k < 1 {
		return "bad-op"
	}
	if in.Sign() < 0 || !in.IsUint64() {
		return "bad-op"
	}
	key := g1NewKey(1)
	// minting policy: native script "signature of key", policy id = blake2b224(0x00 ++ script)
	script := cbArray(cbUint(0), cbBytes(key.keyHash()))
	policy := common.Blake2b224Hash(append([]byte{0}, script...)).Bytes()
	name := []byte("tok")
	outs := [][]byte{}
	totalAda := uint64(0)
	for j := 0; j < k; j++ {
		coin := uint64(2000000 + j)
		totalAda += coin
		if f[6+j] == "-" {
			outs = append(outs, cbArray(cbBytes(key.addr(1)), cbUint(coin)))
			continue
		}
		q, ok := new(big.Int).SetString(f[6+j], 10)
		if !ok {
			return "bad-op"
		}
		val := cbArray(cbUint(coin), cbMap(cbBytes(policy), cbMap(cbBytes(name), c08Int(q, enc))))
		if enc == "s" {
			ma := common.NewMultiAsset[common.MultiAssetTypeOutput](
				map[common.Blake2b224]map[cbor.ByteString]common.MultiAssetTypeOutput{
					common.NewBlake2b224(policy): {cbor.NewByteString(name): new(big.Int).Set(q)},
				})
			sv := mary.MaryTransactionOutputValue{Amount: coin, Assets: &ma}
			enc2, err := cbor.Encode(&sv)
			if err != nil {
				return "encode-err"
			}
			val = enc2
		}
		outs = append(outs, cbArray(cbBytes(key.addr(1)), val))
	}
	fee := uint64(300000)
	kv := [][]byte{cbUint(0), cbArray(g1TxIn(1, 0)), cbUint(1), cbArray(outs...), cbUint(2), cbUint(fee), cbUint(3), cbUint(1000)}
	if mint.Sign() != 0 {
		kv = append(kv, cbUint(9), cbMap(cbBytes(policy), cbMap(cbBytes(name), cbInt(mint))))
	}
	body := cbMap(kv...)
	wkv := [][]byte{cbUint(0), cbArray(key.witness(body))}
	if mint.Sign() != 0 {
		wkv = append(wkv, cbUint(1), cbArray(script))
	}
	raw := g1Envelope(era, body, cbMap(wkv...), true, nil, 0, 0)
	tx, derr := g1DecodeTx(era, raw)
	if derr != nil {
		return "decode-err"
	}
	// the spent input: ada for all outputs and the fee, plus `in` tokens
	inVal := mary.MaryTransactionOutputValue{Amount: totalAda + fee}
	if in.Sign() > 0 {
		ma := common.NewMultiAsset[common.MultiAssetTypeOutput](
			map[common.Blake2b224]map[cbor.ByteString]common.MultiAssetTypeOutput{
				common.NewBlake2b224(policy): {cbor.NewByteString(name): new(big.Int).Set(in)},
			})
		inVal.Assets = &ma
	}
	a, _ := common.NewAddressFromBytes(key.addr(1))
	utxo := common.Utxo{Id: tx.Inputs()[0], Output: mary.MaryTransactionOutput{OutputAddress: a, OutputAmount: inVal}}
	ls := mockledger.NewLedgerStateBuilder().WithUtxos([]common.Utxo{utxo}).WithNetworkId(1).Build()
	pp := g1Pparams(era, g1PP{MinFeeA: 44, MinFeeB: 155381, MaxTxSize: 16384, Major: 9, MaxValueSize: 5000})
	// validation must not change what the transaction or the state report (see C27)
	utxos := []common.Utxo{utxo}
	verdict := func() string {
		errs := g1RunRules(era, tx, 10, ls, pp)
		if len(errs) == 0 {
			return "acc"
		}
		return "rej:" + strings.Join(errs, ",")
	}
	snap0 := g1TxSnap(tx, utxos)
	v1 := verdict()
	snap1 := g1TxSnap(tx, utxos)
	v2 := verdict()
	snap2 := g1TxSnap(tx, utxos)
	pure := 1
	if v1 != v2 || snap0 != snap1 || snap1 != snap2 {
		pure = 0
	}
	return fmt.Sprintf("pure=%d %s", pure, v1)
}
