package main

// C05 — address encodings.  Ops:
//   raw <hex> <crc|-> <crc2|->     NewAddressFromBytes + accessors + Bytes + String round trip.
//                                  crc  = CRC-32 of the Byron payload bytes as they appear in <hex>,
//                                  crc2 = CRC-32 of the canonical re-encoding (both computed by the
//                                  generator with hash/crc32: primitives supplied to the model)
//   text <str> <b32> <b58> <sp> <crc|-> <crc2|->   NewAddress; <b32> = no | convfail | <hrp>:<datahex>,
//                                  <b58> = base58.Decode hex, <sp> = hasShelleyAddressHRP (prefix test)

import (
	"bytes"
	"encoding/binary"
	"fmt"
	"hash/crc32"
	"strings"
	"time"

	"github.com/blinklabs-io/gouroboros/ledger/common"
	"github.com/btcsuite/btcd/btcutil/base58"
	"github.com/btcsuite/btcd/btcutil/bech32"
)

func init() {
	register(&Prop{ID: "C05", Gen: genC05, Run: runC05, Timeout: 10 * time.Minute})
}

func c05ErrClass(err error, byronPath bool) string {
	s := err.Error()
	switch {
	case strings.Contains(s, "empty byte slice"):
		return "err:empty"
	case strings.Contains(s, "invalid network ID"):
		return "err:network"
	case strings.Contains(s, "invalid address type"):
		return "err:type"
	case strings.Contains(s, "invalid payment payload"):
		return "err:pay-short"
	case strings.Contains(s, "invalid staking payload"):
		return "err:stake-short"
	case strings.Contains(s, "unexpected trailing"):
		return "err:trailing"
	case strings.Contains(s, "unexpected payload content"):
		return "err:byron-payload"
	case strings.Contains(s, "checksum does not match"):
		return "err:byron-crc"
	case strings.Contains(s, "hash is not expected length"):
		return "err:byron-hash"
	case strings.Contains(s, "byron addresses must use base58"):
		return "err:byron-bech32"
	case strings.Contains(s, "does not match expected HRP"):
		return "err:hrp"
	}
	if byronPath {
		return "err:byron-cbor"
	}
	if strings.Contains(s, "unexpected EOF") {
		return "err:ptr"
	}
	return "err:text"
}

func c05Payload(p common.AddressPayload) string {
	switch v := p.(type) {
	case nil:
		return "none"
	case common.AddressPayloadKeyHash:
		return "key:" + hexs(v.Hash[:])
	case common.AddressPayloadScriptHash:
		return "script:" + hexs(v.Hash[:])
	case common.AddressPayloadPointer:
		return fmt.Sprintf("ptr:%d/%d/%d", v.Slot, v.TxIndex, v.CertIndex)
	}
	return "?"
}

func c05Describe(a common.Address) string {
	b, err := a.Bytes()
	if err != nil {
		return "ok bytes-err"
	}
	if a.Type() == common.AddressTypeByron {
		attr := a.ByronAttr()
		net := "-"
		if attr.Network != nil {
			net = fmt.Sprint(*attr.Network)
		}
		h := a.PaymentKeyHash()
		// text round trip through base58
		rt := 0
		if a2, err := common.NewAddress(a.String()); err == nil {
			if b2, err := a2.Bytes(); err == nil && bytes.Equal(b, b2) {
				rt = 1
			}
		}
		return fmt.Sprintf("byron t=%d hash=%s attr=%s net=%s nid=%d bytes=%s rt=%d", a.ByronType(), hexs(h[:]), hexs(attr.Payload), net, a.NetworkId(), hexs(b), rt)
	}
	// accessors must agree with the payload objects
	ph := a.PaymentKeyHash()
	sh := a.StakeKeyHash()
	pay := c05Payload(a.PayloadPayload())
	stake := c05Payload(a.StakingPayload())
	acc := 1
	if i := strings.Index(pay, ":"); i >= 0 && pay[i+1:] != hexs(ph[:]) {
		acc = 0
	}
	if pay == "none" && ph != (common.Blake2b224{}) {
		acc = 0
	}
	if strings.HasPrefix(stake, "key:") || strings.HasPrefix(stake, "script:") {
		if stake[strings.Index(stake, ":")+1:] != hexs(sh[:]) {
			acc = 0
		}
	} else if sh != (common.Blake2b224{}) {
		acc = 0
	}
	s := a.String()
	hrp := s
	if i := strings.LastIndex(s, "1"); i >= 0 {
		hrp = s[:i]
	}
	rt := 0
	if a2, err := common.NewAddress(s); err == nil {
		if b2, err := a2.Bytes(); err == nil && bytes.Equal(b, b2) && a2.Type() == a.Type() && a2.NetworkId() == a.NetworkId() {
			rt = 1
		}
	}
	extra := "-"
	if n := c05ExpectedLen(a, b); n >= 0 && n < len(b) {
		extra = hexs(b[n:])
	}
	return fmt.Sprintf("ok t=%d n=%d pay=%s stake=%s extra=%s bytes=%s hrp=%s acc=%d rt=%d", a.Type(), a.NetworkId(), pay, stake, extra, hexs(b), hrp, acc, rt)
}

// length of header + payment + staking parts as re-encoded (extra data = the rest of Bytes())
func c05ExpectedLen(a common.Address, b []byte) int {
	n := 1
	if a.PayloadPayload() != nil {
		n += 28
	}
	switch p := a.StakingPayload().(type) {
	case common.AddressPayloadKeyHash, common.AddressPayloadScriptHash:
		n += 28
	case common.AddressPayloadPointer:
		n += len(c05Var(p.Slot)) + len(c05Var(p.TxIndex)) + len(c05Var(p.CertIndex))
	}
	return n
}

// independent minimal base-128 varint
func c05Var(v uint64) []byte {
	out := []byte{byte(v & 0x7f)}
	v >>= 7
	for v > 0 {
		out = append([]byte{byte(v&0x7f) | 0x80}, out...)
		v >>= 7
	}
	return out
}

func runC05(op string) string {
	f := strings.Fields(op)
	if len(f) == 0 {
		return "bad-op"
	}
	switch f[0] {
	case "raw":
		if len(f) != 4 {
			return "bad-op"
		}
		b, ok := unhex(f[1])
		if !ok {
			return "bad-op"
		}
		a, err := common.NewAddressFromBytes(b)
		if err != nil {
			return c05ErrClass(err, len(b) > 0 && b[0]>>4 == 8)
		}
		return c05Describe(a)
	case "text":
		if len(f) != 7 {
			return "bad-op"
		}
		s := f[1]
		// the primitives in the op line must be what the libraries compute
		b32, b58, sp, _ := c05Prims(s)
		if b32 != f[2] || b58 != f[3] || sp != f[4] {
			return "bad-op"
		}
		a, err := common.NewAddress(s)
		if err != nil {
			byronPath := false
			if strings.Contains(f[2], ":") {
				d, _ := unhex(f[2][strings.Index(f[2], ":")+1:])
				byronPath = len(d) > 0 && d[0]>>4 == 8
			} else if d, _ := unhex(f[3]); f[2] == "no" && f[4] == "0" && len(d) > 0 && d[0]>>4 == 8 {
				// base58 is only consulted when bech32 failed and the string has no Shelley prefix
				byronPath = true
			}
			return c05ErrClass(err, byronPath)
		}
		return c05Describe(a)
	}
	return "bad-op"
}

// c05Prims: the text primitives for one string, as the op line carries them.
func c05Prims(s string) (b32, b58, sp string, data []byte) {
	b32 = "no"
	hrp, d5, err := bech32.DecodeNoLimit(s)
	if err == nil {
		d8, err := bech32.ConvertBits(d5, 5, 8, false)
		if err != nil {
			b32 = "convfail"
		} else {
			if hrp == "" {
				hrp = "~"
			}
			b32 = hrp + ":" + hexs(d8)
			data = d8
		}
	}
	d := base58.Decode(s)
	b58 = hexs(d)
	if data == nil {
		data = d
	}
	sp = "0"
	ls := strings.ToLower(s)
	for _, p := range []string{"addr1", "addr_test1", "stake1", "stake_test1"} {
		if strings.HasPrefix(ls, p) {
			sp = "1"
		}
	}
	return
}

// ---- generator

var c05Trailers = [][]byte{
	{0}, {44},
	{203, 87, 175, 176, 179, 95, 200, 156, 99, 6, 28, 153, 20, 224, 85, 0, 26, 81, 140, 117, 22},
	{18, 110, 119, 53, 51, 53, 103, 54, 118, 115, 112, 55, 120, 55, 102, 104, 120, 112, 113, 50, 112, 116, 115, 104, 57, 103, 107, 114},
}

func c05VarSloppy(r *Rand, v uint64) []byte {
	out := c05Var(v)
	if r.Chance(1, 10) {
		// non-minimal: leading 0x80 groups
		for k := 0; k <= r.Intn(3); k++ {
			out = append([]byte{0x80}, out...)
		}
	}
	if r.Chance(1, 25) {
		// over-long: more than 64 bits of payload (wraps in the decoder)
		pre := []byte{}
		for k := 0; k < 1+r.Intn(4); k++ {
			pre = append(pre, byte(r.U64())|0x80)
		}
		out = append(pre, c05Var(r.U64()|1<<63)...)
	}
	return out
}

func c05PtrVal(r *Rand) uint64 {
	edges := []uint64{0, 1, 127, 128, 129, 16383, 16384, 16385, 2097151, 2097152, 1<<28 - 1, 1 << 28, 1<<35 - 1, 1 << 35, 1<<42 - 1, 1 << 42, 1<<49 - 1, 1 << 49, 1<<56 - 1, 1 << 56, 1<<63 - 1, 1 << 63, ^uint64(0), ^uint64(0) - 1}
	if r.Chance(2, 3) {
		return edges[r.Intn(len(edges))]
	}
	return r.EdgeU64()
}

func c05Shelley(r *Rand) []byte {
	types := []byte{0, 1, 2, 3, 4, 5, 6, 7, 14, 15}
	t := types[r.Intn(len(types))]
	net := byte(r.Intn(2))
	b := []byte{t<<4 | net}
	if t <= 7 {
		b = append(b, r.Bytes(28)...)
	}
	switch t {
	case 0, 1, 2, 3, 14, 15:
		b = append(b, r.Bytes(28)...)
	case 4, 5:
		switch r.Intn(4) {
		case 0:
			// all three components huge (9-10 byte varints each): the encoded pointer is 27-30 bytes
			for k := 0; k < 3; k++ {
				b = append(b, c05Var(c05Huge(r))...)
			}
		case 1:
			// total encoded length of the pointer near the encoder's buffer size: 20..30 bytes,
			// split at random over the three components
			for _, l := range c05Split(r, 20+r.Intn(11)) {
				b = append(b, c05Var(c05WithLen(r, l))...)
			}
		default:
			b = append(b, c05VarSloppy(r, c05PtrVal(r))...)
			b = append(b, c05VarSloppy(r, c05PtrVal(r))...)
			b = append(b, c05VarSloppy(r, c05PtrVal(r))...)
		}
	}
	return b
}

// c05Huge: a value whose minimal varint has 9 or 10 bytes (>= 2^56), boundary-heavy
func c05Huge(r *Rand) uint64 {
	edges := []uint64{1 << 56, 1<<56 + 1, 1<<57 - 1, 1<<63 - 1, 1 << 63, 1<<63 + 1, ^uint64(0), ^uint64(0) - 1, ^uint64(0) - 127, ^uint64(0) - 128}
	if r.Chance(2, 3) {
		return edges[r.Intn(len(edges))]
	}
	return r.U64() | 1<<(56+uint(r.Intn(8)))
}

// c05WithLen: a value whose minimal varint has exactly l bytes (1..10)
func c05WithLen(r *Rand, l int) uint64 {
	if l <= 1 {
		return uint64(r.Intn(128))
	}
	if l >= 10 {
		return r.U64() | 1<<63
	}
	lo := uint64(1) << (7 * uint(l-1))
	hi := uint64(1) << (7 * uint(l))
	switch r.Intn(3) {
	case 0:
		return lo
	case 1:
		return hi - 1
	}
	return lo + r.U64()%(hi-lo)
}

// c05Split: three lengths in 1..10 with the given sum (clamped to 3..30)
func c05Split(r *Rand, total int) []int {
	if total < 3 {
		total = 3
	}
	if total > 30 {
		total = 30
	}
	for {
		a := 1 + r.Intn(10)
		b := 1 + r.Intn(10)
		c := total - a - b
		if c >= 1 && c <= 10 {
			return []int{a, b, c}
		}
	}
}

func c05Mutate(r *Rand, b []byte) []byte {
	b = append([]byte{}, b...)
	switch r.Intn(9) {
	case 0: // reserved / unknown type
		b[0] = byte(9+r.Intn(5))<<4 | b[0]&0x0f
	case 1: // bad network nibble
		b[0] = b[0]&0xf0 | byte(2+r.Intn(14))
	case 2: // one byte short
		if len(b) > 1 {
			b = b[:len(b)-1]
		}
	case 3: // one byte long
		b = append(b, byte(r.U64()))
	case 4: // whitelisted trailer (accepted on mainnet only)
		b = append(b, c05Trailers[r.Intn(len(c05Trailers))]...)
	case 5: // cut anywhere
		b = b[:r.Intn(len(b)+1)]
	case 6: // random tail
		b = append(b, r.Bytes(1+r.Intn(30))...)
	case 7: // unterminated varint at the end
		b = append(b[:len(b)-1], b[len(b)-1]|0x80)
	default: // type changed to another known type (length now wrong or right)
		types := []byte{0, 1, 2, 3, 4, 5, 6, 7, 14, 15}
		b[0] = types[r.Intn(10)]<<4 | b[0]&0x0f
	}
	return b
}

type c05Byron struct {
	hash    []byte
	attr    []byte
	network *uint32
	btype   uint64
}

func (a c05Byron) payload(swap bool, emptyAttr bool) []byte {
	var e1, e2 []byte
	n := 0
	if len(a.attr) > 0 || emptyAttr {
		e1 = append(g9Uint(1), g9Bytes(a.attr)...)
		n++
	}
	if a.network != nil {
		e2 = append(g9Uint(2), g9Bytes(g9Uint(uint64(*a.network)))...)
		n++
	}
	m := g9Head(5, uint64(n))
	if swap {
		m = append(append(m, e2...), e1...)
	} else {
		m = append(append(m, e1...), e2...)
	}
	out := []byte{0x83}
	out = append(out, g9Bytes(a.hash)...)
	out = append(out, m...)
	return append(out, g9Uint(a.btype)...)
}

func c05ByronWrap(payload []byte, tag uint64, chk uint64) []byte {
	out := []byte{0x82}
	out = append(out, g9Head(6, tag)...)
	out = append(out, g9Bytes(payload)...)
	return append(out, g9Uint(chk)...)
}

func c05GenByron(r *Rand) (raw []byte, crc, crc2 uint32) {
	a := c05Byron{hash: r.Bytes(28), btype: uint64(r.Intn(3))}
	if r.Chance(2, 3) {
		a.attr = r.Bytes(1 + r.Intn(40))
	}
	if r.Chance(1, 2) {
		n := Pick(r, uint32(1097911063), 42, 0, 1, 23, 24, 255, 256, 65536, ^uint32(0), uint32(r.U64()))
		a.network = &n
	}
	if r.Chance(1, 20) {
		a.btype = r.EdgeU64()
	}
	canon := a.payload(false, false)
	crc2 = crc32.ChecksumIEEE(canon)
	payload := canon
	tag := uint64(24)
	switch r.Intn(12) {
	case 0:
		payload = a.payload(true, false) // attribute order 2,1 (re-encoding differs)
	case 1:
		payload = a.payload(false, true) // explicit empty attribute 1
	case 2:
		b := a
		b.hash = r.Bytes(Pick(r, 27, 29, 0, 32))
		payload = b.payload(false, false)
	case 3:
		tag = Pick(r, uint64(25), 23, 30, 258)
	}
	crc = crc32.ChecksumIEEE(payload)
	chk := uint64(crc)
	switch r.Intn(12) {
	case 0:
		chk ^= 1 << uint(r.Intn(32))
	case 1:
		chk = uint64(r.U64() & 0xffffffff)
	case 2:
		chk = uint64(crc) + 1<<32
	}
	raw = c05ByronWrap(payload, tag, chk)
	if r.Chance(1, 15) {
		raw = raw[:r.Intn(len(raw))]
	}
	return
}

func c05Bech32(hrp string, data []byte) string {
	conv, err := bech32.ConvertBits(data, 8, 5, true)
	if err != nil {
		return "x"
	}
	s, err := bech32.Encode(hrp, conv)
	if err != nil {
		return "x"
	}
	return s
}

func genC05(r *Rand, n int, tier string, emit func(string)) {
	hrps := []string{"addr", "addr_test", "stake", "stake_test"}
	for i := 0; i < n; i++ {
		switch r.Intn(10) {
		case 0, 1, 2:
			emit("raw " + hexs(c05Shelley(r)) + " - -")
		case 3, 4:
			emit("raw " + hexs(c05Mutate(r, c05Shelley(r))) + " - -")
		case 5, 6:
			raw, crc, crc2 := c05GenByron(r)
			emit(fmt.Sprintf("raw %s %d %d", hexs(raw), crc, crc2))
		default:
			// text forms
			var s string
			crc := "- -"
			switch r.Intn(8) {
			case 0, 1: // correct bech32
				b := c05Shelley(r)
				if a, err := common.NewAddressFromBytes(b); err == nil {
					s = a.String()
				} else {
					s = c05Bech32(hrps[r.Intn(4)], b)
				}
				if r.Chance(1, 6) {
					s = strings.ToUpper(s)
				}
			case 2: // swapped / foreign HRP
				b := c05Shelley(r)
				s = c05Bech32(Pick(r, "addr", "addr_test", "stake", "stake_test", "pool", "addr_tes", "ADDR"), b)
			case 3: // mutated bytes under a plausible HRP
				s = c05Bech32(hrps[r.Intn(4)], c05Mutate(r, c05Shelley(r)))
			case 4: // checksum / case damage
				b := c05Shelley(r)
				s = c05Bech32(hrps[r.Intn(4)], b)
				bs := []byte(s)
				k := r.Intn(len(bs))
				if r.Bool() {
					bs[k] = "qpzry9x8gf2tvdw0s3jn54khce6mua7l"[r.Intn(32)]
				} else {
					bs[k] = byte(strings.ToUpper(string(bs[k]))[0])
				}
				s = string(bs)
			case 5: // Byron in base58
				raw, c, c2 := c05GenByron(r)
				s = base58.Encode(raw)
				crc = fmt.Sprintf("%d %d", c, c2)
			case 6: // Byron bytes in bech32 (must be refused), Shelley bytes in base58
				if r.Bool() {
					raw, c, c2 := c05GenByron(r)
					s = c05Bech32("addr", raw)
					crc = fmt.Sprintf("%d %d", c, c2)
				} else {
					s = base58.Encode(c05Shelley(r))
				}
			default: // junk
				s = Pick(r, "addr1", "addr1qqqqqq", "stake1", "1", "0OIl", "addr_test1xyz", "Ae2tdPwUPEZ", "x1qqqqqq")
			}
			if s == "" || strings.ContainsAny(s, " \t\n") {
				s = "x"
			}
			b32, b58, sp, _ := c05Prims(s)
			emit(fmt.Sprintf("text %s %s %s %s %s", s, b32, b58, sp, crc))
		}
	}
	_ = binary.BigEndian
}
