package main

// C29 — native scripts.  `ns` ops build a whole transaction in CBOR (body with
// optional TTL / validity start, witness set with vkey / bootstrap witnesses and
// the scripts' ORIGINAL bytes), decode it with the era's real decoder and run the
// era's UtxoValidationRules list; scripts are therefore always decoded, never
// constructed.  `nsg` is `ns` for Dijkstra with a guards field (body key 14); `nsc` builds the
// transaction as an in-memory struct (no preserved bytes: the rule's fallback path), scripts still
// decoded.  `ev` ops call NativeScript.Evaluate/EvaluateWithGuards directly.

import (
	"bytes"
	"errors"
	"fmt"
	"reflect"
	"runtime"
	"strconv"
	"strings"
	"time"

	"github.com/blinklabs-io/gouroboros/cbor"
	"github.com/blinklabs-io/gouroboros/ledger/allegra"
	"github.com/blinklabs-io/gouroboros/ledger/alonzo"
	"github.com/blinklabs-io/gouroboros/ledger/babbage"
	"github.com/blinklabs-io/gouroboros/ledger/common"
	"github.com/blinklabs-io/gouroboros/ledger/conway"
	"github.com/blinklabs-io/gouroboros/ledger/dijkstra"
	"github.com/blinklabs-io/gouroboros/ledger/mary"
	mockledger "github.com/blinklabs-io/ouroboros-mock/ledger"
)

func init() {
	register(&Prop{ID: "C29", Gen: genC29, Run: runC29, Timeout: 10 * time.Minute})
}

// ---- script construction (generator side): bytes only

type c29Gen struct {
	r      *Rand
	keys   [][]byte // key hashes of the universe
	slots  []uint64
	guardy bool // prefer guard scripts (Dijkstra guards tie)
}

func (g *c29Gen) arr(items ...[]byte) []byte {
	if g.r.Chance(1, 8) {
		return g9IndefArray(items...)
	}
	if g.r.Chance(1, 12) {
		// non-minimal array header (98 nn / 99 nnnn)
		out := g9HeadW(4, uint64(len(items)), Pick(g.r, 1, 1, 2, 4))
		for _, it := range items {
			out = append(out, it...)
		}
		return out
	}
	return g9Array(items...)
}

func (g *c29Gen) uintv(n uint64) []byte {
	if g.r.Chance(1, 12) {
		// non-minimal width (accepted by the decoder)
		ws := []int{1, 2, 4, 8}
		min := 0
		switch {
		case n < 24:
			min = 0
		case n < 1<<8:
			min = 1
		case n < 1<<16:
			min = 2
		case n < 1<<32:
			min = 4
		default:
			min = 8
		}
		w := ws[g.r.Intn(4)]
		if w >= min {
			return g9HeadW(0, n, w)
		}
	}
	return g9Uint(n)
}

func (g *c29Gen) script(depth int) []byte {
	r := g.r
	k := r.Intn(10)
	if g.guardy && r.Chance(1, 3) {
		return g9Array(g9Uint(6), g9Array(g9Uint(uint64(r.Intn(2))), g9Bytes(g.keys[r.Intn(len(g.keys))])))
	}
	if depth <= 0 && k >= 1 && k <= 4 {
		k = Pick(r, 0, 5, 6, 7)
	}
	switch k {
	case 0, 9:
		h := g.keys[r.Intn(len(g.keys))]
		if r.Chance(1, 40) {
			h = append(append([]byte{}, h...), 0x99) // 29 bytes: truncated by the evaluator
		}
		return g.arr(g.uintv(0), g9Bytes(h))
	case 1, 2, 3, 4:
		n := Pick(r, 0, 1, 2, 2, 3, 4)
		subs := make([][]byte, n)
		for i := range subs {
			subs[i] = g.script(depth - 1)
		}
		list := g.arr(subs...)
		switch k {
		case 1:
			return g.arr(g.uintv(1), list)
		case 2:
			return g.arr(g.uintv(2), list)
		default:
			m := uint64(r.Intn(n + 2))
			if r.Chance(1, 30) {
				m = r.EdgeU64()
			}
			return g.arr(g.uintv(3), g.uintv(m), list)
		}
	case 5, 6:
		return g.arr(g.uintv(4), g.uintv(g.slots[r.Intn(len(g.slots))]))
	case 7:
		return g.arr(g.uintv(5), g.uintv(g.slots[r.Intn(len(g.slots))]))
	default:
		if r.Chance(1, 2) {
			return g.arr(g.uintv(5), g.uintv(g.slots[r.Intn(len(g.slots))]))
		}
		return g9Array(g9Uint(6), g9Array(g9Uint(uint64(r.Intn(2))), g9Bytes(g.keys[r.Intn(len(g.keys))])))
	}
}

func c29Malformed(g *c29Gen) []byte {
	r := g.r
	switch r.Intn(5) {
	case 0:
		return g9Array(g9Uint(uint64(7+r.Intn(20))), g9Uint(1))
	case 1:
		return g9Array(g9Uint(0), g9Bytes(g.keys[0]), g9Uint(1)) // arity
	case 2:
		return g9Array(g9Uint(4)) // arity
	case 3:
		return g9Array(g9Uint(0), g9Uint(5)) // hash not bytes
	default:
		s := g.script(2)
		if len(s) > 2 {
			return s[:len(s)-1]
		}
		return []byte{0x82}
	}
}

func genC29(r *Rand, n int, tier string, emit func(string)) {
	eras := []string{"allegra", "mary", "alonzo", "babbage", "conway", "dijkstra"}
	for i := 0; i < n; i++ {
		// key universe: 4 verification keys; hashes computed here with x/crypto
		vkeys := make([][]byte, 4)
		g := &c29Gen{r: r}
		for k := range vkeys {
			vkeys[k] = r.Bytes(32)
			g.keys = append(g.keys, g9Blake224(vkeys[k]))
		}
		// validity interval: absent / zero / boundary values
		var start, ttl string
		var sv, tv uint64
		switch r.Intn(6) {
		case 0, 1:
			start = "-"
		case 2:
			start = "0"
		case 3:
			sv = r.EdgeU64()
			start = strconv.FormatUint(sv, 10)
		default:
			sv = uint64(r.Intn(100))
			start = strconv.FormatUint(sv, 10)
		}
		switch r.Intn(7) {
		case 0, 1:
			ttl = "-"
		case 2:
			ttl = "0"
		case 3:
			tv = r.EdgeU64()
			ttl = strconv.FormatUint(tv, 10)
		case 4:
			tv = ^uint64(0)
			ttl = strconv.FormatUint(tv, 10)
		default:
			tv = uint64(r.Intn(100))
			ttl = strconv.FormatUint(tv, 10)
		}
		g.slots = []uint64{0, 0, 1, sv, sv + 1, sv - 1, tv, tv + 1, tv - 1, ^uint64(0), ^uint64(0) - 1, uint64(r.Intn(100)), r.EdgeU64()}
		if r.Chance(1, 12) {
			// direct API
			sc := g.script(2)
			ks := []string{}
			for k := range g.keys {
				if r.Bool() {
					ks = append(ks, hexs(g.keys[k]))
				}
			}
			gs := "-"
			if r.Bool() {
				l := []string{}
				for k := 0; k < r.Intn(3); k++ {
					l = append(l, fmt.Sprintf("%d:%s", r.Intn(2), hexs(g.keys[r.Intn(4)])))
				}
				if len(l) > 0 {
					gs = strings.Join(l, ",")
				}
			}
			kl := "-"
			if len(ks) > 0 {
				kl = strings.Join(ks, ",")
			}
			emit(fmt.Sprintf("ev %d %d %s %s %s", g.slots[r.Intn(len(g.slots))], g.slots[r.Intn(len(g.slots))], kl, gs, hexs(sc)))
			continue
		}
		wits := []string{}
		for k := range vkeys {
			if r.Chance(1, 2) {
				kind := "v"
				if r.Chance(1, 5) {
					kind = "b"
				}
				wits = append(wits, kind+hexs(vkeys[k])+"="+hexs(g.keys[k]))
			}
		}
		wl := "-"
		if len(wits) > 0 {
			wl = strings.Join(wits, ",")
		}
		ns := Pick(r, 1, 1, 1, 2, 3)
		var sb strings.Builder
		switch r.Intn(8) {
		case 0:
			// Dijkstra with a guards field: key-hash form or credential form over the key universe
			gs := []string{}
			form := Pick(r, "k", "c")
			seen := map[string]bool{}
			for j := 0; j < 1+r.Intn(3); j++ {
				h := hexs(g.keys[r.Intn(len(g.keys))])
				e := h
				if form == "c" {
					e = fmt.Sprintf("%d.%s", r.Intn(2), h)
				}
				if !seen[e] {
					seen[e] = true
					gs = append(gs, e)
				}
			}
			g.guardy = true
			fmt.Fprintf(&sb, "nsg dijkstra %s %s %s %s:%s %d", start, ttl, wl, form, strings.Join(gs, ","), ns)
		case 1:
			// constructed transaction (no preserved bytes)
			fmt.Fprintf(&sb, "nsc %s %s %s %s %d", Pick(r, "allegra", "conway"), start, ttl, wl, ns)
		default:
			fmt.Fprintf(&sb, "ns %s %s %s %s %d", eras[r.Intn(len(eras))], start, ttl, wl, ns)
		}
		for k := 0; k < ns; k++ {
			var sc []byte
			if r.Chance(1, 40) {
				sc = c29Malformed(g)
			} else {
				sc = g.script(Pick(r, 0, 1, 2, 2, 3))
			}
			ref := g9Blake224(append([]byte{0x00}, sc...))
			sb.WriteString(" " + hexs(sc) + "=" + hexs(ref))
		}
		emit(sb.String())
	}
}

// ---- runner

func c29Subs(n *common.NativeScript, out *[]string) {
	*out = append(*out, hexs(n.Cbor()))
	var subs []common.NativeScript
	switch s := n.Item().(type) {
	case *common.NativeScriptAll:
		subs = s.Scripts
	case *common.NativeScriptAny:
		subs = s.Scripts
	case *common.NativeScriptNofK:
		subs = s.Scripts
	}
	for i := range subs {
		c29Subs(&subs[i], out)
	}
}

func runC29(op string) string {
	f := strings.Fields(op)
	if len(f) == 0 {
		return "bad-op"
	}
	switch f[0] {
	case "ev":
		if len(f) != 6 {
			return "bad-op"
		}
		st, e1 := strconv.ParseUint(f[1], 10, 64)
		en, e2 := strconv.ParseUint(f[2], 10, 64)
		sc, ok := unhex(f[5])
		if e1 != nil || e2 != nil || !ok {
			return "bad-op"
		}
		kh := map[common.Blake2b224]bool{}
		for _, k := range g9SplitList(f[3]) {
			b, ok := unhex(k)
			if !ok || len(b) != 28 {
				return "bad-op"
			}
			kh[common.NewBlake2b224(b)] = true
		}
		var ns common.NativeScript
		if _, err := cbor.Decode(sc, &ns); err != nil {
			return "err"
		}
		if f[4] == "-" {
			return b01(ns.Evaluate(0, st, en, kh))
		}
		creds := []common.Credential{}
		for _, gs := range g9SplitList(f[4]) {
			p := strings.Split(gs, ":")
			if len(p) != 2 {
				return "bad-op"
			}
			t, err := strconv.ParseUint(p[0], 10, 8)
			b, ok := unhex(p[1])
			if err != nil || !ok || len(b) != 28 {
				return "bad-op"
			}
			creds = append(creds, common.Credential{CredType: uint(t), Credential: common.CredentialHash(common.NewBlake2b224(b))})
		}
		return b01(ns.EvaluateWithGuards(0, st, en, kh, creds))
	case "ns", "nsg", "nsc":
		return c29RunTx(f)
	}
	return "bad-op"
}

func c29RunTx(f []string) string {
	kind := f[0]
	off := 0
	guardsTok := "-"
	if kind == "nsg" {
		if len(f) < 7 {
			return "bad-op"
		}
		guardsTok = f[5]
		off = 1
	}
	if len(f) < 6+off {
		return "bad-op"
	}
	era := f[1]
	k, err := strconv.Atoi(f[5+off])
	if err != nil || len(f) != 6+off+k || k < 1 {
		return "bad-op"
	}
	var startV, ttlV *uint64
	if f[2] != "-" {
		v, err := strconv.ParseUint(f[2], 10, 64)
		if err != nil {
			return "bad-op"
		}
		startV = &v
	}
	if f[3] != "-" {
		v, err := strconv.ParseUint(f[3], 10, 64)
		if err != nil {
			return "bad-op"
		}
		ttlV = &v
	}
	body := [][]byte{g9Uint(0), g9Array(), g9Uint(1), g9Array(), g9Uint(2), g9Uint(0)}
	if ttlV != nil {
		body = append(body, g9Uint(3), g9Uint(*ttlV))
	}
	if startV != nil {
		body = append(body, g9Uint(8), g9Uint(*startV))
	}
	if guardsTok != "-" {
		if era != "dijkstra" || len(guardsTok) < 3 {
			return "bad-op"
		}
		items := [][]byte{}
		for _, g := range strings.Split(guardsTok[2:], ",") {
			switch guardsTok[0] {
			case 'k':
				h, ok := unhex(g)
				if !ok || len(h) != 28 {
					return "bad-op"
				}
				items = append(items, g9Bytes(h))
			case 'c':
				p := strings.Split(g, ".")
				if len(p) != 2 {
					return "bad-op"
				}
				t, err := strconv.ParseUint(p[0], 10, 8)
				h, ok := unhex(p[1])
				if err != nil || !ok || len(h) != 28 {
					return "bad-op"
				}
				items = append(items, g9Array(g9Uint(t), g9Bytes(h)))
			default:
				return "bad-op"
			}
		}
		body = append(body, g9Uint(14), g9Array(items...))
	}
	type wit struct {
		kind byte
		key  []byte
	}
	var wits []wit
	var vk, bw [][]byte
	for _, w := range g9SplitList(f[4]) {
		p := strings.Split(w[1:], "=")
		if len(p) != 2 {
			return "bad-op"
		}
		key, ok1 := unhex(p[0])
		hash, ok2 := unhex(p[1])
		if !ok1 || !ok2 || len(key) != 32 || !bytes.Equal(hash, g9Blake224(key)) {
			return "bad-op"
		}
		wits = append(wits, wit{w[0], key})
		switch w[0] {
		case 'v':
			vk = append(vk, g9Array(g9Bytes(key), g9Bytes(make([]byte, 64))))
		case 'b':
			bw = append(bw, g9Array(g9Bytes(key), g9Bytes(make([]byte, 64)), g9Bytes(make([]byte, 32)), g9Bytes([]byte{0xa0})))
		default:
			return "bad-op"
		}
	}
	scripts := [][]byte{}
	for i := 0; i < k; i++ {
		p := strings.Split(f[6+off+i], "=")
		if len(p) != 2 {
			return "bad-op"
		}
		sc, ok := unhex(p[0])
		ref, ok2 := unhex(p[1])
		if !ok || !ok2 || !bytes.Equal(ref, g9Blake224(append([]byte{0x00}, sc...))) {
			return "bad-op"
		}
		scripts = append(scripts, sc)
	}
	var tx common.Transaction
	var rules []common.UtxoValidationRuleFunc
	var derr error
	if kind == "nsc" {
		// in-memory transaction, scripts decoded one by one
		decodedScripts := make([]common.NativeScript, k)
		for i := range scripts {
			if _, err := cbor.Decode(scripts[i], &decodedScripts[i]); err != nil {
				return "err"
			}
		}
		var vkw []common.VkeyWitness
		var bws []common.BootstrapWitness
		for _, w := range wits {
			if w.kind == 'v' {
				vkw = append(vkw, common.VkeyWitness{Vkey: w.key, Signature: make([]byte, 64)})
			} else {
				bws = append(bws, common.BootstrapWitness{PublicKey: w.key, Signature: make([]byte, 64), ChainCode: make([]byte, 32), Attributes: []byte{0xa0}})
			}
		}
		switch era {
		case "allegra":
			t := &allegra.AllegraTransaction{}
			if startV != nil {
				t.Body.TxValidityIntervalStart = *startV
			}
			if ttlV != nil {
				t.Body.Ttl = *ttlV
			}
			t.WitnessSet.VkeyWitnesses = vkw
			t.WitnessSet.BootstrapWitnesses = bws
			t.WitnessSet.WsNativeScripts = decodedScripts
			tx = t
			rules = allegra.UtxoValidationRules
		case "conway":
			t := &conway.ConwayTransaction{}
			if startV != nil {
				t.Body.TxValidityIntervalStart = *startV
			}
			if ttlV != nil {
				t.Body.Ttl = *ttlV
			}
			t.WitnessSet.VkeyWitnesses = cbor.NewSetType(vkw, false)
			t.WitnessSet.BootstrapWitnesses = cbor.NewSetType(bws, false)
			t.WitnessSet.WsNativeScripts = cbor.NewSetType(decodedScripts, false)
			tx = t
			rules = conway.UtxoValidationRules
		default:
			return "bad-op"
		}
		if len(tx.Cbor()) != 0 {
			return "bad-op preserved"
		}
	} else {
		ws := [][]byte{}
		if len(vk) > 0 {
			ws = append(ws, g9Uint(0), g9Array(vk...))
		}
		ws = append(ws, g9Uint(1), g9Array(scripts...))
		if len(bw) > 0 {
			ws = append(ws, g9Uint(2), g9Array(bw...))
		}
		var txb []byte
		if era == "allegra" || era == "mary" {
			txb = g9Array(g9Map(body...), g9Map(ws...), []byte{0xf6})
		} else {
			txb = g9Array(g9Map(body...), g9Map(ws...), []byte{0xf5}, []byte{0xf6})
		}
		switch era {
		case "allegra":
			tx, derr = allegra.NewAllegraTransactionFromCbor(txb)
			rules = allegra.UtxoValidationRules
		case "mary":
			tx, derr = mary.NewMaryTransactionFromCbor(txb)
			rules = mary.UtxoValidationRules
		case "alonzo":
			tx, derr = alonzo.NewAlonzoTransactionFromCbor(txb)
			rules = alonzo.UtxoValidationRules
		case "babbage":
			tx, derr = babbage.NewBabbageTransactionFromCbor(txb)
			rules = babbage.UtxoValidationRules
		case "conway":
			tx, derr = conway.NewConwayTransactionFromCbor(txb)
			rules = conway.UtxoValidationRules
		case "dijkstra":
			tx, derr = dijkstra.NewDijkstraTransactionFromCbor(txb)
			rules = dijkstra.UtxoValidationRules
		default:
			return "bad-op"
		}
		if derr != nil {
			return "err"
		}
	}
	decoded := tx.Witnesses().NativeScripts()
	if len(decoded) != k {
		return fmt.Sprintf("err scripts=%d", len(decoded))
	}
	hashes := make([]string, k)
	spans := []string{}
	for i := range decoded {
		h := decoded[i].Hash()
		hashes[i] = hexs(h[:])
		c29Subs(&decoded[i], &spans)
	}
	ls := mockledger.NewLedgerStateBuilder().Build()
	res := "ok"
	found := false
	for _, rule := range rules {
		// only the era's native-script rule, taken from the era's rule list
		if !strings.HasSuffix(runtime.FuncForPC(reflect.ValueOf(rule).Pointer()).Name(), ".UtxoValidateNativeScripts") {
			continue
		}
		found = true
		err := g9SafeRule(rule, tx, 50, ls, nil)
		var nf allegra.NativeScriptFailedError
		if err != nil && errors.As(err, &nf) {
			idx := -1
			for i := range hashes {
				if hashes[i] == hexs(nf.ScriptHash[:]) {
					idx = i
					break
				}
			}
			res = fmt.Sprintf("fail:%d", idx)
		} else if err != nil {
			res = "rule-err"
		}
	}
	if !found {
		return "rule-not-listed"
	}
	return "hashes=" + strings.Join(hashes, ",") + " res=" + res + " spans=" + strings.Join(spans, ",")
}
