package main

// dump_c03.go — lean/GV/Gen/SumTypes.lean: for every tagged-sum type the
// table  tag -> variant label, read out of the running code by decoding the
// *minimal* (canonical) encoding of one sample per variant. The C03 model
// looks variants up in this table; the theorems state that the variant chosen
// for ANY header form is the table entry of the list's first element.

import (
	"bufio"
	"fmt"
	"sort"
)

func init() {
	registerDump("SumTypes", func(w *bufio.Writer) {
		fmt.Fprintln(w, "import GV.Model.CborId")
		fmt.Fprintln(w, "namespace GV.Gen.SumTypes")
		fmt.Fprintln(w, "open GV.Model.CborId")
		fmt.Fprintln(w, "/-- per sum type: where the tagged list sits in the decoder's input, the catch-all variant (\"\" = error),")
		fmt.Fprintln(w, "    tags nothing is predicted for, and tag -> variant label produced by the real decoder on the canonical encoding -/")
		fmt.Fprintln(w, "def table : List SumInfo := [")
		for i, st := range sumTypes {
			m := map[uint64]string{}
			for _, v := range st.variants {
				root, _ := st.build(v)
				lab, err := g10aSafeDecode(st, root.bytes())
				if err != nil {
					lab = "ERR"
				}
				if old, ok := m[v.id]; ok && old != lab {
					lab = "CONFLICT(" + old + "," + lab + ")"
				}
				m[v.id] = lab
			}
			ids := []uint64{}
			for k := range m {
				ids = append(ids, k)
			}
			sort.Slice(ids, func(a, b int) bool { return ids[a] < ids[b] })
			natList := func(xs []uint64) string {
				out := "["
				for j, x := range xs {
					if j > 0 {
						out += ", "
					}
					out += fmt.Sprint(x)
				}
				return out + "]"
			}
			path := make([]uint64, len(st.path))
			for j, x := range st.path {
				path[j] = uint64(x)
			}
			guards := "["
			for j, g := range st.guards {
				if j > 0 {
					guards += ", "
				}
				gp := make([]uint64, len(g.path))
				for q, x := range g.path {
					gp[q] = uint64(x)
				}
				guards += fmt.Sprintf("(%s, %d)", natList(gp), g.val)
			}
			guards += "]"
			fmt.Fprintf(w, "  { name := %q, path := %s, guards := %s, deflt := %q, unsure := %s, tags := [", st.name, natList(path), guards, st.deflt, natList(st.unsure))
			for j, k := range ids {
				if j > 0 {
					fmt.Fprint(w, ", ")
				}
				fmt.Fprintf(w, "(%d, %q)", k, m[k])
			}
			fmt.Fprint(w, "] }")
			if i < len(sumTypes)-1 {
				fmt.Fprint(w, ",")
			}
			fmt.Fprintln(w)
		}
		fmt.Fprintln(w, "]")
		fmt.Fprintln(w, "end GV.Gen.SumTypes")
	})
}
