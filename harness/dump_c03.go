package main

// dump_c03.go — lean/GV/Gen/SumTypes.lean: for every tagged-sum type the
// table  tag -> variant label, read out of the running code by decoding the
// *minimal* (canonical) encoding of one sample per variant. The C03 model
// looks variants up in this table; the theorems state that the variant chosen
// for ANY header form is the table entry of the list's first element.

import (
	"bufio"
	"fmt"
	"sort"
)

func init() {
	registerDump("SumTypes", func(w *bufio.Writer) {
		fmt.Fprintln(w, "namespace GV.Gen.SumTypes")
		fmt.Fprintln(w, "/-- (sum type, [(tag, variant label produced by the real decoder on the canonical encoding)]) -/")
		fmt.Fprintln(w, "def table : List (String × List (Nat × String)) := [")
		for i, st := range sumTypes {
			m := map[uint64]string{}
			for _, v := range st.variants {
				lab, err := st.decode(v.node().bytes())
				if err != nil {
					lab = "ERR"
				}
				if old, ok := m[v.id]; ok && old != lab {
					lab = "CONFLICT(" + old + "," + lab + ")"
				}
				m[v.id] = lab
			}
			ids := []uint64{}
			for k := range m {
				ids = append(ids, k)
			}
			sort.Slice(ids, func(a, b int) bool { return ids[a] < ids[b] })
			fmt.Fprintf(w, "  (%q, [", st.name)
			for j, k := range ids {
				if j > 0 {
					fmt.Fprint(w, ", ")
				}
				fmt.Fprintf(w, "(%d, %q)", k, m[k])
			}
			fmt.Fprint(w, "])")
			if i < len(sumTypes)-1 {
				fmt.Fprint(w, ",")
			}
			fmt.Fprintln(w)
		}
		fmt.Fprintln(w, "]")
		fmt.Fprintln(w, "end GV.Gen.SumTypes")
	})
}
