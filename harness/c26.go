package main

// C26 — validity interval. The op line gives an era, the current slot and the
// two optional bounds; Run encodes a transaction of that era as CBOR (so that
// "absent" and "present with value 0" are different inputs), decodes it with
// the era's decoder and runs the era's whole UtxoValidationRules list,
// classifying errors by type.
//
//	op:  vi <era> <slot> <start|-> <ttl|-> [<valid> <build>]
//	     valid = IsValid flag 1|0 (default 1); build = c (CBOR-encoded and decoded, default)
//	     | s (the era's transaction struct built directly, the only way to obtain e.g. a
//	     Dijkstra transaction with is_valid = false; there a bound 0 cannot be written
//	     apart from "absent", so `0` is not allowed with build = s)
//	out: ok=<0|1>        (1 = no validity-interval / TTL error from any listed rule)

import (
	"errors"
	"fmt"
	"strconv"
	"strings"

	"github.com/blinklabs-io/gouroboros/ledger/allegra"
	"github.com/blinklabs-io/gouroboros/ledger/alonzo"
	"github.com/blinklabs-io/gouroboros/ledger/babbage"
	"github.com/blinklabs-io/gouroboros/ledger/common"
	"github.com/blinklabs-io/gouroboros/ledger/conway"
	"github.com/blinklabs-io/gouroboros/ledger/dijkstra"
	"github.com/blinklabs-io/gouroboros/ledger/mary"
	"github.com/blinklabs-io/gouroboros/ledger/shelley"
	mockledger "github.com/blinklabs-io/ouroboros-mock/ledger"
)

func init() {
	register(&Prop{ID: "C26", Gen: genC26, Run: runC26})
}

func genC26(r *Rand, n int, tier string, emit func(string)) {
	// exhaustive small grid first: every era x relation of the bounds to the slot
	slots := []uint64{0, 1, 10, 1 << 32, ^uint64(0) - 1, ^uint64(0)}
	rel := func(s uint64) []string {
		res := []string{"-", "0", strconv.FormatUint(s, 10), strconv.FormatUint(^uint64(0), 10)}
		if s > 0 {
			res = append(res, strconv.FormatUint(s-1, 10))
		}
		if s < ^uint64(0) {
			res = append(res, strconv.FormatUint(s+1, 10))
		}
		return res
	}
	cnt := 0
	for _, era := range g1Eras {
		for _, s := range slots {
			for _, st := range rel(s) {
				if era == "shelley" && st != "-" {
					continue
				}
				for _, tt := range rel(s) {
					emit(fmt.Sprintf("vi %s %d %s %s", era, s, st, tt))
					cnt++
				}
			}
		}
	}
	// the validity interval is a phase-1 check: it applies to phase-2-invalid transactions
	// (is_valid = false) too, in every era that carries the flag, however the object was built
	for _, era := range []string{"alonzo", "babbage", "conway", "dijkstra"} {
		for _, build := range []string{"c", "s"} {
			if era == "dijkstra" && build == "c" {
				continue // the Dijkstra decoder refuses is_valid = false
			}
			for _, s := range []uint64{0, 1, 10, 999, 1 << 40} {
				for _, st := range []string{"-", strconv.FormatUint(s+1, 10), strconv.FormatUint(s, 10), "1000"} {
					for _, tt := range []string{"-", strconv.FormatUint(s+1, 10), strconv.FormatUint(s, 10), "5"} {
						if build == "s" && (st == "0" || tt == "0") {
							continue
						}
						for _, v := range []string{"0", "1"} {
							emit(fmt.Sprintf("vi %s %d %s %s %s %s", era, s, st, tt, v, build))
							cnt++
						}
					}
				}
			}
		}
	}
	bound := func(s uint64) string {
		switch r.Intn(8) {
		case 0:
			return "-"
		case 1:
			return "0"
		case 2:
			return strconv.FormatUint(s, 10)
		case 3:
			if s > 0 {
				return strconv.FormatUint(s-1, 10)
			}
			return "0"
		case 4:
			if s < ^uint64(0) {
				return strconv.FormatUint(s+1, 10)
			}
			return strconv.FormatUint(s, 10)
		case 5:
			return strconv.FormatUint(^uint64(0)-uint64(r.Intn(2)), 10)
		default:
			return strconv.FormatUint(r.EdgeU64(), 10)
		}
	}
	for ; cnt < n; cnt++ {
		era := g1Eras[r.Intn(len(g1Eras))]
		s := r.EdgeU64()
		st := bound(s)
		if era == "shelley" {
			st = "-"
		}
		tt := bound(s)
		if g1EraIndex(era) >= 3 && r.Chance(1, 3) {
			v := Pick(r, "0", "0", "1")
			b := Pick(r, "c", "s")
			if era == "dijkstra" && v == "0" {
				b = "s"
			}
			if b == "s" && (st == "0" || tt == "0") {
				b = "c"
				if era == "dijkstra" {
					v = "1"
				}
			}
			emit(fmt.Sprintf("vi %s %d %s %s %s %s", era, s, st, tt, v, b))
			continue
		}
		emit(fmt.Sprintf("vi %s %d %s %s", era, s, st, tt))
	}
}

func c26Opt(s string) (present bool, v uint64, ok bool) {
	if s == "-" {
		return false, 0, true
	}
	v, err := strconv.ParseUint(s, 10, 64)
	return true, v, err == nil
}

func runC26(op string) string {
	f := strings.Fields(op)
	if (len(f) != 5 && len(f) != 7) || f[0] != "vi" || g1EraIndex(f[1]) < 0 {
		return "bad-op"
	}
	era := f[1]
	valid, build := true, "c"
	if len(f) == 7 {
		if (f[5] != "0" && f[5] != "1") || (f[6] != "c" && f[6] != "s") {
			return "bad-op"
		}
		valid, build = f[5] == "1", f[6]
		if !valid && (g1EraIndex(era) < 3 || (era == "dijkstra" && build == "c")) {
			return "bad-op" // no flag before Alonzo; the Dijkstra decoder refuses is_valid = false
		}
	}
	slot, err := strconv.ParseUint(f[2], 10, 64)
	hasStart, start, ok1 := c26Opt(f[3])
	hasTtl, ttl, ok2 := c26Opt(f[4])
	if err != nil || !ok1 || !ok2 || (era == "shelley" && hasStart) {
		return "bad-op"
	}
	out := cbArray(cbBytes(g1Addr(7)), cbUint(2000000))
	kv := [][]byte{cbUint(0), cbArray(g1TxIn(1, 0)), cbUint(1), cbArray(out), cbUint(2), cbUint(170000)}
	if hasTtl {
		kv = append(kv, cbUint(3), cbUint(ttl))
	}
	if hasStart {
		kv = append(kv, cbUint(8), cbUint(start))
	}
	var tx common.Transaction
	if build == "s" {
		if (hasStart && start == 0) || (hasTtl && ttl == 0) {
			return "bad-op"
		}
		tx = c26StructTx(era, valid, start, ttl)
		if tx == nil {
			return "bad-op"
		}
	} else {
		raw := g1Envelope(era, cbMap(kv...), cbMap(), valid, nil, 0, 0)
		var derr error
		tx, derr = g1DecodeTx(era, raw)
		if derr != nil {
			return "decode-err"
		}
	}
	if g1EraIndex(era) >= 3 && tx.IsValid() != valid {
		return "build-mismatch"
	}
	ls := mockledger.NewLedgerStateBuilder().Build()
	pp := g1Pparams(era, g1PP{MinFeeA: 44, MinFeeB: 155381, MaxTxSize: 16384, Major: 9})
	verdict := func() int {
		okv := 1
		for _, rule := range g1Rules(era) {
			e := safeRule(rule, tx, slot, ls, pp)
			if e == nil {
				continue
			}
			var e1 shelley.ExpiredUtxoError
			var e2 allegra.OutsideValidityIntervalUtxoError
			if errors.As(e, &e1) || errors.As(e, &e2) {
				okv = 0
			}
		}
		return okv
	}
	okv := verdict()
	if v2 := verdict(); v2 != okv {
		return fmt.Sprintf("IMPURE ok=%d then ok=%d", okv, v2)
	}
	return fmt.Sprintf("ok=%d", okv)
}

// c26StructTx builds the era's transaction struct directly (no CBOR): absent bounds are
// the zero value of the field.
func c26StructTx(era string, valid bool, start, ttl uint64) common.Transaction {
	switch era {
	case "shelley":
		t := &shelley.ShelleyTransaction{}
		t.Body.Ttl = ttl
		return t
	case "allegra":
		t := &allegra.AllegraTransaction{}
		t.Body.Ttl = ttl
		t.Body.TxValidityIntervalStart = start
		return t
	case "mary":
		t := &mary.MaryTransaction{}
		t.Body.Ttl = ttl
		if start != 0 {
			s := start
			t.Body.TxValidityIntervalStart = &s
		}
		return t
	case "alonzo":
		t := &alonzo.AlonzoTransaction{TxIsValid: valid}
		t.Body.Ttl = ttl
		t.Body.TxValidityIntervalStart = start
		return t
	case "babbage":
		t := &babbage.BabbageTransaction{TxIsValid: valid}
		t.Body.Ttl = ttl
		t.Body.TxValidityIntervalStart = start
		return t
	case "conway":
		t := &conway.ConwayTransaction{TxIsValid: valid}
		t.Body.Ttl = ttl
		t.Body.TxValidityIntervalStart = start
		return t
	case "dijkstra":
		t := &dijkstra.DijkstraTransaction{TxIsValid: valid}
		t.Body.Ttl = ttl
		t.Body.TxValidityIntervalStart = start
		return t
	}
	return nil
}
