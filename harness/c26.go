package main

// C26 — validity interval. The op line gives an era, the current slot and the
// two optional bounds; Run encodes a transaction of that era as CBOR (so that
// "absent" and "present with value 0" are different inputs), decodes it with
// the era's decoder and runs the era's whole UtxoValidationRules list,
// classifying errors by type.
//
//	op:  vi <era> <slot> <start|-> <ttl|->
//	out: ok=<0|1>        (1 = no validity-interval / TTL error from any listed rule)

import (
	"errors"
	"fmt"
	"strconv"
	"strings"

	"github.com/blinklabs-io/gouroboros/ledger/allegra"
	"github.com/blinklabs-io/gouroboros/ledger/shelley"
	mockledger "github.com/blinklabs-io/ouroboros-mock/ledger"
)

func init() {
	register(&Prop{ID: "C26", Gen: genC26, Run: runC26})
}

func genC26(r *Rand, n int, tier string, emit func(string)) {
	// exhaustive small grid first: every era x relation of the bounds to the slot
	slots := []uint64{0, 1, 10, 1 << 32, ^uint64(0) - 1, ^uint64(0)}
	rel := func(s uint64) []string {
		res := []string{"-", "0", strconv.FormatUint(s, 10), strconv.FormatUint(^uint64(0), 10)}
		if s > 0 {
			res = append(res, strconv.FormatUint(s-1, 10))
		}
		if s < ^uint64(0) {
			res = append(res, strconv.FormatUint(s+1, 10))
		}
		return res
	}
	cnt := 0
	for _, era := range g1Eras {
		for _, s := range slots {
			for _, st := range rel(s) {
				if era == "shelley" && st != "-" {
					continue
				}
				for _, tt := range rel(s) {
					emit(fmt.Sprintf("vi %s %d %s %s", era, s, st, tt))
					cnt++
				}
			}
		}
	}
	bound := func(s uint64) string {
		switch r.Intn(8) {
		case 0:
			return "-"
		case 1:
			return "0"
		case 2:
			return strconv.FormatUint(s, 10)
		case 3:
			if s > 0 {
				return strconv.FormatUint(s-1, 10)
			}
			return "0"
		case 4:
			if s < ^uint64(0) {
				return strconv.FormatUint(s+1, 10)
			}
			return strconv.FormatUint(s, 10)
		case 5:
			return strconv.FormatUint(^uint64(0)-uint64(r.Intn(2)), 10)
		default:
			return strconv.FormatUint(r.EdgeU64(), 10)
		}
	}
	for ; cnt < n; cnt++ {
		era := g1Eras[r.Intn(len(g1Eras))]
		s := r.EdgeU64()
		st := bound(s)
		if era == "shelley" {
			st = "-"
		}
		emit(fmt.Sprintf("vi %s %d %s %s", era, s, st, bound(s)))
	}
}

func c26Opt(s string) (present bool, v uint64, ok bool) {
	if s == "-" {
		return false, 0, true
	}
	v, err := strconv.ParseUint(s, 10, 64)
	return true, v, err == nil
}

func runC26(op string) string {
	f := strings.Fields(op)
	if len(f) != 5 || f[0] != "vi" || g1EraIndex(f[1]) < 0 {
		return "bad-op"
	}
	era := f[1]
	slot, err := strconv.ParseUint(f[2], 10, 64)
	hasStart, start, ok1 := c26Opt(f[3])
	hasTtl, ttl, ok2 := c26Opt(f[4])
	if err != nil || !ok1 || !ok2 || (era == "shelley" && hasStart) {
		return "bad-op"
	}
	out := cbArray(cbBytes(g1Addr(7)), cbUint(2000000))
	kv := [][]byte{cbUint(0), cbArray(g1TxIn(1, 0)), cbUint(1), cbArray(out), cbUint(2), cbUint(170000)}
	if hasTtl {
		kv = append(kv, cbUint(3), cbUint(ttl))
	}
	if hasStart {
		kv = append(kv, cbUint(8), cbUint(start))
	}
	raw := g1Envelope(era, cbMap(kv...), cbMap(), true, nil, 0, 0)
	tx, derr := g1DecodeTx(era, raw)
	if derr != nil {
		return "decode-err"
	}
	ls := mockledger.NewLedgerStateBuilder().Build()
	pp := g1Pparams(era, g1PP{MinFeeA: 44, MinFeeB: 155381, MaxTxSize: 16384, Major: 9})
	okv := 1
	for _, rule := range g1Rules(era) {
		e := safeRule(rule, tx, slot, ls, pp)
		if e == nil {
			continue
		}
		var e1 shelley.ExpiredUtxoError
		var e2 allegra.OutsideValidityIntervalUtxoError
		if errors.As(e, &e1) || errors.As(e, &e2) {
			okv = 0
		}
	}
	return fmt.Sprintf("ok=%d", okv)
}
