package main

// Regenerated tie for C17–C20: the protocol version tables read out of the
// running code (protocol/versions.go) and written as Lean tables to
// lean/GV/Gen/Versions.lean on every check.

import (
	"bufio"
	"fmt"
	"reflect"
	"sort"
	"strings"

	"github.com/blinklabs-io/gouroboros/muxer"
	"github.com/blinklabs-io/gouroboros/protocol"
	"github.com/blinklabs-io/gouroboros/protocol/blockfetch"
	"github.com/blinklabs-io/gouroboros/protocol/chainsync"
	"github.com/blinklabs-io/gouroboros/protocol/handshake"
	"github.com/blinklabs-io/gouroboros/protocol/keepalive"
	"github.com/blinklabs-io/gouroboros/protocol/leiosfetch"
	"github.com/blinklabs-io/gouroboros/protocol/leiosnotify"
	"github.com/blinklabs-io/gouroboros/protocol/leiosvotes"
	"github.com/blinklabs-io/gouroboros/protocol/localmessagenotification"
	"github.com/blinklabs-io/gouroboros/protocol/localmessagesubmission"
	"github.com/blinklabs-io/gouroboros/protocol/localstatequery"
	"github.com/blinklabs-io/gouroboros/protocol/localtxmonitor"
	"github.com/blinklabs-io/gouroboros/protocol/localtxsubmission"
	"github.com/blinklabs-io/gouroboros/protocol/peersharing"
	"github.com/blinklabs-io/gouroboros/protocol/txsubmission"
)

// decoder kinds (must match GV.Model.VersionData.Kind.ofNat):
// 0 = no decoder, 1 NtC9to14, 2 NtC15andUp, 3 NtN7to10, 4 NtN11to12, 5 NtN13andUp, 99 unknown function
func g2DecoderKind(f protocol.NewVersionDataFromCborFunc) int {
	if f == nil {
		return 0
	}
	p := reflect.ValueOf(f).Pointer()
	known := []protocol.NewVersionDataFromCborFunc{
		protocol.NewVersionDataNtC9to14FromCbor,
		protocol.NewVersionDataNtC15andUpFromCbor,
		protocol.NewVersionDataNtN7to10FromCbor,
		protocol.NewVersionDataNtN11to12FromCbor,
		protocol.NewVersionDataNtN13andUpFromCbor,
	}
	for i, k := range known {
		if reflect.ValueOf(k).Pointer() == p {
			return i + 1
		}
	}
	return 99
}

// dynamic Go type of a generated version-data entry, same numbering
func g2DataKind(v protocol.VersionData) int {
	switch v.(type) {
	case protocol.VersionDataNtC9to14:
		return 1
	case protocol.VersionDataNtC15andUp:
		return 2
	case protocol.VersionDataNtN7to10:
		return 3
	case protocol.VersionDataNtN11to12:
		return 4
	case protocol.VersionDataNtN13andUp:
		return 5
	case nil:
		return 0
	}
	return 99
}

func g2Bool(b bool) string {
	if b {
		return "true"
	}
	return "false"
}

func g2NatList(xs []uint16) string {
	s := make([]string, len(xs))
	for i, x := range xs {
		s[i] = fmt.Sprint(x)
	}
	return "[" + strings.Join(s, ", ") + "]"
}

// g2MapShape returns the sorted (key, entry kind) list of a generated version
// map, and checks that the shape does not depend on the flag arguments.
func g2MapShape(gen func(dm, ps, q bool) protocol.ProtocolVersionMap) string {
	var first string
	for i := 0; i < 8; i++ {
		m := gen(i&1 != 0, i&2 != 0, i&4 != 0)
		keys := []int{}
		for k := range m {
			keys = append(keys, int(k))
		}
		sort.Ints(keys)
		parts := []string{}
		for _, k := range keys {
			parts = append(parts, fmt.Sprintf("(%d, %d)", k, g2DataKind(m[uint16(k)])))
		}
		s := "[" + strings.Join(parts, ", ") + "]"
		if i == 0 {
			first = s
		} else if s != first {
			// shape depends on the flags: make the Lean side fail loudly
			return "[(0, 98)]"
		}
	}
	return first
}

// g2PsValue reads the CborPeerSharing field a generated entry carries.
func g2PsField(v protocol.VersionData) (uint, bool) {
	switch d := v.(type) {
	case protocol.VersionDataNtN11to12:
		return d.CborPeerSharing, true
	case protocol.VersionDataNtN13andUp:
		return d.CborPeerSharing, true
	}
	return 0, false
}

func init() {
	registerDump("Versions", func(w *bufio.Writer) {
		fmt.Fprintln(w, "namespace GV.Gen.Versions")
		fmt.Fprintln(w, "/-- One row per version number v in 0..65535 for which `protocol.GetProtocolVersion(v)` is not the")
		fmt.Fprintln(w, "    zero struct: (v, decoder kind, era flags Shelley..Dijkstra,")
		fmt.Fprintln(w, "    [LocalQuery, LocalTxMonitor, KeepAlive, FullDuplex, PeerSharing, PeerSharingUseV11]). -/")
		fmt.Fprintln(w, "def table : List (Nat × Nat × List Bool × List Bool) := [")
		first := true
		for v := 0; v < 65536; v++ {
			pv := protocol.GetProtocolVersion(uint16(v))
			k := g2DecoderKind(pv.NewVersionDataFromCborFunc)
			eras := []bool{pv.EnableShelleyEra, pv.EnableAllegraEra, pv.EnableMaryEra, pv.EnableAlonzoEra, pv.EnableBabbageEra, pv.EnableConwayEra, pv.EnableDijkstraEra}
			flags := []bool{pv.EnableLocalQueryProtocol, pv.EnableLocalTxMonitorProtocol, pv.EnableKeepAliveProtocol, pv.EnableFullDuplex, pv.EnablePeerSharingProtocol, pv.PeerSharingUseV11}
			any := k != 0
			for _, b := range eras {
				any = any || b
			}
			for _, b := range flags {
				any = any || b
			}
			if !any {
				continue
			}
			// the struct must have exactly the fields dumped here, otherwise a new flag would go unnoticed
			if reflect.TypeOf(pv).NumField() != 14 {
				k = 97
			}
			es := make([]string, len(eras))
			for i, b := range eras {
				es[i] = g2Bool(b)
			}
			fs := make([]string, len(flags))
			for i, b := range flags {
				fs[i] = g2Bool(b)
			}
			if !first {
				fmt.Fprintln(w, ",")
			}
			first = false
			fmt.Fprintf(w, "  (%d, %d, [%s], [%s])", v, k, strings.Join(es, ", "), strings.Join(fs, ", "))
		}
		fmt.Fprintln(w, "]")
		fmt.Fprintln(w, "def scanned : Nat := 65536")
		fmt.Fprintf(w, "def ntcOffset : Nat := %d\n", protocol.ProtocolVersionNtCOffset)
		fmt.Fprintf(w, "def dmqNtcOffset : Nat := %d\n", protocol.ProtocolVersionDMQNtCOffset)
		fmt.Fprintf(w, "def ntcList : List Nat := %s\n", g2NatList(protocol.GetProtocolVersionsNtC()))
		fmt.Fprintf(w, "def ntnList : List Nat := %s\n", g2NatList(protocol.GetProtocolVersionsNtN()))
		fmt.Fprintf(w, "def dmqNtcList : List Nat := %s\n", g2NatList(protocol.GetProtocolVersionsDMQNtC()))
		fmt.Fprintf(w, "def dmqNtnList : List Nat := %s\n", g2NatList(protocol.GetProtocolVersionsDMQNtN()))
		fmt.Fprintln(w, "/-- sorted (version, Go type of the generated entry) of `GetProtocolVersionMap(NtC, …)`; the shape is the same")
		fmt.Fprintln(w, "    for all 8 flag combinations (checked by the dump; `[(0, 98)]` otherwise). -/")
		fmt.Fprintf(w, "def mapNtC : List (Nat × Nat) := %s\n", g2MapShape(func(dm, ps, q bool) protocol.ProtocolVersionMap {
			return protocol.GetProtocolVersionMap(protocol.ProtocolModeNodeToClient, 764824073, dm, ps, q)
		}))
		fmt.Fprintf(w, "def mapNtN : List (Nat × Nat) := %s\n", g2MapShape(func(dm, ps, q bool) protocol.ProtocolVersionMap {
			return protocol.GetProtocolVersionMap(protocol.ProtocolModeNodeToNode, 764824073, dm, ps, q)
		}))
		fmt.Fprintf(w, "def mapDmqNtC : List (Nat × Nat) := %s\n", g2MapShape(func(dm, ps, q bool) protocol.ProtocolVersionMap {
			return protocol.GetProtocolVersionMapDMQNtC(3141592, q)
		}))
		fmt.Fprintf(w, "def mapDmqNtN : List (Nat × Nat) := %s\n", g2MapShape(func(dm, ps, q bool) protocol.ProtocolVersionMap {
			return protocol.GetProtocolVersionMapDMQNtN(3141592, dm, ps, q)
		}))
		// peer-sharing field values per (table, version): (table, v, value for ps=false, value for ps=true)
		fmt.Fprintln(w, "/-- CborPeerSharing field written by the generators: (table 0=NtN 1=DMQ-NtN, version, value when peerSharing=false, when true). -/")
		fmt.Fprintln(w, "def psValues : List (Nat × Nat × Nat × Nat) := [")
		first = true
		for t := 0; t < 2; t++ {
			var m0, m1 protocol.ProtocolVersionMap
			if t == 0 {
				m0 = protocol.GetProtocolVersionMap(protocol.ProtocolModeNodeToNode, 1, false, false, false)
				m1 = protocol.GetProtocolVersionMap(protocol.ProtocolModeNodeToNode, 1, false, true, false)
			} else {
				m0 = protocol.GetProtocolVersionMapDMQNtN(1, false, false, false)
				m1 = protocol.GetProtocolVersionMapDMQNtN(1, false, true, false)
			}
			keys := []int{}
			for k := range m0 {
				keys = append(keys, int(k))
			}
			sort.Ints(keys)
			for _, k := range keys {
				a, ok := g2PsField(m0[uint16(k)])
				b, ok2 := g2PsField(m1[uint16(k)])
				if !ok || !ok2 {
					continue
				}
				if !first {
					fmt.Fprintln(w, ",")
				}
				first = false
				fmt.Fprintf(w, "  (%d, %d, %d, %d)", t, k, a, b)
			}
		}
		fmt.Fprintln(w, "]")
		fmt.Fprintln(w, "end GV.Gen.Versions")
	})
}

// g2ProtoIds: mini-protocol names and muxer ids, from the packages' own constants.
func g2ProtoIds() [][2]any {
	return [][2]any{
		{handshake.ProtocolName, uint16(handshake.ProtocolId)},
		{chainsync.ProtocolName + "/ntn", chainsync.ProtocolIdNtN},
		{chainsync.ProtocolName + "/ntc", chainsync.ProtocolIdNtC},
		{blockfetch.ProtocolName, blockfetch.ProtocolId},
		{txsubmission.ProtocolName, txsubmission.ProtocolId},
		{localtxsubmission.ProtocolName, localtxsubmission.ProtocolId},
		{localstatequery.ProtocolName, localstatequery.ProtocolId},
		{keepalive.ProtocolName, keepalive.ProtocolId},
		{localtxmonitor.ProtocolName, localtxmonitor.ProtocolId},
		{peersharing.ProtocolName, uint16(peersharing.ProtocolId)},
		{leiosnotify.ProtocolName, leiosnotify.ProtocolId},
		{leiosfetch.ProtocolName, leiosfetch.ProtocolId},
		{leiosvotes.ProtocolName, leiosvotes.ProtocolId},
		{localmessagesubmission.ProtocolName, uint16(localmessagesubmission.ProtocolID)},
		{localmessagenotification.ProtocolName, uint16(localmessagenotification.ProtocolID)},
	}
}

func init() {
	registerDump("ConnProtocols", func(w *bufio.Writer) {
		fmt.Fprintln(w, "namespace GV.Gen.ConnProtocols")
		fmt.Fprintln(w, "/-- (protocol name, muxer protocol id) from the mini-protocol packages' constants -/")
		fmt.Fprintln(w, "def ids : List (String × Nat) := [")
		for i, p := range g2ProtoIds() {
			sep := ","
			if i == len(g2ProtoIds())-1 {
				sep = ""
			}
			fmt.Fprintf(w, "  (%q, %d)%s\n", p[0], p[1], sep)
		}
		fmt.Fprintln(w, "]")
		fmt.Fprintf(w, "def responseFlag : Nat := %d\n", 0x8000)
		fmt.Fprintf(w, "def muxModeInitiator : Nat := %d\n", muxer.DiffusionModeInitiator)
		fmt.Fprintf(w, "def muxModeResponder : Nat := %d\n", muxer.DiffusionModeResponder)
		fmt.Fprintf(w, "def muxModeBoth : Nat := %d\n", muxer.DiffusionModeInitiatorAndResponder)
		fmt.Fprintln(w, "end GV.Gen.ConnProtocols")
	})
}
