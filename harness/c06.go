package main

// C06 — multi-asset values: Compare / Add / Asset / Policies and the CBOR
// encoding, run on the real common.MultiAsset[*big.Int] (the instantiation
// used by outputs and mint).  Map literals: see lean/GV/Drv/C06.lean.

import (
	"bytes"
	"fmt"
	"math/big"
	"sort"
	"strconv"
	"strings"
	"time"

	"github.com/blinklabs-io/gouroboros/cbor"
	"github.com/blinklabs-io/gouroboros/ledger/common"
)

type c06MA = common.MultiAsset[*big.Int]

func init() {
	register(&Prop{ID: "C06", Gen: genC06, Run: runC06, Timeout: 10 * time.Minute})
}

// ---- literals

type c06Entry struct {
	name []byte
	qty  *big.Int // nil allowed
}
type c06Pol struct {
	pol []byte
	es  []c06Entry
}

func c06Lit(ps []c06Pol) string {
	if len(ps) == 0 {
		return "-"
	}
	var sb strings.Builder
	for i, p := range ps {
		if i > 0 {
			sb.WriteByte(';')
		}
		sb.WriteString(hexs(p.pol))
		sb.WriteByte(':')
		for j, e := range p.es {
			if j > 0 {
				sb.WriteByte(',')
			}
			sb.WriteString(hexs(e.name))
			sb.WriteByte('=')
			sb.WriteString(bigStr(e.qty))
		}
	}
	return sb.String()
}

func c06Parse(s string) (*c06MA, bool) {
	if s == "nil" {
		return nil, true
	}
	data := map[common.Blake2b224]map[cbor.ByteString]*big.Int{}
	if s != "-" {
		for _, pe := range strings.Split(s, ";") {
			pi := strings.Split(pe, ":")
			if len(pi) != 2 {
				return nil, false
			}
			pb, ok := unhex(pi[0])
			if !ok || len(pb) != 28 {
				return nil, false
			}
			pol := common.NewBlake2b224(pb)
			if _, dup := data[pol]; dup {
				return nil, false
			}
			inner := map[cbor.ByteString]*big.Int{}
			if pi[1] != "" {
				for _, ee := range strings.Split(pi[1], ",") {
					nq := strings.Split(ee, "=")
					if len(nq) != 2 {
						return nil, false
					}
					nb, ok := unhex(nq[0])
					if !ok {
						return nil, false
					}
					var q *big.Int
					if nq[1] != "nil" {
						q, ok = new(big.Int).SetString(nq[1], 10)
						if !ok {
							return nil, false
						}
					}
					k := cbor.NewByteString(nb)
					if _, dup := inner[k]; dup {
						return nil, false
					}
					inner[k] = q
				}
			}
			data[pol] = inner
		}
	}
	m := common.NewMultiAsset[*big.Int](data)
	return &m, true
}

func c06Full(m *c06MA) string {
	pols := m.Policies()
	if len(pols) == 0 {
		return "-"
	}
	sort.Slice(pols, func(i, j int) bool { return bytes.Compare(pols[i][:], pols[j][:]) < 0 })
	var sb strings.Builder
	for i, p := range pols {
		if i > 0 {
			sb.WriteByte(';')
		}
		sb.WriteString(hexs(p[:]))
		sb.WriteByte(':')
		names := m.Assets(p)
		sort.Slice(names, func(i, j int) bool { return bytes.Compare(names[i], names[j]) < 0 })
		for j, n := range names {
			if j > 0 {
				sb.WriteByte(',')
			}
			sb.WriteString(hexs(n))
			sb.WriteByte('=')
			sb.WriteString(bigStr(m.Asset(p, n)))
		}
	}
	return sb.String()
}

func c06Zeros(m *c06MA) int {
	z := 0
	for _, p := range m.Policies() {
		names := m.Assets(p)
		if len(names) == 0 {
			z++
		}
		for _, n := range names {
			q := m.Asset(p, n)
			if q == nil || q.Sign() == 0 {
				z++
			}
		}
	}
	return z
}

// c06Clone rebuilds an independent value (Add mutates its receiver).
func c06Clone(m *c06MA) *c06MA {
	c, _ := c06Parse(c06Full(m))
	return c
}

func runC06(op string) string {
	f := strings.Fields(op)
	if len(f) == 0 {
		return "bad-op"
	}
	parse := func(i int, allowNil bool) *c06MA {
		if i >= len(f) {
			return nil
		}
		m, ok := c06Parse(f[i])
		if !ok || (m == nil && !allowNil) {
			return nil
		}
		return m
	}
	if (f[0] == "cmpw" || f[0] == "addw" || f[0] == "add3w") && len(f) >= 4 {
		switch f[1] {
		case "s":
			return c06RunW[int64](f, func(s string) (int64, bool) {
				v, err := strconv.ParseInt(s, 10, 64)
				return v, err == nil
			}, func(v int64) string { return strconv.FormatInt(v, 10) })
		case "u":
			return c06RunW[uint64](f, func(s string) (uint64, bool) {
				v, err := strconv.ParseUint(s, 10, 64)
				return v, err == nil
			}, func(v uint64) string { return strconv.FormatUint(v, 10) })
		}
		return "bad-op"
	}
	switch {
	case f[0] == "cmp" && len(f) == 3:
		a := parse(1, false)
		b, ok := c06Parse(f[2])
		if a == nil || !ok {
			return "bad-op"
		}
		return b01(a.Compare(b))
	case f[0] == "add" && len(f) == 3:
		a := parse(1, false)
		b, ok := c06Parse(f[2])
		if a == nil || !ok {
			return "bad-op"
		}
		a.Add(b)
		return "norm=" + a.String() + " full=" + c06Full(a)
	case f[0] == "add3" && len(f) == 4:
		a, b, c := parse(1, false), parse(2, false), parse(3, false)
		if a == nil || b == nil || c == nil {
			return "bad-op"
		}
		l := c06Clone(a)
		l.Add(b)
		l.Add(c)
		bc := c06Clone(b)
		bc.Add(c)
		r := c06Clone(a)
		r.Add(bc)
		ab := c06Clone(a)
		ab.Add(b)
		ba := c06Clone(b)
		ba.Add(a)
		return "assoc=" + b01(l.Compare(r)) + " comm=" + b01(ab.Compare(ba))
	case f[0] == "enc" && len(f) == 2:
		a := parse(1, false)
		if a == nil {
			return "bad-op"
		}
		e, err := cbor.Encode(a)
		if err != nil {
			return "err"
		}
		return hexs(e)
	case f[0] == "dec" && len(f) == 2:
		b, ok := unhex(f[1])
		if !ok {
			return "bad-op"
		}
		var m c06MA
		if _, err := cbor.Decode(b, &m); err != nil {
			return "err"
		}
		return "dup=" + b01(m.CheckForDuplicateKeys() != nil) + " full=" + c06Full(&m)
	case f[0] == "rt" && len(f) == 2:
		a := parse(1, false)
		if a == nil {
			return "bad-op"
		}
		e, err := cbor.Encode(a)
		if err != nil {
			return "err"
		}
		var m c06MA
		if _, err := cbor.Decode(e, &m); err != nil {
			return "err"
		}
		e2, err := cbor.Encode(&m)
		if err != nil {
			return "err"
		}
		return fmt.Sprintf("cmp=%s zeros=%d dup=%s enc2=%s", b01(m.Compare(a)), c06Zeros(&m), b01(m.CheckForDuplicateKeys() != nil), hexs(e2))
	case f[0] == "asset" && len(f) == 4:
		a := parse(1, false)
		p, ok1 := unhex(f[2])
		n, ok2 := unhex(f[3])
		if a == nil || !ok1 || !ok2 || len(p) != 28 {
			return "bad-op"
		}
		return bigStr(a.Asset(common.NewBlake2b224(p), n))
	case f[0] == "pols" && len(f) == 2:
		a := parse(1, false)
		if a == nil {
			return "bad-op"
		}
		pols := a.Policies()
		if len(pols) == 0 {
			return "-"
		}
		hs := make([]string, len(pols))
		for i, p := range pols {
			hs[i] = hexs(p[:])
		}
		sort.Strings(hs)
		return strings.Join(hs, ",")
	}
	return "bad-op"
}

// ---- generator

var c06Edges = []string{
	"0", "1", "-1", "2", "23", "24", "255", "256", "65535", "65536", "4294967295", "4294967296",
	"9223372036854775807", "9223372036854775808", "-9223372036854775808", "-9223372036854775809",
	"18446744073709551615", "18446744073709551616", "18446744073709551617",
	"-18446744073709551615", "-18446744073709551616", "-18446744073709551617",
	"340282366920938463463374607431768211456", "-340282366920938463463374607431768211457",
	"-24", "-25", "-256", "-257",
}

func c06Qty(r *Rand) *big.Int {
	switch r.Intn(10) {
	case 0:
		return nil
	case 1, 2:
		return new(big.Int)
	case 3, 4:
		q, _ := new(big.Int).SetString(c06Edges[r.Intn(len(c06Edges))], 10)
		return q
	case 5:
		q := new(big.Int).SetBytes(r.Bytes(1 + r.Intn(20)))
		if r.Bool() {
			q.Neg(q)
		}
		return q
	case 6:
		q := new(big.Int).SetUint64(r.EdgeU64())
		if r.Bool() {
			q.Neg(q)
		}
		return q
	default:
		return big.NewInt(int64(r.Intn(7)) - 3)
	}
}

// a small key universe so that operands overlap
func c06Pols(r *Rand) [][]byte {
	base := make([]byte, 28)
	ps := [][]byte{}
	for i := 0; i < 4; i++ {
		p := append([]byte{}, base...)
		switch i {
		case 0: // all zero (the "ADA" policy look-alike)
		case 1:
			p[27] = 1
		case 2:
			p[0] = 0xff
		default:
			copy(p, r.Bytes(28))
		}
		ps = append(ps, p)
	}
	return ps
}

func c06Names(r *Rand) [][]byte {
	ns := [][]byte{{}, {0x00}, {0x61}, {0x61, 0x00}, {0x62}, {0xff}, bytes.Repeat([]byte{0x61}, 23), bytes.Repeat([]byte{0x61}, 24), bytes.Repeat([]byte{0x7a}, 32)}
	if r.Chance(1, 4) {
		ns = append(ns, r.Bytes(1+r.Intn(40)))
	}
	if r.Chance(1, 40) {
		ns = append(ns, bytes.Repeat([]byte{0x01}, 256))
	}
	return ns
}

func c06Shuffle[T any](r *Rand, xs []T) {
	for i := len(xs) - 1; i > 0; i-- {
		j := r.Intn(i + 1)
		xs[i], xs[j] = xs[j], xs[i]
	}
}

func c06Rand(r *Rand, pols, names [][]byte) []c06Pol {
	np := Pick(r, 0, 1, 1, 2, 2, 3, 4)
	pi := []int{0, 1, 2, 3}
	c06Shuffle(r, pi)
	out := []c06Pol{}
	for i := 0; i < np && i < len(pols); i++ {
		p := c06Pol{pol: pols[pi[i]]}
		nn := Pick(r, 0, 1, 1, 2, 3, 5)
		ni := make([]int, len(names))
		for k := range ni {
			ni[k] = k
		}
		c06Shuffle(r, ni)
		for j := 0; j < nn && j < len(names); j++ {
			p.es = append(p.es, c06Entry{names[ni[j]], c06Qty(r)})
		}
		out = append(out, p)
	}
	return out
}

func c06Copy(a []c06Pol) []c06Pol {
	out := make([]c06Pol, len(a))
	for i, p := range a {
		out[i] = c06Pol{pol: p.pol, es: append([]c06Entry{}, p.es...)}
	}
	return out
}

// c06Variant: a value related to a (same up to order/zeros, one quantity off, negation, …)
func c06Variant(r *Rand, a []c06Pol, pols, names [][]byte) []c06Pol {
	b := c06Copy(a)
	switch r.Intn(7) {
	case 0: // same map, other order
	case 1: // drop zero entries / add zero entries
		for i := range b {
			es := []c06Entry{}
			for _, e := range b[i].es {
				if (e.qty == nil || e.qty.Sign() == 0) && r.Bool() {
					continue
				}
				es = append(es, e)
			}
			b[i].es = es
		}
		if r.Bool() {
			b = append(b, c06Pol{pol: []byte("0123456789012345678901234567"), es: []c06Entry{{[]byte{0x7}, nil}}})
		}
	case 2: // one quantity changed by ±1
		if len(b) > 0 {
			i := r.Intn(len(b))
			if len(b[i].es) > 0 {
				j := r.Intn(len(b[i].es))
				q := b[i].es[j].qty
				if q == nil {
					q = new(big.Int)
				}
				b[i].es[j].qty = new(big.Int).Add(q, big.NewInt(int64(r.Intn(2))*2-1))
			}
		}
	case 3: // negation
		for i := range b {
			for j := range b[i].es {
				if b[i].es[j].qty != nil {
					b[i].es[j].qty = new(big.Int).Neg(b[i].es[j].qty)
				}
			}
		}
	case 4: // move an entry to another name (same counts, different keys)
		if len(b) > 0 {
			i := r.Intn(len(b))
			if len(b[i].es) > 0 {
				j := r.Intn(len(b[i].es))
				nn := append(append([]byte{}, b[i].es[j].name...), 0x01)
				b[i].es[j].name = nn
			}
		}
	case 5: // same assets under a different policy
		if len(b) > 0 {
			i := r.Intn(len(b))
			np := append([]byte{}, b[i].pol...)
			np[5] ^= 0x80
			b[i].pol = np
		}
	default:
		return c06Rand(r, pols, names)
	}
	c06Shuffle(r, b)
	for i := range b {
		c06Shuffle(r, b[i].es)
	}
	return b
}

func c06Head(r *Rand, major byte, n uint64, nonMinimal bool) []byte {
	w := 0
	switch {
	case n < 24:
		w = 0
	case n < 256:
		w = 1
	case n < 65536:
		w = 2
	case n < 1<<32:
		w = 4
	default:
		w = 8
	}
	if nonMinimal {
		ws := []int{0, 1, 2, 4, 8}
		for {
			c := ws[r.Intn(5)]
			if c >= w {
				w = c
				break
			}
		}
	}
	if w == 0 {
		return []byte{major<<5 | byte(n)}
	}
	ai := map[int]byte{1: 24, 2: 25, 4: 26, 8: 27}[w]
	out := []byte{major<<5 | ai}
	for i := w - 1; i >= 0; i-- {
		out = append(out, byte(n>>(8*uint(i))))
	}
	return out
}

// c06Raw hand-encodes a (possibly non-canonical) wire form: given order, optional duplicates,
// non-minimal heads, bignum forms of small numbers, indefinite maps.
func c06Raw(r *Rand, ps []c06Pol, sloppy bool) []byte {
	nm := func() bool { return sloppy && r.Chance(1, 6) }
	encBytes := func(b []byte) []byte { return append(c06Head(r, 2, uint64(len(b)), nm()), b...) }
	encQty := func(q *big.Int) []byte {
		if q == nil {
			return []byte{0xf6}
		}
		if q.Sign() >= 0 {
			if q.IsUint64() && !(sloppy && r.Chance(1, 8)) {
				return c06Head(r, 0, q.Uint64(), nm())
			}
			b := q.Bytes()
			if sloppy && r.Chance(1, 4) {
				b = append([]byte{0}, b...)
			}
			return append([]byte{0xc2}, encBytes(b)...)
		}
		n := new(big.Int).Sub(big.NewInt(-1), q)
		if n.IsUint64() && !(sloppy && r.Chance(1, 8)) {
			return c06Head(r, 1, n.Uint64(), nm())
		}
		return append([]byte{0xc3}, encBytes(n.Bytes())...)
	}
	encMap := func(n int, body []byte) []byte {
		if sloppy && r.Chance(1, 8) {
			return append(append([]byte{0xbf}, body...), 0xff)
		}
		return append(c06Head(r, 5, uint64(n), nm()), body...)
	}
	var body []byte
	for _, p := range ps {
		var ib []byte
		for _, e := range p.es {
			ib = append(ib, encBytes(e.name)...)
			ib = append(ib, encQty(e.qty)...)
		}
		body = append(body, encBytes(p.pol)...)
		body = append(body, encMap(len(p.es), ib)...)
	}
	return encMap(len(ps), body)
}

func genC06(r *Rand, n int, tier string, emit func(string)) {
	for i := 0; i < n; i++ {
		pols := c06Pols(r)
		names := c06Names(r)
		a := c06Rand(r, pols, names)
		if r.Chance(1, 8) {
			// fixed-width instantiations: same key structure, quantities of the type
			signed := r.Bool()
			k := "u"
			if signed {
				k = "s"
			}
			aw := c06RetypeW(r, a, signed)
			bw := c06RetypeW(r, c06Variant(r, a, pols, names), signed)
			if r.Chance(1, 3) {
				// same keys, complementary or equal quantities (cancellation, equality, overflow)
				bw = c06Copy(aw)
				for x := range bw {
					for y := range bw[x].es {
						switch r.Intn(3) {
						case 0:
							if signed && bw[x].es[y].qty.IsInt64() && bw[x].es[y].qty.Int64() != -1<<63 {
								bw[x].es[y].qty = new(big.Int).Neg(bw[x].es[y].qty)
							}
						case 1:
							bw[x].es[y].qty = c06QtyW(r, signed)
						}
					}
				}
				c06Shuffle(r, bw)
			}
			switch r.Intn(3) {
			case 0:
				emit("cmpw " + k + " " + c06Lit(aw) + " " + c06Lit(bw))
			case 1:
				emit("addw " + k + " " + c06Lit(aw) + " " + c06Lit(bw))
			default:
				cw := c06RetypeW(r, c06Variant(r, a, pols, names), signed)
				emit("add3w " + k + " " + c06Lit(aw) + " " + c06Lit(bw) + " " + c06Lit(cw))
			}
			continue
		}
		switch r.Intn(12) {
		case 0, 1, 2:
			b := c06Variant(r, a, pols, names)
			if r.Chance(1, 30) {
				emit("cmp " + c06Lit(a) + " nil")
			} else {
				emit("cmp " + c06Lit(a) + " " + c06Lit(b))
			}
		case 3, 4:
			b := c06Variant(r, a, pols, names)
			if r.Chance(1, 30) {
				emit("add " + c06Lit(a) + " nil")
			} else {
				emit("add " + c06Lit(a) + " " + c06Lit(b))
			}
		case 5, 6:
			b := c06Variant(r, a, pols, names)
			c := c06Variant(r, Pick(r, a, b), pols, names)
			emit("add3 " + c06Lit(a) + " " + c06Lit(b) + " " + c06Lit(c))
		case 7:
			emit("enc " + c06Lit(a))
			// the same map in another order must give the same bytes (the model sorts, Go sorts)
			b := c06Copy(a)
			c06Shuffle(r, b)
			for k := range b {
				c06Shuffle(r, b[k].es)
			}
			emit("enc " + c06Lit(b))
		case 8:
			emit("rt " + c06Lit(a))
		case 9:
			// wire forms: canonical-by-hand, shuffled, with duplicates, sloppy heads, truncated
			b := c06Copy(a)
			if r.Chance(1, 3) && len(b) > 0 {
				d := b[r.Intn(len(b))]
				d2 := c06Pol{pol: d.pol, es: append([]c06Entry{}, d.es...)}
				if r.Bool() {
					d2.es = []c06Entry{{names[r.Intn(len(names))], c06Qty(r)}}
				}
				b = append(b, d2)
			}
			if r.Chance(1, 3) && len(b) > 0 {
				k := r.Intn(len(b))
				if len(b[k].es) > 0 {
					e := b[k].es[r.Intn(len(b[k].es))]
					b[k].es = append(b[k].es, c06Entry{e.name, c06Qty(r)})
				}
			}
			if r.Chance(1, 10) && len(b) > 0 {
				// wrong-length policy id (the decoder pads / truncates into [28]byte)
				k := r.Intn(len(b))
				if r.Bool() {
					b[k].pol = b[k].pol[:27]
				} else {
					b[k].pol = append(append([]byte{}, b[k].pol...), 0x55)
				}
			}
			raw := c06Raw(r, b, r.Bool())
			if r.Chance(1, 10) && len(raw) > 1 {
				raw = raw[:r.Intn(len(raw))]
			}
			emit("dec " + hexs(raw))
		case 10:
			p := pols[r.Intn(len(pols))]
			nm := names[r.Intn(len(names))]
			if len(a) > 0 && r.Bool() {
				p = a[0].pol
				if len(a[0].es) > 0 {
					nm = a[0].es[0].name
				}
			}
			emit("asset " + c06Lit(a) + " " + hexs(p) + " " + hexs(nm))
		default:
			emit("pols " + c06Lit(a))
		}
	}
}

// ---- fixed-width instantiations MultiAsset[int64] / MultiAsset[uint64]

type c06Num interface{ int64 | uint64 }

func c06ParseW[T c06Num](s string, conv func(string) (T, bool)) (*common.MultiAsset[T], bool) {
	if s == "nil" {
		return nil, true
	}
	data := map[common.Blake2b224]map[cbor.ByteString]T{}
	if s != "-" {
		for _, pe := range strings.Split(s, ";") {
			pi := strings.Split(pe, ":")
			if len(pi) != 2 {
				return nil, false
			}
			pb, ok := unhex(pi[0])
			if !ok || len(pb) != 28 {
				return nil, false
			}
			pol := common.NewBlake2b224(pb)
			if _, dup := data[pol]; dup {
				return nil, false
			}
			inner := map[cbor.ByteString]T{}
			if pi[1] != "" {
				for _, ee := range strings.Split(pi[1], ",") {
					nq := strings.Split(ee, "=")
					if len(nq) != 2 {
						return nil, false
					}
					nb, ok := unhex(nq[0])
					if !ok {
						return nil, false
					}
					q, ok := conv(nq[1])
					if !ok {
						return nil, false
					}
					k := cbor.NewByteString(nb)
					if _, dup := inner[k]; dup {
						return nil, false
					}
					inner[k] = q
				}
			}
			data[pol] = inner
		}
	}
	m := common.NewMultiAsset[T](data)
	return &m, true
}

func c06FullW[T c06Num](m *common.MultiAsset[T], str func(T) string) string {
	pols := m.Policies()
	if len(pols) == 0 {
		return "-"
	}
	sort.Slice(pols, func(i, j int) bool { return bytes.Compare(pols[i][:], pols[j][:]) < 0 })
	var sb strings.Builder
	for i, p := range pols {
		if i > 0 {
			sb.WriteByte(';')
		}
		sb.WriteString(hexs(p[:]))
		sb.WriteByte(':')
		names := m.Assets(p)
		sort.Slice(names, func(i, j int) bool { return bytes.Compare(names[i], names[j]) < 0 })
		for j, n := range names {
			if j > 0 {
				sb.WriteByte(',')
			}
			sb.WriteString(hexs(n))
			sb.WriteByte('=')
			sb.WriteString(str(m.Asset(p, n)))
		}
	}
	return sb.String()
}

func c06RunW[T c06Num](f []string, conv func(string) (T, bool), str func(T) string) string {
	get := func(i int, allowNil bool) (*common.MultiAsset[T], bool) {
		m, ok := c06ParseW[T](f[i], conv)
		if !ok || (m == nil && !allowNil) {
			return nil, false
		}
		return m, true
	}
	clone := func(m *common.MultiAsset[T]) *common.MultiAsset[T] {
		c, _ := c06ParseW[T](c06FullW(m, str), conv)
		return c
	}
	switch {
	case f[0] == "cmpw" && len(f) == 4:
		a, ok1 := get(2, false)
		b, ok2 := get(3, true)
		if !ok1 || !ok2 {
			return "bad-op"
		}
		return b01(a.Compare(b))
	case f[0] == "addw" && len(f) == 4:
		a, ok1 := get(2, false)
		b, ok2 := get(3, true)
		if !ok1 || !ok2 {
			return "bad-op"
		}
		a.Add(b)
		return "norm=" + a.String() + " full=" + c06FullW(a, str)
	case f[0] == "add3w" && len(f) == 5:
		a, ok1 := get(2, false)
		b, ok2 := get(3, false)
		c, ok3 := get(4, false)
		if !ok1 || !ok2 || !ok3 {
			return "bad-op"
		}
		l := clone(a)
		l.Add(b)
		l.Add(c)
		bc := clone(b)
		bc.Add(c)
		r := clone(a)
		r.Add(bc)
		ab := clone(a)
		ab.Add(b)
		ba := clone(b)
		ba.Add(a)
		return "assoc=" + b01(l.Compare(r)) + " comm=" + b01(ab.Compare(ba))
	}
	return "bad-op"
}

// quantities of a fixed-width type, boundary-heavy, as big.Int for the literal printer
func c06QtyW(r *Rand, signed bool) *big.Int {
	if signed {
		e := []string{"0", "0", "1", "-1", "2", "-3", "9223372036854775807", "9223372036854775806", "-9223372036854775808", "-9223372036854775807", "4611686018427387904", "-4611686018427387904", "4611686018427387903"}
		if r.Chance(2, 3) {
			q, _ := new(big.Int).SetString(e[r.Intn(len(e))], 10)
			return q
		}
		return big.NewInt(int64(r.U64()))
	}
	e := []string{"0", "0", "1", "2", "18446744073709551615", "18446744073709551614", "9223372036854775808", "9223372036854775807", "4294967296"}
	if r.Chance(2, 3) {
		q, _ := new(big.Int).SetString(e[r.Intn(len(e))], 10)
		return q
	}
	return new(big.Int).SetUint64(r.EdgeU64())
}

// c06RetypeW: the same keys with quantities of the fixed-width type
func c06RetypeW(r *Rand, a []c06Pol, signed bool) []c06Pol {
	b := c06Copy(a)
	for i := range b {
		for j := range b[i].es {
			b[i].es[j].qty = c06QtyW(r, signed)
		}
	}
	return b
}
