package main

// C16 — mini-protocol state machines match the network specification.
//
// op:  trace <proto> <client|server> <tag.variant> ...
// The symbols are driven, in order, through the REAL protocol engine running the real
// state map / codec / state context of that protocol and role: a symbol is sent
// by whichever side holds agency in the engine's current state (local side:
// Protocol.SendMessage, peer side: CBOR bytes in a mux segment on the wire, decoded by the
// protocol's NewMsgFromCbor).  The run stops at the first symbol the engine refuses.
// out: acc=<number of symbols accepted> end=<State.Id*100000+context> agency=<0|1|2>

import (
	"fmt"
	"strconv"
	"strings"
	"time"

	"github.com/blinklabs-io/gouroboros/protocol"
)

func init() {
	register(&Prop{ID: "C16", Gen: genC16, Run: runC16, Timeout: 10 * time.Minute})
}

func g3ParseRole(s string) (protocol.ProtocolRole, bool) {
	switch s {
	case "client":
		return protocol.ProtocolRoleClient, true
	case "server":
		return protocol.ProtocolRoleServer, true
	}
	return 0, false
}

func g3ParseSym(p *g3Proto, tok string) *g3Sample {
	parts := strings.Split(tok, ".")
	if len(parts) != 2 {
		return nil
	}
	t, e1 := strconv.Atoi(parts[0])
	v, e2 := strconv.Atoi(parts[1])
	if e1 != nil || e2 != nil || t < 0 || t > 255 {
		return nil
	}
	return p.sample(uint8(t), v)
}

func runC16(op string) string {
	f := strings.Fields(op)
	if len(f) < 3 || f[0] != "trace" {
		return "bad-op"
	}
	p := g3FindProto(f[1])
	role, ok := g3ParseRole(f[2])
	if p == nil || !ok {
		return "bad-op"
	}
	syms := []*g3Sample{}
	for _, tok := range f[3:] {
		s := g3ParseSym(p, tok)
		if s == nil {
			return "bad-op"
		}
		syms = append(syms, s)
	}
	fx := newG3Fixture(p, role, g3FixOpts{slowTimers: true})
	defer fx.close()
	// wait for the initial state to be set
	if !fx.waitFor(g3Deadline, func(ev []g3Event, _ []uint8) bool {
		for _, e := range ev {
			if e.Kind == "state" {
				return true
			}
		}
		return false
	}) {
		return "no-initial-state"
	}
	acc := 0
	for i, s := range syms {
		cur := fx.P.VerifCurrentState()
		ag := fx.cfg.StateMap[cur].Agency
		if ag == protocol.AgencyNone {
			break
		}
		local := (ag == protocol.AgencyClient && role == protocol.ProtocolRoleClient) ||
			(ag == protocol.AgencyServer && role == protocol.ProtocolRoleServer)
		if local {
			if err := fx.P.SendMessage(s.Make()); err != nil {
				break
			}
		} else {
			if err := fx.peerSendMsgs(s.Make()); err != nil {
				break
			}
		}
		want := i + 1
		okw := fx.waitFor(g3Deadline, func(ev []g3Event, _ []uint8) bool {
			n := 0
			for _, e := range ev {
				// "state" is logged after the new state is visible (the initial state is not counted)
				if (e.Kind == "state" && e.C == 0) || e.Kind == "transerr" || e.Kind == "error" {
					n++
				}
			}
			return n >= want
		})
		if !okw {
			return fmt.Sprintf("stuck@%d", i)
		}
		ev, _ := fx.snapshot()
		nt := 0
		bad := false
		for _, e := range ev {
			if e.Kind == "state" && e.C == 0 {
				nt++
			}
			if e.Kind == "transerr" || e.Kind == "error" {
				bad = true
			}
		}
		acc = nt
		if bad {
			break
		}
	}
	end := fx.P.VerifCurrentState()
	return fmt.Sprintf("acc=%d end=%d agency=%d", acc, uint64(end.Id)*100000+g3CtxNum(fx.cfg.StateContext), fx.cfg.StateMap[end].Agency)
}

func genC16(r *Rand, n int, tier string, emit func(string)) {
	protos := g3Protocols()
	type mach struct {
		p    *g3Proto
		role protocol.ProtocolRole
		m    *g3Machine
	}
	ms := []mach{}
	for i := range protos {
		for _, role := range []protocol.ProtocolRole{protocol.ProtocolRoleClient, protocol.ProtocolRoleServer} {
			ms = append(ms, mach{&protos[i], role, g3Explore(&protos[i], role)})
		}
	}
	symTok := func(s g3Sample) string { return fmt.Sprintf("%d.%d", s.Type, s.Variant) }
	emitted := 0
	// 1. exhaustive single-step coverage: a shortest path to every reachable abstract state,
	//    followed by every symbol of the alphabet
	for _, mc := range ms {
		paths := map[uint64][]int{mc.m.Init.id(): {}}
		order := []uint64{mc.m.Init.id()}
		for qi := 0; qi < len(order); qi++ {
			s := order[qi]
			for _, t := range mc.m.Trans {
				if t[0] == s {
					if _, ok := paths[t[2]]; !ok {
						paths[t[2]] = append(append([]int{}, paths[s]...), int(t[1]))
						order = append(order, t[2])
					}
				}
			}
		}
		for _, s := range order {
			for si := range mc.p.Samples {
				toks := []string{}
				for _, k := range paths[s] {
					toks = append(toks, symTok(mc.p.Samples[k]))
				}
				toks = append(toks, symTok(mc.p.Samples[si]))
				emit(fmt.Sprintf("trace %s %s %s", mc.p.Name, g3RoleName(mc.role), strings.Join(toks, " ")))
				emitted++
			}
		}
	}
	// 2. random walks: mostly permitted steps, sometimes an arbitrary symbol, continuing after it
	for emitted < n {
		mc := ms[r.Intn(len(ms))]
		l := r.Intn(14)
		cur := mc.m.Init.id()
		toks := []string{}
		for i := 0; i < l; i++ {
			cands := [][3]uint64{}
			for _, t := range mc.m.Trans {
				if t[0] == cur {
					cands = append(cands, t)
				}
			}
			if len(cands) > 0 && !r.Chance(1, 6) {
				t := cands[r.Intn(len(cands))]
				toks = append(toks, symTok(mc.p.Samples[t[1]]))
				cur = t[2]
			} else {
				toks = append(toks, symTok(mc.p.Samples[r.Intn(len(mc.p.Samples))]))
			}
		}
		emit(fmt.Sprintf("trace %s %s %s", mc.p.Name, g3RoleName(mc.role), strings.Join(toks, " ")))
		emitted++
	}
}
