package main

// C21 — chain-sync delivers the server's chain updates faithfully; pipelining bound.
//
//   sync <ntc|ntn> <limit> <lazy> <slow> <stopAt|-> <events>
//
// The library's real chainsync.Client (PipelineLimit = <limit>, 0..100) syncs
// against a raw scripted server. <events> is the server's history, a string over
//   F  roll forward (the i-th event carries fixture block i mod 8 — 1 + i mod 7
//      in ntn mode — and a tip with block number i)
//   B  roll backward (to the point (slot i, hash i), tip block number i)
//   A  an AwaitReply sent before the next F/B
// Every F/B answers one RequestNext. <lazy>=1: the server answers only after the
// client has been quiet for a moment (lets pipelined requests pile up); <slow>=1:
// the callbacks yield/sleep (slow consumer). <stopAt>=k: the k-th callback
// returns ErrStopSyncProcess; the server keeps answering what was already
// requested; afterwards the harness calls Client.Stop().
//
// Output:
//   cb=<tokens> maxout=<ok|EXCEEDED:v> stop=<-|<ok|err|HANG>/<done msgs seen>/<error-chan>> req=<n>
//     tokens: F<block>@<tipno> / B<slot>@<tipno> in callback order ("-" = none)
//     req:    RequestNext messages seen on the wire when the client has gone quiet
//     maxout: ok iff requests received − replies sent never exceeded max(effective limit,1)

import (
	"fmt"
	"strconv"
	"strings"
	"sync"
	"time"

	"github.com/blinklabs-io/gouroboros/cbor"
	"github.com/blinklabs-io/gouroboros/ledger"
	"github.com/blinklabs-io/gouroboros/protocol"
	"github.com/blinklabs-io/gouroboros/protocol/chainsync"
	pcommon "github.com/blinklabs-io/gouroboros/protocol/common"
)

func init() {
	register(&Prop{ID: "C21", Gen: genC21, Run: runC21, Timeout: 30 * time.Second})
}

func genC21(r *Rand, n int, tier string, emit func(string)) {
	for i := 0; i < n; i++ {
		limit := 0
		switch r.Intn(6) {
		case 0:
			limit = Pick(r, 0, 1, 2, 99, 100)
		case 1:
			limit = r.Intn(101)
		default:
			limit = 1 + r.Intn(12)
		}
		eff := limit
		if eff == 0 {
			eff = 75
		}
		// lengths around multiples of the effective limit
		var nEv int
		switch r.Intn(5) {
		case 0:
			nEv = r.Intn(4)
		case 1:
			nEv = eff*(1+r.Intn(3)) + r.Intn(3) - 1
		case 2:
			nEv = eff + 1
		default:
			nEv = r.Intn(3*eff + 5)
		}
		if nEv > 320 {
			nEv = 320
		}
		if nEv < 0 {
			nEv = 0
		}
		var sb strings.Builder
		lastA := true // no A first: the first reply answers the request sent by Sync (still fine, but keep it simple)
		for j := 0; j < nEv; j++ {
			if !lastA && r.Chance(1, 6) {
				sb.WriteByte('A')
				lastA = true
			}
			if r.Chance(1, 7) {
				sb.WriteByte('B')
			} else {
				sb.WriteByte('F')
			}
			lastA = false
		}
		ev := sb.String()
		if ev == "" {
			ev = "-"
		}
		stop := "-"
		if nEv > 0 && r.Chance(1, 8) {
			stop = strconv.Itoa(1 + r.Intn(nEv))
		}
		emit(fmt.Sprintf("sync %s %d %d %d %s %s", Pick(r, "ntc", "ntn"), limit, r.Intn(2), b2i(r.Chance(1, 4)), stop, ev))
	}
}

func b2i(b bool) int {
	if b {
		return 1
	}
	return 0
}

func runC21(op string) string {
	f := strings.Fields(op)
	if len(f) != 7 || f[0] != "sync" {
		return "bad-op"
	}
	mode := f[1]
	limit, e1 := strconv.Atoi(f[2])
	lazy := f[3] == "1"
	slow := f[4] == "1"
	stopAt := 0
	if f[5] != "-" {
		v, err := strconv.Atoi(f[5])
		if err != nil || v < 1 {
			return "bad-op"
		}
		stopAt = v
	}
	if e1 != nil || limit < 0 || limit > 100 || (mode != "ntc" && mode != "ntn") {
		return "bad-op"
	}
	events := f[6]
	if events == "-" {
		events = ""
	}
	for _, c := range events {
		if c != 'F' && c != 'B' && c != 'A' {
			return "bad-op"
		}
	}
	if strings.Contains(events, "AA") || strings.HasSuffix(events, "A") {
		return "bad-op"
	}
	blocks, err := g5Blocks()
	if err != nil {
		return "fixtures:" + err.Error()
	}
	pmode := protocol.ProtocolModeNodeToClient
	protoId := chainsync.ProtocolIdNtC
	if mode == "ntn" {
		pmode = protocol.ProtocolModeNodeToNode
		protoId = chainsync.ProtocolIdNtN
	}
	respId := protoId | 0x8000
	bound := limit
	if bound == 0 {
		bound = chainsync.DefaultPipelineLimit
	}
	if bound < 1 {
		bound = 1
	}

	l := newG5Link()
	defer l.close()
	var mu sync.Mutex
	cbs := []string{}
	cbCh := make(chan struct{}, 1024)
	onCb := func(tok string) error {
		if slow {
			time.Sleep(50 * time.Microsecond)
		}
		mu.Lock()
		cbs = append(cbs, tok)
		k := len(cbs)
		mu.Unlock()
		cbCh <- struct{}{}
		if stopAt > 0 && k == stopAt {
			return chainsync.ErrStopSyncProcess
		}
		return nil
	}
	cfg := chainsync.NewConfig(
		chainsync.WithPipelineLimit(limit),
		chainsync.WithRollForwardRawFunc(func(_ chainsync.CallbackContext, bt uint, data []byte, tip chainsync.Tip) error {
			// identify the block: ntc by bytes, ntn by header = first element
			idx := -1
			for i, b := range blocks {
				if b.Type != bt {
					continue
				}
				if mode == "ntc" {
					if len(data) == len(b.Cbor) {
						idx = i
					}
				} else {
					var items []cbor.RawMessage
					if _, err := cbor.Decode(b.Cbor, &items); err == nil && len(items) > 0 && len(items[0]) == len(data) {
						idx = i
					}
				}
			}
			return onCb(fmt.Sprintf("F%d@%d", idx, tip.BlockNumber))
		}),
		chainsync.WithRollBackwardFunc(func(_ chainsync.CallbackContext, p pcommon.Point, tip chainsync.Tip) error {
			return onCb(fmt.Sprintf("B%d@%d", p.Slot, tip.BlockNumber))
		}),
	)
	cli := chainsync.NewClient(l.opts(pmode), &cfg)
	cli.Start()

	// ---- scripted server
	type inMsg struct{ typ uint64 }
	in := make(chan inMsg, 4096)
	go func() {
		for {
			m, err := l.peer.recv(protoId, 30*time.Second)
			if err != nil {
				close(in)
				return
			}
			items := c24Items(m)
			var t uint64 = 999
			if len(items) > 0 {
				_, _ = cbor.Decode(items[0], &t)
			}
			in <- inMsg{t}
		}
	}()
	syncErr := make(chan error, 1)
	go func() { syncErr <- cli.Sync([]pcommon.Point{pcommon.NewPointOrigin()}) }()
	// FindIntersect -> IntersectFound(origin, tip)
	select {
	case m, ok := <-in:
		if !ok || m.typ != chainsync.MessageTypeFindIntersect {
			return "no-findintersect"
		}
	case <-time.After(5 * time.Second):
		return "no-findintersect"
	}
	_ = l.peer.send(respId, g5enc(chainsync.NewMsgIntersectFound(pcommon.NewPointOrigin(), chainsync.Tip{})))
	select {
	case err := <-syncErr:
		if err != nil {
			return "sync:" + err.Error()
		}
	case <-time.After(5 * time.Second):
		return "sync-hang"
	}

	reqs, replies, dones, maxOut := 0, 0, 0, 0
	other := ""
	note := func(m inMsg) {
		switch m.typ {
		case chainsync.MessageTypeRequestNext:
			reqs++
			if reqs-replies > maxOut {
				maxOut = reqs - replies
			}
		case chainsync.MessageTypeDone:
			dones++
		default:
			other = fmt.Sprintf(" unexpected-msg:%d", m.typ)
		}
	}
	// drain whatever has arrived; if quiet > 0 keep waiting until nothing arrives for that long
	drain := func(quiet time.Duration) bool {
		for {
			if quiet == 0 {
				select {
				case m, ok := <-in:
					if !ok {
						return false
					}
					note(m)
				default:
					return true
				}
			} else {
				select {
				case m, ok := <-in:
					if !ok {
						return false
					}
					note(m)
				case <-time.After(quiet):
					return true
				}
			}
		}
	}
	pos := 0 // index into events
	evNo := 0
	alive := true
	deadline := time.Now().Add(15 * time.Second)
	for pos < len(events) && alive {
		if lazy {
			alive = drain(300 * time.Microsecond)
		} else {
			alive = drain(0)
		}
		if reqs-replies <= 0 {
			// nothing to answer: wait for the next request, or give up when the
			// client has stopped asking (pacing: after a requested stop, once
			// everything a stopped client can have asked for has been answered,
			// there is nothing to wait for)
			wait := 2 * time.Second
			if stopAt > 0 {
				stopTotal := 1
				if stopAt > 1 {
					stopTotal = 1 + bound*((stopAt-1+bound-1)/bound)
				}
				mu.Lock()
				seen := len(cbs)
				mu.Unlock()
				if seen >= stopAt && replies >= stopTotal {
					wait = 5 * time.Millisecond
				}
			}
			select {
			case m, ok := <-in:
				if !ok {
					alive = false
				} else {
					note(m)
				}
			case <-time.After(wait):
				pos = len(events)
			}
			if time.Now().After(deadline) {
				break
			}
			continue
		}
		c := events[pos]
		pos++
		if c == 'A' {
			_ = l.peer.send(respId, g5enc(chainsync.NewMsgAwaitReply()))
			c = events[pos]
			pos++
		}
		i := evNo
		evNo++
		tip := chainsync.Tip{Point: pcommon.NewPoint(uint64(i+1), []byte{byte(i), byte(i >> 8)}), BlockNumber: uint64(i)}
		var payload []byte
		if c == 'F' {
			if mode == "ntc" {
				b := blocks[i%8]
				m, err := chainsync.NewMsgRollForwardNtC(b.Type, b.Cbor, tip)
				if err != nil {
					return "construct:" + err.Error()
				}
				payload = g5enc(m)
			} else {
				b := blocks[1+i%7]
				m, err := chainsync.NewMsgRollForwardNtN(ledger.BlockToBlockHeaderTypeMap[b.Type], 0, b.Cbor, tip)
				if err != nil {
					return "construct:" + err.Error()
				}
				payload = g5enc(m)
			}
		} else {
			payload = g5enc(chainsync.NewMsgRollBackward(pcommon.NewPoint(uint64(i), []byte{byte(i), byte(i >> 8)}), tip))
		}
		if err := l.peer.send(respId, payload); err != nil {
			alive = false
			break
		}
		replies++
	}
	// wait for the callbacks of everything that was sent
	cbDeadline := time.After(5 * time.Second)
waitCb:
	for {
		mu.Lock()
		k := len(cbs)
		mu.Unlock()
		if k >= replies {
			break
		}
		select {
		case <-cbCh:
		case <-cbDeadline:
			break waitCb
		}
	}
	// let the client finish sending what these replies trigger. Pacing only — the
	// value printed is what was seen: a syncing client keeps at least one request
	// open, so wait (bounded) for request number replies+1, then a short quiet
	// period for whatever else is in flight. (How many of its queued requests the
	// protocol engine has put on the wire at that moment is timing dependent; the
	// Lean driver checks the admissible range.)
	target := replies + 1
	if stopAt > 0 && stopAt <= replies {
		target = 0
	}
	settle := time.Now().Add(1500 * time.Millisecond)
	for reqs < target && time.Now().Before(settle) {
		select {
		case m, ok := <-in:
			if !ok {
				settle = time.Now()
			} else {
				note(m)
			}
		case <-time.After(5 * time.Millisecond):
		}
	}
	drain(3 * time.Millisecond)
	mu.Lock()
	cbStr := "-"
	if len(cbs) > 0 {
		cbStr = strings.Join(cbs, ",")
	}
	mu.Unlock()
	mo := "ok"
	if maxOut > bound {
		mo = fmt.Sprintf("EXCEEDED:%d", maxOut)
	}
	stopStr := "-"
	if stopAt > 0 {
		stopRes := make(chan error, 1)
		go func() { stopRes <- cli.Stop() }()
		st := "HANG"
		select {
		case err := <-stopRes:
			st = "ok"
			if err != nil {
				st = "err"
			}
		case <-time.After(8 * time.Second):
		}
		drain(20 * time.Millisecond)
		ec := "noerr"
		select {
		case e := <-l.errChan:
			ec = "error:" + strings.ReplaceAll(e.Error(), " ", "_")
		default:
		}
		stopStr = fmt.Sprintf("%s/%d/%s", st, dones, ec)
	}
	return fmt.Sprintf("cb=%s maxout=%s stop=%s req=%d%s", cbStr, mo, stopStr, reqs, other)
}
