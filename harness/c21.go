package main

// C21 — chain-sync delivers the server's chain updates faithfully; pipelining bound.
//
//   sync <ntc|ntn|ntcp> <limit> <lazy> <slow> <stopAt|s<k>|-> <events>
//
// ntcp = node-to-client with a block pipeline (Config.Pipeline): roll-forwards are
// submitted to a real pipeline.BlockPipeline and reported from its ApplyFunc; the
// apply of a block that is directly followed by a roll-backward is held back until
// the server has sent that roll-backward (and a short grace period has passed), so
// that a roll-backward callback that does not wait for the pipeline to drain shows
// up as a callback out of order. s<k> (k = number of F/B events): Client.Stop() is
// called while the last callback is still running.
//
// The library's real chainsync.Client (PipelineLimit = <limit>, 0..100) syncs
// against a raw scripted server. <events> is the server's history, a string over
//   F  roll forward (the i-th event carries fixture block i mod 8 — 1 + i mod 7
//      in ntn mode — and a tip with block number i)
//   B  roll backward (to the point (slot i, hash i), tip block number i)
//   A  an AwaitReply sent before the next F/B
// Every F/B answers one RequestNext. <lazy>=1: the server answers only after the
// client has been quiet for a moment (lets pipelined requests pile up); <slow>=1:
// the callbacks yield/sleep (slow consumer). <stopAt>=k: the k-th callback
// returns ErrStopSyncProcess; the server keeps answering what was already
// requested; afterwards the harness calls Client.Stop().
//
// Output:
//   cb=<tokens> maxout=<ok|EXCEEDED:v> stop=<-|<ok|err|HANG>/<done msgs seen>/<error-chan>> req=<n>
//     tokens: F<block>@<tipno> / B<slot>@<tipno> in callback order ("-" = none)
//     req:    RequestNext messages seen on the wire when the client has gone quiet
//     maxout: ok iff requests received − replies sent never exceeded max(effective limit,1)

import (
	"context"
	"fmt"
	"strconv"
	"strings"
	"sync"
	"time"

	"github.com/blinklabs-io/gouroboros/cbor"
	"github.com/blinklabs-io/gouroboros/ledger"
	"github.com/blinklabs-io/gouroboros/pipeline"
	"github.com/blinklabs-io/gouroboros/protocol"
	"github.com/blinklabs-io/gouroboros/protocol/chainsync"
	pcommon "github.com/blinklabs-io/gouroboros/protocol/common"
)

func init() {
	register(&Prop{ID: "C21", Gen: genC21, Run: runC21, Timeout: 60 * time.Second})
}

func genC21(r *Rand, n int, tier string, emit func(string)) {
	for i := 0; i < n; i++ {
		limit := 0
		switch r.Intn(6) {
		case 0:
			limit = Pick(r, 0, 1, 2, 99, 100)
		case 1:
			limit = r.Intn(101)
		default:
			limit = 1 + r.Intn(12)
		}
		eff := limit
		if eff == 0 {
			eff = 75
		}
		// lengths around multiples of the effective limit
		var nEv int
		switch r.Intn(5) {
		case 0:
			nEv = r.Intn(4)
		case 1:
			nEv = eff*(1+r.Intn(3)) + r.Intn(3) - 1
		case 2:
			nEv = eff + 1
		default:
			nEv = r.Intn(3*eff + 5)
		}
		if nEv > 320 {
			nEv = 320
		}
		if nEv < 0 {
			nEv = 0
		}
		var sb strings.Builder
		lastA := true // no A first: the first reply answers the request sent by Sync (still fine, but keep it simple)
		for j := 0; j < nEv; j++ {
			if !lastA && r.Chance(1, 6) {
				sb.WriteByte('A')
				lastA = true
			}
			if r.Chance(1, 7) {
				sb.WriteByte('B')
			} else {
				sb.WriteByte('F')
			}
			lastA = false
		}
		ev := sb.String()
		if ev == "" {
			ev = "-"
		}
		stop := "-"
		mode := Pick(r, "ntc", "ntn", "ntc", "ntn", "ntcp")
		if mode != "ntcp" && nEv > 0 {
			switch r.Intn(10) {
			case 0:
				stop = strconv.Itoa(1 + r.Intn(nEv))
			case 1:
				stop = "s" + strconv.Itoa(nEv)
			}
		}
		emit(fmt.Sprintf("sync %s %d %d %d %s %s", mode, limit, r.Intn(2), b2i(r.Chance(1, 4)), stop, ev))
	}
}

func b2i(b bool) int {
	if b {
		return 1
	}
	return 0
}

func runC21(op string) string {
	f := strings.Fields(op)
	if len(f) != 7 || f[0] != "sync" {
		return "bad-op"
	}
	mode := f[1]
	limit, e1 := strconv.Atoi(f[2])
	lazy := f[3] == "1"
	slow := f[4] == "1"
	stopAt, slowStopAt := 0, 0
	if f[5] != "-" {
		v, err := strconv.Atoi(strings.TrimPrefix(f[5], "s"))
		if err != nil || v < 1 {
			return "bad-op"
		}
		if strings.HasPrefix(f[5], "s") {
			slowStopAt = v
		} else {
			stopAt = v
		}
	}
	usePipe := mode == "ntcp"
	if usePipe {
		mode = "ntc"
	}
	if e1 != nil || limit < 0 || limit > 100 || (mode != "ntc" && mode != "ntn") || (usePipe && f[5] != "-") {
		return "bad-op"
	}
	events := f[6]
	if events == "-" {
		events = ""
	}
	for _, c := range events {
		if c != 'F' && c != 'B' && c != 'A' {
			return "bad-op"
		}
	}
	if strings.Contains(events, "AA") || strings.HasSuffix(events, "A") {
		return "bad-op"
	}
	nReplyEvents := strings.Count(events, "F") + strings.Count(events, "B")
	if slowStopAt > 0 && slowStopAt != nReplyEvents {
		return "bad-op"
	}
	// reply index -> kind, to know which block is directly followed by a roll-backward
	kinds := []byte(strings.ReplaceAll(events, "A", ""))
	blocks, err := g5Blocks()
	if err != nil {
		return "fixtures:" + err.Error()
	}
	pmode := protocol.ProtocolModeNodeToClient
	protoId := chainsync.ProtocolIdNtC
	if mode == "ntn" {
		pmode = protocol.ProtocolModeNodeToNode
		protoId = chainsync.ProtocolIdNtN
	}
	respId := protoId | 0x8000
	bound := limit
	if bound == 0 {
		bound = chainsync.DefaultPipelineLimit
	}
	if bound < 1 {
		bound = 1
	}

	l := newG5Link()
	defer l.close()
	var mu sync.Mutex
	cbs := []string{}
	cbCh := make(chan struct{}, 1024)
	enteredLast := make(chan struct{})    // slow stop: the last callback has been entered
	releaseLast := make(chan struct{})    // slow stop: Stop() has been called, the callback may return
	backSeen := make(chan struct{}, 1024) // a roll-backward callback ran
	onCb := func(tok string) error {
		if slow {
			time.Sleep(50 * time.Microsecond)
		}
		mu.Lock()
		cbs = append(cbs, tok)
		k := len(cbs)
		mu.Unlock()
		cbCh <- struct{}{}
		if slowStopAt > 0 && k == slowStopAt {
			close(enteredLast)
			select {
			case <-releaseLast:
			case <-time.After(40 * time.Second):
			}
			return nil
		}
		if stopAt > 0 && k == stopAt {
			return chainsync.ErrStopSyncProcess
		}
		return nil
	}
	// pipeline mode
	var sentMu sync.Mutex
	sentReplies := 0
	sentCh := make(chan struct{}, 4096)
	var pipe *pipeline.BlockPipeline
	if usePipe {
		holds := 0
		pipe = pipeline.NewBlockPipeline(
			pipeline.WithDecodeWorkers(2),
			pipeline.WithValidateWorkers(0),
			pipeline.WithSkipBodyHashValidation(true),
			pipeline.WithApplyFunc(func(item *pipeline.BlockItem) error {
				i := int(item.Tip().BlockNumber)
				// hold the block that is directly followed by a roll-backward (first few per op)
				if i+1 < len(kinds) && kinds[i+1] == 'B' && holds < 3 {
					holds++
					// until the server has sent that roll-backward …
					dl := time.After(10 * time.Second)
				waitSent:
					for {
						sentMu.Lock()
						ok := sentReplies > i+1
						sentMu.Unlock()
						if ok {
							break
						}
						select {
						case <-sentCh:
						case <-dl:
							break waitSent
						}
					}
					// … and either its callback has (wrongly) run already, or a grace period is over
					select {
					case <-backSeen:
					case <-time.After(40 * time.Millisecond):
					}
				}
				idx := -1
				for j, b := range blocks {
					if b.Type == item.BlockType() && len(b.Cbor) == len(item.RawCbor()) {
						idx = j
					}
				}
				return onCb(fmt.Sprintf("F%d@%d", idx, item.Tip().BlockNumber))
			}),
		)
		if err := pipe.Start(context.Background()); err != nil {
			return "pipeline-start:" + err.Error()
		}
		defer func() { _ = pipe.Stop() }()
		go func() {
			for range pipe.Results() {
			}
		}()
		go func() {
			for range pipe.Errors() {
			}
		}()
	}
	cfg := chainsync.NewConfig(
		chainsync.WithPipelineLimit(limit),
		chainsync.WithRollForwardRawFunc(func(_ chainsync.CallbackContext, bt uint, data []byte, tip chainsync.Tip) error {
			// identify the block: ntc by bytes, ntn by header = first element
			idx := -1
			for i, b := range blocks {
				if b.Type != bt {
					continue
				}
				if mode == "ntc" {
					if len(data) == len(b.Cbor) {
						idx = i
					}
				} else {
					var items []cbor.RawMessage
					if _, err := cbor.Decode(b.Cbor, &items); err == nil && len(items) > 0 && len(items[0]) == len(data) {
						idx = i
					}
				}
			}
			return onCb(fmt.Sprintf("F%d@%d", idx, tip.BlockNumber))
		}),
		chainsync.WithRollBackwardFunc(func(_ chainsync.CallbackContext, p pcommon.Point, tip chainsync.Tip) error {
			err := onCb(fmt.Sprintf("B%d@%d", p.Slot, tip.BlockNumber))
			select {
			case backSeen <- struct{}{}:
			default:
			}
			return err
		}),
	)
	if usePipe {
		cfg.Pipeline = pipe
	}
	cli := chainsync.NewClient(l.opts(pmode), &cfg)
	cli.Start()

	// ---- scripted server
	type inMsg struct{ typ uint64 }
	in := make(chan inMsg, 4096)
	go func() {
		for {
			m, err := l.peer.recv(protoId, 30*time.Second)
			if err != nil {
				close(in)
				return
			}
			items := c24Items(m)
			var t uint64 = 999
			if len(items) > 0 {
				_, _ = cbor.Decode(items[0], &t)
			}
			in <- inMsg{t}
		}
	}()
	syncErr := make(chan error, 1)
	go func() { syncErr <- cli.Sync([]pcommon.Point{pcommon.NewPointOrigin()}) }()
	// FindIntersect -> IntersectFound(origin, tip)
	select {
	case m, ok := <-in:
		if !ok || m.typ != chainsync.MessageTypeFindIntersect {
			return "no-findintersect"
		}
	case <-time.After(5 * time.Second):
		return "no-findintersect"
	}
	_ = l.peer.send(respId, g5enc(chainsync.NewMsgIntersectFound(pcommon.NewPointOrigin(), chainsync.Tip{})))
	select {
	case err := <-syncErr:
		if err != nil {
			return "sync:" + err.Error()
		}
	case <-time.After(5 * time.Second):
		return "sync-hang"
	}

	reqs, replies, dones, maxOut := 0, 0, 0, 0
	other := ""
	note := func(m inMsg) {
		switch m.typ {
		case chainsync.MessageTypeRequestNext:
			reqs++
			if reqs-replies > maxOut {
				maxOut = reqs - replies
			}
		case chainsync.MessageTypeDone:
			dones++
		default:
			other = fmt.Sprintf(" unexpected-msg:%d", m.typ)
		}
	}
	// drain whatever has arrived; if quiet > 0 keep waiting until nothing arrives for that long
	drain := func(quiet time.Duration) bool {
		for {
			if quiet == 0 {
				select {
				case m, ok := <-in:
					if !ok {
						return false
					}
					note(m)
				default:
					return true
				}
			} else {
				select {
				case m, ok := <-in:
					if !ok {
						return false
					}
					note(m)
				case <-time.After(quiet):
					return true
				}
			}
		}
	}
	pos := 0 // index into events
	evNo := 0
	alive := true
	deadline := time.Now().Add(30 * time.Second)
	for pos < len(events) && alive {
		if lazy {
			alive = drain(300 * time.Microsecond)
		} else {
			alive = drain(0)
		}
		if reqs-replies <= 0 {
			// nothing to answer: wait for the next request, or give up when the
			// client has stopped asking (pacing: after a requested stop, once
			// everything a stopped client can have asked for has been answered,
			// there is nothing to wait for)
			wait := 12 * time.Second
			if stopAt > 0 {
				stopTotal := 1
				if stopAt > 1 {
					stopTotal = 1 + bound*((stopAt-1+bound-1)/bound)
				}
				mu.Lock()
				seen := len(cbs)
				mu.Unlock()
				if seen >= stopAt && replies >= stopTotal {
					wait = 5 * time.Millisecond
				}
			}
			select {
			case m, ok := <-in:
				if !ok {
					alive = false
				} else {
					note(m)
				}
			case <-time.After(wait):
				pos = len(events)
			}
			if time.Now().After(deadline) {
				break
			}
			continue
		}
		c := events[pos]
		pos++
		if c == 'A' {
			_ = l.peer.send(respId, g5enc(chainsync.NewMsgAwaitReply()))
			c = events[pos]
			pos++
		}
		i := evNo
		evNo++
		tip := chainsync.Tip{Point: pcommon.NewPoint(uint64(i+1), []byte{byte(i), byte(i >> 8)}), BlockNumber: uint64(i)}
		var payload []byte
		if c == 'F' {
			if mode == "ntc" {
				b := blocks[i%8]
				m, err := chainsync.NewMsgRollForwardNtC(b.Type, b.Cbor, tip)
				if err != nil {
					return "construct:" + err.Error()
				}
				payload = g5enc(m)
			} else {
				b := blocks[1+i%7]
				m, err := chainsync.NewMsgRollForwardNtN(ledger.BlockToBlockHeaderTypeMap[b.Type], 0, b.Cbor, tip)
				if err != nil {
					return "construct:" + err.Error()
				}
				payload = g5enc(m)
			}
		} else {
			payload = g5enc(chainsync.NewMsgRollBackward(pcommon.NewPoint(uint64(i), []byte{byte(i), byte(i >> 8)}), tip))
		}
		if err := l.peer.send(respId, payload); err != nil {
			alive = false
			break
		}
		replies++
		sentMu.Lock()
		sentReplies = replies
		sentMu.Unlock()
		select {
		case sentCh <- struct{}{}:
		default:
		}
	}
	// wait for the callbacks of everything that was sent
	cbDeadline := time.After(12 * time.Second)
waitCb:
	for {
		mu.Lock()
		k := len(cbs)
		mu.Unlock()
		if k >= replies {
			break
		}
		select {
		case <-cbCh:
		case <-cbDeadline:
			break waitCb
		}
	}
	// let the client finish sending what these replies trigger. Pacing only — the
	// value printed is what was seen: a syncing client keeps at least one request
	// open, so wait (bounded) for request number replies+1, then a short quiet
	// period for whatever else is in flight. (How many of its queued requests the
	// protocol engine has put on the wire at that moment is timing dependent; the
	// Lean driver checks the admissible range.)
	target := replies + 1
	if (stopAt > 0 && stopAt <= replies) || slowStopAt > 0 {
		target = 0
	}
	settle := time.Now().Add(1500 * time.Millisecond)
	for reqs < target && time.Now().Before(settle) {
		select {
		case m, ok := <-in:
			if !ok {
				settle = time.Now()
			} else {
				note(m)
			}
		case <-time.After(5 * time.Millisecond):
		}
	}
	drain(3 * time.Millisecond)
	mu.Lock()
	cbStr := "-"
	if len(cbs) > 0 {
		cbStr = strings.Join(cbs, ",")
	}
	mu.Unlock()
	mo := "ok"
	if maxOut > bound {
		mo = fmt.Sprintf("EXCEEDED:%d", maxOut)
	}
	stopStr := "-"
	if stopAt > 0 || slowStopAt > 0 {
		stopRes := make(chan error, 1)
		if slowStopAt > 0 {
			select {
			case <-enteredLast:
			case <-time.After(20 * time.Second):
			}
		}
		go func() { stopRes <- cli.Stop() }()
		if slowStopAt > 0 {
			// let Stop get as far as it can while the callback is still running, then let the
			// callback return (the outcome does not depend on how far it got)
			time.Sleep(20 * time.Millisecond)
			close(releaseLast)
		}
		st := "HANG"
		select {
		case err := <-stopRes:
			st = "ok"
			if err != nil {
				st = "err"
			}
		case <-time.After(12 * time.Second):
		}
		drain(20 * time.Millisecond)
		ec := "noerr"
		select {
		case e := <-l.errChan:
			ec = "error:" + strings.ReplaceAll(e.Error(), " ", "_")
		default:
		}
		stopStr = fmt.Sprintf("%s/%d/%s", st, dones, ec)
	}
	return fmt.Sprintf("cb=%s maxout=%s stop=%s req=%d%s", cbStr, mo, stopStr, reqs, other)
}
