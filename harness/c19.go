package main

// C19 — a client never settles on a version it did not offer.
//
// op:  acc <via hs|conn> <table> <magic> <dm> <ps> <q> <proposed> <version> <datahex>
//
//      qr  <via hs|conn> <table> <magic> <dm> <ps> <q> <proposed> <n> v1 hex1 … vn hexn
//        same initiator, answered `QueryReply {v1: hex1, …}` (solicited only if the initiator
//        proposed the query flag)
//
// <version> is the version field of the message as it goes on the wire: a decimal number up to
// 2^64-1 (shortest CBOR head), `n/w` (head forced to a w-byte argument, w = 1,2,4,8), or
// `x<hex>` (any CBOR item in that position).
//
// The real initiator (handshake.Client on a muxer for via=hs, the whole
// ouroboros.NewConnection for via=conn) proposes the table's generated entries
// and a scripted responder on the other end of a net.Pipe answers with the raw
// segment `AcceptVersion <version> <data>`.

import (
	"encoding/hex"
	"fmt"
	"io"
	"net"
	"strconv"
	"strings"
	"time"

	ouroboros "github.com/blinklabs-io/gouroboros"
	"github.com/blinklabs-io/gouroboros/protocol"
)

func init() {
	register(&Prop{ID: "C19", Gen: genC19, Run: runC19, Timeout: 150 * time.Second})
}

// ---- CBOR shapes for version data (shared with C20's malformed stream) ----

func g2CborHead(mt byte, n uint64, width int) []byte {
	// width: 0 = shortest, 1/2/4/8 = forced argument width (if n fits), -1 = immediate (n<24)
	b := mt << 5
	fits := func(w int) bool {
		switch w {
		case 1:
			return n < 1<<8
		case 2:
			return n < 1<<16
		case 4:
			return n < 1<<32
		}
		return true
	}
	if width == 0 || !fits(width) {
		switch {
		case n < 24:
			return []byte{b | byte(n)}
		case n < 1<<8:
			width = 1
		case n < 1<<16:
			width = 2
		case n < 1<<32:
			width = 4
		default:
			width = 8
		}
	}
	switch width {
	case 1:
		return []byte{b | 24, byte(n)}
	case 2:
		return []byte{b | 25, byte(n >> 8), byte(n)}
	case 4:
		return []byte{b | 26, byte(n >> 24), byte(n >> 16), byte(n >> 8), byte(n)}
	}
	return []byte{b | 27, byte(n >> 56), byte(n >> 48), byte(n >> 40), byte(n >> 32), byte(n >> 24), byte(n >> 16), byte(n >> 8), byte(n)}
}

func g2Width(r *Rand) int { return Pick(r, 0, 0, 0, 1, 2, 4, 8) }

var g2TagNumbers = []uint64{0, 1, 2, 3, 4, 5, 6, 23, 24, 30, 32, 36, 102, 121, 122, 127, 258, 259, 1280, 55799, 65536, 1 << 32}

// g2Tagged wraps an item in a CBOR tag (any number, any head width); for tag 2 it may instead
// produce a proper bignum (byte string content, possibly with leading zeros / too long).
func g2Tagged(r *Rand, item []byte, magic uint64) []byte {
	tag := g2TagNumbers[r.Intn(len(g2TagNumbers))]
	if r.Chance(1, 3) {
		tag = Pick(r, uint64(2), 2, 1, 24, 30)
	}
	head := g2CborHead(6, tag, g2Width(r))
	if tag == 2 && r.Chance(3, 4) {
		v := Pick(r, magic, magic, 0, 1, 2, 1<<32-1, 1<<32, ^uint64(0))
		bs := []byte{}
		for v > 0 {
			bs = append([]byte{byte(v)}, bs...)
			v >>= 8
		}
		for z := r.Intn(3); z > 0; z-- { // leading zeros
			bs = append([]byte{0}, bs...)
		}
		if r.Chance(1, 10) { // more than 64 bits
			bs = append([]byte{1}, append(make([]byte, 8), bs...)...)
		}
		return append(append(head, g2CborHead(2, uint64(len(bs)), Pick(r, 0, 0, 1))...), bs...)
	}
	return append(head, item...)
}

// g2GenItem: one non-container item; kind hint 'u' (uint around magic), 'b' (bool), 'p' (small uint), '?' anything
func g2GenItem(r *Rand, hint byte, magic uint64) []byte {
	it := g2GenItem0(r, hint, magic)
	for d := 0; d < 3 && r.Chance(1, 7); d++ {
		it = g2Tagged(r, it, magic)
	}
	return it
}

func g2GenItem0(r *Rand, hint byte, magic uint64) []byte {
	if r.Chance(1, 6) {
		hint = '?'
	}
	switch hint {
	case 'u':
		v := Pick(r, magic, magic, magic, magic, magic+1, magic-1, 0, 42, 1<<32-1, 1<<32, ^uint64(0), r.EdgeU64())
		return g2CborHead(0, v, g2Width(r))
	case 'b':
		return []byte{Pick(r, byte(0xf4), 0xf5)}
	case 'p':
		return g2CborHead(0, Pick(r, uint64(0), 1, 2, 3, 23, 24, 255, 256, 1<<32, ^uint64(0)), g2Width(r))
	}
	switch r.Intn(9) {
	case 0:
		return []byte{Pick(r, byte(0xf6), 0xf7)}
	case 1: // simple value
		if r.Bool() {
			return []byte{0xe0 | byte(r.Intn(20))}
		}
		return []byte{0xf8, byte(32 + r.Intn(224))}
	case 2: // negative
		return g2CborHead(1, uint64(r.Intn(100)), g2Width(r))
	case 3: // floats
		switch r.Intn(3) {
		case 0:
			return append([]byte{0xf9}, r.Bytes(2)...)
		case 1:
			return append([]byte{0xfa}, r.Bytes(4)...)
		}
		return append([]byte{0xfb}, r.Bytes(8)...)
	case 4: // strings
		n := r.Intn(5)
		return append(g2CborHead(byte(2+r.Intn(2)), uint64(n), Pick(r, 0, 0, 1)), []byte("abcde")[:n]...)
	case 5:
		return []byte{Pick(r, byte(0xf4), 0xf5)}
	case 6:
		return g2CborHead(0, magic, g2Width(r))
	case 7:
		return g2CborHead(0, r.EdgeU64(), g2Width(r))
	}
	return g2CborHead(0, uint64(r.Intn(4)), g2Width(r))
}

// g2GenData draws one version-data item: mostly one of the four real shapes
// (with the given magic or a neighbour), in every header form, sometimes a
// wrong element count or wrong element types.
func g2GenData(r *Rand, magic uint64) []byte {
	shape := r.Intn(10)
	if shape == 0 { // scalar
		return g2GenItem(r, Pick(r, byte('u'), 'u', 'u', '?'), magic)
	}
	var hints string
	switch {
	case shape <= 3:
		hints = "ub"
	case shape <= 7:
		hints = "ubpb"
	default:
		hints = Pick(r, "", "u", "ubp", "ubpbb", "ubb", "bu", "uu", "upbb")
	}
	var body []byte
	for i := 0; i < len(hints); i++ {
		body = append(body, g2GenItem(r, hints[i], magic)...)
	}
	var arr []byte
	if r.Chance(1, 6) { // indefinite
		arr = append(append([]byte{0x9f}, body...), 0xff)
	} else {
		arr = append(g2CborHead(4, uint64(len(hints)), g2Width(r)), body...)
	}
	for d := 0; d < 2 && r.Chance(1, 8); d++ { // tags in front of the array
		arr = append(g2CborHead(6, g2TagNumbers[r.Intn(len(g2TagNumbers))], g2Width(r)), arr...)
	}
	return arr
}

var g2Tables = []string{"ntc", "ntn", "dmq", "dmqn"}

func g2TableVersions(table string) []uint16 {
	m, _, _ := g2Table(table, 1, false, false, false)
	ks, _ := g2ParseVersions("all", m)
	return ks
}

func g2VersionsStr(ks []uint16) string {
	if len(ks) == 0 {
		return "-"
	}
	s := make([]string, len(ks))
	for i, k := range ks {
		s[i] = fmt.Sprint(k)
	}
	return strings.Join(s, ",")
}

func g2RandomSubset(r *Rand, all []uint16) []uint16 {
	res := []uint16{}
	switch r.Intn(4) {
	case 0: // single
		res = append(res, all[r.Intn(len(all))])
	case 1: // prefix / suffix
		k := r.Intn(len(all) + 1)
		if r.Bool() {
			res = append(res, all[:k]...)
		} else {
			res = append(res, all[k:]...)
		}
	default:
		for _, v := range all {
			if r.Bool() {
				res = append(res, v)
			}
		}
	}
	// random order: the op's order is the order the model iterates in
	for i := len(res) - 1; i > 0; i-- {
		j := r.Intn(i + 1)
		res[i], res[j] = res[j], res[i]
	}
	return res
}

func genC19(r *Rand, n int, tier string, emit func(string)) {
	for i := 0; i < n; i++ {
		if r.Chance(1, 12) {
			emit(genC19QueryReply(r))
			continue
		}
		via := "hs"
		if r.Chance(1, 4) {
			via = "conn"
		}
		table := g2Tables[r.Intn(4)]
		if via == "conn" && table == "dmqn" {
			table = "dmq"
		}
		magic := Pick(r, uint64(764824073), 764824073, 1, 2, 42, 4294967295, uint64(r.U64()&0xffffffff))
		if via == "hs" && r.Chance(1, 12) {
			magic = 0
		}
		dm, ps, q := r.Bool(), r.Bool(), r.Chance(1, 5)
		all := g2TableVersions(table)
		proposed := "all"
		prop := all
		if via == "hs" && r.Chance(1, 2) {
			prop = g2RandomSubset(r, all)
			proposed = g2VersionsStr(prop)
		}
		// version the responder "accepts"
		var v uint16
		switch r.Intn(8) {
		case 0, 1, 2:
			if len(prop) > 0 {
				v = prop[r.Intn(len(prop))]
			} else {
				v = all[r.Intn(len(all))]
			}
		case 3: // in the table (maybe not proposed)
			v = all[r.Intn(len(all))]
		case 4: // a version of another table (has a decoder, never proposed)
			o := g2TableVersions(g2Tables[r.Intn(4)])
			v = o[r.Intn(len(o))]
		case 5: // neighbours of the table's ends, and of the namespaces
			v = Pick(r, all[0]-1, all[len(all)-1]+1, 0, 65535, 0x8000, 0x1000, 0x7fff, 6, 16, 3, 0x8000+8, 0x8000+22, 0x1000+2)
		case 6: // same number in the other namespace
			v = all[r.Intn(len(all))] ^ Pick(r, uint16(0x8000), 0x1000, 0x9000)
		default:
			v = uint16(r.U64())
		}
		// data: right shape for some known version, with own or foreign magic; or anything
		dataMagic := magic
		if r.Chance(1, 3) {
			dataMagic = Pick(r, magic+1, magic-1, 0, 42, 764824073, 1)
		}
		dataMagic &= 0xffffffff
		var data []byte
		switch r.Intn(6) {
		case 0, 1, 2: // the encoding a real responder of that version would send
			pv := protocol.GetProtocolVersion(v)
			if pv.NewVersionDataFromCborFunc == nil {
				data = g2GenData(r, dataMagic)
				break
			}
			switch g2DecoderKind(pv.NewVersionDataFromCborFunc) {
			case 1:
				data = g2CborHead(0, dataMagic, 0)
			case 2, 3:
				data = append(append([]byte{0x82}, g2CborHead(0, dataMagic, 0)...), Pick(r, byte(0xf4), 0xf5))
			default:
				data = append([]byte{0x84}, g2CborHead(0, dataMagic, 0)...)
				data = append(data, Pick(r, byte(0xf4), 0xf5), byte(r.Intn(3)), Pick(r, byte(0xf4), 0xf5))
			}
		default:
			data = g2GenData(r, dataMagic)
		}
		vtok := fmt.Sprint(v)
		if r.Chance(1, 3) {
			vtok = g2WireVersion(r, v)
		}
		emit(fmt.Sprintf("acc %s %s %d %s %s %s %s %s %s", via, table, magic, b01(dm), b01(ps), b01(q), proposed, vtok, hex.EncodeToString(data)))
	}
}

// a QueryReply for an initiator that may or may not have asked for one
func genC19QueryReply(r *Rand) string {
	via := Pick(r, "hs", "hs", "conn")
	table := g2Tables[r.Intn(4)]
	if via == "conn" && table == "dmqn" {
		table = "dmq"
	}
	magic := Pick(r, uint64(764824073), 1, 42)
	q := r.Chance(1, 3)
	all := g2TableVersions(table)
	proposed := "all"
	if via == "hs" && r.Bool() {
		proposed = g2VersionsStr(g2RandomSubset(r, all))
	}
	k := r.Intn(4)
	seen := map[uint16]bool{}
	parts := []string{}
	for j := 0; j < k; j++ {
		v := all[r.Intn(len(all))]
		if r.Chance(1, 4) {
			v = uint16(r.U64())
		}
		if seen[v] {
			continue
		}
		seen[v] = true
		parts = append(parts, fmt.Sprintf("%d %s", v, hex.EncodeToString(g2GenData(r, magic))))
	}
	return strings.TrimSpace(fmt.Sprintf("qr %s %s %d %s %s %s %s %d %s", via, table, magic, b01(r.Bool()), b01(r.Bool()), b01(q), proposed, len(parts), strings.Join(parts, " ")))
}

// g2VersionField renders the <version> token of an op as the bytes of the message field.
func g2VersionField(tok string) ([]byte, bool) {
	if strings.HasPrefix(tok, "x") {
		b, err := hex.DecodeString(tok[1:])
		return b, err == nil && len(b) > 0
	}
	width := 0
	if i := strings.IndexByte(tok, '/'); i >= 0 {
		w, err := strconv.Atoi(tok[i+1:])
		if err != nil || (w != 1 && w != 2 && w != 4 && w != 8) {
			return nil, false
		}
		width, tok = w, tok[:i]
	}
	n, err := strconv.ParseUint(tok, 10, 64)
	if err != nil {
		return nil, false
	}
	if width != 0 {
		// the forced width must be able to hold the number
		if (width == 1 && n >= 1<<8) || (width == 2 && n >= 1<<16) || (width == 4 && n >= 1<<32) {
			return nil, false
		}
	}
	return g2CborHead(0, n, width), true
}

// g2WireVersion draws the version field for an acceptance of `v`: mostly numbers that are not
// literally v but collapse to it when narrowed to 16 bits, in every head width.
func g2WireVersion(r *Rand, v uint16) string {
	switch r.Intn(10) {
	case 0, 1:
		return fmt.Sprint(v)
	case 2: // non-minimal encodings of the version itself
		w := Pick(r, 2, 4, 8)
		if v < 256 && r.Bool() {
			w = 1
		}
		return fmt.Sprintf("%d/%d", v, w)
	case 3, 4: // v + k*2^16
		k := Pick(r, uint64(1), 1, 2, 3, 255, 65535, 1<<16, 1<<31, 1<<47)
		return fmt.Sprint(uint64(v) + k<<16)
	case 5:
		n := uint64(1)<<32 + uint64(v)
		if r.Bool() {
			return fmt.Sprintf("%d/8", n)
		}
		return fmt.Sprint(n)
	case 6:
		return Pick(r, "18446744073709551615", "65536", "65535", "4294967295", "4294967296", fmt.Sprint(uint64(1)<<48+uint64(v)))
	case 7: // the low 16 bits are the version, the rest random
		return fmt.Sprint((r.U64() &^ 0xffff) | uint64(v))
	case 8: // other items in the version position
		bn := []byte{byte(v >> 8), byte(v)}
		return "x" + Pick(r,
			"c242"+hex.EncodeToString(bn),                        // bignum = v
			"c24301"+hex.EncodeToString(bn),                      // bignum = 2^16 + v
			"c4"+hex.EncodeToString(g2CborHead(0, uint64(v), 0)), // tagged v
			"f6", "f4", "20", "40", "80", "fa00000000",
			hex.EncodeToString(g2CborHead(1, uint64(v), 0)), // -1-v
		)
	}
	return fmt.Sprintf("%d/8", uint64(v))
}

func runC19(op string) string {
	f := strings.Fields(op)
	if len(f) < 9 || (f[0] != "acc" && f[0] != "qr") {
		return "bad-op"
	}
	via, table := f[1], f[2]
	magic, e1 := strconv.ParseUint(f[3], 10, 32)
	if e1 != nil {
		return "bad-op"
	}
	var payload []byte
	if f[0] == "acc" {
		if len(f) != 10 {
			return "bad-op"
		}
		verBytes, ok := g2VersionField(f[8])
		data, e3 := hex.DecodeString(f[9])
		if !ok || e3 != nil || len(data) == 0 {
			return "bad-op"
		}
		// MsgAcceptVersion = [1, version, versionData]
		payload = append([]byte{0x83, 0x01}, verBytes...)
		payload = append(payload, data...)
	} else {
		n, e2 := strconv.Atoi(f[8])
		if e2 != nil || len(f) != 9+2*n {
			return "bad-op"
		}
		// MsgQueryReply = [3, {v: data}]
		payload = append([]byte{0x82, 0x03}, g2CborHead(5, uint64(n), 0)...)
		for i := 0; i < n; i++ {
			v, e3 := strconv.ParseUint(f[9+2*i], 10, 16)
			d, e4 := hex.DecodeString(f[10+2*i])
			if e3 != nil || e4 != nil || len(d) == 0 {
				return "bad-op"
			}
			payload = append(payload, g2CborHead(0, v, 0)...)
			payload = append(payload, d...)
		}
	}
	dm, ps, q := f[4] == "1", f[5] == "1", f[6] == "1"
	full, mode, ok := g2Table(table, uint32(magic), dm, ps, q)
	if !ok {
		return "bad-op"
	}
	ks, ok := g2ParseVersions(f[7], full)
	if !ok {
		return "bad-op"
	}
	vm, ok := g2Subset(full, ks)
	if !ok {
		return "bad-op"
	}
	a, b := net.Pipe()
	defer a.Close()
	defer b.Close()
	go func() {
		// scripted responder: wait for the proposal, answer, then swallow whatever follows
		if _, _, err := g2ReadSegment(b); err != nil {
			return
		}
		_ = g2WriteSegment(b, 0x8000, payload)
		_, _ = io.Copy(io.Discard, b)
	}()
	switch via {
	case "hs":
		res, stop := g2RunHandshake(a, false, mode, vm)
		stop()
		return res.String()
	case "conn":
		if f[7] != "all" || table == "dmqn" {
			return "bad-op"
		}
		conn, err := ouroboros.NewConnection(
			ouroboros.WithConnection(a),
			ouroboros.WithNetworkMagic(uint32(magic)),
			ouroboros.WithNodeToNode(table == "ntn"),
			ouroboros.WithDMQ(table == "dmq"),
			ouroboros.WithFullDuplex(!dm),
			ouroboros.WithPeerSharing(ps),
			ouroboros.WithQueryMode(q),
		)
		if err != nil {
			return g2ClassifyHandshakeErr(err)
		}
		v, vd := conn.ProtocolVersion()
		out := fmt.Sprintf("finished v=%d %s", v, g2RenderVD(vd))
		if qm := conn.QueryReplyVersionMap(); qm != nil {
			out += " query=" + g2RenderMap(qm)
		}
		go func() { _ = conn.Close() }()
		return out
	}
	return "bad-op"
}
