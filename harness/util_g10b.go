package main

// Shared helpers of builder g10b (C07, C01): a loss-free CBOR tree with a
// re-encoder driven by a per-container header-form choice, the real block
// fixtures of every era (read by path from the repository under test), and
// reflection helpers to reach the stored CBOR of decoded components.

import (
	"encoding/binary"
	"encoding/hex"
	"errors"
	"fmt"
	"os"
	"path/filepath"
	"strings"
	"sync"
)

// ---------------------------------------------------------------- CBOR tree

// bnode is one CBOR data item. Leaves keep their original bytes.
type bnode struct {
	major byte
	// width of the argument in the source: 0 (in the initial byte), 1, 2, 4, 8, 31 (indefinite)
	width int
	arg   uint64
	// payload of a definite string; raw bytes (header included) of major 7 items
	payload []byte
	kids    []*bnode // array items, map keys/values alternating, tag content, chunks
	// position of the item in the parsed input (not updated by setForm/encode)
	off, end int
}

var errCborShort = errors.New("cbor: truncated")

func widthOfAi(ai byte) int {
	switch {
	case ai < 24:
		return 0
	case ai == 24:
		return 1
	case ai == 25:
		return 2
	case ai == 26:
		return 4
	case ai == 27:
		return 8
	case ai == 31:
		return 31
	}
	return -1
}

// parseCbor parses one item at b[pos:], returns the node and the position after it.
func parseCbor(b []byte, pos int, depth int) (n *bnode, np int, err error) {
	defer func() {
		if err == nil && n != nil {
			n.end = np
		}
	}()
	return parseCbor1(b, pos, depth)
}

func parseCbor1(b []byte, pos int, depth int) (*bnode, int, error) {
	if depth > 200 {
		return nil, 0, errors.New("cbor: too deep")
	}
	if pos >= len(b) {
		return nil, 0, errCborShort
	}
	ib := b[pos]
	n := &bnode{major: ib >> 5, off: pos}
	ai := ib & 0x1f
	n.width = widthOfAi(ai)
	if n.width < 0 {
		return nil, 0, errors.New("cbor: reserved additional info")
	}
	start := pos
	pos++
	switch n.width {
	case 0:
		n.arg = uint64(ai)
	case 31:
	default:
		if pos+n.width > len(b) {
			return nil, 0, errCborShort
		}
		for i := 0; i < n.width; i++ {
			n.arg = n.arg<<8 | uint64(b[pos+i])
		}
		pos += n.width
	}
	switch n.major {
	case 0, 1:
		if n.width == 31 {
			return nil, 0, errors.New("cbor: indefinite int")
		}
	case 2, 3:
		if n.width == 31 {
			for {
				if pos >= len(b) {
					return nil, 0, errCborShort
				}
				if b[pos] == 0xff {
					pos++
					break
				}
				k, np, err := parseCbor(b, pos, depth+1)
				if err != nil {
					return nil, 0, err
				}
				if k.major != n.major || k.width == 31 {
					return nil, 0, errors.New("cbor: bad chunk")
				}
				n.kids = append(n.kids, k)
				pos = np
			}
		} else {
			if n.arg > uint64(len(b)-pos) {
				return nil, 0, errCborShort
			}
			n.payload = b[pos : pos+int(n.arg)]
			pos += int(n.arg)
		}
	case 4, 5:
		if n.width == 31 {
			for {
				if pos >= len(b) {
					return nil, 0, errCborShort
				}
				if b[pos] == 0xff {
					pos++
					break
				}
				k, np, err := parseCbor(b, pos, depth+1)
				if err != nil {
					return nil, 0, err
				}
				n.kids = append(n.kids, k)
				pos = np
			}
			if n.major == 5 && len(n.kids)%2 == 1 {
				return nil, 0, errors.New("cbor: odd indefinite map")
			}
		} else {
			cnt := n.arg
			if n.major == 5 {
				cnt *= 2
			}
			if cnt > uint64(len(b)) {
				return nil, 0, errCborShort
			}
			for i := uint64(0); i < cnt; i++ {
				k, np, err := parseCbor(b, pos, depth+1)
				if err != nil {
					return nil, 0, err
				}
				n.kids = append(n.kids, k)
				pos = np
			}
		}
	case 6:
		if n.width == 31 {
			return nil, 0, errors.New("cbor: indefinite tag")
		}
		k, np, err := parseCbor(b, pos, depth+1)
		if err != nil {
			return nil, 0, err
		}
		n.kids = []*bnode{k}
		pos = np
	case 7:
		if n.width == 31 {
			return nil, 0, errors.New("cbor: unexpected break")
		}
		n.payload = b[start:pos]
	}
	return n, pos, nil
}

func parseCborAll(b []byte) (*bnode, error) {
	n, p, err := parseCbor(b, 0, 0)
	if err != nil {
		return nil, err
	}
	if p != len(b) {
		return nil, fmt.Errorf("cbor: %d trailing bytes", len(b)-p)
	}
	return n, nil
}

func minWidth(v uint64) int {
	switch {
	case v < 24:
		return 0
	case v < 1<<8:
		return 1
	case v < 1<<16:
		return 2
	case v < 1<<32:
		return 4
	}
	return 8
}

func bAppendHead(out []byte, major byte, width int, arg uint64) []byte {
	if mw := minWidth(arg); width != 31 && width < mw {
		width = mw
	}
	switch width {
	case 0:
		return append(out, major<<5|byte(arg))
	case 1:
		return append(out, major<<5|24, byte(arg))
	case 2:
		return binary.BigEndian.AppendUint16(append(out, major<<5|25), uint16(arg))
	case 4:
		return binary.BigEndian.AppendUint32(append(out, major<<5|26), uint32(arg))
	case 8:
		return binary.BigEndian.AppendUint64(append(out, major<<5|27), arg)
	case 31:
		return append(out, major<<5|31)
	}
	panic("bad width")
}

// encode re-serialises the tree with the widths stored in the nodes.
func (n *bnode) encode(out []byte) []byte {
	switch n.major {
	case 0, 1:
		return bAppendHead(out, n.major, n.width, n.arg)
	case 2, 3:
		if n.width == 31 {
			out = bAppendHead(out, n.major, 31, 0)
			for _, k := range n.kids {
				out = k.encode(out)
			}
			return append(out, 0xff)
		}
		out = bAppendHead(out, n.major, n.width, uint64(len(n.payload)))
		return append(out, n.payload...)
	case 4, 5:
		cnt := uint64(len(n.kids))
		if n.major == 5 {
			cnt /= 2
		}
		out = bAppendHead(out, n.major, n.width, cnt)
		for _, k := range n.kids {
			out = k.encode(out)
		}
		if n.width == 31 {
			out = append(out, 0xff)
		}
		return out
	case 6:
		out = bAppendHead(out, 6, n.width, n.arg)
		return n.kids[0].encode(out)
	default:
		return append(out, n.payload...)
	}
}

func (n *bnode) bytes() []byte { return n.encode(nil) }

// walk visits every node (pre-order) with its depth.
func (n *bnode) walk(depth int, f func(n *bnode, depth int)) {
	f(n, depth)
	for _, k := range n.kids {
		k.walk(depth+1, f)
	}
}

// kid returns the i-th child or nil.
func (n *bnode) kid(i int) *bnode {
	if n == nil || i < 0 || i >= len(n.kids) {
		return nil
	}
	return n.kids[i]
}

// mapGet returns the value stored under the unsigned-integer key k of a map node.
func (n *bnode) mapGet(k uint64) *bnode {
	if n == nil || n.major != 5 {
		return nil
	}
	for i := 0; i+1 < len(n.kids); i += 2 {
		if n.kids[i].major == 0 && n.kids[i].arg == k {
			return n.kids[i+1]
		}
	}
	return nil
}

// formNames are the header forms a container / integer can be re-encoded with.
var formWidths = map[string]int{"min": 0, "w1": 1, "w2": 2, "w4": 4, "w8": 8, "indef": 31}

// setForm changes the header form of n (indef only for arrays, maps and strings).
func (n *bnode) setForm(form string) bool {
	w, ok := formWidths[form]
	if !ok || n == nil {
		return false
	}
	if w == 31 {
		switch n.major {
		case 4, 5:
			n.width = 31
			return true
		case 2, 3:
			if n.width == 31 {
				return true
			}
			// one chunk (or none for the empty string)
			if len(n.payload) > 0 {
				n.kids = []*bnode{{major: n.major, width: 0, payload: n.payload}}
			}
			n.payload = nil
			n.width = 31
			return true
		}
		return false
	}
	if n.major == 7 {
		return false
	}
	if (n.major == 2 || n.major == 3) && n.width == 31 {
		var p []byte
		for _, k := range n.kids {
			p = append(p, k.payload...)
		}
		n.payload, n.kids = p, nil
	}
	n.width = w
	return true
}

// ---------------------------------------------------------------- fixtures

type g10bFixture struct {
	era       string
	blockType uint
	data      []byte
}

var (
	g10bFixOnce sync.Once
	g10bFix     []g10bFixture
	g10bFixErr  error
)

func repoRoot() string {
	if r := os.Getenv("VERIF_REPO"); r != "" {
		return r
	}
	return "/repo"
}

func readHexFile(p string) ([]byte, error) {
	raw, err := os.ReadFile(p)
	if err != nil {
		return nil, err
	}
	return hex.DecodeString(strings.TrimSpace(string(raw)))
}

// Block type ids (ledger.BlockType*): Byron EBB 0, Byron main 1, Shelley 2, ... Conway 7, Dijkstra 8.
var eraBlockType = map[string]uint{
	"byron": 1, "shelley": 2, "allegra": 3, "mary": 4, "alonzo": 5, "babbage": 6, "conway": 7, "dijkstra": 8,
}

var g10bEras = []string{"byron", "shelley", "allegra", "mary", "alonzo", "babbage", "conway", "dijkstra"}

// fixtures loads the real blocks of every era from the repository under test.
func fixtures() ([]g10bFixture, error) {
	g10bFixOnce.Do(func() {
		root := repoRoot()
		for _, era := range g10bEras {
			p := filepath.Join(root, "internal", "testdata", era+"_block.hex")
			if era == "dijkstra" {
				p = filepath.Join(root, "ledger", "dijkstra", "testdata", "musashi_dijkstra_block.hex")
			}
			d, err := readHexFile(p)
			if err != nil {
				g10bFixErr = fmt.Errorf("fixture %s: %w", era, err)
				return
			}
			g10bFix = append(g10bFix, g10bFixture{era: era, blockType: eraBlockType[era], data: d})
		}
		if d := synthDijkstra(); d != nil {
			g10bFix = append(g10bFix, g10bFixture{era: "dijkstra", blockType: eraBlockType["dijkstra"], data: d})
		}
	})
	return g10bFix, g10bFixErr
}

func fixtureOf(era string) *g10bFixture {
	fx, err := fixtures()
	if err != nil {
		return nil
	}
	for i := range fx {
		if fx[i].era == era {
			return &fx[i]
		}
	}
	return nil
}

// synthDijkstra builds a Dijkstra-layout block WITH transactions (the only real
// Dijkstra fixture has none): the real Dijkstra header, and the Conway fixture's
// transactions regrouped as [body, witness set, aux/null] triples inside
// [invalid_transactions(null), transactions, null, null]. Body-hash validation
// is off wherever it is used (C07/C01 decode with SkipBodyHashValidation).
func synthDijkstra() []byte {
	var dj, cw *bnode
	for i := range g10bFix {
		n, err := parseCborAll(g10bFix[i].data)
		if err != nil {
			return nil
		}
		switch g10bFix[i].era {
		case "dijkstra":
			dj = n
		case "conway":
			cw = n
		}
	}
	if dj == nil || cw == nil || len(dj.kids) != 2 || len(cw.kids) < 4 {
		return nil
	}
	null := func() *bnode { return &bnode{major: 7, payload: []byte{0xf6}} }
	build := func(idx []int) []byte {
		txs := &bnode{major: 4}
		for _, i := range idx {
			aux := cw.kids[3].mapGet(uint64(i))
			if aux == nil {
				aux = null()
			}
			txs.kids = append(txs.kids, &bnode{major: 4, kids: []*bnode{cw.kids[1].kids[i], cw.kids[2].kids[i], aux}})
		}
		body := &bnode{major: 4, kids: []*bnode{null(), txs, null(), null()}}
		blk := &bnode{major: 4, kids: []*bnode{dj.kids[0], body}}
		return blk.bytes()
	}
	// keep the Conway transactions the Dijkstra decoder accepts (e.g. it rejects list-encoded redeemers)
	var good []int
	for i := range cw.kids[1].kids {
		if synthDijkstraAccepts != nil && !synthDijkstraAccepts(build([]int{i})) {
			continue
		}
		good = append(good, i)
	}
	if len(good) == 0 {
		return nil
	}
	return build(good)
}

// synthDijkstraAccepts is set by c07.go (it needs the ledger package): does the
// Dijkstra era decoder accept this block (body-hash validation off)?
var synthDijkstraAccepts func([]byte) bool
