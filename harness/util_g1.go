package main

// Helpers shared by the g1 property group (C26, C30, C33, C08, C27):
// a tiny CBOR *builder* (so that the harness controls the exact original
// encoding: header widths, indefinite containers, bignum tags), era
// transaction decoders, era rule lists and default protocol parameters.

import (
	"crypto/ed25519"
	"encoding/binary"
	"fmt"
	"math/big"
	"sort"
	"strings"

	"github.com/blinklabs-io/gouroboros/ledger/allegra"
	"github.com/blinklabs-io/gouroboros/ledger/alonzo"
	"github.com/blinklabs-io/gouroboros/ledger/babbage"
	"github.com/blinklabs-io/gouroboros/ledger/common"
	"github.com/blinklabs-io/gouroboros/ledger/conway"
	"github.com/blinklabs-io/gouroboros/ledger/dijkstra"
	"github.com/blinklabs-io/gouroboros/ledger/mary"
	"github.com/blinklabs-io/gouroboros/ledger/shelley"
)

var g1Eras = []string{"shelley", "allegra", "mary", "alonzo", "babbage", "conway", "dijkstra"}

// ---- CBOR builder ---------------------------------------------------------

// cbHead encodes a CBOR head of major type mt with argument v. width selects
// the encoding of the argument: 0 = minimal, 1/2/4/8 = that many argument
// bytes (non-minimal allowed), -1 = in the initial byte (v must be < 24).
func cbHead(mt byte, v uint64, width int) []byte {
	if width == 0 {
		switch {
		case v < 24:
			width = -1
		case v < 1<<8:
			width = 1
		case v < 1<<16:
			width = 2
		case v < 1<<32:
			width = 4
		default:
			width = 8
		}
	}
	switch width {
	case -1:
		return []byte{mt<<5 | byte(v)}
	case 1:
		return []byte{mt<<5 | 24, byte(v)}
	case 2:
		b := []byte{mt<<5 | 25, 0, 0}
		binary.BigEndian.PutUint16(b[1:], uint16(v))
		return b
	case 4:
		b := []byte{mt<<5 | 26, 0, 0, 0, 0}
		binary.BigEndian.PutUint32(b[1:], uint32(v))
		return b
	default:
		b := []byte{mt<<5 | 27, 0, 0, 0, 0, 0, 0, 0, 0}
		binary.BigEndian.PutUint64(b[1:], v)
		return b
	}
}

func cbUint(v uint64) []byte          { return cbHead(0, v, 0) }
func cbUintW(v uint64, w int) []byte  { return cbHead(0, v, w) }
func cbBytes(b []byte) []byte         { return append(cbHead(2, uint64(len(b)), 0), b...) }
func cbText(s string) []byte          { return append(cbHead(3, uint64(len(s)), 0), s...) }
func cbTag(t uint64, x []byte) []byte { return append(cbHead(6, t, 0), x...) }
func cbNull() []byte                  { return []byte{0xf6} }
func cbBool(b bool) []byte {
	if b {
		return []byte{0xf5}
	}
	return []byte{0xf4}
}

// cbInt encodes any integer: major 0/1 when it fits 64 bits, bignum tags 2/3 otherwise.
func cbInt(v *big.Int) []byte {
	if v.Sign() >= 0 {
		if v.IsUint64() {
			return cbUint(v.Uint64())
		}
		return cbTag(2, cbBytes(v.Bytes()))
	}
	n := new(big.Int).Neg(v)
	n.Sub(n, big.NewInt(1)) // -1 - v
	if n.IsUint64() {
		return cbHead(1, n.Uint64(), 0)
	}
	return cbTag(3, cbBytes(n.Bytes()))
}

func cbCat(items ...[]byte) []byte {
	var r []byte
	for _, i := range items {
		r = append(r, i...)
	}
	return r
}

// cbArrayW: width as in cbHead; width 99 = indefinite-length array.
func cbArrayW(width int, items ...[]byte) []byte {
	if width == 99 {
		r := []byte{0x9f}
		r = append(r, cbCat(items...)...)
		return append(r, 0xff)
	}
	return append(cbHead(4, uint64(len(items)), width), cbCat(items...)...)
}
func cbArray(items ...[]byte) []byte { return cbArrayW(0, items...) }

// cbMapW takes alternating key, value encodings.
func cbMapW(width int, kv ...[]byte) []byte {
	if width == 99 {
		r := []byte{0xbf}
		r = append(r, cbCat(kv...)...)
		return append(r, 0xff)
	}
	return append(cbHead(5, uint64(len(kv)/2), width), cbCat(kv...)...)
}
func cbMap(kv ...[]byte) []byte { return cbMapW(0, kv...) }

// ---- eras -------------------------------------------------------------------

func g1EraIndex(era string) int {
	for i, e := range g1Eras {
		if e == era {
			return i
		}
	}
	return -1
}

// g1Envelope wraps body and witness set into the era's transaction envelope.
// Shelley..Mary: [body, wits, aux]; Alonzo..Conway: [body, wits, isValid, aux];
// Dijkstra decodes both forms (n selects: 3 or 4; 0 = era default).
func g1Envelope(era string, body, wits []byte, isValid bool, aux []byte, n int, width int) []byte {
	if aux == nil {
		aux = cbNull()
	}
	if n == 0 {
		if g1EraIndex(era) >= 3 {
			n = 4
		} else {
			n = 3
		}
	}
	if n == 4 {
		return cbArrayW(width, body, wits, cbBool(isValid), aux)
	}
	return cbArrayW(width, body, wits, aux)
}

func g1DecodeTx(era string, data []byte) (common.Transaction, error) {
	switch era {
	case "shelley":
		return shelley.NewShelleyTransactionFromCbor(data)
	case "allegra":
		return allegra.NewAllegraTransactionFromCbor(data)
	case "mary":
		return mary.NewMaryTransactionFromCbor(data)
	case "alonzo":
		return alonzo.NewAlonzoTransactionFromCbor(data)
	case "babbage":
		return babbage.NewBabbageTransactionFromCbor(data)
	case "conway":
		return conway.NewConwayTransactionFromCbor(data)
	case "dijkstra":
		return dijkstra.NewDijkstraTransactionFromCbor(data)
	}
	return nil, fmt.Errorf("unknown era %s", era)
}

func g1Rules(era string) []common.UtxoValidationRuleFunc {
	switch era {
	case "shelley":
		return shelley.UtxoValidationRules
	case "allegra":
		return allegra.UtxoValidationRules
	case "mary":
		return mary.UtxoValidationRules
	case "alonzo":
		return alonzo.UtxoValidationRules
	case "babbage":
		return babbage.UtxoValidationRules
	case "conway":
		return conway.UtxoValidationRules
	case "dijkstra":
		return dijkstra.UtxoValidationRules
	}
	return nil
}

// g1PP are the protocol parameters the g1 properties vary.
type g1PP struct {
	MinFeeA, MinFeeB, MaxTxSize uint
	KeyDeposit, PoolDeposit     uint
	Major                       uint
	MaxValueSize                uint
	DRepDeposit, GovDeposit     uint64
}

func g1Pparams(era string, p g1PP) common.ProtocolParameters {
	switch era {
	case "shelley":
		return &shelley.ShelleyProtocolParameters{MinFeeA: p.MinFeeA, MinFeeB: p.MinFeeB, MaxTxSize: p.MaxTxSize,
			KeyDeposit: p.KeyDeposit, PoolDeposit: p.PoolDeposit, ProtocolMajor: p.Major}
	case "allegra":
		return &allegra.AllegraProtocolParameters{MinFeeA: p.MinFeeA, MinFeeB: p.MinFeeB, MaxTxSize: p.MaxTxSize,
			KeyDeposit: p.KeyDeposit, PoolDeposit: p.PoolDeposit, ProtocolMajor: p.Major}
	case "mary":
		return &mary.MaryProtocolParameters{MinFeeA: p.MinFeeA, MinFeeB: p.MinFeeB, MaxTxSize: p.MaxTxSize,
			KeyDeposit: p.KeyDeposit, PoolDeposit: p.PoolDeposit, ProtocolMajor: p.Major}
	case "alonzo":
		return &alonzo.AlonzoProtocolParameters{MinFeeA: p.MinFeeA, MinFeeB: p.MinFeeB, MaxTxSize: p.MaxTxSize,
			KeyDeposit: p.KeyDeposit, PoolDeposit: p.PoolDeposit, ProtocolMajor: p.Major, MaxValueSize: p.MaxValueSize}
	case "babbage":
		return &babbage.BabbageProtocolParameters{MinFeeA: p.MinFeeA, MinFeeB: p.MinFeeB, MaxTxSize: p.MaxTxSize,
			KeyDeposit: p.KeyDeposit, PoolDeposit: p.PoolDeposit, ProtocolMajor: p.Major, MaxValueSize: p.MaxValueSize}
	case "conway":
		return g1ConwayPP(p)
	case "dijkstra":
		return &dijkstra.DijkstraProtocolParameters{ConwayProtocolParameters: *g1ConwayPP(p)}
	}
	return nil
}

func g1ConwayPP(p g1PP) *conway.ConwayProtocolParameters {
	return &conway.ConwayProtocolParameters{MinFeeA: p.MinFeeA, MinFeeB: p.MinFeeB, MaxTxSize: p.MaxTxSize,
		KeyDeposit: p.KeyDeposit, PoolDeposit: p.PoolDeposit,
		ProtocolVersion: common.ProtocolParametersProtocolVersion{Major: p.Major},
		MaxValueSize:    p.MaxValueSize, DRepDeposit: p.DRepDeposit, GovActionDeposit: p.GovDeposit}
}

// g1TxIn encodes a transaction input [hash32, index]; the hash is derived from a small id.
func g1TxHash(id int) []byte {
	h := make([]byte, 32)
	h[0] = 0xd2
	h[30] = byte(id >> 8)
	h[31] = byte(id)
	return h
}
func g1TxIn(id, idx int) []byte { return cbArray(cbBytes(g1TxHash(id)), cbUint(uint64(idx))) }

// g1Addr is a Shelley enterprise key-hash address (type 6) on network 1.
func g1Addr(seed byte) []byte {
	a := make([]byte, 29)
	a[0] = 0x61
	for i := 1; i < 29; i++ {
		a[i] = seed
	}
	return a
}

// g1RewardAddr is a key-hash reward account (type 14) on network 1.
func g1RewardAddr(seed byte) []byte {
	a := make([]byte, 29)
	a[0] = 0xe1
	for i := 1; i < 29; i++ {
		a[i] = seed
	}
	return a
}

// ---- fully valid transactions ------------------------------------------------

// g1Key is a deterministic ed25519 key; its enterprise address (network 1)
// locks the inputs of generated transactions.
type g1Key struct {
	priv ed25519.PrivateKey
	pub  ed25519.PublicKey
}

func g1NewKey(seed byte) g1Key {
	s := make([]byte, ed25519.SeedSize)
	for i := range s {
		s[i] = seed
	}
	priv := ed25519.NewKeyFromSeed(s)
	return g1Key{priv: priv, pub: priv.Public().(ed25519.PublicKey)}
}

func (k g1Key) keyHash() []byte { return common.Blake2b224Hash(k.pub).Bytes() }

// addr: enterprise key-hash address, network id `net`.
func (k g1Key) addr(net byte) []byte { return append([]byte{0x60 | net}, k.keyHash()...) }

// rewardAddr: key-hash reward account.
func (k g1Key) rewardAddr(net byte) []byte { return append([]byte{0xe0 | net}, k.keyHash()...) }

// witness: [vkey, signature over the body hash]
func (k g1Key) witness(body []byte) []byte {
	h := common.Blake2b256Hash(body)
	return cbArray(cbBytes(k.pub), cbBytes(ed25519.Sign(k.priv, h.Bytes())))
}

// g1SignedTx wraps a body into the era's envelope with vkey witnesses by keys.
func g1SignedTx(era string, body []byte, keys ...g1Key) []byte {
	ws := [][]byte{}
	for _, k := range keys {
		ws = append(ws, k.witness(body))
	}
	wits := cbMap(cbUint(0), cbArray(ws...))
	return g1Envelope(era, body, wits, true, nil, 0, 0)
}

// g1RunRules runs every rule of the era's list and returns the sorted, de-duplicated
// type names of the errors (empty = the transaction is accepted).
func g1RunRules(era string, tx common.Transaction, slot uint64, ls common.LedgerState, pp common.ProtocolParameters) []string {
	seen := map[string]bool{}
	for _, rule := range g1Rules(era) {
		if e := safeRule(rule, tx, slot, ls, pp); e != nil {
			n := fmt.Sprintf("%T", e)
			if i := strings.LastIndex(n, "."); i >= 0 {
				n = n[i+1:]
			}
			seen[n] = true
		}
	}
	res := []string{}
	for n := range seen {
		res = append(res, n)
	}
	sort.Strings(res)
	return res
}

// ---- purity of validation ------------------------------------------------------

// g1OutSnap renders everything value-related an output reports (coin and every asset
// quantity, sorted), read through the public accessors.
func g1OutSnap(o common.TransactionOutput) string {
	if o == nil {
		return "nil"
	}
	var sb strings.Builder
	if a := o.Amount(); a != nil {
		sb.WriteString(a.String())
	}
	if as := o.Assets(); as != nil {
		ents := []string{}
		for _, pol := range as.Policies() {
			for _, name := range as.Assets(pol) {
				q := as.Asset(pol, name)
				ents = append(ents, fmt.Sprintf("%x.%x=%s", pol.Bytes(), name, bigStr(q)))
			}
		}
		sort.Strings(ents)
		sb.WriteString("{" + strings.Join(ents, ",") + "}")
	}
	return sb.String()
}

// g1TxSnap renders what a transaction reports about its value: stored bytes, fee, every
// output, every produced UTxO, the mint field; plus the given ledger-state UTxOs.
func g1TxSnap(tx common.Transaction, utxos []common.Utxo) string {
	var sb strings.Builder
	fmt.Fprintf(&sb, "cbor=%x fee=%s", common.Blake2b256Hash(tx.Cbor()).Bytes(), bigStr(tx.Fee()))
	for i, o := range tx.Outputs() {
		fmt.Fprintf(&sb, " o%d=%s", i, g1OutSnap(o))
	}
	func() {
		defer func() { _ = recover() }()
		for i, u := range tx.Produced() {
			fmt.Fprintf(&sb, " p%d=%s", i, g1OutSnap(u.Output))
		}
	}()
	if m := tx.AssetMint(); m != nil {
		ents := []string{}
		for _, pol := range m.Policies() {
			for _, name := range m.Assets(pol) {
				ents = append(ents, fmt.Sprintf("%x.%x=%s", pol.Bytes(), name, bigStr(m.Asset(pol, name))))
			}
		}
		sort.Strings(ents)
		sb.WriteString(" mint{" + strings.Join(ents, ",") + "}")
	}
	for i, u := range utxos {
		fmt.Fprintf(&sb, " u%d=%s", i, g1OutSnap(u.Output))
	}
	return sb.String()
}
