package main

// dump_g10b.go — lean/GV/Gen/G10bTypes.lean: the concrete Go types of the decoded block,
// block header, transaction body and witness set of every era, read out of the running code
// (reflection on the real fixture blocks). Together with GV.Gen.Preserve (go/ast: which types
// have a MarshalCBOR that returns the stored bytes) this decides, per (kind, era), whether
// re-serialising an unmodified decoded object must reproduce its bytes (C01, clause 3).

import (
	"bufio"
	"fmt"
	"reflect"
	"sort"
	"strings"

	"github.com/blinklabs-io/gouroboros/ledger"
	"github.com/blinklabs-io/gouroboros/ledger/common"
)

func g10bTypeName(v any) string {
	t := reflect.TypeOf(v)
	for t != nil && t.Kind() == reflect.Pointer {
		t = t.Elem()
	}
	if t == nil {
		return ""
	}
	p := t.PkgPath()
	if i := strings.LastIndex(p, "/"); i >= 0 {
		p = p[i+1:]
	}
	return p + "." + t.Name()
}

func init() {
	registerDump("G10bTypes", func(w *bufio.Writer) {
		fmt.Fprintln(w, "namespace GV.Gen.G10bTypes")
		fmt.Fprintln(w, "/-- ((kind, era), concrete Go type) of the decoded components of the real fixture blocks -/")
		fmt.Fprintln(w, "def types : List ((String × String) × String) := [")
		rows := map[string]string{}
		fx, err := fixtures()
		if err != nil {
			panic(err)
		}
		for _, f := range fx {
			blk, err := ledger.NewBlockFromCbor(f.blockType, f.data, common.VerifyConfig{SkipBodyHashValidation: true})
			if err != nil {
				panic(fmt.Sprintf("fixture %s does not decode: %v", f.era, err))
			}
			rows["blk "+f.era] = g10bTypeName(blk)
			rows["hdr "+f.era] = g10bTypeName(blk.Header())
			for _, tx := range blk.Transactions() {
				if bp := fieldPtr(tx, "Body"); bp != nil {
					rows["body "+f.era] = g10bTypeName(bp)
				}
				if wp := fieldPtr(tx, "WitnessSet"); wp != nil {
					rows["wit "+f.era] = g10bTypeName(wp)
				}
				break
			}
		}
		keys := make([]string, 0, len(rows))
		for k := range rows {
			keys = append(keys, k)
		}
		sort.Strings(keys)
		for i, k := range keys {
			p := strings.Fields(k)
			sep := ","
			if i == len(keys)-1 {
				sep = ""
			}
			fmt.Fprintf(w, "  ((%q, %q), %q)%s\n", p[0], p[1], rows[k], sep)
		}
		fmt.Fprintln(w, "]")
		fmt.Fprintln(w, "end GV.Gen.G10bTypes")
	})
}
