package main

// dump_c04.go — lean/GV/Gen/MsgShapes.lean: for every mini-protocol and every
// message type its NewMsgFromCbor accepts, the *shape* of the Go destination
// struct, read by reflection from the running code (toarray structs, field
// kinds and integer widths, fixed-size byte arrays, lists, maps, points, raw
// items). Types that decode through their own UnmarshalCBOR (other than
// Point / RawMessage) are `.opaque`: their round trip is checked on the
// implementation only.

import (
	"bufio"
	"fmt"
	"reflect"
	"sort"
	"strings"

	"github.com/blinklabs-io/gouroboros/cbor"
	pcommon "github.com/blinklabs-io/gouroboros/protocol/common"
)

type cborUnmarshaler interface{ UnmarshalCBOR([]byte) error }

var (
	tUnmarshaler = reflect.TypeOf((*cborUnmarshaler)(nil)).Elem()
	tPoint       = reflect.TypeOf(pcommon.Point{})
)

func isToArray(t reflect.Type) bool {
	for i := 0; i < t.NumField(); i++ {
		f := t.Field(i)
		if f.Type == tAsArray {
			return true
		}
		if f.Anonymous && f.Type.Kind() == reflect.Struct && isToArray(f.Type) {
			return true
		}
		if f.Name == "_" && strings.Contains(f.Tag.Get("cbor"), "toarray") {
			return true
		}
	}
	return false
}

// shapeOf returns the Lean term of the shape, and whether it is fully modelled
func shapeOf(t reflect.Type, top bool) (string, bool) {
	if t == tRawMessage {
		return ".raw", true
	}
	if t == tPoint {
		return ".point", true
	}
	if !top || t.Kind() != reflect.Struct {
		if reflect.PointerTo(t).Implements(tUnmarshaler) || t.Implements(tUnmarshaler) {
			return ".opaque", false
		}
	} else if reflect.PointerTo(t).Implements(tUnmarshaler) {
		// a message with its own UnmarshalCBOR (promoted methods of embedded fields do not count:
		// MessageBase has none)
		return ".opaque", false
	}
	switch t.Kind() {
	case reflect.Uint8:
		return "(.uint 8)", true
	case reflect.Uint16:
		return "(.uint 16)", true
	case reflect.Uint32:
		return "(.uint 32)", true
	case reflect.Uint64, reflect.Uint:
		return "(.uint 64)", true
	case reflect.Bool:
		return ".bool", true
	case reflect.String:
		return ".text", true
	case reflect.Slice:
		if t.Elem().Kind() == reflect.Uint8 {
			return ".bytes", true
		}
		s, ok := shapeOf(t.Elem(), false)
		return "(.list " + s + ")", ok
	case reflect.Array:
		if t.Elem().Kind() == reflect.Uint8 {
			return fmt.Sprintf("(.fixed %d)", t.Len()), true
		}
		return ".opaque", false
	case reflect.Map:
		k, ok1 := shapeOf(t.Key(), false)
		v, ok2 := shapeOf(t.Elem(), false)
		return "(.map " + k + " " + v + ")", ok1 && ok2
	case reflect.Struct:
		if !isToArray(t) {
			return ".opaque", false
		}
		fs := []string{}
		ok := true
		var walk func(t reflect.Type)
		walk = func(t reflect.Type) {
			for i := 0; i < t.NumField(); i++ {
				f := t.Field(i)
				if f.Type == tStoreCbor || f.Type == tAsArray {
					continue
				}
				if f.Anonymous && f.Type.Kind() == reflect.Struct {
					walk(f.Type)
					continue
				}
				if !f.IsExported() || f.Tag.Get("cbor") == "-" {
					continue
				}
				s, o := shapeOf(f.Type, false)
				ok = ok && o
				fs = append(fs, s)
			}
		}
		walk(t)
		return "(.struct [" + strings.Join(fs, ", ") + "])", ok
	}
	return ".opaque", false
}

var _ = cbor.RawMessage{}

func init() {
	registerDump("MsgShapes", func(w *bufio.Writer) {
		fmt.Fprintln(w, "import GV.Model.MsgCodec")
		fmt.Fprintln(w, "namespace GV.Gen.MsgShapes")
		fmt.Fprintln(w, "open GV.Model.MsgCodec")
		fmt.Fprintln(w, "/-- (protocol, [(message type id, Go type name, shape of the destination struct)]) -/")
		fmt.Fprintln(w, "def table : List (String × List (Nat × String × Shape)) := [")
		for i, p := range c04Protos {
			ids := []int{}
			for k := range p.types {
				ids = append(ids, int(k))
			}
			sort.Ints(ids)
			fmt.Fprintf(w, "  (%q, [\n", p.name)
			for j, k := range ids {
				m := p.types[uint(k)]
				t := reflect.TypeOf(m).Elem()
				s, ok := shapeOf(t, true)
				if !ok {
					s = ".opaque"
				}
				sep := ","
				if j == len(ids)-1 {
					sep = ""
				}
				fmt.Fprintf(w, "    (%d, %q, %s)%s\n", k, strings.TrimPrefix(t.Name(), "Msg"), s, sep)
			}
			sep := ","
			if i == len(c04Protos)-1 {
				sep = ""
			}
			fmt.Fprintf(w, "  ])%s\n", sep)
		}
		fmt.Fprintln(w, "]")
		fmt.Fprintln(w, "end GV.Gen.MsgShapes")
	})
}
