package main

// C40 — BlockBuilder.BuildHeader / HeaderValidator.ValidateHeader. Real VRF, KES
// (depth 6, evolved) and Ed25519 keys; the header is built by the real builder,
// one field is then replaced by another well-sized genuine value, the body is
// re-serialised as a node would see it, and the real validator (plus the ledger's
// VerifyKes / VerifyOpCertSignature on the decoded header) judges it.
//
// op:  hdr <c|t> <useed> <slot> <blockNo> <spk> <maxEvo> <ocPeriod> <kesT> <seq> <ctx> <tamper>
// out: lead=<b> ser=<b> valid=<b> lkes=<1|0|e> lopc=<b> errs=<check names>
//      (or: lead=0 notleader | lead=- builderr:<kind>)

import (
	"bytes"
	"crypto/ed25519"
	"fmt"
	"math/big"
	"strconv"
	"strings"
	"sync"
	"time"

	"github.com/blinklabs-io/gouroboros/cbor"
	"github.com/blinklabs-io/gouroboros/consensus"
	"github.com/blinklabs-io/gouroboros/kes"
	"github.com/blinklabs-io/gouroboros/ledger"
	"github.com/blinklabs-io/gouroboros/ledger/allegra"
	"github.com/blinklabs-io/gouroboros/ledger/alonzo"
	"github.com/blinklabs-io/gouroboros/ledger/babbage"
	"github.com/blinklabs-io/gouroboros/ledger/conway"
	"github.com/blinklabs-io/gouroboros/ledger/dijkstra"
	"github.com/blinklabs-io/gouroboros/ledger/mary"
	"github.com/blinklabs-io/gouroboros/ledger/common"
	"github.com/blinklabs-io/gouroboros/ledger/shelley"
	"github.com/blinklabs-io/gouroboros/vrf"
	"golang.org/x/crypto/blake2b"
)

func init() {
	register(&Prop{ID: "C40", Gen: genC40, Run: runC40, Timeout: 3 * time.Minute})
}

type c40Vrf struct{ sk, pk []byte }

func (s *c40Vrf) Prove(in []byte) ([]byte, []byte, error) { return vrf.Prove(s.sk, in) }
func (s *c40Vrf) PublicKey() []byte                       { return s.pk }

type c40Kes struct {
	data    []byte
	t       uint64
	pk      []byte
	lastMsg []byte
}

func (s *c40Kes) Sign(msg []byte) ([]byte, error) {
	s.lastMsg = append([]byte{}, msg...)
	sk := &kes.SecretKey{Depth: kes.CardanoKesDepth, Period: s.t, Data: append([]byte{}, s.data...)}
	return kes.Sign(sk, s.t, msg)
}
func (s *c40Kes) PublicKey() []byte { return s.pk }
func (s *c40Kes) Period() uint64    { return s.t }

type c40Universe struct {
	vrfs [2]*c40Vrf
	kesD [2][][]byte
	kesP [2][]byte
	cold [2]ed25519.PrivateKey
}

var c40Cache = struct {
	sync.Mutex
	m map[string]*c40Universe
}{m: map[string]*c40Universe{}}

func c40Get(useed []byte) *c40Universe {
	c40Cache.Lock()
	defer c40Cache.Unlock()
	if u, ok := c40Cache.m[string(useed)]; ok {
		return u
	}
	u := &c40Universe{}
	for i := 0; i < 2; i++ {
		pk, sk, err := vrf.KeyGen(c46Derive(useed, "vrf", i))
		if err != nil {
			panic(err)
		}
		u.vrfs[i] = &c40Vrf{sk: sk, pk: pk}
		ksk, kpk, err := kes.KeyGen(kes.CardanoKesDepth, c46Derive(useed, "kes40", i))
		if err != nil {
			panic(err)
		}
		u.kesP[i] = append([]byte{}, kpk...)
		for t := 0; t < 64; t++ {
			u.kesD[i] = append(u.kesD[i], append([]byte{}, ksk.Data...))
			if t < 63 {
				if ksk, err = kes.Update(ksk); err != nil {
					panic(err)
				}
			}
		}
		u.cold[i] = ed25519.NewKeyFromSeed(c46Derive(useed, "cold40", i))
	}
	if len(c40Cache.m) > 32 {
		c40Cache.m = map[string]*c40Universe{}
	}
	c40Cache.m[string(useed)] = u
	return u
}

func c40Atom(tag string) []byte {
	h := blake2b.Sum256([]byte("c40/" + tag))
	return h[:]
}

// the wire format of the header body (consensus/block.go's unexported serialisers,
// = ledger/babbage.BabbageBlockHeaderBody / ledger/shelley.ShelleyBlockHeaderBody)
func c40Serialize(tpraos bool, b *consensus.HeaderBody) ([]byte, error) {
	if tpraos {
		return cbor.Encode([]any{
			b.BlockNumber, b.Slot, b.PrevHash, b.IssuerVkey, b.VrfKey,
			[]any{b.NonceVrfOutput, b.NonceVrfProof},
			[]any{b.VrfOutput, b.VrfProof},
			b.BlockBodySize, b.BlockBodyHash,
			b.OpCertHotVkey, b.OpCertSequenceNumber, b.OpCertKesPeriod, b.OpCertSignature,
			b.ProtoMajor, b.ProtoMinor,
		})
	}
	return cbor.Encode([]any{
		b.BlockNumber, b.Slot, b.PrevHash, b.IssuerVkey, b.VrfKey,
		[]any{b.VrfOutput, b.VrfProof},
		b.BlockBodySize, b.BlockBodyHash,
		[]any{b.OpCertHotVkey, b.OpCertSequenceNumber, b.OpCertKesPeriod, b.OpCertSignature},
		[]any{b.ProtoMajor, b.ProtoMinor},
	})
}

var c40Tampers = []string{"none", "blockNo", "slot", "prevHash", "issuer", "vrfKey", "vrfProof", "vrfOut",
	"nonceProof", "nonceOut", "bodySize", "bodyHash", "ocHot", "ocSeq", "ocPeriod", "ocSig",
	"protoMajor", "protoMinor", "kesSig", "kesSigOtherKey", "kesSigOtherT",
	"vrfProofLen", "vrfOutLen", "vrfKeyLen", "kesSigLen", "ocHotLen", "issuerLen", "ocSigLen",
	"nonceProofLen", "nonceOutLen"}

// g8Era describes one header / block flavour the ledger's verifier switches on.
type g8Era struct {
	tpraos    bool
	blockType uint
	nseg      int
	proto     uint64
}

// "c" and "t" are the round-1 names of babbage and shelley
var g8Eras = map[string]g8Era{
	"t":       {true, ledger.BlockTypeShelley, 3, 2},
	"c":       {false, ledger.BlockTypeBabbage, 4, 8},
	"shelley": {true, ledger.BlockTypeShelley, 3, 2},
	"allegra": {true, ledger.BlockTypeAllegra, 3, 3},
	"mary":    {true, ledger.BlockTypeMary, 3, 4},
	"alonzo":  {true, ledger.BlockTypeAlonzo, 4, 5},
	"babbage": {false, ledger.BlockTypeBabbage, 4, 7},
	"conway":  {false, ledger.BlockTypeConway, 4, 9},
	// a Dijkstra block is [header, block_body]: one hashed body element
	"dijkstra": {false, ledger.BlockTypeDijkstra, 1, 12},
}
var g8EraNames = []string{"shelley", "allegra", "mary", "alonzo", "babbage", "conway", "dijkstra"}

func g8TpraosOnly(t string) bool {
	return t == "nonceProof" || t == "nonceOut" || t == "nonceProofLen" || t == "nonceOutLen"
}

// g8Cut drops the last byte.
func g8Cut(b []byte) []byte { return append([]byte{}, b[:len(b)-1]...) }

// g8SizeTamper applies the size tamperings shared by the hdr and blk ops.
func g8SizeTamper(tamper string, b *consensus.HeaderBody, sig *[]byte) {
	switch tamper {
	case "vrfProofLen":
		b.VrfProof = g8Cut(b.VrfProof)
	case "vrfOutLen":
		b.VrfOutput = g8Cut(b.VrfOutput)
	case "vrfKeyLen":
		b.VrfKey = g8Cut(b.VrfKey)
	case "kesSigLen":
		*sig = g8Cut(*sig)
	case "ocHotLen":
		b.OpCertHotVkey = g8Cut(b.OpCertHotVkey)
	case "issuerLen":
		b.IssuerVkey = g8Cut(b.IssuerVkey)
	case "ocSigLen":
		b.OpCertSignature = g8Cut(b.OpCertSignature)
	case "nonceProofLen":
		b.NonceVrfProof = g8Cut(b.NonceVrfProof)
	case "nonceOutLen":
		b.NonceVrfOutput = g8Cut(b.NonceVrfOutput)
	}
}

var c40Ctxs = []string{"ok", "prevslot", "prevslot+", "blockno", "nohash", "badhash", "reg", "regbad"}

func runC40(op string) string {
	f := strings.Fields(op)
	if len(f) > 0 && f[0] == "blk" {
		return g8RunC40Block(f)
	}
	era, okEra := g8Eras[f[1]]
	if len(f) != 12 || f[0] != "hdr" || !okEra {
		return "bad-op"
	}
	tpraos := era.tpraos
	useed, ok := unhex(f[2])
	slot, e1 := strconv.ParseUint(f[3], 10, 64)
	blockNo, e2 := strconv.ParseUint(f[4], 10, 64)
	spk, e3 := strconv.ParseUint(f[5], 10, 64)
	maxEvo, e4 := strconv.ParseUint(f[6], 10, 64)
	ocPeriod, e5 := strconv.ParseUint(f[7], 10, 32)
	kesT, e6 := strconv.ParseUint(f[8], 10, 64)
	seq, e7 := strconv.ParseUint(f[9], 10, 32)
	ctx, tamper := f[10], f[11]
	if !ok || e1 != nil || e2 != nil || e3 != nil || e4 != nil || e5 != nil || e6 != nil || e7 != nil ||
		kesT > 63 || slot == 0 || slot >= 1<<62 || blockNo == 0 {
		return "bad-op"
	}
	okT, okC := false, false
	for _, t := range c40Tampers {
		okT = okT || t == tamper
	}
	for _, c := range c40Ctxs {
		okC = okC || c == ctx
	}
	if !okT || !okC || (!tpraos && g8TpraosOnly(tamper)) {
		return "bad-op"
	}
	u := c40Get(useed)
	mode := consensus.ConsensusModeCPraos
	if tpraos {
		mode = consensus.ConsensusModeTPraos
	}
	coeff := big.NewRat(99, 100)
	hot := u.kesP[0]
	issuer := []byte(u.cold[0].Public().(ed25519.PublicKey))
	ocSig := ed25519.Sign(u.cold[0], common.OpCertSignableBytes(hot, seq, ocPeriod))
	ks := &c40Kes{data: u.kesD[0][kesT], t: kesT, pk: hot}
	builder := consensus.NewBlockBuilderWithMode(u.vrfs[0], ks,
		&consensus.OperationalCert{HotVkey: hot, SequenceNumber: uint32(seq), KesPeriod: uint32(ocPeriod), Signature: ocSig},
		common.Blake2b224Hash(issuer).Bytes(), issuer, coeff, mode)
	nonce := c40Atom("nonce")
	prevHash := c40Atom("prev")
	const stake = 1000000000
	hdr, _, err := builder.BuildHeader(consensus.BuildHeaderInput{
		Slot: slot, BlockNumber: blockNo, PrevHash: prevHash, EpochNonce: nonce,
		PoolStake: stake, TotalStake: stake, BlockBodyHash: c40Atom("body"), BlockBodySize: 1234,
		ProtoMajor: 9, ProtoMinor: 1,
	})
	if err != nil {
		if err == consensus.ErrNotSlotLeader {
			return "lead=0 notleader"
		}
		return "lead=- builderr:" + err.Error()
	}
	// the bytes the builder had KES-signed vs. the wire format
	mine, err := c40Serialize(tpraos, &hdr.Body)
	if err != nil {
		return "ser-err"
	}
	ser := bytes.Equal(mine, ks.lastMsg)
	// ---- tamper one field with another genuine, well-sized value
	b := hdr.Body
	sig := append([]byte{}, hdr.Signature...)
	otherIn := func(eta bool) []byte {
		var in []byte
		if tpraos {
			seed := vrf.SeedL()
			if eta {
				seed = vrf.SeedEta()
			}
			in, _ = vrf.MkSeedTPraos(int64(slot+1), nonce, seed)
		} else {
			in, _ = vrf.MkInputVrf(int64(slot+1), nonce)
		}
		return in
	}
	switch tamper {
	case "blockNo":
		b.BlockNumber++
	case "slot":
		b.Slot++
	case "prevHash":
		b.PrevHash = c40Atom("prev2")
	case "issuer":
		b.IssuerVkey = []byte(u.cold[1].Public().(ed25519.PublicKey))
	case "vrfKey":
		b.VrfKey = u.vrfs[1].pk
	case "vrfProof":
		b.VrfProof, _, _ = vrf.Prove(u.vrfs[0].sk, otherIn(false))
	case "vrfOut":
		_, b.VrfOutput, _ = vrf.Prove(u.vrfs[0].sk, otherIn(false))
	case "nonceProof":
		b.NonceVrfProof, _, _ = vrf.Prove(u.vrfs[0].sk, otherIn(true))
	case "nonceOut":
		_, b.NonceVrfOutput, _ = vrf.Prove(u.vrfs[0].sk, otherIn(true))
	case "bodySize":
		b.BlockBodySize++
	case "bodyHash":
		b.BlockBodyHash = c40Atom("body2")
	case "ocHot":
		b.OpCertHotVkey = u.kesP[1]
	case "ocSeq":
		b.OpCertSequenceNumber++
	case "ocPeriod":
		b.OpCertKesPeriod++
	case "ocSig":
		b.OpCertSignature = ed25519.Sign(u.cold[1], common.OpCertSignableBytes(hot, seq, ocPeriod))
	case "protoMajor":
		b.ProtoMajor++
	case "protoMinor":
		b.ProtoMinor++
	case "kesSig":
		sig[200] ^= 0x08
	case "kesSigOtherKey":
		o := &c40Kes{data: u.kesD[1][kesT], t: kesT, pk: u.kesP[1]}
		sig, _ = o.Sign(ks.lastMsg)
	case "kesSigOtherT":
		t2 := (kesT + 1) % 64
		o := &c40Kes{data: u.kesD[0][t2], t: t2, pk: hot}
		sig, _ = o.Sign(ks.lastMsg)
	}
	g8SizeTamper(tamper, &b, &sig)
	bodyCbor, err := c40Serialize(tpraos, &b)
	if err != nil {
		return "ser-err"
	}
	in := &consensus.ValidateHeaderInput{
		Slot: b.Slot, BlockNumber: b.BlockNumber, PrevHash: b.PrevHash, IssuerVkey: b.IssuerVkey,
		VrfKey: b.VrfKey, VrfProof: b.VrfProof, VrfOutput: b.VrfOutput, KesSignature: sig,
		HeaderBodyCbor: bodyCbor, NonceVrfProof: b.NonceVrfProof, NonceVrfOutput: b.NonceVrfOutput,
		OpCertHotVkey: b.OpCertHotVkey, OpCertSequenceNumber: b.OpCertSequenceNumber,
		OpCertKesPeriod: b.OpCertKesPeriod, OpCertSignature: b.OpCertSignature,
		PrevSlot: slot - 1, PrevBlockNumber: blockNo - 1, PrevHeaderHash: prevHash,
		EpochNonce: nonce, PoolStake: stake, TotalStake: stake,
	}
	switch ctx {
	case "prevslot":
		in.PrevSlot = slot
	case "prevslot+":
		in.PrevSlot = slot + 5
	case "blockno":
		in.PrevBlockNumber = blockNo
	case "nohash":
		in.PrevHeaderHash = nil
	case "badhash":
		in.PrevHeaderHash = c40Atom("prev3")
	case "reg":
		in.RegisteredVrfKeyHash = common.Blake2b256Hash(u.vrfs[0].pk).Bytes()
	case "regbad":
		in.RegisteredVrfKeyHash = common.Blake2b256Hash(u.vrfs[1].pk).Bytes()
	}
	cfg := consensus.NetworkConfig{SlotsPerKESPeriod: spk, MaxKESEvolutions: maxEvo}
	cfg.ActiveSlotCoeff.Rat = coeff
	res := consensus.NewHeaderValidatorWithMode(cfg, mode).ValidateHeader(in)
	var errs []string
	for _, e := range res.Errors {
		m := e.Error()
		switch {
		case strings.HasPrefix(m, "slot must be greater"):
			errs = append(errs, "slot")
		case strings.HasPrefix(m, "block number must be"):
			errs = append(errs, "blockNo")
		case strings.HasPrefix(m, "previous hash"), strings.HasPrefix(m, "previous header hash"):
			errs = append(errs, "prevHash")
		case strings.HasPrefix(m, "invalid VRF key size for registration"):
			errs = append(errs, "vrfReg")
		case strings.HasPrefix(m, "nonce VRF"), strings.HasPrefix(m, "invalid nonce VRF"):
			errs = append(errs, "nonceVrf")
		case strings.HasPrefix(m, "VRF proof verification"), strings.HasPrefix(m, "VRF verification failed"), strings.HasPrefix(m, "invalid VRF"):
			errs = append(errs, "vrf")
		case strings.HasPrefix(m, "VRF output does not satisfy"), strings.HasPrefix(m, "total stake"):
			errs = append(errs, "leader")
		case strings.HasPrefix(m, "KES signature verification failed"), strings.HasPrefix(m, "invalid KES"):
			errs = append(errs, "kesSig")
		case strings.HasPrefix(m, "operational certificate"), strings.HasPrefix(m, "slotsPerKESPeriod"):
			errs = append(errs, "kesWindow")
		case strings.HasPrefix(m, "OpCert signature"), strings.HasPrefix(m, "invalid OpCert"), strings.HasPrefix(m, "invalid issuer"), strings.HasPrefix(m, "IssuerVkey"):
			errs = append(errs, "opCert")
		case strings.HasPrefix(m, "VRF key does not match"):
			errs = append(errs, "vrfReg")
		default:
			errs = append(errs, "other("+m+")")
		}
	}
	es := "-"
	if len(errs) > 0 {
		es = strings.Join(errs, ",")
	}
	// ---- the ledger's view of the same header bytes
	sigCbor, _ := cbor.Encode(sig)
	hdrCbor := append([]byte{0x82}, bodyCbor...)
	hdrCbor = append(hdrCbor, sigCbor...)
	lkes, lopc := "e", "e"
	var lh ledger.BlockHeader
	var oc *ledger.OpCert
	// decode as the era's own header type (ExtractKesFields switches on it)
	if h, err := ledger.NewBlockHeaderFromCbor(era.blockType, hdrCbor); err == nil {
		lh = h
		var sb *shelley.ShelleyBlockHeader
		var bb *babbage.BabbageBlockHeader
		switch hh := h.(type) {
		case *shelley.ShelleyBlockHeader:
			sb = hh
		case *allegra.AllegraBlockHeader:
			sb = &hh.ShelleyBlockHeader
		case *mary.MaryBlockHeader:
			sb = &hh.ShelleyBlockHeader
		case *alonzo.AlonzoBlockHeader:
			sb = &hh.ShelleyBlockHeader
		case *babbage.BabbageBlockHeader:
			bb = hh
		case *conway.ConwayBlockHeader:
			bb = &hh.BabbageBlockHeader
		case *dijkstra.DijkstraBlockHeader:
			bb = &hh.BabbageBlockHeader
		}
		if sb != nil {
			oc = &ledger.OpCert{KesVkey: sb.Body.OpCertHotVkey, IssueNumber: uint64(sb.Body.OpCertSequenceNumber),
				KesPeriod: uint64(sb.Body.OpCertKesPeriod), ColdSignature: sb.Body.OpCertSignature}
		} else if bb != nil {
			oc = &ledger.OpCert{KesVkey: bb.Body.OpCert.HotVkey, IssueNumber: uint64(bb.Body.OpCert.SequenceNumber),
				KesPeriod: uint64(bb.Body.OpCert.KesPeriod), ColdSignature: bb.Body.OpCert.Signature}
		} else {
			lh = nil
		}
	}
	if lh != nil {
		okk, err := ledger.VerifyKes(lh, spk)
		switch {
		case err != nil:
			lkes = "e"
		case okk:
			lkes = "1"
		default:
			lkes = "0"
		}
		if ledger.VerifyOpCertSignature(oc, b.IssuerVkey) == nil {
			lopc = "1"
		} else {
			lopc = "0"
		}
	} else {
		lkes, lopc = "decode", "decode"
	}
	return fmt.Sprintf("lead=1 ser=%s valid=%s lkes=%s lopc=%s errs=%s", b01(ser), b01(res.Valid), lkes, lopc, es)
}

func genC40(r *Rand, n int, tier string, emit func(string)) {
	useeds := []string{hexs(r.Bytes(8)), hexs(r.Bytes(8))}
	for i := 0; i < n; i++ {
		if r.Chance(1, 4) {
			g8GenC40Block(r, emit, useeds[r.Intn(2)])
			continue
		}
		mode := g8EraNames[r.Intn(len(g8EraNames))]
		spk := Pick(r, uint64(129600), 129600, 100, 1, 7, 3600)
		maxEvo := Pick(r, uint64(62), 62, 62, 64, 1, 5, 63)
		kesT := uint64(Pick(r, 0, 0, 1, 2, 5, 30, 61, 62, 63, r.Intn(64)))
		ocPeriod := uint64(r.Intn(400))
		// slot inside the evolution the signer is at, usually
		cur := ocPeriod + kesT
		switch r.Intn(8) {
		case 0:
			cur++ // signer lags one evolution
		case 1:
			if cur > 0 {
				cur-- // signer is ahead / certificate in the future when kesT = 0
			}
		case 2:
			cur = ocPeriod + maxEvo - 1 + uint64(r.Intn(3)) // window end -1/0/+1
			if maxEvo <= 64 && cur >= ocPeriod && cur-ocPeriod <= 63 && r.Chance(2, 3) {
				kesT = cur - ocPeriod
			}
		}
		// both edges of the certificate window, ±1: the early side signed with the un-evolved key
		if r.Chance(1, 5) {
			if ocPeriod == 0 {
				ocPeriod = 1 + uint64(r.Intn(300))
			}
			switch r.Intn(5) {
			case 0:
				cur, kesT = ocPeriod-1, 0
			case 1:
				cur, kesT = ocPeriod, 0
			case 2:
				cur, kesT = ocPeriod+1, 1
			case 3:
				cur = ocPeriod + maxEvo - 1
				kesT = min(maxEvo-1, 63)
			default:
				cur = ocPeriod + maxEvo
				kesT = min(maxEvo, 63)
			}
		}
		slot := cur*spk + uint64(r.Intn(int(spk)))
		if r.Chance(1, 3) {
			slot = cur * spk // first slot of the period
		} else if r.Chance(1, 3) {
			slot = cur*spk + spk - 1 // last slot of the period
		}
		if slot == 0 {
			slot = 1
		}
		blockNo := 1 + uint64(r.Intn(1000000))
		seq := uint64(r.Intn(50))
		ctx := "ok"
		if r.Chance(1, 4) {
			ctx = c40Ctxs[r.Intn(len(c40Ctxs))]
		}
		tamper := "none"
		if r.Chance(3, 5) {
			tamper = c40Tampers[r.Intn(len(c40Tampers))]
			if !g8Eras[mode].tpraos && g8TpraosOnly(tamper) {
				tamper = "vrfProof"
			}
		}
		emit(fmt.Sprintf("hdr %s %s %d %d %d %d %d %d %d %s %s", mode, useeds[r.Intn(2)], slot, blockNo, spk, maxEvo, ocPeriod, kesT, seq, ctx, tamper))
	}
}
