package main

// C28 — witness / signature validation. The op line describes a transaction
// abstractly (who owns each input, which witnesses are attached and how each was
// produced); Run builds the real transaction CBOR for the era with real Ed25519
// keys and signatures over the real transaction id, decodes it with the era's
// decoder, resolves inputs through a mock ledger state and runs the era's
// UtxoValidateSignatures / UtxoValidateCollateralVKeyWitnesses /
// UtxoValidateRequiredVKeyWitnesses.
//
// op:  wit <era> <useed> | in <owner>* | coll <owner>* | req <k>* | wd <K<k>|S<n>>* | vk <k>:<kind>* | bw <k>.<c>.<a>:<kind>*

import (
	"crypto/ed25519"
	"crypto/sha3"
	"fmt"
	"strconv"
	"strings"
	"time"

	"github.com/blinklabs-io/gouroboros/cbor"
	"github.com/blinklabs-io/gouroboros/ledger/allegra"
	"github.com/blinklabs-io/gouroboros/ledger/alonzo"
	"github.com/blinklabs-io/gouroboros/ledger/babbage"
	"github.com/blinklabs-io/gouroboros/ledger/common"
	"github.com/blinklabs-io/gouroboros/ledger/conway"
	"github.com/blinklabs-io/gouroboros/ledger/dijkstra"
	"github.com/blinklabs-io/gouroboros/ledger/mary"
	"github.com/blinklabs-io/gouroboros/ledger/shelley"
	mockledger "github.com/blinklabs-io/ouroboros-mock/ledger"
	"golang.org/x/crypto/blake2b"
)

func init() {
	register(&Prop{ID: "C28", Gen: genC28, Run: runC28, Timeout: 3 * time.Minute})
}

func c28Key(useed []byte, k int) ed25519.PrivateKey {
	h := blake2b.Sum256(append(append([]byte{}, useed...), []byte(fmt.Sprintf("/key/%d", k))...))
	return ed25519.NewKeyFromSeed(h[:])
}

func c28CC(useed []byte, c int) []byte {
	h := blake2b.Sum256(append(append([]byte{}, useed...), []byte(fmt.Sprintf("/cc/%d", c))...))
	return h[:]
}

func c28Attrs(a int) []byte {
	if a == 0 {
		return []byte{0xa0}
	}
	// {1: h'581c…'} — a derivation-path payload
	out := []byte{0xa1, 0x01, 0x58, 0x1e, 0x58, 0x1c}
	for i := 0; i < 28; i++ {
		out = append(out, byte(0x30+i))
	}
	return out
}

// the Byron address root: blake2b_224(sha3_256(cbor([0,[0,pk‖cc],attrs])))
func c28ByronRoot(pk, cc, attrs []byte) []byte {
	buf := []byte{0x83, 0x00, 0x82, 0x00, 0x58, 0x40}
	buf = append(buf, pk...)
	buf = append(buf, cc...)
	buf = append(buf, attrs...)
	s := sha3.Sum256(buf)
	h := common.Blake2b224Hash(s[:])
	return h.Bytes()
}

type c28Owner struct {
	kind    byte
	k, c, a int
}

func c28ParseOwner(s string) (c28Owner, bool) {
	if s == "M" {
		return c28Owner{kind: 'M'}, true
	}
	if len(s) < 2 {
		return c28Owner{}, false
	}
	switch s[0] {
	case 'K', 'S':
		n, err := strconv.Atoi(s[1:])
		return c28Owner{kind: s[0], k: n}, err == nil && n >= 0
	case 'B':
		p := strings.Split(s[1:], ".")
		if len(p) != 3 {
			return c28Owner{}, false
		}
		k, e1 := strconv.Atoi(p[0])
		c, e2 := strconv.Atoi(p[1])
		a, e3 := strconv.Atoi(p[2])
		return c28Owner{kind: 'B', k: k, c: c, a: a}, e1 == nil && e2 == nil && e3 == nil && k >= 0 && c >= 0 && a >= 0 && a <= 1
	}
	return c28Owner{}, false
}

func c28Section(name string, s string) ([]string, bool) {
	f := strings.Fields(s)
	if len(f) == 0 || f[0] != name {
		return nil, false
	}
	return f[1:], true
}

func c28SigBytes(useed []byte, k int, kind string, txid []byte) ([]byte, bool) {
	switch kind {
	case "ok", "skey", "scc":
		return ed25519.Sign(c28Key(useed, k), txid), true
	case "bad":
		s := ed25519.Sign(c28Key(useed, k), txid)
		s[17] ^= 0x20
		return s, true
	case "omsg":
		other := blake2b.Sum256(append([]byte("other"), txid...))
		return ed25519.Sign(c28Key(useed, k), other[:]), true
	case "okey":
		return ed25519.Sign(c28Key(useed, k+1), txid), true
	case "ssig":
		return ed25519.Sign(c28Key(useed, k), txid)[:63], true
	}
	return nil, false
}

func runC28(op string) string {
	secs := strings.Split(op, "|")
	if len(secs) != 7 {
		return "bad-op"
	}
	head := strings.Fields(secs[0])
	if len(head) != 3 || head[0] != "wit" {
		return "bad-op"
	}
	era := head[1]
	// "+nc1" / "+nc2": the body is re-encoded non-canonically (map header in its 1- / 2-byte
	// length form) before anything is hashed or signed: the tx id is the hash of THOSE bytes
	// "+inv": is_valid = false (Alonzo and later)
	nc := ""
	inv := false
	if parts := strings.Split(era, "+"); len(parts) > 1 {
		era = parts[0]
		for _, m := range parts[1:] {
			switch m {
			case "nc1", "nc2":
				if nc != "" {
					return "bad-op"
				}
				nc = m
			case "inv":
				if inv {
					return "bad-op"
				}
				inv = true
			default:
				return "bad-op"
			}
		}
	}
	useed, ok := unhex(head[2])
	if !ok {
		return "bad-op"
	}
	insT, ok1 := c28Section("in", secs[1])
	collT, ok2 := c28Section("coll", secs[2])
	reqT, ok3 := c28Section("req", secs[3])
	wdT, ok4 := c28Section("wd", secs[4])
	vkT, ok5 := c28Section("vk", secs[5])
	bwT, ok6 := c28Section("bw", secs[6])
	if !ok1 || !ok2 || !ok3 || !ok4 || !ok5 || !ok6 {
		return "bad-op"
	}
	hasAlonzo := false
	switch era {
	case "shelley", "allegra", "mary":
	case "alonzo", "babbage", "conway", "dijkstra":
		hasAlonzo = true
	default:
		return "bad-op"
	}
	if !hasAlonzo && (len(collT) > 0 || len(reqT) > 0) {
		return "bad-op"
	}
	if inv && (!hasAlonzo || era == "dijkstra") {
		return "bad-op"
	}
	// ---- UTxOs and inputs
	var utxos []common.Utxo
	mkInputs := func(toks []string, base int) ([]any, bool) {
		var list []any
		for i, tk := range toks {
			// "=j" (collateral only): the very UTxO that input j spends
			if base == 2 && strings.HasPrefix(tk, "=") {
				j, err := strconv.Atoi(tk[1:])
				if err != nil || j < 0 || j >= len(insT) {
					return nil, false
				}
				txh := blake2b.Sum256([]byte(fmt.Sprintf("utxo-%d-%d", 1, j)))
				list = append(list, []any{txh[:], uint64(j)})
				continue
			}
			o, ok := c28ParseOwner(tk)
			if !ok {
				return nil, false
			}
			txh := blake2b.Sum256([]byte(fmt.Sprintf("utxo-%d-%d", base, i)))
			list = append(list, []any{txh[:], uint64(i)})
			if o.kind == 'M' {
				continue
			}
			var addr common.Address
			var err error
			switch o.kind {
			case 'K':
				pk := c28Key(useed, o.k).Public().(ed25519.PublicKey)
				h := common.Blake2b224Hash(pk)
				addr, err = common.NewAddressFromParts(common.AddressTypeKeyNone, common.AddressNetworkMainnet, h.Bytes(), nil)
			case 'S':
				h := common.Blake2b224Hash([]byte(fmt.Sprintf("script-%d", o.k)))
				addr, err = common.NewAddressFromParts(common.AddressTypeScriptNone, common.AddressNetworkMainnet, h.Bytes(), nil)
			case 'B':
				pk := c28Key(useed, o.k).Public().(ed25519.PublicKey)
				root := c28ByronRoot(pk, c28CC(useed, o.c), c28Attrs(o.a))
				addr, err = common.NewByronAddressFromParts(common.ByronAddressTypePubkey, root, common.ByronAddressAttributes{})
			}
			if err != nil {
				return nil, false
			}
			in := shelley.NewShelleyTransactionInput(fmt.Sprintf("%x", txh[:]), i)
			utxos = append(utxos, common.Utxo{Id: in, Output: shelley.ShelleyTransactionOutput{OutputAddress: addr, OutputAmount: 2000000}})
		}
		return list, true
	}
	ins, okA := mkInputs(insT, 1)
	coll, okB := mkInputs(collT, 2)
	if !okA || !okB {
		return "bad-op"
	}
	// ---- body
	outAddr, _ := common.NewAddressFromParts(common.AddressTypeKeyNone, common.AddressNetworkMainnet, make([]byte, 28), nil)
	outAddrBytes, _ := outAddr.Bytes()
	body := map[uint]any{
		1: []any{[]any{outAddrBytes, uint64(1000000)}},
		2: uint64(200000),
	}
	if len(ins) > 0 {
		body[0] = ins
	} else {
		body[0] = []any{}
	}
	if len(coll) > 0 {
		body[13] = coll
	}
	if len(reqT) > 0 {
		var req []any
		for _, tk := range reqT {
			k, err := strconv.Atoi(tk)
			if err != nil || k < 0 {
				return "bad-op"
			}
			h := common.Blake2b224Hash(c28Key(useed, k).Public().(ed25519.PublicKey))
			req = append(req, h.Bytes())
		}
		body[14] = req
	}
	if len(wdT) > 0 {
		wd := map[cbor.ByteString]uint64{}
		for i, tk := range wdT {
			if len(tk) < 2 {
				return "bad-op"
			}
			n, err := strconv.Atoi(tk[1:])
			if err != nil || n < 0 {
				return "bad-op"
			}
			var a common.Address
			switch tk[0] {
			case 'K':
				h := common.Blake2b224Hash(c28Key(useed, n).Public().(ed25519.PublicKey))
				a, err = common.NewAddressFromParts(common.AddressTypeNoneKey, common.AddressNetworkMainnet, nil, h.Bytes())
			case 'S':
				h := common.Blake2b224Hash([]byte(fmt.Sprintf("stake-script-%d", n)))
				a, err = common.NewAddressFromParts(common.AddressTypeNoneScript, common.AddressNetworkMainnet, nil, h.Bytes())
			default:
				return "bad-op"
			}
			if err != nil {
				return "addr-err " + err.Error()
			}
			ab, _ := a.Bytes()
			wd[cbor.NewByteString(ab)] = uint64(1000 + i)
		}
		body[5] = wd
	}
	bodyBytes, err := cbor.Encode(body)
	if err != nil {
		return "encode-err " + err.Error()
	}
	if nc != "" {
		if bodyBytes[0] < 0xa0 || bodyBytes[0] > 0xb7 {
			return "encode-err unexpected body header"
		}
		n := bodyBytes[0] - 0xa0
		if nc == "nc1" {
			bodyBytes = append([]byte{0xb8, n}, bodyBytes[1:]...)
		} else {
			bodyBytes = append([]byte{0xb9, 0x00, n}, bodyBytes[1:]...)
		}
	}
	txid := blake2b.Sum256(bodyBytes)
	// ---- witnesses
	wits := map[uint]any{}
	var vks []any
	for _, tk := range vkT {
		p := strings.Split(tk, ":")
		if len(p) != 2 || p[1] == "scc" {
			return "bad-op"
		}
		k, err := strconv.Atoi(p[0])
		if err != nil || k < 0 {
			return "bad-op"
		}
		sig, ok := c28SigBytes(useed, k, p[1], txid[:])
		if !ok {
			return "bad-op"
		}
		pk := []byte(c28Key(useed, k).Public().(ed25519.PublicKey))
		if p[1] == "skey" {
			pk = pk[:31]
		}
		vks = append(vks, []any{pk, sig})
	}
	if len(vks) > 0 {
		wits[0] = vks
	}
	var bws []any
	for _, tk := range bwT {
		p := strings.Split(tk, ":")
		if len(p) != 2 {
			return "bad-op"
		}
		q := strings.Split(p[0], ".")
		if len(q) != 3 {
			return "bad-op"
		}
		k, e1 := strconv.Atoi(q[0])
		c, e2 := strconv.Atoi(q[1])
		a, e3 := strconv.Atoi(q[2])
		if e1 != nil || e2 != nil || e3 != nil || k < 0 || c < 0 || a < 0 || a > 1 {
			return "bad-op"
		}
		sig, ok := c28SigBytes(useed, k, p[1], txid[:])
		if !ok {
			return "bad-op"
		}
		pk := []byte(c28Key(useed, k).Public().(ed25519.PublicKey))
		if p[1] == "skey" {
			pk = pk[:31]
		}
		cc := c28CC(useed, c)
		if p[1] == "scc" {
			cc = cc[:31]
		}
		bws = append(bws, []any{pk, sig, cc, c28Attrs(a)})
	}
	if len(bws) > 0 {
		wits[2] = bws
	}
	witBytes, err := cbor.Encode(wits)
	if err != nil {
		return "encode-err " + err.Error()
	}
	var txBytes []byte
	if hasAlonzo {
		txBytes = append([]byte{0x84}, bodyBytes...)
		txBytes = append(txBytes, witBytes...)
		if inv {
			txBytes = append(txBytes, 0xf4, 0xf6)
		} else {
			txBytes = append(txBytes, 0xf5, 0xf6)
		}
	} else {
		txBytes = append([]byte{0x83}, bodyBytes...)
		txBytes = append(txBytes, witBytes...)
		txBytes = append(txBytes, 0xf6)
	}
	var tx common.Transaction
	var rules [3]common.UtxoValidationRuleFunc
	switch era {
	case "shelley":
		t, e := shelley.NewShelleyTransactionFromCbor(txBytes)
		tx, err = t, e
		rules = [3]common.UtxoValidationRuleFunc{shelley.UtxoValidateSignatures, nil, shelley.UtxoValidateRequiredVKeyWitnesses}
	case "allegra":
		t, e := allegra.NewAllegraTransactionFromCbor(txBytes)
		tx, err = t, e
		rules = [3]common.UtxoValidationRuleFunc{allegra.UtxoValidateSignatures, nil, allegra.UtxoValidateRequiredVKeyWitnesses}
	case "mary":
		t, e := mary.NewMaryTransactionFromCbor(txBytes)
		tx, err = t, e
		rules = [3]common.UtxoValidationRuleFunc{mary.UtxoValidateSignatures, nil, mary.UtxoValidateRequiredVKeyWitnesses}
	case "alonzo":
		t, e := alonzo.NewAlonzoTransactionFromCbor(txBytes)
		tx, err = t, e
		rules = [3]common.UtxoValidationRuleFunc{alonzo.UtxoValidateSignatures, alonzo.UtxoValidateCollateralVKeyWitnesses, alonzo.UtxoValidateRequiredVKeyWitnesses}
	case "babbage":
		t, e := babbage.NewBabbageTransactionFromCbor(txBytes)
		tx, err = t, e
		rules = [3]common.UtxoValidationRuleFunc{babbage.UtxoValidateSignatures, babbage.UtxoValidateCollateralVKeyWitnesses, babbage.UtxoValidateRequiredVKeyWitnesses}
	case "conway":
		t, e := conway.NewConwayTransactionFromCbor(txBytes)
		tx, err = t, e
		rules = [3]common.UtxoValidationRuleFunc{conway.UtxoValidateSignatures, conway.UtxoValidateCollateralVKeyWitnesses, conway.UtxoValidateRequiredVKeyWitnesses}
	case "dijkstra":
		// the Dijkstra rule list uses the Conway rule functions (GV.Props.C28.rules_listed)
		t, e := dijkstra.NewDijkstraTransactionFromCbor(txBytes)
		tx, err = t, e
		rules = [3]common.UtxoValidationRuleFunc{conway.UtxoValidateSignatures, conway.UtxoValidateCollateralVKeyWitnesses, conway.UtxoValidateRequiredVKeyWitnesses}
	}
	if err != nil {
		return "decode-err"
	}
	if got := tx.Hash(); string(got.Bytes()) != string(txid[:]) {
		return "txid-mismatch"
	}
	if tx.IsValid() == inv {
		return "isvalid-mismatch"
	}
	ls := mockledger.NewLedgerStateBuilder().WithUtxos(utxos).Build()
	res := [3]int{1, 1, 1}
	stage := "-"
	for i, rule := range rules {
		if rule == nil {
			continue
		}
		if e := safeRule(rule, tx, 0, ls, nil); e != nil {
			res[i] = 0
			if i == 0 {
				m := e.Error()
				switch {
				case strings.Contains(m, "invalid vkey signature"):
					stage = "vk"
				case strings.Contains(m, "bootstrap public key size"), strings.Contains(m, "bootstrap signature"):
					stage = "bw"
				case strings.Contains(m, "missing"):
					stage = "in"
				default:
					stage = "other:" + m
				}
			}
		}
	}
	return fmt.Sprintf("acc=%d sig=%d coll=%d req=%d | stage=%s", res[0]&res[1]&res[2], res[0], res[1], res[2], stage)
}

// ---- generator

func genC28(r *Rand, n int, tier string, emit func(string)) {
	eras := []string{"shelley", "allegra", "mary", "alonzo", "babbage", "conway", "dijkstra"}
	useeds := []string{hexs(r.Bytes(8)), hexs(r.Bytes(8)), hexs(r.Bytes(8))}
	for i := 0; i < n; i++ {
		era := eras[r.Intn(len(eras))]
		hasAlonzo := era == "alonzo" || era == "babbage" || era == "conway" || era == "dijkstra"
		nk := 2 + r.Intn(5) // key universe 0..nk-1
		type owner struct {
			tok  string
			k    int
			kind byte
			c, a int
		}
		mkOwner := func(collateral bool) owner {
			x := r.Intn(10)
			switch {
			case x < 6:
				k := r.Intn(nk)
				return owner{fmt.Sprintf("K%d", k), k, 'K', 0, 0}
			case x < 7:
				return owner{fmt.Sprintf("S%d", r.Intn(3)), 0, 'S', 0, 0}
			case x < 9:
				k, c, a := r.Intn(nk), r.Intn(2), r.Intn(2)
				return owner{fmt.Sprintf("B%d.%d.%d", k, c, a), k, 'B', c, a}
			default:
				return owner{"M", 0, 'M', 0, 0}
			}
		}
		var ins, coll []owner
		for j, m := 0, Pick(r, 0, 1, 1, 2, 3, 5); j < m; j++ {
			ins = append(ins, mkOwner(false))
		}
		if hasAlonzo && r.Chance(1, 2) {
			for j, m := 0, Pick(r, 1, 1, 2, 3); j < m; j++ {
				o := mkOwner(true)
				if r.Chance(2, 3) && o.kind != 'K' {
					k := r.Intn(nk)
					o = owner{fmt.Sprintf("K%d", k), k, 'K', 0, 0}
				}
				coll = append(coll, o)
			}
		}
		// collateral that is also spent: the same UTxO in both sets, whatever locks it
		overlap := map[int]int{} // collateral position -> input index
		if hasAlonzo && len(ins) > 0 && r.Chance(1, 3) {
			if len(coll) == 0 || r.Chance(1, 2) {
				coll = append(coll, owner{})
			}
			for cj := range coll {
				if cj == len(coll)-1 || r.Chance(1, 3) {
					ij := r.Intn(len(ins))
					if r.Chance(1, 3) { // a script-locked UTxO offered as collateral and spent
						ins[ij] = owner{fmt.Sprintf("S%d", r.Intn(3)), 0, 'S', 0, 0}
					}
					overlap[cj] = ij
					coll[cj] = ins[ij]
					coll[cj].tok = fmt.Sprintf("=%d", ij)
				}
			}
		}
		var req []int
		if hasAlonzo && r.Chance(1, 3) {
			for j, m := 0, 1+r.Intn(2); j < m; j++ {
				req = append(req, r.Intn(nk))
			}
		}
		var wd []string
		var wdKeys []int
		if r.Chance(1, 4) {
			for j, m := 0, 1+r.Intn(2); j < m; j++ {
				if r.Chance(3, 4) {
					k := r.Intn(nk)
					wd = append(wd, fmt.Sprintf("K%d", k))
					wdKeys = append(wdKeys, k)
				} else {
					wd = append(wd, fmt.Sprintf("S%d", r.Intn(3)))
				}
			}
		}
		// start from the complete, genuine witness set, then disturb it
		needVk := map[int]bool{}
		type bkey struct{ k, c, a int }
		needBw := map[bkey]bool{}
		for _, o := range ins {
			if o.kind == 'K' {
				needVk[o.k] = true
			}
			if o.kind == 'B' {
				needBw[bkey{o.k, o.c, o.a}] = true
			}
		}
		for _, o := range coll {
			if o.kind == 'K' {
				needVk[o.k] = true
			}
		}
		for _, k := range req {
			needVk[k] = true
		}
		for _, k := range wdKeys {
			needVk[k] = true
		}
		var vk, bw []string
		for k := 0; k < nk+1; k++ {
			if needVk[k] {
				vk = append(vk, fmt.Sprintf("%d:ok", k))
			}
		}
		for k := 0; k < nk; k++ {
			for c := 0; c < 2; c++ {
				for a := 0; a < 2; a++ {
					if needBw[bkey{k, c, a}] {
						bw = append(bw, fmt.Sprintf("%d.%d.%d:ok", k, c, a))
					}
				}
			}
		}
		kinds := []string{"bad", "omsg", "okey", "ssig", "skey"}
		nd := Pick(r, 0, 0, 1, 1, 1, 2, 3)
		for d := 0; d < nd; d++ {
			switch r.Intn(9) {
			case 0: // drop a vkey witness
				if len(vk) > 0 {
					j := r.Intn(len(vk))
					vk = append(vk[:j], vk[j+1:]...)
				}
			case 1: // corrupt a vkey witness
				if len(vk) > 0 {
					j := r.Intn(len(vk))
					vk[j] = strings.Split(vk[j], ":")[0] + ":" + kinds[r.Intn(len(kinds))]
				}
			case 2: // valid but unrelated extra witness
				vk = append(vk, fmt.Sprintf("%d:ok", nk+1+r.Intn(3)))
			case 3: // corrupted unrelated extra witness
				vk = append(vk, fmt.Sprintf("%d:%s", nk+1+r.Intn(3), kinds[r.Intn(len(kinds))]))
			case 4: // drop a bootstrap witness
				if len(bw) > 0 {
					j := r.Intn(len(bw))
					bw = append(bw[:j], bw[j+1:]...)
				}
			case 5: // corrupt a bootstrap witness
				if len(bw) > 0 {
					j := r.Intn(len(bw))
					bw[j] = strings.Split(bw[j], ":")[0] + ":" + Pick(r, "bad", "omsg", "okey", "ssig", "skey", "scc")
				}
			case 6: // bootstrap witness with the wrong chain code / attributes for a Byron input
				if len(bw) > 0 {
					j := r.Intn(len(bw))
					p := strings.Split(strings.Split(bw[j], ":")[0], ".")
					if r.Bool() {
						p[1] = fmt.Sprintf("%d", 1-int(p[1][0]-'0'))
					} else {
						p[2] = fmt.Sprintf("%d", 1-int(p[2][0]-'0'))
					}
					bw[j] = strings.Join(p, ".") + ":ok"
				}
			case 7: // a vkey witness for the key of a Byron input instead of the bootstrap witness
				for _, o := range ins {
					if o.kind == 'B' {
						vk = append(vk, fmt.Sprintf("%d:ok", o.k))
						break
					}
				}
			default: // duplicate a witness
				if len(vk) > 0 {
					vk = append(vk, vk[r.Intn(len(vk))])
				}
			}
		}
		// shuffle witness order
		for j := len(vk) - 1; j > 0; j-- {
			k := r.Intn(j + 1)
			vk[j], vk[k] = vk[k], vk[j]
		}
		toks := func(os []owner) string {
			var s []string
			for _, o := range os {
				s = append(s, o.tok)
			}
			return strings.Join(s, " ")
		}
		reqS := []string{}
		for _, k := range req {
			reqS = append(reqS, strconv.Itoa(k))
		}
		if r.Chance(1, 4) {
			era += Pick(r, "+nc1", "+nc2")
		}
		// every witness scenario also with is_valid = false
		if hasAlonzo && !strings.HasPrefix(era, "dijkstra") && r.Chance(1, 3) {
			era += "+inv"
		}
		emit(fmt.Sprintf("wit %s %s | in %s | coll %s | req %s | wd %s | vk %s | bw %s",
			era, useeds[r.Intn(len(useeds))], toks(ins), toks(coll), strings.Join(reqS, " "), strings.Join(wd, " "),
			strings.Join(vk, " "), strings.Join(bw, " ")))
	}
}
