package main

// C31 — script data hash.
//   lv <used|-> <cm|->                          common.EncodeLangViews directly
//   sdh <era> <red|-> <nred> <dat|-> <ndat> <used|-> <cm|-> <decl|-> <ipre> <ih>
//        a transaction is assembled in CBOR (witness-set fields 5 / 4 carry <red> / <dat>
//        verbatim, dummy Plutus scripts for the used languages, body field 11 = <decl>), decoded
//        with the era decoder and run through the era's rule list.
//        <ipre> = the pre-image built by the generator's own implementation of the ledger
//        encoding, <ih> = its Blake2b-256 (x/crypto): the model never hashes.
//   cm = cost models "v:i;i;i|v:i;i", used = "0,1,2"

import (
	"bytes"
	"errors"
	"fmt"
	"reflect"
	"runtime"
	"strconv"
	"strings"
	"time"

	"github.com/blinklabs-io/gouroboros/ledger/alonzo"
	"github.com/blinklabs-io/gouroboros/ledger/babbage"
	"github.com/blinklabs-io/gouroboros/ledger/common"
	"github.com/blinklabs-io/gouroboros/ledger/conway"
	"github.com/blinklabs-io/gouroboros/ledger/dijkstra"
	"github.com/blinklabs-io/gouroboros/ledger/shelley"
	mockledger "github.com/blinklabs-io/ouroboros-mock/ledger"
)

func init() {
	register(&Prop{ID: "C31", Gen: genC31, Run: runC31, Timeout: 10 * time.Minute})
}

func c31ParseUsed(s string) (map[uint]struct{}, []uint, bool) {
	m := map[uint]struct{}{}
	l := []uint{}
	for _, x := range g9SplitList(s) {
		v, err := strconv.ParseUint(x, 10, 32)
		if err != nil {
			return nil, nil, false
		}
		if _, dup := m[uint(v)]; dup {
			return nil, nil, false
		}
		m[uint(v)] = struct{}{}
		l = append(l, uint(v))
	}
	return m, l, true
}

// c31ParseUsedDup: like c31ParseUsed but repeated versions are allowed (several UTxOs may carry
// scripts of the same language)
func c31ParseUsedDup(s string) (map[uint]struct{}, []uint, bool) {
	m := map[uint]struct{}{}
	l := []uint{}
	for _, x := range g9SplitList(s) {
		v, err := strconv.ParseUint(x, 10, 32)
		if err != nil {
			return nil, nil, false
		}
		m[uint(v)] = struct{}{}
		l = append(l, uint(v))
	}
	return m, l, true
}

func c31ParseCM(s string) (map[uint][]int64, bool) {
	m := map[uint][]int64{}
	if s == "-" {
		return m, true
	}
	for _, e := range strings.Split(s, "|") {
		p := strings.Split(e, ":")
		if len(p) != 2 {
			return nil, false
		}
		v, err := strconv.ParseUint(p[0], 10, 32)
		if err != nil {
			return nil, false
		}
		vals := []int64{}
		if p[1] != "" {
			for _, x := range strings.Split(p[1], ";") {
				i, err := strconv.ParseInt(x, 10, 64)
				if err != nil {
					return nil, false
				}
				vals = append(vals, i)
			}
		}
		m[uint(v)] = vals
	}
	return m, true
}

// ---- independent implementation of the ledger's language-views encoding

func c31Int(i int64) []byte {
	if i >= 0 {
		return g9Head(0, uint64(i))
	}
	return g9Head(1, uint64(-1-i))
}

func c31LangViews(used map[uint]struct{}, cm map[uint][]int64) ([]byte, bool) {
	var body []byte
	n := 0
	for _, v := range []uint{1, 2, 3, 0} { // canonical: shorter key first, then bytewise
		if _, ok := used[v]; !ok {
			continue
		}
		m, ok := cm[v]
		if !ok {
			return nil, false
		}
		n++
		var ints []byte
		for _, x := range m {
			ints = append(ints, c31Int(x)...)
		}
		if v == 0 {
			body = append(body, 0x41, 0x00)
			inner := append(append([]byte{0x9f}, ints...), 0xff)
			body = append(body, g9Bytes(inner)...)
		} else {
			body = append(body, byte(v))
			body = append(body, g9Head(4, uint64(len(m)))...)
			body = append(body, ints...)
		}
	}
	return append([]byte{0xa0 + byte(n)}, body...), true
}

func runC31(op string) string {
	f := strings.Fields(op)
	if len(f) == 0 {
		return "bad-op"
	}
	switch f[0] {
	case "lv":
		if len(f) != 3 {
			return "bad-op"
		}
		used, _, ok1 := c31ParseUsed(f[1])
		cm, ok2 := c31ParseCM(f[2])
		if !ok1 || !ok2 {
			return "bad-op"
		}
		b, err := common.EncodeLangViews(used, cm)
		if err != nil {
			// which of several errors is reported depends on the map iteration order
			return "err"
		}
		return hexs(b)
	case "sdh":
		if len(f) != 11 && len(f) != 13 {
			return "bad-op"
		}
		era := f[1]
		// optional: Plutus versions of the scripts carried by reference-input UTxOs and by
		// spent-input UTxOs (reference scripts)
		var refL, inL []uint
		if len(f) == 13 {
			var okr, oki bool
			_, refL, okr = c31ParseUsedDup(f[11])
			_, inL, oki = c31ParseUsedDup(f[12])
			if !okr || !oki || era == "alonzo" {
				return "bad-op"
			}
		}
		red, ok1 := unhex(f[2])
		nred, e1 := strconv.Atoi(f[3])
		dat, ok2 := unhex(f[4])
		ndat, e2 := strconv.Atoi(f[5])
		_, usedL, ok3 := c31ParseUsed(f[6])
		cm, ok4 := c31ParseCM(f[7])
		ipre, ok5 := unhex(f[9])
		ih, ok6 := unhex(f[10])
		if !ok1 || !ok2 || !ok3 || !ok4 || !ok5 || !ok6 || e1 != nil || e2 != nil {
			return "bad-op"
		}
		if !bytes.Equal(ih, g9Blake256(ipre)) {
			return "bad-op"
		}
		utxos := []common.Utxo{}
		mkIns := func(vs []uint, base byte) [][]byte {
			out := [][]byte{}
			for i, v := range vs {
				id := bytes.Repeat([]byte{base + byte(i)}, 32)
				out = append(out, g9Array(g9Bytes(id), g9Uint(uint64(i))))
				var sc common.Script
				raw := []byte{0x4e, 0x4d, 0x01, 0x00, 0x00, 0x33, 0x22, 0x22, 0x20, 0x05, 0x12, 0x00, 0x12, 0x00, 0x11}
				switch v {
				case 0:
					sc = common.PlutusV1Script(raw)
				case 1:
					sc = common.PlutusV2Script(raw)
				case 2:
					sc = common.PlutusV3Script(raw)
				default:
					sc = common.PlutusV4Script(raw)
				}
				utxos = append(utxos, common.Utxo{
					Id:     shelley.NewShelleyTransactionInput(hexs(id), i),
					Output: &babbage.BabbageTransactionOutput{TxOutScriptRef: &common.ScriptRef{Type: v + 1, Script: sc}},
				})
			}
			return out
		}
		body := [][]byte{g9Uint(0), g9Array(mkIns(inL, 0x10)...), g9Uint(1), g9Array(), g9Uint(2), g9Uint(0)}
		if f[8] != "-" {
			d, ok := unhex(f[8])
			if !ok || len(d) != 32 {
				return "bad-op"
			}
			body = append(body, g9Uint(11), g9Bytes(d))
		}
		if len(refL) > 0 {
			body = append(body, g9Uint(18), g9Array(mkIns(refL, 0x40)...))
		}
		ws := [][]byte{}
		script := g9Bytes([]byte{0x4e, 0x4d, 0x01, 0x00, 0x00, 0x33, 0x22, 0x22, 0x20, 0x05, 0x12, 0x00, 0x12, 0x00, 0x11})
		has := func(v uint) bool {
			for _, x := range usedL {
				if x == v {
					return true
				}
			}
			return false
		}
		maxV, okEra := map[string]uint{"alonzo": 0, "babbage": 1, "conway": 2, "dijkstra": 3}[era]
		if !okEra {
			return "bad-op"
		}
		for _, v := range usedL {
			if v > maxV {
				return "bad-op"
			}
		}
		for _, v := range append(append([]uint{}, refL...), inL...) {
			if v > maxV {
				return "bad-op"
			}
		}
		if has(0) {
			ws = append(ws, g9Uint(3), g9Array(script))
		}
		if f[4] != "-" {
			ws = append(ws, g9Uint(4), dat)
		}
		if f[2] != "-" {
			ws = append(ws, g9Uint(5), red)
		}
		if has(1) {
			ws = append(ws, g9Uint(6), g9Array(script))
		}
		if has(2) {
			ws = append(ws, g9Uint(7), g9Array(script))
		}
		if has(3) {
			ws = append(ws, g9Uint(8), g9Array(script))
		}
		txb := g9Array(g9Map(body...), g9Map(ws...), []byte{0xf5}, []byte{0xf6})
		var tx common.Transaction
		var rules []common.UtxoValidationRuleFunc
		var pp common.ProtocolParameters
		var derr error
		gotRed, gotDat := -1, -1
		switch era {
		case "alonzo":
			t, err := alonzo.NewAlonzoTransactionFromCbor(txb)
			derr = err
			if err == nil {
				tx = t
				gotRed = len(t.WitnessSet.WsRedeemers.Redeemers)
				gotDat = len(t.WitnessSet.WsPlutusData.Items)
			}
			rules = alonzo.UtxoValidationRules
			pp = &alonzo.AlonzoProtocolParameters{CostModels: cm}
		case "babbage":
			t, err := babbage.NewBabbageTransactionFromCbor(txb)
			derr = err
			if err == nil {
				tx = t
				gotRed = len(t.WitnessSet.WsRedeemers.Redeemers)
				gotDat = len(t.WitnessSet.WsPlutusData.Items)
			}
			rules = babbage.UtxoValidationRules
			pp = &babbage.BabbageProtocolParameters{CostModels: cm}
		case "conway":
			t, err := conway.NewConwayTransactionFromCbor(txb)
			derr = err
			if err == nil {
				tx = t
				gotRed = t.WitnessSet.WsRedeemers.Len()
				gotDat = len(t.WitnessSet.WsPlutusData.Items())
			}
			rules = conway.UtxoValidationRules
			pp = &conway.ConwayProtocolParameters{CostModels: cm}
		case "dijkstra":
			t, err := dijkstra.NewDijkstraTransactionFromCbor(txb)
			derr = err
			if err == nil {
				tx = t
				gotRed = t.WitnessSet.WsRedeemers.Len()
				gotDat = len(t.WitnessSet.WsPlutusData.Items())
			}
			rules = dijkstra.UtxoValidationRules
			dp := &dijkstra.DijkstraProtocolParameters{}
			dp.CostModels = cm
			pp = dp
		default:
			return "bad-op"
		}
		if derr != nil {
			return "decode-err"
		}
		if gotRed != nred || gotDat != ndat {
			return fmt.Sprintf("bad-op counts red=%d dat=%d", gotRed, gotDat)
		}
		ls := mockledger.NewLedgerStateBuilder().WithUtxos(utxos).Build()
		res := "ok"
		found := false
		for _, rule := range rules {
			// only the era's script-data-hash rule, taken from the era's rule list
			if !strings.HasSuffix(runtime.FuncForPC(reflect.ValueOf(rule).Pointer()).Name(), ".UtxoValidateScriptDataHash") {
				continue
			}
			found = true
			err := g9SafeRule(rule, tx, 50, ls, pp)
			if err == nil {
				continue
			}
			var e1 common.ExtraneousScriptDataHashError
			var e2 common.MissingScriptDataHashError
			var e3 common.ScriptDataHashMismatchError
			var e4 common.MissingCostModelError
			switch {
			case errors.As(err, &e1):
				res = "extraneous"
			case errors.As(err, &e2):
				res = "missing"
			case errors.As(err, &e3):
				res = "mismatch"
			case errors.As(err, &e4):
				res = "missing-cm"
			default:
				res = "err"
			}
		}
		if !found {
			return "rule-not-listed"
		}
		return "res=" + res
	}
	return "bad-op"
}

// ---- generator

func c31CMString(cm map[uint][]int64, order []uint) string {
	parts := []string{}
	for _, v := range order {
		m, ok := cm[v]
		if !ok {
			continue
		}
		xs := make([]string, len(m))
		for i, x := range m {
			xs[i] = strconv.FormatInt(x, 10)
		}
		parts = append(parts, fmt.Sprintf("%d:%s", v, strings.Join(xs, ";")))
	}
	if len(parts) == 0 {
		return "-"
	}
	return strings.Join(parts, "|")
}

func c31CostModel(r *Rand) []int64 {
	n := Pick(r, 0, 1, 2, 5, 23, 24, 25, 166, 175, 251, 256, 300)
	if r.Chance(1, 3) {
		n = r.Intn(12)
	}
	m := make([]int64, n)
	for i := range m {
		switch r.Intn(8) {
		case 0:
			m[i] = int64(r.EdgeU64() >> 1)
		case 1:
			m[i] = -int64(r.EdgeU64()>>1) - 1
		case 2:
			m[i] = Pick(r, int64(0), 23, 24, 255, 256, 65535, 65536, 4294967295, 4294967296, 9223372036854775807, -1, -24, -25, -256, -257, -9223372036854775808)
		default:
			m[i] = int64(r.Intn(100000))
		}
	}
	return m
}

func c31Data(r *Rand) []byte {
	return Pick(r, []byte{0x01}, []byte{0x41, 0x01}, []byte{0xd8, 0x79, 0x80}, []byte{0x9f, 0x01, 0xff}, []byte{0x18, 0x2a}, []byte{0xa1, 0x01, 0x02}, []byte{0x40})
}

func c31Redeemers(r *Rand, era string, n int) []byte {
	items := [][]byte{}
	kv := [][]byte{}
	for i := 0; i < n; i++ {
		ex := g9Array(g9Uint(uint64(r.Intn(1000))), g9Uint(uint64(r.Intn(100000))))
		items = append(items, g9Array(g9Uint(uint64(r.Intn(4))), g9Uint(uint64(i)), c31Data(r), ex))
		kv = append(kv, g9Array(g9Uint(uint64(r.Intn(4))), g9Uint(uint64(i))), g9Array(c31Data(r), ex))
	}
	// Dijkstra decodes the map form only; Conway both
	if era == "dijkstra" || (era == "conway" && r.Chance(2, 3)) {
		return g9Map(kv...)
	}
	if r.Chance(1, 5) {
		return g9IndefArray(items...)
	}
	return g9Array(items...)
}

func c31Datums(r *Rand, era string, n int) []byte {
	items := [][]byte{}
	for i := 0; i < n; i++ {
		d := c31Data(r)
		if era == "conway" || era == "dijkstra" {
			// set semantics: keep items distinct
			d = append([]byte{0x18}, byte(30+i))
		}
		items = append(items, d)
	}
	arr := g9Array(items...)
	if r.Chance(1, 5) {
		arr = g9IndefArray(items...)
	}
	if (era == "conway" || era == "dijkstra") && r.Chance(1, 2) && n > 0 {
		return append([]byte{0xd9, 0x01, 0x02}, arr...)
	}
	return arr
}

func genC31(r *Rand, n int, tier string, emit func(string)) {
	eras := []string{"alonzo", "babbage", "conway", "dijkstra"}
	for i := 0; i < n; i++ {
		if r.Chance(1, 4) {
			// direct: any subset of versions (also unsupported ones), shuffled cost-model listing
			used := []uint{}
			for v := uint(0); v < 4; v++ {
				if r.Bool() {
					used = append(used, v)
				}
			}
			if r.Chance(1, 15) {
				used = append(used, uint(4+r.Intn(3)))
			}
			c06Shuffle(r, used)
			cm := map[uint][]int64{}
			for v := uint(0); v < 4; v++ {
				if !r.Chance(1, 10) {
					cm[v] = c31CostModel(r)
				}
			}
			us := make([]string, len(used))
			for k, v := range used {
				us[k] = fmt.Sprint(v)
			}
			u := "-"
			if len(us) > 0 {
				u = strings.Join(us, ",")
			}
			emit("lv " + u + " " + c31CMString(cm, []uint{3, 0, 2, 1}))
			continue
		}
		era := eras[r.Intn(4)]
		maxV := map[string]int{"alonzo": 0, "babbage": 1, "conway": 2, "dijkstra": 3}[era]
		usedM := map[uint]struct{}{}
		usedL := []uint{}
		refs, ins := []string{}, []string{}
		// placement mode: every language of a random non-empty subset is contributed by exactly ONE
		// place — witness set, a reference input, or a spent input (each reference/spent input is
		// its own UTxO) — in every order; so "the later reference script's language is contributed
		// by nothing else" and its relatives are generated as a class
		placed := r.Chance(1, 2)
		if placed {
			for v := 0; v <= maxV; v++ {
				if r.Chance(2, 3) || (v == maxV && len(usedM) == 0) {
					usedM[uint(v)] = struct{}{}
					src := 0
					if era != "alonzo" {
						src = Pick(r, 0, 1, 1, 1, 2)
					}
					switch src {
					case 0:
						usedL = append(usedL, uint(v))
					case 1:
						refs = append(refs, fmt.Sprint(v))
						if r.Chance(1, 5) { // the same language on a second reference input
							refs = append(refs, fmt.Sprint(v))
						}
					default:
						ins = append(ins, fmt.Sprint(v))
					}
				}
			}
			c06Shuffle(r, refs)
			c06Shuffle(r, ins)
		} else {
			for v := 0; v <= maxV; v++ {
				if r.Chance(2, 3) {
					usedM[uint(v)] = struct{}{}
					usedL = append(usedL, uint(v))
				}
			}
		}
		c06Shuffle(r, usedL)
		// reference scripts: languages carried by reference-input / spent-input UTxOs (Babbage+)
		witOnly := append([]uint{}, usedL...)
		if !placed && era != "alonzo" && r.Chance(1, 3) {
			for k := 0; k < 1+r.Intn(3); k++ {
				v := uint(r.Intn(maxV + 1))
				if r.Bool() {
					refs = append(refs, fmt.Sprint(v))
				} else {
					ins = append(ins, fmt.Sprint(v))
				}
				usedM[v] = struct{}{}
			}
		}
		cm := map[uint][]int64{}
		for v := uint(0); v < 4; v++ {
			if placed || !r.Chance(1, 12) {
				cm[v] = c31CostModel(r)
			}
		}
		nred := Pick(r, 0, 0, 1, 1, 2)
		ndat := Pick(r, 0, 0, 1, 2)
		if placed && nred == 0 && ndat == 0 {
			// something to bind, so that the hash comparison is reached; datum-only is a class of
			// its own (absent redeemers are hashed as the era's empty structure)
			if r.Bool() {
				ndat = 1 + r.Intn(2)
			} else {
				nred = 1
			}
		}
		red := "-"
		var redB []byte
		// (the Dijkstra decoder refuses an empty redeemers structure: non-empty by its CDDL)
		if nred > 0 || (era != "dijkstra" && r.Chance(1, 3)) {
			redB = c31Redeemers(r, era, nred)
			red = hexs(redB)
		}
		dat := "-"
		var datB []byte
		if ndat > 0 || r.Chance(1, 4) {
			datB = c31Datums(r, era, ndat)
			dat = hexs(datB)
		}
		// independent pre-image
		lv, okLv := c31LangViews(usedM, cm)
		redPart := redB
		if red == "-" {
			if era == "conway" || era == "dijkstra" {
				redPart = []byte{0xa0}
			} else {
				redPart = []byte{0x80}
			}
		}
		ipre := append([]byte{}, redPart...)
		if ndat > 0 {
			ipre = append(ipre, datB...)
		}
		if okLv {
			ipre = append(ipre, lv...)
		}
		ih := g9Blake256(ipre)
		decl := "-"
		sel := r.Intn(8)
		if placed {
			// mostly: the right hash, or the hash of a near miss
			sel = Pick(r, 0, 1, 2, 2, 2, 2, 3, 3, 3)
		}
		switch sel {
		case 0:
		case 1:
			decl = hexs(r.Bytes(32))
		case 2:
			// hash of a near-miss pre-image
			alt := c31NearMiss(r, era, red == "-", redPart, datB, ndat, lv, usedM, cm)
			if !bytes.Equal(alt, ipre) {
				decl = hexs(g9Blake256(alt))
			}
		default:
			decl = hexs(ih)
		}
		us := make([]string, len(witOnly))
		for k, v := range witOnly {
			us[k] = fmt.Sprint(v)
		}
		u := "-"
		if len(us) > 0 {
			u = strings.Join(us, ",")
		}
		line := fmt.Sprintf("sdh %s %s %d %s %d %s %s %s %s %s", era, red, nred, dat, ndat, u, c31CMString(cm, []uint{0, 1, 2, 3}), decl, hexs(ipre), hexs(ih))
		if len(refs)+len(ins) > 0 {
			j := func(l []string) string {
				if len(l) == 0 {
					return "-"
				}
				return strings.Join(l, ",")
			}
			line += " " + j(refs) + " " + j(ins)
		}
		emit(line)
	}
}

// c31NearMiss: a pre-image that differs from the right one in one respect (its hash must be refused).
func c31NearMiss(r *Rand, era string, redAbsent bool, redPart, datB []byte, ndat int, lv []byte, usedM map[uint]struct{}, cm map[uint][]int64) []byte {
	withDat := func(b []byte) []byte {
		if ndat > 0 {
			return append(b, datB...)
		}
		return b
	}
	alt := append([]byte{}, redPart...)
	switch r.Intn(7) {
	case 0: // datums left out / put in although empty
		if ndat == 0 {
			alt = append(alt, datB...)
		}
		return append(alt, lv...)
	case 1: // language views left out
		return append(withDat(alt), 0xa0)
	case 2: // datums before redeemers
		alt = append(append([]byte{}, datB...), redPart...)
		return append(alt, lv...)
	case 3, 4:
		// language views of a different language set: one used language dropped, or one unused
		// language (with a cost model) added
		other := map[uint]struct{}{}
		for v := range usedM {
			other[v] = struct{}{}
		}
		ks := []uint{}
		for v := uint(0); v < 4; v++ {
			ks = append(ks, v)
		}
		c06Shuffle(r, ks)
		changed := false
		for _, v := range ks {
			_, in := other[v]
			_, hasCM := cm[v]
			if in && (r.Bool() || len(other) > 1) {
				delete(other, v)
				changed = true
				break
			}
			if !in && hasCM {
				other[v] = struct{}{}
				changed = true
				break
			}
		}
		if l2, ok := c31LangViews(other, cm); ok && changed {
			return append(withDat(alt), l2...)
		}
		return append(withDat(alt), 0xa0)
	case 5:
		// absent redeemers hashed as the other era's empty structure (80 <-> a0)
		if redAbsent {
			if alt[0] == 0xa0 {
				alt = []byte{0x80}
			} else {
				alt = []byte{0xa0}
			}
			return append(withDat(alt), lv...)
		}
		fallthrough
	default: // one byte of the language views flipped
		l2 := append([]byte{}, lv...)
		if len(l2) > 0 {
			l2[r.Intn(len(l2))] ^= 1
		}
		return append(withDat(alt), l2...)
	}
}
