package main

// C24 — tx-submission acknowledgement window.
//
// op "srv <step>..."  : the library's real txsubmission.Server against a raw
//                       scripted client. Steps:
//     b:<req>:<n>   blocking RequestTxIds(req); the peer replies n ids
//     n:<req>:<n>   non-blocking RequestTxIds(req); the peer replies n ids
//     b:<req>:done  blocking RequestTxIds(req); the peer answers Done (the
//                   server restarts; the peer sends Init again)
//     t:<k>         RequestTxs of k ids; the peer replies k bodies
//   output tokens (one per step):
//     w<ack>/<req>/<B|N>><n>   request seen on the wire with these counts, call returned n ids
//     w<ack>/<req>/B>D         ... call returned ErrStopServerProcess
//     X                        call refused (ErrProtocolViolationRequestExceeded), nothing on the wire
//     t<k>><k'>                RequestTxs of k ids seen, call returned k' bodies
//
// op "cli <step>..."  : the library's real txsubmission.Client against a raw
//                       scripted server. Steps:
//     <b|n>:<ack>:<req>:<k|stop|fail>   the peer sends MsgRequestTxIds with
//                   these wire integers (any size, "-1" = CBOR negative); the
//                   RequestTxIdsFunc callback answers k ids / ErrStopServerProcess / another error
//     t:<k>         RequestTxs with k ids, callback returns k bodies
//   output tokens:
//     c<ack>/<req>><k>   callback saw (ack,req), k ids came back
//     c<ack>/<req>>D     callback saw (ack,req), Done came back
//     c<ack>/<req>>E     callback ran, then the protocol failed
//     E                  protocol failed without running the callback
//     t<k>><k'>
//   the conversation ends at the first D or E.

import (
	"errors"
	"fmt"
	"os"
	"strconv"
	"strings"
	"sync"
	"time"

	"github.com/blinklabs-io/gouroboros/cbor"
	"github.com/blinklabs-io/gouroboros/protocol"
	"github.com/blinklabs-io/gouroboros/protocol/txsubmission"
)

func init() {
	register(&Prop{ID: "C24", Gen: genC24, Run: runC24, Timeout: 60 * time.Second})
}

const c24Id = txsubmission.ProtocolId
const c24Resp = txsubmission.ProtocolId | 0x8000

func genC24(r *Rand, n int, tier string, emit func(string)) {
	edgeReq := func() int64 {
		switch r.Intn(12) {
		case 0:
			return -1
		case 1:
			return 0
		case 2:
			return 65535
		case 3:
			return 65536
		case 4:
			return int64(r.EdgeU64() >> 1)
		case 6:
			return 65536 + int64(r.Intn(20)) // would wrap to a small count if converted unchecked
		case 7:
			return int64(65536*(1+r.Intn(3))) + int64(1+r.Intn(10))
		case 5:
			return -int64(r.EdgeU64() >> 1)
		default:
			return int64(1 + r.Intn(20))
		}
	}
	replyLen := func(req int64, big bool) int {
		switch r.Intn(10) {
		case 0:
			return 0
		case 1:
			if req >= 0 && req < 200 {
				return int(req) + 1 // more than asked for
			}
			return 3
		case 2:
			if big {
				return Pick(r, 65535, 65536, 65537, 70000)
			}
			return 7
		default:
			if req > 0 && req < 200 {
				return r.Intn(int(req) + 1)
			}
			return r.Intn(6)
		}
	}
	for i := 0; i < n; i++ {
		var sb strings.Builder
		if r.Chance(1, 2) {
			sb.WriteString("srv")
			steps := 1 + r.Intn(10)
			big := r.Chance(1, 20) // at most one oversized reply per history, rare (2.8 MB each)
			if r.Chance(1, 8) {
				// a conversation that ends with ids still to be acknowledged, then a new one:
				// the first request after the restart must acknowledge nothing
				fmt.Fprintf(&sb, " %s:%d:%d b:%d:done %s:%d:%d", Pick(r, "b", "n"), 1+r.Intn(20), 1+r.Intn(9),
					1+r.Intn(10), Pick(r, "b", "n"), 1+r.Intn(20), r.Intn(9))
			}
			for j := 0; j < steps; j++ {
				switch r.Intn(8) {
				case 0:
					fmt.Fprintf(&sb, " t:%d", r.Intn(5))
				case 1:
					if r.Chance(1, 2) {
						fmt.Fprintf(&sb, " b:%d:done", 1+r.Intn(10))
						continue
					}
					fallthrough
				default:
					req := edgeReq()
					bl := Pick(r, "b", "n")
					k := replyLen(req, big)
					if k > 60000 {
						big = false
						// a multi-megabyte reply must not race the 10 s TxIdsNonBlocking
						// state timeout on a loaded machine: ask for it with a blocking request
						bl = "b"
					}
					fmt.Fprintf(&sb, " %s:%d:%d", bl, req, k)
				}
			}
		} else {
			sb.WriteString("cli")
			steps := 1 + r.Intn(8)
			wireInt := func() string {
				switch r.Intn(14) {
				case 0:
					return "65535"
				case 1:
					return "65536"
				case 2:
					return "-1"
				case 3:
					return strconv.FormatUint(r.EdgeU64(), 10)
				case 4:
					return "0"
				case 5:
					return strconv.Itoa(65536 + r.Intn(100000))
				default:
					return strconv.Itoa(r.Intn(30))
				}
			}
			for j := 0; j < steps; j++ {
				if r.Chance(1, 8) {
					fmt.Fprintf(&sb, " t:%d", r.Intn(5))
					continue
				}
				ans := strconv.Itoa(r.Intn(6))
				switch r.Intn(8) {
				case 0:
					ans = "stop"
				case 1:
					ans = "fail"
				}
				fmt.Fprintf(&sb, " %s:%s:%s:%s", Pick(r, "b", "n"), wireInt(), wireInt(), ans)
			}
		}
		emit(sb.String())
	}
}

func runC24(op string) string {
	f := strings.Fields(op)
	if len(f) < 2 {
		return "bad-op"
	}
	switch f[0] {
	case "srv":
		return runC24Srv(f[1:])
	case "cli":
		return runC24Cli(f[1:])
	}
	return "bad-op"
}

func c24Ids(n int) []txsubmission.TxIdAndSize {
	ids := make([]txsubmission.TxIdAndSize, n)
	for i := range ids {
		ids[i].TxId.EraId = 6
		ids[i].TxId.TxId[0] = byte(i)
		ids[i].TxId.TxId[1] = byte(i >> 8)
		ids[i].TxId.TxId[2] = byte(i >> 16)
		ids[i].Size = uint32(100 + i%50)
	}
	return ids
}

// c24Uints decodes a message as a CBOR array and returns its items as raw messages.
func c24Items(msg []byte) []cbor.RawMessage {
	var items []cbor.RawMessage
	if _, err := cbor.Decode(msg, &items); err != nil {
		return nil
	}
	return items
}

func c24ErrTok(err error) string {
	switch {
	case err == nil:
		return "ok"
	case errors.Is(err, protocol.ErrProtocolViolationRequestExceeded):
		return "X"
	case errors.Is(err, txsubmission.ErrStopServerProcess):
		return "D"
	case errors.Is(err, protocol.ErrProtocolShuttingDown):
		return "S"
	}
	return "E:" + strings.ReplaceAll(err.Error(), " ", "_")
}

func runC24Srv(steps []string) string {
	l := newG5Link()
	defer l.close()
	initCh := make(chan struct{}, 4)
	cfg := txsubmission.NewConfig(
		txsubmission.WithInitFunc(func(txsubmission.CallbackContext) error { initCh <- struct{}{}; return nil }),
	)
	srv := txsubmission.NewServer(l.opts(protocol.ProtocolModeNodeToNode), &cfg)
	srv.Start()
	waitInit := func() bool {
		if err := l.peer.send(c24Id, g5enc([]any{txsubmission.MessageTypeInit})); err != nil {
			return false
		}
		select {
		case <-initCh:
			return true
		case <-time.After(40 * time.Second):
			return false
		}
	}
	if !waitInit() {
		return "no-init " + l.firstErr(0)
	}
	out := []string{}
	type idsRes struct {
		n   int
		err error
	}
	for _, st := range steps {
		p := strings.Split(st, ":")
		switch {
		case p[0] == "t" && len(p) == 2:
			k, err := strconv.Atoi(p[1])
			if err != nil || k < 0 || k > 1000 {
				return "bad-op"
			}
			ids := make([]txsubmission.TxId, k)
			for i := range ids {
				ids[i].EraId = 6
				ids[i].TxId[0] = byte(i)
			}
			resCh := make(chan idsRes, 1)
			go func() {
				txs, err := srv.RequestTxs(ids)
				resCh <- idsRes{len(txs), err}
			}()
			msg, err := l.peer.recv(c24Resp, 40*time.Second)
			if err != nil {
				return strings.Join(append(out, "nowire:"+err.Error()), " ")
			}
			items := c24Items(msg)
			seen := -1
			if len(items) == 2 {
				var lst []cbor.RawMessage
				if _, err := cbor.Decode(items[1], &lst); err == nil {
					seen = len(lst)
				}
			}
			bodies := make([]txsubmission.TxBody, k)
			for i := range bodies {
				bodies[i] = txsubmission.TxBody{EraId: 6, TxBody: []byte{0x80 + byte(i%16)}}
			}
			_ = l.peer.send(c24Id, g5enc(txsubmission.NewMsgReplyTxs(bodies)))
			select {
			case r := <-resCh:
				if r.err != nil {
					out = append(out, fmt.Sprintf("t%d>%s", seen, c24ErrTok(r.err)))
				} else {
					out = append(out, fmt.Sprintf("t%d>%d", seen, r.n))
				}
			case <-time.After(40 * time.Second):
				return strings.Join(append(out, "HANG"), " ")
			}
		case (p[0] == "b" || p[0] == "n") && len(p) == 3:
			req, err := strconv.ParseInt(p[1], 10, 64)
			if err != nil {
				return "bad-op"
			}
			done := p[2] == "done"
			k := 0
			if !done {
				k, err = strconv.Atoi(p[2])
				if err != nil || k < 0 || k > 200000 {
					return "bad-op"
				}
			}
			if done && p[0] != "b" {
				return "bad-op"
			}
			oldProto := srv.ProtocolInstance()
			resCh := make(chan idsRes, 1)
			go func() {
				ids, err := srv.RequestTxIds(p[0] == "b", int(req))
				resCh <- idsRes{len(ids), err}
			}()
			// either the call is refused at once, or a request appears on the wire
			var msg []byte
			var early *idsRes
			deadline := time.Now().Add(40 * time.Second)
			for msg == nil && early == nil {
				select {
				case r := <-resCh:
					early = &r
					continue
				default:
				}
				m, err := l.peer.recv(c24Resp, 2*time.Millisecond)
				if err == nil {
					msg = m
				} else if err != errG5Timeout || time.Now().After(deadline) {
					return strings.Join(append(out, "nowire:"+err.Error()), " ")
				}
			}
			if early != nil {
				if early.err == nil {
					out = append(out, fmt.Sprintf("nowire>%d", early.n))
				} else {
					out = append(out, c24ErrTok(early.err))
				}
				continue
			}
			items := c24Items(msg)
			var wBlocking bool
			var wAck, wReq uint64
			ok := len(items) == 4
			if ok {
				_, e1 := cbor.Decode(items[1], &wBlocking)
				_, e2 := cbor.Decode(items[2], &wAck)
				_, e3 := cbor.Decode(items[3], &wReq)
				ok = e1 == nil && e2 == nil && e3 == nil
			}
			if !ok {
				return strings.Join(append(out, "badwire:"+hexs(msg)), " ")
			}
			bn := "N"
			if wBlocking {
				bn = "B"
			}
			if done {
				_ = l.peer.send(c24Id, g5enc([]any{txsubmission.MessageTypeDone}))
			} else {
				_ = l.peer.send(c24Id, g5enc(txsubmission.NewMsgReplyTxIds(c24Ids(k))))
			}
			var r idsRes
			select {
			case r = <-resCh:
			case <-time.After(45 * time.Second):
				return strings.Join(append(out, "HANG"), " ")
			}
			res := strconv.Itoa(r.n)
			if r.err != nil {
				res = c24ErrTok(r.err)
				if res == "S" && os.Getenv("G5_DEBUG") != "" {
					res += "[" + strings.ReplaceAll(l.firstErr(time.Second), " ", "_") + "]"
				}
			}
			out = append(out, fmt.Sprintf("w%d/%d/%s>%s", wAck, wReq, bn, res))
			if done {
				// the server restarts its protocol instance; wait for the new
				// instance, make sure it is registered, then start a new conversation
				dl := time.Now().Add(40 * time.Second)
				for srv.ProtocolInstance() == oldProto {
					if time.Now().After(dl) {
						return strings.Join(append(out, "norestart"), " ")
					}
					time.Sleep(200 * time.Microsecond)
				}
				srv.ProtocolInstance().EnsureRegistered()
				if !waitInit() {
					return strings.Join(append(out, "no-reinit"), " ")
				}
			}
		default:
			return "bad-op"
		}
	}
	return strings.Join(out, " ")
}

func c24WireInt(s string) (any, bool) {
	if strings.HasPrefix(s, "-") {
		v, err := strconv.ParseInt(s, 10, 64)
		return v, err == nil
	}
	v, err := strconv.ParseUint(s, 10, 64)
	return v, err == nil
}

func runC24Cli(steps []string) string {
	l := newG5Link()
	defer l.close()
	var mu sync.Mutex
	answer := ""
	cbSeen := ""
	cfg := txsubmission.NewConfig(
		txsubmission.WithRequestTxIdsFunc(func(_ txsubmission.CallbackContext, blocking bool, ack uint16, req uint16) ([]txsubmission.TxIdAndSize, error) {
			mu.Lock()
			defer mu.Unlock()
			cbSeen = fmt.Sprintf("c%d/%d", ack, req)
			switch answer {
			case "stop":
				return nil, txsubmission.ErrStopServerProcess
			case "fail":
				return nil, errors.New("mempool unavailable")
			}
			k, _ := strconv.Atoi(answer)
			return c24Ids(k), nil
		}),
		txsubmission.WithRequestTxsFunc(func(_ txsubmission.CallbackContext, ids []txsubmission.TxId) ([]txsubmission.TxBody, error) {
			bodies := make([]txsubmission.TxBody, len(ids))
			for i := range bodies {
				bodies[i] = txsubmission.TxBody{EraId: 6, TxBody: []byte{0x80}}
			}
			return bodies, nil
		}),
	)
	cli := txsubmission.NewClient(l.opts(protocol.ProtocolModeNodeToNode), &cfg)
	cli.Start()
	cli.Init()
	if _, err := l.peer.recv(c24Id, 40*time.Second); err != nil {
		return "no-init"
	}
	out := []string{}
	// waitReply returns the next message from the client, or "" with the error text
	waitReply := func() ([]byte, string) {
		deadline := time.Now().Add(40 * time.Second)
		for {
			select {
			case e := <-l.errChan:
				return nil, e.Error()
			default:
			}
			m, err := l.peer.recv(c24Id, 2*time.Millisecond)
			if err == nil {
				return m, ""
			}
			if err != errG5Timeout {
				// connection went away: an error must be pending
				return nil, "closed:" + l.firstErr(time.Second)
			}
			if time.Now().After(deadline) {
				return nil, "HANG"
			}
		}
	}
	for _, st := range steps {
		p := strings.Split(st, ":")
		switch {
		case p[0] == "t" && len(p) == 2:
			k, err := strconv.Atoi(p[1])
			if err != nil || k < 0 || k > 1000 {
				return "bad-op"
			}
			ids := make([]txsubmission.TxId, k)
			for i := range ids {
				ids[i].EraId = 6
			}
			_ = l.peer.send(c24Resp, g5enc(txsubmission.NewMsgRequestTxs(ids)))
			m, e := waitReply()
			if m == nil {
				if e == "HANG" {
					return strings.Join(append(out, "HANG"), " ")
				}
				return strings.Join(append(out, "E"), " ")
			}
			items := c24Items(m)
			cnt := -1
			if len(items) == 2 {
				var lst []cbor.RawMessage
				if _, err := cbor.Decode(items[1], &lst); err == nil {
					cnt = len(lst)
				}
			}
			out = append(out, fmt.Sprintf("t%d>%d", k, cnt))
		case (p[0] == "b" || p[0] == "n") && len(p) == 4:
			ack, ok1 := c24WireInt(p[1])
			req, ok2 := c24WireInt(p[2])
			if !ok1 || !ok2 {
				return "bad-op"
			}
			if p[3] != "stop" && p[3] != "fail" {
				if k, err := strconv.Atoi(p[3]); err != nil || k < 0 || k > 100000 {
					return "bad-op"
				}
			}
			mu.Lock()
			answer = p[3]
			cbSeen = ""
			mu.Unlock()
			_ = l.peer.send(c24Resp, g5enc([]any{txsubmission.MessageTypeRequestTxIds, p[0] == "b", ack, req}))
			m, e := waitReply()
			mu.Lock()
			seen := cbSeen
			mu.Unlock()
			if m == nil {
				if e == "HANG" {
					return strings.Join(append(out, seen+"HANG"), " ")
				}
				if seen != "" {
					return strings.Join(append(out, seen+">E"), " ")
				}
				return strings.Join(append(out, "E"), " ")
			}
			items := c24Items(m)
			var mt uint64
			if len(items) >= 1 {
				_, _ = cbor.Decode(items[0], &mt)
			}
			switch {
			case len(items) == 1 && mt == txsubmission.MessageTypeDone:
				return strings.Join(append(out, seen+">D"), " ")
			case len(items) == 2 && mt == txsubmission.MessageTypeReplyTxIds:
				var lst []cbor.RawMessage
				cnt := -1
				if _, err := cbor.Decode(items[1], &lst); err == nil {
					cnt = len(lst)
				}
				out = append(out, fmt.Sprintf("%s>%d", seen, cnt))
			default:
				return strings.Join(append(out, seen+">?"+hexs(m)), " ")
			}
		default:
			return "bad-op"
		}
	}
	return strings.Join(out, " ")
}
