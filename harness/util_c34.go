package main

// Helpers for C34 that are deliberately independent of gouroboros and of
// fxamacker/cbor: a minimal RFC 8949 well-formedness walker (to split a block
// into its top-level segments and to find mutation sites), splice application,
// and the Byron merkle root re-implemented from the cardano-ledger definition.

import (
	"encoding/hex"
	"fmt"
	"sort"
	"strconv"
	"strings"

	"golang.org/x/crypto/blake2b"
)

// c34Head reads one CBOR head. ai==31 is reported with arg 0.
func c34Head(b []byte) (major, ai byte, arg uint64, hl int, ok bool) {
	if len(b) == 0 {
		return
	}
	major, ai = b[0]>>5, b[0]&0x1f
	switch {
	case ai < 24:
		return major, ai, uint64(ai), 1, true
	case ai == 31:
		return major, ai, 0, 1, true
	case ai > 27:
		return
	}
	n := 1 << (ai - 24)
	if len(b) < 1+n {
		return
	}
	for i := 0; i < n; i++ {
		arg = arg<<8 | uint64(b[1+i])
	}
	return major, ai, arg, 1 + n, true
}

// c34Node is one data item with (for arrays/maps, down to a depth limit) its children.
type c34Node struct {
	off, hl, end int // [off,end) in the enclosing buffer; hl = head length
	major        byte
	indef        bool
	count        int // array: items, map: pairs (definite or counted)
	kids         []c34Node
}

func (n c34Node) bytes(b []byte) []byte { return b[n.off:n.end] }

// c34Parse walks the well-formed item at b[off:]; children are recorded while kidDepth > 0.
func c34Parse(b []byte, off, kidDepth, depth int) (c34Node, bool) {
	var nd c34Node
	if depth > 600 || off >= len(b) {
		return nd, false
	}
	major, ai, arg, hl, ok := c34Head(b[off:])
	if !ok {
		return nd, false
	}
	nd.off, nd.hl, nd.major = off, hl, major
	switch major {
	case 0, 1:
		if ai == 31 {
			return nd, false
		}
		nd.end = off + hl
		return nd, true
	case 2, 3:
		if ai == 31 {
			nd.indef = true
			p := off + hl
			for {
				if p >= len(b) {
					return nd, false
				}
				if b[p] == 0xff {
					nd.end = p + 1
					return nd, true
				}
				m2, ai2, arg2, hl2, ok2 := c34Head(b[p:])
				if !ok2 || m2 != major || ai2 == 31 || uint64(len(b)-p-hl2) < arg2 {
					return nd, false
				}
				p += hl2 + int(arg2)
			}
		}
		if uint64(len(b)-off-hl) < arg {
			return nd, false
		}
		nd.end = off + hl + int(arg)
		return nd, true
	case 4, 5:
		p := off + hl
		per := 1
		if major == 5 {
			per = 2
		}
		if ai == 31 {
			nd.indef = true
			items := 0
			for {
				if p >= len(b) {
					return nd, false
				}
				if b[p] == 0xff {
					if items%per != 0 {
						return nd, false
					}
					nd.count = items / per
					nd.end = p + 1
					return nd, true
				}
				k, ok := c34Parse(b, p, kidDepth-1, depth+1)
				if !ok {
					return nd, false
				}
				if kidDepth > 0 {
					nd.kids = append(nd.kids, k)
				}
				p = k.end
				items++
			}
		}
		if arg > uint64(len(b)) {
			return nd, false
		}
		nd.count = int(arg)
		for i := 0; i < int(arg)*per; i++ {
			k, ok := c34Parse(b, p, kidDepth-1, depth+1)
			if !ok {
				return nd, false
			}
			if kidDepth > 0 {
				nd.kids = append(nd.kids, k)
			}
			p = k.end
		}
		nd.end = p
		return nd, true
	case 6:
		if ai == 31 {
			return nd, false
		}
		k, ok := c34Parse(b, off+hl, kidDepth, depth+1)
		if !ok {
			return nd, false
		}
		// a tag's children are those of its content (offsets absolute)
		nd.kids = k.kids
		nd.count = k.count
		nd.end = k.end
		return nd, true
	default: // 7
		if ai == 31 {
			return nd, false
		}
		nd.end = off + hl
		return nd, true
	}
}

// c34Split returns the raw elements of the array at the start of b (trailing
// bytes after it are tolerated, like a streaming decoder). Like fxamacker
// decoding into a typed slice/struct it looks through leading tags and takes
// null/undefined for "no elements". top.end is the end of the whole item.
func c34Split(b []byte) (items [][]byte, top c34Node, ok bool) {
	p := 0
	for depth := 0; ; depth++ {
		major, ai, _, hl, hok := c34Head(b[p:])
		if !hok || depth > 64 {
			return nil, top, false
		}
		if major == 6 && ai != 31 {
			p += hl
			continue
		}
		if major == 7 && (ai == 22 || ai == 23) {
			top = c34Node{off: p, hl: 1, end: p + 1, major: 7}
			return [][]byte{}, top, true
		}
		break
	}
	top, ok = c34Parse(b, p, 1, 0)
	if !ok || top.major != 4 {
		return nil, top, false
	}
	items = [][]byte{}
	for _, k := range top.kids {
		items = append(items, b[k.off:k.end])
	}
	return items, top, true
}

// c34Hdr encodes a CBOR head for (major, n) in the given width (0 = minimal; 1,2,4,8 = argument bytes).
func c34Hdr(major byte, n uint64, width int) []byte {
	if width == 0 {
		switch {
		case n < 24:
			return []byte{major<<5 | byte(n)}
		case n < 1<<8:
			width = 1
		case n < 1<<16:
			width = 2
		case n < 1<<32:
			width = 4
		default:
			width = 8
		}
	}
	ai := map[int]byte{1: 24, 2: 25, 4: 26, 8: 27}[width]
	out := []byte{major<<5 | ai}
	for i := width - 1; i >= 0; i-- {
		out = append(out, byte(n>>(8*uint(i))))
	}
	return out
}

// ---- splices -------------------------------------------------------------

type c34Splice struct {
	off, del int
	ins      []byte
}

func c34FormatSplices(sp []c34Splice) string {
	if len(sp) == 0 {
		return "-"
	}
	sort.SliceStable(sp, func(i, j int) bool {
		if sp[i].off != sp[j].off {
			return sp[i].off < sp[j].off
		}
		return sp[i].del == 0 && sp[j].del != 0
	})
	parts := make([]string, len(sp))
	for i, s := range sp {
		parts[i] = fmt.Sprintf("%d:%d:%s", s.off, s.del, hexs(s.ins))
	}
	return strings.Join(parts, ";")
}

func c34ParseSplices(s string) ([]c34Splice, bool) {
	if s == "-" {
		return nil, true
	}
	var out []c34Splice
	for _, p := range strings.Split(s, ";") {
		f := strings.Split(p, ":")
		if len(f) != 3 {
			return nil, false
		}
		off, e1 := strconv.Atoi(f[0])
		del, e2 := strconv.Atoi(f[1])
		ins, ok := unhex(f[2])
		if e1 != nil || e2 != nil || !ok || off < 0 || del < 0 {
			return nil, false
		}
		out = append(out, c34Splice{off, del, ins})
	}
	return out, true
}

// c34Apply applies sorted, non-overlapping splices (offsets refer to orig).
func c34Apply(orig []byte, sp []c34Splice) ([]byte, bool) {
	out := make([]byte, 0, len(orig)+64)
	cur := 0
	for _, s := range sp {
		if s.off < cur || s.off+s.del > len(orig) {
			return nil, false
		}
		out = append(out, orig[cur:s.off]...)
		out = append(out, s.ins...)
		cur = s.off + s.del
	}
	out = append(out, orig[cur:]...)
	return out, true
}

// ---- digests ---------------------------------------------------------------

func c34H(b []byte) []byte {
	h := blake2b.Sum256(b)
	return h[:]
}

func c34Hex(b []byte) string { return hex.EncodeToString(b) }

// c34Merkle is the Byron transaction merkle root as defined by cardano-ledger
// (Cardano.Chain.Common.Merkle): empty tree = hash of the empty string, leaf =
// H(0x00 || x), node = H(0x01 || left || right), left subtree takes the
// largest power of two strictly below the number of leaves.
func c34Merkle(leaves [][]byte) []byte {
	if len(leaves) == 0 {
		return c34H(nil)
	}
	var rec func(l [][]byte) []byte
	rec = func(l [][]byte) []byte {
		if len(l) == 1 {
			return c34H(append([]byte{0x00}, l[0]...))
		}
		p := 1
		for p*2 < len(l) {
			p *= 2
		}
		left, right := rec(l[:p]), rec(l[p:])
		buf := append([]byte{0x01}, left...)
		return c34H(append(buf, right...))
	}
	return rec(leaves)
}

// c34Bstr32 returns the 32 bytes of a definite byte-string item of length 32.
func c34Bstr32(item []byte) ([]byte, bool) {
	major, ai, arg, hl, ok := c34Head(item)
	if !ok || major != 2 || ai == 31 || arg != 32 || len(item) != hl+32 {
		return nil, false
	}
	return item[hl:], true
}

func c34Uint(item []byte) (uint64, bool) {
	major, ai, arg, hl, ok := c34Head(item)
	if !ok || major != 0 || ai == 31 || len(item) != hl {
		return 0, false
	}
	return arg, true
}

func c34EqList(a, b [][]byte) bool {
	if len(a) != len(b) {
		return false
	}
	for i := range a {
		if string(a[i]) != string(b[i]) {
			return false
		}
	}
	return true
}
