package main

// C27 — value is conserved by every accepted transaction.
//
//	op:  vc <era> <kd> <pd> <dd> <fee> <mint> <zmint> <don> item*
//	     kd/pd/dd = KeyDeposit / PoolDeposit / DRepDeposit parameters
//	     mint  = minted quantity of the token T (signed, 0 = none)
//	     zmint = minted quantity under the all-zero policy id with empty asset name (0 = none)
//	     don   = treasury donation (Conway+, 0 = none)
//	     items:
//	       i:<r|u>:<coin>:<tok>      input; r = resolves in the ledger state, u = does not
//	       o:<coin>:<tok>            output
//	       w:<amount>                withdrawal
//	       p:<deposit>               proposal procedure (Conway+)
//	       c:sreg | c:sdereg | c:sdeleg | c:pret
//	       c:preg:<n|o>:<id>         pool registration, n = pool id not registered in the state, o = registered
//	       c:reg:<amt> | c:unreg:<amt>:<recorded> | c:srd:<amt> | c:vrd:<amt> | c:svrd:<amt>
//	       c:dreg:<amt> | c:dunreg:<amt>:<recorded> | c:vdeleg      (Conway+)
//	out: decode-err | vc=<ok|vnc|baddep|err:<type>> bad=<0|1>
//	     vc  = verdict of the value-conservation errors over the era's whole rule list
//	     bad = 1 iff some rule returned BadInputsUtxoError
//
// The transaction is built as CBOR and decoded by the era decoder.

import (
	"errors"
	"fmt"
	"math/big"
	"strconv"
	"strings"

	"github.com/blinklabs-io/gouroboros/cbor"
	"github.com/blinklabs-io/gouroboros/ledger/common"
	"github.com/blinklabs-io/gouroboros/ledger/conway"
	"github.com/blinklabs-io/gouroboros/ledger/mary"
	"github.com/blinklabs-io/gouroboros/ledger/shelley"
	mockledger "github.com/blinklabs-io/ouroboros-mock/ledger"
)

func init() {
	register(&Prop{ID: "C27", Gen: genC27, Run: runC27})
}

func c27Hash28(tag byte, id int) []byte {
	h := make([]byte, 28)
	h[0] = tag
	h[26] = byte(id >> 8)
	h[27] = byte(id)
	return h
}

func c27Cred(id int) []byte { return cbArray(cbUint(0), cbBytes(c27Hash28(0xc0, id))) }

func c27PoolReg(poolId int) []byte {
	vrf := make([]byte, 32)
	vrf[0] = 0x77
	vrf[31] = byte(poolId)
	rewardAcct := append([]byte{0xe1}, c27Hash28(0xc0, 1)...)
	return cbArray(cbUint(3), cbBytes(c27Hash28(0xb0, poolId)), cbBytes(vrf), cbUint(1000), cbUint(340000000),
		cbTag(30, cbArray(cbUint(1), cbUint(10))), cbBytes(rewardAcct), cbArray(cbBytes(c27Hash28(0xc0, 1))), cbArray(), cbNull())
}

func genC27(r *Rand, n int, tier string, emit func(string)) {
	for i := 0; i < n; i++ {
		era := g1Eras[r.Intn(len(g1Eras))]
		ei := g1EraIndex(era)
		kd := Pick(r, uint64(2000000), 2000000, 0, 1, uint64(r.Intn(5000000)))
		pd := Pick(r, uint64(500000000), 500000000, 0, 7, uint64(r.Intn(1000000000)))
		dd := Pick(r, uint64(500000000), 2000000, 0, uint64(r.Intn(1000000000)))
		fee := Pick(r, uint64(170000), 0, uint64(r.Intn(1000000)))
		items := []string{}
		var consumed, produced, tokOut big.Int
		var consumedC, producedC big.Int // the balance as the code computes it (certificate amounts, per-certificate pool deposits)
		add := func(z *big.Int, v uint64) { z.Add(z, new(big.Int).SetUint64(v)) }
		add(&produced, fee)
		add(&producedC, fee)
		// certificates
		nc := Pick(r, 0, 0, 1, 1, 2, 3, 5)
		newPools := map[int]bool{}
		for j := 0; j < nc; j++ {
			kinds := []string{"sreg", "sdereg", "sdeleg", "preg", "preg", "pret"}
			if ei >= 5 {
				kinds = append(kinds, "reg", "unreg", "srd", "vrd", "svrd", "dreg", "dunreg", "vdeleg", "reg", "unreg")
			}
			k := kinds[r.Intn(len(kinds))]
			amt := func(expected uint64) uint64 {
				switch r.Intn(6) {
				case 0:
					return uint64(r.Intn(3)) // 0,1,2: wrong (0 = invalid deposit)
				case 1:
					return expected + uint64(r.Intn(1000000)) + 1
				default:
					return expected
				}
			}
			switch k {
			case "sreg":
				add(&produced, kd)
				add(&producedC, kd)
				items = append(items, "c:sreg")
			case "sdereg":
				add(&consumed, kd)
				add(&consumedC, kd)
				items = append(items, "c:sdereg")
			case "sdeleg", "pret", "vdeleg":
				items = append(items, "c:"+k)
			case "preg":
				id := r.Intn(3)
				isNew := r.Bool()
				st := "o"
				if isNew {
					st = "n"
					id += 10 // ids >= 10 are never registered in the state
					if !newPools[id] {
						add(&produced, pd)
					}
					add(&producedC, pd)
					newPools[id] = true
				}
				items = append(items, fmt.Sprintf("c:preg:%s:%d", st, id))
			case "reg", "srd", "vrd", "svrd":
				a := amt(kd)
				add(&produced, kd)
				add(&producedC, a)
				items = append(items, fmt.Sprintf("c:%s:%d", k, a))
			case "dreg":
				a := amt(dd)
				add(&produced, dd)
				add(&producedC, a)
				items = append(items, fmt.Sprintf("c:dreg:%d", a))
			case "unreg":
				rec := Pick(r, kd, kd, uint64(r.Intn(3000000)))
				a := amt(rec)
				add(&consumed, rec)
				add(&consumedC, a)
				items = append(items, fmt.Sprintf("c:unreg:%d:%d", a, rec))
			case "dunreg":
				rec := Pick(r, dd, dd, uint64(r.Intn(3000000)))
				a := amt(rec)
				add(&consumed, rec)
				add(&consumedC, a)
				items = append(items, fmt.Sprintf("c:dunreg:%d:%d", a, rec))
			}
		}
		// withdrawals, proposals, donation
		for j := Pick(r, 0, 0, 0, 1, 2); j > 0; j-- {
			w := Pick(r, uint64(0), uint64(r.Intn(5000000)), r.EdgeU64()>>4)
			add(&consumed, w)
			add(&consumedC, w)
			items = append(items, fmt.Sprintf("w:%d", w))
		}
		don := uint64(0)
		if ei >= 5 {
			for j := Pick(r, 0, 0, 0, 1, 2); j > 0; j-- {
				d := Pick(r, uint64(100000000000), uint64(r.Intn(1000)), 0)
				add(&produced, d)
				add(&producedC, d)
				items = append(items, fmt.Sprintf("p:%d", d))
			}
			if r.Chance(1, 4) {
				don = uint64(1 + r.Intn(5000000))
				add(&produced, don)
				add(&producedC, don)
			}
		}
		// outputs
		hasTok := ei >= 2 && r.Chance(1, 2)
		for j := Pick(r, 1, 1, 2, 3); j > 0; j-- {
			c := Pick(r, uint64(1000000+r.Intn(9000000)), uint64(r.Intn(3)), r.EdgeU64()>>8)
			t := uint64(0)
			if hasTok && r.Bool() {
				t = Pick(r, uint64(1+r.Intn(100)), r.EdgeU64()>>2)
			}
			add(&produced, c)
			add(&producedC, c)
			add(&tokOut, t)
			items = append(items, fmt.Sprintf("o:%d:%d", c, t))
		}
		// mint / burn
		mint := new(big.Int)
		if hasTok && r.Chance(1, 2) {
			mint.SetInt64(int64(r.Intn(200)) - 100)
		}
		zmint := int64(0)
		if ei >= 2 && r.Chance(1, 10) {
			zmint = Pick(r, int64(7000000), int64(1), int64(-5), int64(r.Intn(1000000)))
		}
		// inputs: balance coin and token (mostly), spread over 1..3 inputs, some unresolvable
		needCoin := new(big.Int).Sub(&produced, &consumed)
		if r.Chance(1, 3) {
			// balance the transaction the way the code computes it
			needCoin = new(big.Int).Sub(&producedC, &consumedC)
		}
		needTok := new(big.Int).Sub(&tokOut, mint)
		mode := r.Intn(8)
		switch mode {
		case 0:
			needCoin.Add(needCoin, big.NewInt(1))
		case 1:
			needCoin.Sub(needCoin, big.NewInt(1))
		case 2:
			needTok.Add(needTok, big.NewInt(1))
		case 3, 4:
			// as if the zero-policy mint were coin: the inputs are short by zmint
			needCoin.Sub(needCoin, big.NewInt(zmint))
		}
		if needCoin.Sign() < 0 || !needCoin.IsUint64() {
			needCoin = big.NewInt(int64(r.Intn(1000)))
		}
		if needTok.Sign() < 0 || !needTok.IsUint64() || ei < 2 {
			needTok = big.NewInt(0) // Shelley/Allegra outputs cannot hold tokens
		}
		ni := Pick(r, 1, 1, 2, 3)
		rc, rt := needCoin.Uint64(), needTok.Uint64()
		for j := 0; j < ni; j++ {
			c, t := rc, rt
			if j < ni-1 {
				if rc > 0 {
					c = r.U64() % (rc + 1)
				}
				if rt > 0 {
					t = r.U64() % (rt + 1)
				}
			}
			rc -= c
			rt -= t
			res := "r"
			if r.Chance(1, 15) {
				res = "u"
			}
			items = append(items, fmt.Sprintf("i:%s:%d:%d", res, c, t))
		}
		emit(fmt.Sprintf("vc %s %d %d %d %d %s %d %d %s", era, kd, pd, dd, fee, mint.String(), zmint, don, strings.Join(items, " ")))
	}
}

func runC27(op string) string {
	f := strings.Fields(op)
	if len(f) < 9 || f[0] != "vc" || g1EraIndex(f[1]) < 0 {
		return "bad-op"
	}
	era := f[1]
	ei := g1EraIndex(era)
	pu := func(s string) (uint64, bool) { v, e := strconv.ParseUint(s, 10, 64); return v, e == nil }
	kd, o1 := pu(f[2])
	pd, o2 := pu(f[3])
	dd, o3 := pu(f[4])
	fee, o4 := pu(f[5])
	mint, o5 := new(big.Int).SetString(f[6], 10)
	zmint, e6 := strconv.ParseInt(f[7], 10, 64)
	don, o7 := pu(f[8])
	if !(o1 && o2 && o3 && o4 && o5 && o7) || e6 != nil || !mint.IsInt64() {
		return "bad-op"
	}
	policy := c27Hash28(0xaa, 1)
	name := []byte("tok")
	val := func(coin, tok uint64) []byte {
		if tok == 0 {
			return cbUint(coin)
		}
		return cbArray(cbUint(coin), cbMap(cbBytes(policy), cbMap(cbBytes(name), cbUint(tok))))
	}
	ins, outs, certs, props := [][]byte{}, [][]byte{}, [][]byte{}, [][]byte{}
	wkv := [][]byte{}
	utxos := []common.Utxo{}
	pools := []common.PoolRegistrationCertificate{}
	seenPool := map[int]bool{}
	a, _ := common.NewAddressFromBytes(g1Addr(7))
	nIn, nW := 0, 0
	for _, it := range f[9:] {
		p := strings.Split(it, ":")
		num := func(i int) uint64 {
			if i >= len(p) {
				return 0
			}
			v, _ := strconv.ParseUint(p[i], 10, 64)
			return v
		}
		switch p[0] {
		case "i":
			if len(p) != 4 {
				return "bad-op"
			}
			nIn++
			ins = append(ins, g1TxIn(nIn, 0))
			if ei < 2 && num(3) != 0 {
				return "bad-op"
			}
			if p[1] == "r" {
				v := mary.MaryTransactionOutputValue{Amount: num(2)}
				if t := num(3); t > 0 {
					ma := common.NewMultiAsset[common.MultiAssetTypeOutput](
						map[common.Blake2b224]map[cbor.ByteString]common.MultiAssetTypeOutput{
							common.NewBlake2b224(policy): {cbor.NewByteString(name): new(big.Int).SetUint64(t)},
						})
					v.Assets = &ma
				}
				var out common.TransactionOutput = mary.MaryTransactionOutput{OutputAddress: a, OutputAmount: v}
				if ei < 2 {
					out = shelley.ShelleyTransactionOutput{OutputAddress: a, OutputAmount: num(2)}
				}
				utxos = append(utxos, common.Utxo{Id: shelley.NewShelleyTransactionInput(fmt.Sprintf("%x", g1TxHash(nIn)), 0), Output: out})
			}
		case "o":
			if len(p) != 3 {
				return "bad-op"
			}
			if ei < 2 && num(2) != 0 {
				return "bad-op"
			}
			outs = append(outs, cbArray(cbBytes(g1Addr(7)), val(num(1), num(2))))
		case "w":
			nW++
			wkv = append(wkv, cbBytes(append([]byte{0xe1}, c27Hash28(0xd0, nW)...)), cbUint(num(1)))
		case "p":
			rewardAcct := append([]byte{0xe1}, c27Hash28(0xc0, 1)...)
			anchor := cbArray(cbText("https://example.invalid"), cbBytes(make([]byte, 32)))
			props = append(props, cbArray(cbUint(num(1)), cbBytes(rewardAcct), cbArray(cbUint(6)), anchor))
		case "c":
			if len(p) < 2 {
				return "bad-op"
			}
			cred := c27Cred(len(certs) + 1)
			pool := cbBytes(c27Hash28(0xb0, 1))
			drep := cbArray(cbUint(2))
			switch p[1] {
			case "sreg":
				certs = append(certs, cbArray(cbUint(0), cred))
			case "sdereg":
				certs = append(certs, cbArray(cbUint(1), cred))
			case "sdeleg":
				certs = append(certs, cbArray(cbUint(2), cred, pool))
			case "pret":
				certs = append(certs, cbArray(cbUint(4), pool, cbUint(300)))
			case "preg":
				if len(p) != 4 {
					return "bad-op"
				}
				id := int(num(3))
				certs = append(certs, c27PoolReg(id))
				if p[2] == "o" && !seenPool[id] {
					seenPool[id] = true
					pools = append(pools, common.PoolRegistrationCertificate{Operator: common.NewBlake2b224(c27Hash28(0xb0, id))})
				}
			case "reg":
				certs = append(certs, cbArray(cbUint(7), cred, cbUint(num(2))))
			case "unreg":
				certs = append(certs, cbArray(cbUint(8), cred, cbUint(num(2))))
			case "vdeleg":
				certs = append(certs, cbArray(cbUint(9), cred, drep))
			case "srd":
				certs = append(certs, cbArray(cbUint(11), cred, pool, cbUint(num(2))))
			case "vrd":
				certs = append(certs, cbArray(cbUint(12), cred, drep, cbUint(num(2))))
			case "svrd":
				certs = append(certs, cbArray(cbUint(13), cred, pool, drep, cbUint(num(2))))
			case "dreg":
				certs = append(certs, cbArray(cbUint(16), cred, cbUint(num(2)), cbNull()))
			case "dunreg":
				certs = append(certs, cbArray(cbUint(17), cred, cbUint(num(2))))
			default:
				return "bad-op"
			}
		default:
			return "bad-op"
		}
	}
	kv := [][]byte{cbUint(0), cbArray(ins...), cbUint(1), cbArray(outs...), cbUint(2), cbUint(fee), cbUint(3), cbUint(1000)}
	if len(certs) > 0 {
		kv = append(kv, cbUint(4), cbArray(certs...))
	}
	if len(wkv) > 0 {
		kv = append(kv, cbUint(5), cbMap(wkv...))
	}
	mkv := [][]byte{}
	if zmint != 0 {
		mkv = append(mkv, cbBytes(make([]byte, 28)), cbMap(cbBytes([]byte{}), cbInt(big.NewInt(zmint))))
	}
	if mint.Sign() != 0 {
		mkv = append(mkv, cbBytes(policy), cbMap(cbBytes(name), cbInt(mint)))
	}
	if len(mkv) > 0 {
		kv = append(kv, cbUint(9), cbMap(mkv...))
	}
	if len(props) > 0 {
		kv = append(kv, cbUint(20), cbArray(props...))
	}
	if don > 0 {
		kv = append(kv, cbUint(22), cbUint(don))
	}
	raw := g1Envelope(era, cbMap(kv...), cbMap(), true, nil, 0, 0)
	tx, derr := g1DecodeTx(era, raw)
	if derr != nil {
		return "decode-err"
	}
	ls := mockledger.NewLedgerStateBuilder().WithUtxos(utxos).WithPoolRegistrations(pools).WithNetworkId(1).Build()
	pp := g1Pparams(era, g1PP{MinFeeA: 0, MinFeeB: 0, MaxTxSize: 1 << 20, Major: 9, MaxValueSize: 5000,
		KeyDeposit: uint(kd), PoolDeposit: uint(pd), DRepDeposit: dd, GovDeposit: 100000000000})
	vc, bad := "ok", 0
	for _, rule := range g1Rules(era) {
		e := safeRule(rule, tx, 10, ls, pp)
		if e == nil {
			continue
		}
		var e1 shelley.ValueNotConservedUtxoError
		var e2 shelley.InvalidCertificateDepositError
		var e3 shelley.BadInputsUtxoError
		var e4 conway.TreasuryDonationWithPlutusV1V2Error
		switch {
		case errors.As(e, &e1):
			vc = "vnc"
		case errors.As(e, &e2):
			vc = "baddep"
		case errors.As(e, &e3):
			bad = 1
		case errors.As(e, &e4):
			vc = "err:donation"
		}
	}
	return fmt.Sprintf("vc=%s bad=%d", vc, bad)
}
