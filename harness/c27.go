package main

// C27 — value is conserved by every accepted transaction.
//
//	op:  vc <era> <valid> <kd> <pd> <dd> <fee> <don> item*
//	     valid = IsValid flag (Alonzo..Conway can encode 0; Dijkstra refuses it at decode)
//	     kd/pd/dd = KeyDeposit / PoolDeposit / DRepDeposit parameters
//	     don   = treasury donation (Conway+, 0 = none)
//	     a bundle is `-` or `id=q,id=q,...`: asset id 0 = all-zero policy id with empty
//	     name, id n>=1 = policy ceil(n/2), name "tok<n>" (two assets per policy)
//	     items:
//	       i:<r|u>:<coin>:<bundle>   input; r = resolves in the ledger state, u = does not
//	       o:<coin>:<bundle>         output
//	       m:<bundle>                mint field (signed quantities)
//	       w:<amount>                withdrawal
//	       p:<deposit>               proposal procedure (Conway+)
//	       k:<r|u>:<coin>            collateral input (Alonzo+)
//	       kr:<coin>                 collateral return (Babbage+)
//	       kt:<n>                    total collateral (Babbage+)
//	       c:sreg | c:sdereg | c:sdeleg | c:pret
//	       c:gen                     genesis key delegation (Shelley..Babbage)
//	       c:mir:<r|p>:<amt>         move instantaneous rewards (Shelley..Babbage): r = from the reserves to a
//	                                 reward account, p = from the treasury to the other pot
//	       c:preg:<n|o|r>:<id>       pool registration: n = pool not registered in the state, o = registered,
//	                                 r = registered with a pending retirement (still holds its deposit)
//	       c:reg:<amt> | c:unreg:<amt>:<recorded> | c:srd:<amt> | c:vrd:<amt> | c:svrd:<amt>
//	       c:dreg:<amt> | c:dunreg:<amt>:<recorded> | c:vdeleg      (Conway+)
//	out: decode-err | pure=<1|0> next=<ok|vnc|bad|countN|-> vc=<ok|vnc|baddep> bad=<0|1> dep=<0|1>
//	     next = verdict of a follow-up transaction that spends everything Produced() reports into
//	            outputs carrying the values the op states (ok = balanced, all inputs resolve;
//	            - = nothing is produced)
//	     pure = 1 iff validating the same decoded transaction a second time gives the same
//	            verdicts and the transaction's and the state's reported values (outputs,
//	            Produced(), stored bytes, mint, UTxOs) are unchanged by validation
//	     vc  = verdict of the value-conservation errors over the era's whole rule list
//	     bad = 1 iff some rule returned BadInputsUtxoError
//	     dep = 1 iff some rule returned IncorrectCertificateDepositError
//
// The transaction is built as CBOR and decoded by the era decoder; the mock ledger
// state resolves the `r` inputs, knows the `o` pools and records the DRep deposits.

import (
	"errors"
	"fmt"
	"math/big"
	"sort"
	"strconv"
	"strings"

	"github.com/blinklabs-io/gouroboros/cbor"
	"github.com/blinklabs-io/gouroboros/ledger/common"
	"github.com/blinklabs-io/gouroboros/ledger/conway"
	"github.com/blinklabs-io/gouroboros/ledger/mary"
	"github.com/blinklabs-io/gouroboros/ledger/shelley"
	mockledger "github.com/blinklabs-io/ouroboros-mock/ledger"
)

func init() {
	register(&Prop{ID: "C27", Gen: genC27, Run: runC27})
}

func c27Hash28(tag byte, id int) []byte {
	h := make([]byte, 28)
	h[0] = tag
	h[26] = byte(id >> 8)
	h[27] = byte(id)
	return h
}

func c27Cred(id int) []byte { return cbArray(cbUint(0), cbBytes(c27Hash28(0xc0, id))) }

func c27PoolReg(poolId int) []byte {
	vrf := make([]byte, 32)
	vrf[0] = 0x77
	vrf[31] = byte(poolId)
	rewardAcct := append([]byte{0xe1}, c27Hash28(0xc0, 1)...)
	return cbArray(cbUint(3), cbBytes(c27Hash28(0xb0, poolId)), cbBytes(vrf), cbUint(1000), cbUint(340000000),
		cbTag(30, cbArray(cbUint(1), cbUint(10))), cbBytes(rewardAcct), cbArray(cbBytes(c27Hash28(0xc0, 1))), cbArray(), cbNull())
}

// asset id -> (policy bytes, asset name)
func c27Asset(id int) ([]byte, []byte) {
	if id == 0 {
		return make([]byte, 28), []byte{}
	}
	return c27Hash28(0xaa, (id+1)/2), []byte(fmt.Sprintf("tok%d", id))
}

type c27Entry struct {
	id int
	q  *big.Int
}

func c27ParseBundle(s string) ([]c27Entry, bool) {
	if s == "-" {
		return nil, true
	}
	res := []c27Entry{}
	seen := map[int]bool{}
	for _, e := range strings.Split(s, ",") {
		p := strings.Split(e, "=")
		if len(p) != 2 {
			return nil, false
		}
		id, err := strconv.Atoi(p[0])
		q, ok := new(big.Int).SetString(p[1], 10)
		if err != nil || !ok || id < 0 || id > 60 || seen[id] {
			return nil, false
		}
		seen[id] = true
		res = append(res, c27Entry{id, q})
	}
	return res, true
}

// c27BundleCbor encodes a bundle as the nested policy -> name -> quantity map.
func c27BundleCbor(b []c27Entry) []byte {
	byPol := map[string][][]byte{}
	order := []string{}
	for _, e := range b {
		pol, name := c27Asset(e.id)
		k := string(pol)
		if _, ok := byPol[k]; !ok {
			order = append(order, k)
		}
		byPol[k] = append(byPol[k], cbBytes(name), cbInt(e.q))
	}
	kv := [][]byte{}
	for _, k := range order {
		kv = append(kv, cbBytes([]byte(k)), cbMap(byPol[k]...))
	}
	return cbMap(kv...)
}

func c27MultiAsset(b []c27Entry) *common.MultiAsset[common.MultiAssetTypeOutput] {
	m := map[common.Blake2b224]map[cbor.ByteString]common.MultiAssetTypeOutput{}
	for _, e := range b {
		pol, name := c27Asset(e.id)
		k := common.NewBlake2b224(pol)
		if m[k] == nil {
			m[k] = map[cbor.ByteString]common.MultiAssetTypeOutput{}
		}
		m[k][cbor.NewByteString(name)] = new(big.Int).Set(e.q)
	}
	ma := common.NewMultiAsset[common.MultiAssetTypeOutput](m)
	return &ma
}

func c27BundleStr(m map[int]*big.Int) string {
	ids := []int{}
	for id, q := range m {
		if q.Sign() != 0 {
			ids = append(ids, id)
		}
	}
	if len(ids) == 0 {
		return "-"
	}
	sort.Ints(ids)
	parts := []string{}
	for _, id := range ids {
		parts = append(parts, fmt.Sprintf("%d=%s", id, m[id].String()))
	}
	return strings.Join(parts, ",")
}

func genC27(r *Rand, n int, tier string, emit func(string)) {
	for i := 0; i < n; i++ {
		era := g1Eras[r.Intn(len(g1Eras))]
		ei := g1EraIndex(era)
		kd := Pick(r, uint64(2000000), 2000000, 0, 1, uint64(r.Intn(5000000)))
		pd := Pick(r, uint64(500000000), 500000000, 0, 7, uint64(r.Intn(1000000000)))
		dd := Pick(r, uint64(500000000), 2000000, 0, uint64(r.Intn(1000000000)))
		fee := Pick(r, uint64(170000), 0, uint64(r.Intn(1000000)))
		items := []string{}
		var consumed, produced big.Int
		var consumedC, producedC big.Int // the balance as the code computes it (certificate amounts)
		add := func(z *big.Int, v uint64) { z.Add(z, new(big.Int).SetUint64(v)) }
		add(&produced, fee)
		add(&producedC, fee)
		// certificates
		nc := Pick(r, 0, 0, 1, 1, 2, 3, 5)
		newPools := map[int]bool{}
		for j := 0; j < nc; j++ {
			kinds := []string{"sreg", "sdereg", "sdeleg", "preg", "preg", "pret"}
			if ei < 5 {
				kinds = append(kinds, "gen", "mir")
			}
			if ei >= 5 {
				kinds = append(kinds, "reg", "unreg", "srd", "vrd", "svrd", "dreg", "dunreg", "vdeleg", "reg", "unreg")
			}
			k := kinds[r.Intn(len(kinds))]
			amt := func(expected uint64) uint64 {
				switch r.Intn(6) {
				case 0:
					return uint64(r.Intn(3)) // 0,1,2: wrong (0 = invalid deposit)
				case 1:
					return expected + uint64(r.Intn(1000000)) + 1
				default:
					return expected
				}
			}
			switch k {
			case "sreg":
				add(&produced, kd)
				add(&producedC, kd)
				items = append(items, "c:sreg")
			case "sdereg":
				add(&consumed, kd)
				add(&consumedC, kd)
				items = append(items, "c:sdereg")
			case "sdeleg", "pret", "vdeleg", "gen":
				items = append(items, "c:"+k)
			case "mir":
				m := Pick(r, uint64(1+r.Intn(1000000)), r.EdgeU64()>>1, kd, pd)
				items = append(items, fmt.Sprintf("c:mir:%s:%d", Pick(r, "r", "p"), m))
				if r.Chance(1, 4) {
					add(&consumedC, m) // as a rule that mistook the transfer for a refund would balance
				}
			case "preg":
				id := r.Intn(3)
				isNew := r.Chance(2, 5)
				st := "o"
				if !isNew && r.Chance(1, 2) {
					st = "r" // registered, retirement pending: a re-registration, no deposit
					id += 3
					if r.Chance(1, 3) {
						add(&producedC, pd) // as a rule that mistook it for a new pool would balance
					}
				}
				if isNew {
					st = "n"
					id += 10 // ids >= 10 are never registered in the state
					if !newPools[id] {
						add(&produced, pd)
						add(&producedC, pd)
					} else if r.Chance(1, 2) {
						add(&producedC, pd) // as the code did before the seen-set fix
					}
					newPools[id] = true
				}
				items = append(items, fmt.Sprintf("c:preg:%s:%d", st, id))
			case "reg", "srd", "vrd", "svrd":
				a := amt(kd)
				add(&produced, kd)
				add(&producedC, a)
				items = append(items, fmt.Sprintf("c:%s:%d", k, a))
			case "dreg":
				a := amt(dd)
				add(&produced, dd)
				add(&producedC, a)
				items = append(items, fmt.Sprintf("c:dreg:%d", a))
			case "unreg":
				rec := Pick(r, kd, kd, uint64(r.Intn(3000000)))
				a := amt(rec)
				add(&consumed, rec)
				add(&consumedC, a)
				items = append(items, fmt.Sprintf("c:unreg:%d:%d", a, rec))
			case "dunreg":
				rec := Pick(r, dd, dd, uint64(r.Intn(3000000)))
				a := amt(rec)
				add(&consumed, rec)
				add(&consumedC, a)
				items = append(items, fmt.Sprintf("c:dunreg:%d:%d", a, rec))
			}
		}
		// withdrawals, proposals, donation
		for j := Pick(r, 0, 0, 0, 1, 2); j > 0; j-- {
			w := Pick(r, uint64(0), uint64(r.Intn(5000000)), r.EdgeU64()>>4)
			add(&consumed, w)
			add(&consumedC, w)
			items = append(items, fmt.Sprintf("w:%d", w))
		}
		don := uint64(0)
		if ei >= 5 {
			for j := Pick(r, 0, 0, 0, 1, 2); j > 0; j-- {
				d := Pick(r, uint64(100000000000), uint64(r.Intn(1000)), 0)
				add(&produced, d)
				add(&producedC, d)
				items = append(items, fmt.Sprintf("p:%d", d))
			}
			if r.Chance(1, 4) {
				don = uint64(1 + r.Intn(5000000))
				add(&produced, don)
				add(&producedC, don)
			}
		}
		// assets in play: a few ids, sometimes the zero-policy one
		assetIds := []int{}
		if ei >= 2 && r.Chance(2, 3) {
			for _, id := range []int{1, 2, 3, 4, 5} {
				if r.Chance(1, 2) {
					assetIds = append(assetIds, id)
				}
			}
			if r.Chance(1, 8) {
				assetIds = append(assetIds, 0)
			}
		}
		tokOut := map[int]*big.Int{}
		for _, id := range assetIds {
			tokOut[id] = new(big.Int)
		}
		// outputs
		for j := Pick(r, 1, 1, 2, 3); j > 0; j-- {
			c := Pick(r, uint64(1000000+r.Intn(9000000)), uint64(r.Intn(3)), r.EdgeU64()>>8)
			b := map[int]*big.Int{}
			for _, id := range assetIds {
				if r.Chance(1, 2) {
					q := new(big.Int).SetUint64(Pick(r, uint64(1+r.Intn(100)), r.EdgeU64()>>2))
					b[id] = q
					tokOut[id].Add(tokOut[id], q)
				}
			}
			add(&produced, c)
			add(&producedC, c)
			items = append(items, fmt.Sprintf("o:%d:%s", c, c27BundleStr(b)))
		}
		// mint / burn per asset
		mint := map[int]*big.Int{}
		for _, id := range assetIds {
			if r.Chance(1, 2) {
				mint[id] = big.NewInt(int64(r.Intn(200)) - 100)
			}
		}
		zmint := int64(0)
		if ei >= 2 && r.Chance(1, 10) {
			zmint = Pick(r, int64(7000000), int64(1), int64(-5), int64(r.Intn(1000000)))
			if mint[0] == nil {
				mint[0] = big.NewInt(zmint)
			} else {
				zmint = mint[0].Int64()
			}
		} else if mint[0] != nil {
			zmint = mint[0].Int64()
		}
		if len(mint) > 0 && c27BundleStr(mint) != "-" {
			items = append(items, "m:"+c27BundleStr(mint))
		}
		// inputs: balance coin and every asset (mostly), spread over 1..3 inputs
		needCoin := new(big.Int).Sub(&produced, &consumed)
		if r.Chance(1, 3) {
			needCoin = new(big.Int).Sub(&producedC, &consumedC) // balance as the code sees it
		}
		needTok := map[int]*big.Int{}
		for _, id := range assetIds {
			needTok[id] = new(big.Int).Set(tokOut[id])
			if m := mint[id]; m != nil {
				needTok[id].Sub(needTok[id], m)
			}
		}
		mode := r.Intn(9)
		switch mode {
		case 0:
			needCoin.Add(needCoin, big.NewInt(1))
		case 1:
			needCoin.Sub(needCoin, big.NewInt(1))
		case 2:
			if len(assetIds) > 0 { // one asset off by one, the others balanced
				id := assetIds[r.Intn(len(assetIds))]
				needTok[id].Add(needTok[id], big.NewInt(int64(1-2*r.Intn(2))))
			}
		case 3, 4:
			needCoin.Sub(needCoin, big.NewInt(zmint)) // as if the zero-policy mint were coin
		case 5:
			if len(assetIds) > 1 { // move one unit from one asset to another (totals unchanged)
				a, b := assetIds[0], assetIds[1]
				needTok[a].Add(needTok[a], big.NewInt(1))
				needTok[b].Sub(needTok[b], big.NewInt(1))
			}
		}
		if needCoin.Sign() < 0 || !needCoin.IsUint64() {
			needCoin = big.NewInt(int64(r.Intn(1000)))
		}
		for id, v := range needTok {
			if v.Sign() < 0 || !v.IsUint64() {
				needTok[id] = big.NewInt(0)
			}
		}
		ni := Pick(r, 1, 1, 2, 3)
		rc := needCoin.Uint64()
		rem := map[int]uint64{}
		for id, v := range needTok {
			rem[id] = v.Uint64()
		}
		for j := 0; j < ni; j++ {
			c := rc
			if j < ni-1 && rc > 0 {
				c = r.U64() % (rc + 1)
			}
			rc -= c
			b := map[int]*big.Int{}
			for _, id := range assetIds {
				t := rem[id]
				if j < ni-1 && t > 0 {
					t = r.U64() % (t + 1)
				}
				rem[id] -= t
				b[id] = new(big.Int).SetUint64(t)
			}
			res := "r"
			if r.Chance(1, 15) {
				res = "u"
			}
			items = append(items, fmt.Sprintf("i:%s:%d:%s", res, c, c27BundleStr(b)))
		}
		// phase-2 fields
		valid := "1"
		if ei >= 3 {
			if r.Chance(1, 4) {
				for j := Pick(r, 1, 1, 2); j > 0; j-- {
					items = append(items, fmt.Sprintf("k:%s:%d", Pick(r, "r", "r", "r", "u"), 1000000+r.Intn(5000000)))
				}
				if ei >= 4 && r.Bool() {
					items = append(items, fmt.Sprintf("kr:%d", r.Intn(1000000)))
				}
				if ei >= 4 && r.Bool() {
					items = append(items, fmt.Sprintf("kt:%d", r.Intn(6000000)))
				}
			}
			if r.Chance(1, 5) {
				valid = "0"
			}
		}
		emit(fmt.Sprintf("vc %s %s %d %d %d %d %d %s", era, valid, kd, pd, dd, fee, don, strings.Join(items, " ")))
	}
}

func runC27(op string) string {
	f := strings.Fields(op)
	if len(f) < 8 || f[0] != "vc" || g1EraIndex(f[1]) < 0 || (f[2] != "0" && f[2] != "1") {
		return "bad-op"
	}
	era := f[1]
	ei := g1EraIndex(era)
	valid := f[2] == "1"
	pu := func(s string) (uint64, bool) { v, e := strconv.ParseUint(s, 10, 64); return v, e == nil }
	kd, o1 := pu(f[3])
	pd, o2 := pu(f[4])
	dd, o3 := pu(f[5])
	fee, o4 := pu(f[6])
	don, o7 := pu(f[7])
	if !(o1 && o2 && o3 && o4 && o7) || (!valid && ei < 3) {
		return "bad-op"
	}
	val := func(coin uint64, b []c27Entry) []byte {
		if len(b) == 0 {
			return cbUint(coin)
		}
		return cbArray(cbUint(coin), c27BundleCbor(b))
	}
	ins, outs, certs, props, colls := [][]byte{}, [][]byte{}, [][]byte{}, [][]byte{}, [][]byte{}
	var mintB []c27Entry
	var collRet, collRetVal []byte
	outVals := [][]byte{} // the value of each output exactly as the op states it
	var totalColl *uint64
	wkv := [][]byte{}
	utxos := []common.Utxo{}
	pools := []common.PoolRegistrationCertificate{}
	dreps := []common.DRepRegistration{}
	seenPool := map[int]bool{}
	retiring := map[common.PoolKeyHash]bool{}
	a, _ := common.NewAddressFromBytes(g1Addr(7))
	nIn, nW := 0, 0
	mkUtxo := func(n int, coin uint64, b []c27Entry) {
		v := mary.MaryTransactionOutputValue{Amount: coin}
		if len(b) > 0 {
			v.Assets = c27MultiAsset(b)
		}
		var out common.TransactionOutput = mary.MaryTransactionOutput{OutputAddress: a, OutputAmount: v}
		if ei < 2 {
			out = shelley.ShelleyTransactionOutput{OutputAddress: a, OutputAmount: coin}
		}
		utxos = append(utxos, common.Utxo{Id: shelley.NewShelleyTransactionInput(fmt.Sprintf("%x", g1TxHash(n)), 0), Output: out})
	}
	for _, it := range f[8:] {
		p := strings.Split(it, ":")
		num := func(i int) uint64 {
			if i >= len(p) {
				return 0
			}
			v, _ := strconv.ParseUint(p[i], 10, 64)
			return v
		}
		switch p[0] {
		case "i":
			if len(p) != 4 {
				return "bad-op"
			}
			b, ok := c27ParseBundle(p[3])
			if !ok || (ei < 2 && len(b) > 0) {
				return "bad-op"
			}
			for _, e := range b {
				if e.q.Sign() < 0 || !e.q.IsUint64() {
					return "bad-op"
				}
			}
			nIn++
			ins = append(ins, g1TxIn(nIn, 0))
			if p[1] == "r" {
				mkUtxo(nIn, num(2), b)
			}
		case "k":
			if len(p) != 3 || ei < 3 {
				return "bad-op"
			}
			nIn++
			colls = append(colls, g1TxIn(nIn, 0))
			if p[1] == "r" {
				mkUtxo(nIn, num(2), nil)
			}
		case "kr":
			if ei < 4 {
				return "bad-op"
			}
			collRet = cbArray(cbBytes(g1Addr(7)), cbUint(num(1)))
			collRetVal = val(num(1), nil)
		case "kt":
			if ei < 4 {
				return "bad-op"
			}
			v := num(1)
			totalColl = &v
		case "o":
			if len(p) != 3 {
				return "bad-op"
			}
			b, ok := c27ParseBundle(p[2])
			if !ok || (ei < 2 && len(b) > 0) {
				return "bad-op"
			}
			for _, e := range b {
				if e.q.Sign() < 0 || !e.q.IsUint64() {
					return "bad-op"
				}
			}
			outs = append(outs, cbArray(cbBytes(g1Addr(7)), val(num(1), b)))
			outVals = append(outVals, val(num(1), b))
		case "m":
			b, ok := c27ParseBundle(p[1])
			if !ok || ei < 2 || mintB != nil {
				return "bad-op"
			}
			for _, e := range b {
				if !e.q.IsInt64() {
					return "bad-op"
				}
			}
			mintB = b
		case "w":
			nW++
			wkv = append(wkv, cbBytes(append([]byte{0xe1}, c27Hash28(0xd0, nW)...)), cbUint(num(1)))
		case "p":
			rewardAcct := append([]byte{0xe1}, c27Hash28(0xc0, 1)...)
			anchor := cbArray(cbText("https://example.invalid"), cbBytes(make([]byte, 32)))
			props = append(props, cbArray(cbUint(num(1)), cbBytes(rewardAcct), cbArray(cbUint(6)), anchor))
		case "c":
			if len(p) < 2 {
				return "bad-op"
			}
			credId := len(certs) + 1
			cred := c27Cred(credId)
			pool := cbBytes(c27Hash28(0xb0, 1))
			drep := cbArray(cbUint(2))
			switch p[1] {
			case "sreg":
				certs = append(certs, cbArray(cbUint(0), cred))
			case "sdereg":
				certs = append(certs, cbArray(cbUint(1), cred))
			case "sdeleg":
				certs = append(certs, cbArray(cbUint(2), cred, pool))
			case "pret":
				certs = append(certs, cbArray(cbUint(4), pool, cbUint(300)))
			case "gen":
				if ei >= 5 {
					return "bad-op"
				}
				vrf := make([]byte, 32)
				vrf[0] = 0x55
				certs = append(certs, cbArray(cbUint(5), cbBytes(c27Hash28(0xe0, 1)), cbBytes(c27Hash28(0xe1, 1)), cbBytes(vrf)))
			case "mir":
				if ei >= 5 || len(p) != 4 {
					return "bad-op"
				}
				if p[2] == "r" {
					certs = append(certs, cbArray(cbUint(6), cbArray(cbUint(0), cbMap(cred, cbUint(num(3))))))
				} else if p[2] == "p" {
					certs = append(certs, cbArray(cbUint(6), cbArray(cbUint(1), cbUint(num(3)))))
				} else {
					return "bad-op"
				}
			case "preg":
				if len(p) != 4 {
					return "bad-op"
				}
				id := int(num(3))
				certs = append(certs, c27PoolReg(id))
				if (p[2] == "o" || p[2] == "r") && !seenPool[id] {
					seenPool[id] = true
					pools = append(pools, common.PoolRegistrationCertificate{Operator: common.NewBlake2b224(c27Hash28(0xb0, id))})
					if p[2] == "r" {
						retiring[common.NewBlake2b224(c27Hash28(0xb0, id))] = true
					}
				} else if p[2] != "n" && p[2] != "o" && p[2] != "r" {
					return "bad-op"
				}
			case "reg":
				certs = append(certs, cbArray(cbUint(7), cred, cbUint(num(2))))
			case "unreg":
				certs = append(certs, cbArray(cbUint(8), cred, cbUint(num(2))))
			case "vdeleg":
				certs = append(certs, cbArray(cbUint(9), cred, drep))
			case "srd":
				certs = append(certs, cbArray(cbUint(11), cred, pool, cbUint(num(2))))
			case "vrd":
				certs = append(certs, cbArray(cbUint(12), cred, drep, cbUint(num(2))))
			case "svrd":
				certs = append(certs, cbArray(cbUint(13), cred, pool, drep, cbUint(num(2))))
			case "dreg":
				certs = append(certs, cbArray(cbUint(16), cred, cbUint(num(2)), cbNull()))
			case "dunreg":
				certs = append(certs, cbArray(cbUint(17), cred, cbUint(num(2))))
				// the ledger state records the deposit this DRep paid
				dreps = append(dreps, common.DRepRegistration{Credential: common.NewBlake2b224(c27Hash28(0xc0, credId)), Deposit: num(3)})
			default:
				return "bad-op"
			}
		default:
			return "bad-op"
		}
	}
	kv := [][]byte{cbUint(0), cbArray(ins...), cbUint(1), cbArray(outs...), cbUint(2), cbUint(fee), cbUint(3), cbUint(1000)}
	if len(certs) > 0 {
		kv = append(kv, cbUint(4), cbArray(certs...))
	}
	if len(wkv) > 0 {
		kv = append(kv, cbUint(5), cbMap(wkv...))
	}
	if len(mintB) > 0 {
		kv = append(kv, cbUint(9), c27BundleCbor(mintB))
	}
	if len(colls) > 0 {
		kv = append(kv, cbUint(13), cbArray(colls...))
	}
	if collRet != nil {
		kv = append(kv, cbUint(16), collRet)
	}
	if totalColl != nil {
		kv = append(kv, cbUint(17), cbUint(*totalColl))
	}
	if len(props) > 0 {
		kv = append(kv, cbUint(20), cbArray(props...))
	}
	if don > 0 {
		kv = append(kv, cbUint(22), cbUint(don))
	}
	bodyBytes := cbMap(kv...)
	raw := g1Envelope(era, bodyBytes, cbMap(), valid, nil, 0, 0)
	tx, derr := g1DecodeTx(era, raw)
	if derr != nil {
		return "decode-err"
	}
	if ei >= 3 && tx.IsValid() != valid {
		return "build-mismatch"
	}
	retireEpoch := uint64(321)
	ls := mockledger.NewLedgerStateBuilder().WithUtxos(utxos).
		WithPoolCurrentState(func(h common.PoolKeyHash) (*common.PoolRegistrationCertificate, *uint64, error) {
			for i := range pools {
				if pools[i].Operator == h {
					if retiring[h] {
						return &pools[i], &retireEpoch, nil
					}
					return &pools[i], nil, nil
				}
			}
			return nil, nil, nil
		}).
		WithDRepRegistrations(dreps).WithNetworkId(1).Build()
	pp := g1Pparams(era, g1PP{MinFeeA: 0, MinFeeB: 0, MaxTxSize: 1 << 20, Major: 9, MaxValueSize: 5000,
		KeyDeposit: uint(kd), PoolDeposit: uint(pd), DRepDeposit: dd, GovDeposit: 100000000000})
	// The rules must behave as pure functions of the transaction and the state: the
	// same decoded object is validated twice and everything it (and the state's UTxOs)
	// report about value is compared before / between / after.
	validate := func() string {
		vc, bad, dep := "ok", 0, 0
		for _, rule := range g1Rules(era) {
			e := safeRule(rule, tx, 10, ls, pp)
			if e == nil {
				continue
			}
			var e1 shelley.ValueNotConservedUtxoError
			var e2 shelley.InvalidCertificateDepositError
			var e3 shelley.BadInputsUtxoError
			switch {
			case errors.As(e, &e1):
				vc = "vnc"
			case errors.As(e, &e2):
				vc = "baddep"
			case errors.As(e, &e3):
				bad = 1
			case c27IsIncorrectDeposit(e):
				dep = 1
			}
		}
		return fmt.Sprintf("vc=%s bad=%d dep=%d", vc, bad, dep)
	}
	snap0 := g1TxSnap(tx, utxos)
	v1 := validate()
	snap1 := g1TxSnap(tx, utxos)
	v2 := validate()
	snap2 := g1TxSnap(tx, utxos)
	pure := 1
	if v1 != v2 || snap0 != snap1 || snap1 != snap2 {
		pure = 0
	}
	_ = conway.UtxoValidationRules
	// Follow-up transaction: the UTxO objects the (validated) transaction reports as
	// Produced() are put into a fresh ledger state and ALL spent by a second transaction of
	// the same era whose outputs carry exactly the values the op states (valid: one per
	// output, in order; phase-2-invalid: the collateral return at index |outputs|). Its
	// inputs are addressed by the transaction id computed here from the body bytes, so the
	// produced ids must be (blake2b256(body), index). The second transaction balances iff
	// what was produced is exactly the outputs.
	next := "-"
	expVals := outVals
	firstIdx := 0
	if !valid {
		expVals = nil
		if collRetVal != nil {
			expVals = [][]byte{collRetVal}
			firstIdx = len(outVals)
		}
	}
	if len(expVals) > 0 {
		txid := common.Blake2b256Hash(bodyBytes).Bytes()
		ins2, outs2 := [][]byte{}, [][]byte{}
		for i, v := range expVals {
			ins2 = append(ins2, cbArray(cbBytes(txid), cbUint(uint64(firstIdx+i))))
			outs2 = append(outs2, cbArray(cbBytes(g1Addr(9)), v))
		}
		body2 := cbMap(cbUint(0), cbArray(ins2...), cbUint(1), cbArray(outs2...), cbUint(2), cbUint(0), cbUint(3), cbUint(1000))
		tx2, derr2 := g1DecodeTx(era, g1Envelope(era, body2, cbMap(), true, nil, 0, 0))
		if derr2 != nil {
			next = "decode-err"
		} else {
			var produced []common.Utxo
			func() {
				defer func() {
					if e := recover(); e != nil {
						next = "panic"
					}
				}()
				produced = tx.Produced()
			}()
			ls2 := mockledger.NewLedgerStateBuilder().WithUtxos(produced).WithNetworkId(1).Build()
			if next != "panic" {
				next = "ok"
				for _, rule := range g1Rules(era) {
					e := safeRule(rule, tx2, 10, ls2, pp)
					if e == nil {
						continue
					}
					var e1 shelley.ValueNotConservedUtxoError
					var e3 shelley.BadInputsUtxoError
					switch {
					case errors.As(e, &e3):
						next = "bad"
					case errors.As(e, &e1):
						if next == "ok" {
							next = "vnc"
						}
					}
				}
				if len(produced) != len(expVals) {
					next = fmt.Sprintf("count%d", len(produced))
				}
			}
		}
	}
	return fmt.Sprintf("pure=%d next=%s %s", pure, next, v1)
}

// c27IsIncorrectDeposit recognises conway.IncorrectCertificateDepositError by type name,
// so that the harness still compiles against a repository that lacks the rule.
func c27IsIncorrectDeposit(e error) bool {
	for e != nil {
		if strings.HasSuffix(fmt.Sprintf("%T", e), "IncorrectCertificateDepositError") {
			return true
		}
		e = errors.Unwrap(e)
	}
	return false
}
