package main

// C41 — chain selection. See lean/GV/Drv/C41.lean for the op grammar.
// Every comparison/selection is made by the real consensus.PraosChainSelector /
// genesis.GenesisSelector on real SimpleChainTip / WindowedChainTip values.

import (
	"fmt"
	"math"
	"strconv"
	"strings"

	"github.com/blinklabs-io/gouroboros/consensus"
	"github.com/blinklabs-io/gouroboros/consensus/genesis"
)

func init() {
	register(&Prop{ID: "C41", Gen: genC41, Run: runC41})
}

// ---- tips

func c41ParseTip(s string) (consensus.ChainTip, bool) {
	if s == "nil" {
		return nil, true
	}
	p := strings.Split(s, ":")
	if len(p) < 3 {
		return nil, false
	}
	bn, e1 := strconv.ParseUint(p[1], 10, 64)
	vrf, ok := unhex(p[2])
	if e1 != nil || !ok {
		return nil, false
	}
	if len(vrf) == 0 {
		vrf = nil
	}
	switch p[0] {
	case "S":
		if len(p) != 5 {
			return nil, false
		}
		b, e2 := strconv.ParseUint(p[3], 10, 64)
		sl, e3 := strconv.ParseUint(p[4], 10, 64)
		if e2 != nil || e3 != nil {
			return nil, false
		}
		return consensus.NewSimpleChainTipWithDensity(0, bn, vrf, b, sl), true
	case "W":
		if len(p) != 4 {
			return nil, false
		}
		slots := []uint64{}
		if p[3] != "-" {
			for _, x := range strings.Split(p[3], ",") {
				v, e := strconv.ParseUint(x, 10, 64)
				if e != nil {
					return nil, false
				}
				slots = append(slots, v)
			}
		}
		return consensus.NewWindowedChainTip(0, bn, vrf, slots), true
	}
	return nil, false
}

type c41Args struct {
	k, window, forkSlot, forkBN, tipBN uint64
	tips                               []consensus.ChainTip
	rest                               []string
}

func c41Parse(f []string) (*c41Args, bool) {
	if len(f) < 7 {
		return nil, false
	}
	var v [5]uint64
	for i := 0; i < 5; i++ {
		x, e := strconv.ParseUint(f[1+i], 10, 64)
		if e != nil {
			return nil, false
		}
		v[i] = x
	}
	n, e := strconv.Atoi(f[6])
	if e != nil || n < 0 || len(f) < 7+n {
		return nil, false
	}
	a := &c41Args{k: v[0], window: v[1], forkSlot: v[2], forkBN: v[3], tipBN: v[4]}
	for i := 0; i < n; i++ {
		t, ok := c41ParseTip(f[7+i])
		if !ok {
			return nil, false
		}
		a.tips = append(a.tips, t)
	}
	a.rest = f[7+n:]
	return a, true
}

func c41Index(tips []consensus.ChainTip, r consensus.ChainTip) string {
	if r == nil {
		return "nil"
	}
	for i, t := range tips {
		if t == r {
			return strconv.Itoa(i)
		}
	}
	return "foreign"
}

// g7PlainTip hides WindowBlockCounter: only the ChainTip methods are promoted, so a
// comparison between two wrapped tips uses the legacy ratio metric.
type g7PlainTip struct{ consensus.ChainTip }

func g7Plain(t consensus.ChainTip) consensus.ChainTip {
	if t == nil {
		return nil
	}
	return g7PlainTip{t}
}

type c41Frag struct{ inWin, total uint64 }

func (f *c41Frag) IntersectionSlot() uint64            { return 0 }
func (f *c41Frag) TipSlot() uint64                     { return 0 }
func (f *c41Frag) BlockCount() uint64                  { return f.total }
func (f *c41Frag) BlockCountInWindow(_ uint64) uint64 { return f.inWin }

func runC41(op string) string {
	f := strings.Fields(op)
	if len(f) == 0 {
		return "bad-op"
	}
	switch f[0] {
	case "deep":
		if len(f) != 4 {
			return "bad-op"
		}
		k, e1 := strconv.ParseUint(f[1], 10, 64)
		fb, e2 := strconv.ParseUint(f[2], 10, 64)
		tb, e3 := strconv.ParseUint(f[3], 10, 64)
		if e1 != nil || e2 != nil || e3 != nil {
			return "bad-op"
		}
		s := consensus.NewPraosChainSelector(k)
		return b01(s.IsDeepFork(consensus.ForkPoint{Slot: 0, BlockNumber: fb}, tb))
	case "dens":
		if len(f) != 4 {
			return "bad-op"
		}
		w, e1 := strconv.ParseUint(f[1], 10, 64)
		fs, e2 := strconv.ParseUint(f[2], 10, 64)
		t, ok := c41ParseTip(f[3])
		if e1 != nil || e2 != nil || !ok || t == nil {
			return "bad-op"
		}
		biw := "-"
		if c, ok := t.(consensus.WindowBlockCounter); ok {
			biw = strconv.FormatUint(c.BlocksInWindow(fs, w), 10)
		}
		return fmt.Sprintf("bits=%d biw=%s", math.Float64bits(t.Density(fs)), biw)
	case "gcmp", "gpref":
		if len(f) < 2 {
			return "bad-op"
		}
		frags := []genesis.ChainFragment{}
		for _, s := range f[1:] {
			p := strings.Split(s, ":")
			if len(p) != 2 {
				return "bad-op"
			}
			a, e1 := strconv.ParseUint(p[0], 10, 64)
			b, e2 := strconv.ParseUint(p[1], 10, 64)
			if e1 != nil || e2 != nil {
				return "bad-op"
			}
			frags = append(frags, &c41Frag{a, b})
		}
		g := genesis.NewGenesisSelector(genesis.GenesisConfig{SecurityParam: 2160, GenesisWindow: 100})
		if f[0] == "gcmp" {
			if len(frags) != 2 {
				return "bad-op"
			}
			return strconv.Itoa(g.Compare(frags[0], frags[1]))
		}
		r := g.Preferred(frags)
		idx := "foreign"
		for i, x := range frags {
			if x == r {
				idx = strconv.Itoa(i)
				break
			}
		}
		vs := []string{}
		for _, x := range frags {
			vs = append(vs, strconv.Itoa(g.Compare(r, x)))
		}
		return fmt.Sprintf("pref=%s vs=%s", idx, strings.Join(vs, ","))
	}
	a, ok := c41Parse(f)
	if !ok {
		return "bad-op"
	}
	sel := consensus.NewPraosChainSelectorWithWindow(a.k, a.window)
	fork := consensus.ForkPoint{Slot: a.forkSlot, BlockNumber: a.forkBN}
	cwd := func(x, y consensus.ChainTip) int { return sel.CompareWithDensity(x, y, fork, a.tipBN) }
	switch f[0] {
	case "cmp":
		if len(a.tips) != 2 {
			return "bad-op"
		}
		return strconv.Itoa(sel.Compare(a.tips[0], a.tips[1]))
	case "cwd":
		if len(a.tips) != 2 {
			return "bad-op"
		}
		return strconv.Itoa(cwd(a.tips[0], a.tips[1]))
	case "tri", "tric":
		// all six ordered comparisons among three candidates: ab ba bc cb ac ca
		if len(a.tips) != 3 {
			return "bad-op"
		}
		c := cwd
		if f[0] == "tric" {
			c = sel.Compare
		}
		t := a.tips
		return fmt.Sprintf("%d %d %d %d %d %d", c(t[0], t[1]), c(t[1], t[0]), c(t[1], t[2]), c(t[2], t[1]), c(t[0], t[2]), c(t[2], t[0]))
	case "pref", "prefd":
		// preferred candidate, its comparison against every candidate, and the same for
		// the candidates in the order given by the trailing permutation (if any).
		// PreferredWithDensity orders the whole set by ONE density metric (the window count only
		// if every candidate can count): the comparisons reported here use that same metric —
		// through the public pairwise CompareWithDensity, with the window capability hidden on
		// both sides when some candidate lacks it.
		c := cwd
		var r consensus.ChainTip
		if f[0] == "pref" {
			c = sel.Compare
			r = sel.Preferred(a.tips)
		} else {
			r = sel.PreferredWithDensity(a.tips, fork, a.tipBN)
			mixed := false
			for _, t := range a.tips {
				if t == nil {
					continue
				}
				if _, ok := t.(consensus.WindowBlockCounter); !ok {
					mixed = true
				}
			}
			if mixed {
				c = func(x, y consensus.ChainTip) int { return cwd(g7Plain(x), g7Plain(y)) }
			}
		}
		if len(a.tips) == 0 {
			return "pref=" + c41Index(a.tips, r)
		}
		vs := []string{}
		for _, x := range a.tips {
			vs = append(vs, strconv.Itoa(c(r, x)))
		}
		out := fmt.Sprintf("pref=%s vs=%s", c41Index(a.tips, r), strings.Join(vs, ","))
		if len(a.rest) == len(a.tips) {
			perm := make([]consensus.ChainTip, len(a.tips))
			seen := map[int]bool{}
			for i, s := range a.rest {
				j, e := strconv.Atoi(s)
				if e != nil || j < 0 || j >= len(a.tips) || seen[j] {
					return "bad-op"
				}
				seen[j] = true
				perm[i] = a.tips[j]
			}
			var r2 consensus.ChainTip
			if f[0] == "pref" {
				r2 = sel.Preferred(perm)
			} else {
				r2 = sel.PreferredWithDensity(perm, fork, a.tipBN)
			}
			out += fmt.Sprintf(" pref2=%s eq=%d", c41Index(a.tips, r2), c(r, r2))
		} else if len(a.rest) != 0 {
			return "bad-op"
		}
		return out
	}
	return "bad-op"
}

// ---- generator

func c41Vrf(r *Rand) string {
	switch r.Intn(8) {
	case 0:
		return "-"
	case 1:
		return "00"
	case 2:
		return "0001" // equals 01 as a number
	case 3:
		return "01"
	case 4:
		return "ff"
	case 5:
		return hexs(r.Bytes(32))
	case 6:
		return hexs(r.Bytes(64))
	default:
		return hexs([]byte{byte(r.Intn(3))})
	}
}

func c41Slots(r *Rand, forkSlot, window uint64) string {
	n := r.Intn(7)
	if n == 0 {
		return "-"
	}
	s := []string{}
	for i := 0; i < n; i++ {
		var v uint64
		switch r.Intn(7) {
		case 0:
			v = forkSlot
		case 1:
			v = forkSlot + 1
		case 2:
			v = forkSlot + window // may wrap: a slot like any other
		case 3:
			v = forkSlot + window + 1
		case 4:
			v = uint64(r.Intn(30))
		case 5:
			v = r.EdgeU64()
		default:
			v = forkSlot + uint64(r.Intn(int(window%50)+3))
		}
		s = append(s, strconv.FormatUint(v, 10))
	}
	return strings.Join(s, ",")
}

// kind: 0 = simple, 1 = windowed, 2 = either
func c41Tip(r *Rand, kind int, forkSlot, window uint64, allowNil bool) string {
	if allowNil && r.Chance(1, 12) {
		return "nil"
	}
	bn := uint64(5 + r.Intn(3))
	if r.Chance(1, 10) {
		bn = r.EdgeU64()
	}
	if kind == 2 {
		kind = r.Intn(2)
	}
	if kind == 1 {
		return fmt.Sprintf("W:%d:%s:%s", bn, c41Vrf(r), c41Slots(r, forkSlot, window))
	}
	b, s := uint64(r.Intn(6)), uint64(r.Intn(6))
	if r.Chance(1, 6) {
		b, s = r.EdgeU64(), r.EdgeU64()
	}
	return fmt.Sprintf("S:%d:%s:%d:%d", bn, c41Vrf(r), b, s)
}

func c41Params(r *Rand) (k, window, forkSlot, forkBN, tipBN uint64) {
	k = uint64(r.Intn(4))
	window = Pick(r, uint64(0), 10, 10, 3, 129600, math.MaxUint64)
	forkSlot = Pick(r, uint64(0), 0, 5, 100, math.MaxUint64-5)
	forkBN = uint64(r.Intn(6))
	switch r.Intn(4) {
	case 0:
		tipBN = forkBN + k // exactly k deep: shallow
	case 1:
		tipBN = forkBN + k + 1 // deep
	case 2:
		tipBN = uint64(r.Intn(6))
	default:
		tipBN = forkBN + k + 1 + uint64(r.Intn(100))
	}
	return
}

// c41Fixed: emitted on every run.
//   - three or more tips of equal height of which exactly one has no VRF output, the others distinct
//     outputs: indifference must stay transitive (a missing output is strictly worse, never "equal to everything");
//   - deep forks over windowed tips with exactly equal window counts where the better candidate
//     (longer, or equal length and lower VRF output) is not listed first: fall-through to length/VRF;
//   - mixed sets for PreferredWithDensity in several orders.
func c41Fixed(r *Rand, emit func(string)) {
	perms3 := []string{"0 1 2", "0 2 1", "1 0 2", "1 2 0", "2 0 1", "2 1 0"}
	vr := []string{"01", "02", "0003", "ff", hexs(r.Bytes(32)), hexs(r.Bytes(32))}
	for i := 0; i < 6; i++ {
		a, b := vr[r.Intn(len(vr))], vr[r.Intn(len(vr))]
		tips := []string{"S:6:" + a + ":0:0", "S:6:" + b + ":0:0", "S:6:-:0:0"}
		for _, pm := range perms3 {
			idx := strings.Fields(pm)
			t3 := []string{}
			for _, x := range idx {
				j, _ := strconv.Atoi(x)
				t3 = append(t3, tips[j])
			}
			emit(fmt.Sprintf("tric 2 10 0 0 1 3 %s", strings.Join(t3, " ")))
			emit(fmt.Sprintf("tri 2 10 0 0 9 3 %s", strings.Join(t3, " ")))
			emit(fmt.Sprintf("pref 2 10 0 0 1 3 %s %s", strings.Join(tips, " "), pm))
		}
		emit(fmt.Sprintf("pref 2 10 0 0 1 4 %s S:6:-:0:0 3 2 1 0", strings.Join(tips, " ")))
	}
	// deep fork (k=2, fork block 0, tip 9), window 10 after slot 100: every tip has exactly two blocks in the window
	w := func(bn int, vrf string, extra string) string {
		return fmt.Sprintf("W:%d:%s:%s", bn, vrf, extra)
	}
	sets := [][]string{
		{w(5, "01", "101,102,500"), w(7, "01", "103,110,99"), w(6, "01", "104,105")},          // longest in the middle
		{w(6, "05", "101,102"), w(6, "02", "103,104,111"), w(6, "03", "105,106,100")},         // equal length: lowest VRF second
		{w(6, "05", "101,102"), w(6, "-", "103,104"), w(6, "04", "105,106"), w(6, "0004", "107,110")}, // missing VRF loses, 04 == 0004
		{w(4, "01", "101,102"), w(4, "01", "103,104"), w(9, "ff", "109,110")},                 // best last
	}
	for _, tips := range sets {
		n := len(tips)
		for k := 0; k < 4; k++ {
			p := make([]int, n)
			for j := range p {
				p[j] = j
			}
			for j := n - 1; j > 0; j-- {
				x := r.Intn(j + 1)
				p[j], p[x] = p[x], p[j]
			}
			ps := ""
			for _, x := range p {
				ps += " " + strconv.Itoa(x)
			}
			emit(fmt.Sprintf("prefd 2 10 100 0 9 %d %s%s", n, strings.Join(tips, " "), ps))
		}
		for i := 0; i+1 < n; i++ {
			emit(fmt.Sprintf("cwd 2 10 100 0 9 2 %s %s", tips[i], tips[i+1]))
			emit(fmt.Sprintf("cwd 2 10 100 0 9 2 %s %s", tips[i+1], tips[i]))
		}
	}
	// mixed candidate sets (two or more windowed tips and a simple one), deep fork, every order
	mixed := []string{"W:7:01:1,2,3,1000", "W:7:01:1,2", "S:7:01:1:2"}
	for _, pm := range perms3 {
		emit(fmt.Sprintf("prefd 1 10 0 0 5 3 %s %s", strings.Join(mixed, " "), pm))
	}
	for i := 0; i < 12; i++ {
		fs := uint64(r.Intn(3))
		t := []string{c41Tip(r, 1, fs, 10, false), c41Tip(r, 1, fs, 10, false), c41Tip(r, 0, fs, 10, false), c41Tip(r, 2, fs, 10, true)}
		emit(fmt.Sprintf("prefd 1 10 %d 0 5 4 %s %s", fs, strings.Join(t, " "), Pick(r, "0 1 2 3", "3 2 1 0", "2 0 3 1", "1 3 0 2")))
	}
}

func genC41(r *Rand, n int, tier string, emit func(string)) {
	c41Fixed(r, emit)
	for i := 0; i < n; i++ {
		k, w, fs, fb, tb := c41Params(r)
		hdr := fmt.Sprintf("%d %d %d %d %d", k, w, fs, fb, tb)
		// homogeneous sets most of the time, mixed ones sometimes
		kind := Pick(r, 0, 1, 1, 1, 0, 2)
		tips := func(m int, allowNil bool) string {
			s := []string{}
			for j := 0; j < m; j++ {
				s = append(s, c41Tip(r, kind, fs, w, allowNil))
			}
			return strings.Join(s, " ")
		}
		switch r.Intn(12) {
		case 0:
			emit(fmt.Sprintf("deep %d %d %d", Pick(r, k, r.EdgeU64()), Pick(r, fb, r.EdgeU64()), Pick(r, tb, r.EdgeU64())))
		case 1:
			emit(fmt.Sprintf("dens %d %d %s", w, fs, c41Tip(r, 2, fs, w, false)))
		case 2:
			emit(fmt.Sprintf("cmp %s 2 %s", hdr, tips(2, true)))
		case 3:
			emit(fmt.Sprintf("cwd %s 2 %s", hdr, tips(2, true)))
		case 4, 5:
			emit(fmt.Sprintf("tri %s 3 %s", hdr, tips(3, true)))
		case 6:
			emit(fmt.Sprintf("tric %s 3 %s", hdr, tips(3, true)))
		case 7:
			fr := []string{}
			for j := 0; j < 1+r.Intn(5); j++ {
				fr = append(fr, fmt.Sprintf("%d:%d", r.Intn(4), r.Intn(4)))
			}
			if r.Chance(1, 2) && len(fr) >= 2 {
				emit("gcmp " + fr[0] + " " + fr[1])
			} else {
				emit("gpref " + strings.Join(fr, " "))
			}
		default:
			m := r.Intn(7)
			perm := ""
			if m > 0 {
				p := make([]int, m)
				for j := range p {
					p[j] = j
				}
				for j := m - 1; j > 0; j-- {
					x := r.Intn(j + 1)
					p[j], p[x] = p[x], p[j]
				}
				for _, x := range p {
					perm += " " + strconv.Itoa(x)
				}
			}
			opn := Pick(r, "prefd", "prefd", "pref")
			emit(fmt.Sprintf("%s %s %d %s%s", opn, hdr, m, tips(m, true), perm))
		}
	}
}
