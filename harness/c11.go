package main

// C11 / C12 — engine scenarios on the real protocol.Protocol.
//
// op:  eng <proto> <client|server> <gosched> | <step> <step> ...
//   L<t>.<v>   the local application enqueues that message (Protocol.SendMessage)
//   P<t>.<v>   the peer writes that message in a mux segment of its own
//   Q<t>.<v>   the peer writes that message in the same segment as the previous P/Q step
//   PX         the peer writes a well-formed message of an unknown type ([200])
//   PG         the peer writes bytes that are not CBOR (0xff 0xff)
// All L steps are issued by one application goroutine, all peer steps by the peer
// goroutine, concurrently and without waiting for each other (the peer ignores agency);
// <gosched> = number of runtime.Gosched() calls injected at every hook event (schedule
// perturbation); 99 = hold the receive loop after it took its token until the protocol has
// been stopped (the stopping window).
// out: H=<handled> E=<first error class> T=<local transitions of sent messages> W=<wire> | <events>
//
// op:  pair <proto> <gosched> | <c|s><t>.<v> ...      (C12)
//   a protocol-conforming conversation run between TWO real engines (client and server)
//   connected by real muxers over one in-memory pipe.  The client application enqueues all
//   its messages up front (pipelining); the server application enqueues its replies from
//   the message handler, as the real servers do.
// out: A:H=.. E=.. T=.. W=.. B:H=.. E=.. T=.. W=.. | <client events> | <server events>

import (
	"fmt"
	"net"
	"strconv"
	"strings"
	"sync"
	"sync/atomic"
	"time"

	"github.com/blinklabs-io/gouroboros/cbor"
	"github.com/blinklabs-io/gouroboros/muxer"
	"github.com/blinklabs-io/gouroboros/protocol"
	"github.com/blinklabs-io/gouroboros/protocol/blockfetch"
)

func init() {
	register(&Prop{ID: "C11", Gen: genC11, Run: runEngOp, Timeout: 10 * time.Minute})
}

type g3Step struct {
	kind string // L P Q PX PG A
	s    *g3Sample
	pad  int // L<t>.<v>@N: the message is padded so that its encoding is exactly N bytes
	wait int // A: number of peer messages that must have been handled before the application goes on
}

// g3PaddedMsg builds a message of the sample's type whose CBOR encoding is exactly n bytes
// (block-fetch MsgBlock only: the block body is opaque to the engine).
func g3PaddedMsg(p *g3Proto, s *g3Sample, n int) protocol.Message {
	if !strings.HasPrefix(p.Name, "blockfetch") || s.Type != blockfetch.MessageTypeBlock {
		return nil
	}
	k := n - 16
	if k < 0 {
		k = 0
	}
	for tries := 0; tries < 64; tries++ {
		m := blockfetch.NewMsgBlock(make([]byte, k))
		d, err := cbor.Encode(m)
		if err != nil {
			return nil
		}
		if len(d) == n {
			return blockfetch.NewMsgBlock(make([]byte, k))
		}
		k += n - len(d)
		if k < 0 {
			return nil
		}
	}
	return nil
}

func g3ParseSteps(p *g3Proto, toks []string) ([]g3Step, bool) {
	out := []g3Step{}
	for _, t := range toks {
		switch {
		case t == "PX" || t == "PG":
			out = append(out, g3Step{kind: t})
		case t == "A":
			// the application waits until every peer message listed so far has been handled
			n := 0
			for _, o := range out {
				if o.kind == "P" || o.kind == "Q" {
					n++
				}
			}
			out = append(out, g3Step{kind: "A", wait: n})
		case len(t) > 1 && (t[0] == 'L' || t[0] == 'P' || t[0] == 'Q'):
			body, pad := t[1:], 0
			if i := strings.IndexByte(body, '@'); i >= 0 {
				n, err := strconv.Atoi(body[i+1:])
				if err != nil || n < 1 || n > 4000000 || t[0] != 'L' {
					return nil, false
				}
				body, pad = body[:i], n
			}
			s := g3ParseSym(p, body)
			if s == nil {
				return nil, false
			}
			if pad > 0 && g3PaddedMsg(p, s, pad) == nil {
				return nil, false
			}
			out = append(out, g3Step{kind: t[:1], s: s, pad: pad})
		default:
			return nil, false
		}
	}
	return out, true
}

func symStr(s *g3Sample) string { return fmt.Sprintf("%d.%d", s.Type, s.Variant) }

// g3RenderTrace renders the hook events with the symbols resolved by FIFO position
// (the hooks carry message types only; queues are FIFO, so the k-th dequeue is the k-th enqueue).
func g3RenderTrace(ev []g3Event, locals, peers []*g3Sample) (trace string, handled []string, firstErr string, strans []string) {
	var sb strings.Builder
	nEnq, nDeq, nRq, nRtr, nQd := 0, 0, 0, 0, 0
	queued := []*g3Sample{} // messages dequeued at batch position > 1, in order
	var lastHead *g3Sample
	firstErr = "-"
	get := func(xs []*g3Sample, i int) string {
		if i < len(xs) {
			return symStr(xs[i])
		}
		return "?"
	}
	pendS, pendR, awaitH := "", "", ""
	for _, e := range ev {
		tok := ""
		switch e.Kind {
		case "enq":
			tok = "enq:" + get(locals, nEnq)
			nEnq++
		case "deq":
			tok = fmt.Sprintf("deq:%s:%d", get(locals, nDeq), e.C)
			if nDeq < len(locals) {
				if e.C == 1 {
					lastHead = locals[nDeq]
				} else {
					queued = append(queued, locals[nDeq])
				}
			}
			nDeq++
		case "strans":
			sym := "?"
			if e.B == 0 {
				if lastHead != nil {
					sym = symStr(lastHead)
				}
			} else {
				if nQd < len(queued) {
					sym = symStr(queued[nQd])
				}
				nQd++
			}
			// the hook reports the type of the message the engine is really applying
			if !strings.HasPrefix(sym, fmt.Sprintf("%d.", e.A)) {
				sym = fmt.Sprintf("%d.0", e.A)
			}
			pendS = sym
			tok = fmt.Sprintf("strans:%s:%d", sym, e.B)
		case "rq":
			tok = "rq:" + get(peers, nRq)
			nRq++
		case "rtrans":
			pendR = get(peers, nRtr)
			tok = "rtrans:" + pendR
			nRtr++
		case "trans":
			tok = fmt.Sprintf("trans:%d:%d:%d", e.A*100000, e.B*100000, e.C)
			if pendS != "" {
				strans = append(strans, pendS)
				pendS = ""
			} else if pendR != "" {
				awaitH = pendR
				pendR = ""
			}
		case "transerr":
			tok = fmt.Sprintf("transerr:%d:%d", e.A*100000, e.C)
			if pendS != "" {
				pendS = ""
			} else {
				pendR = ""
			}
		case "state":
			tok = fmt.Sprintf("state:%d:%d", e.A*100000, e.C)
		case "tokput":
			tok = fmt.Sprintf("tokput:%d:%d", e.A, e.B)
		case "seg":
			tok = "seg"
		case "stok", "rtok":
			tok = e.Kind
		case "handle":
			tok = fmt.Sprintf("handle:%d", e.A)
			handled = append(handled, awaitH)
			awaitH = ""
		case "error":
			tok = "error:" + g3ErrClass(e.Data)
			if firstErr == "-" {
				firstErr = g3ErrClass(e.Data)
			}
		default:
			tok = "o:" + e.Kind
		}
		if sb.Len() > 0 {
			sb.WriteByte(' ')
		}
		sb.WriteString(tok)
	}
	return sb.String(), handled, firstErr, strans
}

func joinOrDash(xs []string) string {
	if len(xs) == 0 {
		return "-"
	}
	return strings.Join(xs, ",")
}

func wireStr(w []uint8) string {
	if len(w) == 0 {
		return "-"
	}
	s := make([]string, len(w))
	for i, t := range w {
		s[i] = strconv.Itoa(int(t))
	}
	return strings.Join(s, ",")
}

// g3Predict runs the canonical conversation on the implementation's own nextState to know
// how many transition attempts to wait for (used for waiting only, never for a verdict).
func g3Predict(p *g3Proto, role protocol.ProtocolRole, locals, peers []g3Step) (attempts int, handles int, wantErr bool, garbage bool) {
	pr, done := p.buildDetached(role)
	defer done()
	sm := pr.VerifStateMap()
	cur := pr.VerifInitialState()
	li, pi := 0, 0
	for {
		ag := sm[cur].Agency
		if ag == protocol.AgencyNone {
			break
		}
		local := (ag == protocol.AgencyClient && role == protocol.ProtocolRoleClient) ||
			(ag == protocol.AgencyServer && role == protocol.ProtocolRoleServer)
		if local {
			if li >= len(locals) {
				break
			}
			ns, err := pr.VerifNextState(cur, locals[li].s.Make())
			li++
			attempts++
			if err != nil {
				wantErr = true
				break
			}
			cur = ns
		} else {
			if pi >= len(peers) {
				break
			}
			st := peers[pi]
			pi++
			if st.s == nil {
				wantErr = true
				garbage = true
				break
			}
			ns, err := pr.VerifNextState(cur, st.s.Make())
			attempts++
			if err != nil {
				wantErr = true
				break
			}
			handles++
			cur = ns
		}
	}
	for _, st := range peers {
		if st.s == nil {
			garbage = true
			wantErr = true
		}
	}
	return
}

func runEngOp(op string) string {
	parts := strings.SplitN(op, "|", 2)
	if len(parts) != 2 {
		return "bad-op"
	}
	hd := strings.Fields(parts[0])
	if len(hd) >= 1 && hd[0] == "pair" {
		return runPairOp(hd, strings.Fields(parts[1]))
	}
	if len(hd) != 4 || hd[0] != "eng" {
		return "bad-op"
	}
	p := g3FindProto(hd[1])
	role, ok := g3ParseRole(hd[2])
	ngs, err := strconv.Atoi(hd[3])
	if p == nil || !ok || err != nil || ngs < 0 || (ngs > 50 && ngs != 99) {
		return "bad-op"
	}
	steps, ok := g3ParseSteps(p, strings.Fields(parts[1]))
	if !ok {
		return "bad-op"
	}
	var locals, peers, script []g3Step
	for _, s := range steps {
		switch s.kind {
		case "L":
			locals = append(locals, s)
			script = append(script, s)
		case "A":
			script = append(script, s)
		default:
			peers = append(peers, s)
		}
	}
	if len(locals) > 70 {
		return "bad-op"
	}
	var perturb func(string)
	var fx *g3Fixture
	var fxp atomic.Pointer[g3Fixture]
	if ngs == 99 {
		// "stopping window" schedule: the receive loop, having just taken its ready token, is held
		// until the protocol has been stopped (or for at most 300 ms), so that it resumes with a
		// message in its queue AND a closed stop channel.  Affects only which schedule is seen.
		perturb = func(kind string) {
			if f := fxp.Load(); kind == "rtok" && f != nil {
				f.waitFor(300*time.Millisecond, func(ev []g3Event, _ []uint8) bool {
					for _, e := range ev {
						if e.Kind == "stop" {
							return true
						}
					}
					return false
				})
			}
		}
	} else if ngs > 0 {
		perturb = func(string) { g3Gosched(ngs) }
	}
	fx = newG3Fixture(p, role, g3FixOpts{perturb: perturb, slowTimers: true})
	fxp.Store(fx)
	defer fx.close()
	attempts, handles, wantErr, _ := g3Predict(p, role, locals, peers)
	var wg sync.WaitGroup
	wg.Add(2)
	go func() {
		defer wg.Done()
		for _, s := range script {
			if s.kind == "A" {
				want := s.wait
				fx.waitFor(g3Deadline, func(ev []g3Event, _ []uint8) bool {
					n := 0
					for _, e := range ev {
						if e.Kind == "handled" {
							n++
						}
						if e.Kind == "stop" {
							return true
						}
					}
					return n >= want
				})
				continue
			}
			var m protocol.Message
			if s.pad > 0 {
				m = g3PaddedMsg(p, s.s, s.pad)
			} else {
				m = s.s.Make()
			}
			if err := fx.P.SendMessage(m); err != nil {
				return
			}
		}
	}()
	go func() {
		defer wg.Done()
		// group into segments
		var seg []byte
		flush := func() bool {
			if len(seg) == 0 {
				return true
			}
			err := fx.peerSegment(seg)
			seg = nil
			return err == nil
		}
		for _, s := range peers {
			var data []byte
			switch s.kind {
			case "PX":
				data, _ = cbor.Encode([]any{uint64(200)})
			case "PG":
				data = []byte{0xff, 0xff}
			default:
				data, _ = cbor.Encode(s.s.Make())
			}
			if s.kind != "Q" {
				if !flush() {
					return
				}
			}
			seg = append(seg, data...)
		}
		flush()
	}()
	// Wait for the predicted end of the conversation.  Every wait below is on hook events (or
	// on bytes received by the raw peer), never on elapsed time; the deadline only matters
	// when the engine is really stuck.
	ended := fx.waitFor(g3Deadline, func(ev []g3Event, _ []uint8) bool {
		na, nh, ne, nstop := 0, 0, 0, 0
		var deqB, segB uint64
		for _, e := range ev {
			switch e.Kind {
			case "trans", "transerr":
				na++
			case "handled":
				nh++
			case "error":
				ne++
			case "stop":
				nstop++
			case "deq":
				deqB += e.B
			case "seg":
				segB += e.A
			}
		}
		// an error that stopped the protocol ends every scenario (expected or not)
		if ne > 0 && nstop > 0 {
			return true
		}
		if wantErr {
			return false
		}
		// no error expected: every transition applied, every handler returned, and every
		// dequeued message handed to the muxer
		return na >= attempts && nh >= handles && segB >= deqB
	})
	if !ended {
		return "STUCK (conversation did not reach its predicted end within the deadline)"
	}
	// everything handed to the muxer so far must have reached the peer before the wire is read
	if !fx.waitWireDrained() {
		return "STUCK (peer did not receive the segments handed to the muxer)"
	}
	done := make(chan struct{})
	go func() { wg.Wait(); close(done) }()
	fx.close()
	select {
	case <-done:
	case <-time.After(g3Deadline):
	}
	ev, wire := fx.snapshot()
	ls := []*g3Sample{}
	for _, s := range locals {
		ls = append(ls, s.s)
	}
	ps := []*g3Sample{}
	for _, s := range peers {
		if s.s == nil {
			break
		}
		ps = append(ps, s.s)
	}
	tr, handled, firstErr, strans := g3RenderTrace(ev, ls, ps)
	fx.mu.Lock()
	empty := 0
	for _, n := range fx.segLens {
		if n == 0 {
			empty++
		}
	}
	fx.mu.Unlock()
	return fmt.Sprintf("H=%s E=%s T=%s W=%s Z=%d | %s", joinOrDash(handled), firstErr, joinOrDash(strans), wireStr(wire), empty, tr)
}

// ---------------------------------------------------------------- generator (C11)

type g3Walker struct {
	p    *g3Proto
	role protocol.ProtocolRole
	m    *g3Machine
}

func g3Walkers(skipVotes bool) []g3Walker {
	protos := g3Protocols()
	ws := []g3Walker{}
	for i := range protos {
		if skipVotes && protos[i].Name == "leiosvotes" {
			continue // its state ids depend on a counter the hook events do not carry
		}
		if strings.HasSuffix(protos[i].Name, "-v20") {
			continue // same engine and state map as localtxmonitor; only C16 looks at the version
		}
		for _, role := range []protocol.ProtocolRole{protocol.ProtocolRoleClient, protocol.ProtocolRoleServer} {
			ws = append(ws, g3Walker{&protos[i], role, g3Explore(&protos[i], role)})
		}
	}
	return ws
}

func (w g3Walker) localAt(state uint64) bool {
	for _, a := range w.m.States {
		if a.id() == state {
			ag := w.m.Entries[a.id()].Agency
			return (ag == protocol.AgencyClient && w.role == protocol.ProtocolRoleClient) ||
				(ag == protocol.AgencyServer && w.role == protocol.ProtocolRoleServer)
		}
	}
	return false
}

// walk returns a conforming conversation as (isLocal, sample index) pairs
func (w g3Walker) walk(r *Rand, n int) [][2]int {
	cur := w.m.Init.id()
	out := [][2]int{}
	for i := 0; i < n; i++ {
		cands := [][3]uint64{}
		for _, t := range w.m.Trans {
			if t[0] == cur {
				cands = append(cands, t)
			}
		}
		if len(cands) == 0 {
			break
		}
		t := cands[r.Intn(len(cands))]
		// avoid terminating too early most of the time
		if w.m.Entries[t[2]].Agency == protocol.AgencyNone && i < n-1 && r.Chance(3, 4) && len(cands) > 1 {
			t = cands[r.Intn(len(cands))]
		}
		loc := 0
		if w.localAt(cur) {
			loc = 1
		}
		out = append(out, [2]int{loc, int(t[1])})
		cur = t[2]
	}
	return out
}

func genC11(r *Rand, n int, tier string, emit func(string)) {
	ws := g3Walkers(true)
	for i := 0; i < n; i++ {
		w := ws[i%len(ws)]
		conv := w.walk(r, 1+r.Intn(12))
		toks := []string{}
		prevPeer := false
		mut := r.Intn(6) // 0: conforming; others: adversarial variants
		badAt := -1
		if mut != 0 && len(conv) > 0 {
			badAt = r.Intn(len(conv) + 1)
		}
		for k := 0; k <= len(conv); k++ {
			if k == badAt {
				switch mut {
				case 1: // well-typed message of this protocol, wherever it lands
					s := w.p.Samples[r.Intn(len(w.p.Samples))]
					toks = append(toks, "P"+symStr(&s))
				case 2:
					toks = append(toks, "PX")
				case 3:
					toks = append(toks, "PG")
				case 4: // a burst of arbitrary messages
					for j := 0; j < 2+r.Intn(4); j++ {
						s := w.p.Samples[r.Intn(len(w.p.Samples))]
						toks = append(toks, Pick(r, "P", "Q")+symStr(&s))
					}
				case 5: // the peer repeats its previous message
					if k > 0 && conv[k-1][0] == 0 {
						toks = append(toks, "P"+symStr(&w.p.Samples[conv[k-1][1]]))
					} else {
						s := w.p.Samples[r.Intn(len(w.p.Samples))]
						toks = append(toks, "P"+symStr(&s))
					}
				}
				prevPeer = true
			}
			if k == len(conv) {
				break
			}
			s := &w.p.Samples[conv[k][1]]
			if conv[k][0] == 1 {
				toks = append(toks, "L"+symStr(s))
			} else {
				pre := "P"
				if prevPeer && r.Chance(1, 3) {
					pre = "Q"
				}
				toks = append(toks, pre+symStr(s))
				prevPeer = true
			}
		}
		gs := Pick(r, 0, 0, 1, 3, 10)
		if (mut == 2 || mut == 3) && r.Chance(1, 2) {
			gs = 99 // stopping window: queued messages meet a stopped protocol
		}
		emit(fmt.Sprintf("eng %s %s %d | %s", w.p.Name, g3RoleName(w.role), gs, strings.Join(toks, " ")))
	}
}

// ---------------------------------------------------------------- two engines back to back (C12)

func runPairOp(hd []string, toks []string) string {
	if len(hd) != 3 {
		return "bad-op"
	}
	p := g3FindProto(hd[1])
	ngs, err := strconv.Atoi(hd[2])
	if p == nil || err != nil || ngs < 0 || ngs > 50 {
		return "bad-op"
	}
	type cm struct {
		client bool
		s      *g3Sample
	}
	conv := []cm{}
	for _, t := range toks {
		if len(t) < 2 || (t[0] != 'c' && t[0] != 's') {
			return "bad-op"
		}
		s := g3ParseSym(p, t[1:])
		if s == nil {
			return "bad-op"
		}
		conv = append(conv, cm{t[0] == 'c', s})
	}
	var perturb func(string)
	if ngs > 0 {
		perturb = func(string) { g3Gosched(ngs) }
	}
	a, b := net.Pipe()
	mk := func(conn net.Conn, role protocol.ProtocolRole) *g3Fixture {
		f := &g3Fixture{proto: p, role: role, local: conn, errCh: make(chan error, 64), perturb: perturb}
		f.cond = sync.NewCond(&f.mu)
		f.mux = muxer.New(conn)
		opts := protocol.ProtocolOptions{Muxer: f.mux, ErrorChan: f.errCh, Mode: p.Mode, Role: role, Version: p.Version}
		built := p.Build(role, opts)
		cfg := built.VerifConfig()
		cfg.ErrorChan = f.errCh
		cfg.MessageHandlerFunc = func(m protocol.Message) error {
			if f.onHandle != nil {
				return f.onHandle(m)
			}
			return nil
		}
		sm := cfg.StateMap.Copy()
		for s, e := range sm {
			if e.Timeout > 0 && e.Timeout < time.Hour {
				e.Timeout = time.Hour
			}
			if e.TimeoutFunc != nil {
				e.TimeoutFunc = func() time.Duration { return time.Hour }
			}
			sm[s] = e
		}
		cfg.StateMap = sm
		f.cfg = cfg
		return f
	}
	fa := mk(a, protocol.ProtocolRoleClient)
	fb := mk(b, protocol.ProtocolRoleServer)
	// the server application: after handling the j-th client message, enqueue the server
	// messages that follow it in the conversation (up to the next client message)
	var cl, sv []*g3Sample
	replyAfter := map[int][]*g3Sample{} // index of client message (1-based count) -> replies; 0 = before any
	nc := 0
	for _, c := range conv {
		if c.client {
			nc++
			cl = append(cl, c.s)
		} else {
			sv = append(sv, c.s)
			replyAfter[nc] = append(replyAfter[nc], c.s)
		}
	}
	handledB := 0
	fb.onHandle = func(protocol.Message) error {
		handledB++
		for _, s := range replyAfter[handledB] {
			if err := fb.P.SendMessage(s.Make()); err != nil {
				return nil
			}
		}
		return nil
	}
	fa.P = protocol.New(fa.cfg)
	fb.P = protocol.New(fb.cfg)
	g3FixMu.Lock()
	g3Fixtures[fa.P] = fa
	g3Fixtures[fb.P] = fb
	g3FixMu.Unlock()
	fa.mux.Start()
	fb.mux.Start()
	fa.P.Start()
	fb.P.Start()
	go func() {
		for _, s := range replyAfter[0] {
			if fb.P.SendMessage(s.Make()) != nil {
				return
			}
		}
	}()
	go func() {
		for _, s := range cl {
			if fa.P.SendMessage(s.Make()) != nil {
				return
			}
		}
	}()
	total := len(conv)
	_ = total
	cnt := func(f *g3Fixture, wantHandled int) (int, int) {
		ev, _ := f.snapshot()
		n, e, h := 0, 0, 0
		for _, x := range ev {
			if x.Kind == "trans" || x.Kind == "transerr" {
				n++
			}
			if x.Kind == "handled" {
				h++
			}
			if x.Kind == "error" {
				e++
			}
		}
		if h < wantHandled && n >= total {
			n = total - 1 // handlers still running
		}
		return n, e
	}
	deadline := time.Now().Add(g3Deadline)
	ended := false
	for time.Now().Before(deadline) {
		na, ea := cnt(fa, len(sv))
		nb, eb := cnt(fb, len(cl))
		if (na >= total && nb >= total) || ea > 0 || eb > 0 {
			ended = true
			break
		}
		// poll on either side's next event (both fixtures have their own condition variable)
		fa.waitFor(10*time.Millisecond, func([]g3Event, []uint8) bool { return false })
	}
	if !ended {
		return "STUCK (pair conversation did not complete within the deadline)"
	}
	for _, f := range []*g3Fixture{fa, fb} {
		f.mux.Stop()
	}
	_ = a.Close()
	_ = b.Close()
	for _, f := range []*g3Fixture{fa, fb} {
		f.P.Stop()
	}
	for _, f := range []*g3Fixture{fa, fb} {
		select {
		case <-f.P.DoneChan():
		case <-time.After(g3Deadline):
		}
	}
	g3FixMu.Lock()
	delete(g3Fixtures, fa.P)
	delete(g3Fixtures, fb.P)
	g3FixMu.Unlock()
	eva, _ := fa.snapshot()
	evb, _ := fb.snapshot()
	ta, ha, ea, sa := g3RenderTrace(eva, cl, sv)
	tb, hb, eb, sb := g3RenderTrace(evb, sv, cl)
	return fmt.Sprintf("A:H=%s E=%s T=%s B:H=%s E=%s T=%s | %s | %s",
		joinOrDash(ha), ea, joinOrDash(sa), joinOrDash(hb), eb, joinOrDash(sb), ta, tb)
}
