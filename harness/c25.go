package main

// C25 — local request/response calls get their own answers.
//
//   rr <lsq|ltm|lts|ps> <G> <K> <seed>
//
// G goroutines issue K calls each against the library's real client of the
// protocol; the remote end is a raw scripted *tagging* server: every reply is a
// function of the request it answers (and, for parameterless requests, carries
// a fresh sequence number in a range that identifies the request kind).
//   lsq  local-state-query : Acquire(point t) (points with t%5==0 are refused),
//        GetNonMyopicMemberRewards([t]) -> amount t (the query carries the era the client believes in;
//        the era of the server's state depends on the acquired point: a stale cached era is flagged),
//        GetChainBlockNo -> 1e6+seq,
//        GetChainPoint -> slot 2e6+seq; Acquire/Release only by goroutine 0 (Release right after its own
//        successful Acquire: releasing while nothing is acquired is an API misuse, not a library matter)
//   ltm  local-tx-monitor  : HasTx(id) -> id[0] odd, NextTx -> tx tagged 0xA7+seq,
//        GetSizes -> n = 3e6+seq, Acquire, Release (goroutine 0 as above)
//   lts  local-tx-submission: SubmitTx(tx tagged t) -> accepted iff t even, else rejected with reason t
//   ps   peer-sharing      : GetPeers(a) -> a peers, all with port a
//
// Output: calls=<n> own=<n> foreign=<n> err=<n> dup=<n>[ first=<detail>]
//   own: the call returned the reply to the request it sent; foreign: it
//   returned some other request's reply; dup: two calls returned the same
//   sequence-numbered reply; err: unexpected error / hang.

import (
	"bytes"
	"errors"
	"fmt"
	"net"
	"strconv"
	"strings"
	"sync"
	"time"

	"github.com/blinklabs-io/gouroboros/cbor"
	"github.com/blinklabs-io/gouroboros/ledger"
	"github.com/blinklabs-io/gouroboros/protocol"
	pcommon "github.com/blinklabs-io/gouroboros/protocol/common"
	"github.com/blinklabs-io/gouroboros/protocol/localstatequery"
	"github.com/blinklabs-io/gouroboros/protocol/localtxmonitor"
	"github.com/blinklabs-io/gouroboros/protocol/localtxsubmission"
	"github.com/blinklabs-io/gouroboros/protocol/peersharing"
)

func init() {
	register(&Prop{ID: "C25", Gen: genC25, Run: runC25, Timeout: 60 * time.Second})
}

func genC25(r *Rand, n int, tier string, emit func(string)) {
	for i := 0; i < n; i++ {
		g := Pick(r, 1, 2, 2, 3, 4, 6, 8)
		k := 1 + r.Intn(25)
		emit(fmt.Sprintf("rr %s %d %d %d", Pick(r, "lsq", "ltm", "lts", "ps", "ps"), g, k, r.Intn(1000000)))
	}
}

// c25LastUint walks a decoded CBOR value and returns the last unsigned integer in it.
func c25LastUint(v any) (uint64, bool) {
	switch t := v.(type) {
	case uint64:
		return t, true
	case []any:
		for i := len(t) - 1; i >= 0; i-- {
			if u, ok := c25LastUint(t[i]); ok {
				return u, true
			}
		}
	case cbor.Tag:
		return c25LastUint(t.Content)
	case cbor.SetType[any]:
		return c25LastUint(t.Items())
	}
	return 0, false
}

type c25Verdict struct {
	kind string // own | foreign | err
	info string
	seq  int64 // sequence-numbered reply consumed (−1 none)
}

func c25Hash28(t uint64) ledger.Blake2b224 {
	var h ledger.Blake2b224
	h[0] = byte(t)
	h[1] = byte(t >> 8)
	h[27] = 0x5a
	return h
}

func runC25(op string) string {
	f := strings.Fields(op)
	if len(f) != 5 || f[0] != "rr" {
		return "bad-op"
	}
	G, e1 := strconv.Atoi(f[2])
	K, e2 := strconv.Atoi(f[3])
	seed, e3 := strconv.Atoi(f[4])
	if e1 != nil || e2 != nil || e3 != nil || G < 1 || G > 32 || K < 1 || K > 1000 {
		return "bad-op"
	}
	l := newG5Link()
	defer l.close()
	var call func(g int, r *Rand, state *int) c25Verdict
	var protoId uint16
	var serve func(msg []byte, seq *int64) [][]byte

	errV := func(err error) c25Verdict { return c25Verdict{"err", strings.ReplaceAll(err.Error(), " ", "_"), -1} }
	switch f[1] {
	case "ps":
		protoId = peersharing.ProtocolId
		cfg := peersharing.NewConfig()
		cli := peersharing.NewClient(l.opts(protocol.ProtocolModeNodeToNode), &cfg)
		cli.Start()
		call = func(g int, r *Rand, _ *int) c25Verdict {
			a := uint8(1 + r.Intn(20))
			peers, err := cli.GetPeers(a)
			if err != nil {
				return errV(err)
			}
			if len(peers) != int(a) {
				return c25Verdict{"foreign", fmt.Sprintf("GetPeers(%d)->%d-peers", a, len(peers)), -1}
			}
			for _, p := range peers {
				if p.Port != uint16(a) {
					return c25Verdict{"foreign", fmt.Sprintf("GetPeers(%d)->port%d", a, p.Port), -1}
				}
			}
			return c25Verdict{"own", "", -1}
		}
		serve = func(msg []byte, _ *int64) [][]byte {
			m, err := peersharing.NewMsgFromCbor(peersharing.MessageTypeShareRequest, msg)
			if err != nil {
				return nil
			}
			req, ok := m.(*peersharing.MsgShareRequest)
			if !ok {
				return nil
			}
			peers := make([]peersharing.PeerAddress, req.Amount)
			for i := range peers {
				peers[i] = peersharing.PeerAddress{IP: net.IPv4(10, 0, 0, byte(i+1)), Port: uint16(req.Amount)}
			}
			return [][]byte{g5enc(peersharing.NewMsgSharePeers(peers))}
		}
	case "lts":
		protoId = localtxsubmission.ProtocolId
		cfg := localtxsubmission.NewConfig()
		cli := localtxsubmission.NewClient(l.opts(protocol.ProtocolModeNodeToClient), &cfg)
		cli.Start()
		call = func(g int, r *Rand, _ *int) c25Verdict {
			t := byte(r.Intn(24)) // one-byte CBOR uint = the "transaction"
			err := cli.SubmitTx(6, []byte{t})
			if t%2 == 0 {
				if err == nil {
					return c25Verdict{"own", "", -1}
				}
				return c25Verdict{"foreign", fmt.Sprintf("Submit(%d)->rejected", t), -1}
			}
			var rej localtxsubmission.TransactionRejectedError
			if !errors.As(err, &rej) {
				if err == nil {
					return c25Verdict{"foreign", fmt.Sprintf("Submit(%d)->accepted", t), -1}
				}
				return errV(err)
			}
			var reason []any
			if _, e := cbor.Decode(rej.ReasonCbor, &reason); e == nil {
				if u, ok := c25LastUint(reason); ok && u == uint64(t) {
					return c25Verdict{"own", "", -1}
				}
			}
			return c25Verdict{"foreign", fmt.Sprintf("Submit(%d)->reason%x", t, rej.ReasonCbor), -1}
		}
		serve = func(msg []byte, _ *int64) [][]byte {
			m, err := localtxsubmission.NewMsgFromCbor(localtxsubmission.MessageTypeSubmitTx, msg)
			if err != nil {
				return nil
			}
			req, ok := m.(*localtxsubmission.MsgSubmitTx)
			if !ok {
				return nil
			}
			raw, _ := req.Transaction.Raw.Content.([]byte)
			if len(raw) == 0 {
				return nil
			}
			if raw[0]%2 == 0 {
				return [][]byte{g5enc(localtxsubmission.NewMsgAcceptTx())}
			}
			return [][]byte{g5enc(localtxsubmission.NewMsgRejectTx(g5enc([]any{[]any{uint64(raw[0])}})))}
		}
	case "ltm":
		protoId = localtxmonitor.ProtocolId
		cfg := localtxmonitor.NewConfig()
		cli := localtxmonitor.NewClient(l.opts(protocol.ProtocolModeNodeToClient), &cfg)
		cli.Start()
		call = func(g int, r *Rand, state *int) c25Verdict {
			if g == 0 && *state == 1 {
				*state = 0
				if err := cli.Release(); err != nil {
					return errV(err)
				}
				return c25Verdict{"own", "", -1}
			}
			k := r.Intn(5)
			if k == 0 && g != 0 {
				k = 3
			}
			switch k {
			case 0:
				if g == 0 {
					*state = 1
				}
				if err := cli.Acquire(); err != nil {
					return errV(err)
				}
				return c25Verdict{"own", "", -1}
			case 1:
				tx, err := cli.NextTx()
				if err != nil {
					return errV(err)
				}
				if len(tx) == 9 && tx[0] == 0xA7 {
					var s int64
					for _, b := range tx[1:] {
						s = s<<8 | int64(b)
					}
					return c25Verdict{"own", "", s}
				}
				return c25Verdict{"foreign", fmt.Sprintf("NextTx->%x", tx), -1}
			case 2:
				_, _, n, err := cli.GetSizes()
				if err != nil {
					return errV(err)
				}
				if n >= 3000000 && n < 4000000 {
					return c25Verdict{"own", "", int64(n - 3000000)}
				}
				return c25Verdict{"foreign", fmt.Sprintf("GetSizes->%d", n), -1}
			default:
				t := byte(r.Intn(256))
				res, err := cli.HasTx([]byte{t, 1, 2, 3})
				if err != nil {
					return errV(err)
				}
				if res == (t%2 == 1) {
					return c25Verdict{"own", "", -1}
				}
				return c25Verdict{"foreign", fmt.Sprintf("HasTx(%d)->%v", t, res), -1}
			}
		}
		serve = func(msg []byte, seq *int64) [][]byte {
			items := c24Items(msg)
			if len(items) == 0 {
				return nil
			}
			var mt uint64
			_, _ = cbor.Decode(items[0], &mt)
			switch mt {
			case localtxmonitor.MessageTypeAcquire:
				return [][]byte{g5enc(localtxmonitor.NewMsgAcquired(42))}
			case localtxmonitor.MessageTypeRelease:
				return nil
			case localtxmonitor.MessageTypeHasTx:
				m, err := localtxmonitor.NewMsgFromCbor(uint(mt), msg)
				if err != nil {
					return nil
				}
				id := m.(*localtxmonitor.MsgHasTx).TxId
				return [][]byte{g5enc(localtxmonitor.NewMsgReplyHasTx(len(id) > 0 && id[0]%2 == 1))}
			case localtxmonitor.MessageTypeNextTx:
				*seq++
				tx := []byte{0xA7, 0, 0, 0, 0, 0, 0, 0, 0}
				for i := 0; i < 8; i++ {
					tx[8-i] = byte(*seq >> (8 * i))
				}
				return [][]byte{g5enc(localtxmonitor.NewMsgReplyNextTx(6, tx))}
			case localtxmonitor.MessageTypeGetSizes:
				*seq++
				return [][]byte{g5enc(localtxmonitor.NewMsgReplyGetSizes(7, 8, uint32(3000000+*seq)))}
			}
			return nil
		}
	case "lsq":
		protoId = localstatequery.ProtocolId
		cfg := localstatequery.NewConfig()
		cli := localstatequery.NewClient(l.opts(protocol.ProtocolModeNodeToClient), &cfg)
		cli.Start()
		call = func(g int, r *Rand, state *int) c25Verdict {
			// goroutine 0, while it holds an acquired point: release (1/3), re-acquire another
			// point (1/3) or query the acquired state (1/3)
			if g == 0 && *state == 1 && r.Chance(1, 3) {
				*state = 0
				if err := cli.Release(); err != nil {
					return errV(err)
				}
				return c25Verdict{"own", "", -1}
			}
			k := r.Intn(5)
			if g == 0 && *state == 1 {
				k = Pick(r, 0, 3)
			}
			if k == 0 && g != 0 {
				k = 3 // only goroutine 0 acquires/releases: Release is only legal while acquired
			}
			switch k {
			case 0:
				t := uint64(1 + r.Intn(1000))
				err := cli.Acquire(&pcommon.Point{Slot: t, Hash: []byte{byte(t), byte(t >> 8)}})
				refused := errors.Is(err, localstatequery.ErrAcquireFailurePointTooOld)
				if err != nil && !refused {
					return errV(err)
				}
				if refused != (t%5 == 0) {
					return c25Verdict{"foreign", fmt.Sprintf("Acquire(%d)->refused=%v", t, refused), -1}
				}
				if g == 0 {
					// a refused (re-)acquire leaves nothing acquired
					*state = 0
					if !refused {
						*state = 1
					}
				}
				return c25Verdict{"own", "", -1}
			case 1:
				v, err := cli.GetChainBlockNo()
				if err != nil {
					return errV(err)
				}
				if v >= 1000000 && v < 2000000 {
					return c25Verdict{"own", "", v - 1000000}
				}
				return c25Verdict{"foreign", fmt.Sprintf("GetChainBlockNo->%d", v), -1}
			case 2:
				p, err := cli.GetChainPoint()
				if err != nil {
					return errV(err)
				}
				if p != nil && p.Slot >= 2000000 && p.Slot < 3000000 {
					return c25Verdict{"own", "", int64(p.Slot - 2000000)}
				}
				return c25Verdict{"foreign", fmt.Sprintf("GetChainPoint->%v", p), -1}
			default:
				t := uint64(1 + r.Intn(60000))
				res, err := cli.GetNonMyopicMemberRewards([]any{t})
				if err != nil {
					return errV(err)
				}
				if res != nil && len(*res) == 1 {
					for _, pools := range *res {
						for _, amt := range pools {
							if amt == t {
								return c25Verdict{"own", "", -1}
							}
							if amt == 999999 {
								return c25Verdict{"foreign", fmt.Sprintf("NonMyopic(%d)->stale-era", t), -1}
							}
							return c25Verdict{"foreign", fmt.Sprintf("NonMyopic(%d)->%d", t, amt), -1}
						}
					}
				}
				return c25Verdict{"foreign", fmt.Sprintf("NonMyopic(%d)->shape", t), -1}
			}
		}
		lsqEra := uint64(6) // era of the state the scripted server has acquired
		serve = func(msg []byte, seq *int64) [][]byte {
			items := c24Items(msg)
			if len(items) == 0 {
				return nil
			}
			var mt uint64
			_, _ = cbor.Decode(items[0], &mt)
			switch mt {
			case localstatequery.MessageTypeAcquire, localstatequery.MessageTypeReacquire:
				var whole []any
				_, _ = cbor.Decode(msg, &whole)
				// [type, [slot, hash]]
				slot := uint64(1)
				if len(whole) == 2 {
					if pt, ok := whole[1].([]any); ok && len(pt) == 2 {
						if s, ok := pt[0].(uint64); ok {
							slot = s
						}
					}
				}
				if slot%5 == 0 {
					return [][]byte{g5enc(localstatequery.NewMsgFailure(localstatequery.AcquireFailurePointTooOld))}
				}
				// the era of the ledger state depends on the acquired point: a client that
				// keeps an era from before the (re-)acquire sends queries for the wrong era
				lsqEra = 2 + slot%5
				return [][]byte{g5enc(localstatequery.NewMsgAcquired())}
			case localstatequery.MessageTypeAcquireVolatileTip, localstatequery.MessageTypeReacquireVolatileTip,
				localstatequery.MessageTypeAcquireImmutableTip, localstatequery.MessageTypeReacquireImmutableTip:
				lsqEra = 6
				return [][]byte{g5enc(localstatequery.NewMsgAcquired())}
			case localstatequery.MessageTypeRelease:
				return nil
			case localstatequery.MessageTypeQuery:
				var q []any
				if len(items) < 2 {
					return nil
				}
				if _, err := cbor.Decode(items[1], &q); err != nil || len(q) == 0 {
					return nil
				}
				top, _ := q[0].(uint64)
				var result []byte
				switch top {
				case localstatequery.QueryTypeChainBlockNo:
					*seq++
					result = g5enc([]any{uint64(1), uint64(1000000 + *seq)})
				case localstatequery.QueryTypeChainPoint:
					*seq++
					result = g5enc([]any{uint64(2000000 + *seq), []byte{1, 2, 3}})
				case localstatequery.QueryTypeBlock:
					inner, _ := q[1].([]any)
					kind := uint64(99)
					if len(inner) > 0 {
						kind, _ = inner[0].(uint64)
					}
					if kind == localstatequery.QueryTypeHardFork {
						result = g5enc(lsqEra) // current era of the acquired state
					} else {
						// [0, [0, [era, [2, set]]]]: the era the client believes in
						qEra := uint64(999)
						if len(inner) > 1 {
							if e2, ok := inner[1].([]any); ok && len(e2) > 0 {
								qEra, _ = e2[0].(uint64)
							}
						}
						// the caller's tag is the single element of the tag-258 set
						var t uint64
						if i := bytes.Index(msg, []byte{0xd9, 0x01, 0x02}); i >= 0 {
							var set []uint64
							if _, err := cbor.Decode(msg[i+3:], &set); err == nil && len(set) > 0 {
								t = set[0]
							}
						}
						h := c25Hash28(t)
						if qEra != lsqEra {
							t = 999999 // marker: query built for a stale era
						}
						res := localstatequery.NonMyopicMemberRewardsResult{
							localstatequery.StakeCredential{Tag: 0, Bytes: h}: {h: t},
						}
						result = g5enc([]any{res})
					}
				}
				if result == nil {
					return nil
				}
				return [][]byte{g5enc(localstatequery.NewMsgResult(result))}
			}
			return nil
		}
	default:
		return "bad-op"
	}

	// tagging server
	go func() {
		var seq int64
		for {
			msg, err := l.peer.recv(protoId, 600*time.Second)
			if err != nil {
				return
			}
			for _, rep := range serve(msg, &seq) {
				if err := l.peer.send(protoId|0x8000, rep); err != nil {
					return
				}
			}
		}
	}()

	var mu sync.Mutex
	own, foreign, errs, dup := 0, 0, 0, 0
	first := ""
	seen := map[int64]bool{}
	var wg sync.WaitGroup
	for g := 0; g < G; g++ {
		wg.Add(1)
		go func(g int) {
			defer wg.Done()
			r := NewRand(uint64(seed)*131 + uint64(g))
			state := 0
			for k := 0; k < K; k++ {
				v := call(g, r, &state)
				mu.Lock()
				switch v.kind {
				case "own":
					own++
				case "foreign":
					foreign++
				default:
					errs++
				}
				if v.kind != "own" && (first == "" || (v.kind == "err" && !strings.HasPrefix(first, "err"))) {
					first = v.kind + ":" + v.info
				}
				if v.seq >= 0 {
					if seen[v.seq] {
						dup++
					}
					seen[v.seq] = true
				}
				mu.Unlock()
				if v.kind == "err" {
					return
				}
			}
		}(g)
	}
	doneCh := make(chan struct{})
	go func() { wg.Wait(); close(doneCh) }()
	hang := ""
	select {
	case <-doneCh:
	case <-time.After(50 * time.Second):
		hang = " HANG"
		l.close()
		select {
		case <-doneCh:
		case <-time.After(2 * time.Second):
		}
	}
	mu.Lock()
	defer mu.Unlock()
	out := fmt.Sprintf("calls=%d own=%d foreign=%d err=%d dup=%d%s", G*K, own, foreign, errs, dup, hang)
	if first != "" {
		out += " first=" + first
	}
	if errs > 0 {
		if e := l.firstErr(50 * time.Millisecond); e != "" {
			out += " protoerr=" + strings.ReplaceAll(e, " ", "_")
		}
	}
	return out
}
