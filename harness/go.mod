module gvh

go 1.25.7

toolchain go1.25.8

require (
	filippo.io/edwards25519 v1.2.0
	github.com/blinklabs-io/gouroboros v0.188.0
	github.com/blinklabs-io/ouroboros-mock v0.16.0
	github.com/btcsuite/btcd/btcutil v1.2.0
	golang.org/x/crypto v0.55.0
)

require (
	github.com/bits-and-blooms/bitset v1.24.4 // indirect
	github.com/blinklabs-io/plutigo v0.3.0 // indirect
	github.com/btcsuite/btcd/btcec/v2 v2.5.0 // indirect
	github.com/btcsuite/btcd/chaincfg/chainhash v1.2.0 // indirect
	github.com/btcsuite/btcd/chainhash/v2 v2.0.0 // indirect
	github.com/consensys/gnark-crypto v0.20.1 // indirect
	github.com/decred/dcrd/crypto/blake256 v1.1.0 // indirect
	github.com/decred/dcrd/dcrec/secp256k1/v4 v4.4.0 // indirect
	github.com/fxamacker/cbor/v2 v2.9.2 // indirect
	github.com/jinzhu/copier v0.4.0 // indirect
	github.com/klauspost/cpuid/v2 v2.2.3 // indirect
	github.com/minio/sha256-simd v1.0.1 // indirect
	github.com/utxorpc/go-codegen v0.19.2 // indirect
	github.com/x448/float16 v0.8.4 // indirect
	golang.org/x/sys v0.47.0 // indirect
	google.golang.org/protobuf v1.36.12 // indirect
)

replace github.com/blinklabs-io/gouroboros => /repo
