package main

// C12 — outbound messages keep their order and drive the state machine in that order.
// Ops are those of c11.go (`eng …` with one real engine and a scripted peer, `pair …` with two
// real engines back to back).

import (
	"fmt"
	"strings"
	"time"
)

func init() {
	register(&Prop{ID: "C12", Gen: genC12, Run: runEngOp, Timeout: 10 * time.Minute})
}

func genC12(r *Rand, n int, tier string, emit func(string)) {
	ws := g3Walkers(true)
	for i := 0; i < n; i++ {
		w := ws[i%len(ws)]
		gs := Pick(r, 0, 0, 1, 3, 10)
		switch r.Intn(4) {
		case 0, 1:
			// conforming history, the local application enqueues everything up front
			// (pipelining), the scripted peer answers everything up front as well
			conv := w.walk(r, 1+r.Intn(16))
			toks := []string{}
			for _, c := range conv {
				s := &w.p.Samples[c[1]]
				if c[0] == 1 {
					toks = append(toks, "L"+symStr(s))
				} else {
					toks = append(toks, Pick(r, "P", "P", "Q")+symStr(s))
				}
			}
			if len(toks) > 0 && strings.HasPrefix(toks[0], "Q") {
				toks[0] = "P" + toks[0][1:]
			}
			emit(fmt.Sprintf("eng %s %s %d | %s", w.p.Name, g3RoleName(w.role), gs, strings.Join(toks, " ")))
		case 2:
			// a conforming prefix, then a local message that is (usually) not permitted there
			conv := w.walk(r, r.Intn(8))
			toks := []string{}
			for _, c := range conv {
				s := &w.p.Samples[c[1]]
				if c[0] == 1 {
					toks = append(toks, "L"+symStr(s))
				} else {
					toks = append(toks, "P"+symStr(s))
				}
			}
			s := w.p.Samples[r.Intn(len(w.p.Samples))]
			toks = append(toks, "L"+symStr(&s))
			if r.Chance(1, 2) {
				s2 := w.p.Samples[r.Intn(len(w.p.Samples))]
				toks = append(toks, "L"+symStr(&s2))
			}
			emit(fmt.Sprintf("eng %s %s %d | %s", w.p.Name, g3RoleName(w.role), gs, strings.Join(toks, " ")))
		default:
			// two real engines, conforming conversation with client pipelining
			conv := w.walk(r, 1+r.Intn(30))
			toks := []string{}
			for _, c := range conv {
				s := &w.p.Samples[c[1]]
				isClient := (c[0] == 1) == (g3RoleName(w.role) == "client")
				if isClient {
					toks = append(toks, "c"+symStr(s))
				} else {
					toks = append(toks, "s"+symStr(s))
				}
			}
			emit(fmt.Sprintf("pair %s %d | %s", w.p.Name, gs, strings.Join(toks, " ")))
		}
	}
}

var _ = time.Second
