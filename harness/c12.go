package main

// C12 — outbound messages keep their order and drive the state machine in that order.
// Ops are those of c11.go (`eng …` with one real engine and a scripted peer, `pair …` with two
// real engines back to back).

import (
	"fmt"
	"strings"
	"time"
)

func init() {
	register(&Prop{ID: "C12", Gen: genC12, Run: runEngOp, Timeout: 10 * time.Minute})
}

func genC12(r *Rand, n int, tier string, emit func(string)) {
	ws := g3Walkers(true)
	for i := 0; i < n; i++ {
		w := ws[i%len(ws)]
		gs := Pick(r, 0, 0, 1, 3, 10)
		switch r.Intn(6) {
		case 4:
			// large messages around the segment size: block-fetch server streaming blocks whose
			// encodings (alone, or together with the StartBatch that precedes them in the batch)
			// are exact multiples of the 65535-byte segment payload, one byte less, one byte more
			bw := ws[0]
			for _, x := range ws {
				if x.p.Name == "blockfetch" && g3RoleName(x.role) == "server" {
					bw = x
				}
			}
			toks := []string{"P0.0", "A", "L2.0"}
			nb := 1 + r.Intn(3)
			for j := 0; j < nb; j++ {
				n := Pick(r, 65533, 65535, 65535, 65534, 65536, 131068, 131070, 131071, 196605, 50, 70000)
				toks = append(toks, fmt.Sprintf("L4.0@%d", n))
			}
			toks = append(toks, "L5.0")
			if r.Chance(1, 2) {
				// second batch in the same conversation
				toks = append(toks, "P0.0", "A", "L2.0", fmt.Sprintf("L4.0@%d", Pick(r, 65535, 131070, 65533)), "L5.0")
			}
			emit(fmt.Sprintf("eng %s %s %d | %s", bw.p.Name, g3RoleName(bw.role), gs, strings.Join(toks, " ")))
		case 5:
			// long pipelines: more messages than one batch holds (20), so queued transitions
			// are worked off and the pipeline is topped up from the queue several times
			conv := w.walk(r, 30+r.Intn(60))
			toks := []string{}
			nl := 0
			for _, c := range conv {
				s := &w.p.Samples[c[1]]
				if c[0] == 1 {
					if nl >= 68 {
						break
					}
					nl++
					toks = append(toks, "L"+symStr(s))
				} else {
					toks = append(toks, Pick(r, "P", "Q")+symStr(s))
				}
			}
			if len(toks) > 0 && strings.HasPrefix(toks[0], "Q") {
				toks[0] = "P" + toks[0][1:]
			}
			emit(fmt.Sprintf("eng %s %s %d | %s", w.p.Name, g3RoleName(w.role), gs, strings.Join(toks, " ")))
		case 0, 1:
			// conforming history, the local application enqueues everything up front
			// (pipelining), the scripted peer answers everything up front as well
			conv := w.walk(r, 1+r.Intn(16))
			toks := []string{}
			for _, c := range conv {
				s := &w.p.Samples[c[1]]
				if c[0] == 1 {
					toks = append(toks, "L"+symStr(s))
				} else {
					toks = append(toks, Pick(r, "P", "P", "Q")+symStr(s))
				}
			}
			if len(toks) > 0 && strings.HasPrefix(toks[0], "Q") {
				toks[0] = "P" + toks[0][1:]
			}
			emit(fmt.Sprintf("eng %s %s %d | %s", w.p.Name, g3RoleName(w.role), gs, strings.Join(toks, " ")))
		case 2:
			// a conforming prefix, then a local message that is (usually) not permitted there
			conv := w.walk(r, r.Intn(8))
			toks := []string{}
			for _, c := range conv {
				s := &w.p.Samples[c[1]]
				if c[0] == 1 {
					toks = append(toks, "L"+symStr(s))
				} else {
					toks = append(toks, "P"+symStr(s))
				}
			}
			s := w.p.Samples[r.Intn(len(w.p.Samples))]
			toks = append(toks, "L"+symStr(&s))
			if r.Chance(1, 2) {
				s2 := w.p.Samples[r.Intn(len(w.p.Samples))]
				toks = append(toks, "L"+symStr(&s2))
			}
			emit(fmt.Sprintf("eng %s %s %d | %s", w.p.Name, g3RoleName(w.role), gs, strings.Join(toks, " ")))
		default:
			// two real engines, conforming conversation with client pipelining
			conv := w.walk(r, 1+r.Intn(30))
			toks := []string{}
			for _, c := range conv {
				s := &w.p.Samples[c[1]]
				isClient := (c[0] == 1) == (g3RoleName(w.role) == "client")
				if isClient {
					toks = append(toks, "c"+symStr(s))
				} else {
					toks = append(toks, "s"+symStr(s))
				}
			}
			emit(fmt.Sprintf("pair %s %d | %s", w.p.Name, gs, strings.Join(toks, " ")))
		}
	}
}

var _ = time.Second
