package main

// C23 — block-fetch returns the blocks that were asked for.
//
// The library's real blockfetch.Client runs against a raw scripted server that
// answers the RequestRange with a given sequence of messages ("batch shape").
//
//   get <want> <script>    GetBlock(point of fixture block <want>; "x" = a point no fixture has)
//   range <script>         GetBlockRange(points of blocks 1..2) with BlockFunc/BatchDoneFunc callbacks
//   seq <script1> <want> <script2>     GetBlockRange answered by script1 (N, or S,B..,D), then — after it
//                          has completed — GetBlock(<want>) answered by script2: the busy lock must be free again
//   conc <k> <script1> <want> <script2>   GetBlockRange answered by the batch script1 = S,B..,D; after its
//                          first k messages GetBlock(<want>) is started from another goroutine, then the
//                          rest of the batch follows, then script2 answers GetBlock's own request: the running
//                          batch must stay in callback mode
//                          out: r1: ret=.. cb=.. done=.. | r2: <get result>
//
// script = comma separated server messages:
//   S StartBatch   N NoBlocks   D BatchDone   B<i> Block carrying fixture block i (0..7)
//   Bx a Block message whose content is not a block
// When the script is exhausted and the call has not returned the peer closes
// the connection (silence, then disconnect).
//
// Output:
//   get   -> ok:<i>            the call returned fixture block i
//            err:<class>       notfound | shutdown | mismatch | noblock | multi | other:<text>
//            HANG              the call did not return even after the peer closed
//   range -> ret=<ok|err:..> cb=<i,j,..|-> done=<n> [STUCK]   (STUCK: the protocol never finished after close)

import (
	"errors"
	"fmt"
	"strconv"
	"strings"
	"sync"
	"time"

	"github.com/blinklabs-io/gouroboros/ledger"
	"github.com/blinklabs-io/gouroboros/protocol"
	"github.com/blinklabs-io/gouroboros/protocol/blockfetch"
	pcommon "github.com/blinklabs-io/gouroboros/protocol/common"
)

func init() {
	register(&Prop{ID: "C23", Gen: genC23, Run: runC23, Timeout: 60 * time.Second})
}

const c23Id = blockfetch.ProtocolId
const c23Resp = blockfetch.ProtocolId | 0x8000

func genC23(r *Rand, n int, tier string, emit func(string)) {
	blk := func() int { return r.Intn(8) }
	for i := 0; i < n; i++ {
		if r.Chance(1, 6) {
			// two calls on one connection
			want := blk()
			nb := r.Intn(4)
			ev := []string{"S"}
			for j := 0; j < nb; j++ {
				ev = append(ev, fmt.Sprintf("B%d", blk()))
			}
			ev = append(ev, "D")
			sc2 := Pick(r, fmt.Sprintf("S,B%d,D", want), fmt.Sprintf("S,B%d,D", want), "N", "S,D",
				fmt.Sprintf("S,B%d,D", (want+1)%8), fmt.Sprintf("S,B%d", want))
			if r.Chance(1, 2) {
				sc1 := strings.Join(ev, ",")
				if r.Chance(1, 3) {
					sc1 = "N"
				}
				emit(fmt.Sprintf("seq %s %d %s", sc1, want, sc2))
			} else {
				emit(fmt.Sprintf("conc %d %s %d %s", 1+r.Intn(len(ev)-1), strings.Join(ev, ","), want, sc2))
			}
			continue
		}
		isGet := r.Chance(3, 5)
		want := blk()
		var ev []string
		switch r.Intn(12) {
		case 0: // no blocks
			ev = []string{"N"}
		case 1: // empty batch
			ev = []string{"S", "D"}
		case 2, 3: // exactly the block asked for
			ev = []string{"S", fmt.Sprintf("B%d", want), "D"}
		case 4: // one other block
			ev = []string{"S", fmt.Sprintf("B%d", (want+1+r.Intn(7))%8), "D"}
		case 5: // several blocks, the wanted one first / last / absent
			k := 2 + r.Intn(3)
			ev = []string{"S"}
			for j := 0; j < k; j++ {
				ev = append(ev, fmt.Sprintf("B%d", blk()))
			}
			if r.Chance(1, 2) {
				ev[1] = fmt.Sprintf("B%d", want)
			}
			ev = append(ev, "D")
		case 6: // truncated conversations (silence, then disconnect)
			full := []string{"S", fmt.Sprintf("B%d", want), fmt.Sprintf("B%d", blk()), "D"}
			ev = full[:r.Intn(4)]
		case 7: // messages the state machine does not allow here
			ev = Pick(r, []string{"D"}, []string{"B0"}, []string{"S", "S"}, []string{"S", "N"}, []string{"N", "D"},
				[]string{"S", "D", "D"}, []string{"S", fmt.Sprintf("B%d", want), "D", fmt.Sprintf("B%d", want)})
		default: // random well-formed batch
			ev = []string{"S"}
			for j := r.Intn(5); j > 0; j-- {
				if r.Chance(1, 25) {
					ev = append(ev, "Bx")
				} else {
					ev = append(ev, fmt.Sprintf("B%d", blk()))
				}
			}
			ev = append(ev, "D")
		}
		script := strings.Join(ev, ",")
		if script == "" {
			script = "-"
		}
		if isGet {
			w := strconv.Itoa(want)
			if r.Chance(1, 10) {
				w = "x"
			}
			emit(fmt.Sprintf("get %s %s", w, script))
		} else {
			emit("range " + script)
		}
	}
}

func c23ErrClass(err error) string {
	if err == nil {
		return "ok"
	}
	msg := err.Error()
	switch {
	case errors.Is(err, protocol.ErrProtocolShuttingDown):
		return "err:shutdown"
	case strings.Contains(msg, "not found"):
		return "err:notfound"
	case strings.Contains(msg, "does not match"):
		return "err:mismatch"
	case strings.Contains(msg, "without a block"):
		return "err:noblock"
	case strings.Contains(msg, "more than one block"):
		return "err:multi"
	}
	return "err:other:" + strings.ReplaceAll(msg, " ", "_")
}

func c23Msg(ev string, blocks []g5Block) ([]byte, bool) {
	switch {
	case ev == "S":
		return g5enc(blockfetch.NewMsgStartBatch()), true
	case ev == "N":
		return g5enc(blockfetch.NewMsgNoBlocks()), true
	case ev == "D":
		return g5enc(blockfetch.NewMsgBatchDone()), true
	case ev == "Bx":
		// a Block message whose wrapped block does not decode as a block
		wb := blockfetch.WrappedBlock{Type: 2, RawBlock: []byte{0x80}}
		return g5enc(blockfetch.NewMsgBlock(g5enc(&wb))), true
	case strings.HasPrefix(ev, "B"):
		i, err := strconv.Atoi(ev[1:])
		if err != nil || i < 0 || i >= len(blocks) {
			return nil, false
		}
		wb := blockfetch.WrappedBlock{Type: blocks[i].Type, RawBlock: blocks[i].Cbor}
		return g5enc(blockfetch.NewMsgBlock(g5enc(&wb))), true
	}
	return nil, false
}

func runC23(op string) string {
	f := strings.Fields(op)
	if len(f) > 0 && (f[0] == "seq" || f[0] == "conc") {
		return runC23Two(f)
	}
	blocks, err := g5Blocks()
	if err != nil {
		return "fixtures:" + err.Error()
	}
	var evs []string
	var isGet bool
	var want string
	switch {
	case len(f) == 3 && f[0] == "get":
		isGet, want = true, f[1]
		if f[2] != "-" {
			evs = strings.Split(f[2], ",")
		}
	case len(f) == 2 && f[0] == "range":
		if f[1] != "-" {
			evs = strings.Split(f[1], ",")
		}
	default:
		return "bad-op"
	}
	msgs := make([][]byte, len(evs))
	for i, e := range evs {
		m, ok := c23Msg(e, blocks)
		if !ok {
			return "bad-op"
		}
		msgs[i] = m
	}
	var point pcommon.Point
	if isGet {
		if want == "x" {
			h := make([]byte, 32)
			h[0] = 0xee
			point = pcommon.NewPoint(12345, h)
		} else {
			i, err := strconv.Atoi(want)
			if err != nil || i < 0 || i >= len(blocks) {
				return "bad-op"
			}
			point = pcommon.NewPoint(blocks[i].Slot, blocks[i].Hash)
		}
	}

	l := newG5Link()
	defer l.close()
	var mu sync.Mutex
	cb := []string{}
	done := 0
	progress := make(chan struct{}, 64)
	cfg, _ := blockfetch.NewConfig(
		blockfetch.WithBlockFunc(func(_ blockfetch.CallbackContext, typ uint, b ledger.Block) error {
			mu.Lock()
			i := g5BlockIndex(b.Hash().Bytes())
			if i >= 0 && blocks[i].Type != typ {
				cb = append(cb, fmt.Sprintf("%d!type%d", i, typ))
			} else {
				cb = append(cb, strconv.Itoa(i))
			}
			mu.Unlock()
			select {
			case progress <- struct{}{}:
			default:
			}
			return nil
		}),
		blockfetch.WithBatchDoneFunc(func(blockfetch.CallbackContext) error {
			mu.Lock()
			done++
			mu.Unlock()
			select {
			case progress <- struct{}{}:
			default:
			}
			return nil
		}),
	)
	cli := blockfetch.NewClient(l.opts(protocol.ProtocolModeNodeToNode), &cfg)
	cli.Start()

	type res struct {
		b   ledger.Block
		err error
	}
	resCh := make(chan res, 1)
	go func() {
		if isGet {
			b, err := cli.GetBlock(point)
			resCh <- res{b, err}
		} else {
			err := cli.GetBlockRange(pcommon.NewPoint(blocks[1].Slot, blocks[1].Hash), pcommon.NewPoint(blocks[2].Slot, blocks[2].Hash))
			resCh <- res{nil, err}
		}
	}()
	// the request must appear on the wire first
	if _, err := l.peer.recv(c23Id, 5*time.Second); err != nil {
		return "norequest"
	}
	nB := 0
	for i, m := range msgs {
		if err := l.peer.send(c23Resp, m); err != nil {
			break
		}
		if strings.HasPrefix(evs[i], "B") && evs[i] != "Bx" {
			nB++
		}
	}
	var got *res
	last := ""
	if len(evs) > 0 {
		last = evs[len(evs)-1]
	}
	// how long the peer stays silent before it disconnects: long enough for the
	// library to act on everything the script can cause (the waits below end
	// as soon as that has happened), short when nothing more can happen
	settle := 30 * time.Millisecond
	if !isGet {
		settle = 12 * time.Second
	}
	for _, e := range evs {
		if e == "D" || e == "N" {
			settle = 12 * time.Second
		}
	}
	if isGet {
		select {
		case r := <-resCh:
			got = &r
		case <-time.After(settle):
		}
	} else {
		// callbacks arrive asynchronously: wait (bounded) for the ones the script can cause
		deadline := time.After(settle)
	wait:
		for {
			mu.Lock()
			// a handled BatchDone ends the batch: nothing sent after it is ever handled
			enough := (len(cb) >= nB && (last != "D" || done > 0)) || done > 0
			mu.Unlock()
			if enough || len(evs) == 0 {
				break
			}
			select {
			case r := <-resCh:
				got = &r
				if r.err != nil {
					// the request failed (NoBlocks, protocol error): no batch will be delivered
					break wait
				}
			case <-progress:
			case <-cli.DoneChan():
				// the protocol has failed: nothing more will be delivered
				break wait
			case <-deadline:
				break wait
			}
		}
		if got == nil {
			if len(evs) == 0 {
				settle = 30 * time.Millisecond
			}
			select {
			case r := <-resCh:
				got = &r
			case <-cli.DoneChan():
				select {
				case r := <-resCh:
					got = &r
				case <-time.After(5 * time.Second):
				}
			case <-time.After(settle):
			}
		}
	}
	// silence is over: the peer disconnects
	l.peer.close()
	if got == nil {
		select {
		case r := <-resCh:
			got = &r
		case <-time.After(8 * time.Second):
			if isGet {
				return "HANG"
			}
		}
	}
	if isGet {
		if got.err != nil {
			return c23ErrClass(got.err)
		}
		if got.b == nil {
			return "ok:nil"
		}
		return fmt.Sprintf("ok:%d", g5BlockIndex(got.b.Hash().Bytes()))
	}
	stuck := ""
	select {
	case <-cli.DoneChan():
	case <-time.After(8 * time.Second):
		stuck = " STUCK"
	}
	mu.Lock()
	defer mu.Unlock()
	ret := "HANG"
	if got != nil {
		ret = c23ErrClass(got.err)
	}
	cbs := "-"
	if len(cb) > 0 {
		cbs = strings.Join(cb, ",")
	}
	return fmt.Sprintf("ret=%s cb=%s done=%d%s", ret, cbs, done, stuck)
}

// runC23Two: two calls on one connection (see the header).
func runC23Two(f []string) string {
	blocks, err := g5Blocks()
	if err != nil {
		return "fixtures:" + err.Error()
	}
	k := 0
	var sc1, wantS, sc2 string
	switch {
	case f[0] == "seq" && len(f) == 4:
		sc1, wantS, sc2 = f[1], f[2], f[3]
	case f[0] == "conc" && len(f) == 5:
		v, err := strconv.Atoi(f[1])
		if err != nil {
			return "bad-op"
		}
		k, sc1, wantS, sc2 = v, f[2], f[3], f[4]
	default:
		return "bad-op"
	}
	ev1 := strings.Split(sc1, ",")
	ev2 := strings.Split(sc2, ",")
	// script1 must be a complete answer: N, or S,B..,D
	complete := sc1 == "N" || (len(ev1) >= 2 && ev1[0] == "S" && ev1[len(ev1)-1] == "D")
	for _, e := range ev1[1:max(1, len(ev1)-1)] {
		if !strings.HasPrefix(e, "B") || e == "Bx" {
			complete = false
		}
	}
	if !complete || (f[0] == "conc" && (sc1 == "N" || k < 1 || k >= len(ev1))) {
		return "bad-op"
	}
	var msgs1, msgs2 [][]byte
	for _, e := range ev1 {
		m, ok := c23Msg(e, blocks)
		if !ok {
			return "bad-op"
		}
		msgs1 = append(msgs1, m)
	}
	for _, e := range ev2 {
		m, ok := c23Msg(e, blocks)
		if !ok {
			return "bad-op"
		}
		msgs2 = append(msgs2, m)
	}
	wi, err := strconv.Atoi(wantS)
	if err != nil || wi < 0 || wi >= len(blocks) {
		return "bad-op"
	}
	point := pcommon.NewPoint(blocks[wi].Slot, blocks[wi].Hash)

	l := newG5Link()
	defer l.close()
	var mu sync.Mutex
	cb := []string{}
	done := 0
	progress := make(chan struct{}, 64)
	note := func() {
		select {
		case progress <- struct{}{}:
		default:
		}
	}
	cfg, _ := blockfetch.NewConfig(
		blockfetch.WithBlockFunc(func(_ blockfetch.CallbackContext, typ uint, b ledger.Block) error {
			mu.Lock()
			cb = append(cb, strconv.Itoa(g5BlockIndex(b.Hash().Bytes())))
			mu.Unlock()
			note()
			return nil
		}),
		blockfetch.WithBatchDoneFunc(func(blockfetch.CallbackContext) error {
			mu.Lock()
			done++
			mu.Unlock()
			note()
			return nil
		}),
	)
	cli := blockfetch.NewClient(l.opts(protocol.ProtocolModeNodeToNode), &cfg)
	cli.Start()
	rangeRes := make(chan error, 1)
	go func() {
		rangeRes <- cli.GetBlockRange(pcommon.NewPoint(blocks[1].Slot, blocks[1].Hash), pcommon.NewPoint(blocks[2].Slot, blocks[2].Hash))
	}()
	if _, err := l.peer.recv(c23Id, 12*time.Second); err != nil {
		return "norequest"
	}
	type gres struct {
		b   ledger.Block
		err error
	}
	getRes := make(chan gres, 1)
	startGet := func() {
		go func() {
			b, err := cli.GetBlock(point)
			getRes <- gres{b, err}
		}()
	}
	nB := 0
	early := ""
	for i, m := range msgs1 {
		if f[0] == "conc" && i == k {
			startGet()
			// GetBlock must wait for the running batch: its request must not appear yet
			// (grace period only — a correct client never sends it here)
			if _, err := l.peer.recv(c23Id, 30*time.Millisecond); err == nil {
				early = " EARLY-REQUEST"
			}
		}
		_ = l.peer.send(c23Resp, m)
		if strings.HasPrefix(ev1[i], "B") {
			nB++
		}
	}
	var r1err error
	select {
	case r1err = <-rangeRes:
	case <-time.After(12 * time.Second):
		return "r1: HANG"
	}
	// everything script1 causes has to be delivered before the second phase is judged
	deadline := time.After(12 * time.Second)
waitCb:
	for {
		mu.Lock()
		enough := len(cb) >= nB && (sc1 == "N" || done > 0)
		mu.Unlock()
		if enough {
			break
		}
		select {
		case <-progress:
		case <-getRes: // (cannot happen before its request is answered; keeps the loop honest)
		case <-cli.DoneChan():
			break waitCb
		case <-deadline:
			break waitCb
		}
	}
	if f[0] == "seq" {
		startGet()
	}
	r2 := ""
	if early == "" {
		if _, err := l.peer.recv(c23Id, 12*time.Second); err != nil {
			r2 = "norequest2"
		}
	}
	if r2 == "" {
		for _, m := range msgs2 {
			_ = l.peer.send(c23Resp, m)
		}
		settle := 30 * time.Millisecond
		for _, e := range ev2 {
			if e == "D" || e == "N" {
				settle = 12 * time.Second
			}
		}
		var g *gres
		select {
		case x := <-getRes:
			g = &x
		case <-time.After(settle):
		}
		l.peer.close()
		if g == nil {
			select {
			case x := <-getRes:
				g = &x
			case <-time.After(8 * time.Second):
			}
		}
		switch {
		case g == nil:
			r2 = "HANG"
		case g.err != nil:
			r2 = c23ErrClass(g.err)
		case g.b == nil:
			r2 = "ok:nil"
		default:
			r2 = fmt.Sprintf("ok:%d", g5BlockIndex(g.b.Hash().Bytes()))
		}
	}
	mu.Lock()
	defer mu.Unlock()
	cbs := "-"
	if len(cb) > 0 {
		cbs = strings.Join(cb, ",")
	}
	return fmt.Sprintf("r1: ret=%s cb=%s done=%d%s | r2: %s", c23ErrClass(r1err), cbs, done, early, r2)
}
