package main

// C14 — state timeouts fire exactly when the agency holder stalls.
//
// op:  tmo <proto> <client|server> <pct> <tag.variant> ... ; <tag.variant>
//   the real engine (real state map of that protocol/role, every timeout scaled so that the
//   target state's timeout is g3TmoTarget) is driven in lock-step along the path before ';'
//   into the target state; then nobody moves for pct% of the (scaled) timeout of that state
//   (for a state without timeout: pct% of g3TmoTarget); then the agency holder sends the
//   message after ';'.
// out: err=<timeout|none|other> armed=<0|1> moved=<0|1>
//   armed: the engine armed a timer on entering the target state (hook event `arm`)
//   moved: the final message was accepted
// Only pct <= 40 (no timeout may fire) and pct >= 250 (it must fire) are generated: wall-clock.
// A run in which the harness was too slow to move inside the window is repeated with a longer
// timeout (x4, up to four attempts), then reported as `skip-overload` (never judged).

import (
	"fmt"
	"strconv"
	"strings"
	"time"

	"github.com/blinklabs-io/gouroboros/protocol"
)

const g3TmoTarget = 100 * time.Millisecond

func init() {
	register(&Prop{ID: "C14", Gen: genC14, Run: runC14, Timeout: 20 * time.Minute})
}

// g3Drive sends the symbols in lock-step (the side holding agency in the engine's current
// state sends); returns how many were accepted.
func g3Drive(fx *g3Fixture, role protocol.ProtocolRole, syms []*g3Sample, base int) int {
	acc := 0
	for i, s := range syms {
		cur := fx.P.VerifCurrentState()
		ag := fx.cfg.StateMap[cur].Agency
		if ag == protocol.AgencyNone {
			break
		}
		local := (ag == protocol.AgencyClient && role == protocol.ProtocolRoleClient) ||
			(ag == protocol.AgencyServer && role == protocol.ProtocolRoleServer)
		var err error
		if local {
			err = fx.P.SendMessage(s.Make())
		} else {
			err = fx.peerSendMsgs(s.Make())
		}
		if err != nil {
			break
		}
		want := base + i + 1
		fx.waitFor(g3Deadline, func(ev []g3Event, _ []uint8) bool {
			n := 0
			for _, e := range ev {
				if (e.Kind == "state" && e.C == 0) || e.Kind == "transerr" || e.Kind == "error" {
					n++
				}
			}
			return n >= want
		})
		ev, _ := fx.snapshot()
		bad := false
		nt := 0
		for _, e := range ev {
			if e.Kind == "state" && e.C == 0 {
				nt++
			}
			if e.Kind == "transerr" || e.Kind == "error" {
				bad = true
			}
		}
		acc = nt - base
		if bad {
			break
		}
	}
	return acc
}

func runC14(op string) string {
	halves := strings.SplitN(op, ";", 2)
	if len(halves) != 2 {
		return "bad-op"
	}
	f := strings.Fields(halves[0])
	if len(f) < 4 || f[0] != "tmo" {
		return "bad-op"
	}
	p := g3FindProto(f[1])
	role, ok := g3ParseRole(f[2])
	pct, err := strconv.Atoi(f[3])
	if p == nil || !ok || err != nil || pct < 0 || pct > 1000 {
		return "bad-op"
	}
	path := []*g3Sample{}
	for _, tok := range f[4:] {
		s := g3ParseSym(p, tok)
		if s == nil {
			return "bad-op"
		}
		path = append(path, s)
	}
	lastTok := strings.Fields(halves[1])
	if len(lastTok) != 1 {
		return "bad-op"
	}
	last := g3ParseSym(p, lastTok[0])
	if last == nil {
		return "bad-op"
	}
	// find the target state on a detached instance
	pr, done := p.buildDetached(role)
	cur := pr.VerifInitialState()
	for _, s := range path {
		ns, err := pr.VerifNextState(cur, s.Make())
		if err != nil {
			done()
			return "bad-op"
		}
		cur = ns
	}
	done()
	// The verdict must not depend on how loaded the machine is: a run in which the harness
	// itself was too slow to act inside the intended window is not judged but repeated with a
	// four times longer (scaled) timeout; after four attempts the op is skipped.
	T := g3TmoTarget
	for attempt := 0; attempt < 4; attempt++ {
		res, valid := c14Once(p, role, pct, path, last, cur, T)
		if valid {
			return res
		}
		T *= 4
	}
	return "skip-overload"
}

// c14Once runs the scenario with the target state's timeout set to T.
func c14Once(p *g3Proto, role protocol.ProtocolRole, pct int, path []*g3Sample, last *g3Sample, target protocol.State, T time.Duration) (string, bool) {
	fx := newG3Fixture(p, role, g3FixOpts{stateMap: func(sm protocol.StateMap) protocol.StateMap {
		for s, en := range sm {
			if s == target {
				// scale the target state's timeout to T (a TimeoutFunc keeps its relative spread, max = T)
				if en.TimeoutFunc != nil {
					orig := en.TimeoutFunc
					var mx time.Duration
					for i := 0; i < 400; i++ {
						if d := orig(); d > mx {
							mx = d
						}
					}
					en.TimeoutFunc = func() time.Duration {
						d := time.Duration(float64(orig()) / float64(mx) * float64(T))
						if d > T {
							d = T
						}
						if d < time.Millisecond {
							d = time.Millisecond
						}
						return d
					}
				} else if en.Timeout > 0 {
					en.Timeout = T
				}
			} else {
				// timers of the states passed on the way must not interfere with the approach
				if en.Timeout > 0 && en.Timeout < time.Hour {
					en.Timeout = time.Hour
				}
				if en.TimeoutFunc != nil {
					en.TimeoutFunc = func() time.Duration { return time.Hour }
				}
			}
			sm[s] = en
		}
		return sm
	}})
	defer fx.close()
	fx.waitFor(g3Deadline, func(ev []g3Event, _ []uint8) bool {
		for _, e := range ev {
			if e.Kind == "state" {
				return true
			}
		}
		return false
	})
	if g3Drive(fx, role, path, 0) != len(path) {
		return "approach-failed", true
	}
	lastStateIdx := func(ev []g3Event) int {
		k := -1
		for i, x := range ev {
			if x.Kind == "state" {
				k = i
			}
		}
		return k
	}
	// The `arm` event is logged by stateLoop right after the `state` event; the loop that asked
	// for the transition logs its next event (`seg` for a sent message, `handle` for a received
	// one) only after stateLoop has finished setState, so waiting for that event makes the
	// observation of `arm` independent of scheduling.  (Nothing follows the start-up setState.)
	if len(path) > 0 {
		fx.waitFor(g3Deadline, func(ev []g3Event, _ []uint8) bool {
			k := lastStateIdx(ev)
			for i := k + 1; i < len(ev); i++ {
				if ev[i].Kind == "seg" || ev[i].Kind == "handle" || ev[i].Kind == "error" {
					return true
				}
			}
			return false
		})
	}
	ev, _ := fx.snapshot()
	entryIdx := lastStateIdx(ev)
	t0 := ev[entryIdx].At
	armedNow := false
	// the timeout the engine actually armed (a TimeoutFunc draws it from a range)
	armedDur := T
	for i := entryIdx + 1; i < len(ev); i++ {
		if ev[i].Kind == "arm" {
			armedNow = true
			armedDur = time.Duration(ev[i].B)
		}
	}
	hasErr := func(ev []g3Event, _ []uint8) bool {
		for _, x := range ev {
			if x.Kind == "error" {
				return true
			}
		}
		return false
	}
	stall := armedDur * time.Duration(pct) / 100
	if pct >= 200 && armedNow {
		// the engine says it armed a timer: wait for it to fire, however slow the machine is
		fx.waitFor(g3Deadline, hasErr)
	} else {
		fx.waitFor(stall, hasErr)
	}
	moved := 0
	if fx.count("error") == 0 {
		if g3Drive(fx, role, []*g3Sample{last}, len(path)) == 1 {
			moved = 1
		}
	}
	// Re-arming: once the conversation has moved on, the timer of the state just left must be
	// gone.  Wait until well after its deadline and look for a timeout that fired earlier than
	// any timer armed by the move could (judged on event timestamps, not on how late we wake up).
	staleCheck := moved == 1 && pct <= 50 && armedNow
	var movedAt time.Time
	if staleCheck {
		ev, _ = fx.snapshot()
		movedAt = ev[lastStateIdx(ev)].At
		if d := time.Until(t0.Add(armedDur * 13 / 10)); d > 0 {
			fx.waitFor(d, hasErr)
		}
	}
	ev, _ = fx.snapshot()
	cls := "none"
	var errAt time.Time
	for _, x := range ev {
		if x.Kind == "error" {
			cls = g3ErrClass(x.Data)
			if cls != "timeout" {
				cls = "other"
			}
			errAt = x.At
			break
		}
	}
	armed := 0
	for i := entryIdx + 1; i < len(ev); i++ {
		if ev[i].Kind == "state" {
			break
		}
		if ev[i].Kind == "arm" {
			armed = 1
		}
	}
	// A timer that fired no earlier than its (scaled) timeout after the state was entered,
	// in a run that was meant to move well before that, only shows that the harness was too
	// slow: not judged, repeated with a longer timeout.  (A timer firing EARLIER than its
	// timeout is reported.)
	if staleCheck && cls == "timeout" {
		// a timeout after the move: legitimate only if it belongs to a timer armed by the move
		// (no earlier than that timer's own timeout after the move)
		movedIdx := lastStateIdx(ev)
		legit := false
		for i := movedIdx + 1; i < len(ev); i++ {
			if ev[i].Kind == "arm" && errAt.Sub(movedAt) >= time.Duration(ev[i].B)*95/100 {
				legit = true
			}
		}
		if legit {
			cls = "none"
		}
	} else if pct <= 50 && cls == "timeout" && armed == 1 && errAt.Sub(t0) >= armedDur*95/100 {
		return "", false
	}
	return fmt.Sprintf("err=%s armed=%d moved=%d", cls, armed, moved), true
}

func genC14(r *Rand, n int, tier string, emit func(string)) {
	protos := g3Protocols()
	type tgt struct {
		line string
	}
	all := []string{}         // states without a timer (incl. the start-up entry of the initial state)
	special := []string{}     // timed states entered through a self-loop or re-entered initial states
	timedStates := []string{} // every other timed state
	for i := range protos {
		if protos[i].Name == "leiosvotes" || strings.HasSuffix(protos[i].Name, "-v20") {
			continue
		}
		for _, role := range []protocol.ProtocolRole{protocol.ProtocolRoleClient, protocol.ProtocolRoleServer} {
			m := g3Explore(&protos[i], role)
			// shortest path to every reachable state, plus a path that re-enters the initial state
			paths := map[uint64][]int{m.Init.id(): {}}
			order := []uint64{m.Init.id()}
			var reenter []int
			for qi := 0; qi < len(order); qi++ {
				s := order[qi]
				for _, t := range m.Trans {
					if t[0] != s {
						continue
					}
					if t[2] == m.Init.id() && reenter == nil {
						reenter = append(append([]int{}, paths[s]...), int(t[1]))
					}
					if _, ok := paths[t[2]]; !ok {
						paths[t[2]] = append(append([]int{}, paths[s]...), int(t[1]))
						order = append(order, t[2])
					}
				}
			}
			cands := [][]int{}
			for _, s := range order {
				cands = append(cands, paths[s])
			}
			if reenter != nil {
				cands = append(cands, reenter)
			}
			// a state entered again through a self-loop (block-fetch Streaming --Block--> Streaming):
			// the timer must be re-armed by that transition although the state does not change
			for _, s := range order {
				for _, t := range m.Trans {
					if t[0] == s && t[2] == s {
						cands = append(cands, append(append([]int{}, paths[s]...), int(t[1])))
						break
					}
				}
			}
			nPlain := len(order)
			for ci, path := range cands {
				// the state reached and a permitted continuation
				cur := m.Init.id()
				for _, k := range path {
					for _, t := range m.Trans {
						if t[0] == cur && int(t[1]) == k {
							cur = t[2]
							break
						}
					}
				}
				next := -1
				for _, t := range m.Trans {
					if t[0] == cur {
						next = int(t[1])
						break
					}
				}
				if next < 0 {
					continue // terminal state: nobody can move
				}
				toks := []string{}
				for _, k := range path {
					toks = append(toks, symStr(&protos[i].Samples[k]))
				}
				line := fmt.Sprintf("%s %s PCT %s ; %s", protos[i].Name, g3RoleName(role), strings.Join(toks, " "), symStr(&protos[i].Samples[next]))
				e := m.Entries[cur]
				timed := e.Timeout > 0 || e.TimeoutFunc != nil
				switch {
				case ci >= nPlain && timed:
					special = append(special, line) // re-entered initial state / self-loop, with a timeout
				case timed && len(path) > 0:
					timedStates = append(timedStates, line)
				default:
					all = append(all, line)
				}
			}
		}
	}
	// Order: first every special case and every timed state with BOTH a short stall (no timeout
	// may fire, and the old timer must be gone after the move) and a long one (it must fire); then
	// the states without a timer; then random repeats.  The quick tier covers the first two groups.
	emitted := 0
	out := func(t string, pct int) {
		if emitted < n {
			emit("tmo " + strings.Replace(t, "PCT", strconv.Itoa(pct), 1))
			emitted++
		}
	}
	for _, t := range special {
		out(t, Pick(r, 25, 40))
		out(t, Pick(r, 250, 300))
	}
	for _, t := range timedStates {
		out(t, Pick(r, 25, 40))
		out(t, Pick(r, 250, 300))
	}
	for _, t := range all {
		out(t, Pick(r, 25, 250, 300))
	}
	pool := append(append(append([]string{}, special...), timedStates...), all...)
	for emitted < n {
		out(pool[r.Intn(len(pool))], Pick(r, 25, 40, 250, 300, 250))
	}
}
