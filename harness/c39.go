package main

// C39 — KES sum composition. The op line names keys, seeds and signatures by
// *terms* over the primitives (seed expansion, Ed25519 keygen/sign, HashPair);
// this file evaluates terms to bytes with the primitives only (blake2b,
// crypto/ed25519) and prints the bytes the real kes package produced by the
// same term names (reverse dictionary), so the Lean model — which runs on the
// free term algebra and never hashes — can be compared textually.

import (
	"bytes"
	"crypto/ed25519"
	"fmt"
	"strconv"
	"strings"
	"time"

	"github.com/blinklabs-io/gouroboros/kes"
	"golang.org/x/crypto/blake2b"
)

func init() {
	register(&Prop{ID: "C39", Gen: genC39, Run: runC39, Timeout: 3 * time.Minute})
}

// ---- primitives (definitions, not the KES algorithm)

func kExpand(seed []byte, right bool) []byte {
	in := make([]byte, 33)
	in[0] = 1
	if right {
		in[0] = 2
	}
	copy(in[1:], seed)
	s := blake2b.Sum256(in)
	return s[:]
}

func kPk(seed []byte) []byte {
	return ed25519.NewKeyFromSeed(seed).Public().(ed25519.PublicKey)
}

func kHashPair(l, r []byte) []byte {
	in := make([]byte, 0, 64)
	in = append(in, l...)
	in = append(in, r...)
	s := blake2b.Sum256(in)
	return s[:]
}

// kesDict names byte strings by terms.
type kesDict struct {
	roots [2][]byte
	same  bool // both roots are the same bytes
	names map[string]string
	seeds map[string][]byte // "r.path" -> bytes
	vks   map[string][]byte // "h.r.path" -> bytes
	pks   map[string][]byte // seed bytes -> Ed25519 public key
	d     int
	nr    int // number of root seeds whose trees are named
}

func (k *kesDict) pk(seed []byte) []byte {
	if b, ok := k.pks[string(seed)]; ok {
		return b
	}
	b := kPk(seed)
	k.pks[string(seed)] = b
	return b
}

func newKesDict(d int, s0, s1 []byte, both bool) *kesDict {
	k := &kesDict{names: map[string]string{}, seeds: map[string][]byte{}, vks: map[string][]byte{}, pks: map[string][]byte{}, d: d}
	k.roots[0], k.roots[1] = s0, s1
	k.same = bytes.Equal(s0, s1)
	k.names[string(make([]byte, 32))] = "0"
	k.nr = 2
	if k.same || !both {
		k.nr = 1
	}
	for r := 0; r < k.nr; r++ {
		k.addSeed(r, "", k.roots[r], d)
	}
	return k
}

func (k *kesDict) put(b []byte, name string) {
	if _, ok := k.names[string(b)]; !ok {
		k.names[string(b)] = name
	}
}

// addSeed registers the seed at root r / path and all its descendants down to depth `left`.
func (k *kesDict) addSeed(r int, path string, b []byte, left int) {
	key := fmt.Sprintf("%d.%s", r, path)
	k.seeds[key] = b
	k.put(b, fmt.Sprintf("s%d.%s", r, path))
	if left == 0 {
		k.put(k.pk(b), fmt.Sprintf("p(s%d.%s)", r, path))
	}
	if left > 0 {
		k.addSeed(r, path+"L", kExpand(b, false), left-1)
		k.addSeed(r, path+"R", kExpand(b, true), left-1)
	}
}

func (k *kesDict) root(r int) int {
	if k.same {
		return 0
	}
	return r
}

func (k *kesDict) seed(r int, path string) []byte {
	r = k.root(r)
	key := fmt.Sprintf("%d.%s", r, path)
	if b, ok := k.seeds[key]; ok {
		return b
	}
	b := k.roots[r]
	for _, c := range path {
		b = kExpand(b, c == 'R')
	}
	k.seeds[key] = b
	k.put(b, fmt.Sprintf("s%d.%s", r, path))
	return b
}

// vk is the verification key of the subtree of height h rooted at seed r/path
// (the definition: vk(s,0)=pk(s); vk(s,h+1)=H(vk(L s,h) ‖ vk(R s,h))).
func (k *kesDict) vk(h int, r int, path string) []byte {
	r = k.root(r)
	key := fmt.Sprintf("%d.%d.%s", h, r, path)
	if b, ok := k.vks[key]; ok {
		return b
	}
	var b []byte
	if h == 0 {
		b = k.pk(k.seed(r, path))
	} else {
		b = kHashPair(k.vk(h-1, r, path+"L"), k.vk(h-1, r, path+"R"))
		k.put(b, fmt.Sprintf("v%d(s%d.%s)", h, r, path))
	}
	k.vks[key] = b
	return b
}

// registerAllVks names every subtree key inside the trees of depth d.
func (k *kesDict) registerAllVks() {
	for r := 0; r < k.nr; r++ {
		var rec func(path string)
		rec = func(path string) {
			h := k.d - len(path)
			if h < 0 {
				return
			}
			k.vk(h, r, path)
			if h > 0 {
				rec(path + "L")
				rec(path + "R")
			}
		}
		rec("")
	}
}

func (k *kesDict) name(b []byte) string {
	if n, ok := k.names[string(b)]; ok {
		return n
	}
	return "~"
}

func leafPath(d int, t uint64) string {
	var sb strings.Builder
	for i := d - 1; i >= 0; i-- {
		if t>>(uint(i))&1 == 1 {
			sb.WriteByte('R')
		} else {
			sb.WriteByte('L')
		}
	}
	return sb.String()
}

func parsePathTok(s string) (string, bool) {
	if s == "-" {
		return "", true
	}
	for _, c := range s {
		if c != 'L' && c != 'R' {
			return "", false
		}
	}
	return s, true
}

// evalTerm evaluates an op-line term to bytes.
func (k *kesDict) evalTerm(tok string, msgs [2][]byte) ([]byte, bool) {
	f := strings.Split(tok, ".")
	atoiR := func(s string) (int, bool) {
		n, err := strconv.Atoi(s)
		return n, err == nil && n >= 0 && n <= 1
	}
	switch {
	case len(f) == 1 && f[0] == "z":
		return make([]byte, 32), true
	case len(f) == 2 && f[0] == "x":
		return unhex(f[1])
	case len(f) == 3 && (f[0] == "s" || f[0] == "p"):
		r, ok := atoiR(f[1])
		p, ok2 := parsePathTok(f[2])
		if !ok || !ok2 {
			return nil, false
		}
		if f[0] == "s" {
			return k.seed(r, p), true
		}
		return kPk(k.seed(r, p)), true
	case len(f) == 4 && f[0] == "v":
		h, err := strconv.Atoi(f[1])
		r, ok := atoiR(f[2])
		p, ok2 := parsePathTok(f[3])
		if err != nil || h < 0 || h > 8 || !ok || !ok2 {
			return nil, false
		}
		return k.vk(h, r, p), true
	case len(f) == 4 && f[0] == "g":
		r, ok := atoiR(f[1])
		p, ok2 := parsePathTok(f[2])
		m, ok3 := atoiR(f[3])
		if !ok || !ok2 || !ok3 {
			return nil, false
		}
		return ed25519.Sign(ed25519.NewKeyFromSeed(k.seed(r, p)), msgs[m]), true
	}
	return nil, false
}

func allZero(b []byte) bool {
	for _, x := range b {
		if x != 0 {
			return false
		}
	}
	return true
}

func cellNames(k *kesDict, b []byte, first int) string {
	var out []string
	if first > 0 && len(b) >= first {
		out = append(out, k.name(b[:first]))
		b = b[first:]
	}
	for len(b) >= 32 {
		out = append(out, k.name(b[:32]))
		b = b[32:]
	}
	if len(b) > 0 {
		out = append(out, "~")
	}
	return strings.Join(out, ",")
}

// kesd <depth> <period>: what the package does at depths around and beyond the 64-bit shift
// width: MaxPeriod, SignatureSize, NewSumKesFromBytes + Verify on an all-zero signature of the
// exact and of a wrong length, Sign and Update on an all-zero key of that depth.
func g8RunKesDepth(f []string) string {
	if len(f) != 3 {
		return "bad-op"
	}
	depth, e1 := strconv.ParseUint(f[1], 10, 64)
	period, e2 := strconv.ParseUint(f[2], 10, 64)
	if e1 != nil || e2 != nil {
		return "bad-op"
	}
	out := fmt.Sprintf("max=%d size=%d", kes.MaxPeriod(depth), kes.SignatureSize(depth))
	if depth > 200 {
		return out + " parse=- parse1=- v=- sign=- upd=-"
	}
	if depth == 0 {
		_, err := kes.NewSumKesFromBytes(0, make([]byte, 64))
		return out + " parse=" + map[bool]string{true: "ok", false: "err"}[err == nil] + " parse1=- v=- sign=- upd=-"
	}
	n := 64 + 64*int(depth)
	parse, parse1, v := "ok", "ok", "-"
	sig, err := kes.NewSumKesFromBytes(depth, make([]byte, n))
	if err != nil {
		parse = "err"
	} else {
		v = b01(sig.Verify(period, make([]byte, 32), []byte("m")))
	}
	if _, err := kes.NewSumKesFromBytes(depth, make([]byte, n+1)); err != nil {
		parse1 = "err"
	}
	kind := func(err error) string {
		if err == nil {
			return "ok"
		}
		m := err.Error()
		switch {
		case strings.Contains(m, "exceeds maximum"):
			return "err:period"
		case strings.Contains(m, "cannot sign at period"):
			return "err:wrong"
		case strings.Contains(m, "exhausted"):
			return "err:exhausted"
		case strings.Contains(m, "erased"):
			return "err:erased"
		}
		return "err:other"
	}
	sk := &kes.SecretKey{Depth: depth, Period: 0, Data: make([]byte, 32+96*int(depth))}
	_, serr := kes.Sign(sk, period, []byte("m"))
	_, uerr := kes.Update(sk)
	return fmt.Sprintf("%s parse=%s parse1=%s v=%s sign=%s upd=%s", out, parse, parse1, v, kind(serr), kind(uerr))
}

func runC39(op string) string {
	f := strings.Fields(op)
	if len(f) > 0 && f[0] == "kesd" {
		return g8RunKesDepth(f)
	}
	if len(f) < 12 || f[0] != "kes" {
		return "bad-op"
	}
	d, e1 := strconv.Atoi(f[1])
	seed, ok1 := unhex(f[2])
	oseed, ok2 := unhex(f[3])
	t, e2 := strconv.Atoi(f[4])
	p, e3 := strconv.ParseUint(f[5], 10, 64)
	m0, ok3 := unhex(f[7])
	m1, ok4 := unhex(f[8])
	sm, e4 := strconv.Atoi(f[9])
	vm, e5 := strconv.Atoi(f[10])
	if e1 != nil || e2 != nil || e3 != nil || e4 != nil || e5 != nil || !ok1 || !ok2 || !ok3 || !ok4 ||
		d < 1 || d > 7 || t < 0 || t > 300 || sm < 0 || sm > 1 || vm < 0 || vm > 1 || len(seed) != 32 || len(oseed) != 32 {
		return "bad-op"
	}
	msgs := [2][]byte{m0, m1}
	sameMsg := bytes.Equal(m0, m1)
	dict := newKesDict(d, seed, oseed, strings.Contains(op, ".1."))
	dict.registerAllVks()
	key, ok := dict.evalTerm(f[6], msgs)
	if !ok || len(key) != 32 {
		return "bad-op"
	}
	sigSize := 64 + 64*d
	// mutation (validated before running, like the Lean parser)
	mut := f[11:]
	type mutT struct {
		kind     string
		a, b     int
		setBytes []byte
	}
	var mu mutT
	switch {
	case len(mut) == 1 && mut[0] == "none":
		mu.kind = "none"
	case len(mut) == 3 && mut[0] == "flip":
		a, ea := strconv.Atoi(mut[1])
		b, eb := strconv.Atoi(mut[2])
		if ea != nil || eb != nil || a < 0 || a >= sigSize || b < 0 || b > 7 {
			return "bad-op"
		}
		mu = mutT{kind: "flip", a: a, b: b}
	case len(mut) == 3 && mut[0] == "set":
		a, ea := strconv.Atoi(mut[1])
		bs, okb := dict.evalTerm(mut[2], msgs)
		if ea != nil || !okb || a < 0 || a > 2*d || (a == 0 && len(bs) != 64) || (a != 0 && len(bs) != 32) {
			return "bad-op"
		}
		mu = mutT{kind: "set", a: a, setBytes: bs}
	case len(mut) == 3 && mut[0] == "swap":
		a, ea := strconv.Atoi(mut[1])
		b, eb := strconv.Atoi(mut[2])
		if ea != nil || eb != nil || a < 1 || b < 1 || a > 2*d || b > 2*d {
			return "bad-op"
		}
		mu = mutT{kind: "swap", a: a, b: b}
	case len(mut) == 2 && mut[0] == "trunc":
		a, ea := strconv.Atoi(mut[1])
		if ea != nil || a < 1 || a > sigSize {
			return "bad-op"
		}
		mu = mutT{kind: "trunc", a: a}
	case len(mut) == 2 && mut[0] == "ext":
		a, ea := strconv.Atoi(mut[1])
		if ea != nil || a < 1 || a > 1000 {
			return "bad-op"
		}
		mu = mutT{kind: "ext", a: a}
	default:
		return "bad-op"
	}

	// ---- the real code
	sk, pk0, err := kes.KeyGen(uint64(d), seed)
	if err != nil {
		return "keygen-err " + err.Error()
	}
	pk0 = append([]byte{}, pk0...)
	pkSame := bytes.Equal(pk0, dict.vk(d, 0, ""))
	wiped := true
	nUpd := 0
	uerr := "-"
	for i := 0; i < t; i++ {
		old := sk
		oldData := sk.Data
		oldPeriod := sk.Period
		nsk, err := kes.Update(sk)
		if err != nil {
			switch {
			case strings.Contains(err.Error(), "exhausted"):
				uerr = "exhausted"
			case strings.Contains(err.Error(), "erased"):
				uerr = "erased"
			default:
				uerr = "other"
			}
			break
		}
		nUpd++
		// the predecessor must be unusable and its backing array wiped
		_, serr := kes.Sign(old, oldPeriod, []byte("x"))
		if old.Data != nil || !allZero(oldData) || serr == nil {
			wiped = false
		}
		sk = nsk
		if !bytes.Equal(kes.PublicKey(sk), pk0) {
			pkSame = false
		}
		// non-cached path of PublicKey (a key rebuilt from its exported fields)
		bare := &kes.SecretKey{Depth: sk.Depth, Period: sk.Period, Data: sk.Data}
		if !bytes.Equal(kes.PublicKey(bare), pk0) {
			pkSame = false
		}
	}
	period := sk.Period
	// can an earlier leaf's Ed25519 seed be derived from any 32-byte cell of the evolved key?
	back := false
	if period > 0 {
		earlier := map[string]bool{}
		for q := uint64(0); q < period; q++ {
			earlier[string(dict.seed(0, leafPath(d, q)))] = true
		}
		var walk func(b []byte, left int)
		walk = func(b []byte, left int) {
			if earlier[string(b)] {
				back = true
			}
			if left > 0 && !back {
				walk(kExpand(b, false), left-1)
				walk(kExpand(b, true), left-1)
			}
		}
		for off := 0; off+32 <= len(sk.Data); off += 32 {
			walk(sk.Data[off:off+32], d)
		}
	}
	dataNames := cellNames(dict, sk.Data, 0)

	signS, serrS, vS, perrS, sigNames := "ok", "-", "-", "-", "-"
	sig, err := kes.Sign(sk, p, msgs[sm])
	if err != nil {
		signS = "err"
		switch {
		case strings.Contains(err.Error(), "erased"):
			serrS = "erased"
		case strings.Contains(err.Error(), "exceeds maximum"):
			serrS = "period"
		case strings.Contains(err.Error(), "cannot sign at period"):
			serrS = "wrong"
		default:
			serrS = "other"
		}
	} else {
		// name the leaf signature candidates
		for _, q := range []uint64{period, period + 1, period - 1} {
			if q < uint64(1)<<uint(d) {
				ls := dict.seed(0, leafPath(d, q))
				for mi := 0; mi < 2; mi++ {
					idx := mi
					if sameMsg {
						idx = 0
					}
					dict.put(ed25519.Sign(ed25519.NewKeyFromSeed(ls), msgs[mi]),
						fmt.Sprintf("g(s0.%s,m%d)", leafPath(d, q), idx))
				}
			}
		}
		sigNames = cellNames(dict, sig, 64)
		ms := append([]byte{}, sig...)
		off := func(cell int) (int, int) {
			if cell == 0 {
				return 0, 64
			}
			return 64 + 32*(cell-1), 32
		}
		switch mu.kind {
		case "flip":
			ms[mu.a] ^= 1 << uint(mu.b)
		case "set":
			o, n := off(mu.a)
			copy(ms[o:o+n], mu.setBytes)
		case "swap":
			oa, _ := off(mu.a)
			ob, _ := off(mu.b)
			tmp := append([]byte{}, ms[oa:oa+32]...)
			copy(ms[oa:oa+32], ms[ob:ob+32])
			copy(ms[ob:ob+32], tmp)
		case "trunc":
			ms = ms[:len(ms)-mu.a]
		case "ext":
			ms = append(ms, make([]byte, mu.a)...)
		}
		parsed, perr := kes.NewSumKesFromBytes(uint64(d), ms)
		if perr != nil {
			vS, perrS = "perr", "len"
			if d == kes.CardanoKesDepth && kes.VerifySignedKES(key, period, msgs[vm], ms) {
				return "MISMATCH VerifySignedKES accepts an unparsable signature"
			}
		} else {
			var sb strings.Builder
			qs := []uint64{}
			for q := uint64(0); q < (uint64(1)<<uint(d))+2; q++ {
				qs = append(qs, q)
			}
			qs = append(qs, 1<<32, 1<<63, ^uint64(0))
			for i, q := range qs {
				if i == len(qs)-3 {
					sb.WriteByte('+')
				}
				v := parsed.Verify(q, key, msgs[vm])
				if d == kes.CardanoKesDepth && kes.VerifySignedKES(key, q, msgs[vm], ms) != v {
					return "MISMATCH VerifySignedKES differs from NewSumKesFromBytes+Verify"
				}
				if v {
					sb.WriteByte('1')
				} else {
					sb.WriteByte('0')
				}
			}
			vS = sb.String()
		}
	}
	return fmt.Sprintf("pk=%s back=%s sign=%s v=%s | upd=%d uerr=%s per=%d serr=%s perr=%s wiped=%s data=%s sig=%s",
		b01(pkSame), b01(back), signS, vS, nUpd, uerr, period, serrS, perrS, b01(wiped), dataNames, sigNames)
}

// ---- generator

func kesTermKey(r *Rand, d int, t int) string {
	lp := leafPath(d, uint64(t)%(uint64(1)<<uint(d)))
	switch r.Intn(12) {
	case 0, 1, 2, 3, 4:
		return fmt.Sprintf("v.%d.0.-", d) // own key
	case 5:
		return fmt.Sprintf("v.%d.1.-", d) // another tree's key
	case 6:
		return fmt.Sprintf("v.%d.0.%s", d-1, Pick(r, "L", "R")) // a child key
	case 7:
		return "p.0." + lp // the signing leaf's Ed25519 key
	case 8:
		if d >= 2 {
			return fmt.Sprintf("v.%d.0.%s", d-2, Pick(r, "LL", "LR", "RL", "RR"))
		}
		return "p.0.-"
	case 9:
		return "x." + hexs(r.Bytes(32))
	case 10:
		return fmt.Sprintf("v.%d.0.-", d+1) // key of a deeper tree over the same seed
	default:
		return "z"
	}
}

func kesTermCell(r *Rand, d int, t int) string {
	lp := leafPath(d, uint64(t)%(uint64(1)<<uint(d)))
	h := r.Intn(d + 1)
	path := lp[:d-h]
	if path == "" {
		path = "-"
	}
	switch r.Intn(8) {
	case 0, 1, 2:
		return fmt.Sprintf("v.%d.0.%s", h, path) // a key on the signing path
	case 3:
		// sibling at that height
		if d-h >= 1 {
			sp := []byte(lp[:d-h])
			if sp[len(sp)-1] == 'L' {
				sp[len(sp)-1] = 'R'
			} else {
				sp[len(sp)-1] = 'L'
			}
			return fmt.Sprintf("v.%d.0.%s", h, string(sp))
		}
		return fmt.Sprintf("v.%d.1.-", h)
	case 4:
		return fmt.Sprintf("v.%d.1.%s", h, path)
	case 5:
		return "x." + hexs(r.Bytes(32))
	case 6:
		return "s.0." + path
	default:
		return "z"
	}
}

func genC39(r *Rand, n int, tier string, emit func(string)) {
	seeds := [][]byte{}
	for i := 0; i < 6; i++ {
		seeds = append(seeds, r.Bytes(32))
	}
	for i := 0; i < n; i++ {
		if r.Chance(1, 25) {
			dep := Pick(r, uint64(1), 6, 62, 63, 64, 65, 100, 200, 201, 1<<57-1, 1<<57, 1<<58, 1<<63, ^uint64(0), r.EdgeU64())
			emit(fmt.Sprintf("kesd %d %d", dep, Pick(r, uint64(0), 0, 1, 1<<62, 1<<63, ^uint64(0), r.EdgeU64())))
			continue
		}
		var d int
		if tier == "thorough" {
			d = Pick(r, 1, 2, 3, 4, 5, 6, 6, 7)
		} else {
			d = Pick(r, 1, 2, 2, 3, 3, 3, 4, 4, 4, 5, 5, 6, 6, 7)
		}
		max := 1 << uint(d)
		seed := seeds[r.Intn(len(seeds))]
		if r.Chance(1, 3) {
			seed = r.Bytes(32)
		}
		oseed := seeds[r.Intn(len(seeds))]
		if r.Chance(1, 20) {
			oseed = seed
		}
		var t int
		switch r.Intn(8) {
		case 0:
			t = 0
		case 1:
			t = max - 1
		case 2:
			t = max/2 - 1 + r.Intn(3) // around the left/right transition
		case 3:
			t = max + r.Intn(2) // one or two updates too many
		case 4:
			// a subtree boundary
			lvl := r.Intn(d)
			t = (r.Intn(max>>uint(lvl)))<<uint(lvl) - 1 + r.Intn(2)
		default:
			t = r.Intn(max)
		}
		if t < 0 {
			t = 0
		}
		k := t
		if k > max-1 {
			k = max - 1
		}
		p := k
		switch r.Intn(10) {
		case 0:
			if k > 0 {
				p = r.Intn(k) // an earlier period
			}
		case 1:
			p = k + 1 + r.Intn(3)
		case 2:
			p = Pick(r, 0, max-1, max, max+1)
		}
		m0 := r.Bytes(Pick(r, 0, 1, 32, 32, 100))
		m1 := r.Bytes(Pick(r, 0, 1, 32, 33))
		if r.Chance(1, 10) {
			m1 = m0
		} else if r.Chance(1, 5) && len(m0) > 0 {
			m1 = append([]byte{}, m0...)
			m1[r.Intn(len(m1))] ^= 1 << uint(r.Intn(8))
		}
		sm := r.Intn(2)
		vm := sm
		if r.Chance(1, 4) {
			vm = 1 - sm
		}
		key := fmt.Sprintf("v.%d.0.-", d)
		if r.Chance(1, 3) {
			key = kesTermKey(r, d, k)
		}
		mut := "none"
		if r.Chance(1, 2) {
			sz := 64 + 64*d
			switch r.Intn(8) {
			case 0, 1, 2:
				mut = fmt.Sprintf("flip %d %d", r.Intn(sz), r.Intn(8))
			case 3:
				mut = fmt.Sprintf("set %d %s", 1+r.Intn(2*d), kesTermCell(r, d, k))
			case 4:
				mut = fmt.Sprintf("swap %d %d", 1+r.Intn(2*d), 1+r.Intn(2*d))
			case 5:
				mut = fmt.Sprintf("trunc %d", Pick(r, 1, 32, 64, 1+r.Intn(sz)))
			case 6:
				mut = fmt.Sprintf("ext %d", Pick(r, 1, 32, 64))
			default:
				// replace the Ed25519 signature by that of another leaf / message / tree
				lp := leafPath(d, uint64((k+r.Intn(2))%max))
				mut = fmt.Sprintf("set 0 g.%d.%s.%d", r.Intn(2), lp, r.Intn(2))
			}
		}
		emit(fmt.Sprintf("kes %d %s %s %d %d %s %s %s %d %d %s", d, hexs(seed), hexs(oseed), t, p, key, hexs(m0), hexs(m1), sm, vm, mut))
	}
}
