package main

// c03_nested.go — tagged sums that sit *inside* a decoder's input: the ledger
// failure reasons of ledger/error.go (ApplyTxError items, UtxowFailure per era,
// UtxoFailure per era) and the local-state-query leaves below QueryWrapper
// (BlockQuery -> ShelleyQuery / HardForkQuery -> leaf). The nested decoder is
// handed the RawMessage of the inner list, i.e. exactly the encoding of that
// sub-tree, and calls cbor.DecodeIdFromList / DecodeById on it.
//
// Variants are *probed* from the running code: for every tag 0..g10aProbeTags
// each candidate body is tried on the canonical encoding; the first one the real
// decoder accepts with a label other than the catch-all gives the variant and
// its sample. Tags for which only the catch-all answers are left to the
// default; tags for which every candidate is rejected are `unsure` (nothing is
// predicted for them).

import (
	"errors"
	"fmt"
	"strings"

	"github.com/blinklabs-io/gouroboros/cbor"
	"github.com/blinklabs-io/gouroboros/ledger"
	"github.com/blinklabs-io/gouroboros/protocol/localstatequery"
)

const g10aProbeTags = 40

func g10aCandidates() [][]*cnode {
	h28, h32 := cHash(28, 1), cHash(32, 2)
	cred := cA(cU(0), cHash(28, 3))
	txin := cA(cHash(32, 4), cU(0))
	return [][]*cnode{
		{},
		{cU(5)},
		{cU(5), cU(6)},
		{cU(5), cU(6), cU(7)},
		{cA()},
		{cA(), cU(5)},
		{cU(5), cA()},
		{cA(cU(5), cU(6)), cU(7)},
		{cA(cU(5), cU(6))},
		{h28},
		{h32},
		{h32, h32},
		{cA(h28)},
		{cA(h32)},
		{cA(txin)},
		{cA(cred)},
		{cred},
		{cred, cU(5)},
		{cM()},
		{cM(), cM()},
		{cA(), cA()},
		{cTag(258, cA(h28))},
		{cTag(258, cA(txin))},
		{cTag(258, cA(cred))},
		{cA(cA(cU(0), cA()))},
		{cA(cU(0), cU(5))},
		{cA(cU(0), cA(cU(5)))},
		{cU(5), cM()},
		{cNull()},
		{cT("x")},
		{cB([]byte{1, 2, 3})},
		// GetCBOR: [9, <inner leaf query>]
		{cA(cU(1))},
		{cA(cU(0))},
		// three sets (committee members state)
		{cA(), cA(), cA()},
		{cTag(258, cA()), cTag(258, cA()), cTag(258, cA())},
		{cTag(258, cA()), cTag(258, cA())},
		{cTag(258, cA())},
		{cA(cTag(258, cA()))},
		{cU(0)},
		{cU(1)},
	}
}

func g10aProbe(st *sumType) {
	cands := g10aCandidates()
	seen := map[uint64]bool{}
	for tag := uint64(0); tag <= g10aProbeTags; tag++ {
		found, anyOk, allUnknown := false, false, true
		for _, body := range cands {
			v := sumVariant{tag, bodyOf(body...)}
			root, _ := st.build(v)
			lab, err := g10aSafeDecode(st, root.bytes())
			if err != nil {
				// "unknown ... type" from the decoder's own dispatch = the tag is not a variant at all
				if !strings.Contains(strings.ToLower(err.Error()), "unknown") {
					allUnknown = false
				}
				continue
			}
			anyOk = true
			if lab == st.deflt {
				continue
			}
			st.variants = append(st.variants, v)
			found = true
			break
		}
		if !found && !anyOk && (!allUnknown || st.deflt != "") {
			st.unsure = append(st.unsure, tag)
		}
		seen[tag] = true
	}
}

// a decoder that panics on a candidate is treated as rejecting it (the panic itself is C02's business)
func g10aSafeDecode(st *sumType, b []byte) (lab string, err error) {
	defer func() {
		if r := recover(); r != nil {
			err = fmt.Errorf("panic: %v", r)
		}
	}()
	return st.decode(b)
}

func g10aErrLabel(e error) string {
	if e == nil {
		return "nil"
	}
	return tname(e)
}

func g10aApplyTx(b []byte) (*ledger.ShelleyTxValidationError, error) {
	e, err := ledger.NewShelleyTxValidationErrorFromCbor(b)
	if err != nil {
		return nil, err
	}
	v, ok := e.(*ledger.ShelleyTxValidationError)
	if !ok || len(v.Err.Failures) == 0 {
		return nil, errors.New("no failures decoded")
	}
	return v, nil
}

func init() {
	eras := []struct {
		name string
		id   uint64
	}{{"shelley", 1}, {"allegra", 2}, {"mary", 3}, {"alonzo", 4}, {"babbage", 5}, {"conway", 6}, {"dijkstra", 7}}
	for _, era := range eras {
		era := era
		// [[era, [ <failure> ]]] : LEDGER-level failure list
		sumTypes = append(sumTypes, &sumType{
			name:   "applytxfail-" + era.name,
			guards: []sumGuard{{[]int{0, 0}, era.id}},
			path:   []int{0, 1, 0},
			wrap:   func(l *cnode) *cnode { return cA(cA(cU(era.id), cA(l))) },
			decode: func(b []byte) (string, error) {
				v, err := g10aApplyTx(b)
				if err != nil {
					return "", err
				}
				return g10aErrLabel(v.Err.Failures[0]), nil
			},
			deflt: "UnknownApplyTxFailureError",
		})
		// [[era, [ [0, <utxow failure>] ]]]
		sumTypes = append(sumTypes, &sumType{
			name:   "utxowfail-" + era.name,
			guards: []sumGuard{{[]int{0, 0}, era.id}, {[]int{0, 1, 0, 0}, 0}},
			path:   []int{0, 1, 0, 1},
			wrap:   func(l *cnode) *cnode { return cA(cA(cU(era.id), cA(cA(cU(0), l)))) },
			decode: func(b []byte) (string, error) {
				v, err := g10aApplyTx(b)
				if err != nil {
					return "", err
				}
				u, ok := v.Err.Failures[0].(*ledger.UtxowFailure)
				if !ok {
					return "", fmt.Errorf("not a UtxowFailure: %T", v.Err.Failures[0])
				}
				return g10aErrLabel(u.Err), nil
			},
			deflt: "UnknownUtxowFailureError",
		})
		// [era, <utxo failure>] decoded by UtxoFailure (DecodeById with the era's table)
		sumTypes = append(sumTypes, &sumType{
			name:   "utxofail-" + era.name,
			guards: []sumGuard{{[]int{0}, era.id}},
			path:   []int{1},
			wrap:   func(l *cnode) *cnode { return cA(cU(era.id), l) },
			decode: func(b []byte) (string, error) {
				var v ledger.UtxoFailure
				if _, err := cbor.Decode(b, &v); err != nil {
					return "", err
				}
				return g10aErrLabel(v.Err), nil
			},
			deflt: "UnknownUtxoFailureError",
		})
	}
	// local-state-query: [0, <block query>] ; <block query> = [0, [era, leaf]] | [2, [hardfork leaf]]
	sumTypes = append(sumTypes, &sumType{
		name:   "lsqblock",
		guards: []sumGuard{{[]int{0}, 0}},
		path:   []int{1},
		wrap:   func(l *cnode) *cnode { return cA(cU(0), l) },
		decode: func(b []byte) (string, error) {
			var v localstatequery.QueryWrapper
			if _, err := cbor.Decode(b, &v); err != nil {
				return "", err
			}
			bq, ok := v.Query.(*localstatequery.BlockQuery)
			if !ok {
				return "", fmt.Errorf("not a block query: %T", v.Query)
			}
			return tname(bq.Query), nil
		},
		variants: []sumVariant{
			{0, bodyOf(cA(cU(6), cA(cU(1))))},
			{2, bodyOf(cA(cU(1)))},
		},
	})
	for _, era := range []uint64{1, 6} {
		era := era
		sumTypes = append(sumTypes, &sumType{
			name:   fmt.Sprintf("lsqshelley-%d", era),
			guards: []sumGuard{{[]int{0}, 0}, {[]int{1, 0}, 0}},
			path:   []int{1, 1, 1},
			wrap:   func(l *cnode) *cnode { return cA(cU(0), cA(cU(0), cA(cU(era), l))) },
			decode: func(b []byte) (string, error) {
				var v localstatequery.QueryWrapper
				if _, err := cbor.Decode(b, &v); err != nil {
					return "", err
				}
				bq, ok := v.Query.(*localstatequery.BlockQuery)
				if !ok {
					return "", fmt.Errorf("not a block query: %T", v.Query)
				}
				sq, ok := bq.Query.(*localstatequery.ShelleyQuery)
				if !ok {
					return "", fmt.Errorf("not a shelley query: %T", bq.Query)
				}
				return tname(sq.Query), nil
			},
		})
	}
	sumTypes = append(sumTypes, &sumType{
		name:   "lsqhardfork",
		guards: []sumGuard{{[]int{0}, 0}, {[]int{1, 0}, 2}},
		path:   []int{1, 1},
		wrap:   func(l *cnode) *cnode { return cA(cU(0), cA(cU(2), l)) },
		decode: func(b []byte) (string, error) {
			var v localstatequery.QueryWrapper
			if _, err := cbor.Decode(b, &v); err != nil {
				return "", err
			}
			bq, ok := v.Query.(*localstatequery.BlockQuery)
			if !ok {
				return "", fmt.Errorf("not a block query: %T", v.Query)
			}
			hq, ok := bq.Query.(*localstatequery.HardForkQuery)
			if !ok {
				return "", fmt.Errorf("not a hard-fork query: %T", bq.Query)
			}
			return tname(hq.Query), nil
		},
	})
	for _, st := range sumTypes {
		if st.path != nil && len(st.variants) == 0 {
			g10aProbe(st)
		}
	}
}
