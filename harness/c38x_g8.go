package main

// C38, oracle tie. The `vrf x` op runs vrf.Prove and vrf.VerifyAndHash with the `verif`
// trace hook of package vrf installed, so the values the real prover and verifier compute on
// the way (Y, H, Gamma, k, U, V, c, s / H, U, V, c') are observed. They are named by a
// vocabulary whose entries are computed here from the definitions with the group operations of
// filippo.io/edwards25519 (x = clamp(SHA512(seed)[:32]), k = SHA512(SHA512(seed)[32:] ‖ H) mod L,
// c = SHA512(suite ‖ 2 ‖ H ‖ Γ ‖ U ‖ V)[:16], s = k + c·x, …); the hash-to-curve point H is taken
// from the hook accessor (it is a hash, a primitive). The Lean model computes the same names on
// the free module (GV.Model.VrfSym).
//
// op:  vrf x <seedhex> <oseedhex> <alphahex> <oalphahex> <case>
// out: ok=<b> out=<same|diff|-> | P: Y= H= G= k= U= V= c= s= | V: H= U= V= c'=

import (
	"bytes"
	"crypto/sha512"
	"fmt"
	"strconv"
	"strings"
	"sync"

	"filippo.io/edwards25519"
	"github.com/blinklabs-io/gouroboros/vrf"
)

var g8VrfCases = []string{"honest", "altnonce", "mix", "splus1", "gammaKH", "gammaY", "otherkey", "othermsg", "otherproof"}

var g8VrfMu sync.Mutex

type g8VrfVocab struct {
	scal map[string]string // bytes -> name
	pts  map[string]string
}

func (v *g8VrfVocab) s(name string, sc *edwards25519.Scalar) {
	if _, ok := v.scal[string(sc.Bytes())]; !ok {
		v.scal[string(sc.Bytes())] = name
	}
}
func (v *g8VrfVocab) p(name string, pt *edwards25519.Point) {
	if _, ok := v.pts[string(pt.Bytes())]; !ok {
		v.pts[string(pt.Bytes())] = name
	}
}
func (v *g8VrfVocab) nameS(b []byte) string {
	if n, ok := v.scal[string(b)]; ok {
		return n
	}
	return "~"
}
func (v *g8VrfVocab) nameP(b []byte) string {
	if n, ok := v.pts[string(b)]; ok {
		return n
	}
	return "~"
}

func g8ClampScalar(seed []byte) *edwards25519.Scalar {
	h := sha512.Sum512(seed)
	s, err := edwards25519.NewScalar().SetBytesWithClamping(h[:32])
	if err != nil {
		panic(err)
	}
	return s
}

func g8Uniform(b []byte) *edwards25519.Scalar {
	h := sha512.Sum512(b)
	s, err := edwards25519.NewScalar().SetUniformBytes(h[:])
	if err != nil {
		panic(err)
	}
	return s
}

// c = first 16 bytes of SHA512(suite ‖ 0x02 ‖ P1 ‖ P2 ‖ P3 ‖ P4), as a scalar
func g8Challenge(p1, p2, p3, p4 *edwards25519.Point) *edwards25519.Scalar {
	in := []byte{vrf.Suite, 0x02}
	for _, p := range []*edwards25519.Point{p1, p2, p3, p4} {
		in = append(in, p.Bytes()...)
	}
	h := sha512.Sum512(in)
	var b [32]byte
	copy(b[:], h[:16])
	s, err := edwards25519.NewScalar().SetCanonicalBytes(b[:])
	if err != nil {
		panic(err)
	}
	return s
}

func g8Pt(b []byte) *edwards25519.Point {
	p, err := new(edwards25519.Point).SetBytes(b)
	if err != nil {
		panic(err)
	}
	return p
}

func g8RunVrfX(f []string) string {
	if len(f) != 7 {
		return "bad-op"
	}
	seed, ok1 := unhex(f[2])
	oseed, ok2 := unhex(f[3])
	alpha, ok3 := unhex(f[4])
	oalpha, ok4 := unhex(f[5])
	cse := f[6]
	okc := false
	for _, c := range g8VrfCases {
		okc = okc || c == cse
	}
	// gammaT.<i>.<r> / gammaTbad.<i>: Gamma = x·H + T_i
	torI, torR := 0, 0
	if p := strings.Split(cse, "."); (p[0] == "gammaT" && len(p) == 3) || (p[0] == "gammaTbad" && len(p) == 2) {
		i, e1 := strconv.Atoi(p[1])
		r := 0
		var e2 error
		if len(p) == 3 {
			r, e2 = strconv.Atoi(p[2])
		}
		if e1 != nil || e2 != nil || i < 1 || i > 7 || r < 0 || r > 7 {
			return "bad-op"
		}
		cse, torI, torR, okc = p[0], i, r, true
	}
	if !ok1 || !ok2 || !ok3 || !ok4 || !okc || len(seed) != 32 || len(oseed) != 32 ||
		bytes.Equal(seed, oseed) || bytes.Equal(alpha, oalpha) {
		return "bad-op"
	}
	g8VrfMu.Lock()
	defer g8VrfMu.Unlock()
	var ptrace, vtrace [][]byte
	vrf.VerifTrace = func(stage string, vals [][]byte) {
		if stage == "prove" {
			ptrace = vals
		} else {
			vtrace = vals
		}
	}
	defer func() { vrf.VerifTrace = nil }()

	pk, sk, err := vrf.KeyGen(seed)
	if err != nil {
		return "keygen-err"
	}
	pk2, sk2, _ := vrf.KeyGen(oseed)
	proof, out, err := vrf.Prove(sk, alpha)
	if err != nil || ptrace == nil {
		return "prove-err"
	}
	provTrace := ptrace
	// ---- the vocabulary, from the definitions
	x := g8ClampScalar(seed)
	x2 := g8ClampScalar(oseed)
	hb, err := vrf.VerifHashToCurve(pk, alpha)
	if err != nil {
		return "h2c-err"
	}
	H := g8Pt(hb)
	sh := sha512.Sum512(seed)
	k := g8Uniform(append(append([]byte{}, sh[32:64]...), H.Bytes()...))
	k2 := g8Uniform(append([]byte("g8-alt-nonce"), seed...))
	B := edwards25519.NewGeneratorPoint()
	mulB := func(s *edwards25519.Scalar) *edwards25519.Point { return new(edwards25519.Point).ScalarBaseMult(s) }
	mul := func(s *edwards25519.Scalar, p *edwards25519.Point) *edwards25519.Point {
		return new(edwards25519.Point).ScalarMult(s, p)
	}
	Y, Gamma := mulB(x), mul(x, H)
	U1, V1, U2, V2 := mulB(k), mul(k, H), mulB(k2), mul(k2, H)
	// torsion: T_i = i · (the canonical point of order 8)
	var GammaT *edwards25519.Point
	var c4, s4 *edwards25519.Scalar
	if torI > 0 {
		t8b, _ := unhex(g8SmallOrderKeys[4])
		T8 := g8Pt(t8b)
		mulSmall := func(n int, p *edwards25519.Point) *edwards25519.Point {
			acc := edwards25519.NewIdentityPoint()
			for j := 0; j < n; j++ {
				acc = new(edwards25519.Point).Add(acc, p)
			}
			return acc
		}
		Ti := mulSmall(torI, T8)
		GammaT = new(edwards25519.Point).Add(Gamma, Ti)
		if cse == "gammaT" {
			// the key holder searches a nonce whose challenge is ≡ r (mod 8): then c·T_i = r·T_i
			rTi := mulSmall(torR, Ti)
			found := false
			for try := 0; try < 2000 && !found; try++ {
				kk := g8Uniform(append([]byte(fmt.Sprintf("g8-tor-%d/", try)), seed...))
				Uk := mulB(kk)
				Vk := new(edwards25519.Point).Subtract(mul(kk, H), rTi)
				cc := g8Challenge(H, GammaT, Uk, Vk)
				if int(cc.Bytes()[0]&7) == torR {
					k2, U2, V2 = kk, Uk, mul(kk, H)
					c4, s4 = cc, edwards25519.NewScalar().MultiplyAdd(cc, x, kk)
					found = true
				}
			}
			if !found {
				return "craft-failed"
			}
		}
	}
	c1 := g8Challenge(H, Gamma, U1, V1)
	c2 := g8Challenge(H, Gamma, U2, V2)
	s1 := edwards25519.NewScalar().MultiplyAdd(c1, x, k)
	s2 := edwards25519.NewScalar().MultiplyAdd(c2, x, k2)
	// the "other" hash-to-curve point of this op
	var H2 *edwards25519.Point
	switch cse {
	case "othermsg":
		b, _ := vrf.VerifHashToCurve(pk, oalpha)
		H2 = g8Pt(b)
	default:
		b, _ := vrf.VerifHashToCurve(pk2, alpha)
		H2 = g8Pt(b)
	}
	voc := &g8VrfVocab{scal: map[string]string{}, pts: map[string]string{}}
	voc.s("0", edwards25519.NewScalar())
	voc.s("x", x)
	voc.s("k", k)
	voc.s("k2", k2)
	voc.s("x2", x2)
	voc.s("c1", c1)
	voc.s("c2", c2)
	if c4 != nil {
		voc.s("c4", c4)
	}
	voc.s("s1", s1)
	voc.s("s2", s2)
	voc.p("0", edwards25519.NewIdentityPoint())
	voc.p("B", B)
	voc.p("H", H)
	voc.p("H2", H2)
	voc.p("x*B", Y)
	voc.p("x2*B", mulB(x2))
	voc.p("x*H", Gamma)
	voc.p("k*B", U1)
	voc.p("k*H", V1)
	voc.p("k2*B", U2)
	voc.p("k2*H", V2)

	mk := func(g *edwards25519.Point, c, s *edwards25519.Scalar) []byte {
		p := append([]byte{}, g.Bytes()...)
		p = append(p, c.Bytes()[:16]...)
		return append(p, s.Bytes()...)
	}
	key, msg, pi := pk, alpha, proof
	switch cse {
	case "altnonce":
		pi = mk(Gamma, c2, s2)
	case "mix":
		pi = mk(Gamma, c1, s2)
	case "splus1":
		one, _ := edwards25519.NewScalar().SetCanonicalBytes(append([]byte{1}, make([]byte, 31)...))
		pi = mk(Gamma, c1, edwards25519.NewScalar().Add(s1, one))
	case "gammaKH":
		pi = mk(V1, c1, s1)
	case "gammaY":
		pi = mk(Y, c1, s1)
	case "gammaT":
		pi = mk(GammaT, c4, s4)
	case "gammaTbad":
		pi = mk(GammaT, c1, s1)
	case "otherkey":
		key = pk2
	case "othermsg":
		msg = oalpha
	case "otherproof":
		pi, _, err = vrf.Prove(sk2, alpha)
		if err != nil {
			return "prove-err"
		}
	}
	vtrace = nil
	got, verr := vrf.VerifyAndHash(key, pi, msg)
	okS, outS := "0", "-"
	if verr == nil {
		okS = "1"
		if bytes.Equal(got, out) {
			outS = "same"
		} else {
			outS = "diff"
		}
	}
	var sb strings.Builder
	fmt.Fprintf(&sb, "ok=%s out=%s | P: Y=%s H=%s G=%s k=%s U=%s V=%s c=%s s=%s | V:", okS, outS,
		voc.nameP(provTrace[0]), voc.nameP(provTrace[1]), voc.nameP(provTrace[2]), voc.nameS(provTrace[3]),
		voc.nameP(provTrace[4]), voc.nameP(provTrace[5]), voc.nameS(provTrace[6]), voc.nameS(provTrace[7]))
	if vtrace == nil {
		sb.WriteString(" -")
	} else {
		vName := voc.nameP(vtrace[4])
		if cse == "gammaTbad" {
			// V = k·H − (c1 mod 8)·T_i: its torsion part depends on the residue of the genuine
			// challenge, a fact the model does not have (it leaves the point unnamed)
			vName = "~"
		}
		fmt.Fprintf(&sb, " H=%s U=%s V=%s c'=%s", voc.nameP(vtrace[1]), voc.nameP(vtrace[3]), vName, voc.nameS(vtrace[6]))
	}
	return sb.String()
}

// ---- small-order public keys with a proof CRAFTED for them (op `vrf sok`)
//
// For a key Y of small order anybody can make a proof that satisfies the verification
// equation: Gamma = identity, any s, and c = hashPoints(H, Gamma, s·B − c·Y, s·H) — c·Y depends
// only on c mod ord(Y), so a few tries of s give a consistent c. Such a proof is accepted by a
// verifier that lets the key through, hence the small-order guard must reject every one of the
// eight small-order points, in every encoding the point decoder accepts.

// the eight points of small order (orders 1, 2, 4, 4, 8, 8, 8, 8), canonical encodings, followed
// by non-canonical encodings of small-order points (y = p, p+1 instead of 0, 1; x = 0 with the
// sign bit set)
var g8SmallOrderKeys = []string{
	"0100000000000000000000000000000000000000000000000000000000000000",
	"ecffffffffffffffffffffffffffffffffffffffffffffffffffffffffffff7f",
	"0000000000000000000000000000000000000000000000000000000000000000",
	"0000000000000000000000000000000000000000000000000000000000000080",
	"26e8958fc2b227b045c3f489f2ef98f0d5dfac05d3c63339b13802886d53fc05",
	"26e8958fc2b227b045c3f489f2ef98f0d5dfac05d3c63339b13802886d53fc85",
	"c7176a703d4dd84fba3c0b760d10670f2a2053fa2c39ccc64ec7fd7792ac037a",
	"c7176a703d4dd84fba3c0b760d10670f2a2053fa2c39ccc64ec7fd7792ac03fa",
	// non-canonical
	"edffffffffffffffffffffffffffffffffffffffffffffffffffffffffffff7f",
	"edffffffffffffffffffffffffffffffffffffffffffffffffffffffffffffff",
	"eeffffffffffffffffffffffffffffffffffffffffffffffffffffffffffff7f",
	"eeffffffffffffffffffffffffffffffffffffffffffffffffffffffffffffff",
	"0100000000000000000000000000000000000000000000000000000000000080",
	"ecffffffffffffffffffffffffffffffffffffffffffffffffffffffffffffff",
}

func g8RunVrfSmallOrder(f []string) string {
	if len(f) != 5 {
		return "bad-op"
	}
	i, err := strconv.Atoi(f[2])
	seed, ok1 := unhex(f[3])
	alpha, ok2 := unhex(f[4])
	if err != nil || i < 0 || i >= len(g8SmallOrderKeys) || !ok1 || !ok2 || len(seed) != 32 {
		return "bad-op"
	}
	pk, _ := unhex(g8SmallOrderKeys[i])
	proof := make([]byte, 80)
	Y, perr := new(edwards25519.Point).SetBytes(pk)
	if perr == nil {
		// craft a proof that satisfies the verification equation for this key
		hb, herr := vrf.VerifHashToCurve(pk, alpha)
		if herr == nil {
			H := g8Pt(hb)
			id := edwards25519.NewIdentityPoint()
			crafted := false
			for try := 0; try < 400 && !crafted; try++ {
				s := g8Uniform(append([]byte(fmt.Sprintf("g8-sok-%d/", try)), seed...))
				sB := new(edwards25519.Point).ScalarBaseMult(s)
				sH := new(edwards25519.Point).ScalarMult(s, H)
				for r := 0; r < 8 && !crafted; r++ {
					rb := make([]byte, 32)
					rb[0] = byte(r)
					rs, _ := edwards25519.NewScalar().SetCanonicalBytes(rb)
					U := new(edwards25519.Point).Subtract(sB, new(edwards25519.Point).ScalarMult(rs, Y))
					c := g8Challenge(H, id, U, sH)
					// c·Y = r·Y ?  (Y has order dividing 8)
					if new(edwards25519.Point).ScalarMult(c, Y).Equal(new(edwards25519.Point).ScalarMult(rs, Y)) == 1 {
						copy(proof[0:32], id.Bytes())
						copy(proof[32:48], c.Bytes()[:16])
						copy(proof[48:80], s.Bytes())
						crafted = true
					}
				}
			}
			if !crafted {
				return "craft-failed"
			}
		}
	}
	_, verr := vrf.VerifyAndHash(pk, proof, alpha)
	if verr == nil {
		return "v=1 accepted-small-order-key"
	}
	k := c38ErrKind(verr)
	if k == "smallorder" || k == "decode" {
		// (which of the two depends on whether the point decoder accepts the encoding)
		return "v=0 err=rejectedkey"
	}
	return "v=0 err=" + k
}
