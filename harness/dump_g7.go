package main

// Regenerated tie for C36: the era tables as the *running* code has them.
// Written to lean/GV/Gen/Eras.lean on every check.

import (
	"bufio"
	"fmt"
	"sort"

	"github.com/blinklabs-io/gouroboros/cbor"
	"github.com/blinklabs-io/gouroboros/ledger"
	"github.com/blinklabs-io/gouroboros/ledger/allegra"
	"github.com/blinklabs-io/gouroboros/ledger/alonzo"
	"github.com/blinklabs-io/gouroboros/ledger/babbage"
	"github.com/blinklabs-io/gouroboros/ledger/byron"
	"github.com/blinklabs-io/gouroboros/ledger/common"
	"github.com/blinklabs-io/gouroboros/ledger/conway"
	"github.com/blinklabs-io/gouroboros/ledger/dijkstra"
	"github.com/blinklabs-io/gouroboros/ledger/mary"
	"github.com/blinklabs-io/gouroboros/ledger/shelley"
)

type g7EraRow struct {
	name             string
	era              common.Era
	eraId            uint
	minPV, maxPV     uint64
	blockType        uint
	headerType       uint
	protoMajorLedger uint64 // ledger.ProtoMajor<Era>: "first major of the era"
}

func g7EraRows() []g7EraRow {
	return []g7EraRow{
		{"shelley", shelley.EraShelley, shelley.EraIdShelley, shelley.MinProtocolVersionShelley, shelley.MaxProtocolVersionShelley, shelley.BlockTypeShelley, shelley.BlockHeaderTypeShelley, ledger.ProtoMajorShelley},
		{"allegra", allegra.EraAllegra, allegra.EraIdAllegra, allegra.MinProtocolVersionAllegra, allegra.MaxProtocolVersionAllegra, allegra.BlockTypeAllegra, allegra.BlockHeaderTypeAllegra, ledger.ProtoMajorAllegra},
		{"mary", mary.EraMary, mary.EraIdMary, mary.MinProtocolVersionMary, mary.MaxProtocolVersionMary, mary.BlockTypeMary, mary.BlockHeaderTypeMary, ledger.ProtoMajorMary},
		{"alonzo", alonzo.EraAlonzo, alonzo.EraIdAlonzo, alonzo.MinProtocolVersionAlonzo, alonzo.MaxProtocolVersionAlonzo, alonzo.BlockTypeAlonzo, alonzo.BlockHeaderTypeAlonzo, ledger.ProtoMajorAlonzo},
		{"babbage", babbage.EraBabbage, babbage.EraIdBabbage, babbage.MinProtocolVersionBabbage, babbage.MaxProtocolVersionBabbage, babbage.BlockTypeBabbage, babbage.BlockHeaderTypeBabbage, ledger.ProtoMajorBabbage},
		{"conway", conway.EraConway, conway.EraIdConway, conway.MinProtocolVersionConway, conway.MaxProtocolVersionConway, conway.BlockTypeConway, conway.BlockHeaderTypeConway, ledger.ProtoMajorConway},
		{"dijkstra", dijkstra.EraDijkstra, dijkstra.EraIdDijkstra, dijkstra.MinProtocolVersionDijkstra, dijkstra.MaxProtocolVersionDijkstra, dijkstra.BlockTypeDijkstra, dijkstra.BlockHeaderTypeDijkstra, ledger.ProtoMajorDijkstra},
	}
}

// g7SyntheticHeader builds [body, sig] with a body of bodyLen fields and the
// protocol major where DetermineBlockType looks for it.
func g7SyntheticHeader(bodyLen int, major any) []byte {
	body := make([]any, bodyLen)
	for i := range body {
		body[i] = uint64(0)
	}
	if bodyLen == 15 {
		body[13] = major
	} else if bodyLen >= 10 {
		body[9] = []any{major, uint64(0)}
	}
	b, err := cbor.Encode([]any{body, []byte{}})
	if err != nil {
		panic(err)
	}
	return b
}

func g7OptType(t uint, err error) string {
	if err != nil {
		return "none"
	}
	return fmt.Sprintf("(some %d)", t)
}

func g7SortedMap(m map[uint]uint) string {
	keys := []int{}
	for k := range m {
		keys = append(keys, int(k))
	}
	sort.Ints(keys)
	s := "["
	for i, k := range keys {
		if i > 0 {
			s += ", "
		}
		s += fmt.Sprintf("(%d, %d)", k, m[uint(k)])
	}
	return s + "]"
}

func init() {
	registerDump("Eras", func(w *bufio.Writer) {
		fmt.Fprintf(w, "namespace GV.Gen.Eras\n\n")
		fmt.Fprintf(w, "structure EraRow where\n  name : String\n  eraId : Nat\n  eraName : String\n  registeredId : Nat\n  minPV : Nat\n  maxPV : Nat\n  blockType : Nat\n  headerType : Nat\n  ledgerProtoMajor : Nat\nderiving Repr, DecidableEq\n\n")
		fmt.Fprintf(w, "/-- Shelley and later: constants of ledger/<era>/<era>.go as compiled; `registeredId` is\n    `common.EraById(eraId).Id`, `eraName` is `Era<X>.Name` -/\ndef eras : List EraRow := [\n")
		rows := g7EraRows()
		for i, r := range rows {
			sep := ","
			if i == len(rows)-1 {
				sep = ""
			}
			fmt.Fprintf(w, "  ⟨%q, %d, %q, %d, %d, %d, %d, %d, %d⟩%s\n", r.name, r.eraId, r.era.Name, common.EraById(uint8(r.eraId)).Id, r.minPV, r.maxPV, r.blockType, r.headerType, r.protoMajorLedger, sep)
		}
		fmt.Fprintf(w, "]\n\n")
		fmt.Fprintf(w, "def byronEraId : Nat := %d\ndef byronEbbBlockType : Nat := %d\ndef byronMainBlockType : Nat := %d\ndef byronHeaderType : Nat := %d\n", byron.EraIdByron, byron.BlockTypeByronEbb, byron.BlockTypeByronMain, byron.BlockHeaderTypeByron)
		fmt.Fprintf(w, "def headerBodyLengthShelleyLike : Nat := %d\ndef headerBodyLengthBabbageLike : Nat := %d\n\n", ledger.HeaderBodyLengthShelleyLike, ledger.HeaderBodyLengthBabbageLike)
		fmt.Fprintf(w, "/-- `ledger.BlockHeaderToBlockTypeMap`, sorted by key -/\ndef headerToBlock : List (Nat × Nat) := %s\n", g7SortedMap(ledger.BlockHeaderToBlockTypeMap))
		fmt.Fprintf(w, "/-- `ledger.BlockToBlockHeaderTypeMap`, sorted by key -/\ndef blockToHeader : List (Nat × Nat) := %s\n\n", g7SortedMap(ledger.BlockToBlockHeaderTypeMap))
		for _, bl := range []int{15, 10} {
			fmt.Fprintf(w, "/-- `ledger.DetermineBlockType` on a synthetic %d-field header body, protocol major = index -/\ndef determine%d : List (Option Nat) := [", bl, bl)
			for m := 0; m <= 64; m++ {
				t, err := ledger.DetermineBlockType(g7SyntheticHeader(bl, uint64(m)))
				if m > 0 {
					fmt.Fprintf(w, ", ")
				}
				fmt.Fprintf(w, "%s", g7OptType(t, err))
			}
			fmt.Fprintf(w, "]\n")
		}
		// every registered era id
		fmt.Fprintf(w, "\n/-- `common.EraById(i)` for every i in 0..255 that is not the invalid era (id, name) -/\ndef registered : List (Nat × String) := [")
		first := true
		for i := 0; i < 256; i++ {
			e := common.EraById(uint8(i))
			if e == common.EraInvalid {
				continue
			}
			if !first {
				fmt.Fprintf(w, ", ")
			}
			first = false
			fmt.Fprintf(w, "(%d, %q)", e.Id, e.Name)
		}
		fmt.Fprintf(w, "]\n\n")
		// what a real block decoded as its own type reports
		fmt.Fprintf(w, "/-- real fixture decoded by `ledger.NewBlockFromCbor(T, bytes)`:\n    (T, block.Type(), block.Era().Id, block.Header().Era().Id, header decoded by NewBlockHeaderFromCbor(T, …).Era().Id) -/\ndef decoded : List (Nat × Nat × Nat × Nat × Nat) := [")
		first = true
		for _, f := range g7Fixtures {
			data, err := f.bytes()
			if err != nil {
				panic(err)
			}
			// body-hash validation is C34/C35's business: keep this dump independent of it
			blk, err := ledger.NewBlockFromCbor(f.blockType, data, common.VerifyConfig{SkipBodyHashValidation: true})
			if err != nil {
				panic(fmt.Sprintf("fixture %s does not decode as type %d: %v", f.name, f.blockType, err))
			}
			hdrBytes, _, _, _, _, err := g7HeaderInfo(data)
			if err != nil {
				panic(err)
			}
			hdr, err := ledger.NewBlockHeaderFromCbor(f.blockType, hdrBytes)
			if err != nil {
				panic(fmt.Sprintf("fixture %s header does not decode as type %d: %v", f.name, f.blockType, err))
			}
			if !first {
				fmt.Fprintf(w, ", ")
			}
			first = false
			fmt.Fprintf(w, "(%d, %d, %d, %d, %d)", f.blockType, blk.Type(), blk.Era().Id, blk.Header().Era().Id, hdr.Era().Id)
		}
		fmt.Fprintf(w, "]\n\nend GV.Gen.Eras\n")
	})
}
