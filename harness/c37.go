package main

// C37 — leadership threshold. See lean/GV/Drv/C37.lean for the op grammar.

import (
	"fmt"
	"math/big"
	"strconv"
	"strings"
	"time"

	"github.com/blinklabs-io/gouroboros/consensus"
)

func init() {
	register(&Prop{ID: "C37", Gen: genC37, Run: runC37, Timeout: 60 * time.Second})
}

func c37Coeff(num, den string) (*big.Rat, bool, bool) {
	n, ok1 := new(big.Int).SetString(num, 10)
	d, ok2 := new(big.Int).SetString(den, 10)
	if !ok1 || !ok2 || d.Sign() < 0 {
		return nil, false, false
	}
	if d.Sign() == 0 {
		return nil, true, true // nil coefficient
	}
	return new(big.Rat).SetFrac(n, d), false, true
}

func c37Err(err error) string {
	s := err.Error()
	switch {
	case strings.HasPrefix(s, "unknown consensus mode"):
		return "err:mode"
	case strings.HasPrefix(s, "activeSlotCoeff must not exceed 1"):
		return "err:f>1"
	case strings.HasPrefix(s, "threshold precision escalation"):
		return "err:escalation"
	}
	return "err:other"
}

func runC37(op string) string {
	f := strings.Fields(op)
	if len(f) == 0 {
		return "bad-op"
	}
	switch f[0] {
	case "thr", "elig":
		want := 6
		if f[0] == "elig" {
			want = 7
		}
		if len(f) != want {
			return "bad-op"
		}
		mode, e1 := strconv.Atoi(f[1])
		pool, e2 := strconv.ParseUint(f[2], 10, 64)
		total, e3 := strconv.ParseUint(f[3], 10, 64)
		coeff, _, ok := c37Coeff(f[4], f[5])
		if e1 != nil || e2 != nil || e3 != nil || !ok {
			return "bad-op"
		}
		if f[0] == "thr" {
			t, err := consensus.CertifiedNatThresholdWithMode(pool, total, coeff, consensus.ConsensusMode(mode))
			if err != nil {
				return c37Err(err)
			}
			return bigStr(t)
		}
		vrf, ok := unhex(f[6])
		if !ok {
			return "bad-op"
		}
		el, err := consensus.IsSlotLeaderFromComponentsWithMode(vrf, pool, total, coeff, consensus.ConsensusMode(mode))
		if err != nil {
			return c37Err(err)
		}
		return b01(el)
	case "below":
		if len(f) != 4 {
			return "bad-op"
		}
		mode, e1 := strconv.Atoi(f[1])
		vrf, ok := unhex(f[2])
		if e1 != nil || !ok {
			return "bad-op"
		}
		var thr *big.Int
		if f[3] != "nil" {
			var ok2 bool
			thr, ok2 = new(big.Int).SetString(f[3], 10)
			if !ok2 || thr.Sign() < 0 {
				return "bad-op"
			}
		}
		if len(vrf) == 0 {
			vrf = nil
		}
		b, err := consensus.IsVRFOutputBelowThresholdWithMode(vrf, thr, consensus.ConsensusMode(mode))
		if err != nil {
			return c37Err(err)
		}
		return b01(b)
	}
	return "bad-op"
}

// ---- generator

func c37Pow(b, e int64) *big.Int { return new(big.Int).Exp(big.NewInt(b), big.NewInt(e), nil) }

// coefficient as "num den": small, huge, near 0, near 1, perfect powers, out of domain
func c37F(r *Rand, m int) string {
	switch r.Intn(16) {
	case 14, 15: // 1-f tiny and not a perfect m-th power: (1-f)^sigma far below 2^-512
		k := int64(600 + r.Intn(3000))
		if m > 1 && k%int64(m) == 0 {
			k++
		}
		d := c37Pow(2, k)
		c := int64(1 + 2*r.Intn(2)) // 1 or 3
		return new(big.Int).Sub(d, big.NewInt(c)).String() + " " + d.String()
	case 0:
		return "1 20"
	case 1:
		return Pick(r, "1 2", "3 4", "1 10", "9 10", "99 100", "1 1000")
	case 2: // 1-f = 2^-k : perfect power for every m dividing k
		k := int64(1 + r.Intn(300))
		d := c37Pow(2, k)
		return new(big.Int).Sub(d, big.NewInt(1)).String() + " " + d.String()
	case 3: // 1-f = (r/s)^m exactly: the exact fast path
		s := int64(2 + r.Intn(9))
		rr := int64(1 + r.Intn(int(s-1)))
		d := c37Pow(s, int64(m))
		return new(big.Int).Sub(d, c37Pow(rr, int64(m))).String() + " " + d.String()
	case 4: // next to a perfect power: must NOT take the exact path
		s := int64(2 + r.Intn(9))
		d := c37Pow(s, int64(m))
		n := new(big.Int).Sub(d, c37Pow(1, 1))
		n.Sub(n, big.NewInt(int64(r.Intn(2))))
		if n.Sign() <= 0 {
			return "1 2"
		}
		return n.String() + " " + d.String()
	case 5: // huge numerator and denominator
		d := new(big.Int).SetBytes(r.Bytes(20 + r.Intn(100)))
		d.Add(d, big.NewInt(2))
		n := new(big.Int).SetBytes(r.Bytes(20 + r.Intn(100)))
		n.Mod(n, d)
		if n.Sign() == 0 {
			n.SetInt64(1)
		}
		return n.String() + " " + d.String()
	case 6: // tiny f
		return "1 " + c37Pow(2, int64(1+r.Intn(600))).String()
	case 7: // f = 0, negative, 1, > 1, nil
		return Pick(r, "0 1", "-1 20", "-1 1", "1 1", "21 20", "2 1", "0 0", "1 0", "0 5")
	case 8:
		d := int64(2 + r.Intn(1000))
		return fmt.Sprintf("%d %d", 1+r.Intn(int(d-1)), d)
	default:
		d := int64(2 + r.Intn(100))
		return fmt.Sprintf("%d %d", 1+r.Intn(int(d-1)), d)
	}
}

// stakes (pool, total) whose reduced denominator is m
func c37Stakes(r *Rand, small bool, tier string) (uint64, uint64, int) {
	if small {
		m := 1 + r.Intn(48)
		n := 1 + r.Intn(m)
		if r.Chance(1, 6) {
			n = m
		}
		g := uint64(1)
		switch r.Intn(3) {
		case 0:
			g = 1 + uint64(r.Intn(1000))
		case 1:
			g = (^uint64(0)) / uint64(m) // totals next to 2^64
			g -= uint64(r.Intn(3))
		}
		return g * uint64(n), g * uint64(m), m
	}
	k := r.Intn(7)
	if k == 6 && tier != "thorough" && !r.Chance(1, 6) {
		k = r.Intn(6) // the big-power certificates are expensive: few in the quick tier
	}
	switch k {
	case 6: // medium reduced denominator: still certified exactly
		m := 49 + r.Intn(350)
		n := 1 + r.Intn(m)
		g := 1 + r.U64()%((^uint64(0))/uint64(m))
		return g * uint64(n), g * uint64(m), m
	case 0:
		return r.EdgeU64(), r.EdgeU64(), 1
	case 1: // tiny ratio
		return 1 + uint64(r.Intn(5)), ^uint64(0) - uint64(r.Intn(5)), 1
	case 2: // near-total
		t := r.U64() | 1<<63
		return t - 1 - uint64(r.Intn(5)), t, 1
	case 3: // pool > total: capped
		t := 1 + r.U64()>>uint(r.Intn(60))
		return t + 1 + uint64(r.Intn(1000)), t, 1
	default:
		t := 1 + r.U64()>>uint(r.Intn(40))
		return r.U64() % (t + 1), t, 1
	}
}

// c37Fixed: emitted on every run, both tiers.
//   - the exact rational fast path with a REDUCED sigma = n/m, n >= 2 (both the
//     numerator root and the denominator root are raised to n), stakes scaled by
//     a common factor, both modes, through the threshold AND the eligibility entry point;
//   - the general (ln/exp) path for the same sigmas;
//   - TPraos leader values placed at T-1, T, T+1 around the threshold computed HERE by
//     integer arithmetic for the exact path (independent of the code under test);
//   - CPraos eligibility with coefficients whose threshold is far from both 0 and 2^256, so a
//     threshold computed in the other mode's range flips the verdict for about half the outputs.
func c37Fixed(r *Rand, tier string, emit func(string)) {
	two512 := new(big.Int).Lsh(big.NewInt(1), 512)
	for _, nm := range [][2]int64{{2, 3}, {3, 4}, {2, 5}, {3, 5}, {5, 7}, {4, 9}} {
		n, m := nm[0], nm[1]
		for _, rs := range [][2]int64{{1, 2}, {2, 3}, {3, 5}, {1, 10}, {9, 10}} {
			rr, ss := rs[0], rs[1]
			den := c37Pow(ss, m)
			num := new(big.Int).Sub(den, c37Pow(rr, m)) // f = 1 - (r/s)^m
			fs := num.String() + " " + den.String()
			g := Pick(r, uint64(1), 1000003, (^uint64(0))/uint64(m))
			pool, total := g*uint64(n), g*uint64(m)
			for mode := 0; mode <= 1; mode++ {
				emit(fmt.Sprintf("thr %d %d %d %s", mode, pool, total, fs))
			}
			// T = floor(2^512 * (s^n - r^n) / s^n)
			sn := c37Pow(ss, n)
			t := new(big.Int).Mul(two512, new(big.Int).Sub(sn, c37Pow(rr, n)))
			t.Quo(t, sn)
			for d := int64(-1); d <= 1; d++ {
				v := new(big.Int).Add(t, big.NewInt(d))
				if v.Sign() >= 0 && v.BitLen() <= 512 {
					emit(fmt.Sprintf("elig 1 %d %d %s %s", pool, total, fs, hexs(v.FillBytes(make([]byte, 64)))))
				}
			}
			emit(fmt.Sprintf("elig 0 %d %d %s %s", pool, total, fs, hexs(r.Bytes(64))))
		}
		// general path, same sigma: mainnet coefficient and a large one
		for _, fs := range []string{"1 20", "1 2", "9 10", "1 1000"} {
			pool, total := uint64(n)*7, uint64(m)*7
			for mode := 0; mode <= 1; mode++ {
				emit(fmt.Sprintf("thr %d %d %d %s", mode, pool, total, fs))
			}
			c, _, _ := c37Coeff(strings.Fields(fs)[0], strings.Fields(fs)[1])
			if t, err := consensus.CertifiedNatThresholdWithMode(pool, total, c, consensus.ConsensusModeTPraos); err == nil {
				for d := int64(-1); d <= 1; d++ {
					v := new(big.Int).Add(t, big.NewInt(d))
					if v.Sign() >= 0 && v.BitLen() <= 512 {
						emit(fmt.Sprintf("elig 1 %d %d %s %s", pool, total, fs, hexs(v.FillBytes(make([]byte, 64)))))
					}
				}
			}
			for k := 0; k < 3; k++ {
				emit(fmt.Sprintf("elig 0 %d %d %s %s", pool, total, fs, hexs(r.Bytes(64))))
			}
		}
	}
	// large reduced denominators whose 1-f is an exact m-th power (the exact fast path where the
	// integer certificate with m-th powers of U is infeasible): certified by the exact-root checker;
	// and the same coefficients moved off the power by one unit (rational certificate)
	for _, c := range []struct{ n, m, r, s int64 }{{7, 600, 1, 2}, {3, 1000, 1, 2}, {11, 1500, 3, 4}, {5, 997, 1, 2}} {
		den := c37Pow(c.s, c.m)
		num := new(big.Int).Sub(den, c37Pow(c.r, c.m))
		fs := num.String() + " " + den.String()
		pool, total := uint64(c.n)*3, uint64(c.m)*3
		for mode := 0; mode <= 1; mode++ {
			emit(fmt.Sprintf("thr %d %d %d %s", mode, pool, total, fs))
		}
		sn := c37Pow(c.s, c.n)
		t := new(big.Int).Mul(two512, new(big.Int).Sub(sn, c37Pow(c.r, c.n)))
		t.Quo(t, sn)
		for d := int64(-1); d <= 1; d++ {
			v := new(big.Int).Add(t, big.NewInt(d))
			if v.Sign() >= 0 && v.BitLen() <= 512 {
				emit(fmt.Sprintf("elig 1 %d %d %s %s", pool, total, fs, hexs(v.FillBytes(make([]byte, 64)))))
			}
		}
		// one unit off the power: the value sits 2^-(bits of den) from an integer boundary, so the
		// certificate needs that much precision (seconds for the 3000-bit cases: thorough tier only)
		if c.m <= 600 || tier == "thorough" {
			off := new(big.Int).Sub(num, big.NewInt(1))
			emit(fmt.Sprintf("thr %d %d %d %s %s", r.Intn(2), pool, total, off.String(), den.String()))
		}
	}
	// CPraos: eight outputs against T = 2^255 (f = 1/2, full stake) and T ~ 2^256/20
	for k := 0; k < 8; k++ {
		emit(fmt.Sprintf("elig 0 5 5 1 2 %s", hexs(r.Bytes(64))))
		emit(fmt.Sprintf("elig 0 5 5 1 20 %s", hexs(r.Bytes(64))))
		emit(fmt.Sprintf("below 0 %s %s", hexs(r.Bytes(64)), new(big.Int).Lsh(big.NewInt(1), 255).String()))
	}
}

func genC37(r *Rand, n int, tier string, emit func(string)) {
	c37Fixed(r, tier, emit)
	for i := 0; i < n; i++ {
		mode := Pick(r, 0, 0, 1, 1, 0, 1, 0, 1, 0, 1, 0, 1, 0, 1, 2, 7)
		small := !r.Chance(1, 4)
		pool, total, m := c37Stakes(r, small, tier)
		if r.Chance(1, 25) {
			pool = 0
		}
		if r.Chance(1, 25) {
			total = 0
		}
		fs := c37F(r, m)
		switch r.Intn(10) {
		case 0, 1:
			// eligibility: TPraos values can be placed exactly at T-1, T, T+1
			vrf := r.Bytes(64)
			if r.Chance(1, 8) {
				vrf = r.Bytes(Pick(r, 0, 32, 63, 65))
			}
			if mode == 1 && r.Chance(2, 3) {
				if c, isNil, ok := c37Coeff(strings.Fields(fs)[0], strings.Fields(fs)[1]); ok && !isNil {
					if t, err := consensus.CertifiedNatThresholdWithMode(pool, total, c, consensus.ConsensusModeTPraos); err == nil {
						v := new(big.Int).Add(t, big.NewInt(int64(r.Intn(3)-1)))
						if v.Sign() >= 0 && v.BitLen() <= 512 {
							vrf = v.FillBytes(make([]byte, 64))
						}
					}
				}
			}
			emit(fmt.Sprintf("elig %d %d %d %s %s", mode, pool, total, fs, hexs(vrf)))
		case 2:
			vrf := r.Bytes(Pick(r, 64, 64, 32, 0, 1))
			thr := "nil"
			if !r.Chance(1, 10) {
				v := new(big.Int).SetBytes(r.Bytes(Pick(r, 32, 64, 1)))
				if mode == 1 && len(vrf) > 0 && r.Chance(1, 2) {
					v = new(big.Int).SetBytes(vrf)
					v.Add(v, big.NewInt(int64(r.Intn(3)-1)))
					if v.Sign() < 0 {
						v.SetInt64(0)
					}
				}
				thr = v.String()
			}
			emit(fmt.Sprintf("below %d %s %s", mode, hexs(vrf), thr))
		default:
			emit(fmt.Sprintf("thr %d %d %d %s", mode, pool, total, fs))
		}
	}
}
