package main

// C34 — block bodies are bound to their headers at decode time.
//
// op:  mut <fixture> <skip 0|1>[+<mask>] <splices>
//      mask = bit i set ⇒ the i-th OTHER boolean field of common.VerifyConfig (declaration
//      order, SkipBodyHashValidation left out; enumerated by reflection, so a new toggle is
//      picked up) is true: the binding must hold whatever the unrelated toggles say
//      fixture = era[.k]  (real block read BY PATH from the repository under test)
//      splices = "-" (the real block) or off:del:hex;off:del:hex... applied to the real block
// out: <verdict> ;; <facts>
//      verdict = ok hash=<block hash> | err:decode | err:bodyhash | err:bodyproof:<component> | err:panic
//      facts   = computed by this harness alone (own CBOR splitter + x/crypto/blake2b), see c34Facts.
//
// The Lean driver (feed_impl) recomputes the verdict from the digests in the
// facts with the model of ValidateBlockBodyHash / ValidateBodyProof; the spec
// column uses only the flags real/hdr/chg.

import (
	"encoding/hex"
	"errors"
	"fmt"
	"os"
	"path/filepath"
	"reflect"
	"strconv"
	"strings"
	"sync"
	"time"

	"github.com/blinklabs-io/gouroboros/ledger"
	"github.com/blinklabs-io/gouroboros/ledger/byron"
	"github.com/blinklabs-io/gouroboros/ledger/common"
)

const (
	c34Segwit = iota
	c34Dijkstra
	c34ByronMain
	c34ByronEbb
)

type c34Fixture struct {
	name   string
	era    string
	path   string
	btype  uint
	layout int
	// header body index of block_body_hash (segwit/dijkstra)
	bhIdx int
	// synth builds the block instead of reading it from `path`
	synth func() []byte

	once sync.Once
	data []byte
	err  error

	oitems [][]byte // own split of the real block (cached)
	ook    bool
	obyron c34Byron
}

var c34Fixtures = []*c34Fixture{
	{name: "byron", era: "byron", path: "internal/testdata/byron_block.hex", btype: ledger.BlockTypeByronMain, layout: c34ByronMain},
	{name: "byron.1", era: "byron", path: "protocol/chainsync/testdata/byron_main_block_testnet_f38aa5e8cf0b47d1ffa8b2385aa2d43882282db2ffd5ac0e3dadec1a6f2ecf08.hex", btype: ledger.BlockTypeByronMain, layout: c34ByronMain},
	{name: "byronebb", era: "byronebb", path: "protocol/chainsync/testdata/byron_ebb_testnet_8f8602837f7c6f8b8867dd1cbc1842cf51a27eaed2c70ef48325d00f8efb320f.hex", btype: ledger.BlockTypeByronEbb, layout: c34ByronEbb},
	{name: "shelley", era: "shelley", path: "internal/testdata/shelley_block.hex", btype: ledger.BlockTypeShelley, layout: c34Segwit, bhIdx: 8},
	{name: "shelley.1", era: "shelley", path: "protocol/chainsync/testdata/shelley_block_testnet_02b1c561715da9e540411123a6135ee319b02f60b9a11a603d3305556c04329f.hex", btype: ledger.BlockTypeShelley, layout: c34Segwit, bhIdx: 8},
	{name: "allegra", era: "allegra", path: "internal/testdata/allegra_block.hex", btype: ledger.BlockTypeAllegra, layout: c34Segwit, bhIdx: 8},
	{name: "mary", era: "mary", path: "internal/testdata/mary_block.hex", btype: ledger.BlockTypeMary, layout: c34Segwit, bhIdx: 8},
	{name: "alonzo", era: "alonzo", path: "internal/testdata/alonzo_block.hex", btype: ledger.BlockTypeAlonzo, layout: c34Segwit, bhIdx: 8},
	{name: "babbage", era: "babbage", path: "internal/testdata/babbage_block.hex", btype: ledger.BlockTypeBabbage, layout: c34Segwit, bhIdx: 7},
	{name: "conway", era: "conway", path: "internal/testdata/conway_block.hex", btype: ledger.BlockTypeConway, layout: c34Segwit, bhIdx: 7},
	{name: "dijkstra", era: "dijkstra", path: "ledger/dijkstra/testdata/musashi_dijkstra_block.hex", btype: ledger.BlockTypeDijkstra, layout: c34Dijkstra, bhIdx: 7},
	// the only real Dijkstra fixture has an empty body: a Dijkstra-layout block WITH transactions
	// (real Dijkstra header, Conway transactions the Dijkstra decoder accepts) whose header
	// commits to the synthetic body, so that body mutations of this layout are exercised
	{name: "dijkstra.syn", era: "dijkstra", btype: ledger.BlockTypeDijkstra, layout: c34Dijkstra, bhIdx: 7, synth: c34SynthDijkstra},
}

// c34SynthDijkstra: synthDijkstra() (util_g10b.go) with the header's block_body_hash replaced
// by blake2b-256 of the synthetic body element, so the block decodes with validation ON.
func c34SynthDijkstra() []byte {
	if _, err := fixtures(); err != nil {
		return nil
	}
	raw := synthDijkstra()
	if raw == nil {
		return nil
	}
	root, err := parseCborAll(raw)
	if err != nil || len(root.kids) != 2 {
		return nil
	}
	hbody := root.kid(0).kid(0)
	if hbody == nil || len(hbody.kids) <= 7 || hbody.kids[7].major != 2 || len(hbody.kids[7].payload) != 32 {
		return nil
	}
	h := sum256(root.kid(1).bytes())
	hbody.kids[7].payload = h[:]
	return root.bytes()
}

func c34Repo() string {
	r := os.Getenv("VERIF_REPO")
	if r == "" {
		r = "/repo"
	}
	if a, err := filepath.Abs(r); err == nil {
		r = a
	}
	return r
}

func (f *c34Fixture) load() ([]byte, error) {
	f.once.Do(func() {
		if f.synth != nil {
			if f.data = f.synth(); f.data == nil {
				f.err = errors.New("synthetic fixture could not be built")
			}
		} else {
			raw, err := os.ReadFile(filepath.Join(c34Repo(), f.path))
			if err != nil {
				f.err = err
				return
			}
			f.data, f.err = hex.DecodeString(strings.TrimSpace(string(raw)))
		}
		if f.err == nil {
			f.oitems, _, f.ook = c34Split(f.data)
			if f.ook && f.layout == c34ByronMain && len(f.oitems) >= 2 {
				f.obyron = c34ByronParts(f.oitems[1])
			}
		}
	})
	return f.data, f.err
}

func c34Find(name string) *c34Fixture {
	for _, f := range c34Fixtures {
		if f.name == name {
			return f
		}
	}
	return nil
}

func init() {
	register(&Prop{ID: "C34", Gen: genC34, Run: runC34, Timeout: 3 * time.Minute})
}

// ---------------------------------------------------------------- Run

func runC34(op string) string {
	f := strings.Fields(op)
	if len(f) == 5 && f[0] == "pair" {
		return runC34Pair(f)
	}
	if len(f) != 4 || f[0] != "mut" {
		return "bad-op"
	}
	skip, mask, okf := c34ParseFlags(f[2])
	if !okf {
		return "bad-op"
	}
	fx := c34Find(f[1])
	if fx == nil {
		return "bad-op"
	}
	orig, err := fx.load()
	if err != nil {
		return "bad-op fixture unreadable: " + err.Error()
	}
	sp, ok := c34ParseSplices(f[3])
	if !ok {
		return "bad-op"
	}
	data, ok := c34Apply(orig, sp)
	if !ok {
		return "bad-op"
	}
	verdict := c34Decode(fx, data, skip, mask)
	return verdict + " ;; " + c34Facts(fx, orig, data, skip) + fmt.Sprintf(" flags=%d", mask)
}

// c34OtherFlags: the boolean fields of common.VerifyConfig other than SkipBodyHashValidation.
func c34OtherFlags() []string {
	var out []string
	t := reflect.TypeOf(common.VerifyConfig{})
	for i := 0; i < t.NumField(); i++ {
		if t.Field(i).Type.Kind() == reflect.Bool && t.Field(i).Name != "SkipBodyHashValidation" {
			out = append(out, t.Field(i).Name)
		}
	}
	return out
}

func c34ParseFlags(tok string) (skip bool, mask uint64, ok bool) {
	parts := strings.SplitN(tok, "+", 2)
	if parts[0] != "0" && parts[0] != "1" {
		return false, 0, false
	}
	skip = parts[0] == "1"
	if len(parts) == 2 {
		m, err := strconv.ParseUint(parts[1], 10, 32)
		if err != nil || m >= 1<<uint(len(c34OtherFlags())) {
			return false, 0, false
		}
		mask = m
	}
	return skip, mask, true
}

func c34Config(skip bool, mask uint64) common.VerifyConfig {
	var cfg common.VerifyConfig
	cfg.SkipBodyHashValidation = skip
	v := reflect.ValueOf(&cfg).Elem()
	for i, name := range c34OtherFlags() {
		if mask&(1<<uint(i)) != 0 {
			v.FieldByName(name).SetBool(true)
		}
	}
	return cfg
}

// pair <fixture> <skip> <splicesA> <splicesB>: two variants of one block. The property's own
// shape: two blocks with the same header bytes and different committed body content must not
// both be accepted with validation on.
func runC34Pair(f []string) string {
	fx := c34Find(f[1])
	if fx == nil {
		return "bad-op"
	}
	orig, err := fx.load()
	if err != nil {
		return "bad-op fixture unreadable: " + err.Error()
	}
	spA, ok1 := c34ParseSplices(f[3])
	spB, ok2 := c34ParseSplices(f[4])
	if !ok1 || !ok2 {
		return "bad-op"
	}
	a, ok1 := c34Apply(orig, spA)
	b, ok2 := c34Apply(orig, spB)
	if !ok1 || !ok2 {
		return "bad-op"
	}
	skip, mask, okf := c34ParseFlags(f[2])
	if !okf {
		return "bad-op"
	}
	va, vb := c34Decode(fx, a, skip, mask), c34Decode(fx, b, skip, mask)
	ia, _, oka := c34Split(a)
	ib, _, okb := c34Split(b)
	samehdr, bodydiff := "u", "u"
	if oka && okb && len(ia) > 0 && len(ib) > 0 {
		samehdr = yn(string(ia[0]) == string(ib[0]))
		switch fx.layout {
		case c34Segwit, c34Dijkstra:
			bodydiff = yn(!c34EqList(ia[1:], ib[1:]))
		case c34ByronEbb:
			if len(ia) >= 2 && len(ib) >= 2 {
				bodydiff = yn(string(ia[1]) != string(ib[1]))
			}
		case c34ByronMain:
			if len(ia) >= 2 && len(ib) >= 2 {
				pa, pb := c34ByronParts(ia[1]), c34ByronParts(ib[1])
				if pa.ok && pb.ok {
					bodydiff = yn(!c34EqList(pa.bodies, pb.bodies) || !c34EqList(pa.wits, pb.wits) ||
						string(pa.dlg) != string(pb.dlg) || string(pa.upd) != string(pb.upd))
				}
			}
		}
	}
	return c34PairClass(va, vb) + " A=" + va + " B=" + vb + " ;; pair skip=" + yn(skip) + " samehdr=" + samehdr + " bodydiff=" + bodydiff +
		" ;; " + c34Facts(fx, orig, a, skip) + " ;; " + c34Facts(fx, orig, b, skip)
}

func c34PairClass(va, vb string) string {
	oa, ob := strings.HasPrefix(va, "ok "), strings.HasPrefix(vb, "ok ")
	switch {
	case oa && ob:
		return "both-ok"
	case oa:
		return "a-only"
	case ob:
		return "b-only"
	}
	return "neither"
}

func c34Decode(fx *c34Fixture, data []byte, skip bool, mask uint64) (verdict string) {
	defer func() {
		if e := recover(); e != nil {
			verdict = "err:panic"
		}
	}()
	var blk ledger.Block
	var err error
	// validation is ON by default: exercise the no-config call for skip=0
	if skip || mask != 0 {
		blk, err = ledger.NewBlockFromCbor(fx.btype, data, c34Config(skip, mask))
	} else {
		blk, err = ledger.NewBlockFromCbor(fx.btype, data)
	}
	if err == nil {
		if blk == nil {
			return "err:nilblock"
		}
		return "ok hash=" + blk.Hash().String()
	}
	var ve *common.ValidationError
	if errors.As(err, &ve) && ve.Type == common.ValidationErrorTypeBodyHash {
		return "err:bodyhash"
	}
	if errors.Is(err, byron.ErrBodyProofMismatch) {
		msg := strings.TrimPrefix(err.Error(), byron.ErrBodyProofMismatch.Error()+": ")
		switch {
		case strings.Contains(msg, "header declares"):
			return "err:bodyproof:count"
		case strings.HasPrefix(msg, "tx merkle root is "):
			return "err:bodyproof:merkle"
		case strings.HasPrefix(msg, "witnesses hash is "):
			return "err:bodyproof:witnesses"
		case strings.HasPrefix(msg, "delegation is "):
			return "err:bodyproof:delegation"
		case strings.HasPrefix(msg, "update is "):
			return "err:bodyproof:update"
		case strings.HasPrefix(msg, "body hash is "):
			return "err:bodyproof:body"
		case strings.Contains(msg, "ssc"):
			return "err:bodyproof:ssc"
		}
		return "err:bodyproof:other"
	}
	return "err:decode"
}

// ---------------------------------------------------------------- facts

func yn(b bool) string {
	if b {
		return "y"
	}
	return "n"
}

// byron main block components that the header's body proof commits to
type c34Byron struct {
	ok       bool
	bodies   [][]byte
	wits     [][]byte
	entryLen []int
	ssc      []byte
	dlg      []byte
	upd      []byte
	nbody    int
}

func c34ByronParts(body []byte) (r c34Byron) {
	parts, _, ok := c34Split(body)
	if !ok || len(parts) < 4 || len(body) == 0 {
		return
	}
	r.nbody = len(parts)
	entries, _, ok := c34Split(parts[0])
	if !ok {
		return
	}
	for _, e := range entries {
		tw, _, ok := c34Split(e)
		if !ok || len(tw) < 2 {
			return
		}
		r.bodies = append(r.bodies, tw[0])
		r.wits = append(r.wits, tw[1])
		r.entryLen = append(r.entryLen, len(tw))
	}
	r.ssc, r.dlg, r.upd = parts[1], parts[2], parts[3]
	r.ok = true
	return
}

func c34Facts(fx *c34Fixture, orig, data []byte, skip bool) string {
	var sb strings.Builder
	real := string(orig) == string(data)
	fmt.Fprintf(&sb, "%s lay=%s skip=%s real=%s", fx.era, []string{"segwit", "dijkstra", "byron", "ebb"}[fx.layout], yn(skip), yn(real))
	oitems, ook := fx.oitems, fx.ook
	items, top, ok := c34Split(data)
	if !ook {
		return sb.String() + " split=fixture-bad"
	}
	if !ok || len(items) == 0 {
		return sb.String() + " split=n"
	}
	hdrSame := string(items[0]) == string(oitems[0])
	fmt.Fprintf(&sb, " split=y hdr=%s", yn(hdrSame))
	trail := len(data) - top.end
	switch fx.layout {
	case c34Segwit, c34Dijkstra:
		chg := !c34EqList(items[1:], oitems[1:])
		fmt.Fprintf(&sb, " chg=%s unc=%s", yn(chg), yn(!real && hdrSame && !chg))
		fmt.Fprintf(&sb, " n=%d trail=%d", len(items), trail)
		// expected body hash, read from the header independently
		exp := "-"
		if h, _, ok := c34Split(items[0]); ok && len(h) >= 1 {
			if hb, _, ok := c34Split(h[0]); ok && len(hb) > fx.bhIdx {
				if e, ok := c34Bstr32(hb[fx.bhIdx]); ok {
					exp = c34Hex(e)
				}
			}
		}
		fmt.Fprintf(&sb, " exp=%s", exp)
		lim := len(items)
		if lim > 8 {
			lim = 8
		}
		ds := []string{}
		for i := 0; i < lim; i++ {
			ds = append(ds, c34Hex(c34H(items[i])))
		}
		fmt.Fprintf(&sb, " d=%s", strings.Join(ds, ","))
		hh := []string{}
		var cat []byte
		for i := 1; i < lim; i++ {
			cat = append(cat, c34H(items[i])...)
			hh = append(hh, c34Hex(c34H(cat)))
		}
		if len(hh) == 0 {
			hh = []string{"-"}
		}
		fmt.Fprintf(&sb, " hh=%s", strings.Join(hh, ","))
		fmt.Fprintf(&sb, " bh=%s", c34Hex(c34H(items[0])))
	case c34ByronEbb:
		chg := len(items) < 2 || len(oitems) < 2 || string(items[1]) != string(oitems[1])
		fmt.Fprintf(&sb, " chg=%s unc=%s n=%d trail=%d", yn(chg), yn(!real && hdrSame && !chg), len(items), trail)
		exp := "-"
		if h, _, ok := c34Split(items[0]); ok && len(h) >= 3 {
			if e, ok := c34Bstr32(h[2]); ok {
				exp = c34Hex(e)
			}
		}
		d1 := "-"
		if len(items) >= 2 {
			d1 = c34Hex(c34H(items[1]))
		}
		fmt.Fprintf(&sb, " exp=%s d1=%s bh=%s", exp, d1, c34Hex(c34H(append([]byte{0x82, 0x00}, items[0]...))))
	case c34ByronMain:
		var nb c34Byron
		ob := fx.obyron
		if len(items) >= 2 {
			nb = c34ByronParts(items[1])
		}
		if !ob.ok {
			return sb.String() + " parts=fixture-bad"
		}
		if !nb.ok {
			// this harness cannot see the [txs, ssc, dlg, upd] / [tx, wits] shape any more: whether
			// committed content changed is unknown (chg=u: the spec is silent)
			fmt.Fprintf(&sb, " chg=u unc=n n=%d trail=%d parts=n bh=%s", len(items), trail, c34Hex(c34H(append([]byte{0x82, 0x01}, items[0]...))))
			return sb.String()
		}
		chg := !c34EqList(ob.bodies, nb.bodies) || !c34EqList(ob.wits, nb.wits) ||
			string(ob.dlg) != string(nb.dlg) || string(ob.upd) != string(nb.upd)
		unc := "n"
		if !real && hdrSame && !chg {
			unc = "other"
			switch {
			case string(ob.ssc) != string(nb.ssc):
				unc = "ssc"
			case len(items) != len(oitems) || (len(items) >= 3 && string(items[2]) != string(oitems[2])):
				unc = "extra"
			case fmt.Sprint(ob.entryLen) != fmt.Sprint(nb.entryLen):
				unc = "txentry"
			case nb.nbody != ob.nbody:
				unc = "bodyextra"
			case trail > 0:
				unc = "trail"
			default:
				unc = "frame"
			}
		}
		fmt.Fprintf(&sb, " chg=%s unc=%s n=%d trail=%d parts=y", yn(chg), unc, len(items), trail)
		// expected proof from the header
		ecnt, emr, ewit, edlg, eupd := "-", "-", "-", "-", "-"
		if h, _, ok := c34Split(items[0]); ok && len(h) >= 3 {
			if pr, _, ok := c34Split(h[2]); ok && len(pr) >= 4 {
				if tp, _, ok := c34Split(pr[0]); ok && len(tp) >= 3 {
					if c, ok := c34Uint(tp[0]); ok {
						ecnt = fmt.Sprint(c)
					}
					if e, ok := c34Bstr32(tp[1]); ok {
						emr = c34Hex(e)
					}
					if e, ok := c34Bstr32(tp[2]); ok {
						ewit = c34Hex(e)
					}
				}
				if e, ok := c34Bstr32(pr[2]); ok {
					edlg = c34Hex(e)
				}
				if e, ok := c34Bstr32(pr[3]); ok {
					eupd = c34Hex(e)
				}
			}
		}
		wl := []byte{0x9f}
		for _, w := range nb.wits {
			wl = append(wl, w...)
		}
		wl = append(wl, 0xff)
		fmt.Fprintf(&sb, " cnt=%d ecnt=%s mr=%s emr=%s wit=%s ewit=%s dlg=%s edlg=%s upd=%s eupd=%s bh=%s",
			len(nb.bodies), ecnt, c34Hex(c34Merkle(nb.bodies)), emr, c34Hex(c34H(wl)), ewit,
			c34Hex(c34H(nb.dlg)), edlg, c34Hex(c34H(nb.upd)), eupd,
			c34Hex(c34H(append([]byte{0x82, 0x01}, items[0]...))))
	}
	return sb.String()
}

// ---------------------------------------------------------------- Gen

type c34Site struct {
	fx   *c34Fixture
	data []byte
	top  c34Node // kids to depth 5
	body int     // offset of first body byte (start of top-level element 1)
}

func c34Sites() []*c34Site {
	var out []*c34Site
	for _, fx := range c34Fixtures {
		d, err := fx.load()
		if err != nil {
			continue
		}
		top, ok := c34Parse(d, 0, 5, 0)
		if !ok || len(top.kids) < 2 {
			continue
		}
		out = append(out, &c34Site{fx: fx, data: d, top: top, body: top.kids[1].off})
	}
	return out
}

func c34Op(fx *c34Fixture, skip bool, sp []c34Splice) string {
	s := "0"
	if skip {
		s = "1"
	}
	return "mut " + fx.name + " " + s + " " + c34FormatSplices(sp)
}

// containers (arrays/maps) inside the body, breadth first (shallow ones first)
func c34Containers(n c34Node, body int, out *[]c34Node) {
	level := []c34Node{n}
	for len(level) > 0 {
		var next []c34Node
		for _, x := range level {
			for _, k := range x.kids {
				if k.off >= body && (k.major == 4 || k.major == 5) {
					*out = append(*out, k)
				}
				if k.end > body {
					next = append(next, k)
				}
			}
		}
		level = next
	}
}

func c34Unit(n c34Node) int {
	if n.major == 5 {
		return 2
	}
	return 1
}

// header rewrite for a container whose element count changes by delta
func c34Recount(d []byte, n c34Node, delta int) []c34Splice {
	if n.indef {
		return nil
	}
	width := n.hl - 1
	if d[n.off]&0x1f < 24 {
		width = 0
	}
	nc := n.count + delta
	if nc < 0 {
		nc = 0
	}
	return []c34Splice{{n.off, n.hl, c34Hdr(n.major, uint64(nc), width)}}
}

// generic structural mutations of one container node
func c34Structural(r *Rand, d []byte, n c34Node) ([]c34Splice, string) {
	u := c34Unit(n)
	cnt := len(n.kids) / u
	kid := func(i int) (int, int) { return n.kids[i*u].off, n.kids[i*u+u-1].end }
	switch r.Intn(9) {
	case 0: // drop element i
		if cnt == 0 {
			break
		}
		i := r.Intn(cnt)
		a, b := kid(i)
		return append(c34Recount(d, n, -1), c34Splice{a, b - a, nil}), "drop"
	case 1: // duplicate element i
		if cnt == 0 {
			break
		}
		i := r.Intn(cnt)
		a, b := kid(i)
		return append(c34Recount(d, n, +1), c34Splice{b, 0, append([]byte{}, d[a:b]...)}), "dup"
	case 2: // swap two elements
		if cnt < 2 {
			break
		}
		i := r.Intn(cnt - 1)
		j := i + 1 + r.Intn(cnt-1-i)
		a1, b1 := kid(i)
		a2, b2 := kid(j)
		if string(d[a1:b1]) == string(d[a2:b2]) {
			break
		}
		return []c34Splice{{a1, b1 - a1, append([]byte{}, d[a2:b2]...)}, {a2, b2 - a2, append([]byte{}, d[a1:b1]...)}}, "swap"
	case 3: // non-minimal header
		if n.indef {
			break
		}
		w := Pick(r, 1, 2, 4, 8)
		if w <= n.hl-1 && d[n.off]&0x1f >= 24 {
			w = 8
			if n.hl-1 == 8 {
				break
			}
		}
		return []c34Splice{{n.off, n.hl, c34Hdr(n.major, uint64(n.count), w)}}, "nonmin"
	case 4: // definite <-> indefinite
		if n.indef {
			return []c34Splice{{n.off, n.hl, c34Hdr(n.major, uint64(n.count), 0)}, {n.end - 1, 1, nil}}, "todef"
		}
		return []c34Splice{{n.off, n.hl, []byte{n.major<<5 | 31}}, {n.end, 0, []byte{0xff}}}, "toindef"
	case 5: // append a small element
		ins := Pick(r, []byte{0x00}, []byte{0x80}, []byte{0xa0}, []byte{0x40}, []byte{0xf6})
		if u == 2 {
			ins = append([]byte{0x18, 0xfe}, ins...)
		}
		at := n.end
		if n.indef {
			at = n.end - 1
		}
		return append(c34Recount(d, n, +1), c34Splice{at, 0, ins}), "append"
	case 6: // replace element by a small item
		if cnt == 0 {
			break
		}
		i := r.Intn(cnt)
		a, b := n.kids[i*u+u-1].off, n.kids[i*u+u-1].end
		ins := Pick(r, []byte{0x00}, []byte{0x80}, []byte{0xa0}, []byte{0x40}, []byte{0xf6})
		if string(d[a:b]) == string(ins) {
			break
		}
		return []c34Splice{{a, b - a, ins}}, "repl"
	case 7: // empty the container
		if cnt == 0 {
			break
		}
		if n.indef {
			return []c34Splice{{n.off + n.hl, n.end - 1 - n.off - n.hl, nil}}, "empty"
		}
		return []c34Splice{{n.off, n.end - n.off, []byte{n.major << 5}}}, "empty"
	case 8: // count lie: header says one more / one fewer without changing content
		if n.indef {
			break
		}
		return c34Recount(d, n, Pick(r, -1, 1)), "countlie"
	}
	return nil, ""
}

func genC34(r *Rand, n int, tier string, emit func(string)) {
	sites := c34Sites()
	if len(sites) == 0 {
		return
	}
	count := 0
	nflags := len(c34OtherFlags())
	// withFlags rewrites the <skip> token of an op to <skip>+<mask>
	withFlags := func(op string, mask uint64) string {
		if mask == 0 {
			return op
		}
		f := strings.SplitN(op, " ", 4)
		if len(f) < 4 || (f[0] != "mut" && f[0] != "pair") {
			return op
		}
		f[2] = fmt.Sprintf("%s+%d", f[2], mask)
		return strings.Join(f, " ")
	}
	out := func(s string) {
		// a third of all ops run under a random combination of the unrelated VerifyConfig toggles
		if nflags > 0 && r.Chance(1, 3) {
			s = withFlags(s, uint64(r.Intn(1<<uint(nflags))))
		}
		emit(s)
		count++
	}
	// 1. the real blocks, validation on and off
	for _, s := range sites {
		out(c34Op(s.fx, false, nil))
		out(c34Op(s.fx, true, nil))
	}
	// 1b. the full matrix of the OTHER VerifyConfig toggles x every fixture x {real block, one
	// byte changed in every top-level body element, and for Byron in each of the four payloads
	// (tx, ssc, dlg, upd) incl. dlg <-> upd swapped}: with body validation on the verdict must
	// not depend on them
	for mask := uint64(0); mask < 1<<uint(nflags); mask++ {
		for _, s := range sites {
			d, top, fx := s.data, s.top, s.fx
			emit(withFlags(c34Op(fx, false, nil), mask))
			count++
			var targets []c34Node
			for i := 1; i < len(top.kids); i++ {
				targets = append(targets, top.kids[i])
			}
			if fx.layout == c34ByronMain && len(top.kids) >= 2 && len(top.kids[1].kids) >= 4 {
				body := top.kids[1]
				targets = append(targets, body.kids[0], body.kids[1], body.kids[2], body.kids[3])
				dlg, upd := body.kids[2], body.kids[3]
				if string(dlg.bytes(d)) != string(upd.bytes(d)) {
					emit(withFlags(c34Op(fx, false, []c34Splice{
						{dlg.off, dlg.end - dlg.off, append([]byte{}, upd.bytes(d)...)},
						{upd.off, upd.end - upd.off, append([]byte{}, dlg.bytes(d)...)}}), mask))
					count++
				}
				// delegation payload replaced by decodable alternatives (DlgPayload is []any):
				// re-framed empty list, an injected item, an injected made-up certificate
				fakeCert := append([]byte{0x84, 0x00, 0x58, 0x20}, make([]byte, 32)...)
				fakeCert = append(append(fakeCert, 0x58, 0x20), make([]byte, 32)...)
				fakeCert = append(append(fakeCert, 0x58, 0x40), make([]byte, 64)...)
				for _, rep := range [][]byte{{0x80}, {0x9f, 0xff}, {0x81, 0x00}, {0x9f, 0x00, 0xff},
					append(append([]byte{0x9f}, fakeCert...), 0xff), append([]byte{0x81}, fakeCert...)} {
					if string(dlg.bytes(d)) != string(rep) {
						emit(withFlags(c34Op(fx, false, []c34Splice{{dlg.off, dlg.end - dlg.off, rep}}), mask))
						count++
					}
				}
				// update payload: every empty list inside it re-framed (80 <-> 9fff)
				for _, k := range upd.kids {
					var rep []byte
					switch string(k.bytes(d)) {
					case "\x80":
						rep = []byte{0x9f, 0xff}
					case "\x9f\xff":
						rep = []byte{0x80}
					}
					if rep != nil {
						emit(withFlags(c34Op(fx, false, []c34Splice{{k.off, k.end - k.off, rep}}), mask))
						count++
					}
				}
			}
			for _, k := range targets {
				off := k.end - 1
				emit(withFlags(c34Op(fx, false, []c34Splice{{off, 1, []byte{d[off] ^ 0x01}}}), mask))
				count++
			}
		}
	}
	// 2. fixed structural set per block
	for _, s := range sites {
		d := s.data
		top := s.top
		fx := s.fx
		last := top.kids[len(top.kids)-1]
		// top-level framing: non-minimal / indefinite header (not body bytes), extra and missing elements, trailing bytes
		for _, w := range []int{1, 2, 4, 8} {
			out(c34Op(fx, false, []c34Splice{{0, top.hl, c34Hdr(4, uint64(top.count), w)}}))
		}
		out(c34Op(fx, false, []c34Splice{{0, top.hl, []byte{0x9f}}, {top.end, 0, []byte{0xff}}}))
		for _, extra := range [][]byte{{0x80}, {0x00}, {0xa0}, {0xf6}} {
			out(c34Op(fx, false, []c34Splice{{0, top.hl, c34Hdr(4, uint64(top.count+1), 0)}, {top.end, 0, extra}}))
			out(c34Op(fx, true, []c34Splice{{0, top.hl, c34Hdr(4, uint64(top.count+1), 0)}, {top.end, 0, extra}}))
		}
		out(c34Op(fx, false, []c34Splice{{0, top.hl, c34Hdr(4, uint64(top.count-1), 0)}, {last.off, last.end - last.off, nil}}))
		out(c34Op(fx, false, []c34Splice{{top.end, 0, []byte{0x00, 0x01}}}))
		// last element replaced by small items / emptied (the invalid-tx list from Alonzo on)
		for _, rep := range [][]byte{{0x80}, {0x9f, 0xff}, {0x81, 0x00}, {0x82, 0x00, 0x01}, {0xa0}, {0xf6}, {0x00}} {
			if string(d[last.off:last.end]) != string(rep) {
				out(c34Op(fx, false, []c34Splice{{last.off, last.end - last.off, rep}}))
			}
		}
		// every body segment: first and last byte, header forms, swap neighbours
		for i := 1; i < len(top.kids); i++ {
			k := top.kids[i]
			for _, off := range []int{k.off, k.end - 1, k.off + k.hl} {
				if off < k.end {
					for _, m := range []byte{0x01, 0x80, 0xff} {
						out(c34Op(fx, false, []c34Splice{{off, 1, []byte{d[off] ^ m}}}))
					}
				}
			}
			if i+1 < len(top.kids) {
				k2 := top.kids[i+1]
				if string(k.bytes(d)) != string(k2.bytes(d)) {
					out(c34Op(fx, false, []c34Splice{{k.off, k.end - k.off, append([]byte{}, k2.bytes(d)...)}, {k2.off, k2.end - k2.off, append([]byte{}, k.bytes(d)...)}}))
				}
			}
		}
		// segwit: paired tx/witness edits
		if fx.layout == c34Segwit && len(top.kids) >= 3 {
			txs, wits := top.kids[1], top.kids[2]
			m := len(txs.kids)
			if len(wits.kids) == m && m > 0 {
				for _, i := range []int{0, m - 1, m / 2} {
					tb, tw := txs.kids[i], wits.kids[i]
					// drop tx i together with its witness set
					sp := append(c34Recount(d, txs, -1), c34Recount(d, wits, -1)...)
					sp = append(sp, c34Splice{tb.off, tb.end - tb.off, nil}, c34Splice{tw.off, tw.end - tw.off, nil})
					out(c34Op(fx, false, sp))
					// duplicate tx i together with its witness set
					sp = append(c34Recount(d, txs, +1), c34Recount(d, wits, +1)...)
					sp = append(sp, c34Splice{tb.end, 0, append([]byte{}, tb.bytes(d)...)}, c34Splice{tw.end, 0, append([]byte{}, tw.bytes(d)...)})
					out(c34Op(fx, false, sp))
					// first/last byte of every chosen tx and witness
					for _, off := range []int{tb.off, tb.end - 1, tw.off, tw.end - 1} {
						out(c34Op(fx, false, []c34Splice{{off, 1, []byte{d[off] + 1}}}))
					}
				}
				if m >= 2 {
					a, b := txs.kids[0], txs.kids[m-1]
					wa, wb := wits.kids[0], wits.kids[m-1]
					if string(a.bytes(d)) != string(b.bytes(d)) {
						// swap two txs with their witnesses
						out(c34Op(fx, false, []c34Splice{
							{a.off, a.end - a.off, append([]byte{}, b.bytes(d)...)}, {b.off, b.end - b.off, append([]byte{}, a.bytes(d)...)},
							{wa.off, wa.end - wa.off, append([]byte{}, wb.bytes(d)...)}, {wb.off, wb.end - wb.off, append([]byte{}, wa.bytes(d)...)}}))
					}
				}
			}
		}
		// dijkstra: [header, [invalid_transactions/nil, transactions, leios/nil, peras/nil]] —
		// transaction-level edits inside the single body element
		if fx.layout == c34Dijkstra && len(top.kids) == 2 && len(top.kids[1].kids) == 4 {
			body := top.kids[1]
			txs := body.kids[1]
			m := len(txs.kids)
			for _, i := range []int{0, m - 1, m / 2} {
				if i < 0 || i >= m {
					continue
				}
				tx := txs.kids[i]
				// drop / duplicate transaction i
				out(c34Op(fx, false, append(c34Recount(d, txs, -1), c34Splice{tx.off, tx.end - tx.off, nil})))
				out(c34Op(fx, false, append(c34Recount(d, txs, +1), c34Splice{tx.end, 0, append([]byte{}, tx.bytes(d)...)})))
				// first / last byte of the transaction and of each of its three parts
				for _, k := range append([]c34Node{tx}, tx.kids...) {
					for _, off := range []int{k.off, k.end - 1} {
						out(c34Op(fx, false, []c34Splice{{off, 1, []byte{d[off] + 1}}}))
					}
				}
			}
			if m >= 2 && string(txs.kids[0].bytes(d)) != string(txs.kids[m-1].bytes(d)) {
				a, b := txs.kids[0], txs.kids[m-1]
				out(c34Op(fx, false, []c34Splice{
					{a.off, a.end - a.off, append([]byte{}, b.bytes(d)...)}, {b.off, b.end - b.off, append([]byte{}, a.bytes(d)...)}}))
			}
			// the three optional elements: null <-> something
			for _, idx := range []int{0, 2, 3} {
				k := body.kids[idx]
				for _, rep := range [][]byte{{0xf6}, {0x80}, {0x81, 0x00}, {0x9f, 0xff}} {
					if string(k.bytes(d)) != string(rep) {
						out(c34Op(fx, false, []c34Splice{{k.off, k.end - k.off, rep}}))
						out(c34Op(fx, true, []c34Splice{{k.off, k.end - k.off, rep}}))
					}
				}
			}
			// the transactions array re-framed (indefinite / non-minimal) — same content, other bytes
			out(c34Op(fx, false, []c34Splice{{txs.off, txs.hl, []byte{0x9f}}, {txs.end, 0, []byte{0xff}}}))
			out(c34Op(fx, false, []c34Splice{{txs.off, txs.hl, c34Hdr(4, uint64(m), 2)}}))
		}
		// header: flip bits of the committed body hash itself (hdr=n: spec silent, model must still predict)
		if fx.layout == c34Segwit || fx.layout == c34Dijkstra {
			if len(top.kids[0].kids) > 0 && len(top.kids[0].kids[0].kids) > fx.bhIdx {
				bh := top.kids[0].kids[0].kids[fx.bhIdx]
				for _, off := range []int{bh.off + bh.hl, bh.end - 1} {
					out(c34Op(fx, false, []c34Splice{{off, 1, []byte{d[off] ^ 0x01}}}))
					out(c34Op(fx, true, []c34Splice{{off, 1, []byte{d[off] ^ 0x01}}}))
				}
			}
		}
		// byron main: third element in a tx entry, junk in the body/extra
		if fx.layout == c34ByronMain {
			body := top.kids[1]
			if len(body.kids) >= 4 {
				txp := body.kids[0]
				for i, e := range txp.kids {
					if i > 2 {
						break
					}
					sp := append(c34Recount(d, e, +1), c34Splice{e.end, 0, []byte{0x00}})
					out(c34Op(fx, false, sp))
				}
			}
		}
	}
	// 3. transplants: a body segment from another block of the same layout
	for _, s := range sites {
		for _, t := range sites {
			if s == t || s.fx.layout != c34Segwit || t.fx.layout != c34Segwit {
				continue
			}
			for i := 1; i < len(s.top.kids) && i < len(t.top.kids); i++ {
				a, b := s.top.kids[i], t.top.kids[i]
				if b.end-b.off > 6000 || string(a.bytes(s.data)) == string(b.bytes(t.data)) {
					continue
				}
				if count >= n && tier == "quick" {
					break
				}
				out(c34Op(s.fx, false, []c34Splice{{a.off, a.end - a.off, append([]byte{}, b.bytes(t.data)...)}}))
			}
		}
	}
	// 3b. pairs: variant A re-commits the header to the hash over the first k segments only
	// (k = 1 … n-1), variant B additionally edits one segment. On correct code A is accepted only
	// for k = n-1 and then B never is; if the code hashed fewer segments than the block has, A
	// (k = literal-1) and B (edit beyond k) would both be accepted: a concrete witness.
	for _, s := range sites {
		fx, d, top := s.fx, s.data, s.top
		if fx.layout != c34Segwit || len(top.kids[0].kids) == 0 || len(top.kids[0].kids[0].kids) <= fx.bhIdx {
			continue
		}
		bh := top.kids[0].kids[0].kids[fx.bhIdx]
		if bh.end-bh.off-bh.hl != 32 {
			continue
		}
		var cat []byte
		for k := 1; k < len(top.kids); k++ {
			cat = append(cat, c34H(top.kids[k].bytes(d))...)
			spA := []c34Splice{{bh.off + bh.hl, 32, c34H(cat)}}
			for j := 1; j < len(top.kids); j++ {
				seg := top.kids[j]
				alts := [][]byte{{0x80}, {0x81, 0x00}, {0xa0}, {0x9f, 0xff}}
				for _, alt := range alts {
					if string(seg.bytes(d)) == string(alt) {
						continue
					}
					spB := append([]c34Splice{}, spA...)
					spB = append(spB, c34Splice{seg.off, seg.end - seg.off, alt})
					out("pair " + fx.name + " 0 " + c34FormatSplices(append([]c34Splice{}, spA...)) + " " + c34FormatSplices(spB))
				}
				spB := append([]c34Splice{}, spA...)
				spB = append(spB, c34Splice{seg.end - 1, 1, []byte{d[seg.end-1] ^ 0x01}})
				out("pair " + fx.name + " 0 " + c34FormatSplices(append([]c34Splice{}, spA...)) + " " + c34FormatSplices(spB))
			}
		}
	}
	// 4. random stream: byte edits over the body and generic structural mutations of every container
	type prepared struct {
		s     *c34Site
		conts []c34Node
	}
	var prep []prepared
	for _, s := range sites {
		p := prepared{s: s}
		c34Containers(s.top, s.body, &p.conts)
		prep = append(prep, p)
	}
	masks := []byte{0x01, 0x80, 0xff, 0x20, 0x04}
	if tier == "thorough" {
		// exhaustive single-byte pass over every body offset (EBB: strided), budget = half of n
		total := 0
		for _, p := range prep {
			total += p.s.top.end - p.s.body
		}
		budget := n / 2
		for _, p := range prep {
			d := p.s.data
			span := p.s.top.end - p.s.body
			stride := 1
			if p.s.fx.layout == c34ByronEbb {
				stride = span/2000 + 1
			}
			nm := 1
			if total > 0 && budget/total > 1 {
				nm = budget / total
				if nm > len(masks) {
					nm = len(masks)
				}
			}
			for off := p.s.body; off < p.s.top.end; off += stride {
				for mi := 0; mi < nm; mi++ {
					out(c34Op(p.s.fx, false, []c34Splice{{off, 1, []byte{d[off] ^ masks[mi]}}}))
				}
			}
		}
	}
	for count < n {
		p := prep[r.Intn(len(prep))]
		if p.s.fx.layout == c34ByronEbb && !r.Chance(1, 25) {
			continue // the 648 KB epoch boundary block is expensive: keep its share small
		}
		d := p.s.data
		skip := r.Chance(1, 12)
		switch r.Intn(10) {
		case 0, 1, 2, 3: // xor one body byte
			off := p.s.body + r.Intn(p.s.top.end-p.s.body)
			m := masks[r.Intn(len(masks))]
			if r.Chance(1, 3) {
				m = byte(1 + r.Intn(255))
			}
			out(c34Op(p.s.fx, skip, []c34Splice{{off, 1, []byte{d[off] ^ m}}}))
		case 4: // increment / decrement
			off := p.s.body + r.Intn(p.s.top.end-p.s.body)
			out(c34Op(p.s.fx, skip, []c34Splice{{off, 1, []byte{d[off] + Pick(r, byte(1), byte(0xff))}}}))
		case 5: // two byte edits
			o1 := p.s.body + r.Intn(p.s.top.end-p.s.body)
			o2 := p.s.body + r.Intn(p.s.top.end-p.s.body)
			if o1 == o2 {
				continue
			}
			out(c34Op(p.s.fx, skip, []c34Splice{{o1, 1, []byte{d[o1] ^ 0x01}}, {o2, 1, []byte{d[o2] ^ 0x80}}}))
		case 6: // insert or delete a byte
			off := p.s.body + r.Intn(p.s.top.end-p.s.body)
			if r.Bool() {
				out(c34Op(p.s.fx, skip, []c34Splice{{off, 0, []byte{byte(r.U64())}}}))
			} else {
				out(c34Op(p.s.fx, skip, []c34Splice{{off, 1, nil}}))
			}
		default: // structural
			if len(p.conts) == 0 {
				continue
			}
			c := p.conts[r.Intn(len(p.conts))]
			// prefer shallow containers (segments, tx lists) half of the time
			if r.Bool() {
				c = p.conts[r.Intn(min(len(p.conts), 12))]
			}
			sp, _ := c34Structural(r, d, c)
			if sp == nil {
				continue
			}
			out(c34Op(p.s.fx, skip, sp))
		}
	}
}
