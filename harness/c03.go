package main

// C03 — tagged-sum decoding follows the tag, whatever the length encoding.
//
// ops (hex = the CBOR bytes; vok = "does cbor.Decode(bytes, &cbor.Value) succeed",
// the one answer of the fxamacker-based generic decoder the model takes as an
// oracle input; Run re-checks it and answers bad-op when it is wrong):
//
//	id   <vok> <hex>         -> id=<k|err> len=<n|err> byid=<Tk|err>
//	                            cbor.ListLength, cbor.DecodeIdFromList, cbor.DecodeById
//	sum  <type> <v> <vok> <hex> -> ok <variant> | err
//	                            the sum type's real UnmarshalCBOR; v=1: the bytes are a
//	                            sample of a variant whose top-level list header and tag
//	                            width were re-chosen (body untouched), v=0: anything
//
// Variant labels are Go type names (or the discriminant field for types that
// keep one struct); the table id -> label the model uses is dumped from the
// running code on minimal encodings (dump_c03.go -> lean/GV/Gen/SumTypes.lean).

import (
	"fmt"
	"strings"
	"time"

	"github.com/blinklabs-io/gouroboros/cbor"
	"github.com/blinklabs-io/gouroboros/ledger/babbage"
	"github.com/blinklabs-io/gouroboros/ledger/byron"
	"github.com/blinklabs-io/gouroboros/ledger/common"
	"github.com/blinklabs-io/gouroboros/ledger/conway"
	"github.com/blinklabs-io/gouroboros/ledger/dijkstra"
	"github.com/blinklabs-io/gouroboros/protocol/localstatequery"
	"github.com/blinklabs-io/gouroboros/protocol/peersharing"
)

func init() {
	register(&Prop{ID: "C03", Gen: genC03, Run: runC03, Timeout: 60 * time.Second})
}

type sumVariant struct {
	id   uint64
	body func() []*cnode // items after the tag
}

type sumType struct {
	name     string
	decode   func(b []byte) (string, error)
	variants []sumVariant
	// nested sums: the tagged list sits at `path` (array item indices) inside the
	// decoder's input, which `wrap` builds around it; nil = the input is the list itself
	path []int
	wrap func(list *cnode) *cnode
	// other items of the input that select this decoder's table (era id, enclosing tag)
	guards []sumGuard
	// variant the decoder produces for a tag it does not know ("" = an error)
	deflt string
	// tags (probed types only) for which no candidate body decoded: nothing is predicted
	unsure []uint64
}

type sumGuard struct {
	path []int
	val  uint64
}

// build returns the decoder input for a variant and the tagged list inside it
func (st *sumType) build(v sumVariant) (root, list *cnode) {
	list = cA(append([]*cnode{cU(v.id)}, v.body()...)...)
	if st.wrap == nil {
		return list, list
	}
	return st.wrap(list), list
}

// g10aNav returns the bytes of the item at `path` inside the first item of b
func g10aNav(b []byte, path []int) ([]byte, bool) {
	if len(path) == 0 {
		return b, true
	}
	t, _, err := cparse(b)
	if err != nil {
		return nil, false
	}
	for _, i := range path {
		if t.major != 4 || i >= len(t.kids) {
			return nil, false
		}
		t = t.kids[i]
	}
	return t.bytes(), true
}

// vok for a sum op: does Decode into cbor.Value accept the bytes of the tagged list
func (st *sumType) vok(b []byte) bool {
	sub, ok := g10aNav(b, st.path)
	return ok && valueOk(sub)
}

func tname(v any) string {
	s := fmt.Sprintf("%T", v)
	if i := strings.LastIndex(s, "."); i >= 0 {
		s = s[i+1:]
	}
	return s
}

func cCred() *cnode   { return cA(cU(0), cHash(28, 1)) }
func cAnchor() *cnode { return cA(cT("https://x.io"), cHash(32, 7)) }
func cDrepKey() *cnode {
	return cA(cU(0), cHash(28, 9))
}
func cRewardAcct() *cnode {
	b := make([]byte, 29)
	b[0] = 0xe1
	for i := 1; i < 29; i++ {
		b[i] = byte(i)
	}
	return cB(b)
}
func bodyOf(k ...*cnode) func() []*cnode {
	return func() []*cnode {
		out := make([]*cnode, len(k))
		for i := range k {
			out[i] = k[i].clone()
		}
		return out
	}
}

var sumTypes = []*sumType{
	{
		name: "nativescript",
		decode: func(b []byte) (string, error) {
			var v common.NativeScript
			if _, err := cbor.Decode(b, &v); err != nil {
				return "", err
			}
			return tname(v.Item()), nil
		},
		variants: []sumVariant{
			{0, bodyOf(cHash(28, 3))},
			{1, bodyOf(cA())},
			{2, bodyOf(cA())},
			{3, bodyOf(cU(1), cA(cA(cU(0), cHash(28, 3))))},
			{4, bodyOf(cU(1000))},
			{5, bodyOf(cU(2000))},
			{6, bodyOf(cCred())},
			{1, bodyOf(cA(cA(cU(4), cU(5)), cA(cU(2), cA())))},
		},
	},
	{
		name: "cert",
		decode: func(b []byte) (string, error) {
			var v common.CertificateWrapper
			if _, err := cbor.Decode(b, &v); err != nil {
				return "", err
			}
			return tname(v.Certificate), nil
		},
		variants: []sumVariant{
			{0, bodyOf(cCred())},
			{1, bodyOf(cCred())},
			{2, bodyOf(cCred(), cHash(28, 5))},
			{3, bodyOf(cHash(28, 1), cHash(32, 2), cU(500000000), cU(340000000),
				cTag(30, cA(cU(1), cU(20))), cRewardAcct(), cA(cHash(28, 4)),
				cA(cA(cU(1), cU(3001), cT("relay.example.org"))), cNull())},
			{4, bodyOf(cHash(28, 5), cU(300))},
			{5, bodyOf(cHash(28, 5), cHash(28, 6), cHash(32, 7))},
			{6, bodyOf(cA(cU(0), cU(1000)))},
			{7, bodyOf(cCred(), cU(2000000))},
			{8, bodyOf(cCred(), cU(2000000))},
			{9, bodyOf(cCred(), cDrepKey())},
			{10, bodyOf(cCred(), cHash(28, 5), cDrepKey())},
			{11, bodyOf(cCred(), cHash(28, 5), cU(2000000))},
			{12, bodyOf(cCred(), cDrepKey(), cU(2000000))},
			{13, bodyOf(cCred(), cHash(28, 5), cDrepKey(), cU(2000000))},
			{14, bodyOf(cCred(), cCred())},
			{15, bodyOf(cCred(), cNull())},
			{16, bodyOf(cCred(), cU(500000000), cNull())},
			{17, bodyOf(cCred(), cU(500000000))},
			{18, bodyOf(cCred(), cAnchor())},
		},
	},
	{
		name: "drep",
		decode: func(b []byte) (string, error) {
			var v common.Drep
			if _, err := cbor.Decode(b, &v); err != nil {
				return "", err
			}
			return fmt.Sprintf("Drep/%d", v.Type), nil
		},
		variants: []sumVariant{
			{0, bodyOf(cHash(28, 1))},
			{1, bodyOf(cHash(28, 2))},
			{2, bodyOf()},
			{3, bodyOf()},
		},
	},
	{
		name: "poolrelay",
		decode: func(b []byte) (string, error) {
			var v common.PoolRelay
			if _, err := cbor.Decode(b, &v); err != nil {
				return "", err
			}
			return fmt.Sprintf("PoolRelay/%d/host=%v", v.Type, v.Hostname != nil), nil
		},
		variants: []sumVariant{
			{0, bodyOf(cU(3001), cB([]byte{10, 0, 0, 1}), cNull())},
			{1, bodyOf(cU(3001), cT("relay.example.org"))},
			{2, bodyOf(cT("relays.example.org"))},
		},
	},
	{
		name: "datumoption",
		decode: func(b []byte) (string, error) {
			var v babbage.BabbageTransactionOutputDatumOption
			if _, err := cbor.Decode(b, &v); err != nil {
				return "", err
			}
			m, err := v.MarshalCBOR()
			if err != nil || len(m) < 2 {
				return "", fmt.Errorf("remarshal: %v", err)
			}
			return fmt.Sprintf("DatumOption/%d", m[1]), nil
		},
		variants: []sumVariant{
			{0, bodyOf(cHash(32, 1))},
			{1, bodyOf(cTag(24, cB([]byte{0x18, 0x2a})))},
		},
	},
	{
		name: "govaction",
		decode: func(b []byte) (string, error) {
			var v conway.ConwayGovAction
			if _, err := cbor.Decode(b, &v); err != nil {
				return "", err
			}
			return tname(v.Action), nil
		},
		variants: govActionVariants(),
	},
	{
		name: "govactiondijkstra",
		decode: func(b []byte) (string, error) {
			var v dijkstra.DijkstraGovAction
			if _, err := cbor.Decode(b, &v); err != nil {
				return "", err
			}
			return tname(v.Action), nil
		},
		variants: govActionVariants(),
	},
	{
		name: "nonce",
		decode: func(b []byte) (string, error) {
			var v common.Nonce
			if _, err := cbor.Decode(b, &v); err != nil {
				return "", err
			}
			return fmt.Sprintf("Nonce/%d", v.Type), nil
		},
		variants: []sumVariant{
			{0, bodyOf()},
			{1, bodyOf(cHash(32, 1))},
		},
	},
	{
		name: "byrontxin",
		decode: func(b []byte) (string, error) {
			var v byron.ByronTransactionInput
			if _, err := cbor.Decode(b, &v); err != nil {
				return "", err
			}
			return "ByronTransactionInput", nil
		},
		variants: []sumVariant{
			{0, bodyOf(cTag(24, cB(cA(cHash(32, 1), cU(3)).bytes())))},
		},
	},
	{
		name: "peeraddress",
		decode: func(b []byte) (string, error) {
			var v peersharing.PeerAddress
			if _, err := cbor.Decode(b, &v); err != nil {
				return "", err
			}
			return fmt.Sprintf("PeerAddress/ip%d", len(v.IP)), nil
		},
		variants: []sumVariant{
			{0, bodyOf(cU(0x0100007f), cU(3001))},
			{1, bodyOf(cU(1), cU(2), cU(3), cU(4), cU(3001))},
			{1, bodyOf(cU(1), cU(2), cU(3), cU(4), cU(0), cU(0), cU(3001))},
		},
	},
	{
		name: "lsqquery",
		decode: func(b []byte) (string, error) {
			var v localstatequery.QueryWrapper
			if _, err := cbor.Decode(b, &v); err != nil {
				return "", err
			}
			return tname(v.Query), nil
		},
		variants: []sumVariant{
			{0, bodyOf(cA(cU(2), cA(cU(1))))},
			{0, bodyOf(cA(cU(0), cA(cU(6), cA(cU(1)))))},
			{1, bodyOf()},
			{2, bodyOf()},
			{3, bodyOf()},
		},
	},
}

func govActionVariants() []sumVariant {
	return []sumVariant{
		{0, bodyOf(cNull(), cM(cU(0), cU(44)), cNull())},
		{1, bodyOf(cNull(), cA(cU(10), cU(0)))},
		{2, bodyOf(cM(cRewardAcct(), cU(1000000)), cNull())},
		{3, bodyOf(cNull())},
		{4, bodyOf(cNull(), cTag(258, cA()), cM(), cTag(30, cA(cU(2), cU(3))))},
		{5, bodyOf(cNull(), cA(cAnchor(), cNull()))},
		{6, bodyOf()},
	}
}

func sumTypeByName(n string) *sumType {
	for _, s := range sumTypes {
		if s.name == n {
			return s
		}
	}
	return nil
}

func valueOk(b []byte) bool {
	var v cbor.Value
	_, err := cbor.Decode(b, &v)
	return err == nil
}

type c03T0 []cbor.RawMessage
type c03T1 []cbor.RawMessage
type c03T2 []cbor.RawMessage
type c03T3 []cbor.RawMessage
type c03T4 []cbor.RawMessage
type c03T5 []cbor.RawMessage
type c03T6 []cbor.RawMessage
type c03T7 []cbor.RawMessage

func c03IdMap() map[int]any {
	return map[int]any{0: &c03T0{}, 1: &c03T1{}, 2: &c03T2{}, 3: &c03T3{}, 4: &c03T4{}, 5: &c03T5{}, 6: &c03T6{}, 7: &c03T7{}, 9: nil}
}

func idOp(b []byte) string { return fmt.Sprintf("id %s %s", b01(valueOk(b)), hexs(b)) }
func sumOp(st *sumType, valid bool, b []byte) string {
	return fmt.Sprintf("sum %s %s %s %s", st.name, b01(valid), b01(st.vok(b)), hexs(b))
}

// top-level tags are excluded: how fxamacker treats a tagged item when the
// destination is a slice/struct (tag stripped, built-in tags validated) is not modelled
func c03Admissible(b []byte) bool {
	return len(b) > 0 && len(b) < 4000 && b[0]>>5 != 6
}

var c03Forms = []int{cW0, cW1, cW2, cW4, cW8, cWI}

func genC03(r *Rand, n int, tier string, emit func(string)) {
	cnt := 0
	out := func(s string) { emit(s); cnt++ }
	// 1. exhaustive small scope: every variant x six list-header forms x five tag widths
	for _, st := range sumTypes {
		for _, v := range st.variants {
			for _, hw := range c03Forms {
				for _, iw := range []int{cW0, cW1, cW2, cW4, cW8} {
					root, t := st.build(v)
					if (hw != cWI && !fitsW(hw, uint64(len(t.kids)))) || !fitsW(iw, v.id) {
						continue
					}
					t.w = hw
					t.kids[0].w = iw
					out(sumOp(st, true, root.bytes()))
					if st == sumTypes[0] || st == sumTypes[1] {
						out(idOp(t.bytes()))
					}
				}
			}
		}
	}
	// 2. generic lists: id values around the fast-path bounds, list lengths around 22/23/24,
	//    first items that are not unsigned integers
	for cnt < n {
		switch r.Intn(10) {
		case 0, 1, 2:
			var first *cnode
			switch r.Intn(6) {
			case 0:
				first = cU(uint64(r.Intn(32)))
			case 1:
				first = cU(r.EdgeU64())
			case 2:
				first = cU(Pick(r, uint64(23), 24, 255, 256, 1<<63-1, 1<<63, 1<<64-1))
			default:
				first = randNode(r, 1)
			}
			ln := Pick(r, 1, 1, 2, 3, 5, 21, 22, 23, 24, 25, 30)
			kids := []*cnode{first}
			for len(kids) < ln {
				if ln > 6 {
					kids = append(kids, cU(uint64(r.Intn(30))))
				} else {
					kids = append(kids, randNode(r, 2))
				}
			}
			t := cA(kids...)
			t.w = Pick(r, cwidths(uint64(ln))...)
			if r.Chance(1, 5) {
				t.w = cWI
			}
			if first.major <= 1 {
				first.w = Pick(r, cwidths(first.n)...)
			}
			b := t.bytes()
			if r.Chance(1, 4) {
				b = mutateBytes(r, b)
			}
			if r.Chance(1, 6) {
				b = append(b, r.Bytes(1+r.Intn(3))...)
			}
			if c03Admissible(b) {
				out(idOp(b))
			}
		case 3:
			// not a list at all / empty / tiny inputs
			b := Pick(r, []byte{}, []byte{0x80}, []byte{0x9f, 0xff}, []byte{0x98, 0x00}, []byte{0xf6}, []byte{0xf7},
				[]byte{0x81}, []byte{0x82, 0x01}, []byte{0x9f, 0x01}, []byte{0x98}, []byte{0x98, 0x01}, []byte{0x98, 0x01, 0x05},
				randNode(r, 2).bytes(), r.Bytes(1+r.Intn(6)))
			if len(b) == 0 || c03Admissible(b) {
				out(idOp(b))
			}
		default:
			// a variant sample: random header forms at every level, sometimes mutated
			st := sumTypes[r.Intn(len(sumTypes))]
			v := st.variants[r.Intn(len(st.variants))]
			root, t := st.build(v)
			valid := true
			switch r.Intn(4) {
			case 0: // top-level only
				t.w = Pick(r, c03Forms...)
				if t.w != cWI && !fitsW(t.w, uint64(len(t.kids))) {
					t.w = cWI
				}
				t.kids[0].w = Pick(r, cwidths(t.kids[0].n)...)
			case 1: // every level
				root.reform(r, 1, 2, false)
				valid = false
			case 2: // another tag value (unknown / neighbouring variant) on this body
				t.kids[0].n = uint64(Pick(r, 0, 1, 2, 3, 4, 5, 6, 7, 18, 19, 22, 23, 24, 255, 256))
				t.kids[0].w = Pick(r, cwidths(t.kids[0].n)...)
				t.w = Pick(r, c03Forms...)
				if t.w != cWI && !fitsW(t.w, uint64(len(t.kids))) {
					t.w = cWI
				}
				valid = false
			default:
				root.reform(r, 1, 3, true)
				valid = false
			}
			b := root.bytes()
			if !valid && r.Chance(1, 3) {
				b = mutateBytes(r, b)
			}
			if c03Admissible(b) {
				out(sumOp(st, valid, b))
				if r.Chance(1, 3) {
					if sub, ok := g10aNav(b, st.path); ok && c03Admissible(sub) {
						out(idOp(sub))
					}
				}
			}
		}
	}
}

func runC03(op string) string {
	f := strings.Fields(op)
	if len(f) == 0 {
		return "bad-op"
	}
	switch f[0] {
	case "id":
		if len(f) != 3 {
			return "bad-op"
		}
		b, ok := unhex(f[2])
		if !ok || b01(valueOk(b)) != f[1] {
			return "bad-op"
		}
		ls, is, bs := "err", "err", "err"
		if n, err := cbor.ListLength(b); err == nil {
			ls = fmt.Sprint(n)
		}
		if k, err := cbor.DecodeIdFromList(b); err == nil {
			is = fmt.Sprint(k)
		}
		if v, err := cbor.DecodeById(b, c03IdMap()); err == nil {
			bs = strings.TrimPrefix(tname(v), "c03")
		}
		return fmt.Sprintf("id=%s len=%s byid=%s", is, ls, bs)
	case "sum":
		if len(f) != 5 {
			return "bad-op"
		}
		st := sumTypeByName(f[1])
		b, ok := unhex(f[4])
		if st == nil || !ok || b01(st.vok(b)) != f[3] {
			return "bad-op"
		}
		lab, err := st.decode(b)
		if err != nil {
			return "err"
		}
		return "ok " + lab
	}
	return "bad-op"
}
