package main

// Helpers of builder g7 (C35, C36, C37, C41).

import (
	"bufio"
	"io"
	"os"
	"os/exec"
	"runtime/debug"
	"sync"
	"time"
)

// crashSafe registers `raw` under id+"raw" and returns a Run function that
// forwards every op to a persistent child process (`gvh run <id>raw`). A fatal
// runtime error in the code under test that recover() cannot catch (stack
// overflow from unbounded recursion, concurrent map write, out of memory)
// kills only the child: the op's output becomes "CRASH" and the child is
// restarted, so the failing op is reported as a concrete input instead of
// taking the whole run down.
func crashSafe(id string, raw func(string) string) func(string) string {
	register(&Prop{ID: id + "raw", Gen: func(*Rand, int, string, func(string)) {}, Run: func(op string) string {
		// fail fast on runaway recursion (default limit is 1 GB)
		debug.SetMaxStack(32 << 20)
		return raw(op)
	}, Timeout: time.Hour}) // the parent enforces the deadline and kills the child
	var mu sync.Mutex
	var cmd *exec.Cmd
	var in io.WriteCloser
	var out *bufio.Reader
	crashes := 0
	const crashLimit = 4
	start := func() bool {
		exe, err := os.Executable()
		if err != nil {
			return false
		}
		cmd = exec.Command(exe, "run", id+"raw")
		cmd.Stderr = io.Discard
		var e1, e2 error
		in, e1 = cmd.StdinPipe()
		var o io.ReadCloser
		o, e2 = cmd.StdoutPipe()
		if e1 != nil || e2 != nil || cmd.Start() != nil {
			cmd = nil
			return false
		}
		out = bufio.NewReaderSize(o, 1<<20)
		return true
	}
	return func(op string) string {
		mu.Lock()
		defer mu.Unlock()
		if crashes >= crashLimit {
			// each crash costs a process start (seconds); the run already has its failing inputs
			return "NOT-RUN (4 earlier ops of this run crashed the process)"
		}
		if cmd == nil && !start() {
			return raw(op) // no child available: run in-process
		}
		if _, err := io.WriteString(in, op+"\n"); err != nil {
			_ = cmd.Wait()
			cmd = nil
			crashes++
			return "CRASH"
		}
		type rd struct {
			s   string
			err error
		}
		ch := make(chan rd, 1)
		o := out
		go func() {
			l, err := o.ReadString('\n')
			ch <- rd{l, err}
		}()
		select {
		case r := <-ch:
			if r.err != nil {
				_ = cmd.Process.Kill()
				_ = cmd.Wait()
				cmd = nil
				crashes++
				return "CRASH"
			}
			return r.s[:len(r.s)-1]
		case <-time.After(20 * time.Second):
			_ = cmd.Process.Kill()
			_ = cmd.Wait()
			cmd = nil
			crashes++
			return "TIMEOUT"
		}
	}
}
