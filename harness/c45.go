package main

// C45 — reward calculation distributes exactly the pot.
//
// op:  rw <mode> pot=<u64> tas=<u64> a0=<n>/<d> tb=<u32> | <pool> ; <pool> ; ...
//      mode  x = small snapshot (the Lean model reproduces the result exactly, searching the
//                map iteration orders), c = large snapshot (checked for consistency with the
//                integer skeleton only)
//      pool  <hasParams>,<poolStake>,<blocks>,<cost>,<mnum>/<mden>,<delegators>
//      delegators  <stake>:<registered>:<owner>+...   or -
// out: ok total=<TotalRewards> rest=<UpdatedPots.Rewards> | <i>,<TotalRewards>,<OperatorRewards>,<r0>+<r1>+.. ; ...
//      pools in index order; r_j = delegator j's reward, x when it has no entry
//      err:<kind>

import (
	"encoding/binary"
	"fmt"
	"math/big"
	"sort"
	"strconv"
	"strings"

	"github.com/blinklabs-io/gouroboros/cbor"
	"github.com/blinklabs-io/gouroboros/ledger/common"
)

func init() {
	register(&Prop{ID: "C45", Gen: genC45, Run: runC45})
}

type c45Del struct {
	stake      uint64
	reg, owner bool
}

type c45Pool struct {
	hasParams  bool
	stake      uint64
	blocks     uint32
	cost       uint64
	mnum, mden uint64
	dels       []c45Del
}

func c45Stake(r *Rand, tas uint64) uint64 {
	switch r.Intn(7) {
	case 0:
		return 0
	case 1:
		return tas
	case 2:
		return uint64(r.Intn(1000))
	case 3:
		return tas / uint64(1+r.Intn(20))
	case 4:
		return (uint64(1) << 53) + uint64(r.Intn(5))
	default:
		if tas == 0 {
			return 0
		}
		return r.U64() % (tas + 1)
	}
}

func genC45(r *Rand, n int, tier string, emit func(string)) {
	for i := 0; i < n; i++ {
		mode := "x"
		maxPools, maxDels := 4, 4
		if r.Chance(1, 4) {
			mode, maxPools, maxDels = "c", 12, 10
		}
		var pot uint64
		switch r.Intn(8) {
		case 0:
			pot = (uint64(1) << 53) + uint64(r.Intn(8))
		case 1:
			pot = (uint64(1) << uint(50+r.Intn(12))) + uint64(r.Intn(7)) - 3
		case 2:
			pot = uint64(r.Intn(50))
		case 3:
			pot = 45_000_000_000_000_000 - uint64(r.Intn(1000))
		case 4:
			pot = r.U64() >> uint(1+r.Intn(30))
		case 5:
			pot = 31_000_000_000_000 + uint64(r.Intn(1000000)) // a realistic epoch pot
		default:
			pot = uint64(r.Intn(2_000_000_000))
		}
		var tas uint64
		switch r.Intn(6) {
		case 0:
			tas = 45_000_000_000_000_000
		case 1:
			tas = uint64(1) << uint(30+r.Intn(26))
		case 2:
			tas = uint64(1 + r.Intn(1000))
		case 3:
			tas = 0
			if !r.Chance(1, 4) {
				tas = 22_000_000_000_000_000 + uint64(r.Intn(1000))
			}
		default:
			tas = 1 + r.U64()%45_000_000_000_000_000
		}
		a0 := Pick(r, "0/1", "3/10", "1/2", "1/1", "0/1")
		tb := uint32(0)
		if r.Chance(1, 3) {
			tb = uint32(1 + r.Intn(21600))
		}
		np := 1 + r.Intn(maxPools)
		var sb strings.Builder
		fmt.Fprintf(&sb, "rw %s pot=%d tas=%d a0=%s tb=%d |", mode, pot, tas, a0, tb)
		zeroShares := r.Chance(1, 10)
		for p := 0; p < np; p++ {
			if p > 0 {
				sb.WriteString(" ;")
			}
			hasParams := !r.Chance(1, 12)
			stake := c45Stake(r, tas)
			if zeroShares {
				stake = 0
			}
			blocks := uint32(0)
			if tb > 0 && r.Chance(2, 3) {
				blocks = uint32(r.Intn(int(tb) + 1))
			}
			var cost uint64
			switch r.Intn(5) {
			case 0:
				cost = 0
			case 1:
				cost = 340_000_000
			case 2:
				cost = pot
			case 3:
				cost = pot / uint64(1+r.Intn(8))
			default:
				cost = uint64(r.Intn(1_000_000_000))
			}
			mden := Pick(r, uint64(1), 2, 100, 1000, 3, 7, 1<<20)
			var mnum uint64
			switch r.Intn(4) {
			case 0:
				mnum = 0
			case 1:
				mnum = mden
			default:
				mnum = r.U64() % (mden + 1)
			}
			fmt.Fprintf(&sb, " %s,%d,%d,%d,%d/%d,", b01(hasParams), stake, blocks, cost, mnum, mden)
			nd := r.Intn(maxDels + 1)
			if nd == 0 {
				sb.WriteString("-")
			}
			for d := 0; d < nd; d++ {
				if d > 0 {
					sb.WriteString("+")
				}
				ds := c45Stake(r, stake)
				if r.Chance(1, 3) {
					ds = c45Stake(r, tas)
				}
				fmt.Fprintf(&sb, "%d:%s:%s", ds, b01(!r.Chance(1, 4)), b01(r.Chance(1, 4)))
			}
		}
		emit(sb.String())
	}
}

func parseC45(op string) (mode string, pot, tas uint64, a0 *big.Rat, tb uint32, pools []c45Pool, ok bool) {
	parts := strings.SplitN(op, "|", 2)
	if len(parts) != 2 {
		return
	}
	hd := strings.Fields(parts[0])
	if len(hd) != 6 || hd[0] != "rw" || (hd[1] != "x" && hd[1] != "c") {
		return
	}
	mode = hd[1]
	get := func(s, key string) (string, bool) {
		if !strings.HasPrefix(s, key) {
			return "", false
		}
		return s[len(key):], true
	}
	var err error
	var v string
	var k bool
	if v, k = get(hd[2], "pot="); !k {
		return
	}
	if pot, err = strconv.ParseUint(v, 10, 64); err != nil {
		return
	}
	if v, k = get(hd[3], "tas="); !k {
		return
	}
	if tas, err = strconv.ParseUint(v, 10, 64); err != nil {
		return
	}
	if v, k = get(hd[4], "a0="); !k {
		return
	}
	fr := strings.Split(v, "/")
	if len(fr) != 2 {
		return
	}
	an, e1 := strconv.ParseUint(fr[0], 10, 53)
	ad, e2 := strconv.ParseUint(fr[1], 10, 53)
	if e1 != nil || e2 != nil || ad == 0 {
		return
	}
	a0 = new(big.Rat).SetFrac(new(big.Int).SetUint64(an), new(big.Int).SetUint64(ad))
	if v, k = get(hd[5], "tb="); !k {
		return
	}
	tb64, e3 := strconv.ParseUint(v, 10, 32)
	if e3 != nil {
		return
	}
	tb = uint32(tb64)
	for _, ps := range strings.Split(parts[1], ";") {
		f := strings.Split(strings.TrimSpace(ps), ",")
		if len(f) != 6 {
			return
		}
		var p c45Pool
		p.hasParams = f[0] == "1"
		if f[0] != "0" && f[0] != "1" {
			return
		}
		if p.stake, err = strconv.ParseUint(f[1], 10, 64); err != nil {
			return
		}
		b64, e := strconv.ParseUint(f[2], 10, 32)
		if e != nil {
			return
		}
		p.blocks = uint32(b64)
		if p.cost, err = strconv.ParseUint(f[3], 10, 64); err != nil {
			return
		}
		mf := strings.Split(f[4], "/")
		if len(mf) != 2 {
			return
		}
		if p.mnum, err = strconv.ParseUint(mf[0], 10, 53); err != nil {
			return
		}
		if p.mden, err = strconv.ParseUint(mf[1], 10, 53); err != nil || p.mden == 0 {
			return
		}
		if f[5] != "-" {
			for _, ds := range strings.Split(f[5], "+") {
				df := strings.Split(ds, ":")
				if len(df) != 3 {
					return
				}
				var d c45Del
				if d.stake, err = strconv.ParseUint(df[0], 10, 64); err != nil {
					return
				}
				d.reg, d.owner = df[1] == "1", df[2] == "1"
				p.dels = append(p.dels, d)
			}
		}
		pools = append(pools, p)
	}
	if len(pools) == 0 || len(pools) > 64 {
		return
	}
	ok = true
	return
}

func c45PoolID(i int) common.PoolKeyHash {
	var h common.PoolKeyHash
	binary.BigEndian.PutUint32(h[:4], uint32(i))
	h[27] = 0x50
	return h
}

func c45DelID(i, j int) common.AddrKeyHash {
	var h common.AddrKeyHash
	binary.BigEndian.PutUint32(h[:4], uint32(i))
	binary.BigEndian.PutUint32(h[4:8], uint32(j))
	h[27] = 0xd0
	return h
}

func runC45(op string) string {
	_, pot, tas, a0, tb, pools, ok := parseC45(op)
	if !ok {
		return "bad-op"
	}
	snap := common.RewardSnapshot{
		TotalActiveStake:   tas,
		PoolStake:          map[common.PoolKeyHash]uint64{},
		DelegatorStake:     map[common.PoolKeyHash]map[common.AddrKeyHash]uint64{},
		PoolParams:         map[common.PoolKeyHash]*common.PoolRegistrationCertificate{},
		StakeRegistrations: map[common.AddrKeyHash]bool{},
		PoolBlocks:         map[common.PoolKeyHash]uint32{},
		TotalBlocksInEpoch: tb,
	}
	for i, p := range pools {
		id := c45PoolID(i)
		snap.PoolStake[id] = p.stake
		if p.blocks > 0 {
			snap.PoolBlocks[id] = p.blocks
		}
		var owners []common.AddrKeyHash
		if len(p.dels) > 0 {
			snap.DelegatorStake[id] = map[common.AddrKeyHash]uint64{}
		}
		for j, d := range p.dels {
			k := c45DelID(i, j)
			snap.DelegatorStake[id][k] = d.stake
			if d.reg {
				snap.StakeRegistrations[k] = true
			}
			if d.owner {
				owners = append(owners, k)
			}
		}
		if p.hasParams {
			snap.PoolParams[id] = &common.PoolRegistrationCertificate{
				Operator: id,
				Cost:     p.cost,
				Margin: cbor.Rat{Rat: new(big.Rat).SetFrac(
					new(big.Int).SetUint64(p.mnum), new(big.Int).SetUint64(p.mden))},
				PoolOwners: owners,
			}
		}
	}
	params := common.RewardParameters{PoolInfluence: a0}
	res, err := common.CalculateRewards(common.AdaPots{Rewards: pot}, snap, params)
	if err != nil {
		if strings.Contains(err.Error(), "no valid pools") {
			return "err:no-valid-pools"
		}
		return "err:other"
	}
	var sb strings.Builder
	fmt.Fprintf(&sb, "ok total=%d rest=%d |", res.TotalRewards, res.UpdatedPots.Rewards)
	idx := []int{}
	byID := map[common.PoolKeyHash]int{}
	for i := range pools {
		byID[c45PoolID(i)] = i
	}
	for id := range res.PoolRewards {
		i, known := byID[id]
		if !known {
			return "err:unknown-pool-in-result"
		}
		idx = append(idx, i)
	}
	sort.Ints(idx)
	for n, i := range idx {
		pr := res.PoolRewards[c45PoolID(i)]
		if n > 0 {
			sb.WriteString(" ;")
		}
		fmt.Fprintf(&sb, " %d,%d,%d,", i, pr.TotalRewards, pr.OperatorRewards)
		if len(pools[i].dels) == 0 {
			sb.WriteString("-")
		}
		seen := 0
		for j := range pools[i].dels {
			if j > 0 {
				sb.WriteString("+")
			}
			if v, has := pr.DelegatorRewards[c45DelID(i, j)]; has {
				fmt.Fprintf(&sb, "%d", v)
				seen++
			} else {
				sb.WriteString("x")
			}
		}
		if seen != len(pr.DelegatorRewards) {
			return "err:unknown-delegator-in-result"
		}
	}
	return sb.String()
}
