package main

// C30 — minimum fee and size limits use the transaction's real size.
//
//	op:  fee <era> <a> <b> <maxTxSize> <fee> <n> <txhex> [<mode> [<nOut>]]
//	     mode r: txhex is decoded, then the envelope's stored bytes are dropped, so that the
//	             size comes from the re-assembly path (stored body/witness bytes under a
//	             canonical envelope header)
//	     mode s: the era's transaction struct is built directly from (fee, nOut) — no stored
//	             bytes anywhere — and txhex is what the library's encoder makes of it (computed
//	             by the generator, re-checked here): the no-stored-bytes fallback of TxSizeForFee
//	             and of the max-size rule
//	     a, b = MinFeeA/MinFeeB, fee = the fee written in the body (checked
//	     against the decoded transaction), n = number of envelope components
//	     (checked against an independent decode of the envelope), txhex = the
//	     original encoding.
//	out: size=<TxSizeForFee> minfee=<MinFeeTx|err> fee=<1|0|err> max=<1|0|err>
//	     | decode-err | fee-mismatch | n-mismatch
//
// The transaction is always obtained by decoding txhex with the era decoder,
// so the measured size is the stored original encoding. fee/max are the
// verdicts of the FeeTooSmall / MaxTxSize errors over the era's whole rule list.

import (
	"bytes"
	"errors"
	"fmt"
	"math/big"
	"strconv"
	"strings"

	"github.com/blinklabs-io/gouroboros/cbor"
	"github.com/blinklabs-io/gouroboros/ledger/allegra"
	"github.com/blinklabs-io/gouroboros/ledger/alonzo"
	"github.com/blinklabs-io/gouroboros/ledger/babbage"
	"github.com/blinklabs-io/gouroboros/ledger/common"
	"github.com/blinklabs-io/gouroboros/ledger/conway"
	"github.com/blinklabs-io/gouroboros/ledger/dijkstra"
	"github.com/blinklabs-io/gouroboros/ledger/mary"
	"github.com/blinklabs-io/gouroboros/ledger/shelley"
	mockledger "github.com/blinklabs-io/ouroboros-mock/ledger"
)

func init() {
	register(&Prop{ID: "C30", Gen: genC30, Run: runC30})
}

// c30Body builds a body with `fee` encoded at width fw and a random amount of
// padding (extra outputs, non-canonical integer widths, metadata hash).
func c30Body(r *Rand, fee uint64, fw int, nOut int, bodyW int, widths []int) []byte {
	outs := [][]byte{}
	for i := 0; i < nOut; i++ {
		outs = append(outs, cbArrayW(widths[i%len(widths)], cbBytes(g1Addr(byte(i+1))), cbUintW(uint64(1000000+i), widths[(i+1)%len(widths)])))
	}
	kv := [][]byte{cbUint(0), cbArray(g1TxIn(1, 0)), cbUint(1), cbArray(outs...), cbUint(2), cbUintW(fee, fw)}
	return cbMapW(bodyW, kv...)
}

func genC30(r *Rand, n int, tier string, emit func(string)) {
	envW := []int{0, 0, 0, 1, 2, 4, 8, 99, 99}
	for i := 0; i < n; i++ {
		era := g1Eras[r.Intn(len(g1Eras))]
		ei := g1EraIndex(era)
		// envelope arity: mostly the era's own; sometimes another one
		nEnv := 3
		if ei >= 3 {
			nEnv = 4
		}
		if era == "dijkstra" && r.Bool() {
			nEnv = 3
		}
		if r.Chance(1, 12) {
			nEnv = Pick(r, 2, 3, 4, 5)
		}
		w := envW[r.Intn(len(envW))]
		nOut := Pick(r, 0, 1, 1, 2, 3, 8, 30)
		if tier == "thorough" && r.Chance(1, 50) {
			nOut = 100 + r.Intn(300)
		}
		bodyW := Pick(r, 0, 0, 0, 1, 2, 99)
		widths := []int{0, Pick(r, 0, 1, 2, 4, 8), Pick(r, 0, 0, 4, 8)}
		// fee parameters: realistic, tiny, or in the overflow range
		var a, b uint64
		switch r.Intn(8) {
		case 0:
			a, b = 44, 155381
		case 1:
			a, b = uint64(r.Intn(3)), uint64(r.Intn(3))
		case 2:
			a, b = r.EdgeU64(), r.EdgeU64()
		case 3:
			a, b = ^uint64(0)/uint64(1+r.Intn(400))+uint64(r.Intn(3))-1, r.EdgeU64()
		case 4:
			a, b = uint64(r.Intn(1000)), ^uint64(0)-uint64(r.Intn(100000))
		default:
			a, b = uint64(r.Intn(1000)), uint64(r.Intn(1000000))
		}
		// phase-2-invalid transactions are sized and charged like valid ones
		isValid := !(ei >= 3 && ei <= 5 && r.Chance(1, 5))
		build := func(fee uint64, fw int) []byte {
			body := c30Body(r, fee, fw, nOut, bodyW, widths)
			wits := cbMap()
			items := [][]byte{body, wits}
			switch nEnv {
			case 2:
			case 3:
				items = append(items, cbNull())
			case 4:
				items = append(items, cbBool(isValid), cbNull())
			default:
				items = append(items, cbBool(isValid), cbNull(), cbNull())
			}
			return cbArrayW(w, items...)
		}
		// the fee is chosen relative to a*size+b; with a minimal-width fee the
		// size depends on the fee, so iterate to a fixpoint (bounded)
		fw := Pick(r, 8, 8, 4, 0)
		mode := r.Intn(6)
		ovPick := Pick(r, ^uint64(0), uint64(0), r.U64())
		div := uint64(1 + r.Intn(7))
		edge := r.EdgeU64()
		extra := uint64(r.Intn(1000))
		feeFor := func(rawLen int) uint64 {
			size := uint64(rawLen)
			if nEnv == 4 && ei >= 3 {
				size--
			}
			target := new(big.Int).Mul(new(big.Int).SetUint64(a), new(big.Int).SetUint64(size))
			target.Add(target, new(big.Int).SetUint64(b))
			if !target.IsUint64() {
				return ovPick
			}
			t := target.Uint64()
			switch mode {
			case 0:
				return t
			case 1:
				if t > 0 {
					return t - 1
				}
				return 0
			case 2:
				if t < ^uint64(0) {
					return t + 1
				}
				return t
			case 3:
				return t - t%div
			case 4:
				return edge
			default:
				if t+extra < t {
					return t
				}
				return t + extra
			}
		}
		widthFor := func(fee uint64) int {
			if fw == 4 && fee >= 1<<32 {
				return 8
			}
			return fw
		}
		fee := feeFor(len(build(0, widthFor(0))))
		raw := build(fee, widthFor(fee))
		for k := 0; k < 3; k++ {
			f2 := feeFor(len(raw))
			if f2 == fee {
				break
			}
			fee = f2
			raw = build(fee, widthFor(fee))
		}
		// maximum size around the real length
		l := uint64(len(raw))
		var max uint64
		switch r.Intn(6) {
		case 0:
			max = l
		case 1:
			max = l - 1
		case 2:
			max = l + 1
		case 3:
			max = l - 2
		case 4:
			max = r.EdgeU64()
		default:
			max = 16384
		}
		line := fmt.Sprintf("fee %s %d %d %d %d %d %s", era, a, b, max, fee, nEnv, hexs(raw))
		// re-assembly path: only for the era's own envelope arity (the re-assembled envelope has it)
		ownArity := (ei < 3 && nEnv == 3) || (ei >= 3 && ei <= 5 && nEnv == 4) || (ei == 6 && nEnv == 3)
		if ownArity && r.Chance(1, 5) {
			line += " r"
		}
		emit(line)
		if r.Chance(1, 6) {
			c30GenModes(r, emit)
		}
	}
}

func runC30(op string) string {
	f := strings.Fields(op)
	if len(f) < 8 || len(f) > 10 || f[0] != "fee" || g1EraIndex(f[1]) < 0 {
		return "bad-op"
	}
	mode, nOut := "", 0
	if len(f) >= 9 {
		mode = f[8]
		if (mode != "r" && mode != "s") || (mode == "s") != (len(f) == 10) {
			return "bad-op"
		}
		if mode == "s" {
			v, err := strconv.Atoi(f[9])
			if err != nil || v < 0 || v > 1000 {
				return "bad-op"
			}
			nOut = v
		}
	}
	era := f[1]
	a, e1 := strconv.ParseUint(f[2], 10, 64)
	b, e2 := strconv.ParseUint(f[3], 10, 64)
	max, e3 := strconv.ParseUint(f[4], 10, 64)
	fee, e4 := strconv.ParseUint(f[5], 10, 64)
	nEnv, e5 := strconv.Atoi(f[6])
	raw, ok := unhex(f[7])
	if e1 != nil || e2 != nil || e3 != nil || e4 != nil || e5 != nil || !ok {
		return "bad-op"
	}
	// independent count of the envelope components
	var comps []cbor.RawMessage
	if _, err := cbor.Decode(raw, &comps); err != nil || len(comps) != nEnv {
		return "n-mismatch"
	}
	var tx common.Transaction
	if mode == "s" {
		tx = c30StructTx(era, fee, nOut)
		if tx == nil {
			return "bad-op"
		}
		enc, err := cbor.Encode(tx)
		if err != nil || !bytes.Equal(enc, raw) {
			return "enc-mismatch"
		}
		if len(tx.Cbor()) != 0 {
			return "has-stored-bytes"
		}
	} else {
		var derr error
		tx, derr = g1DecodeTx(era, raw)
		if derr != nil {
			return "decode-err"
		}
		if mode == "r" {
			st, ok := tx.(interface{ SetCbor([]byte) })
			if !ok {
				return "bad-op"
			}
			st.SetCbor(nil)
		}
	}
	if tx.Fee() == nil || !tx.Fee().IsUint64() || tx.Fee().Uint64() != fee {
		return "fee-mismatch"
	}
	pp := g1Pparams(era, g1PP{MinFeeA: uint(a), MinFeeB: uint(b), MaxTxSize: uint(max), Major: 9})
	size, serr := common.TxSizeForFee(tx)
	sizeS := strconv.Itoa(size)
	if serr != nil {
		sizeS = "err"
	}
	var mf uint64
	var merr error
	switch era {
	case "shelley", "allegra":
		mf, merr = shelley.MinFeeTx(tx, pp)
	case "mary":
		mf, merr = mary.MinFeeTx(tx, pp)
	case "alonzo":
		mf, merr = alonzo.MinFeeTx(tx, pp)
	case "babbage":
		mf, merr = babbage.MinFeeTx(tx, pp)
	case "conway":
		mf, merr = conway.MinFeeTx(tx, pp)
	case "dijkstra":
		mf, merr = dijkstra.MinFeeTx(tx, pp)
	}
	mfS := strconv.FormatUint(mf, 10)
	if merr != nil {
		mfS = "err"
	}
	ls := mockledger.NewLedgerStateBuilder().Build()
	before := fmt.Sprintf("%x", tx.Cbor())
	verdict := func() string {
		feeV, maxV := "1", "1"
		for _, rule := range g1Rules(era) {
			e := safeRule(rule, tx, 0, ls, pp)
			if e == nil {
				continue
			}
			var fe shelley.FeeTooSmallUtxoError
			var me shelley.MaxTxSizeUtxoError
			switch {
			case errors.As(e, &fe):
				feeV = "0"
			case errors.As(e, &me):
				maxV = "0"
			case strings.HasPrefix(e.Error(), "min fee"):
				// CalculateMinFee's overflow / negative-size error surfaced by the fee rule
				feeV = "err"
			}
		}
		return fmt.Sprintf("fee=%s max=%s", feeV, maxV)
	}
	// validation is a function of its arguments and leaves the stored bytes alone
	v1 := verdict()
	if v2 := verdict(); v2 != v1 || fmt.Sprintf("%x", tx.Cbor()) != before {
		return "IMPURE " + v1 + " then " + v2
	}
	return fmt.Sprintf("size=%s minfee=%s %s", sizeS, mfS, v1)
}

// c30StructTx builds the era's transaction struct from fields only (no stored bytes).
func c30StructTx(era string, fee uint64, nOut int) common.Transaction {
	in := shelley.NewShelleyTransactionInput(fmt.Sprintf("%x", g1TxHash(1)), 0)
	addr := func(i int) common.Address {
		a, _ := common.NewAddressFromBytes(g1Addr(byte(i + 1)))
		return a
	}
	shOuts := []shelley.ShelleyTransactionOutput{}
	maOuts := []mary.MaryTransactionOutput{}
	alOuts := []alonzo.AlonzoTransactionOutput{}
	baOuts := []babbage.BabbageTransactionOutput{}
	for i := 0; i < nOut; i++ {
		c := uint64(1000000 + i)
		shOuts = append(shOuts, shelley.ShelleyTransactionOutput{OutputAddress: addr(i), OutputAmount: c})
		maOuts = append(maOuts, mary.MaryTransactionOutput{OutputAddress: addr(i), OutputAmount: mary.MaryTransactionOutputValue{Amount: c}})
		alOuts = append(alOuts, alonzo.AlonzoTransactionOutput{OutputAddress: addr(i), OutputAmount: mary.MaryTransactionOutputValue{Amount: c}})
		baOuts = append(baOuts, babbage.BabbageTransactionOutput{OutputAddress: addr(i), OutputAmount: mary.MaryTransactionOutputValue{Amount: c}})
	}
	shIns := shelley.NewShelleyTransactionInputSet([]shelley.ShelleyTransactionInput{in})
	switch era {
	case "shelley":
		t := &shelley.ShelleyTransaction{}
		t.Body.TxInputs, t.Body.TxOutputs, t.Body.TxFee = shIns, shOuts, fee
		return t
	case "allegra":
		t := &allegra.AllegraTransaction{}
		t.Body.TxInputs, t.Body.TxOutputs, t.Body.TxFee = shIns, shOuts, fee
		return t
	case "mary":
		t := &mary.MaryTransaction{}
		t.Body.TxInputs, t.Body.TxOutputs, t.Body.TxFee = shIns, maOuts, fee
		return t
	case "alonzo":
		t := &alonzo.AlonzoTransaction{TxIsValid: true}
		t.Body.TxInputs, t.Body.TxOutputs, t.Body.TxFee = shIns, alOuts, fee
		return t
	case "babbage":
		t := &babbage.BabbageTransaction{TxIsValid: true}
		t.Body.TxInputs, t.Body.TxOutputs, t.Body.TxFee = shIns, baOuts, fee
		return t
	case "conway":
		t := &conway.ConwayTransaction{TxIsValid: true}
		t.Body.TxInputs = conway.NewConwayTransactionInputSet([]shelley.ShelleyTransactionInput{in})
		t.Body.TxOutputs, t.Body.TxFee = baOuts, fee
		return t
	case "dijkstra":
		t := &dijkstra.DijkstraTransaction{TxIsValid: true}
		t.Body.TxInputs = conway.NewConwayTransactionInputSet([]shelley.ShelleyTransactionInput{in})
		for i := range baOuts {
			o := baOuts[i]
			t.Body.TxOutputs = append(t.Body.TxOutputs, dijkstra.DijkstraTransactionOutput{Output: &o})
		}
		t.Body.TxFee = fee
		return t
	}
	return nil
}

// c30GenModes emits the re-assembly and struct-built variants (called from genC30).
func c30GenModes(r *Rand, emit func(string)) {
	era := g1Eras[r.Intn(len(g1Eras))]
	a, b := uint64(r.Intn(1000)), uint64(r.Intn(1000000))
	if r.Chance(1, 6) {
		a, b = r.EdgeU64(), r.EdgeU64()
	}
	nOut := Pick(r, 0, 1, 2, 5, 30)
	// struct-built: encode with a placeholder fee to learn the size, then aim at the threshold
	probe := c30StructTx(era, 1<<40, nOut) // 8-byte... the encoder picks the width from the value
	enc, err := cbor.Encode(probe)
	if err != nil {
		return
	}
	size := uint64(len(enc))
	if ei := g1EraIndex(era); ei >= 3 && ei <= 5 {
		size--
	}
	t := new(big.Int).Mul(new(big.Int).SetUint64(a), new(big.Int).SetUint64(size))
	t.Add(t, new(big.Int).SetUint64(b))
	fee := uint64(1 << 40)
	if t.IsUint64() && t.Uint64() >= 1<<32 {
		fee = t.Uint64() - uint64(r.Intn(2)) // same 8-byte width as the probe: exact threshold or one below
	} else if t.IsUint64() {
		fee = t.Uint64() + uint64(r.Intn(3)) // narrower fee, smaller transaction: at or above the real threshold
	}
	if r.Chance(1, 5) {
		fee = uint64(r.Intn(3))
	}
	tx := c30StructTx(era, fee, nOut)
	enc, err = cbor.Encode(tx)
	if err != nil {
		return
	}
	var comps []cbor.RawMessage
	if _, err := cbor.Decode(enc, &comps); err != nil {
		return
	}
	l := uint64(len(enc))
	max := Pick(r, l, l-1, l+1, uint64(16384))
	emit(fmt.Sprintf("fee %s %d %d %d %d %d %s s %d", era, a, b, max, fee, len(comps), hexs(enc), nOut))
}
