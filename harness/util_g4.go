package main

// Helpers shared by C09 / C10 / C13 (g4): payload specs, fingerprints, and a
// one-directional in-memory byte stream whose reads are fragmented by a chunk
// plan and whose writes are recorded. No verdict depends on wall-clock time.

import (
	"errors"
	"fmt"
	"io"
	"net"
	"runtime"
	"strconv"
	"strings"
	"sync"
	"time"
)

func fnv64(b []byte) uint64 {
	h := uint64(14695981039346656037)
	for _, x := range b {
		h = (h ^ uint64(x)) * 1099511628211
	}
	return h
}

// fpBytes is the `len.fnv` fingerprint used on both sides of the line protocol.
func fpBytes(b []byte) string { return fmt.Sprintf("%d.%016x", len(b), fnv64(b)) }

// genBytesG4: 64-bit LCG from seed, top byte of each state (mirrors GV.SegUtil.genBytes).
func genBytesG4(n int, seed uint64) []byte {
	b := make([]byte, n)
	x := seed
	for i := range b {
		x = x*6364136223846793005 + 1442695040888963407
		b[i] = byte(x >> 56)
	}
	return b
}

// parsePayloadG4 parses `h<hex>` or `g<len>.<seed>`.
func parsePayloadG4(s string) ([]byte, bool) {
	if len(s) == 0 {
		return nil, false
	}
	switch s[0] {
	case 'h':
		return unhex(s[1:])
	case 'g':
		p := strings.Split(s[1:], ".")
		if len(p) != 2 {
			return nil, false
		}
		n, e1 := strconv.Atoi(p[0])
		sd, e2 := strconv.ParseUint(p[1], 10, 64)
		if e1 != nil || e2 != nil || n < 0 || n > 64<<20 {
			return nil, false
		}
		return genBytesG4(n, sd), true
	}
	return nil, false
}

func parseNatListG4(s string) ([]int, bool) {
	if s == "-" {
		return nil, true
	}
	res := []int{}
	for _, t := range strings.Split(s, ",") {
		n, err := strconv.Atoi(t)
		if err != nil || n < 0 {
			return nil, false
		}
		res = append(res, n)
	}
	return res, true
}

// stream is one direction of a connection. Bytes written are appended; reads
// never cross a chunk boundary of the plan (chunk i of the stream has size
// plan[i mod len], zero entries count as 1), so the reader sees exactly the
// planned fragmentation (possibly refined further when data arrives late).
type stream struct {
	mu       sync.Mutex
	cond     *sync.Cond
	buf      []byte
	wclosed  bool // writer closed: EOF after the buffer drains
	rclosed  bool // reader closed
	plan     []int
	chunkIdx int
	chunkRem int
	nreads   int
	waiting  bool // the reader is blocked in read with an empty buffer
	sink     bool // after the reader closed, writes succeed and are discarded
	maxBuf   int  // 0 = unbounded; otherwise Write blocks while len(buf) >= maxBuf (back-pressure)
}

func newStream(plan []int) *stream {
	s := &stream{plan: plan}
	s.cond = sync.NewCond(&s.mu)
	return s
}

func (s *stream) write(b []byte) (int, error) {
	s.mu.Lock()
	defer s.mu.Unlock()
	for s.maxBuf > 0 && len(s.buf) >= s.maxBuf && !s.rclosed && !s.wclosed {
		s.cond.Wait()
	}
	if s.rclosed && s.sink {
		return len(b), nil // the reader went away: swallow (the writer must not be disturbed)
	}
	if s.rclosed || s.wclosed {
		return 0, io.ErrClosedPipe
	}
	s.buf = append(s.buf, b...)
	s.cond.Broadcast()
	return len(b), nil
}

func (s *stream) read(p []byte) (int, error) {
	s.mu.Lock()
	defer s.mu.Unlock()
	for len(s.buf) == 0 && !s.wclosed && !s.rclosed {
		s.waiting = true
		s.cond.Broadcast()
		s.cond.Wait()
	}
	s.waiting = false
	if s.rclosed {
		return 0, io.ErrClosedPipe
	}
	if len(s.buf) == 0 {
		return 0, io.EOF
	}
	if len(p) == 0 {
		return 0, nil
	}
	if s.chunkRem == 0 {
		n := 1 << 30
		if len(s.plan) > 0 {
			n = s.plan[s.chunkIdx%len(s.plan)]
			if n < 1 {
				n = 1
			}
		}
		s.chunkIdx++
		s.chunkRem = n
	}
	n := len(p)
	if n > s.chunkRem {
		n = s.chunkRem
	}
	if n > len(s.buf) {
		n = len(s.buf)
	}
	copy(p, s.buf[:n])
	s.buf = s.buf[n:]
	s.chunkRem -= n
	s.nreads++
	s.cond.Broadcast()
	return n, nil
}

// waitReaderIdle blocks until the reader has consumed everything written so far and is
// blocked waiting for more (or has gone away). Event synchronisation, no clock.
func (s *stream) waitReaderIdle() {
	s.mu.Lock()
	for !(s.waiting && len(s.buf) == 0) && !s.rclosed {
		s.cond.Wait()
	}
	s.mu.Unlock()
}

func (s *stream) closeWrite() {
	s.mu.Lock()
	s.wclosed = true
	s.cond.Broadcast()
	s.mu.Unlock()
}

func (s *stream) closeRead() {
	s.mu.Lock()
	s.rclosed = true
	s.cond.Broadcast()
	s.mu.Unlock()
}

// g4Conn is a net.Conn made of an inbound and an outbound stream. Every Write
// call is recorded (the muxer writes exactly one segment per call).
type g4Conn struct {
	in, out      *stream
	wmu          sync.Mutex
	writes       [][]byte
	wcond        *sync.Cond
	record       bool
	perturb      *Rand         // scheduler perturbation inside Write (under the muxer's send mutex)
	payloadBytes int           // sum of len(write)-8 over all writes
	closed       bool          // Close was called
	holdCh       chan struct{} // when non-nil, every Write blocks until it is closed (a connection slow to accept writes)
	once         sync.Once
}

func newG4Conn(in, out *stream, record bool) *g4Conn {
	c := &g4Conn{in: in, out: out, record: record}
	c.wcond = sync.NewCond(&c.wmu)
	return c
}

func (c *g4Conn) Read(p []byte) (int, error) { return c.in.read(p) }

func (c *g4Conn) Write(p []byte) (int, error) {
	if c.holdCh != nil {
		<-c.holdCh
	}
	if c.perturb != nil {
		c.wmu.Lock()
		k := c.perturb.Intn(3)
		c.wmu.Unlock()
		for ; k > 0; k-- {
			runtime.Gosched()
		}
	}
	n, err := c.out.write(p)
	c.wmu.Lock()
	if c.record {
		c.writes = append(c.writes, append([]byte(nil), p...))
	} else {
		c.writes = append(c.writes, nil)
	}
	if len(p) >= 8 {
		c.payloadBytes += len(p) - 8
	}
	c.wcond.Broadcast()
	c.wmu.Unlock()
	return n, err
}

// waitWrites blocks until n Write calls have been made or stop() reports true.
func (c *g4Conn) waitWrites(n int) {
	c.wmu.Lock()
	for len(c.writes) < n {
		c.wcond.Wait()
	}
	c.wmu.Unlock()
}

// waitPayloadBytes blocks until the segments written so far carry at least n payload bytes
// (each Write is one segment with an 8-byte header) or the connection was closed.
func (c *g4Conn) waitPayloadBytes(n int) {
	c.wmu.Lock()
	for c.payloadBytes < n && !c.closed {
		c.wcond.Wait()
	}
	c.wmu.Unlock()
}

func (c *g4Conn) numWrites() int {
	c.wmu.Lock()
	defer c.wmu.Unlock()
	return len(c.writes)
}

func (c *g4Conn) Close() error {
	c.once.Do(func() {
		c.in.closeRead()
		c.out.closeWrite()
		c.wmu.Lock()
		c.closed = true
		c.wcond.Broadcast()
		c.wmu.Unlock()
	})
	return nil
}

type g4Addr struct{}

func (g4Addr) Network() string { return "g4" }
func (g4Addr) String() string  { return "g4" }

func (c *g4Conn) LocalAddr() net.Addr                { return g4Addr{} }
func (c *g4Conn) RemoteAddr() net.Addr               { return g4Addr{} }
func (c *g4Conn) SetDeadline(t time.Time) error      { return nil }
func (c *g4Conn) SetReadDeadline(t time.Time) error  { return nil }
func (c *g4Conn) SetWriteDeadline(t time.Time) error { return nil }

// g4Pair returns two connected conns; planAB fragments what B reads, planBA what A reads.
func g4Pair(planAB, planBA []int, recordA, recordB bool) (*g4Conn, *g4Conn) {
	ab := newStream(planAB)
	ba := newStream(planBA)
	a := newG4Conn(ba, ab, recordA)
	b := newG4Conn(ab, ba, recordB)
	return a, b
}

// muxErrClass maps a muxer error to the small enum of the line protocol.
func muxErrClass(err error) string {
	if err == nil {
		return "none"
	}
	msg := err.Error()
	switch {
	case strings.Contains(msg, "while reading header"):
		return "eof-header"
	case strings.Contains(msg, "while reading payload"):
		return "eof-payload"
	case errors.Is(err, io.ErrUnexpectedEOF):
		return "unexpected-eof"
	case strings.Contains(msg, "zero-byte segment payload"):
		return "zero-len"
	case strings.Contains(msg, "from initiator when not"):
		return "from-initiator"
	case strings.Contains(msg, "from responder when not"):
		return "from-responder"
	case strings.Contains(msg, "unknown protocol ID"):
		f := strings.Fields(msg)
		return "unknown-proto:" + f[len(f)-1]
	}
	return "other:" + strings.ReplaceAll(msg, " ", "_")
}
