package main

// C43 — draining the pipeline really waits for in-flight blocks.
// Scenarios: blocks held inside a decode worker, a validate worker, the apply
// runner or ApplyFunc (or behind a closed gate) while WaitForDrain runs; the
// holds are released only after WaitForDrain had time to poll several times.
// Buffers are larger than the number of blocks, so Submit never blocks.

import (
	"fmt"
	"strings"
	"time"
)

func init() {
	register(&Prop{ID: "C43", Gen: genC43, Run: runPipe, Timeout: 120 * time.Second})
}

func genC43(r *Rand, n int, tier string, emit func(string)) {
	for i := 0; i < n; i++ {
		dw := Pick(r, 1, 2, 4, 16, 1+r.Intn(16))
		vw := Pick(r, 0, 1, 2, 16, r.Intn(17))
		nb := 1 + r.Intn(12)
		buf := 64
		var sb strings.Builder
		fmt.Fprintf(&sb, "pipe dw=%d vw=%d buf=%d |", dw, vw, buf)
		rounds := 1 + r.Intn(2)
		for rd := 0; rd < rounds; rd++ {
			gated := r.Chance(1, 5)
			if gated {
				sb.WriteString(" gate")
			}
			held := 0
			for b := 0; b < nb; b++ {
				hold := "-"
				// at most dw / vw blocks can be held inside the workers of a stage
				// (more would only queue behind them), one by the apply goroutine
				if rd == 0 && r.Chance(1, 3) {
					holds := []string{"d", "a", "f"}
					if vw > 0 {
						holds = append(holds, "v")
					}
					hold = Pick(r, holds...)
					held++
				}
				fmt.Fprintf(&sb, " s:%s:0:%d:%d:%d:%s", pipeKind(r, vw), pipeLat(r), pipeLat(r), pipeLat(r), hold)
			}
			if r.Chance(1, 2) {
				sb.WriteString(" settle pc")
			}
			wait := 35
			if held == 0 && !gated {
				wait = 2000 // nothing is held: WaitForDrain returns by itself
			}
			fmt.Fprintf(&sb, " drain:%d", wait)
			if r.Chance(1, 2) {
				sb.WriteString(" pc")
			}
			nb = 1 + r.Intn(6)
		}
		emit(sb.String())
	}
}
