package main

// C43 — draining the pipeline really waits for in-flight blocks.
// Scenarios: blocks held inside a decode worker, a validate worker, the apply
// runner (before processing / right after the in-order dequeue) or ApplyFunc (or
// behind a closed gate, or behind an unread results channel) while WaitForDrain
// runs; the holds are released only after WaitForDrain's own polls have been
// observed through the hook (event-synchronised, no wall-clock in the verdict).

import (
	"fmt"
	"strings"
	"time"
)

func init() {
	register(&Prop{ID: "C43", Gen: genC43, Run: runPipe, Timeout: 10 * time.Minute})
}

func genC43(r *Rand, n int, tier string, emit func(string)) {
	for i := 0; i < n; i++ {
		switch r.Intn(8) {
		case 3:
			// the block accepted after other submitters gave up waiting for the turn is held
			// in ApplyFunc while WaitForDrain polls
			emit(pipeTurnScenario(r, true, " settle pc drain:2 pc"))
		case 0:
			emit(genC43ResultsUnread(r))
		case 1:
			emit(genC43ReorderRelease(r))
		case 2:
			emit(genC43SplitRead(r))
		default:
			emit(genC43Holds(r))
		}
	}
}

func c43Blk(r *Rand, vw int, hold string) string {
	return fmt.Sprintf(" s:%s:0:%d:%d:%d:%s", pipeKind(r, vw), pipeLat(r), pipeLat(r), pipeLat(r), hold)
}

// blocks held at every kind of hold point while WaitForDrain polls; the holds are released
// only after two of WaitForDrain's polls have been observed (or it has returned)
func genC43Holds(r *Rand) string {
	dw := Pick(r, 1, 2, 4, 16, 1+r.Intn(16))
	vw := Pick(r, 0, 1, 2, 16, r.Intn(17))
	nb := 1 + r.Intn(12)
	var sb strings.Builder
	fmt.Fprintf(&sb, "pipe dw=%d vw=%d buf=64 |", dw, vw)
	rounds := 1 + r.Intn(2)
	for rd := 0; rd < rounds; rd++ {
		if r.Chance(1, 5) {
			sb.WriteString(" gate")
		}
		for b := 0; b < nb; b++ {
			hold := "-"
			if rd == 0 && r.Chance(1, 3) {
				holds := []string{"d", "a", "q", "f"}
				if vw > 0 {
					holds = append(holds, "v")
				}
				hold = Pick(r, holds...)
			}
			sb.WriteString(c43Blk(r, vw, hold))
		}
		if r.Chance(1, 2) {
			sb.WriteString(" settle pc")
		}
		sb.WriteString(" drain:2")
		if r.Chance(1, 2) {
			sb.WriteString(" pc")
		}
		nb = 1 + r.Intn(6)
	}
	return sb.String()
}

// validation enabled, Results() not read: the results channel fills, the apply goroutine
// blocks forwarding, validated blocks wait in validatedChan while WaitForDrain polls
func genC43ResultsUnread(r *Rand) string {
	// one worker per stage keeps the blocks in order, so that they really queue up in
	// validatedChan (with more workers the reorder buffer may swallow them in one batch)
	dw := Pick(r, 1, 1, 1, 2)
	vw := Pick(r, 1, 1, 1, 4)
	buf := Pick(r, 1, 1, 2, 3)
	var sb strings.Builder
	fmt.Fprintf(&sb, "pipe dw=%d vw=%d buf=%d | rpause", dw, vw, buf)
	// buf results fit in the channel, one more blocks the apply goroutine, up to buf more
	// wait in validatedChan (sometimes one beyond: it stays in a validate worker)
	nb := buf + 1 + 1 + r.Intn(buf)
	if r.Chance(1, 4) {
		nb++
	}
	for b := 0; b < nb; b++ {
		fmt.Fprintf(&sb, " s:g:0:0:0:0:-")
	}
	sb.WriteString(" settle pc drain:2 pc")
	return sb.String()
}

// a block waits in the reorder buffer, is released from it by its predecessor and is then held
// (right after the dequeue, or inside ApplyFunc) while WaitForDrain polls
func genC43ReorderRelease(r *Rand) string {
	dw := Pick(r, 2, 3, 8)
	vw := Pick(r, 0, 0, 1, 4)
	var sb strings.Builder
	fmt.Fprintf(&sb, "pipe dw=%d vw=%d buf=16 |", dw, vw)
	first := "d1"
	if vw > 0 && r.Bool() {
		first = "v1"
	}
	fmt.Fprintf(&sb, " s:g:0:0:0:0:%s", first)
	k := 1 + r.Intn(3)
	for b := 0; b < k; b++ {
		hold := "-"
		if b == 0 || r.Chance(1, 3) {
			hold = Pick(r, "q2", "f2")
		}
		fmt.Fprintf(&sb, " s:%s:0:0:0:0:%s", Pick(r, "g", "g", "g", "d"), hold)
	}
	sb.WriteString(" settle pc rel:1 settle pc drain:2 pc")
	return sb.String()
}

// a PendingCount call parked between its two reads while blocks are submitted and processed
func genC43SplitRead(r *Rand) string {
	dw := Pick(r, 1, 2, 4)
	vw := Pick(r, 0, 1)
	var sb strings.Builder
	fmt.Fprintf(&sb, "pipe dw=%d vw=%d buf=16 |", dw, vw)
	for k := r.Intn(3); k > 0; k-- {
		sb.WriteString(c43Blk(r, vw, "-"))
	}
	if r.Bool() {
		sb.WriteString(" settle")
	}
	sb.WriteString(" pcbg")
	for k := 1 + r.Intn(3); k > 0; k-- {
		sb.WriteString(c43Blk(r, vw, "-"))
	}
	if r.Bool() {
		sb.WriteString(" settle")
	}
	sb.WriteString(" pcgo pc drain:2")
	return sb.String()
}
