package main

// C15 — no call hangs and nothing leaks, whatever the peer does.
//
//   adv <call> <script>
//
// A real ouroboros.Connection (handshake included) is opened over net.Pipe to a
// raw scripted peer. One blocking API call is made; the peer reacts to the
// request under test according to <script>, then falls silent and disconnects.
//
//   call:   ltm.has ltm.next ltm.sizes ltm.acq lsq.acq lsq.query lts.submit      (node-to-client)
//           ps.get bf.get bf.range cs.sync cs.tip                                (node-to-node)
//           txs.ids txs.txs   tx-submission *server* calls RequestTxIds(blocking) / RequestTxs on a
//                             connection opened in server mode (the peer proposes the versions and
//                             sends Init; the script is the adversarial client's answer)
//           bf.getstop cs.syncstop   GetBlock / Sync answered correctly, then the script, then the
//                             protocol client's own Stop() is the blocking call under test
//   script: ok       the correct reply
//           silent   nothing (then disconnect)
//           close    disconnect at once
//           wrong    a well-formed reply of another kind (one the state machine admits, where there is one)
//           extra    the correct reply twice
//           garbage  bytes that are not CBOR
//           trunc    a segment header announcing 100 bytes followed by 10, then disconnect
//           unknown  a message of type 99
//           mid      the correct reply without its last message, then disconnect (block-fetch:
//                    disconnect exactly between Block and BatchDone)
//           flood    the correct reply followed by 400 surplus copies (fills the protocol's receive
//                    queue and the muxer's channel), then disconnect
//
// Output: ret=<ok|err|HANG> close=<ok|HANG> errchan=<closed|open> leak=<n>
//   ret:     what the blocking call did once the peer was gone (HANG = still blocked 2 s later)
//   close:   Connection.Close() returned
//   errchan: Connection.ErrorChan() was closed afterwards
//   leak:    library goroutines alive afterwards, beyond those alive before the op

import (
	"fmt"
	"net"
	"strings"
	"sync/atomic"
	"time"

	ouroboros "github.com/blinklabs-io/gouroboros"
	"github.com/blinklabs-io/gouroboros/cbor"
	"github.com/blinklabs-io/gouroboros/protocol"
	"github.com/blinklabs-io/gouroboros/protocol/blockfetch"
	"github.com/blinklabs-io/gouroboros/protocol/chainsync"
	pcommon "github.com/blinklabs-io/gouroboros/protocol/common"
	"github.com/blinklabs-io/gouroboros/protocol/handshake"
	"github.com/blinklabs-io/gouroboros/protocol/localstatequery"
	"github.com/blinklabs-io/gouroboros/protocol/localtxmonitor"
	"github.com/blinklabs-io/gouroboros/protocol/localtxsubmission"
	"github.com/blinklabs-io/gouroboros/protocol/peersharing"
	"github.com/blinklabs-io/gouroboros/protocol/txsubmission"
)

var c15Calls = []string{"ltm.has", "ltm.next", "ltm.sizes", "ltm.acq", "lsq.acq", "lsq.query", "lts.submit",
	"ps.get", "bf.get", "bf.range", "cs.sync", "cs.tip", "txs.ids", "txs.txs", "bf.getstop", "cs.syncstop"}
var c15Scripts = []string{"ok", "silent", "close", "wrong", "extra", "garbage", "trunc", "unknown", "mid", "flood"}

func init() {
	register(&Prop{ID: "C15", Gen: genC15, Run: runC15, Timeout: 60 * time.Second})
}

func genC15(r *Rand, n int, tier string, emit func(string)) {
	// the whole matrix first, then random cells (repetition samples schedules)
	for _, c := range c15Calls {
		for _, s := range c15Scripts {
			emit("adv " + c + " " + s)
		}
	}
	for i := len(c15Calls) * len(c15Scripts); i < n; i++ {
		emit("adv " + Pick(r, c15Calls...) + " " + Pick(r, c15Scripts...))
	}
}

type c15Spec struct {
	server  bool // the library side is the responder (tx-submission server calls)
	ntn     bool
	proto   uint16
	reqType uint64   // message type of the request under test
	ok      [][]byte // correct reply
	wrong   []byte
	// preReplies answers requests that precede the one under test (implicit acquire …)
	pre map[uint64][]byte
}

func c15SpecFor(call string, blocks []g5Block) (c15Spec, bool) {
	acquiredLtm := g5enc(localtxmonitor.NewMsgAcquired(7))
	acquiredLsq := g5enc(localstatequery.NewMsgAcquired())
	tip := chainsync.Tip{Point: pcommon.NewPoint(5, []byte{1, 2}), BlockNumber: 3}
	switch call {
	case "ltm.has":
		return c15Spec{false, false, localtxmonitor.ProtocolId, localtxmonitor.MessageTypeHasTx,
			[][]byte{g5enc(localtxmonitor.NewMsgReplyHasTx(true))},
			g5enc(localtxmonitor.NewMsgReplyNextTx(6, []byte{0x80})),
			map[uint64][]byte{localtxmonitor.MessageTypeAcquire: acquiredLtm}}, true
	case "ltm.next":
		return c15Spec{false, false, localtxmonitor.ProtocolId, localtxmonitor.MessageTypeNextTx,
			[][]byte{g5enc(localtxmonitor.NewMsgReplyNextTx(6, []byte{0x80}))},
			g5enc(localtxmonitor.NewMsgReplyGetSizes(1, 2, 3)),
			map[uint64][]byte{localtxmonitor.MessageTypeAcquire: acquiredLtm}}, true
	case "ltm.sizes":
		return c15Spec{false, false, localtxmonitor.ProtocolId, localtxmonitor.MessageTypeGetSizes,
			[][]byte{g5enc(localtxmonitor.NewMsgReplyGetSizes(1, 2, 3))},
			g5enc(localtxmonitor.NewMsgReplyHasTx(true)),
			map[uint64][]byte{localtxmonitor.MessageTypeAcquire: acquiredLtm}}, true
	case "ltm.acq":
		return c15Spec{false, false, localtxmonitor.ProtocolId, localtxmonitor.MessageTypeAcquire,
			[][]byte{acquiredLtm}, g5enc(localtxmonitor.NewMsgReplyHasTx(true)), nil}, true
	case "lsq.acq":
		return c15Spec{false, false, localstatequery.ProtocolId, localstatequery.MessageTypeAcquire,
			[][]byte{acquiredLsq}, g5enc(localstatequery.NewMsgResult(g5enc(uint64(1)))), nil}, true
	case "lsq.query":
		return c15Spec{false, false, localstatequery.ProtocolId, localstatequery.MessageTypeQuery,
			[][]byte{g5enc(localstatequery.NewMsgResult(g5enc(uint64(6))))}, acquiredLsq,
			map[uint64][]byte{localstatequery.MessageTypeAcquireVolatileTip: acquiredLsq}}, true
	case "lts.submit":
		return c15Spec{false, false, localtxsubmission.ProtocolId, localtxsubmission.MessageTypeSubmitTx,
			[][]byte{g5enc(localtxsubmission.NewMsgAcceptTx())}, g5enc(localtxsubmission.NewMsgDone()), nil}, true
	case "ps.get":
		return c15Spec{false, true, peersharing.ProtocolId, peersharing.MessageTypeShareRequest,
			[][]byte{g5enc(peersharing.NewMsgSharePeers([]peersharing.PeerAddress{{IP: net.IPv4(10, 0, 0, 1), Port: 3001}}))},
			g5enc(peersharing.NewMsgDone()), nil}, true
	case "bf.get", "bf.range":
		wb := blockfetch.WrappedBlock{Type: blocks[3].Type, RawBlock: blocks[3].Cbor}
		return c15Spec{false, true, blockfetch.ProtocolId, blockfetch.MessageTypeRequestRange,
			[][]byte{g5enc(blockfetch.NewMsgStartBatch()), g5enc(blockfetch.NewMsgBlock(g5enc(&wb))), g5enc(blockfetch.NewMsgBatchDone())},
			g5enc(blockfetch.NewMsgBatchDone()), nil}, true
	case "cs.sync":
		return c15Spec{false, true, chainsync.ProtocolIdNtN, chainsync.MessageTypeFindIntersect,
			[][]byte{g5enc(chainsync.NewMsgIntersectFound(pcommon.NewPointOrigin(), tip))},
			g5enc(chainsync.NewMsgRollBackward(pcommon.NewPointOrigin(), tip)), nil}, true
	case "bf.getstop":
		sp, _ := c15SpecFor("bf.get", blocks)
		return sp, true
	case "cs.syncstop":
		sp, _ := c15SpecFor("cs.sync", blocks)
		return sp, true
	case "txs.ids":
		return c15Spec{true, true, txsubmission.ProtocolId, txsubmission.MessageTypeRequestTxIds,
			[][]byte{g5enc(txsubmission.NewMsgReplyTxIds(c24Ids(1)))},
			g5enc(txsubmission.NewMsgReplyTxs(nil)), nil}, true
	case "txs.txs":
		return c15Spec{true, true, txsubmission.ProtocolId, txsubmission.MessageTypeRequestTxs,
			[][]byte{g5enc(txsubmission.NewMsgReplyTxs([]txsubmission.TxBody{{EraId: 6, TxBody: []byte{0x80}}}))},
			g5enc(txsubmission.NewMsgReplyTxIds(c24Ids(1))), nil}, true
	case "cs.tip":
		return c15Spec{false, true, chainsync.ProtocolIdNtN, chainsync.MessageTypeFindIntersect,
			[][]byte{g5enc(chainsync.NewMsgIntersectNotFound(tip))},
			g5enc(chainsync.NewMsgAwaitReply()), nil}, true
	}
	return c15Spec{}, false
}

func runC15(op string) string {
	f := strings.Fields(op)
	if len(f) != 3 || f[0] != "adv" {
		return "bad-op"
	}
	call, script := f[1], f[2]
	blocks, err := g5Blocks()
	if err != nil {
		return "fixtures:" + err.Error()
	}
	spec, ok := c15SpecFor(call, blocks)
	okScript := false
	for _, s := range c15Scripts {
		okScript = okScript || s == script
	}
	if !ok || !okScript {
		return "bad-op"
	}
	base, _ := g5LibGoroutines()
	a, b := net.Pipe()
	peer := newG5Peer(b)
	defer peer.close()
	// ids of the segments: the peer's messages carry the response flag unless the peer is the initiator
	fromLib, fromPeer := spec.proto, spec.proto|0x8000
	if spec.server {
		fromLib, fromPeer = spec.proto|0x8000, spec.proto
	}
	initCh := make(chan struct{}, 1)
	var opts []ouroboros.ConnectionOptionFunc
	if spec.server {
		// the peer is the initiator: it proposes the versions …
		vm := protocol.GetProtocolVersionMap(protocol.ProtocolModeNodeToNode, 764824073, false, false, false)
		go func() {
			_ = peer.send(0, g5enc(handshake.NewMsgProposeVersions(vm)))
			_, _ = peer.recv(0x8000, 10*time.Second)
			// … and opens tx-submission
			_ = peer.send(txsubmission.ProtocolId, g5enc([]any{uint64(txsubmission.MessageTypeInit)}))
		}()
		txCfg := txsubmission.NewConfig(txsubmission.WithInitFunc(func(txsubmission.CallbackContext) error {
			select {
			case initCh <- struct{}{}:
			default:
			}
			return nil
		}))
		opts = []ouroboros.ConnectionOptionFunc{ouroboros.WithServer(true), ouroboros.WithTxSubmissionConfig(txCfg)}
	} else {
		// handshake responder: accept the highest proposed version with the proposer's own data
		go func() {
			msg, err := peer.recv(0, 10*time.Second)
			if err != nil {
				return
			}
			var prop struct {
				cbor.StructAsArray
				Type     uint64
				Versions map[uint64]cbor.RawMessage
			}
			if _, err := cbor.Decode(msg, &prop); err != nil {
				return
			}
			var best uint64
			for v := range prop.Versions {
				if v > best {
					best = v
				}
			}
			_ = peer.send(0x8000, g5enc([]any{uint64(1), best, prop.Versions[best]}))
		}()
	}
	opts = append(opts,
		ouroboros.WithConnection(a),
		ouroboros.WithNetworkMagic(764824073),
		ouroboros.WithNodeToNode(spec.ntn),
		ouroboros.WithKeepAlive(false),
		ouroboros.WithPeerSharing(true),
	)
	conn, err := ouroboros.NewConnection(opts...)
	if err != nil {
		return "connect:" + strings.ReplaceAll(err.Error(), " ", "_")
	}
	if spec.server {
		select {
		case <-initCh:
		case <-time.After(10 * time.Second):
			return "no-init"
		}
	}
	point3 := pcommon.NewPoint(blocks[3].Slot, blocks[3].Hash)
	stopCall := call == "bf.getstop" || call == "cs.syncstop"
	firstCh := make(chan error, 1) // result of the preparatory call of the *stop calls
	resCh := make(chan error, 1)
	doCall := func() error {
		var err error
		switch call {
		case "ltm.has":
			_, err = conn.LocalTxMonitor().Client.HasTx([]byte{1, 2, 3})
		case "ltm.next":
			_, err = conn.LocalTxMonitor().Client.NextTx()
		case "ltm.sizes":
			_, _, _, err = conn.LocalTxMonitor().Client.GetSizes()
		case "ltm.acq":
			err = conn.LocalTxMonitor().Client.Acquire()
		case "lsq.acq":
			err = conn.LocalStateQuery().Client.Acquire(&pcommon.Point{Slot: 9, Hash: []byte{9}})
		case "lsq.query":
			_, err = conn.LocalStateQuery().Client.GetCurrentEra()
		case "lts.submit":
			err = conn.LocalTxSubmission().Client.SubmitTx(6, []byte{0x80})
		case "ps.get":
			_, err = conn.PeerSharing().Client.GetPeers(3)
		case "bf.get", "bf.getstop":
			_, err = conn.BlockFetch().Client.GetBlock(point3)
		case "bf.range":
			err = conn.BlockFetch().Client.GetBlockRange(point3, point3)
		case "cs.sync", "cs.syncstop":
			err = conn.ChainSync().Client.Sync([]pcommon.Point{pcommon.NewPointOrigin()})
		case "cs.tip":
			_, err = conn.ChainSync().Client.GetCurrentTip()
		case "txs.ids":
			_, err = conn.TxSubmission().Server.RequestTxIds(true, 3)
		case "txs.txs":
			ids := []txsubmission.TxId{{EraId: 6}}
			_, err = conn.TxSubmission().Server.RequestTxs(ids)
		}
		return err
	}
	go func() {
		if stopCall {
			firstCh <- doCall()
		} else {
			resCh <- doCall()
		}
	}()
	// serve the requests that precede the one under test, then apply the script
	deadline := time.Now().Add(10 * time.Second)
	gotReq := false
	for !gotReq && time.Now().Before(deadline) {
		msg, err := peer.recv(fromLib, 200*time.Millisecond)
		if err != nil {
			if err == errG5Timeout {
				continue
			}
			break
		}
		items := c24Items(msg)
		var mt uint64 = 999
		if len(items) > 0 {
			_, _ = cbor.Decode(items[0], &mt)
		}
		if mt == spec.reqType {
			gotReq = true
		} else if rep, ok := spec.pre[mt]; ok {
			_ = peer.send(fromPeer, rep)
		}
	}
	if !gotReq {
		return "norequest"
	}
	sendAll := func(ms [][]byte) {
		for _, m := range ms {
			if peer.send(fromPeer, m) != nil {
				return
			}
		}
	}
	if stopCall {
		// the preparatory call is answered correctly and must have returned before the script starts
		sendAll(spec.ok)
		select {
		case e := <-firstCh:
			if e != nil {
				return "prep-failed:" + strings.ReplaceAll(e.Error(), " ", "_")
			}
		case <-time.After(10 * time.Second):
			return "prep-hang"
		}
	}
	// the peer's writes must not block the harness when the library stops reading (flood)
	scriptDone := make(chan struct{})
	var floodSent atomic.Int64
	go func() {
		defer close(scriptDone)
		switch script {
		case "ok":
			if !stopCall {
				sendAll(spec.ok)
			}
		case "extra":
			if !stopCall {
				sendAll(spec.ok)
			}
			sendAll(spec.ok)
		case "flood":
			if !stopCall {
				sendAll(spec.ok)
			}
			last := spec.ok[len(spec.ok)-1]
			if len(spec.ok) > 1 {
				last = spec.ok[1] // block-fetch: surplus Block messages
			}
			for k := 0; k < 400; k++ {
				if peer.send(fromPeer, last) != nil {
					return
				}
				floodSent.Add(1)
			}
		case "mid":
			if !stopCall {
				sendAll(spec.ok[:len(spec.ok)-1])
			}
		case "wrong":
			sendAll([][]byte{spec.wrong})
		case "garbage":
			sendAll([][]byte{{0xff, 0xff, 0xff}})
		case "unknown":
			sendAll([][]byte{g5enc([]any{uint64(99)})})
		case "trunc":
			hdr := []byte{0, 0, 0, 0, byte(fromPeer >> 8), byte(fromPeer), 0, 100}
			_ = peer.sendRaw(append(hdr, make([]byte, 10)...))
		case "silent", "close":
		}
	}()
	if stopCall {
		// give the script a moment to arrive (flood: until the peer's writes stall), then Stop
		lastN, idle := int64(-1), 0
		for idle < 8 {
			select {
			case <-scriptDone:
				idle = 8
			case <-time.After(25 * time.Millisecond):
				if n := floodSent.Load(); n == lastN {
					idle++
				} else {
					lastN, idle = n, 0
				}
			}
		}
		go func() {
			if call == "bf.getstop" {
				resCh <- conn.BlockFetch().Client.Stop()
			} else {
				resCh <- conn.ChainSync().Client.Stop()
			}
		}()
	}
	if script == "flood" && !stopCall {
		// the surplus messages must have arrived (or the library must have stopped reading them)
		// before the peer disconnects: wait until the writer is done or makes no more progress
		lastN, idle := int64(-1), 0
		for idle < 8 {
			select {
			case <-scriptDone:
				idle = 8
			case <-time.After(25 * time.Millisecond):
				if n := floodSent.Load(); n == lastN {
					idle++
				} else {
					lastN, idle = n, 0
				}
			}
		}
	}
	var ret *error
	if script != "close" {
		// after a correct reply the call is expected to return by itself: give it time
		// (bounded) before the peer disconnects; otherwise a short silence is enough
		quiet := 60 * time.Millisecond
		if script == "ok" || script == "extra" || script == "flood" {
			quiet = 12 * time.Second
		}
		if stopCall {
			quiet = 1500 * time.Millisecond
		}
		select {
		case e := <-resCh:
			ret = &e
		case <-time.After(quiet):
		}
	}
	peer.close()
	if ret == nil {
		select {
		case e := <-resCh:
			ret = &e
		case <-time.After(8 * time.Second):
		}
	}
	retStr := "HANG"
	if ret != nil {
		retStr = "ok"
		if *ret != nil {
			retStr = "err"
		}
	}
	closeStr := "HANG"
	closed := make(chan struct{})
	go func() { _ = conn.Close(); close(closed) }()
	select {
	case <-closed:
		closeStr = "ok"
	case <-time.After(8 * time.Second):
	}
	ecStr := "open"
	ecDeadline := time.After(8 * time.Second)
drainErr:
	for {
		select {
		case _, ok := <-conn.ErrorChan():
			if !ok {
				ecStr = "closed"
				break drainErr
			}
		case <-ecDeadline:
			break drainErr
		}
	}
	n, _ := g5WaitLibGoroutines(base, 8*time.Second)
	leak := n - base
	if leak < 0 {
		leak = 0
	}
	return fmt.Sprintf("ret=%s close=%s errchan=%s leak=%d", retStr, closeStr, ecStr, leak)
}
