package main

// C15 — no call hangs and nothing leaks, whatever the peer does.
//
//   adv <call> <script>
//
// A real ouroboros.Connection (handshake included) is opened over net.Pipe to a
// raw scripted peer. One blocking API call is made; the peer reacts to the
// request under test according to <script>, then falls silent and disconnects.
//
//   call:   ltm.has ltm.next ltm.sizes ltm.acq lsq.acq lsq.query lts.submit      (node-to-client)
//           ps.get bf.get bf.range cs.sync cs.tip                                (node-to-node)
//   script: ok       the correct reply
//           silent   nothing (then disconnect)
//           close    disconnect at once
//           wrong    a well-formed reply of another kind (one the state machine admits, where there is one)
//           extra    the correct reply twice
//           garbage  bytes that are not CBOR
//           trunc    a segment header announcing 100 bytes followed by 10, then disconnect
//           unknown  a message of type 99
//
// Output: ret=<ok|err|HANG> close=<ok|HANG> errchan=<closed|open> leak=<n>
//   ret:     what the blocking call did once the peer was gone (HANG = still blocked 2 s later)
//   close:   Connection.Close() returned
//   errchan: Connection.ErrorChan() was closed afterwards
//   leak:    library goroutines alive afterwards, beyond those alive before the op

import (
	"fmt"
	"net"
	"strings"
	"time"

	ouroboros "github.com/blinklabs-io/gouroboros"
	"github.com/blinklabs-io/gouroboros/cbor"
	"github.com/blinklabs-io/gouroboros/protocol/blockfetch"
	"github.com/blinklabs-io/gouroboros/protocol/chainsync"
	pcommon "github.com/blinklabs-io/gouroboros/protocol/common"
	"github.com/blinklabs-io/gouroboros/protocol/localstatequery"
	"github.com/blinklabs-io/gouroboros/protocol/localtxmonitor"
	"github.com/blinklabs-io/gouroboros/protocol/localtxsubmission"
	"github.com/blinklabs-io/gouroboros/protocol/peersharing"
)

var c15Calls = []string{"ltm.has", "ltm.next", "ltm.sizes", "ltm.acq", "lsq.acq", "lsq.query", "lts.submit",
	"ps.get", "bf.get", "bf.range", "cs.sync", "cs.tip"}
var c15Scripts = []string{"ok", "silent", "close", "wrong", "extra", "garbage", "trunc", "unknown"}

func init() {
	register(&Prop{ID: "C15", Gen: genC15, Run: runC15, Timeout: 30 * time.Second})
}

func genC15(r *Rand, n int, tier string, emit func(string)) {
	// the whole matrix first, then random cells (repetition samples schedules)
	for _, c := range c15Calls {
		for _, s := range c15Scripts {
			emit("adv " + c + " " + s)
		}
	}
	for i := len(c15Calls) * len(c15Scripts); i < n; i++ {
		emit("adv " + Pick(r, c15Calls...) + " " + Pick(r, c15Scripts...))
	}
}

type c15Spec struct {
	ntn     bool
	proto   uint16
	reqType uint64   // message type of the request under test
	ok      [][]byte // correct reply
	wrong   []byte
	// preReplies answers requests that precede the one under test (implicit acquire …)
	pre map[uint64][]byte
}

func c15SpecFor(call string, blocks []g5Block) (c15Spec, bool) {
	acquiredLtm := g5enc(localtxmonitor.NewMsgAcquired(7))
	acquiredLsq := g5enc(localstatequery.NewMsgAcquired())
	tip := chainsync.Tip{Point: pcommon.NewPoint(5, []byte{1, 2}), BlockNumber: 3}
	switch call {
	case "ltm.has":
		return c15Spec{false, localtxmonitor.ProtocolId, localtxmonitor.MessageTypeHasTx,
			[][]byte{g5enc(localtxmonitor.NewMsgReplyHasTx(true))},
			g5enc(localtxmonitor.NewMsgReplyNextTx(6, []byte{0x80})),
			map[uint64][]byte{localtxmonitor.MessageTypeAcquire: acquiredLtm}}, true
	case "ltm.next":
		return c15Spec{false, localtxmonitor.ProtocolId, localtxmonitor.MessageTypeNextTx,
			[][]byte{g5enc(localtxmonitor.NewMsgReplyNextTx(6, []byte{0x80}))},
			g5enc(localtxmonitor.NewMsgReplyGetSizes(1, 2, 3)),
			map[uint64][]byte{localtxmonitor.MessageTypeAcquire: acquiredLtm}}, true
	case "ltm.sizes":
		return c15Spec{false, localtxmonitor.ProtocolId, localtxmonitor.MessageTypeGetSizes,
			[][]byte{g5enc(localtxmonitor.NewMsgReplyGetSizes(1, 2, 3))},
			g5enc(localtxmonitor.NewMsgReplyHasTx(true)),
			map[uint64][]byte{localtxmonitor.MessageTypeAcquire: acquiredLtm}}, true
	case "ltm.acq":
		return c15Spec{false, localtxmonitor.ProtocolId, localtxmonitor.MessageTypeAcquire,
			[][]byte{acquiredLtm}, g5enc(localtxmonitor.NewMsgReplyHasTx(true)), nil}, true
	case "lsq.acq":
		return c15Spec{false, localstatequery.ProtocolId, localstatequery.MessageTypeAcquire,
			[][]byte{acquiredLsq}, g5enc(localstatequery.NewMsgResult(g5enc(uint64(1)))), nil}, true
	case "lsq.query":
		return c15Spec{false, localstatequery.ProtocolId, localstatequery.MessageTypeQuery,
			[][]byte{g5enc(localstatequery.NewMsgResult(g5enc(uint64(6))))}, acquiredLsq,
			map[uint64][]byte{localstatequery.MessageTypeAcquireVolatileTip: acquiredLsq}}, true
	case "lts.submit":
		return c15Spec{false, localtxsubmission.ProtocolId, localtxsubmission.MessageTypeSubmitTx,
			[][]byte{g5enc(localtxsubmission.NewMsgAcceptTx())}, g5enc(localtxsubmission.NewMsgDone()), nil}, true
	case "ps.get":
		return c15Spec{true, peersharing.ProtocolId, peersharing.MessageTypeShareRequest,
			[][]byte{g5enc(peersharing.NewMsgSharePeers([]peersharing.PeerAddress{{IP: net.IPv4(10, 0, 0, 1), Port: 3001}}))},
			g5enc(peersharing.NewMsgDone()), nil}, true
	case "bf.get", "bf.range":
		wb := blockfetch.WrappedBlock{Type: blocks[3].Type, RawBlock: blocks[3].Cbor}
		return c15Spec{true, blockfetch.ProtocolId, blockfetch.MessageTypeRequestRange,
			[][]byte{g5enc(blockfetch.NewMsgStartBatch()), g5enc(blockfetch.NewMsgBlock(g5enc(&wb))), g5enc(blockfetch.NewMsgBatchDone())},
			g5enc(blockfetch.NewMsgBatchDone()), nil}, true
	case "cs.sync":
		return c15Spec{true, chainsync.ProtocolIdNtN, chainsync.MessageTypeFindIntersect,
			[][]byte{g5enc(chainsync.NewMsgIntersectFound(pcommon.NewPointOrigin(), tip))},
			g5enc(chainsync.NewMsgRollBackward(pcommon.NewPointOrigin(), tip)), nil}, true
	case "cs.tip":
		return c15Spec{true, chainsync.ProtocolIdNtN, chainsync.MessageTypeFindIntersect,
			[][]byte{g5enc(chainsync.NewMsgIntersectNotFound(tip))},
			g5enc(chainsync.NewMsgAwaitReply()), nil}, true
	}
	return c15Spec{}, false
}

func runC15(op string) string {
	f := strings.Fields(op)
	if len(f) != 3 || f[0] != "adv" {
		return "bad-op"
	}
	call, script := f[1], f[2]
	blocks, err := g5Blocks()
	if err != nil {
		return "fixtures:" + err.Error()
	}
	spec, ok := c15SpecFor(call, blocks)
	okScript := false
	for _, s := range c15Scripts {
		okScript = okScript || s == script
	}
	if !ok || !okScript {
		return "bad-op"
	}
	base, _ := g5LibGoroutines()
	a, b := net.Pipe()
	peer := newG5Peer(b)
	defer peer.close()
	// handshake responder: accept the highest proposed version with the proposer's own data
	go func() {
		msg, err := peer.recv(0, 5*time.Second)
		if err != nil {
			return
		}
		var prop struct {
			cbor.StructAsArray
			Type     uint64
			Versions map[uint64]cbor.RawMessage
		}
		if _, err := cbor.Decode(msg, &prop); err != nil {
			return
		}
		var best uint64
		for v := range prop.Versions {
			if v > best {
				best = v
			}
		}
		_ = peer.send(0x8000, g5enc([]any{uint64(1), best, prop.Versions[best]}))
	}()
	conn, err := ouroboros.NewConnection(
		ouroboros.WithConnection(a),
		ouroboros.WithNetworkMagic(764824073),
		ouroboros.WithNodeToNode(spec.ntn),
		ouroboros.WithKeepAlive(false),
		ouroboros.WithPeerSharing(true),
	)
	if err != nil {
		return "connect:" + strings.ReplaceAll(err.Error(), " ", "_")
	}
	resCh := make(chan error, 1)
	go func() {
		var err error
		switch call {
		case "ltm.has":
			_, err = conn.LocalTxMonitor().Client.HasTx([]byte{1, 2, 3})
		case "ltm.next":
			_, err = conn.LocalTxMonitor().Client.NextTx()
		case "ltm.sizes":
			_, _, _, err = conn.LocalTxMonitor().Client.GetSizes()
		case "ltm.acq":
			err = conn.LocalTxMonitor().Client.Acquire()
		case "lsq.acq":
			err = conn.LocalStateQuery().Client.Acquire(&pcommon.Point{Slot: 9, Hash: []byte{9}})
		case "lsq.query":
			_, err = conn.LocalStateQuery().Client.GetCurrentEra()
		case "lts.submit":
			err = conn.LocalTxSubmission().Client.SubmitTx(6, []byte{0x80})
		case "ps.get":
			_, err = conn.PeerSharing().Client.GetPeers(3)
		case "bf.get":
			_, err = conn.BlockFetch().Client.GetBlock(pcommon.NewPoint(blocks[3].Slot, blocks[3].Hash))
		case "bf.range":
			err = conn.BlockFetch().Client.GetBlockRange(pcommon.NewPoint(blocks[3].Slot, blocks[3].Hash), pcommon.NewPoint(blocks[3].Slot, blocks[3].Hash))
		case "cs.sync":
			err = conn.ChainSync().Client.Sync([]pcommon.Point{pcommon.NewPointOrigin()})
		case "cs.tip":
			_, err = conn.ChainSync().Client.GetCurrentTip()
		}
		resCh <- err
	}()
	respId := spec.proto | 0x8000
	// serve the requests that precede the one under test, then apply the script
	deadline := time.Now().Add(5 * time.Second)
	gotReq := false
	for !gotReq && time.Now().Before(deadline) {
		msg, err := peer.recv(spec.proto, 100*time.Millisecond)
		if err != nil {
			if err == errG5Timeout {
				continue
			}
			break
		}
		items := c24Items(msg)
		var mt uint64 = 999
		if len(items) > 0 {
			_, _ = cbor.Decode(items[0], &mt)
		}
		if mt == spec.reqType {
			gotReq = true
		} else if rep, ok := spec.pre[mt]; ok {
			_ = peer.send(respId, rep)
		}
	}
	if !gotReq {
		return "norequest"
	}
	switch script {
	case "ok":
		for _, m := range spec.ok {
			_ = peer.send(respId, m)
		}
	case "extra":
		for k := 0; k < 2; k++ {
			for _, m := range spec.ok {
				_ = peer.send(respId, m)
			}
		}
	case "wrong":
		_ = peer.send(respId, spec.wrong)
	case "garbage":
		_ = peer.send(respId, []byte{0xff, 0xff, 0xff})
	case "unknown":
		_ = peer.send(respId, g5enc([]any{uint64(99)}))
	case "trunc":
		hdr := []byte{0, 0, 0, 0, byte(respId >> 8), byte(respId), 0, 100}
		_ = peer.sendRaw(append(hdr, make([]byte, 10)...))
	case "silent", "close":
	}
	var ret *error
	if script != "close" {
		// after a correct reply the call is expected to return by itself: give it time
		// (bounded) before the peer disconnects; otherwise a short silence is enough
		quiet := 60 * time.Millisecond
		if script == "ok" || script == "extra" {
			quiet = 3 * time.Second
		}
		select {
		case e := <-resCh:
			ret = &e
		case <-time.After(quiet):
		}
	}
	peer.close()
	if ret == nil {
		select {
		case e := <-resCh:
			ret = &e
		case <-time.After(2 * time.Second):
		}
	}
	retStr := "HANG"
	if ret != nil {
		retStr = "ok"
		if *ret != nil {
			retStr = "err"
		}
	}
	closeStr := "HANG"
	closed := make(chan struct{})
	go func() { _ = conn.Close(); close(closed) }()
	select {
	case <-closed:
		closeStr = "ok"
	case <-time.After(3 * time.Second):
	}
	ecStr := "open"
	ecDeadline := time.After(2 * time.Second)
drainErr:
	for {
		select {
		case _, ok := <-conn.ErrorChan():
			if !ok {
				ecStr = "closed"
				break drainErr
			}
		case <-ecDeadline:
			break drainErr
		}
	}
	n, _ := g5WaitLibGoroutines(base, 1500*time.Millisecond)
	leak := n - base
	if leak < 0 {
		leak = 0
	}
	return fmt.Sprintf("ret=%s close=%s errchan=%s leak=%d", retStr, closeStr, ecStr, leak)
}
