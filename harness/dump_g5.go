package main

// Tables read out of the running code for the chain-sync properties (C21, C22).

import (
	"bufio"
	"fmt"
	"sort"

	"github.com/blinklabs-io/gouroboros/ledger"
	"github.com/blinklabs-io/gouroboros/protocol/chainsync"
)

func init() {
	registerDump("ChainSyncEraMaps", func(w *bufio.Writer) {
		fmt.Fprintln(w, "namespace GV.Gen.ChainSyncEraMaps")
		pairs := func(name, doc string, m map[uint]uint) {
			keys := []int{}
			for k := range m {
				keys = append(keys, int(k))
			}
			sort.Ints(keys)
			fmt.Fprintf(w, "/-- %s -/\ndef %s : List (Nat × Nat) := [", doc, name)
			for i, k := range keys {
				if i > 0 {
					fmt.Fprint(w, ", ")
				}
				fmt.Fprintf(w, "(%d, %d)", k, m[uint(k)])
			}
			fmt.Fprintln(w, "]")
		}
		pairs("blockToHeader", "ledger.BlockToBlockHeaderTypeMap (NtC block type -> NtN header era)", ledger.BlockToBlockHeaderTypeMap)
		pairs("headerToBlock", "ledger.BlockHeaderToBlockTypeMap (NtN header era -> NtC block type)", ledger.BlockHeaderToBlockTypeMap)
		fmt.Fprintf(w, "/-- block types of the Shelley-or-later eras: ledger.BlockTypeShelley .. BlockTypeDijkstra -/\n")
		fmt.Fprintf(w, "def shelleyOrLaterBlockTypes : List Nat := [%d, %d, %d, %d, %d, %d, %d]\n",
			ledger.BlockTypeShelley, ledger.BlockTypeAllegra, ledger.BlockTypeMary, ledger.BlockTypeAlonzo,
			ledger.BlockTypeBabbage, ledger.BlockTypeConway, ledger.BlockTypeDijkstra)
		fmt.Fprintf(w, "def byronBlockTypes : List Nat := [%d, %d]\n", ledger.BlockTypeByronEbb, ledger.BlockTypeByronMain)
		fmt.Fprintf(w, "def headerTypeByron : Nat := %d\n", ledger.BlockHeaderTypeByron)
		fmt.Fprintf(w, "def msgRollForward : Nat := %d -- chainsync.MessageTypeRollForward\n", chainsync.MessageTypeRollForward)
		fmt.Fprintf(w, "def defaultPipelineLimit : Nat := %d -- chainsync.DefaultPipelineLimit\n", chainsync.DefaultPipelineLimit)
		fmt.Fprintln(w, "end GV.Gen.ChainSyncEraMaps")
	})
}
