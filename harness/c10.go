package main

// C10 — messages survive segmentation and reassembly unchanged.
//
//	st <c|s> <planAB> <planBA> <pseed> <T.seed[w]>*        one endpoint streams messages
//	rr <depth> <planAB> <planBA> <pseed> <T.seed/T.seed>*  pipelined request/response
//	bk <planAB> <planBA> <pseed> <L.seed>*                 real block-fetch batch (MsgBlock contents)
//
// Two real protocol.Protocol endpoints (custom state map, raw CBOR messages of exact sizes)
// over two real muxers over a connection that fragments reads by the plans and records writes.
// Output: recv=[len.fnv,...] [recv2=[...]] err=<class> segs=<payload lengths> [segs2=<...>]

import (
	"fmt"
	"runtime"
	"strconv"
	"strings"
	"sync"
	"time"

	"github.com/blinklabs-io/gouroboros/protocol"
	"github.com/blinklabs-io/gouroboros/protocol/blockfetch"
	pcommon "github.com/blinklabs-io/gouroboros/protocol/common"
)

func init() {
	register(&Prop{ID: "C10", Gen: genC10, Run: runC10, Timeout: 60 * time.Second})
}

var (
	g4StIdle = protocol.NewState(1, "Idle")
	g4StBusy = protocol.NewState(2, "Busy")
)

type c10Msg struct {
	raw  []byte
	wait bool
}

func parseC10Msg(s string, typ byte) (c10Msg, bool) {
	m := c10Msg{}
	if strings.HasSuffix(s, "w") {
		m.wait = true
		s = s[:len(s)-1]
	}
	p := strings.Split(s, ".")
	if len(p) != 2 {
		return m, false
	}
	t, e1 := strconv.Atoi(p[0])
	sd, e2 := strconv.ParseUint(p[1], 10, 64)
	if e1 != nil || e2 != nil || t > 64<<20 {
		return m, false
	}
	raw, ok := g4MkMsg(t, sd, typ)
	m.raw = raw
	return m, ok
}

func runC10(op string) string {
	f := strings.Fields(op)
	if len(f) < 4 {
		return "bad-op"
	}
	if f[0] == "bk" {
		return runC10Blocks(f)
	}
	if len(f) < 5 {
		return "bad-op"
	}
	planAB, ok1 := parseNatListG4(f[2])
	planBA, ok2 := parseNatListG4(f[3])
	pseed, e := strconv.ParseUint(f[4], 10, 64)
	if !ok1 || !ok2 || e != nil {
		return "bad-op"
	}
	connC, connS := g4Pair(planAB, planBA, true, true)
	connC.out.sink, connS.out.sink = true, true
	connC.perturb = NewRand(pseed ^ 0xa5a5)
	connS.perturb = NewRand(pseed ^ 0x5a5a)
	switch f[0] {
	case "st":
		// upper case: the sender's connection accepts no write until the sender has queued
		// (almost) everything, so many segments wait in the muxer while later batches are built
		hold := f[1] == "C" || f[1] == "S"
		dir := strings.ToLower(f[1])
		if dir != "c" && dir != "s" {
			return "bad-op"
		}
		msgs := []c10Msg{}
		for _, s := range f[5:] {
			m, ok := parseC10Msg(s, 0)
			if !ok {
				return "bad-op"
			}
			msgs = append(msgs, m)
		}
		agency := protocol.AgencyClient
		if dir == "s" {
			agency = protocol.AgencyServer
		}
		sm := protocol.StateMap{
			g4StIdle: protocol.StateMapEntry{
				Agency:      agency,
				Transitions: []protocol.StateTransition{{MsgType: 0, NewState: g4StIdle}},
			},
		}
		recv := &fpList{}
		done := make(chan struct{})
		var once sync.Once
		n := len(msgs)
		handler := func(m protocol.Message) error {
			if recv.add(fpBytes(m.Cbor())) == n {
				once.Do(func() { close(done) })
			}
			return nil
		}
		noHandler := func(m protocol.Message) error { return fmt.Errorf("unexpected message at sender") }
		var client, server *g4Endpoint
		if dir == "c" {
			client = newG4Endpoint(connC, protocol.ProtocolRoleClient, sm, g4StIdle, noHandler, "g4c")
			server = newG4Endpoint(connS, protocol.ProtocolRoleServer, sm, g4StIdle, handler, "g4s")
		} else {
			client = newG4Endpoint(connC, protocol.ProtocolRoleClient, sm, g4StIdle, handler, "g4c")
			server = newG4Endpoint(connS, protocol.ProtocolRoleServer, sm, g4StIdle, noHandler, "g4s")
		}
		sender := client
		if dir == "s" {
			sender = server
		}
		var release func()
		queued := make(chan struct{}, 1)
		if hold && n > 0 {
			hc := make(chan struct{})
			sender.conn.holdCh = hc
			var ronce sync.Once
			release = func() { ronce.Do(func() { close(hc) }) }
			defer release()
		}
		client.start()
		server.start()
		if n == 0 {
			once.Do(func() { close(done) })
		}
		sendErr := make(chan error, 1)
		go func() {
			r := NewRand(pseed)
			burst := 0
			threshold := n
			if threshold > 60 {
				threshold = 60 // the send queue holds 80: this many can always be queued without a write
			}
			for i, m := range msgs {
				if i == threshold {
					select {
					case queued <- struct{}{}:
					default:
					}
				}
				if hold && m.wait && i < threshold {
					m.wait = false // waiting for delivery while writes are held would block the queueing
				}
				if burst == 0 {
					for k := r.Intn(4); k > 0; k-- {
						runtime.Gosched()
					}
					burst = r.Intn(30)
				} else {
					burst--
				}
				var err error
				if m.wait {
					err = sender.proto.SendMessageAndWait(g4RawMsg(0, m.raw))
				} else {
					err = sender.proto.SendMessage(g4RawMsg(0, m.raw))
				}
				if err != nil {
					sendErr <- err
					return
				}
			}
			select {
			case queued <- struct{}{}:
			default:
			}
		}()
		var err error
		if release != nil {
			// event synchronisation: let the connection accept writes once the sender has queued
			// `threshold` messages (or failed)
			select {
			case <-queued:
			case err = <-client.errCh:
			case err = <-server.errCh:
			case err = <-sendErr:
			}
			release()
		}
		stalled := false
		if err == nil {
			// Stall detection by events, not by the per-op deadline: once every byte of every
			// message has been written by the sender and read by the receiving muxer, the
			// receiving protocol only has a few buffered segments left to decode. If the handler
			// still has not seen all messages a generous while after that, it never will.
			total := 0
			for _, m := range msgs {
				total += len(m.raw)
			}
			receiver := server
			if dir == "s" {
				receiver = client
			}
			stall := make(chan struct{})
			go func() {
				sender.conn.waitPayloadBytes(total)
				receiver.conn.in.waitReaderIdle()
				select {
				case <-done:
				case <-time.After(30 * time.Second):
					close(stall)
				}
			}()
			select {
			case <-done:
			case <-stall:
				stalled = true
			case err = <-client.errCh:
			case err = <-server.errCh:
			case err = <-sendErr:
			}
		}
		client.stop()
		server.stop()
		ec := g4ErrClass(err)
		if stalled {
			ec = "stalled"
		}
		return fmt.Sprintf("recv=%s err=%s segs=%s", recv.String(), ec, sender.segLens())
	case "rr":
		depth, e := strconv.Atoi(f[1])
		if e != nil || depth < 1 {
			return "bad-op"
		}
		type pair struct{ req, resp c10Msg }
		pairs := []pair{}
		for _, s := range f[5:] {
			p := strings.Split(s, "/")
			if len(p) != 2 {
				return "bad-op"
			}
			a, ok1 := parseC10Msg(p[0], 0)
			b, ok2 := parseC10Msg(p[1], 1)
			if !ok1 || !ok2 {
				return "bad-op"
			}
			pairs = append(pairs, pair{a, b})
		}
		sm := protocol.StateMap{
			g4StIdle: protocol.StateMapEntry{
				Agency:      protocol.AgencyClient,
				Transitions: []protocol.StateTransition{{MsgType: 0, NewState: g4StBusy}},
			},
			g4StBusy: protocol.StateMapEntry{
				Agency:      protocol.AgencyServer,
				Transitions: []protocol.StateTransition{{MsgType: 1, NewState: g4StIdle}},
			},
		}
		n := len(pairs)
		recvReq := &fpList{}
		recvResp := &fpList{}
		done := make(chan struct{})
		var once sync.Once
		tokens := make(chan struct{}, depth)
		var server *g4Endpoint
		srvHandler := func(m protocol.Message) error {
			i := recvReq.add(fpBytes(m.Cbor()))
			if i > n {
				return fmt.Errorf("surplus request")
			}
			return server.proto.SendMessage(g4RawMsg(1, pairs[i-1].resp.raw))
		}
		cliHandler := func(m protocol.Message) error {
			k := recvResp.add(fpBytes(m.Cbor()))
			select {
			case <-tokens:
			default:
			}
			if k == n {
				once.Do(func() { close(done) })
			}
			return nil
		}
		client := newG4Endpoint(connC, protocol.ProtocolRoleClient, sm, g4StIdle, cliHandler, "g4c")
		server = newG4Endpoint(connS, protocol.ProtocolRoleServer, sm, g4StIdle, srvHandler, "g4s")
		client.start()
		server.start()
		if n == 0 {
			once.Do(func() { close(done) })
		}
		sendErr := make(chan error, 1)
		stop := make(chan struct{})
		go func() {
			r := NewRand(pseed)
			for _, p := range pairs {
				select {
				case tokens <- struct{}{}:
				case <-stop:
					return
				}
				for k := r.Intn(3); k > 0; k-- {
					runtime.Gosched()
				}
				if err := client.proto.SendMessage(g4RawMsg(0, p.req.raw)); err != nil {
					sendErr <- err
					return
				}
			}
		}()
		var err error
		select {
		case <-done:
		case err = <-client.errCh:
		case err = <-server.errCh:
		case err = <-sendErr:
		}
		close(stop)
		client.stop()
		server.stop()
		return fmt.Sprintf("recv=%s recv2=%s err=%s segs=%s segs2=%s", recvReq.String(), recvResp.String(),
			g4ErrClass(err), client.segLens(), server.segLens())
	}
	return "bad-op"
}

// runC10Blocks: real block-fetch messages (real MarshalCBOR / NewMsgFromCbor / state map).
//
//	bk <planAB> <planBA> <pseed> <L.seed>*   one batch of blocks with the given contents

func runC10Blocks(f []string) string {
	planAB, ok1 := parseNatListG4(f[1])
	planBA, ok2 := parseNatListG4(f[2])
	pseed, e := strconv.ParseUint(f[3], 10, 64)
	if !ok1 || !ok2 || e != nil {
		return "bad-op"
	}
	contents := [][]byte{}
	for _, s := range f[4:] {
		p := strings.Split(s, ".")
		if len(p) != 2 {
			return "bad-op"
		}
		l, e1 := strconv.Atoi(p[0])
		sd, e2 := strconv.ParseUint(p[1], 10, 64)
		if e1 != nil || e2 != nil || l < 0 || l > 16<<20 {
			return "bad-op"
		}
		contents = append(contents, genBytesG4(l, sd))
	}
	connC, connS := g4Pair(planAB, planBA, true, true)
	connC.out.sink, connS.out.sink = true, true
	connC.perturb = NewRand(pseed ^ 0xa5a5)
	connS.perturb = NewRand(pseed ^ 0x5a5a)
	sm := zeroLimits(blockfetch.StateMap)
	recv := &fpList{}
	blocks := &fpList{}
	done := make(chan struct{})
	var once sync.Once
	var server *g4Endpoint
	cliHandler := func(m protocol.Message) error {
		recv.add(fpBytes(m.Cbor()))
		switch mm := m.(type) {
		case *blockfetch.MsgBlock:
			blocks.add(fpBytes(mm.WrappedBlock))
		case *blockfetch.MsgBatchDone:
			once.Do(func() { close(done) })
		}
		return nil
	}
	srvHandler := func(m protocol.Message) error {
		if _, ok := m.(*blockfetch.MsgRequestRange); !ok {
			return fmt.Errorf("unexpected message at server")
		}
		go func() {
			r := NewRand(pseed)
			if err := server.proto.SendMessage(blockfetch.NewMsgStartBatch()); err != nil {
				return
			}
			for _, c := range contents {
				for k := r.Intn(3); k > 0; k-- {
					runtime.Gosched()
				}
				if err := server.proto.SendMessage(blockfetch.NewMsgBlock(c)); err != nil {
					return
				}
			}
			_ = server.proto.SendMessage(blockfetch.NewMsgBatchDone())
		}()
		return nil
	}
	client := newG4EndpointF(connC, protocol.ProtocolRoleClient, sm, blockfetch.StateIdle, cliHandler, "bfc", 0, blockfetch.NewMsgFromCbor)
	server = newG4EndpointF(connS, protocol.ProtocolRoleServer, sm, blockfetch.StateIdle, srvHandler, "bfs", 0, blockfetch.NewMsgFromCbor)
	client.start()
	server.start()
	var err error
	if e := client.proto.SendMessage(blockfetch.NewMsgRequestRange(pcommon.NewPointOrigin(), pcommon.NewPointOrigin())); e != nil {
		err = e
	} else {
		select {
		case <-done:
		case err = <-client.errCh:
		case err = <-server.errCh:
		}
	}
	client.stop()
	server.stop()
	return fmt.Sprintf("recv=%s blocks=%s err=%s segs=%s", recv.String(), blocks.String(), g4ErrClass(err), server.segLens())
}

// ---------------------------------------------------------------- generator

func c10Size(r *Rand, tier string, allowHuge bool) int {
	switch r.Intn(16) {
	case 0:
		return 2
	case 1:
		return 3 + r.Intn(30)
	case 2:
		// around a multiple of the segment payload size
		k := 1 + r.Intn(3)
		return 65535*k + Pick(r, -9, -8, -7, -1, 0, 1, 2, 7, 8, 9)
	case 3:
		return Pick(r, 26, 27, 28, 259, 260, 261, 65540, 65541, 65542, 65543)
	case 4:
		return 65535 - r.Intn(40)
	case 5:
		if allowHuge {
			if tier == "thorough" {
				return 65536 + r.Intn(6<<20)
			}
			return 65536 + r.Intn(3<<19)
		}
		return 65536 + r.Intn(200000)
	case 6:
		return 1000 + r.Intn(70000)
	case 7, 8:
		return 3000 + r.Intn(4000) // ~ 10-20 messages per segment
	default:
		return 2 + r.Intn(400)
	}
}

func genC10(r *Rand, n int, tier string, emit func(string)) {
	for i := 0; i < n; i++ {
		planAB, planBA := c09Plan(r), c09Plan(r)
		huge := r.Chance(1, 20) && tier != "race"
		if huge {
			// multi-MiB messages: keep the read fragmentation coarse enough to stay fast
			planAB = Pick(r, "-", "1000,7", "65543", "4096", "8,65535")
			planBA = planAB
		}
		if r.Chance(1, 6) {
			nb := Pick(r, 1, 2, 3, 6, 12, 30)
			if huge {
				nb = Pick(r, 1, 2)
			}
			parts := []string{}
			for k := 0; k < nb; k++ {
				l := c10Size(r, tier, huge) - Pick(r, 0, 5, 6, 7, 8, 9)
				if l < 0 {
					l = 0
				}
				parts = append(parts, fmt.Sprintf("%d.%d", l, r.Intn(1000)))
			}
			emit(fmt.Sprintf("bk %s %s %d %s", planAB, planBA, r.Intn(1<<30), strings.Join(parts, " ")))
			continue
		}
		if r.Chance(1, 5) {
			// targeted batching patterns; a tiny first message lets the rest gather in the send
			// queue so that they are batched together
			parts := []string{fmt.Sprintf("%d.%d", 2+r.Intn(5), r.Intn(1000))}
			reps := 1 + r.Intn(4)
			for k := 0; k < reps; k++ {
				switch r.Intn(3) {
				case 0:
					// a complete small message followed in the same segment by the START of a
					// message that later segments complete, then another small one (leftover path)
					parts = append(parts,
						fmt.Sprintf("%d.%d", 2+r.Intn(3000), r.Intn(1000)),
						fmt.Sprintf("%d.%d", 65536+r.Intn(140000), r.Intn(1000)),
						fmt.Sprintf("%d.%d", 2+r.Intn(300), r.Intn(1000)))
				case 1:
					// a batch whose total is an exact multiple of the segment size
					k65 := 65535 * (1 + r.Intn(3))
					x := 2 + r.Intn(65000)
					parts = append(parts, fmt.Sprintf("%d.%d", x, r.Intn(1000)), fmt.Sprintf("%d.%d", k65-x, r.Intn(1000)))
				default:
					// the need-more state entered with a few bytes only (header cut)
					x := 65535 - Pick(r, 1, 2, 3, 4, 5, 6, 7)
					parts = append(parts, fmt.Sprintf("%d.%d", x, r.Intn(1000)), fmt.Sprintf("%d.%d", 70000+r.Intn(1000), r.Intn(1000)))
				}
			}
			emit(fmt.Sprintf("st %s %s %s %d %s", Pick(r, "c", "s", "C", "S"), planAB, planBA, r.Intn(1<<30), strings.Join(parts, " ")))
			continue
		}
		if r.Chance(3, 5) {
			nm := Pick(r, 1, 2, 3, 5, 10, 25, 45, 60, 90)
			if huge {
				nm = Pick(r, 1, 2, 4)
			}
			small := r.Chance(1, 4) // many tiny messages: exercises the 20-per-segment limit
			parts := []string{}
			for k := 0; k < nm; k++ {
				t := c10Size(r, tier, huge)
				if small {
					t = 2 + r.Intn(60)
				}
				s := fmt.Sprintf("%d.%d", t, r.Intn(1000))
				if r.Chance(1, 25) {
					s += "w"
				}
				parts = append(parts, s)
			}
			emit(fmt.Sprintf("st %s %s %s %d %s", Pick(r, "c", "s", "c", "s", "C", "S"), planAB, planBA, r.Intn(1<<30), strings.Join(parts, " ")))
		} else {
			nm := Pick(r, 1, 2, 3, 5, 10, 20, 40)
			if huge {
				nm = Pick(r, 1, 2, 3)
			}
			depth := Pick(r, 1, 1, 2, 3, 5, 10, 50)
			parts := []string{}
			for k := 0; k < nm; k++ {
				a := c10Size(r, tier, false)
				if r.Chance(2, 3) {
					a = 2 + r.Intn(100)
				}
				parts = append(parts, fmt.Sprintf("%d.%d/%d.%d", a, r.Intn(1000), c10Size(r, tier, huge), r.Intn(1000)))
			}
			emit(fmt.Sprintf("rr %d %s %s %d %s", depth, planAB, planBA, r.Intn(1<<30), strings.Join(parts, " ")))
		}
	}
}
