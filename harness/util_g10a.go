package main

// util_g10a.go — a CBOR tree with explicit encoding choices (width of every
// head argument, definite/indefinite containers), used by the C02/C03/C04
// generators: parse real encodings, re-encode them in every admissible header
// form, mutate them. Mirrors lean/GV/Lib/CborTree.lean (`Cbor`, `enc`).

import (
	"encoding/binary"
	"errors"
)

const (
	cW0 = 0
	cW1 = 1
	cW2 = 2
	cW4 = 4
	cW8 = 8
	// cWI marks an indefinite-length string/array/map
	cWI = -1
)

// cnode is one data item. major 0..7; w = width of the argument (or cWI);
// n = argument (value, tag number, simple/float bits); b = string payload;
// kids = array items, flattened map items, tag content (1), string chunks (cWI)
type cnode struct {
	major int
	w     int
	n     uint64
	b     []byte
	kids  []*cnode
}

func cU(n uint64) *cnode    { return &cnode{major: 0, w: minW(n), n: n} }
func cNeg(n uint64) *cnode  { return &cnode{major: 1, w: minW(n), n: n} } // -1-n
func cB(b []byte) *cnode    { return &cnode{major: 2, w: minW(uint64(len(b))), b: b} }
func cT(s string) *cnode    { return &cnode{major: 3, w: minW(uint64(len(s))), b: []byte(s)} }
func cA(k ...*cnode) *cnode { return &cnode{major: 4, w: minW(uint64(len(k))), kids: k} }
func cM(k ...*cnode) *cnode { return &cnode{major: 5, w: minW(uint64(len(k) / 2)), kids: k} }
func cTag(n uint64, k *cnode) *cnode {
	return &cnode{major: 6, w: minW(n), n: n, kids: []*cnode{k}}
}
func cSimple(n uint64) *cnode { return &cnode{major: 7, w: cW0, n: n} }
func cNull() *cnode           { return cSimple(22) }
func cBool(v bool) *cnode {
	if v {
		return cSimple(21)
	}
	return cSimple(20)
}
func cHash(n int, seed byte) *cnode {
	b := make([]byte, n)
	for i := range b {
		b[i] = seed + byte(i)
	}
	return cB(b)
}

func minW(n uint64) int {
	switch {
	case n < 24:
		return cW0
	case n < 1<<8:
		return cW1
	case n < 1<<16:
		return cW2
	case n < 1<<32:
		return cW4
	}
	return cW8
}

func fitsW(w int, n uint64) bool {
	switch w {
	case cW0:
		return n < 24
	case cW1:
		return n < 1<<8
	case cW2:
		return n < 1<<16
	case cW4:
		return n < 1<<32
	}
	return true
}

func appendHead(out []byte, major int, w int, n uint64) []byte {
	m := byte(major << 5)
	switch w {
	case cW0:
		return append(out, m|byte(n))
	case cW1:
		return append(out, m|24, byte(n))
	case cW2:
		return binary.BigEndian.AppendUint16(append(out, m|25), uint16(n))
	case cW4:
		return binary.BigEndian.AppendUint32(append(out, m|26), uint32(n))
	case cW8:
		return binary.BigEndian.AppendUint64(append(out, m|27), n)
	}
	return append(out, m|31)
}

func (c *cnode) arg() uint64 {
	switch c.major {
	case 2, 3:
		return uint64(len(c.b))
	case 4:
		return uint64(len(c.kids))
	case 5:
		return uint64(len(c.kids) / 2)
	}
	return c.n
}

func (c *cnode) enc(out []byte) []byte {
	out = appendHead(out, c.major, c.w, c.arg())
	switch c.major {
	case 2, 3:
		if c.w == cWI {
			for _, k := range c.kids {
				out = k.enc(out)
			}
			return append(out, 0xff)
		}
		return append(out, c.b...)
	case 4, 5:
		for _, k := range c.kids {
			out = k.enc(out)
		}
		if c.w == cWI {
			out = append(out, 0xff)
		}
	case 6:
		out = c.kids[0].enc(out)
	}
	return out
}

func (c *cnode) bytes() []byte { return c.enc(nil) }

func (c *cnode) clone() *cnode {
	d := *c
	d.b = append([]byte(nil), c.b...)
	d.kids = make([]*cnode, len(c.kids))
	for i, k := range c.kids {
		d.kids[i] = k.clone()
	}
	return &d
}

var errCParse = errors.New("cbor tree parse")

// cparse parses one well-formed item (no limits on depth beyond maxDepth 300).
func cparse(b []byte) (*cnode, []byte, error) { return cparseD(b, 0) }

func cparseD(b []byte, d int) (*cnode, []byte, error) {
	if len(b) == 0 || d > 300 {
		return nil, nil, errCParse
	}
	major := int(b[0] >> 5)
	ai := b[0] & 0x1f
	c := &cnode{major: major}
	b = b[1:]
	switch {
	case ai < 24:
		c.w, c.n = cW0, uint64(ai)
	case ai == 24:
		if len(b) < 1 {
			return nil, nil, errCParse
		}
		c.w, c.n, b = cW1, uint64(b[0]), b[1:]
		if major == 7 && c.n < 32 {
			return nil, nil, errCParse
		}
	case ai == 25:
		if len(b) < 2 {
			return nil, nil, errCParse
		}
		c.w, c.n, b = cW2, uint64(binary.BigEndian.Uint16(b)), b[2:]
	case ai == 26:
		if len(b) < 4 {
			return nil, nil, errCParse
		}
		c.w, c.n, b = cW4, uint64(binary.BigEndian.Uint32(b)), b[4:]
	case ai == 27:
		if len(b) < 8 {
			return nil, nil, errCParse
		}
		c.w, c.n, b = cW8, binary.BigEndian.Uint64(b), b[8:]
	case ai == 31:
		if major < 2 || major > 5 {
			return nil, nil, errCParse
		}
		c.w = cWI
	default:
		return nil, nil, errCParse
	}
	switch major {
	case 2, 3:
		if c.w == cWI {
			for {
				if len(b) == 0 {
					return nil, nil, errCParse
				}
				if b[0] == 0xff {
					return c, b[1:], nil
				}
				if int(b[0]>>5) != major || b[0]&0x1f == 31 {
					return nil, nil, errCParse
				}
				k, r, err := cparseD(b, d+1)
				if err != nil {
					return nil, nil, err
				}
				c.kids = append(c.kids, k)
				b = r
			}
		}
		if uint64(len(b)) < c.n {
			return nil, nil, errCParse
		}
		c.b, b = b[:c.n], b[c.n:]
		c.n = 0
	case 4, 5:
		if c.w == cWI {
			for {
				if len(b) == 0 {
					return nil, nil, errCParse
				}
				if b[0] == 0xff {
					b = b[1:]
					break
				}
				k, r, err := cparseD(b, d+1)
				if err != nil {
					return nil, nil, err
				}
				c.kids = append(c.kids, k)
				b = r
			}
			if major == 5 && len(c.kids)%2 == 1 {
				return nil, nil, errCParse
			}
		} else {
			cnt := c.n
			if major == 5 {
				cnt *= 2
			}
			if cnt > uint64(len(b)) {
				return nil, nil, errCParse
			}
			for i := uint64(0); i < cnt; i++ {
				k, r, err := cparseD(b, d+1)
				if err != nil {
					return nil, nil, err
				}
				c.kids = append(c.kids, k)
				b = r
			}
		}
		c.n = 0
	case 6:
		k, r, err := cparseD(b, d+1)
		if err != nil {
			return nil, nil, err
		}
		c.kids = []*cnode{k}
		b = r
	}
	return c, b, nil
}

// cwidths lists the admissible definite widths for argument n
func cwidths(n uint64) []int {
	ws := []int{}
	for _, w := range []int{cW0, cW1, cW2, cW4, cW8} {
		if fitsW(w, n) {
			ws = append(ws, w)
		}
	}
	return ws
}

// reform re-chooses, with probability num/den per node, the header form of
// every node below (and including) c: any admissible width, indefinite for
// strings/arrays/maps. Floats/simple values are left alone (their width is
// part of the value).
func (c *cnode) reform(r *Rand, num, den int, allowIndefStr bool) {
	if c.major != 7 && r.Chance(num, den) {
		ws := cwidths(c.arg())
		pick := r.Intn(len(ws) + 1)
		switch {
		case pick < len(ws):
			if c.w == cWI && (c.major == 2 || c.major == 3) {
				// chunks -> one definite string
				var all []byte
				for _, k := range c.kids {
					all = append(all, k.b...)
				}
				c.b, c.kids = all, nil
				ws = cwidths(uint64(len(all)))
				pick = r.Intn(len(ws))
			}
			c.w = ws[pick]
		case c.major == 4 || c.major == 5:
			c.w = cWI
		case (c.major == 2 || c.major == 3) && allowIndefStr && c.w != cWI:
			// split into 0..3 chunks
			var kids []*cnode
			rest := c.b
			for len(rest) > 0 && len(kids) < 3 {
				k := 1 + r.Intn(len(rest))
				if len(kids) == 2 {
					k = len(rest)
				}
				kids = append(kids, &cnode{major: c.major, w: Pick(r, cwidths(uint64(k))...), b: rest[:k]})
				rest = rest[k:]
			}
			c.w, c.kids, c.b = cWI, kids, nil
		}
	}
	if c.major == 2 || c.major == 3 {
		return
	}
	for _, k := range c.kids {
		k.reform(r, num, den, allowIndefStr)
	}
}

// walk calls f on every node (pre-order)
func (c *cnode) walk(f func(*cnode)) {
	f(c)
	for _, k := range c.kids {
		k.walk(f)
	}
}

func (c *cnode) count() int {
	n := 0
	c.walk(func(*cnode) { n++ })
	return n
}

// nth returns the i-th node in pre-order
func (c *cnode) nth(i int) *cnode {
	var res *cnode
	n := 0
	c.walk(func(k *cnode) {
		if n == i {
			res = k
		}
		n++
	})
	return res
}

// randNode builds a small random item (depth-limited)
func randNode(r *Rand, depth int) *cnode {
	k := r.Intn(10)
	if depth <= 0 && k >= 5 && k <= 7 {
		k = r.Intn(5)
	}
	switch k {
	case 0:
		return cU(r.EdgeU64())
	case 1:
		return cNeg(r.EdgeU64())
	case 2:
		return cB(r.Bytes(r.Intn(40)))
	case 3:
		s := make([]byte, r.Intn(12))
		for i := range s {
			s[i] = byte('a' + r.Intn(26))
		}
		return cT(string(s))
	case 4:
		return cSimple(uint64(20 + r.Intn(4)))
	case 5:
		n := r.Intn(5)
		ks := make([]*cnode, n)
		for i := range ks {
			ks[i] = randNode(r, depth-1)
		}
		return cA(ks...)
	case 6:
		n := r.Intn(4)
		ks := []*cnode{}
		for i := 0; i < n; i++ {
			ks = append(ks, cU(uint64(i)), randNode(r, depth-1))
		}
		return cM(ks...)
	case 7:
		return cTag(uint64(Pick(r, 24, 30, 258, 121, 102, 6, 1000)), randNode(r, depth-1))
	case 8:
		return cU(uint64(r.Intn(30)))
	default:
		return cB(r.Bytes(Pick(r, 28, 32, 0, 1)))
	}
}

// mutateBytes applies one structure-unaware mutation
func mutateBytes(r *Rand, b []byte) []byte {
	b = append([]byte(nil), b...)
	if len(b) == 0 {
		return []byte{byte(r.U64())}
	}
	switch r.Intn(7) {
	case 0: // truncate
		return b[:r.Intn(len(b))]
	case 1: // flip a byte
		b[r.Intn(len(b))] = byte(r.U64())
	case 2: // flip one bit
		b[r.Intn(len(b))] ^= 1 << uint(r.Intn(8))
	case 3: // insert
		i := r.Intn(len(b) + 1)
		b = append(b[:i], append([]byte{byte(r.U64())}, b[i:]...)...)
	case 4: // delete
		i := r.Intn(len(b))
		b = append(b[:i], b[i+1:]...)
	case 5: // append junk
		b = append(b, r.Bytes(1+r.Intn(4))...)
	case 6: // set a head-looking byte to an edge header
		b[r.Intn(len(b))] = Pick(r, byte(0x80), 0x97, 0x98, 0x99, 0x9a, 0x9b, 0x9f, 0xff, 0xbf, 0x5f, 0x7f, 0xc0, 0xd8, 0xf8, 0x1c, 0x1f, 0xfb, 0x3b)
	}
	return b
}
