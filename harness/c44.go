package main

// C44 — a failed submission does not stall later blocks.
// Scenarios: the apply stage is blocked (gate), submissions pile up until the
// pipeline applies back-pressure, further submissions carry contexts that are
// already cancelled or expire after a few ms; then the gate opens and more
// blocks are submitted with a background context.

import (
	"fmt"
	"strings"
	"time"
)

func init() {
	register(&Prop{ID: "C44", Gen: genC44, Run: runPipe, Timeout: 10 * time.Minute})
}

func pipeKind(r *Rand, vw int) string {
	switch r.Intn(10) {
	case 0:
		return "d"
	case 1:
		if vw > 0 {
			return "v"
		}
		return "g"
	default:
		return "g"
	}
}

func pipeLat(r *Rand) int {
	if r.Chance(2, 3) {
		return 0
	}
	return r.Intn(8)
}

// pipeTurnScenario: concurrent submitters. The pipeline is filled while ApplyFunc is gated;
// background submitter A then gets the submit turn and blocks on back-pressure (wturn);
// further background submitters with short / cancelled contexts give up while waiting for
// the turn (wgu); the gate opens, A's block is accepted. `tail` follows (more submissions,
// settle / pc / drain). A's block is held inside ApplyFunc when holdA is set.
func pipeTurnScenario(r *Rand, holdA bool, tail string) string {
	dw := Pick(r, 1, 1, 2, 3)
	vw := Pick(r, 0, 0, 1, 2)
	buf := Pick(r, 1, 1, 2)
	var sb strings.Builder
	fmt.Fprintf(&sb, "pipe dw=%d vw=%d buf=%d | gate", dw, vw, buf)
	capacity := buf + dw + buf + 1
	if vw > 0 {
		capacity += vw + buf
	}
	// more submissions than the pipeline can take, each giving up after a few ms when full
	for k := capacity + 2 + r.Intn(3); k > 0; k-- {
		fmt.Fprintf(&sb, " s:g:%d:0:0:0:-", Pick(r, 3, 3, 5))
	}
	hold := "-"
	if holdA {
		hold = "f"
	}
	fmt.Fprintf(&sb, " bs:g:0:0:0:0:%s wturn", hold)
	for k := 1 + r.Intn(3); k > 0; k-- {
		fmt.Fprintf(&sb, " bs:%s:%d:0:0:0:-", pipeKind(r, vw), Pick(r, 2, 3, -1))
	}
	sb.WriteString(" wgu open")
	sb.WriteString(tail)
	return sb.String()
}

func genC44(r *Rand, n int, tier string, emit func(string)) {
	for i := 0; i < n; i++ {
		if r.Chance(1, 6) {
			// after the turn was given up by waiters, later submissions must get fresh numbers
			tail := ""
			for k := 1 + r.Intn(4); k > 0; k-- {
				tail += fmt.Sprintf(" s:%s:0:0:0:0:-", Pick(r, "g", "g", "d"))
			}
			emit(pipeTurnScenario(r, false, tail+" settle pc"))
			continue
		}
		dw := Pick(r, 1, 1, 2, 3, 4, 8, 16)
		vw := Pick(r, 0, 0, 1, 2, 4, 16)
		buf := Pick(r, 1, 1, 2, 3, 5)
		var sb strings.Builder
		fmt.Fprintf(&sb, "pipe dw=%d vw=%d buf=%d |", dw, vw, buf)
		if r.Chance(1, 5) {
			// submissions before Start(): ErrPipelineNotStarted, no sequence number is used
			sb.WriteString(" nostart")
			for k := 1 + r.Intn(4); k > 0; k-- {
				fmt.Fprintf(&sb, " s:%s:%d:0:0:0:-", pipeKind(r, vw), Pick(r, 0, -1, 2))
			}
			if r.Chance(1, 4) {
				sb.WriteString(" stop pc")
			}
			sb.WriteString(" start")
		}
		sub := func(to int) {
			fmt.Fprintf(&sb, " s:%s:%d:%d:%d:%d:-", pipeKind(r, vw), to, pipeLat(r), pipeLat(r), pipeLat(r))
		}
		phases := 1 + r.Intn(3)
		for ph := 0; ph < phases; ph++ {
			// a few blocks through an open pipeline
			for k := r.Intn(4); k > 0; k-- {
				sub(0)
			}
			sb.WriteString(" gate")
			// enough submissions to fill every buffer and worker, all with expiring contexts
			capacity := buf + dw + buf + 1
			if vw > 0 {
				capacity += vw + buf
			}
			if capacity > 24 {
				capacity = 24
			}
			extra := 1 + r.Intn(8)
			for k := 0; k < capacity+extra; k++ {
				if r.Chance(1, 6) {
					sub(1 + r.Intn(4))
				} else {
					sub(-1)
				}
			}
			sb.WriteString(" open")
			for k := 1 + r.Intn(4); k > 0; k-- {
				if r.Chance(1, 5) {
					sub(-1)
				} else {
					sub(0)
				}
			}
			if r.Chance(1, 3) {
				sb.WriteString(" settle pc")
			}
		}
		emit(sb.String())
	}
}
