package main

// C36 — era dispatch through the REAL mini-protocol clients: a chain-sync client
// (node-to-node and node-to-client) and a block-fetch client run over an
// in-process link against a scripted peer (harness/util_g5.go) that delivers one
// wrapped header / wrapped block; the verdict is what the client's own callback
// receives (block type, decoded header/block → Type()/Era()), or its error.
// Synchronisation is by events (callback, error channel, connection end); the
// deadlines are generous and only bound a hang.
//
//   wntn <fixture> <headerType> <byronType> <major|->   → hera=<Era().Id> bt=<block type given to the callback>
//   wntc <fixture> <T> <major|->                        → type=<Type()> era=<Era().Id> hera=<Header().Era().Id> bt=<T given to the callback>
//   wbf  <fixture> <T> <major|->                        → same as wntc, through block-fetch

import (
	"fmt"
	"strconv"
	"strings"
	"time"

	"github.com/blinklabs-io/gouroboros/ledger"
	"github.com/blinklabs-io/gouroboros/protocol"
	"github.com/blinklabs-io/gouroboros/protocol/blockfetch"
	"github.com/blinklabs-io/gouroboros/protocol/chainsync"
	pcommon "github.com/blinklabs-io/gouroboros/protocol/common"
)

const g7WireDeadline = 120 * time.Second

func g7WireErr(s string) string {
	switch {
	case strings.Contains(s, "unknown block header era"):
		return "err:unknown-header-type"
	case strings.Contains(s, "unknown Byron block sub-type"):
		return "err:unknown-byron-type"
	case strings.Contains(s, "unknown node-to-client block type"), strings.Contains(s, "unknown node-to-node block type"):
		return "err:unknown-type"
	}
	return "err:decode"
}

// g7WireWait returns the callback's verdict, or the first protocol error.
func g7WireWait(l *g5Link, res chan string) string {
	select {
	case s := <-res:
		return s
	case e := <-l.errChan:
		if e != nil {
			return g7WireErr(e.Error())
		}
		return "err:nil-error"
	case e, ok := <-l.mux.ErrorChan():
		if ok && e != nil {
			return "err:mux"
		}
		return "err:closed"
	case <-time.After(g7WireDeadline):
		return "TIMEOUT"
	}
}

func g7BlockVerdict(bt uint, b ledger.Block) string {
	return fmt.Sprintf("type=%d era=%d hera=%d bt=%d", b.Type(), b.Era().Id, b.Header().Era().Id, bt)
}

func g7WireChainSync(ntn bool, rollForward []byte, res chan string) func(l *g5Link) string {
	return func(l *g5Link) string {
		mode, protoId := protocol.ProtocolModeNodeToClient, chainsync.ProtocolIdNtC
		if ntn {
			mode, protoId = protocol.ProtocolModeNodeToNode, chainsync.ProtocolIdNtN
		}
		respId := protoId | 0x8000
		cfg := chainsync.NewConfig(
			chainsync.WithRollForwardFunc(func(_ chainsync.CallbackContext, bt uint, data any, _ chainsync.Tip) error {
				switch v := data.(type) {
				case ledger.Block:
					res <- g7BlockVerdict(bt, v)
				case ledger.BlockHeader:
					res <- fmt.Sprintf("hera=%d bt=%d", v.Era().Id, bt)
				default:
					res <- fmt.Sprintf("err:callback-got-%T", data)
				}
				return nil
			}),
		)
		cli := chainsync.NewClient(l.opts(mode), &cfg)
		cli.Start()
		syncErr := make(chan error, 1)
		go func() { syncErr <- cli.Sync([]pcommon.Point{pcommon.NewPointOrigin()}) }()
		// FindIntersect
		if _, err := l.peer.recv(protoId, g7WireDeadline); err != nil {
			return "err:no-findintersect"
		}
		if err := l.peer.send(respId, g5enc(chainsync.NewMsgIntersectFound(pcommon.NewPointOrigin(), chainsync.Tip{}))); err != nil {
			return "err:send"
		}
		// RequestNext
		if _, err := l.peer.recv(protoId, g7WireDeadline); err != nil {
			select {
			case e := <-syncErr:
				if e != nil {
					return "err:sync"
				}
			default:
			}
			return "err:no-requestnext"
		}
		if err := l.peer.send(respId, rollForward); err != nil {
			return "err:send"
		}
		return g7WireWait(l, res)
	}
}

func runC36Wire(f []string) string {
	if len(f) < 4 {
		return "bad-op"
	}
	major := f[len(f)-1]
	data, ok := c36Data(f[1], major)
	if !ok {
		return "bad-op"
	}
	res := make(chan string, 4)
	var script func(l *g5Link) string
	switch f[0] {
	case "wntn":
		if len(f) != 5 {
			return "bad-op"
		}
		ht, e1 := strconv.ParseUint(f[2], 10, 32)
		byronType, e2 := strconv.ParseUint(f[3], 10, 32)
		if e1 != nil || e2 != nil {
			return "bad-op"
		}
		m, err := chainsync.NewMsgRollForwardNtN(uint(ht), uint(byronType), data, chainsync.Tip{})
		if err != nil {
			return "bad-op"
		}
		script = g7WireChainSync(true, g5enc(m), res)
	case "wntc":
		if len(f) != 4 {
			return "bad-op"
		}
		t, e1 := strconv.ParseUint(f[2], 10, 32)
		if e1 != nil {
			return "bad-op"
		}
		m, err := chainsync.NewMsgRollForwardNtC(uint(t), data, chainsync.Tip{})
		if err != nil {
			return "bad-op"
		}
		script = g7WireChainSync(false, g5enc(m), res)
	case "wbf":
		if len(f) != 4 {
			return "bad-op"
		}
		t, e1 := strconv.ParseUint(f[2], 10, 32)
		if e1 != nil {
			return "bad-op"
		}
		wb := blockfetch.WrappedBlock{Type: uint(t), RawBlock: data}
		msgBlock := g5enc(blockfetch.NewMsgBlock(g5enc(&wb)))
		script = func(l *g5Link) string {
			cfg, _ := blockfetch.NewConfig(
				blockfetch.WithBlockFunc(func(_ blockfetch.CallbackContext, bt uint, b ledger.Block) error {
					res <- g7BlockVerdict(bt, b)
					return nil
				}),
			)
			cli := blockfetch.NewClient(l.opts(protocol.ProtocolModeNodeToNode), &cfg)
			cli.Start()
			go func() {
				_ = cli.GetBlockRange(pcommon.NewPoint(1, []byte{1}), pcommon.NewPoint(2, []byte{2}))
			}()
			if _, err := l.peer.recv(blockfetch.ProtocolId, g7WireDeadline); err != nil {
				return "err:no-request"
			}
			resp := blockfetch.ProtocolId | 0x8000
			if err := l.peer.send(resp, g5enc(blockfetch.NewMsgStartBatch())); err != nil {
				return "err:send"
			}
			if err := l.peer.send(resp, msgBlock); err != nil {
				return "err:send"
			}
			return g7WireWait(l, res)
		}
	default:
		return "bad-op"
	}
	l := newG5Link()
	defer l.close()
	return script(l)
}
