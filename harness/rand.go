package main

import (
	"encoding/hex"
	"math/big"
)

// Rand is a splitmix64 PRNG: every random choice of a run derives from one
// state so that a disagreement replays exactly from (seed, index).
type Rand struct{ s uint64 }

func NewRand(seed uint64) *Rand { return &Rand{s: seed*0x9E3779B97F4A7C15 + 0x1234567} }

func (r *Rand) U64() uint64 {
	r.s += 0x9E3779B97F4A7C15
	z := r.s
	z = (z ^ (z >> 30)) * 0xBF58476D1CE4E5B9
	z = (z ^ (z >> 27)) * 0x94D049BB133111EB
	return z ^ (z >> 31)
}

// Intn returns a value in [0,n).
func (r *Rand) Intn(n int) int {
	if n <= 0 {
		return 0
	}
	return int(r.U64() % uint64(n))
}

func (r *Rand) Bool() bool { return r.U64()&1 == 1 }

// Chance returns true with probability num/den.
func (r *Rand) Chance(num, den int) bool { return r.Intn(den) < num }

func (r *Rand) Bytes(n int) []byte {
	b := make([]byte, n)
	for i := range b {
		b[i] = byte(r.U64())
	}
	return b
}

// Pick returns one of the given values.
func Pick[T any](r *Rand, xs ...T) T { return xs[r.Intn(len(xs))] }

// EdgeU64 draws from boundary-heavy uint64 distribution.
func (r *Rand) EdgeU64() uint64 {
	switch r.Intn(8) {
	case 0:
		return uint64(r.Intn(4))
	case 1:
		return uint64(r.Intn(300))
	case 2:
		return ^uint64(0) - uint64(r.Intn(3))
	case 3:
		sh := uint(r.Intn(64))
		return (uint64(1) << sh) + uint64(r.Intn(3)) - 1
	case 4:
		return r.U64() >> uint(r.Intn(64))
	default:
		return uint64(r.Intn(1000000))
	}
}

func hexs(b []byte) string {
	if len(b) == 0 {
		return "-"
	}
	return hex.EncodeToString(b)
}

func unhex(s string) ([]byte, bool) {
	if s == "-" {
		return []byte{}, true
	}
	b, err := hex.DecodeString(s)
	return b, err == nil
}

func bigStr(b *big.Int) string {
	if b == nil {
		return "nil"
	}
	return b.String()
}

func b01(b bool) string {
	if b {
		return "1"
	}
	return "0"
}
