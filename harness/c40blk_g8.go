package main

// C40, block level. A whole Babbage (Praos) or Shelley (TPraos) block is assembled around a
// header built by the real BlockBuilder — header = [body bytes the builder KES-signed, signature],
// followed by the (empty) body segments whose hash the header carries — decoded through the
// ledger's block types and judged by ledger.VerifyBlock (VRF, KES over the ORIGINAL header body
// bytes, body hash over the ORIGINAL segment bytes).  Tampering happens on the bytes: a header
// field is replaced and the body re-encoded, a body segment is re-encoded non-canonically, or one
// bit anywhere in the block is flipped.
//
// op:  blk <c|t> <useed> <slot> <spk> <ocPeriod> <kesT> <tamper…>
//      tamper: none | <field tamper of the hdr op> | seg <i> | flip <offset> <bit>
// out: lead=<b> dec=<b> vb=<1|0:kind>         (flip: lead=<b> vb=<b>)

import (
	"crypto/ed25519"
	"encoding/hex"
	"fmt"
	"math/big"
	"strconv"
	"strings"

	"github.com/blinklabs-io/gouroboros/cbor"
	"github.com/blinklabs-io/gouroboros/consensus"
	"github.com/blinklabs-io/gouroboros/ledger"
	"github.com/blinklabs-io/gouroboros/ledger/common"
	"github.com/blinklabs-io/gouroboros/vrf"
	"golang.org/x/crypto/blake2b"
)

func g8BodyHash(segs [][]byte) []byte {
	var cat []byte
	for _, s := range segs {
		h := blake2b.Sum256(s)
		cat = append(cat, h[:]...)
	}
	h := blake2b.Sum256(cat)
	return h[:]
}

// g8Indef re-encodes a definite-length array / map (short header form) with indefinite length:
// the same content in other bytes.
func g8Indef(seg []byte) []byte {
	switch {
	case seg[0] >= 0x80 && seg[0] <= 0x97:
		return append(append([]byte{0x9f}, seg[1:]...), 0xff)
	case seg[0] >= 0xa0 && seg[0] <= 0xb7:
		return append(append([]byte{0xbf}, seg[1:]...), 0xff)
	}
	return append([]byte{}, seg...)
}

// g8TxBody is a minimal transaction body every era decodes: one input, one legacy output, a fee.
func g8TxBody() []byte {
	in := c40Atom("txin")
	addr, _ := common.NewAddressFromParts(common.AddressTypeKeyNone, common.AddressNetworkMainnet, make([]byte, 28), nil)
	ab, _ := addr.Bytes()
	b, err := cbor.Encode(map[uint]any{
		0: []any{[]any{in, uint64(0)}},
		1: []any{[]any{ab, uint64(1000000)}},
		2: uint64(200000),
		3: uint64(99999999),
	})
	if err != nil {
		panic(err)
	}
	return b
}

// the body hash of the era: Dijkstra hashes the block_body element itself, the earlier eras the
// concatenation of the per-segment hashes
func g8BodyHashOf(dijkstra bool, segs [][]byte) []byte {
	if dijkstra {
		h := blake2b.Sum256(segs[0])
		return h[:]
	}
	return g8BodyHash(segs)
}

func g8RunC40Block(f []string) string {
	withTx := false
	if len(f) > 1 && strings.HasSuffix(f[1], "+tx") {
		withTx = true
		f = append([]string{f[0], strings.TrimSuffix(f[1], "+tx")}, f[2:]...)
	}
	era, okEra := g8Eras[f[1]]
	if len(f) < 8 || !okEra {
		return "bad-op"
	}
	tpraos := era.tpraos
	useed, ok := unhex(f[2])
	slot, e1 := strconv.ParseUint(f[3], 10, 64)
	spk, e2 := strconv.ParseUint(f[4], 10, 64)
	ocPeriod, e3 := strconv.ParseUint(f[5], 10, 32)
	kesT, e4 := strconv.ParseUint(f[6], 10, 64)
	if !ok || e1 != nil || e2 != nil || e3 != nil || e4 != nil || kesT > 63 || slot == 0 || slot >= 1<<62 || spk == 0 {
		return "bad-op"
	}
	tam := f[7:]
	kind := tam[0]
	segIdx, flipOff, flipBit := 0, 0, 0
	switch {
	case kind == "seg" && len(tam) == 2:
		n, err := strconv.Atoi(tam[1])
		if err != nil || n < 0 || n >= era.nseg {
			return "bad-op"
		}
		segIdx = n
	case kind == "flip" && len(tam) == 3:
		a, ea := strconv.Atoi(tam[1])
		b, eb := strconv.Atoi(tam[2])
		if ea != nil || eb != nil || a < 0 || b < 0 || b > 7 {
			return "bad-op"
		}
		flipOff, flipBit = a, b
	case len(tam) == 1:
		okT := false
		for _, t := range c40Tampers {
			okT = okT || t == kind
		}
		if !okT || (!tpraos && g8TpraosOnly(kind)) {
			return "bad-op"
		}
	default:
		return "bad-op"
	}
	u := c40Get(useed)
	blockType := era.blockType
	isDijkstra := era.blockType == uint(ledger.BlockTypeDijkstra)
	var segs [][]byte
	switch {
	case isDijkstra && withTx:
		// block_body = [invalid_transactions / nil, [transaction], leios / nil, peras / nil]
		body := []byte{0x84, 0xf6, 0x81, 0x83}
		body = append(body, g8TxBody()...)
		body = append(body, 0xa0, 0xf6, 0xf6, 0xf6)
		segs = [][]byte{body}
	case isDijkstra:
		segs = [][]byte{{0x84, 0xf6, 0x80, 0xf6, 0xf6}}
	case withTx:
		// transaction_bodies, witness_sets, auxiliary data, (Alonzo+) invalid transactions
		segs = [][]byte{append([]byte{0x81}, g8TxBody()...), {0x81, 0xa0}, {0xa0}, {0x80}}[:era.nseg]
	default:
		segs = [][]byte{{0x80}, {0x80}, {0xa0}, {0x80}}[:era.nseg]
	}
	segs = append([][]byte{}, segs...)
	mode := consensus.ConsensusModeCPraos
	if tpraos {
		mode = consensus.ConsensusModeTPraos
	}
	coeff := big.NewRat(99, 100)
	hot := u.kesP[0]
	issuer := []byte(u.cold[0].Public().(ed25519.PublicKey))
	seq := uint64(3)
	ocSig := ed25519.Sign(u.cold[0], common.OpCertSignableBytes(hot, seq, ocPeriod))
	ks := &c40Kes{data: u.kesD[0][kesT], t: kesT, pk: hot}
	builder := consensus.NewBlockBuilderWithMode(u.vrfs[0], ks,
		&consensus.OperationalCert{HotVkey: hot, SequenceNumber: uint32(seq), KesPeriod: uint32(ocPeriod), Signature: ocSig},
		common.Blake2b224Hash(issuer).Bytes(), issuer, coeff, mode)
	nonce := c40Atom("nonce")
	const stake = 1000000000
	bodySize := uint64(0)
	for _, s := range segs {
		bodySize += uint64(len(s))
	}
	proto := era.proto
	hdr, _, err := builder.BuildHeader(consensus.BuildHeaderInput{
		Slot: slot, BlockNumber: 77, PrevHash: c40Atom("prev"), EpochNonce: nonce,
		PoolStake: stake, TotalStake: stake, BlockBodyHash: g8BodyHashOf(isDijkstra, segs), BlockBodySize: bodySize,
		ProtoMajor: proto, ProtoMinor: 0,
	})
	if err != nil {
		if err == consensus.ErrNotSlotLeader {
			return "lead=0 notleader"
		}
		return "lead=- builderr:" + err.Error()
	}
	b := hdr.Body
	sig := append([]byte{}, hdr.Signature...)
	bodyCbor := ks.lastMsg // the bytes the builder signed
	otherIn := func(eta bool) []byte {
		var in []byte
		if tpraos {
			seed := vrf.SeedL()
			if eta {
				seed = vrf.SeedEta()
			}
			in, _ = vrf.MkSeedTPraos(int64(slot+1), nonce, seed)
		} else {
			in, _ = vrf.MkInputVrf(int64(slot+1), nonce)
		}
		return in
	}
	reenc := true
	switch kind {
	case "none", "seg", "flip":
		reenc = false
	case "blockNo":
		b.BlockNumber++
	case "slot":
		b.Slot++
	case "prevHash":
		b.PrevHash = c40Atom("prev2")
	case "issuer":
		b.IssuerVkey = []byte(u.cold[1].Public().(ed25519.PublicKey))
	case "vrfKey":
		b.VrfKey = u.vrfs[1].pk
	case "vrfProof":
		b.VrfProof, _, _ = vrf.Prove(u.vrfs[0].sk, otherIn(false))
	case "vrfOut":
		_, b.VrfOutput, _ = vrf.Prove(u.vrfs[0].sk, otherIn(false))
	case "nonceProof":
		b.NonceVrfProof, _, _ = vrf.Prove(u.vrfs[0].sk, otherIn(true))
	case "nonceOut":
		_, b.NonceVrfOutput, _ = vrf.Prove(u.vrfs[0].sk, otherIn(true))
	case "bodySize":
		b.BlockBodySize++
	case "bodyHash":
		b.BlockBodyHash = c40Atom("body2")
	case "ocHot":
		b.OpCertHotVkey = u.kesP[1]
	case "ocSeq":
		b.OpCertSequenceNumber++
	case "ocPeriod":
		b.OpCertKesPeriod++
	case "ocSig":
		b.OpCertSignature = ed25519.Sign(u.cold[1], common.OpCertSignableBytes(hot, seq, ocPeriod))
	case "protoMajor":
		b.ProtoMajor++
	case "protoMinor":
		b.ProtoMinor++
	case "kesSig":
		sig[200] ^= 0x08
		reenc = false
	case "kesSigOtherKey":
		o := &c40Kes{data: u.kesD[1][kesT], t: kesT, pk: u.kesP[1]}
		sig, _ = o.Sign(bodyCbor)
		reenc = false
	case "kesSigOtherT":
		t2 := (kesT + 1) % 64
		o := &c40Kes{data: u.kesD[0][t2], t: t2, pk: hot}
		sig, _ = o.Sign(bodyCbor)
		reenc = false
	case "kesSigLen":
		reenc = false
	}
	g8SizeTamper(kind, &b, &sig)
	if reenc {
		bodyCbor, err = c40Serialize(tpraos, &b)
		if err != nil {
			return "ser-err"
		}
	}
	if kind == "seg" {
		// the same (empty) container, encoded with indefinite length: other bytes, same content
		segs[segIdx] = g8Indef(segs[segIdx])
	}
	sigCbor, _ := cbor.Encode(sig)
	blk := []byte{0x80 + byte(1+len(segs)), 0x82}
	blk = append(blk, bodyCbor...)
	blk = append(blk, sigCbor...)
	for _, s := range segs {
		blk = append(blk, s...)
	}
	cfg := common.VerifyConfig{SkipTransactionValidation: true, SkipStakePoolValidation: true}
	cfgSkip := cfg
	cfgSkip.SkipBodyHashValidation = true
	eta0 := hex.EncodeToString(nonce)
	if kind == "flip" {
		blk[flipOff%len(blk)] ^= 1 << uint(flipBit)
		blkD, err := ledger.NewBlockFromCbor(blockType, blk, cfgSkip)
		if err != nil {
			return "lead=1 vb=0"
		}
		okv, _, _, _, verr := ledger.VerifyBlock(blkD, eta0, spk, cfg)
		if verr == nil && okv {
			return "lead=1 vb=1"
		}
		return "lead=1 vb=0"
	}
	dec := "1"
	if _, err := ledger.NewBlockFromCbor(blockType, blk); err != nil {
		dec = "0"
	}
	blkD, err := ledger.NewBlockFromCbor(blockType, blk, cfgSkip)
	if err != nil {
		return fmt.Sprintf("lead=1 dec=%s vb=0:decode", dec)
	}
	okv, _, _, _, verr := ledger.VerifyBlock(blkD, eta0, spk, cfg)
	vb := "1"
	if verr != nil || !okv {
		m := ""
		if verr != nil {
			m = verr.Error()
		}
		switch {
		case strings.Contains(m, "VRF"):
			vb = "0:vrf"
		case strings.Contains(m, "KES"):
			vb = "0:kes"
		case strings.Contains(m, "body hash"):
			vb = "0:bodyhash"
		default:
			vb = "0:other(" + m + ")"
		}
	}
	return fmt.Sprintf("lead=1 dec=%s vb=%s", dec, vb)
}

func g8GenC40Block(r *Rand, emit func(string), useed string) {
	mode := g8EraNames[r.Intn(len(g8EraNames))]
	spk := Pick(r, uint64(129600), 100, 1, 3600)
	kesT := uint64(Pick(r, 0, 1, 5, 62, 63, r.Intn(64)))
	ocPeriod := uint64(r.Intn(300))
	cur := ocPeriod + kesT
	if r.Chance(1, 8) {
		cur++
	}
	if r.Chance(1, 10) && cur > 0 {
		cur--
	}
	edge := false
	if r.Chance(1, 4) {
		// the edges of the certificate window; the early side signed with the un-evolved key
		edge = true
		if ocPeriod == 0 {
			ocPeriod = 1 + uint64(r.Intn(300))
		}
		switch r.Intn(4) {
		case 0:
			cur, kesT = ocPeriod-1, 0
		case 1:
			cur, kesT = ocPeriod, 0
		case 2:
			cur, kesT = ocPeriod+1, 1
		default:
			cur, kesT = ocPeriod+63, 63
		}
	}
	slot := cur*spk + uint64(r.Intn(int(spk)))
	if r.Chance(1, 3) {
		slot = cur*spk + spk - 1
	}
	if slot == 0 {
		slot = 1
	}
	tam := "none"
	if edge && r.Chance(2, 3) {
		if r.Chance(1, 2) {
			mode += "+tx"
		}
		emit(fmt.Sprintf("blk %s %s %d %d %d %d %s", mode, useed, slot, spk, ocPeriod, kesT, tam))
		return
	}
	switch r.Intn(6) {
	case 0, 1:
		tam = c40Tampers[r.Intn(len(c40Tampers))]
		if !g8Eras[mode].tpraos && g8TpraosOnly(tam) {
			tam = "bodyHash"
		}
	case 2:
		tam = fmt.Sprintf("seg %d", r.Intn(g8Eras[mode].nseg))
	case 3, 4:
		tam = fmt.Sprintf("flip %d %d", r.Intn(900), r.Intn(8))
	}
	if r.Chance(1, 2) {
		mode += "+tx"
	}
	emit(fmt.Sprintf("blk %s %s %d %d %d %d %s", mode, useed, slot, spk, ocPeriod, kesT, tam))
}
