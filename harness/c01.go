package main

// C01 — decoded blocks and transactions keep their exact wire bytes.
//
// op:  blk <era> <form-vector description> <hex of the (re-encoded) block>
// out: dec=err | dec=ok blk=<span> hdr=<span> tx=<n>|B<span> W<span> M<span> O<span>,...|... h=<ok|bad:..>
// op:  enc <kind> <era> <description> <hex>      kind = blk | hdr | body | wit | out
// out: dec=err | enc=ok | enc=bad:<first failing component>
// op:  tx <era> <description> <hex of a standalone transaction>   (ledger.NewTransactionFromCbor)
// out: dec=err | dec=ok tx=<span>|B<span> W<span> M<span|-> O<span>,... h=<ok|bad> enc=<ok|bad>
// op:  body <era> <description> <hex of a standalone transaction body>  (ledger.NewTransactionBodyFromCbor)
// out: dec=err | dec=ok body=<span> O<span>,... h=<ok|bad>
// op:  hdr <era> <description> <hex of a standalone block header>  (ledger.NewBlockHeaderFromCbor)
// out: dec=err | dec=ok hdr=<span> h=<ok|bad> enc=<ok|bad>
//
// A <span> is "o+l" when the component's stored bytes (Cbor()) are exactly
// data[o:o+l], where [o,o+l) is the component's span found by the harness' own
// CBOR parser; otherwise "!<len of Cbor()>" (nil: "!nil").
// h:   Hash()/Id() of block, header and every transaction equal Blake2b-256
//      (golang.org/x/crypto, computed here) of the stored bytes.
// enc: cbor.Encode of the unmodified decoded block/header/body/witness set/output
//      reproduces the stored bytes.

import (
	"bytes"
	"fmt"
	"reflect"
	"strings"
	"time"

	"github.com/blinklabs-io/gouroboros/cbor"
	"github.com/blinklabs-io/gouroboros/ledger"
	"github.com/blinklabs-io/gouroboros/ledger/common"
	"golang.org/x/crypto/blake2b"
)

func init() {
	// generous per-op deadline: verdicts must not depend on machine load
	register(&Prop{ID: "C01", Gen: genC01, Run: runC01, Timeout: 3 * time.Minute})
}

func genC01(r *Rand, n int, tier string, emit func(string)) {
	// same re-encoded real blocks as C07, different stream
	r2 := NewRand(r.U64() ^ 0xC01)
	kinds := []string{"blk", "hdr", "body", "wit", "out"}
	i := 0
	nStandalone := n / 4
	g10bGenStandalone(r2, nStandalone, emit)
	genC07(r2, n-nStandalone, tier, func(op string) {
		i++
		if i%3 == 0 && strings.HasPrefix(op, "blk ") {
			emit("enc " + kinds[(i/3)%5] + " " + op[4:])
			return
		}
		emit(op)
	})
}

func spanOrBad(data []byte, n *bnode, stored []byte) string {
	if stored == nil {
		return "!nil"
	}
	if n == nil || n.end > len(data) || !bytes.Equal(data[n.off:n.end], stored) {
		return fmt.Sprintf("!%d", len(stored))
	}
	return fmt.Sprintf("%d+%d", n.off, n.end-n.off)
}

// txNodes returns the body / witness / aux / outputs nodes of transaction i.
func c01TxNodes(era string, root *bnode, i int) (body, wit, aux *bnode, outs []*bnode) {
	switch era {
	case "byron":
		pair := root.kid(1).kid(0).kid(i)
		body, wit = pair.kid(0), pair.kid(1)
		if o := body.kid(1); o != nil {
			outs = o.kids
		}
		return
	case "dijkstra":
		tx := root.kid(1).kid(1).kid(i)
		body, wit, aux = tx.kid(0), tx.kid(1), tx.kid(2)
		if aux != nil && aux.major == 7 {
			aux = nil
		}
	default:
		body, wit = root.kid(1).kid(i), root.kid(2).kid(i)
		aux = root.kid(3).mapGet(uint64(i))
	}
	if o := body.mapGet(1); o != nil {
		outs = o.kids
	}
	return
}

func sum256(b []byte) common.Blake2b256 {
	h := blake2b.Sum256(b)
	return common.Blake2b256(h)
}

func encEq(obj any, want []byte) bool {
	got, err := cbor.Encode(obj)
	return err == nil && bytes.Equal(got, want)
}

func fieldPtr(obj any, name string) any {
	v := reflect.ValueOf(obj)
	if v.Kind() != reflect.Pointer || v.Elem().Kind() != reflect.Struct {
		return nil
	}
	f := v.Elem().FieldByName(name)
	if !f.IsValid() || !f.CanAddr() || !f.CanInterface() {
		return nil
	}
	return f.Addr().Interface()
}

func runC01(op string) string {
	f := strings.Fields(op)
	if len(f) == 4 && (f[0] == "tx" || f[0] == "hdr" || f[0] == "body") {
		return g10bRunStandalone(f)
	}
	encKind := ""
	if len(f) == 5 && f[0] == "enc" {
		encKind = f[1]
		f = append([]string{"blk"}, f[2:]...)
	}
	if len(f) != 4 || f[0] != "blk" {
		return "bad-op"
	}
	era := f[1]
	bt, ok := eraBlockType[era]
	data, ok2 := unhex(f[3])
	if !ok || !ok2 {
		return "bad-op"
	}
	root, perr := parseCborAll(data)
	blk, err := ledger.NewBlockFromCbor(bt, data, common.VerifyConfig{SkipBodyHashValidation: true})
	if err != nil || perr != nil {
		return "dec=err"
	}
	var hbad, ebad []string
	var sb strings.Builder
	fmt.Fprintf(&sb, "dec=ok blk=%s", spanOrBad(data, root, blk.Cbor()))
	if encKind == "blk" && !encEq(blk, blk.Cbor()) {
		ebad = append(ebad, "blk")
	}
	hdr := blk.Header()
	hn := root.kid(0)
	fmt.Fprintf(&sb, " hdr=%s", spanOrBad(data, hn, hdr.Cbor()))
	if encKind == "hdr" && !encEq(hdr, hdr.Cbor()) {
		ebad = append(ebad, "hdr")
	}
	hpre := hdr.Cbor()
	if era == "byron" {
		hpre = append([]byte{0x82, 0x01}, hpre...)
	}
	if hdr.Hash() != sum256(hpre) || blk.Hash() != hdr.Hash() {
		hbad = append(hbad, "hdr")
	}
	txs := blk.Transactions()
	fmt.Fprintf(&sb, " tx=%d", len(txs))
	for i, tx := range txs {
		bn, wn, an, on := c01TxNodes(era, root, i)
		body, _ := fieldCbor(tx, "Body")
		wit, okw := fieldCbor(tx, "WitnessSet")
		if !okw {
			wit, _ = fieldCbor(tx, "twitCbor")
		}
		fmt.Fprintf(&sb, "|B%s W%s", spanOrBad(data, bn, body), spanOrBad(data, wn, wit))
		raw, has := rawMetadataOf(blk, tx, i)
		switch {
		case an == nil && (!has || len(raw) == 0):
			sb.WriteString(" M-")
		case an == nil:
			fmt.Fprintf(&sb, " M!%d", len(raw))
		default:
			fmt.Fprintf(&sb, " M%s", spanOrBad(data, an, raw))
		}
		sb.WriteString(" O")
		outs := tx.Outputs()
		if len(outs) != len(on) {
			fmt.Fprintf(&sb, "!n%d", len(outs))
		} else {
			for j, o := range outs {
				if j > 0 {
					sb.WriteByte(',')
				}
				sb.WriteString(spanOrBad(data, on[j], o.Cbor()))
				if encKind == "out" && len(ebad) < 1 && !encEq(o, o.Cbor()) {
					ebad = append(ebad, fmt.Sprintf("tx%d.out%d", i, j))
				}
			}
		}
		if body != nil {
			if tx.Hash() != sum256(body) || tx.Id() != sum256(body) {
				hbad = append(hbad, fmt.Sprintf("tx%d", i))
			}
			if bp := fieldPtr(tx, "Body"); encKind == "body" && bp != nil && len(ebad) < 1 && !encEq(bp, body) {
				ebad = append(ebad, fmt.Sprintf("tx%d.body", i))
			}
		}
		if wit != nil {
			if wp := fieldPtr(tx, "WitnessSet"); encKind == "wit" && wp != nil && len(ebad) < 1 && !encEq(wp, wit) {
				ebad = append(ebad, fmt.Sprintf("tx%d.wit", i))
			}
		}
	}
	if encKind != "" {
		if len(ebad) > 0 {
			return "enc=bad:" + strings.Join(ebad, ",")
		}
		return "enc=ok"
	}
	h := "ok"
	if len(hbad) > 0 {
		h = "bad:" + strings.Join(hbad, ",")
	}
	fmt.Fprintf(&sb, " h=%s", h)
	return sb.String()
}

var g10bTxType = map[string]uint{
	"byron": 0, "shelley": 1, "allegra": 2, "mary": 3, "alonzo": 4, "babbage": 5, "conway": 6, "dijkstra": 7,
}

// g10bTxEnvelope builds the standalone encoding of transaction i of a block tree.
func g10bTxEnvelope(era string, root *bnode, i int) *bnode {
	null := &bnode{major: 7, payload: []byte{0xf6}}
	switch era {
	case "byron":
		return root.kid(1).kid(0).kid(i)
	case "dijkstra":
		return root.kid(1).kid(1).kid(i)
	}
	body, wit := root.kid(1).kid(i), root.kid(2).kid(i)
	if body == nil || wit == nil {
		return nil
	}
	aux := root.kid(3).mapGet(uint64(i))
	if aux == nil {
		aux = null
	}
	switch era {
	case "shelley", "allegra", "mary":
		return &bnode{major: 4, kids: []*bnode{body, wit, aux}}
	}
	return &bnode{major: 4, kids: []*bnode{body, wit, {major: 7, payload: []byte{0xf5}}, aux}}
}

func g10bGenStandalone(r *Rand, n int, emit func(string)) {
	fx, err := fixtures()
	if err != nil {
		return
	}
	for c := 0; c < n; c++ {
		f := fx[r.Intn(len(fx))]
		root, err := parseCborAll(f.data)
		if err != nil {
			continue
		}
		var node *bnode
		kind := "tx"
		if r.Chance(1, 4) {
			kind = "hdr"
			node = root.kid(0)
		} else if f.era != "byron" && r.Chance(1, 3) {
			// standalone transaction body (Byron has no body decoder)
			kind = "body"
			var bodies *bnode
			if f.era == "dijkstra" {
				if t := root.kid(1).kid(1); t != nil && len(t.kids) > 0 {
					bodies = &bnode{major: 4}
					for _, tx := range t.kids {
						bodies.kids = append(bodies.kids, tx.kid(0))
					}
				}
			} else {
				bodies = root.kid(1)
			}
			if bodies == nil || len(bodies.kids) == 0 {
				continue
			}
			node = bodies.kids[r.Intn(len(bodies.kids))]
		} else {
			ntx := 0
			switch f.era {
			case "byron":
				ntx = len(root.kid(1).kid(0).kids)
			case "dijkstra":
				if t := root.kid(1).kid(1); t != nil {
					ntx = len(t.kids)
				}
			default:
				ntx = len(root.kid(1).kids)
			}
			if ntx == 0 {
				continue
			}
			node = g10bTxEnvelope(f.era, root, r.Intn(ntx))
		}
		if node == nil {
			continue
		}
		var desc []string
		switch r.Intn(4) {
		case 0:
		case 1:
			form := c07Forms[r.Intn(5)]
			node.setForm(form)
			desc = append(desc, "top:"+form)
		default:
			depth := Pick(r, 1, 2, 3, 4, 6)
			den := Pick(r, 1, 2, 4)
			for _, c := range collect(node, depth, isContainer) {
				if r.Chance(1, den) {
					form := c07Forms[r.Intn(6)]
					c.n.setForm(form)
					if len(desc) < 8 {
						desc = append(desc, c.path+":"+form)
					}
				}
			}
			desc = append(desc, fmt.Sprintf("many(d%d,1/%d)", depth, den))
		}
		d := strings.Join(desc, ",")
		if d == "" {
			d = "orig"
		}
		emit(fmt.Sprintf("%s %s %s %s", kind, f.era, d, hexs(node.bytes())))
	}
}

func g10bRunStandalone(f []string) string {
	era := f[1]
	data, ok := unhex(f[3])
	if !ok {
		return "bad-op"
	}
	root, perr := parseCborAll(data)
	if perr != nil {
		return "dec=err"
	}
	okbad := func(b bool) string {
		if b {
			return "ok"
		}
		return "bad"
	}
	if f[0] == "hdr" {
		bt, ok := eraBlockType[era]
		if !ok {
			return "bad-op"
		}
		hdr, err := ledger.NewBlockHeaderFromCbor(bt, data)
		if err != nil {
			return "dec=err"
		}
		pre := hdr.Cbor()
		if era == "byron" {
			pre = append([]byte{0x82, 0x01}, pre...)
		}
		return fmt.Sprintf("dec=ok hdr=%s h=%s enc=%s", spanOrBad(data, root, hdr.Cbor()),
			okbad(hdr.Hash() == sum256(pre)), okbad(encEq(hdr, data)))
	}
	tt, ok := g10bTxType[era]
	if !ok {
		return "bad-op"
	}
	if f[0] == "body" {
		body, err := ledger.NewTransactionBodyFromCbor(tt, data)
		if err != nil {
			return "dec=err"
		}
		var sb strings.Builder
		fmt.Fprintf(&sb, "dec=ok body=%s O", spanOrBad(data, root, body.Cbor()))
		var on []*bnode
		if o := root.mapGet(1); o != nil {
			on = o.kids
		}
		outs := body.Outputs()
		if len(outs) != len(on) {
			fmt.Fprintf(&sb, "!n%d", len(outs))
		} else {
			for j, o := range outs {
				if j > 0 {
					sb.WriteByte(',')
				}
				sb.WriteString(spanOrBad(data, on[j], o.Cbor()))
			}
		}
		fmt.Fprintf(&sb, " h=%s", okbad(body.Id() == sum256(data)))
		return sb.String()
	}
	tx, err := ledger.NewTransactionFromCbor(tt, data)
	if err != nil {
		return "dec=err"
	}
	bn, wn := root.kid(0), root.kid(1)
	var an *bnode
	var on []*bnode
	switch era {
	case "byron":
		if o := bn.kid(1); o != nil {
			on = o.kids
		}
	default:
		an = root.kid(len(root.kids) - 1)
		if era != "dijkstra" && len(root.kids) < 3 {
			an = nil
		}
		if an != nil && an.major == 7 {
			an = nil
		}
		if o := bn.mapGet(1); o != nil {
			on = o.kids
		}
	}
	var sb strings.Builder
	body, _ := fieldCbor(tx, "Body")
	wit, okw := fieldCbor(tx, "WitnessSet")
	if !okw {
		wit, _ = fieldCbor(tx, "twitCbor")
	}
	fmt.Fprintf(&sb, "dec=ok tx=%s|B%s W%s", spanOrBad(data, root, tx.Cbor()), spanOrBad(data, bn, body), spanOrBad(data, wn, wit))
	var raw []byte
	if aux := tx.AuxiliaryData(); aux != nil {
		raw = aux.Cbor()
	}
	switch {
	case an == nil && len(raw) == 0:
		sb.WriteString(" M-")
	case an == nil:
		fmt.Fprintf(&sb, " M!%d", len(raw))
	default:
		fmt.Fprintf(&sb, " M%s", spanOrBad(data, an, raw))
	}
	sb.WriteString(" O")
	outs := tx.Outputs()
	if len(outs) != len(on) {
		fmt.Fprintf(&sb, "!n%d", len(outs))
	} else {
		for j, o := range outs {
			if j > 0 {
				sb.WriteByte(',')
			}
			sb.WriteString(spanOrBad(data, on[j], o.Cbor()))
		}
	}
	hok := body != nil && tx.Hash() == sum256(body) && tx.Id() == sum256(body)
	fmt.Fprintf(&sb, " h=%s enc=%s", okbad(hok), okbad(encEq(tx, data)))
	return sb.String()
}
