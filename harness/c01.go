package main

// C01 — decoded blocks and transactions keep their exact wire bytes.
//
// op:  blk <era> <form-vector description> <hex of the (re-encoded) block>
// out: dec=err | dec=ok blk=<span> hdr=<span> tx=<n>|B<span> W<span> M<span> O<span>,...|... h=<ok|bad:..>
// op:  enc <kind> <era> <description> <hex>      kind = blk | hdr | body | wit | out
// out: dec=err | enc=ok | enc=bad:<first failing component>
// op:  tx <era> <description> <hex of a standalone transaction>   (ledger.NewTransactionFromCbor)
// out: dec=err | dec=ok tx=<span>|B<span> W<span> M<span|-> O<span>,... h=<ok|bad> enc=<ok|bad>
// op:  body <era> <description> <hex of a standalone transaction body>  (ledger.NewTransactionBodyFromCbor)
// out: dec=err | dec=ok body=<span> O<span>,... h=<ok|bad>
// op:  reuse <kind> <era> <description> <hexA> <hexB>    kind = hdr | blk | tx | body
//      decode A with the library constructor, observe Cbor()/Hash() (fills the caches), then
//      decode B INTO THE SAME OBJECT (cbor.Decode(B, obj)) and observe again
// out: dec=err | dec=ok A:h=<ok|bad> B:err | dec=ok A:h=<ok|bad> B:st=<ok|!len> h=<ok|bad>
//      st = the stored bytes are exactly B (no stale tail, no stale prefix); h = the identifier
//      is Blake2b-256 of the stored bytes of the LAST decode
// op:  hdr <era> <description> <hex of a standalone block header>  (ledger.NewBlockHeaderFromCbor)
// out: dec=err | dec=ok hdr=<span> h=<ok|bad> enc=<ok|bad>
//
// A <span> is "o+l" when the component's stored bytes (Cbor()) are exactly
// data[o:o+l], where [o,o+l) is the component's span found by the harness' own
// CBOR parser; otherwise "!<len of Cbor()>" (nil: "!nil").
// h:   Hash()/Id() of block, header and every transaction equal Blake2b-256
//      (golang.org/x/crypto, computed here) of the stored bytes.
// enc: cbor.Encode of the unmodified decoded block/header/body/witness set/output
//      reproduces the stored bytes.

import (
	"bytes"
	"fmt"
	"reflect"
	"strings"
	"time"

	"github.com/blinklabs-io/gouroboros/cbor"
	"github.com/blinklabs-io/gouroboros/ledger"
	"github.com/blinklabs-io/gouroboros/ledger/common"
	"golang.org/x/crypto/blake2b"
)

func init() {
	// generous per-op deadline: verdicts must not depend on machine load
	register(&Prop{ID: "C01", Gen: genC01, Run: runC01, Timeout: 3 * time.Minute})
}

func genC01(r *Rand, n int, tier string, emit func(string)) {
	// same re-encoded real blocks as C07, different stream
	r2 := NewRand(r.U64() ^ 0xC01)
	kinds := []string{"blk", "hdr", "body", "wit", "out"}
	i := 0
	nStandalone := n / 4
	g10bGenStandalone(r2, nStandalone, emit)
	nReuse := n / 6
	g10bGenReuse(r2, nReuse, emit)
	genC07(r2, n-nStandalone-nReuse, tier, func(op string) {
		i++
		if i%3 == 0 && strings.HasPrefix(op, "blk ") {
			emit("enc " + kinds[(i/3)%5] + " " + op[4:])
			return
		}
		emit(op)
	})
}

func spanOrBad(data []byte, n *bnode, stored []byte) string {
	if stored == nil {
		return "!nil"
	}
	if n == nil || n.end > len(data) || !bytes.Equal(data[n.off:n.end], stored) {
		return fmt.Sprintf("!%d", len(stored))
	}
	return fmt.Sprintf("%d+%d", n.off, n.end-n.off)
}

// txNodes returns the body / witness / aux / outputs nodes of transaction i.
func c01TxNodes(era string, root *bnode, i int) (body, wit, aux *bnode, outs []*bnode) {
	switch era {
	case "byron":
		pair := root.kid(1).kid(0).kid(i)
		body, wit = pair.kid(0), pair.kid(1)
		if o := body.kid(1); o != nil {
			outs = o.kids
		}
		return
	case "dijkstra":
		tx := root.kid(1).kid(1).kid(i)
		body, wit, aux = tx.kid(0), tx.kid(1), tx.kid(2)
		if aux != nil && aux.major == 7 {
			aux = nil
		}
	default:
		body, wit = root.kid(1).kid(i), root.kid(2).kid(i)
		aux = root.kid(3).mapGet(uint64(i))
	}
	if o := body.mapGet(1); o != nil {
		outs = o.kids
	}
	return
}

func sum256(b []byte) common.Blake2b256 {
	h := blake2b.Sum256(b)
	return common.Blake2b256(h)
}

func encEq(obj any, want []byte) bool {
	got, err := cbor.Encode(obj)
	return err == nil && bytes.Equal(got, want)
}

func fieldPtr(obj any, name string) any {
	v := reflect.ValueOf(obj)
	if v.Kind() != reflect.Pointer || v.Elem().Kind() != reflect.Struct {
		return nil
	}
	f := v.Elem().FieldByName(name)
	if !f.IsValid() || !f.CanAddr() || !f.CanInterface() {
		return nil
	}
	return f.Addr().Interface()
}

func runC01(op string) string {
	f := strings.Fields(op)
	if len(f) == 6 && f[0] == "reuse" {
		return g10bRunReuse(f)
	}
	if len(f) == 4 && (f[0] == "tx" || f[0] == "hdr" || f[0] == "body") {
		return g10bRunStandalone(f)
	}
	encKind := ""
	if len(f) == 5 && f[0] == "enc" {
		encKind = f[1]
		f = append([]string{"blk"}, f[2:]...)
	}
	if len(f) != 4 || f[0] != "blk" {
		return "bad-op"
	}
	era := f[1]
	bt, ok := eraBlockType[era]
	data, ok2 := unhex(f[3])
	if !ok || !ok2 {
		return "bad-op"
	}
	root, perr := parseCborAll(data)
	blk, err := ledger.NewBlockFromCbor(bt, data, common.VerifyConfig{SkipBodyHashValidation: true})
	if err != nil || perr != nil {
		return "dec=err"
	}
	var hbad, ebad []string
	var sb strings.Builder
	fmt.Fprintf(&sb, "dec=ok blk=%s", spanOrBad(data, root, blk.Cbor()))
	if encKind == "blk" && !encEq(blk, blk.Cbor()) {
		ebad = append(ebad, "blk")
	}
	hdr := blk.Header()
	hn := root.kid(0)
	fmt.Fprintf(&sb, " hdr=%s", spanOrBad(data, hn, hdr.Cbor()))
	if encKind == "hdr" && !encEq(hdr, hdr.Cbor()) {
		ebad = append(ebad, "hdr")
	}
	hpre := hdr.Cbor()
	if era == "byron" {
		hpre = append([]byte{0x82, 0x01}, hpre...)
	}
	if hdr.Hash() != sum256(hpre) || blk.Hash() != hdr.Hash() {
		hbad = append(hbad, "hdr")
	}
	txs := blk.Transactions()
	fmt.Fprintf(&sb, " tx=%d", len(txs))
	for i, tx := range txs {
		bn, wn, an, on := c01TxNodes(era, root, i)
		body, _ := fieldCbor(tx, "Body")
		wit, okw := fieldCbor(tx, "WitnessSet")
		if !okw {
			wit, _ = fieldCbor(tx, "twitCbor")
		}
		fmt.Fprintf(&sb, "|B%s W%s", spanOrBad(data, bn, body), spanOrBad(data, wn, wit))
		raw, has := rawMetadataOf(blk, tx, i)
		switch {
		case an == nil && (!has || len(raw) == 0):
			sb.WriteString(" M-")
		case an == nil:
			fmt.Fprintf(&sb, " M!%d", len(raw))
		default:
			fmt.Fprintf(&sb, " M%s", spanOrBad(data, an, raw))
		}
		sb.WriteString(" O")
		outs := tx.Outputs()
		if len(outs) != len(on) {
			fmt.Fprintf(&sb, "!n%d", len(outs))
		} else {
			for j, o := range outs {
				if j > 0 {
					sb.WriteByte(',')
				}
				sb.WriteString(spanOrBad(data, on[j], o.Cbor()))
				if encKind == "out" && len(ebad) < 1 && !encEq(g10bAddressable(o), o.Cbor()) {
					// the concrete Go type of THIS output decides (with GV.Gen.Preserve) whether
					// the failure belongs to the recorded class reencode-out
					ebad = append(ebad, fmt.Sprintf("tx%d.out%d:%s", i, j, g10bTypeName(o)))
				}
			}
		}
		if body != nil {
			if tx.Hash() != sum256(body) || tx.Id() != sum256(body) {
				hbad = append(hbad, fmt.Sprintf("tx%d", i))
			}
			if bp := fieldPtr(tx, "Body"); encKind == "body" && bp != nil && len(ebad) < 1 && !encEq(bp, body) {
				ebad = append(ebad, fmt.Sprintf("tx%d.body", i))
			}
		}
		if wit != nil {
			if wp := fieldPtr(tx, "WitnessSet"); encKind == "wit" && wp != nil && len(ebad) < 1 && !encEq(wp, wit) {
				ebad = append(ebad, fmt.Sprintf("tx%d.wit", i))
			}
		}
	}
	if encKind != "" {
		if len(ebad) > 0 {
			return "enc=bad:" + strings.Join(ebad, ",")
		}
		return "enc=ok"
	}
	h := "ok"
	if len(hbad) > 0 {
		h = "bad:" + strings.Join(hbad, ",")
	}
	fmt.Fprintf(&sb, " h=%s", h)
	return sb.String()
}

var g10bTxType = map[string]uint{
	"byron": 0, "shelley": 1, "allegra": 2, "mary": 3, "alonzo": 4, "babbage": 5, "conway": 6, "dijkstra": 7,
}

// g10bTxEnvelope builds the standalone encoding of transaction i of a block tree.
func g10bTxEnvelope(era string, root *bnode, i int) *bnode {
	null := &bnode{major: 7, payload: []byte{0xf6}}
	switch era {
	case "byron":
		return root.kid(1).kid(0).kid(i)
	case "dijkstra":
		return root.kid(1).kid(1).kid(i)
	}
	body, wit := root.kid(1).kid(i), root.kid(2).kid(i)
	if body == nil || wit == nil {
		return nil
	}
	aux := root.kid(3).mapGet(uint64(i))
	if aux == nil {
		aux = null
	}
	switch era {
	case "shelley", "allegra", "mary":
		return &bnode{major: 4, kids: []*bnode{body, wit, aux}}
	}
	return &bnode{major: 4, kids: []*bnode{body, wit, {major: 7, payload: []byte{0xf5}}, aux}}
}

func g10bGenStandalone(r *Rand, n int, emit func(string)) {
	fx, err := fixtures()
	if err != nil {
		return
	}
	for c := 0; c < n; c++ {
		f := fx[r.Intn(len(fx))]
		root, err := parseCborAll(f.data)
		if err != nil {
			continue
		}
		var node *bnode
		kind := "tx"
		if r.Chance(1, 4) {
			kind = "hdr"
			node = root.kid(0)
		} else if f.era != "byron" && r.Chance(1, 3) {
			// standalone transaction body (Byron has no body decoder)
			kind = "body"
			var bodies *bnode
			if f.era == "dijkstra" {
				if t := root.kid(1).kid(1); t != nil && len(t.kids) > 0 {
					bodies = &bnode{major: 4}
					for _, tx := range t.kids {
						bodies.kids = append(bodies.kids, tx.kid(0))
					}
				}
			} else {
				bodies = root.kid(1)
			}
			if bodies == nil || len(bodies.kids) == 0 {
				continue
			}
			node = bodies.kids[r.Intn(len(bodies.kids))]
		} else {
			ntx := 0
			switch f.era {
			case "byron":
				ntx = len(root.kid(1).kid(0).kids)
			case "dijkstra":
				if t := root.kid(1).kid(1); t != nil {
					ntx = len(t.kids)
				}
			default:
				ntx = len(root.kid(1).kids)
			}
			if ntx == 0 {
				continue
			}
			node = g10bTxEnvelope(f.era, root, r.Intn(ntx))
		}
		if node == nil {
			continue
		}
		var desc []string
		switch r.Intn(4) {
		case 0:
		case 1:
			form := c07Forms[r.Intn(5)]
			node.setForm(form)
			desc = append(desc, "top:"+form)
		default:
			depth := Pick(r, 1, 2, 3, 4, 6)
			den := Pick(r, 1, 2, 4)
			for _, c := range collect(node, depth, isContainer) {
				if r.Chance(1, den) {
					form := c07Forms[r.Intn(6)]
					c.n.setForm(form)
					if len(desc) < 8 {
						desc = append(desc, c.path+":"+form)
					}
				}
			}
			desc = append(desc, fmt.Sprintf("many(d%d,1/%d)", depth, den))
		}
		d := strings.Join(desc, ",")
		if d == "" {
			d = "orig"
		}
		emit(fmt.Sprintf("%s %s %s %s", kind, f.era, d, hexs(node.bytes())))
	}
}

func g10bRunStandalone(f []string) string {
	era := f[1]
	data, ok := unhex(f[3])
	if !ok {
		return "bad-op"
	}
	root, perr := parseCborAll(data)
	if perr != nil {
		return "dec=err"
	}
	okbad := func(b bool) string {
		if b {
			return "ok"
		}
		return "bad"
	}
	if f[0] == "hdr" {
		bt, ok := eraBlockType[era]
		if !ok {
			return "bad-op"
		}
		hdr, err := ledger.NewBlockHeaderFromCbor(bt, data)
		if err != nil {
			return "dec=err"
		}
		pre := hdr.Cbor()
		if era == "byron" {
			pre = append([]byte{0x82, 0x01}, pre...)
		}
		return fmt.Sprintf("dec=ok hdr=%s h=%s enc=%s", spanOrBad(data, root, hdr.Cbor()),
			okbad(hdr.Hash() == sum256(pre)), okbad(encEq(hdr, data)))
	}
	tt, ok := g10bTxType[era]
	if !ok {
		return "bad-op"
	}
	if f[0] == "body" {
		body, err := ledger.NewTransactionBodyFromCbor(tt, data)
		if err != nil {
			return "dec=err"
		}
		var sb strings.Builder
		fmt.Fprintf(&sb, "dec=ok body=%s O", spanOrBad(data, root, body.Cbor()))
		var on []*bnode
		if o := root.mapGet(1); o != nil {
			on = o.kids
		}
		outs := body.Outputs()
		if len(outs) != len(on) {
			fmt.Fprintf(&sb, "!n%d", len(outs))
		} else {
			for j, o := range outs {
				if j > 0 {
					sb.WriteByte(',')
				}
				sb.WriteString(spanOrBad(data, on[j], o.Cbor()))
			}
		}
		fmt.Fprintf(&sb, " h=%s", okbad(body.Id() == sum256(data)))
		return sb.String()
	}
	tx, err := ledger.NewTransactionFromCbor(tt, data)
	if err != nil {
		return "dec=err"
	}
	bn, wn := root.kid(0), root.kid(1)
	var an *bnode
	var on []*bnode
	switch era {
	case "byron":
		if o := bn.kid(1); o != nil {
			on = o.kids
		}
	default:
		an = root.kid(len(root.kids) - 1)
		if era != "dijkstra" && len(root.kids) < 3 {
			an = nil
		}
		if an != nil && an.major == 7 {
			an = nil
		}
		if o := bn.mapGet(1); o != nil {
			on = o.kids
		}
	}
	var sb strings.Builder
	body, _ := fieldCbor(tx, "Body")
	wit, okw := fieldCbor(tx, "WitnessSet")
	if !okw {
		wit, _ = fieldCbor(tx, "twitCbor")
	}
	fmt.Fprintf(&sb, "dec=ok tx=%s|B%s W%s", spanOrBad(data, root, tx.Cbor()), spanOrBad(data, bn, body), spanOrBad(data, wn, wit))
	var raw []byte
	if aux := tx.AuxiliaryData(); aux != nil {
		raw = aux.Cbor()
	}
	switch {
	case an == nil && len(raw) == 0:
		sb.WriteString(" M-")
	case an == nil:
		fmt.Fprintf(&sb, " M!%d", len(raw))
	default:
		fmt.Fprintf(&sb, " M%s", spanOrBad(data, an, raw))
	}
	sb.WriteString(" O")
	outs := tx.Outputs()
	if len(outs) != len(on) {
		fmt.Fprintf(&sb, "!n%d", len(outs))
	} else {
		for j, o := range outs {
			if j > 0 {
				sb.WriteByte(',')
			}
			sb.WriteString(spanOrBad(data, on[j], o.Cbor()))
		}
	}
	hok := body != nil && tx.Hash() == sum256(body) && tx.Id() == sum256(body)
	fmt.Fprintf(&sb, " h=%s enc=%s", okbad(hok), okbad(encEq(tx, data)))
	return sb.String()
}

// g10bReencode applies a random form vector to a copy of the item.
func g10bReencode(r *Rand, item []byte) ([]byte, string) {
	n, err := parseCborAll(item)
	if err != nil {
		return item, "orig"
	}
	switch r.Intn(3) {
	case 0:
		return item, "orig"
	case 1:
		form := c07Forms[r.Intn(5)]
		n.setForm(form)
		return n.bytes(), "top:" + form
	}
	depth := Pick(r, 1, 2, 3, 5)
	for _, c := range collect(n, depth, isContainer) {
		if r.Chance(1, 2) {
			c.n.setForm(c07Forms[r.Intn(6)])
		}
	}
	return n.bytes(), fmt.Sprintf("many(d%d)", depth)
}

// header-compatible eras (same Go header struct)
var g10bHdrFamily = map[string][]string{
	"byron": {"byron"}, "shelley": {"shelley", "allegra", "mary", "alonzo"}, "allegra": {"shelley", "allegra", "mary", "alonzo"},
	"mary": {"shelley", "allegra", "mary", "alonzo"}, "alonzo": {"shelley", "allegra", "mary", "alonzo"},
	"babbage": {"babbage", "conway"}, "conway": {"babbage", "conway"}, "dijkstra": {"dijkstra", "babbage", "conway"},
}

// g10bGenReuse: object-reuse sequences (decode A, observe, decode B into the same object, observe).
func g10bGenReuse(r *Rand, n int, emit func(string)) {
	fx, err := fixtures()
	if err != nil {
		return
	}
	byEra := map[string][]*bnode{}
	for _, f := range fx {
		if root, err := parseCborAll(f.data); err == nil {
			byEra[f.era] = append(byEra[f.era], root)
		}
	}
	txCount := func(era string, root *bnode) int {
		switch era {
		case "byron":
			return len(root.kid(1).kid(0).kids)
		case "dijkstra":
			if t := root.kid(1).kid(1); t != nil {
				return len(t.kids)
			}
			return 0
		}
		return len(root.kid(1).kids)
	}
	for c := 0; c < n; c++ {
		era := g10bEras[r.Intn(len(g10bEras))]
		roots := byEra[era]
		if len(roots) == 0 {
			continue
		}
		rootA := roots[r.Intn(len(roots))]
		kind := Pick(r, "hdr", "hdr", "blk", "tx", "tx", "body")
		var a, b []byte
		switch kind {
		case "hdr":
			a = rootA.kid(0).bytes()
			fam := g10bHdrFamily[era]
			other := byEra[fam[r.Intn(len(fam))]]
			if len(other) == 0 {
				continue
			}
			b = other[r.Intn(len(other))].kid(0).bytes()
		case "blk":
			a = rootA.bytes()
			b = roots[r.Intn(len(roots))].bytes()
		case "tx", "body":
			nt := txCount(era, rootA)
			if nt == 0 || (kind == "body" && era == "byron") {
				continue
			}
			pick := func() []byte {
				env := g10bTxEnvelope(era, rootA, r.Intn(nt))
				if env == nil {
					return nil
				}
				if kind == "body" {
					return env.kid(0).bytes()
				}
				return env.bytes()
			}
			a, b = pick(), pick()
			if a == nil || b == nil {
				continue
			}
		}
		var da, db string
		a, da = g10bReencode(r, a)
		b, db = g10bReencode(r, b)
		// make sure both "B longer" and "B shorter than A" occur
		if r.Chance(1, 3) && len(b) > len(a) {
			a, b, da, db = b, a, db, da
		}
		emit(fmt.Sprintf("reuse %s %s %s/%s %s %s", kind, era, da, db, hexs(a), hexs(b)))
	}
}

type g10bHasher interface{ Hash() common.Blake2b256 }
type g10bIder interface{ Id() common.Blake2b256 }

func g10bRunReuse(f []string) string {
	kind, era := f[1], f[2]
	a, ok1 := unhex(f[4])
	b, ok2 := unhex(f[5])
	if !ok1 || !ok2 {
		return "bad-op"
	}
	var obj any
	var err error
	switch kind {
	case "hdr":
		obj, err = ledger.NewBlockHeaderFromCbor(eraBlockType[era], a)
	case "blk":
		obj, err = ledger.NewBlockFromCbor(eraBlockType[era], a, common.VerifyConfig{SkipBodyHashValidation: true})
	case "tx":
		obj, err = ledger.NewTransactionFromCbor(g10bTxType[era], a)
	case "body":
		obj, err = ledger.NewTransactionBodyFromCbor(g10bTxType[era], a)
	default:
		return "bad-op"
	}
	if err != nil || obj == nil {
		return "dec=err"
	}
	// the bytes the identifier of this object covers
	idBytes := func() []byte {
		switch kind {
		case "hdr":
			c := obj.(cborer).Cbor()
			if era == "byron" {
				return append([]byte{0x82, 0x01}, c...)
			}
			return c
		case "blk":
			c := obj.(common.Block).Header().Cbor()
			if era == "byron" {
				return append([]byte{0x82, 0x01}, c...)
			}
			return c
		case "tx":
			body, _ := fieldCbor(obj, "Body")
			return body
		}
		return obj.(cborer).Cbor()
	}
	ident := func() common.Blake2b256 {
		if h, ok := obj.(g10bHasher); ok {
			return h.Hash()
		}
		return obj.(g10bIder).Id()
	}
	okbad := func(b bool) string {
		if b {
			return "ok"
		}
		return "bad"
	}
	ha := ident() == sum256(idBytes())
	if kind == "tx" || kind == "blk" {
		// fill the caches of the nested objects too
		if t, ok := obj.(common.Transaction); ok {
			_ = t.Id()
		}
		if bl, ok := obj.(common.Block); ok {
			for _, t := range bl.Transactions() {
				_ = t.Hash()
			}
		}
	}
	if _, err := cbor.Decode(b, obj); err != nil {
		return fmt.Sprintf("dec=ok A:h=%s B:err", okbad(ha))
	}
	stored := obj.(cborer).Cbor()
	st := "ok"
	if !bytes.Equal(stored, b) {
		st = fmt.Sprintf("!%d", len(stored))
	}
	hb := ident() == sum256(idBytes())
	if bl, ok := obj.(common.Block); ok && hb {
		// every transaction of the re-decoded block must identify by ITS body bytes
		for _, t := range bl.Transactions() {
			if body, ok := fieldCbor(t, "Body"); ok && body != nil && t.Hash() != sum256(body) {
				hb = false
			}
		}
	}
	return fmt.Sprintf("dec=ok A:h=%s B:st=%s h=%s", okbad(ha), st, okbad(hb))
}

// g10bAddressable returns a pointer to (a copy of) v when v is not a pointer, so that
// cbor.Encode finds pointer-receiver MarshalCBOR methods: re-serialisation then depends on
// the type alone, not on how the value happens to be held.
func g10bAddressable(v any) any {
	rv := reflect.ValueOf(v)
	if !rv.IsValid() || rv.Kind() == reflect.Pointer {
		return v
	}
	p := reflect.New(rv.Type())
	p.Elem().Set(rv)
	return p.Interface()
}
